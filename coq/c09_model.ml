
(** val negb : bool -> bool **)

let negb = function
| true -> false
| false -> true

type nat =
| O
| S of nat

(** val fst : ('a1 * 'a2) -> 'a1 **)

let fst = function
| (x, _) -> x

(** val snd : ('a1 * 'a2) -> 'a2 **)

let snd = function
| (_, y) -> y

(** val length : 'a1 list -> nat **)

let rec length = function
| [] -> O
| _ :: l' -> S (length l')

(** val app : 'a1 list -> 'a1 list -> 'a1 list **)

let rec app l m =
  match l with
  | [] -> m
  | a :: l1 -> a :: (app l1 m)

type comparison =
| Eq
| Lt
| Gt

(** val compOpp : comparison -> comparison **)

let compOpp = function
| Eq -> Eq
| Lt -> Gt
| Gt -> Lt

(** val add : nat -> nat -> nat **)

let rec add n0 m =
  match n0 with
  | O -> m
  | S p -> S (add p m)

type byte =
| X00
| X01
| X02
| X03
| X04
| X05
| X06
| X07
| X08
| X09
| X0a
| X0b
| X0c
| X0d
| X0e
| X0f
| X10
| X11
| X12
| X13
| X14
| X15
| X16
| X17
| X18
| X19
| X1a
| X1b
| X1c
| X1d
| X1e
| X1f
| X20
| X21
| X22
| X23
| X24
| X25
| X26
| X27
| X28
| X29
| X2a
| X2b
| X2c
| X2d
| X2e
| X2f
| X30
| X31
| X32
| X33
| X34
| X35
| X36
| X37
| X38
| X39
| X3a
| X3b
| X3c
| X3d
| X3e
| X3f
| X40
| X41
| X42
| X43
| X44
| X45
| X46
| X47
| X48
| X49
| X4a
| X4b
| X4c
| X4d
| X4e
| X4f
| X50
| X51
| X52
| X53
| X54
| X55
| X56
| X57
| X58
| X59
| X5a
| X5b
| X5c
| X5d
| X5e
| X5f
| X60
| X61
| X62
| X63
| X64
| X65
| X66
| X67
| X68
| X69
| X6a
| X6b
| X6c
| X6d
| X6e
| X6f
| X70
| X71
| X72
| X73
| X74
| X75
| X76
| X77
| X78
| X79
| X7a
| X7b
| X7c
| X7d
| X7e
| X7f
| X80
| X81
| X82
| X83
| X84
| X85
| X86
| X87
| X88
| X89
| X8a
| X8b
| X8c
| X8d
| X8e
| X8f
| X90
| X91
| X92
| X93
| X94
| X95
| X96
| X97
| X98
| X99
| X9a
| X9b
| X9c
| X9d
| X9e
| X9f
| Xa0
| Xa1
| Xa2
| Xa3
| Xa4
| Xa5
| Xa6
| Xa7
| Xa8
| Xa9
| Xaa
| Xab
| Xac
| Xad
| Xae
| Xaf
| Xb0
| Xb1
| Xb2
| Xb3
| Xb4
| Xb5
| Xb6
| Xb7
| Xb8
| Xb9
| Xba
| Xbb
| Xbc
| Xbd
| Xbe
| Xbf
| Xc0
| Xc1
| Xc2
| Xc3
| Xc4
| Xc5
| Xc6
| Xc7
| Xc8
| Xc9
| Xca
| Xcb
| Xcc
| Xcd
| Xce
| Xcf
| Xd0
| Xd1
| Xd2
| Xd3
| Xd4
| Xd5
| Xd6
| Xd7
| Xd8
| Xd9
| Xda
| Xdb
| Xdc
| Xdd
| Xde
| Xdf
| Xe0
| Xe1
| Xe2
| Xe3
| Xe4
| Xe5
| Xe6
| Xe7
| Xe8
| Xe9
| Xea
| Xeb
| Xec
| Xed
| Xee
| Xef
| Xf0
| Xf1
| Xf2
| Xf3
| Xf4
| Xf5
| Xf6
| Xf7
| Xf8
| Xf9
| Xfa
| Xfb
| Xfc
| Xfd
| Xfe
| Xff

module Nat =
 struct
  (** val eqb : nat -> nat -> bool **)

  let rec eqb n0 m =
    match n0 with
    | O -> (match m with
            | O -> true
            | S _ -> false)
    | S n' -> (match m with
               | O -> false
               | S m' -> eqb n' m')

  (** val leb : nat -> nat -> bool **)

  let rec leb n0 m =
    match n0 with
    | O -> true
    | S n' -> (match m with
               | O -> false
               | S m' -> leb n' m')

  (** val ltb : nat -> nat -> bool **)

  let ltb n0 m =
    leb (S n0) m
 end

(** val nth_error : 'a1 list -> nat -> 'a1 option **)

let rec nth_error l = function
| O -> (match l with
        | [] -> None
        | x :: _ -> Some x)
| S n1 -> (match l with
           | [] -> None
           | _ :: l0 -> nth_error l0 n1)

(** val map : ('a1 -> 'a2) -> 'a1 list -> 'a2 list **)

let rec map f = function
| [] -> []
| a :: t -> (f a) :: (map f t)

(** val flat_map : ('a1 -> 'a2 list) -> 'a1 list -> 'a2 list **)

let rec flat_map f = function
| [] -> []
| x :: t -> app (f x) (flat_map f t)

(** val fold_left : ('a1 -> 'a2 -> 'a1) -> 'a2 list -> 'a1 -> 'a1 **)

let rec fold_left f l a0 =
  match l with
  | [] -> a0
  | b :: t -> fold_left f t (f a0 b)

(** val fold_right : ('a2 -> 'a1 -> 'a1) -> 'a1 -> 'a2 list -> 'a1 **)

let rec fold_right f a0 = function
| [] -> a0
| b :: t -> f b (fold_right f a0 t)

(** val existsb : ('a1 -> bool) -> 'a1 list -> bool **)

let rec existsb f = function
| [] -> false
| a :: l0 -> (||) (f a) (existsb f l0)

(** val combine : 'a1 list -> 'a2 list -> ('a1 * 'a2) list **)

let rec combine l l' =
  match l with
  | [] -> []
  | x :: tl ->
    (match l' with
     | [] -> []
     | y :: tl' -> (x, y) :: (combine tl tl'))

(** val seq : nat -> nat -> nat list **)

let rec seq start = function
| O -> []
| S len0 -> start :: (seq (S start) len0)

type positive =
| XI of positive
| XO of positive
| XH

type n =
| N0
| Npos of positive

type z =
| Z0
| Zpos of positive
| Zneg of positive

module Pos =
 struct
  (** val succ : positive -> positive **)

  let rec succ = function
  | XI p -> XO (succ p)
  | XO p -> XI p
  | XH -> XO XH

  (** val add : positive -> positive -> positive **)

  let rec add x y =
    match x with
    | XI p ->
      (match y with
       | XI q -> XO (add_carry p q)
       | XO q -> XI (add p q)
       | XH -> XO (succ p))
    | XO p ->
      (match y with
       | XI q -> XI (add p q)
       | XO q -> XO (add p q)
       | XH -> XI p)
    | XH -> (match y with
             | XI q -> XO (succ q)
             | XO q -> XI q
             | XH -> XO XH)

  (** val add_carry : positive -> positive -> positive **)

  and add_carry x y =
    match x with
    | XI p ->
      (match y with
       | XI q -> XI (add_carry p q)
       | XO q -> XO (add_carry p q)
       | XH -> XI (succ p))
    | XO p ->
      (match y with
       | XI q -> XO (add_carry p q)
       | XO q -> XI (add p q)
       | XH -> XO (succ p))
    | XH ->
      (match y with
       | XI q -> XI (succ q)
       | XO q -> XO (succ q)
       | XH -> XI XH)

  (** val pred_double : positive -> positive **)

  let rec pred_double = function
  | XI p -> XI (XO p)
  | XO p -> XI (pred_double p)
  | XH -> XH

  (** val compare_cont : comparison -> positive -> positive -> comparison **)

  let rec compare_cont r x y =
    match x with
    | XI p ->
      (match y with
       | XI q -> compare_cont r p q
       | XO q -> compare_cont Gt p q
       | XH -> Gt)
    | XO p ->
      (match y with
       | XI q -> compare_cont Lt p q
       | XO q -> compare_cont r p q
       | XH -> Gt)
    | XH -> (match y with
             | XH -> r
             | _ -> Lt)

  (** val compare : positive -> positive -> comparison **)

  let compare =
    compare_cont Eq

  (** val eqb : positive -> positive -> bool **)

  let rec eqb p q =
    match p with
    | XI p0 -> (match q with
                | XI q0 -> eqb p0 q0
                | _ -> false)
    | XO p0 -> (match q with
                | XO q0 -> eqb p0 q0
                | _ -> false)
    | XH -> (match q with
             | XH -> true
             | _ -> false)
 end

module N =
 struct
  (** val compare : n -> n -> comparison **)

  let compare n0 m =
    match n0 with
    | N0 -> (match m with
             | N0 -> Eq
             | Npos _ -> Lt)
    | Npos n' -> (match m with
                  | N0 -> Gt
                  | Npos m' -> Pos.compare n' m')

  (** val eqb : n -> n -> bool **)

  let eqb n0 m =
    match n0 with
    | N0 -> (match m with
             | N0 -> true
             | Npos _ -> false)
    | Npos p -> (match m with
                 | N0 -> false
                 | Npos q -> Pos.eqb p q)
 end

(** val to_N : byte -> n **)

let to_N = function
| X00 -> N0
| X01 -> Npos XH
| X02 -> Npos (XO XH)
| X03 -> Npos (XI XH)
| X04 -> Npos (XO (XO XH))
| X05 -> Npos (XI (XO XH))
| X06 -> Npos (XO (XI XH))
| X07 -> Npos (XI (XI XH))
| X08 -> Npos (XO (XO (XO XH)))
| X09 -> Npos (XI (XO (XO XH)))
| X0a -> Npos (XO (XI (XO XH)))
| X0b -> Npos (XI (XI (XO XH)))
| X0c -> Npos (XO (XO (XI XH)))
| X0d -> Npos (XI (XO (XI XH)))
| X0e -> Npos (XO (XI (XI XH)))
| X0f -> Npos (XI (XI (XI XH)))
| X10 -> Npos (XO (XO (XO (XO XH))))
| X11 -> Npos (XI (XO (XO (XO XH))))
| X12 -> Npos (XO (XI (XO (XO XH))))
| X13 -> Npos (XI (XI (XO (XO XH))))
| X14 -> Npos (XO (XO (XI (XO XH))))
| X15 -> Npos (XI (XO (XI (XO XH))))
| X16 -> Npos (XO (XI (XI (XO XH))))
| X17 -> Npos (XI (XI (XI (XO XH))))
| X18 -> Npos (XO (XO (XO (XI XH))))
| X19 -> Npos (XI (XO (XO (XI XH))))
| X1a -> Npos (XO (XI (XO (XI XH))))
| X1b -> Npos (XI (XI (XO (XI XH))))
| X1c -> Npos (XO (XO (XI (XI XH))))
| X1d -> Npos (XI (XO (XI (XI XH))))
| X1e -> Npos (XO (XI (XI (XI XH))))
| X1f -> Npos (XI (XI (XI (XI XH))))
| X20 -> Npos (XO (XO (XO (XO (XO XH)))))
| X21 -> Npos (XI (XO (XO (XO (XO XH)))))
| X22 -> Npos (XO (XI (XO (XO (XO XH)))))
| X23 -> Npos (XI (XI (XO (XO (XO XH)))))
| X24 -> Npos (XO (XO (XI (XO (XO XH)))))
| X25 -> Npos (XI (XO (XI (XO (XO XH)))))
| X26 -> Npos (XO (XI (XI (XO (XO XH)))))
| X27 -> Npos (XI (XI (XI (XO (XO XH)))))
| X28 -> Npos (XO (XO (XO (XI (XO XH)))))
| X29 -> Npos (XI (XO (XO (XI (XO XH)))))
| X2a -> Npos (XO (XI (XO (XI (XO XH)))))
| X2b -> Npos (XI (XI (XO (XI (XO XH)))))
| X2c -> Npos (XO (XO (XI (XI (XO XH)))))
| X2d -> Npos (XI (XO (XI (XI (XO XH)))))
| X2e -> Npos (XO (XI (XI (XI (XO XH)))))
| X2f -> Npos (XI (XI (XI (XI (XO XH)))))
| X30 -> Npos (XO (XO (XO (XO (XI XH)))))
| X31 -> Npos (XI (XO (XO (XO (XI XH)))))
| X32 -> Npos (XO (XI (XO (XO (XI XH)))))
| X33 -> Npos (XI (XI (XO (XO (XI XH)))))
| X34 -> Npos (XO (XO (XI (XO (XI XH)))))
| X35 -> Npos (XI (XO (XI (XO (XI XH)))))
| X36 -> Npos (XO (XI (XI (XO (XI XH)))))
| X37 -> Npos (XI (XI (XI (XO (XI XH)))))
| X38 -> Npos (XO (XO (XO (XI (XI XH)))))
| X39 -> Npos (XI (XO (XO (XI (XI XH)))))
| X3a -> Npos (XO (XI (XO (XI (XI XH)))))
| X3b -> Npos (XI (XI (XO (XI (XI XH)))))
| X3c -> Npos (XO (XO (XI (XI (XI XH)))))
| X3d -> Npos (XI (XO (XI (XI (XI XH)))))
| X3e -> Npos (XO (XI (XI (XI (XI XH)))))
| X3f -> Npos (XI (XI (XI (XI (XI XH)))))
| X40 -> Npos (XO (XO (XO (XO (XO (XO XH))))))
| X41 -> Npos (XI (XO (XO (XO (XO (XO XH))))))
| X42 -> Npos (XO (XI (XO (XO (XO (XO XH))))))
| X43 -> Npos (XI (XI (XO (XO (XO (XO XH))))))
| X44 -> Npos (XO (XO (XI (XO (XO (XO XH))))))
| X45 -> Npos (XI (XO (XI (XO (XO (XO XH))))))
| X46 -> Npos (XO (XI (XI (XO (XO (XO XH))))))
| X47 -> Npos (XI (XI (XI (XO (XO (XO XH))))))
| X48 -> Npos (XO (XO (XO (XI (XO (XO XH))))))
| X49 -> Npos (XI (XO (XO (XI (XO (XO XH))))))
| X4a -> Npos (XO (XI (XO (XI (XO (XO XH))))))
| X4b -> Npos (XI (XI (XO (XI (XO (XO XH))))))
| X4c -> Npos (XO (XO (XI (XI (XO (XO XH))))))
| X4d -> Npos (XI (XO (XI (XI (XO (XO XH))))))
| X4e -> Npos (XO (XI (XI (XI (XO (XO XH))))))
| X4f -> Npos (XI (XI (XI (XI (XO (XO XH))))))
| X50 -> Npos (XO (XO (XO (XO (XI (XO XH))))))
| X51 -> Npos (XI (XO (XO (XO (XI (XO XH))))))
| X52 -> Npos (XO (XI (XO (XO (XI (XO XH))))))
| X53 -> Npos (XI (XI (XO (XO (XI (XO XH))))))
| X54 -> Npos (XO (XO (XI (XO (XI (XO XH))))))
| X55 -> Npos (XI (XO (XI (XO (XI (XO XH))))))
| X56 -> Npos (XO (XI (XI (XO (XI (XO XH))))))
| X57 -> Npos (XI (XI (XI (XO (XI (XO XH))))))
| X58 -> Npos (XO (XO (XO (XI (XI (XO XH))))))
| X59 -> Npos (XI (XO (XO (XI (XI (XO XH))))))
| X5a -> Npos (XO (XI (XO (XI (XI (XO XH))))))
| X5b -> Npos (XI (XI (XO (XI (XI (XO XH))))))
| X5c -> Npos (XO (XO (XI (XI (XI (XO XH))))))
| X5d -> Npos (XI (XO (XI (XI (XI (XO XH))))))
| X5e -> Npos (XO (XI (XI (XI (XI (XO XH))))))
| X5f -> Npos (XI (XI (XI (XI (XI (XO XH))))))
| X60 -> Npos (XO (XO (XO (XO (XO (XI XH))))))
| X61 -> Npos (XI (XO (XO (XO (XO (XI XH))))))
| X62 -> Npos (XO (XI (XO (XO (XO (XI XH))))))
| X63 -> Npos (XI (XI (XO (XO (XO (XI XH))))))
| X64 -> Npos (XO (XO (XI (XO (XO (XI XH))))))
| X65 -> Npos (XI (XO (XI (XO (XO (XI XH))))))
| X66 -> Npos (XO (XI (XI (XO (XO (XI XH))))))
| X67 -> Npos (XI (XI (XI (XO (XO (XI XH))))))
| X68 -> Npos (XO (XO (XO (XI (XO (XI XH))))))
| X69 -> Npos (XI (XO (XO (XI (XO (XI XH))))))
| X6a -> Npos (XO (XI (XO (XI (XO (XI XH))))))
| X6b -> Npos (XI (XI (XO (XI (XO (XI XH))))))
| X6c -> Npos (XO (XO (XI (XI (XO (XI XH))))))
| X6d -> Npos (XI (XO (XI (XI (XO (XI XH))))))
| X6e -> Npos (XO (XI (XI (XI (XO (XI XH))))))
| X6f -> Npos (XI (XI (XI (XI (XO (XI XH))))))
| X70 -> Npos (XO (XO (XO (XO (XI (XI XH))))))
| X71 -> Npos (XI (XO (XO (XO (XI (XI XH))))))
| X72 -> Npos (XO (XI (XO (XO (XI (XI XH))))))
| X73 -> Npos (XI (XI (XO (XO (XI (XI XH))))))
| X74 -> Npos (XO (XO (XI (XO (XI (XI XH))))))
| X75 -> Npos (XI (XO (XI (XO (XI (XI XH))))))
| X76 -> Npos (XO (XI (XI (XO (XI (XI XH))))))
| X77 -> Npos (XI (XI (XI (XO (XI (XI XH))))))
| X78 -> Npos (XO (XO (XO (XI (XI (XI XH))))))
| X79 -> Npos (XI (XO (XO (XI (XI (XI XH))))))
| X7a -> Npos (XO (XI (XO (XI (XI (XI XH))))))
| X7b -> Npos (XI (XI (XO (XI (XI (XI XH))))))
| X7c -> Npos (XO (XO (XI (XI (XI (XI XH))))))
| X7d -> Npos (XI (XO (XI (XI (XI (XI XH))))))
| X7e -> Npos (XO (XI (XI (XI (XI (XI XH))))))
| X7f -> Npos (XI (XI (XI (XI (XI (XI XH))))))
| X80 -> Npos (XO (XO (XO (XO (XO (XO (XO XH)))))))
| X81 -> Npos (XI (XO (XO (XO (XO (XO (XO XH)))))))
| X82 -> Npos (XO (XI (XO (XO (XO (XO (XO XH)))))))
| X83 -> Npos (XI (XI (XO (XO (XO (XO (XO XH)))))))
| X84 -> Npos (XO (XO (XI (XO (XO (XO (XO XH)))))))
| X85 -> Npos (XI (XO (XI (XO (XO (XO (XO XH)))))))
| X86 -> Npos (XO (XI (XI (XO (XO (XO (XO XH)))))))
| X87 -> Npos (XI (XI (XI (XO (XO (XO (XO XH)))))))
| X88 -> Npos (XO (XO (XO (XI (XO (XO (XO XH)))))))
| X89 -> Npos (XI (XO (XO (XI (XO (XO (XO XH)))))))
| X8a -> Npos (XO (XI (XO (XI (XO (XO (XO XH)))))))
| X8b -> Npos (XI (XI (XO (XI (XO (XO (XO XH)))))))
| X8c -> Npos (XO (XO (XI (XI (XO (XO (XO XH)))))))
| X8d -> Npos (XI (XO (XI (XI (XO (XO (XO XH)))))))
| X8e -> Npos (XO (XI (XI (XI (XO (XO (XO XH)))))))
| X8f -> Npos (XI (XI (XI (XI (XO (XO (XO XH)))))))
| X90 -> Npos (XO (XO (XO (XO (XI (XO (XO XH)))))))
| X91 -> Npos (XI (XO (XO (XO (XI (XO (XO XH)))))))
| X92 -> Npos (XO (XI (XO (XO (XI (XO (XO XH)))))))
| X93 -> Npos (XI (XI (XO (XO (XI (XO (XO XH)))))))
| X94 -> Npos (XO (XO (XI (XO (XI (XO (XO XH)))))))
| X95 -> Npos (XI (XO (XI (XO (XI (XO (XO XH)))))))
| X96 -> Npos (XO (XI (XI (XO (XI (XO (XO XH)))))))
| X97 -> Npos (XI (XI (XI (XO (XI (XO (XO XH)))))))
| X98 -> Npos (XO (XO (XO (XI (XI (XO (XO XH)))))))
| X99 -> Npos (XI (XO (XO (XI (XI (XO (XO XH)))))))
| X9a -> Npos (XO (XI (XO (XI (XI (XO (XO XH)))))))
| X9b -> Npos (XI (XI (XO (XI (XI (XO (XO XH)))))))
| X9c -> Npos (XO (XO (XI (XI (XI (XO (XO XH)))))))
| X9d -> Npos (XI (XO (XI (XI (XI (XO (XO XH)))))))
| X9e -> Npos (XO (XI (XI (XI (XI (XO (XO XH)))))))
| X9f -> Npos (XI (XI (XI (XI (XI (XO (XO XH)))))))
| Xa0 -> Npos (XO (XO (XO (XO (XO (XI (XO XH)))))))
| Xa1 -> Npos (XI (XO (XO (XO (XO (XI (XO XH)))))))
| Xa2 -> Npos (XO (XI (XO (XO (XO (XI (XO XH)))))))
| Xa3 -> Npos (XI (XI (XO (XO (XO (XI (XO XH)))))))
| Xa4 -> Npos (XO (XO (XI (XO (XO (XI (XO XH)))))))
| Xa5 -> Npos (XI (XO (XI (XO (XO (XI (XO XH)))))))
| Xa6 -> Npos (XO (XI (XI (XO (XO (XI (XO XH)))))))
| Xa7 -> Npos (XI (XI (XI (XO (XO (XI (XO XH)))))))
| Xa8 -> Npos (XO (XO (XO (XI (XO (XI (XO XH)))))))
| Xa9 -> Npos (XI (XO (XO (XI (XO (XI (XO XH)))))))
| Xaa -> Npos (XO (XI (XO (XI (XO (XI (XO XH)))))))
| Xab -> Npos (XI (XI (XO (XI (XO (XI (XO XH)))))))
| Xac -> Npos (XO (XO (XI (XI (XO (XI (XO XH)))))))
| Xad -> Npos (XI (XO (XI (XI (XO (XI (XO XH)))))))
| Xae -> Npos (XO (XI (XI (XI (XO (XI (XO XH)))))))
| Xaf -> Npos (XI (XI (XI (XI (XO (XI (XO XH)))))))
| Xb0 -> Npos (XO (XO (XO (XO (XI (XI (XO XH)))))))
| Xb1 -> Npos (XI (XO (XO (XO (XI (XI (XO XH)))))))
| Xb2 -> Npos (XO (XI (XO (XO (XI (XI (XO XH)))))))
| Xb3 -> Npos (XI (XI (XO (XO (XI (XI (XO XH)))))))
| Xb4 -> Npos (XO (XO (XI (XO (XI (XI (XO XH)))))))
| Xb5 -> Npos (XI (XO (XI (XO (XI (XI (XO XH)))))))
| Xb6 -> Npos (XO (XI (XI (XO (XI (XI (XO XH)))))))
| Xb7 -> Npos (XI (XI (XI (XO (XI (XI (XO XH)))))))
| Xb8 -> Npos (XO (XO (XO (XI (XI (XI (XO XH)))))))
| Xb9 -> Npos (XI (XO (XO (XI (XI (XI (XO XH)))))))
| Xba -> Npos (XO (XI (XO (XI (XI (XI (XO XH)))))))
| Xbb -> Npos (XI (XI (XO (XI (XI (XI (XO XH)))))))
| Xbc -> Npos (XO (XO (XI (XI (XI (XI (XO XH)))))))
| Xbd -> Npos (XI (XO (XI (XI (XI (XI (XO XH)))))))
| Xbe -> Npos (XO (XI (XI (XI (XI (XI (XO XH)))))))
| Xbf -> Npos (XI (XI (XI (XI (XI (XI (XO XH)))))))
| Xc0 -> Npos (XO (XO (XO (XO (XO (XO (XI XH)))))))
| Xc1 -> Npos (XI (XO (XO (XO (XO (XO (XI XH)))))))
| Xc2 -> Npos (XO (XI (XO (XO (XO (XO (XI XH)))))))
| Xc3 -> Npos (XI (XI (XO (XO (XO (XO (XI XH)))))))
| Xc4 -> Npos (XO (XO (XI (XO (XO (XO (XI XH)))))))
| Xc5 -> Npos (XI (XO (XI (XO (XO (XO (XI XH)))))))
| Xc6 -> Npos (XO (XI (XI (XO (XO (XO (XI XH)))))))
| Xc7 -> Npos (XI (XI (XI (XO (XO (XO (XI XH)))))))
| Xc8 -> Npos (XO (XO (XO (XI (XO (XO (XI XH)))))))
| Xc9 -> Npos (XI (XO (XO (XI (XO (XO (XI XH)))))))
| Xca -> Npos (XO (XI (XO (XI (XO (XO (XI XH)))))))
| Xcb -> Npos (XI (XI (XO (XI (XO (XO (XI XH)))))))
| Xcc -> Npos (XO (XO (XI (XI (XO (XO (XI XH)))))))
| Xcd -> Npos (XI (XO (XI (XI (XO (XO (XI XH)))))))
| Xce -> Npos (XO (XI (XI (XI (XO (XO (XI XH)))))))
| Xcf -> Npos (XI (XI (XI (XI (XO (XO (XI XH)))))))
| Xd0 -> Npos (XO (XO (XO (XO (XI (XO (XI XH)))))))
| Xd1 -> Npos (XI (XO (XO (XO (XI (XO (XI XH)))))))
| Xd2 -> Npos (XO (XI (XO (XO (XI (XO (XI XH)))))))
| Xd3 -> Npos (XI (XI (XO (XO (XI (XO (XI XH)))))))
| Xd4 -> Npos (XO (XO (XI (XO (XI (XO (XI XH)))))))
| Xd5 -> Npos (XI (XO (XI (XO (XI (XO (XI XH)))))))
| Xd6 -> Npos (XO (XI (XI (XO (XI (XO (XI XH)))))))
| Xd7 -> Npos (XI (XI (XI (XO (XI (XO (XI XH)))))))
| Xd8 -> Npos (XO (XO (XO (XI (XI (XO (XI XH)))))))
| Xd9 -> Npos (XI (XO (XO (XI (XI (XO (XI XH)))))))
| Xda -> Npos (XO (XI (XO (XI (XI (XO (XI XH)))))))
| Xdb -> Npos (XI (XI (XO (XI (XI (XO (XI XH)))))))
| Xdc -> Npos (XO (XO (XI (XI (XI (XO (XI XH)))))))
| Xdd -> Npos (XI (XO (XI (XI (XI (XO (XI XH)))))))
| Xde -> Npos (XO (XI (XI (XI (XI (XO (XI XH)))))))
| Xdf -> Npos (XI (XI (XI (XI (XI (XO (XI XH)))))))
| Xe0 -> Npos (XO (XO (XO (XO (XO (XI (XI XH)))))))
| Xe1 -> Npos (XI (XO (XO (XO (XO (XI (XI XH)))))))
| Xe2 -> Npos (XO (XI (XO (XO (XO (XI (XI XH)))))))
| Xe3 -> Npos (XI (XI (XO (XO (XO (XI (XI XH)))))))
| Xe4 -> Npos (XO (XO (XI (XO (XO (XI (XI XH)))))))
| Xe5 -> Npos (XI (XO (XI (XO (XO (XI (XI XH)))))))
| Xe6 -> Npos (XO (XI (XI (XO (XO (XI (XI XH)))))))
| Xe7 -> Npos (XI (XI (XI (XO (XO (XI (XI XH)))))))
| Xe8 -> Npos (XO (XO (XO (XI (XO (XI (XI XH)))))))
| Xe9 -> Npos (XI (XO (XO (XI (XO (XI (XI XH)))))))
| Xea -> Npos (XO (XI (XO (XI (XO (XI (XI XH)))))))
| Xeb -> Npos (XI (XI (XO (XI (XO (XI (XI XH)))))))
| Xec -> Npos (XO (XO (XI (XI (XO (XI (XI XH)))))))
| Xed -> Npos (XI (XO (XI (XI (XO (XI (XI XH)))))))
| Xee -> Npos (XO (XI (XI (XI (XO (XI (XI XH)))))))
| Xef -> Npos (XI (XI (XI (XI (XO (XI (XI XH)))))))
| Xf0 -> Npos (XO (XO (XO (XO (XI (XI (XI XH)))))))
| Xf1 -> Npos (XI (XO (XO (XO (XI (XI (XI XH)))))))
| Xf2 -> Npos (XO (XI (XO (XO (XI (XI (XI XH)))))))
| Xf3 -> Npos (XI (XI (XO (XO (XI (XI (XI XH)))))))
| Xf4 -> Npos (XO (XO (XI (XO (XI (XI (XI XH)))))))
| Xf5 -> Npos (XI (XO (XI (XO (XI (XI (XI XH)))))))
| Xf6 -> Npos (XO (XI (XI (XO (XI (XI (XI XH)))))))
| Xf7 -> Npos (XI (XI (XI (XO (XI (XI (XI XH)))))))
| Xf8 -> Npos (XO (XO (XO (XI (XI (XI (XI XH)))))))
| Xf9 -> Npos (XI (XO (XO (XI (XI (XI (XI XH)))))))
| Xfa -> Npos (XO (XI (XO (XI (XI (XI (XI XH)))))))
| Xfb -> Npos (XI (XI (XO (XI (XI (XI (XI XH)))))))
| Xfc -> Npos (XO (XO (XI (XI (XI (XI (XI XH)))))))
| Xfd -> Npos (XI (XO (XI (XI (XI (XI (XI XH)))))))
| Xfe -> Npos (XO (XI (XI (XI (XI (XI (XI XH)))))))
| Xff -> Npos (XI (XI (XI (XI (XI (XI (XI XH)))))))

(** val of_N : n -> byte option **)

let of_N = function
| N0 -> Some X00
| Npos p ->
  (match p with
   | XI p0 ->
     (match p0 with
      | XI p1 ->
        (match p1 with
         | XI p2 ->
           (match p2 with
            | XI p3 ->
              (match p3 with
               | XI p4 ->
                 (match p4 with
                  | XI p5 ->
                    (match p5 with
                     | XI p6 -> (match p6 with
                                 | XH -> Some Xff
                                 | _ -> None)
                     | XO p6 -> (match p6 with
                                 | XH -> Some Xbf
                                 | _ -> None)
                     | XH -> Some X7f)
                  | XO p5 ->
                    (match p5 with
                     | XI p6 -> (match p6 with
                                 | XH -> Some Xdf
                                 | _ -> None)
                     | XO p6 -> (match p6 with
                                 | XH -> Some X9f
                                 | _ -> None)
                     | XH -> Some X5f)
                  | XH -> Some X3f)
               | XO p4 ->
                 (match p4 with
                  | XI p5 ->
                    (match p5 with
                     | XI p6 -> (match p6 with
                                 | XH -> Some Xef
                                 | _ -> None)
                     | XO p6 -> (match p6 with
                                 | XH -> Some Xaf
                                 | _ -> None)
                     | XH -> Some X6f)
                  | XO p5 ->
                    (match p5 with
                     | XI p6 -> (match p6 with
                                 | XH -> Some Xcf
                                 | _ -> None)
                     | XO p6 -> (match p6 with
                                 | XH -> Some X8f
                                 | _ -> None)
                     | XH -> Some X4f)
                  | XH -> Some X2f)
               | XH -> Some X1f)
            | XO p3 ->
              (match p3 with
               | XI p4 ->
                 (match p4 with
                  | XI p5 ->
                    (match p5 with
                     | XI p6 -> (match p6 with
                                 | XH -> Some Xf7
                                 | _ -> None)
                     | XO p6 -> (match p6 with
                                 | XH -> Some Xb7
                                 | _ -> None)
                     | XH -> Some X77)
                  | XO p5 ->
                    (match p5 with
                     | XI p6 -> (match p6 with
                                 | XH -> Some Xd7
                                 | _ -> None)
                     | XO p6 -> (match p6 with
                                 | XH -> Some X97
                                 | _ -> None)
                     | XH -> Some X57)
                  | XH -> Some X37)
               | XO p4 ->
                 (match p4 with
                  | XI p5 ->
                    (match p5 with
                     | XI p6 -> (match p6 with
                                 | XH -> Some Xe7
                                 | _ -> None)
                     | XO p6 -> (match p6 with
                                 | XH -> Some Xa7
                                 | _ -> None)
                     | XH -> Some X67)
                  | XO p5 ->
                    (match p5 with
                     | XI p6 -> (match p6 with
                                 | XH -> Some Xc7
                                 | _ -> None)
                     | XO p6 -> (match p6 with
                                 | XH -> Some X87
                                 | _ -> None)
                     | XH -> Some X47)
                  | XH -> Some X27)
               | XH -> Some X17)
            | XH -> Some X0f)
         | XO p2 ->
           (match p2 with
            | XI p3 ->
              (match p3 with
               | XI p4 ->
                 (match p4 with
                  | XI p5 ->
                    (match p5 with
                     | XI p6 -> (match p6 with
                                 | XH -> Some Xfb
                                 | _ -> None)
                     | XO p6 -> (match p6 with
                                 | XH -> Some Xbb
                                 | _ -> None)
                     | XH -> Some X7b)
                  | XO p5 ->
                    (match p5 with
                     | XI p6 -> (match p6 with
                                 | XH -> Some Xdb
                                 | _ -> None)
                     | XO p6 -> (match p6 with
                                 | XH -> Some X9b
                                 | _ -> None)
                     | XH -> Some X5b)
                  | XH -> Some X3b)
               | XO p4 ->
                 (match p4 with
                  | XI p5 ->
                    (match p5 with
                     | XI p6 -> (match p6 with
                                 | XH -> Some Xeb
                                 | _ -> None)
                     | XO p6 -> (match p6 with
                                 | XH -> Some Xab
                                 | _ -> None)
                     | XH -> Some X6b)
                  | XO p5 ->
                    (match p5 with
                     | XI p6 -> (match p6 with
                                 | XH -> Some Xcb
                                 | _ -> None)
                     | XO p6 -> (match p6 with
                                 | XH -> Some X8b
                                 | _ -> None)
                     | XH -> Some X4b)
                  | XH -> Some X2b)
               | XH -> Some X1b)
            | XO p3 ->
              (match p3 with
               | XI p4 ->
                 (match p4 with
                  | XI p5 ->
                    (match p5 with
                     | XI p6 -> (match p6 with
                                 | XH -> Some Xf3
                                 | _ -> None)
                     | XO p6 -> (match p6 with
                                 | XH -> Some Xb3
                                 | _ -> None)
                     | XH -> Some X73)
                  | XO p5 ->
                    (match p5 with
                     | XI p6 -> (match p6 with
                                 | XH -> Some Xd3
                                 | _ -> None)
                     | XO p6 -> (match p6 with
                                 | XH -> Some X93
                                 | _ -> None)
                     | XH -> Some X53)
                  | XH -> Some X33)
               | XO p4 ->
                 (match p4 with
                  | XI p5 ->
                    (match p5 with
                     | XI p6 -> (match p6 with
                                 | XH -> Some Xe3
                                 | _ -> None)
                     | XO p6 -> (match p6 with
                                 | XH -> Some Xa3
                                 | _ -> None)
                     | XH -> Some X63)
                  | XO p5 ->
                    (match p5 with
                     | XI p6 -> (match p6 with
                                 | XH -> Some Xc3
                                 | _ -> None)
                     | XO p6 -> (match p6 with
                                 | XH -> Some X83
                                 | _ -> None)
                     | XH -> Some X43)
                  | XH -> Some X23)
               | XH -> Some X13)
            | XH -> Some X0b)
         | XH -> Some X07)
      | XO p1 ->
        (match p1 with
         | XI p2 ->
           (match p2 with
            | XI p3 ->
              (match p3 with
               | XI p4 ->
                 (match p4 with
                  | XI p5 ->
                    (match p5 with
                     | XI p6 -> (match p6 with
                                 | XH -> Some Xfd
                                 | _ -> None)
                     | XO p6 -> (match p6 with
                                 | XH -> Some Xbd
                                 | _ -> None)
                     | XH -> Some X7d)
                  | XO p5 ->
                    (match p5 with
                     | XI p6 -> (match p6 with
                                 | XH -> Some Xdd
                                 | _ -> None)
                     | XO p6 -> (match p6 with
                                 | XH -> Some X9d
                                 | _ -> None)
                     | XH -> Some X5d)
                  | XH -> Some X3d)
               | XO p4 ->
                 (match p4 with
                  | XI p5 ->
                    (match p5 with
                     | XI p6 -> (match p6 with
                                 | XH -> Some Xed
                                 | _ -> None)
                     | XO p6 -> (match p6 with
                                 | XH -> Some Xad
                                 | _ -> None)
                     | XH -> Some X6d)
                  | XO p5 ->
                    (match p5 with
                     | XI p6 -> (match p6 with
                                 | XH -> Some Xcd
                                 | _ -> None)
                     | XO p6 -> (match p6 with
                                 | XH -> Some X8d
                                 | _ -> None)
                     | XH -> Some X4d)
                  | XH -> Some X2d)
               | XH -> Some X1d)
            | XO p3 ->
              (match p3 with
               | XI p4 ->
                 (match p4 with
                  | XI p5 ->
                    (match p5 with
                     | XI p6 -> (match p6 with
                                 | XH -> Some Xf5
                                 | _ -> None)
                     | XO p6 -> (match p6 with
                                 | XH -> Some Xb5
                                 | _ -> None)
                     | XH -> Some X75)
                  | XO p5 ->
                    (match p5 with
                     | XI p6 -> (match p6 with
                                 | XH -> Some Xd5
                                 | _ -> None)
                     | XO p6 -> (match p6 with
                                 | XH -> Some X95
                                 | _ -> None)
                     | XH -> Some X55)
                  | XH -> Some X35)
               | XO p4 ->
                 (match p4 with
                  | XI p5 ->
                    (match p5 with
                     | XI p6 -> (match p6 with
                                 | XH -> Some Xe5
                                 | _ -> None)
                     | XO p6 -> (match p6 with
                                 | XH -> Some Xa5
                                 | _ -> None)
                     | XH -> Some X65)
                  | XO p5 ->
                    (match p5 with
                     | XI p6 -> (match p6 with
                                 | XH -> Some Xc5
                                 | _ -> None)
                     | XO p6 -> (match p6 with
                                 | XH -> Some X85
                                 | _ -> None)
                     | XH -> Some X45)
                  | XH -> Some X25)
               | XH -> Some X15)
            | XH -> Some X0d)
         | XO p2 ->
           (match p2 with
            | XI p3 ->
              (match p3 with
               | XI p4 ->
                 (match p4 with
                  | XI p5 ->
                    (match p5 with
                     | XI p6 -> (match p6 with
                                 | XH -> Some Xf9
                                 | _ -> None)
                     | XO p6 -> (match p6 with
                                 | XH -> Some Xb9
                                 | _ -> None)
                     | XH -> Some X79)
                  | XO p5 ->
                    (match p5 with
                     | XI p6 -> (match p6 with
                                 | XH -> Some Xd9
                                 | _ -> None)
                     | XO p6 -> (match p6 with
                                 | XH -> Some X99
                                 | _ -> None)
                     | XH -> Some X59)
                  | XH -> Some X39)
               | XO p4 ->
                 (match p4 with
                  | XI p5 ->
                    (match p5 with
                     | XI p6 -> (match p6 with
                                 | XH -> Some Xe9
                                 | _ -> None)
                     | XO p6 -> (match p6 with
                                 | XH -> Some Xa9
                                 | _ -> None)
                     | XH -> Some X69)
                  | XO p5 ->
                    (match p5 with
                     | XI p6 -> (match p6 with
                                 | XH -> Some Xc9
                                 | _ -> None)
                     | XO p6 -> (match p6 with
                                 | XH -> Some X89
                                 | _ -> None)
                     | XH -> Some X49)
                  | XH -> Some X29)
               | XH -> Some X19)
            | XO p3 ->
              (match p3 with
               | XI p4 ->
                 (match p4 with
                  | XI p5 ->
                    (match p5 with
                     | XI p6 -> (match p6 with
                                 | XH -> Some Xf1
                                 | _ -> None)
                     | XO p6 -> (match p6 with
                                 | XH -> Some Xb1
                                 | _ -> None)
                     | XH -> Some X71)
                  | XO p5 ->
                    (match p5 with
                     | XI p6 -> (match p6 with
                                 | XH -> Some Xd1
                                 | _ -> None)
                     | XO p6 -> (match p6 with
                                 | XH -> Some X91
                                 | _ -> None)
                     | XH -> Some X51)
                  | XH -> Some X31)
               | XO p4 ->
                 (match p4 with
                  | XI p5 ->
                    (match p5 with
                     | XI p6 -> (match p6 with
                                 | XH -> Some Xe1
                                 | _ -> None)
                     | XO p6 -> (match p6 with
                                 | XH -> Some Xa1
                                 | _ -> None)
                     | XH -> Some X61)
                  | XO p5 ->
                    (match p5 with
                     | XI p6 -> (match p6 with
                                 | XH -> Some Xc1
                                 | _ -> None)
                     | XO p6 -> (match p6 with
                                 | XH -> Some X81
                                 | _ -> None)
                     | XH -> Some X41)
                  | XH -> Some X21)
               | XH -> Some X11)
            | XH -> Some X09)
         | XH -> Some X05)
      | XH -> Some X03)
   | XO p0 ->
     (match p0 with
      | XI p1 ->
        (match p1 with
         | XI p2 ->
           (match p2 with
            | XI p3 ->
              (match p3 with
               | XI p4 ->
                 (match p4 with
                  | XI p5 ->
                    (match p5 with
                     | XI p6 -> (match p6 with
                                 | XH -> Some Xfe
                                 | _ -> None)
                     | XO p6 -> (match p6 with
                                 | XH -> Some Xbe
                                 | _ -> None)
                     | XH -> Some X7e)
                  | XO p5 ->
                    (match p5 with
                     | XI p6 -> (match p6 with
                                 | XH -> Some Xde
                                 | _ -> None)
                     | XO p6 -> (match p6 with
                                 | XH -> Some X9e
                                 | _ -> None)
                     | XH -> Some X5e)
                  | XH -> Some X3e)
               | XO p4 ->
                 (match p4 with
                  | XI p5 ->
                    (match p5 with
                     | XI p6 -> (match p6 with
                                 | XH -> Some Xee
                                 | _ -> None)
                     | XO p6 -> (match p6 with
                                 | XH -> Some Xae
                                 | _ -> None)
                     | XH -> Some X6e)
                  | XO p5 ->
                    (match p5 with
                     | XI p6 -> (match p6 with
                                 | XH -> Some Xce
                                 | _ -> None)
                     | XO p6 -> (match p6 with
                                 | XH -> Some X8e
                                 | _ -> None)
                     | XH -> Some X4e)
                  | XH -> Some X2e)
               | XH -> Some X1e)
            | XO p3 ->
              (match p3 with
               | XI p4 ->
                 (match p4 with
                  | XI p5 ->
                    (match p5 with
                     | XI p6 -> (match p6 with
                                 | XH -> Some Xf6
                                 | _ -> None)
                     | XO p6 -> (match p6 with
                                 | XH -> Some Xb6
                                 | _ -> None)
                     | XH -> Some X76)
                  | XO p5 ->
                    (match p5 with
                     | XI p6 -> (match p6 with
                                 | XH -> Some Xd6
                                 | _ -> None)
                     | XO p6 -> (match p6 with
                                 | XH -> Some X96
                                 | _ -> None)
                     | XH -> Some X56)
                  | XH -> Some X36)
               | XO p4 ->
                 (match p4 with
                  | XI p5 ->
                    (match p5 with
                     | XI p6 -> (match p6 with
                                 | XH -> Some Xe6
                                 | _ -> None)
                     | XO p6 -> (match p6 with
                                 | XH -> Some Xa6
                                 | _ -> None)
                     | XH -> Some X66)
                  | XO p5 ->
                    (match p5 with
                     | XI p6 -> (match p6 with
                                 | XH -> Some Xc6
                                 | _ -> None)
                     | XO p6 -> (match p6 with
                                 | XH -> Some X86
                                 | _ -> None)
                     | XH -> Some X46)
                  | XH -> Some X26)
               | XH -> Some X16)
            | XH -> Some X0e)
         | XO p2 ->
           (match p2 with
            | XI p3 ->
              (match p3 with
               | XI p4 ->
                 (match p4 with
                  | XI p5 ->
                    (match p5 with
                     | XI p6 -> (match p6 with
                                 | XH -> Some Xfa
                                 | _ -> None)
                     | XO p6 -> (match p6 with
                                 | XH -> Some Xba
                                 | _ -> None)
                     | XH -> Some X7a)
                  | XO p5 ->
                    (match p5 with
                     | XI p6 -> (match p6 with
                                 | XH -> Some Xda
                                 | _ -> None)
                     | XO p6 -> (match p6 with
                                 | XH -> Some X9a
                                 | _ -> None)
                     | XH -> Some X5a)
                  | XH -> Some X3a)
               | XO p4 ->
                 (match p4 with
                  | XI p5 ->
                    (match p5 with
                     | XI p6 -> (match p6 with
                                 | XH -> Some Xea
                                 | _ -> None)
                     | XO p6 -> (match p6 with
                                 | XH -> Some Xaa
                                 | _ -> None)
                     | XH -> Some X6a)
                  | XO p5 ->
                    (match p5 with
                     | XI p6 -> (match p6 with
                                 | XH -> Some Xca
                                 | _ -> None)
                     | XO p6 -> (match p6 with
                                 | XH -> Some X8a
                                 | _ -> None)
                     | XH -> Some X4a)
                  | XH -> Some X2a)
               | XH -> Some X1a)
            | XO p3 ->
              (match p3 with
               | XI p4 ->
                 (match p4 with
                  | XI p5 ->
                    (match p5 with
                     | XI p6 -> (match p6 with
                                 | XH -> Some Xf2
                                 | _ -> None)
                     | XO p6 -> (match p6 with
                                 | XH -> Some Xb2
                                 | _ -> None)
                     | XH -> Some X72)
                  | XO p5 ->
                    (match p5 with
                     | XI p6 -> (match p6 with
                                 | XH -> Some Xd2
                                 | _ -> None)
                     | XO p6 -> (match p6 with
                                 | XH -> Some X92
                                 | _ -> None)
                     | XH -> Some X52)
                  | XH -> Some X32)
               | XO p4 ->
                 (match p4 with
                  | XI p5 ->
                    (match p5 with
                     | XI p6 -> (match p6 with
                                 | XH -> Some Xe2
                                 | _ -> None)
                     | XO p6 -> (match p6 with
                                 | XH -> Some Xa2
                                 | _ -> None)
                     | XH -> Some X62)
                  | XO p5 ->
                    (match p5 with
                     | XI p6 -> (match p6 with
                                 | XH -> Some Xc2
                                 | _ -> None)
                     | XO p6 -> (match p6 with
                                 | XH -> Some X82
                                 | _ -> None)
                     | XH -> Some X42)
                  | XH -> Some X22)
               | XH -> Some X12)
            | XH -> Some X0a)
         | XH -> Some X06)
      | XO p1 ->
        (match p1 with
         | XI p2 ->
           (match p2 with
            | XI p3 ->
              (match p3 with
               | XI p4 ->
                 (match p4 with
                  | XI p5 ->
                    (match p5 with
                     | XI p6 -> (match p6 with
                                 | XH -> Some Xfc
                                 | _ -> None)
                     | XO p6 -> (match p6 with
                                 | XH -> Some Xbc
                                 | _ -> None)
                     | XH -> Some X7c)
                  | XO p5 ->
                    (match p5 with
                     | XI p6 -> (match p6 with
                                 | XH -> Some Xdc
                                 | _ -> None)
                     | XO p6 -> (match p6 with
                                 | XH -> Some X9c
                                 | _ -> None)
                     | XH -> Some X5c)
                  | XH -> Some X3c)
               | XO p4 ->
                 (match p4 with
                  | XI p5 ->
                    (match p5 with
                     | XI p6 -> (match p6 with
                                 | XH -> Some Xec
                                 | _ -> None)
                     | XO p6 -> (match p6 with
                                 | XH -> Some Xac
                                 | _ -> None)
                     | XH -> Some X6c)
                  | XO p5 ->
                    (match p5 with
                     | XI p6 -> (match p6 with
                                 | XH -> Some Xcc
                                 | _ -> None)
                     | XO p6 -> (match p6 with
                                 | XH -> Some X8c
                                 | _ -> None)
                     | XH -> Some X4c)
                  | XH -> Some X2c)
               | XH -> Some X1c)
            | XO p3 ->
              (match p3 with
               | XI p4 ->
                 (match p4 with
                  | XI p5 ->
                    (match p5 with
                     | XI p6 -> (match p6 with
                                 | XH -> Some Xf4
                                 | _ -> None)
                     | XO p6 -> (match p6 with
                                 | XH -> Some Xb4
                                 | _ -> None)
                     | XH -> Some X74)
                  | XO p5 ->
                    (match p5 with
                     | XI p6 -> (match p6 with
                                 | XH -> Some Xd4
                                 | _ -> None)
                     | XO p6 -> (match p6 with
                                 | XH -> Some X94
                                 | _ -> None)
                     | XH -> Some X54)
                  | XH -> Some X34)
               | XO p4 ->
                 (match p4 with
                  | XI p5 ->
                    (match p5 with
                     | XI p6 -> (match p6 with
                                 | XH -> Some Xe4
                                 | _ -> None)
                     | XO p6 -> (match p6 with
                                 | XH -> Some Xa4
                                 | _ -> None)
                     | XH -> Some X64)
                  | XO p5 ->
                    (match p5 with
                     | XI p6 -> (match p6 with
                                 | XH -> Some Xc4
                                 | _ -> None)
                     | XO p6 -> (match p6 with
                                 | XH -> Some X84
                                 | _ -> None)
                     | XH -> Some X44)
                  | XH -> Some X24)
               | XH -> Some X14)
            | XH -> Some X0c)
         | XO p2 ->
           (match p2 with
            | XI p3 ->
              (match p3 with
               | XI p4 ->
                 (match p4 with
                  | XI p5 ->
                    (match p5 with
                     | XI p6 -> (match p6 with
                                 | XH -> Some Xf8
                                 | _ -> None)
                     | XO p6 -> (match p6 with
                                 | XH -> Some Xb8
                                 | _ -> None)
                     | XH -> Some X78)
                  | XO p5 ->
                    (match p5 with
                     | XI p6 -> (match p6 with
                                 | XH -> Some Xd8
                                 | _ -> None)
                     | XO p6 -> (match p6 with
                                 | XH -> Some X98
                                 | _ -> None)
                     | XH -> Some X58)
                  | XH -> Some X38)
               | XO p4 ->
                 (match p4 with
                  | XI p5 ->
                    (match p5 with
                     | XI p6 -> (match p6 with
                                 | XH -> Some Xe8
                                 | _ -> None)
                     | XO p6 -> (match p6 with
                                 | XH -> Some Xa8
                                 | _ -> None)
                     | XH -> Some X68)
                  | XO p5 ->
                    (match p5 with
                     | XI p6 -> (match p6 with
                                 | XH -> Some Xc8
                                 | _ -> None)
                     | XO p6 -> (match p6 with
                                 | XH -> Some X88
                                 | _ -> None)
                     | XH -> Some X48)
                  | XH -> Some X28)
               | XH -> Some X18)
            | XO p3 ->
              (match p3 with
               | XI p4 ->
                 (match p4 with
                  | XI p5 ->
                    (match p5 with
                     | XI p6 -> (match p6 with
                                 | XH -> Some Xf0
                                 | _ -> None)
                     | XO p6 -> (match p6 with
                                 | XH -> Some Xb0
                                 | _ -> None)
                     | XH -> Some X70)
                  | XO p5 ->
                    (match p5 with
                     | XI p6 -> (match p6 with
                                 | XH -> Some Xd0
                                 | _ -> None)
                     | XO p6 -> (match p6 with
                                 | XH -> Some X90
                                 | _ -> None)
                     | XH -> Some X50)
                  | XH -> Some X30)
               | XO p4 ->
                 (match p4 with
                  | XI p5 ->
                    (match p5 with
                     | XI p6 -> (match p6 with
                                 | XH -> Some Xe0
                                 | _ -> None)
                     | XO p6 -> (match p6 with
                                 | XH -> Some Xa0
                                 | _ -> None)
                     | XH -> Some X60)
                  | XO p5 ->
                    (match p5 with
                     | XI p6 -> (match p6 with
                                 | XH -> Some Xc0
                                 | _ -> None)
                     | XO p6 -> (match p6 with
                                 | XH -> Some X80
                                 | _ -> None)
                     | XH -> Some X40)
                  | XH -> Some X20)
               | XH -> Some X10)
            | XH -> Some X08)
         | XH -> Some X04)
      | XH -> Some X02)
   | XH -> Some X01)

module Z =
 struct
  (** val double : z -> z **)

  let double = function
  | Z0 -> Z0
  | Zpos p -> Zpos (XO p)
  | Zneg p -> Zneg (XO p)

  (** val succ_double : z -> z **)

  let succ_double = function
  | Z0 -> Zpos XH
  | Zpos p -> Zpos (XI p)
  | Zneg p -> Zneg (Pos.pred_double p)

  (** val pred_double : z -> z **)

  let pred_double = function
  | Z0 -> Zneg XH
  | Zpos p -> Zpos (Pos.pred_double p)
  | Zneg p -> Zneg (XI p)

  (** val pos_sub : positive -> positive -> z **)

  let rec pos_sub x y =
    match x with
    | XI p ->
      (match y with
       | XI q -> double (pos_sub p q)
       | XO q -> succ_double (pos_sub p q)
       | XH -> Zpos (XO p))
    | XO p ->
      (match y with
       | XI q -> pred_double (pos_sub p q)
       | XO q -> double (pos_sub p q)
       | XH -> Zpos (Pos.pred_double p))
    | XH ->
      (match y with
       | XI q -> Zneg (XO q)
       | XO q -> Zneg (Pos.pred_double q)
       | XH -> Z0)

  (** val add : z -> z -> z **)

  let add x y =
    match x with
    | Z0 -> y
    | Zpos x' ->
      (match y with
       | Z0 -> x
       | Zpos y' -> Zpos (Pos.add x' y')
       | Zneg y' -> pos_sub x' y')
    | Zneg x' ->
      (match y with
       | Z0 -> x
       | Zpos y' -> pos_sub y' x'
       | Zneg y' -> Zneg (Pos.add x' y'))

  (** val opp : z -> z **)

  let opp = function
  | Z0 -> Z0
  | Zpos x0 -> Zneg x0
  | Zneg x0 -> Zpos x0

  (** val sub : z -> z -> z **)

  let sub m n0 =
    add m (opp n0)

  (** val compare : z -> z -> comparison **)

  let compare x y =
    match x with
    | Z0 -> (match y with
             | Z0 -> Eq
             | Zpos _ -> Lt
             | Zneg _ -> Gt)
    | Zpos x' -> (match y with
                  | Zpos y' -> Pos.compare x' y'
                  | _ -> Gt)
    | Zneg x' ->
      (match y with
       | Zneg y' -> compOpp (Pos.compare x' y')
       | _ -> Lt)

  (** val ltb : z -> z -> bool **)

  let ltb x y =
    match compare x y with
    | Lt -> true
    | _ -> false

  (** val eqb : z -> z -> bool **)

  let eqb x y =
    match x with
    | Z0 -> (match y with
             | Z0 -> true
             | _ -> false)
    | Zpos p -> (match y with
                 | Zpos q -> Pos.eqb p q
                 | _ -> false)
    | Zneg p -> (match y with
                 | Zneg q -> Pos.eqb p q
                 | _ -> false)

  (** val of_N : n -> z **)

  let of_N = function
  | N0 -> Z0
  | Npos p -> Zpos p
 end

type bytes = byte list

(** val byte_of_N : n -> byte **)

let byte_of_N n0 =
  match of_N n0 with
  | Some b -> b
  | None -> X00

(** val n_of_byte : byte -> n **)

let n_of_byte =
  to_N

(** val byte_eqb : byte -> byte -> bool **)

let byte_eqb a b =
  N.eqb (n_of_byte a) (n_of_byte b)

(** val bytes_eqb : bytes -> bytes -> bool **)

let rec bytes_eqb a b =
  match a with
  | [] -> (match b with
           | [] -> true
           | _ :: _ -> false)
  | x :: a' ->
    (match b with
     | [] -> false
     | y :: b' -> (&&) (byte_eqb x y) (bytes_eqb a' b'))

(** val bytes_cmp : bytes -> bytes -> comparison **)

let rec bytes_cmp a b =
  match a with
  | [] -> (match b with
           | [] -> Eq
           | _ :: _ -> Lt)
  | x :: a' ->
    (match b with
     | [] -> Gt
     | y :: b' ->
       (match N.compare (n_of_byte x) (n_of_byte y) with
        | Eq -> bytes_cmp a' b'
        | x0 -> x0))

(** val is_nil : 'a1 list -> bool **)

let is_nil = function
| [] -> true
| _ :: _ -> false

(** val kNormalSpelling : nat **)

let kNormalSpelling =
  O

type props = { ptype : nat; pcred : z; ptips : bytes }

(** val default_props : props **)

let default_props =
  { ptype = kNormalSpelling; pcred = Z0; ptips = [] }

type spelling = { sstr : bytes; sprops : props }

(** val spelling_of : bytes -> spelling **)

let spelling_of s =
  { sstr = s; sprops = default_props }

type script = (bytes * spelling list) list

(** val map_find : bytes -> script -> spelling list option **)

let rec map_find k = function
| [] -> None
| p :: sc' ->
  let (k', v) = p in if bytes_eqb k k' then Some v else map_find k sc'

(** val map_upd :
    bytes -> (spelling list -> spelling list) -> script -> script **)

let rec map_upd k f sc = match sc with
| [] -> (k, (f [])) :: []
| p :: sc' ->
  let (k', v) = p in
  (match bytes_cmp k k' with
   | Eq -> (k', (f v)) :: sc'
   | Lt -> (k, (f [])) :: sc
   | Gt -> (k', v) :: (map_upd k f sc'))

(** val add_syllable : bytes -> script -> script **)

let add_syllable syllable sc =
  match map_find syllable sc with
  | Some _ -> sc
  | None ->
    map_upd syllable (fun m -> app m ((spelling_of syllable) :: [])) sc

(** val adjust : props -> spelling -> spelling **)

let adjust sp x =
  let yy = x.sprops in
  { sstr = x.sstr; sprops = { ptype =
  (if Nat.ltb yy.ptype sp.ptype then sp.ptype else yy.ptype); pcred =
  (Z.add yy.pcred sp.pcred); ptips =
  (if is_nil sp.ptips then yy.ptips else sp.ptips) } }

(** val improve : spelling -> spelling -> spelling **)

let improve z0 y =
  let zz = z0.sprops in
  let yy = y.sprops in
  { sstr = z0.sstr; sprops = { ptype =
  (if Nat.ltb yy.ptype zz.ptype then yy.ptype else zz.ptype); pcred =
  (if Z.ltb zz.pcred yy.pcred then yy.pcred else zz.pcred); ptips = [] } }

(** val merge_into :
    spelling list -> spelling -> spelling -> spelling list **)

let rec merge_into m x y =
  match m with
  | [] -> y :: []
  | z0 :: m' ->
    if bytes_eqb z0.sstr x.sstr
    then (improve z0 y) :: m'
    else z0 :: (merge_into m' x y)

(** val merge_list :
    props -> spelling list -> spelling list -> spelling list **)

let merge_list sp v m =
  fold_left (fun m0 x -> merge_into m0 x (adjust sp x)) v m

(** val merge : bytes -> props -> spelling list -> script -> script **)

let merge s sp v sc =
  map_upd s (merge_list sp v) sc

type kind =
| Xlit
| Xform
| Erase
| Derive
| Fuzz
| Abbrev

(** val kind_deletion : kind -> bool **)

let kind_deletion = function
| Xlit -> true
| Xform -> true
| Erase -> true
| _ -> false

(** val kind_addition : kind -> bool **)

let kind_addition = function
| Erase -> false
| _ -> true

type calc = { ckind : kind; capply : (bytes -> spelling option) }

(** val deletion : calc -> bool **)

let deletion c =
  kind_deletion c.ckind

(** val addition : calc -> bool **)

let addition c =
  kind_addition c.ckind

(** val round_step : calc -> script -> (bytes * spelling list) -> script **)

let round_step c temp = function
| (k, v) ->
  (match c.capply k with
   | Some s ->
     let t1 = if deletion c then temp else merge k default_props v temp in
     if (&&) (addition c) (negb (is_nil s.sstr))
     then merge s.sstr s.sprops v t1
     else t1
   | None -> merge k default_props v temp)

(** val round : calc -> script -> script **)

let round c sc =
  fold_left (round_step c) sc []

(** val round_applied : calc -> script -> bool **)

let round_applied c sc =
  existsb (fun kv ->
    match c.capply (fst kv) with
    | Some _ -> true
    | None -> false) sc

(** val project_script : calc list -> script -> script **)

let project_script calcs sc =
  fold_left (fun sc0 c -> round c sc0) calcs sc

(** val project_modified : calc list -> script -> bool **)

let rec project_modified calcs sc =
  match calcs with
  | [] -> false
  | c :: cs -> (||) (round_applied c sc) (project_modified cs (round c sc))

(** val project : calc list -> script -> bool * script **)

let project calcs sc =
  if is_nil sc
  then (false, sc)
  else ((project_modified calcs sc), (project_script calcs sc))

(** val set_insert : bytes -> bytes list -> bytes list **)

let rec set_insert k s = match s with
| [] -> k :: []
| k' :: s' ->
  (match bytes_cmp k k' with
   | Eq -> s
   | Lt -> k :: s
   | Gt -> k' :: (set_insert k s'))

(** val syllabary_of : bytes list -> bytes list **)

let syllabary_of l =
  fold_left (fun s k -> set_insert k s) l []

(** val init_script : bytes list -> script **)

let init_script syllabary =
  fold_left (fun sc x -> add_syllable x sc) syllabary []

(** val compile_script : bytes list -> calc list -> script option **)

let compile_script syllabary calcs =
  let (applied, sc) = project calcs (init_script syllabary) in
  if applied then if is_nil sc then None else Some sc else None

type node = (bytes * nat) list

(** val trie_root : bytes list -> node **)

let trie_root keys =
  combine keys (seq O (length keys))

(** val step : byte -> node -> node **)

let step c nd =
  flat_map (fun e ->
    match fst e with
    | [] -> []
    | c' :: s -> if byte_eqb c c' then (s, (snd e)) :: [] else []) nd

(** val walk : bytes -> node -> node **)

let rec walk s nd =
  match s with
  | [] -> nd
  | c :: s' -> walk s' (step c nd)

(** val leaf : node -> nat option **)

let rec leaf = function
| [] -> None
| p :: nd' -> let (s, v) = p in if is_nil s then Some v else leaf nd'

type tres =
| NoPath
| NoValue of node
| Value of nat * node

(** val traverse : bytes -> node -> tres **)

let traverse s nd =
  let n0 = walk s nd in
  if is_nil n0
  then NoPath
  else (match leaf n0 with
        | Some v -> Value (v, n0)
        | None -> NoValue n0)

type 'fcred desc = { d_syll : nat; d_type : nat; d_cred : 'fcred;
                     d_tips : bytes }

type 'fcred prism = { p_keys : bytes list; p_alphabet : byte list;
                      p_map : 'fcred desc list list option }

(** val schar : byte -> z **)

let schar b =
  let n0 = Z.of_N (n_of_byte b) in
  if Z.ltb n0 (Zpos (XO (XO (XO (XO (XO (XO (XO XH))))))))
  then n0
  else Z.sub n0 (Zpos (XO (XO (XO (XO (XO (XO (XO (XO XH)))))))))

(** val alpha_insert : byte -> byte list -> byte list **)

let rec alpha_insert c a = match a with
| [] -> c :: []
| c' :: a' ->
  if Z.ltb (schar c) (schar c')
  then c :: a
  else if Z.eqb (schar c) (schar c') then a else c' :: (alpha_insert c a')

(** val alphabet_of : bytes list -> byte list **)

let alphabet_of keys =
  fold_left (fun a k -> fold_left (fun a0 c -> alpha_insert c a0) k a) keys []

(** val index_of : bytes -> bytes list -> nat option **)

let rec index_of s = function
| [] -> None
| x :: r ->
  if bytes_eqb s x
  then Some O
  else (match index_of s r with
        | Some i -> Some (S i)
        | None -> None)

(** val syll_to_id : bytes list -> bytes -> nat **)

let syll_to_id syllabary s =
  match index_of s syllabary with
  | Some i -> i
  | None -> O

(** val desc_of : (z -> 'a1) -> bytes list -> spelling -> 'a1 desc **)

let desc_of fcast syllabary x =
  { d_syll = (syll_to_id syllabary x.sstr); d_type = x.sprops.ptype; d_cred =
    (fcast x.sprops.pcred); d_tips = x.sprops.ptips }

(** val build : (z -> 'a1) -> bytes list -> script option -> 'a1 prism **)

let build fcast syllabary = function
| Some sc0 ->
  let keys = map fst sc0 in
  { p_keys = keys; p_alphabet = (alphabet_of keys); p_map = (Some
  (map (fun kv -> map (desc_of fcast syllabary) (snd kv)) sc0)) }
| None ->
  { p_keys = syllabary; p_alphabet = (alphabet_of syllabary); p_map = None }

(** val get_value : 'a1 prism -> bytes -> nat option **)

let get_value p key =
  leaf (walk key (trie_root p.p_keys))

(** val cps_from : bytes -> node -> nat -> (nat * nat) list **)

let rec cps_from s nd i =
  match s with
  | [] -> []
  | c :: s' ->
    let n0 = step c nd in
    if is_nil n0
    then []
    else app (match leaf n0 with
              | Some v -> (v, (S i)) :: []
              | None -> []) (cps_from s' n0 (S i))

(** val common_prefix_search : 'a1 prism -> bytes -> (nat * nat) list **)

let common_prefix_search p key =
  cps_from key (trie_root p.p_keys) O

type qnode = { q_key : bytes; q_pos : node }

(** val limit_hit : nat -> nat -> bool **)

let limit_hit limit count =
  (&&) (negb (Nat.eqb limit O)) (Nat.leb limit count)

(** val scan :
    nat -> byte list -> qnode -> nat -> ((qnode list * (nat * nat)
    list) * nat) * bool **)

let rec scan limit cs nd count =
  match cs with
  | [] -> ((([], []), count), false)
  | c :: cs' ->
    let k = app nd.q_key (c :: []) in
    (match traverse (c :: []) nd.q_pos with
     | NoPath -> scan limit cs' nd count
     | NoValue n' ->
       let (p, stop) = scan limit cs' nd count in
       let (p0, cnt) = p in
       let (pushed, found) = p0 in
       (((({ q_key = k; q_pos = n' } :: pushed), found), cnt), stop)
     | Value (v, n') ->
       if limit_hit limit (S count)
       then (((({ q_key = k; q_pos = n' } :: []), ((v, (length k)) :: [])),
              (S count)), true)
       else let (p, stop) = scan limit cs' nd (S count) in
            let (p0, cnt) = p in
            let (pushed, found) = p0 in
            (((({ q_key = k; q_pos = n' } :: pushed), ((v,
            (length k)) :: found)), cnt), stop))

(** val bfs :
    nat -> nat -> byte list -> qnode list -> nat -> (nat * nat) list * bool **)

let rec bfs fuel limit alphabet q count =
  match fuel with
  | O -> ([], (is_nil q))
  | S f ->
    (match q with
     | [] -> ([], true)
     | nd :: q' ->
       let (p, stop) = scan limit alphabet nd count in
       let (p0, cnt) = p in
       let (pushed, found) = p0 in
       if stop
       then (found, true)
       else let (r, ok) = bfs f limit alphabet (app q' pushed) cnt in
            ((app found r), ok))

(** val node_weight : node -> nat **)

let node_weight nd =
  S (fold_right (fun e a -> add (length (fst e)) a) O nd)

(** val expand_search_fuel :
    'a1 prism -> bytes -> nat -> (nat * nat) list * bool **)

let expand_search_fuel p key limit =
  match traverse key (trie_root p.p_keys) with
  | NoPath -> ([], true)
  | NoValue n0 ->
    bfs (node_weight n0) limit p.p_alphabet ({ q_key = key; q_pos =
      n0 } :: []) O
  | Value (v, n0) ->
    if limit_hit limit (S O)
    then (((v, (length key)) :: []), true)
    else let (r, ok) =
           bfs (node_weight n0) limit p.p_alphabet ({ q_key = key; q_pos =
             n0 } :: []) (S O)
         in
         (((v, (length key)) :: r), ok)

(** val query_spelling : (z -> 'a1) -> 'a1 prism -> nat -> 'a1 desc list **)

let query_spelling fcast p id =
  let self = { d_syll = id; d_type = kNormalSpelling; d_cred = (fcast Z0);
    d_tips = [] } :: []
  in
  (match p.p_map with
   | Some m ->
     (match nth_error m id with
      | Some l -> (match l with
                   | [] -> self
                   | _ :: _ -> l)
      | None -> self)
   | None -> self)
