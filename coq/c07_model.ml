
(** val negb : bool -> bool **)

let negb = function
| true -> false
| false -> true

type nat =
| O
| S of nat

(** val fst : ('a1 * 'a2) -> 'a1 **)

let fst = function
| (x, _) -> x

(** val snd : ('a1 * 'a2) -> 'a2 **)

let snd = function
| (_, y) -> y

(** val length : 'a1 list -> nat **)

let rec length = function
| [] -> O
| _ :: l' -> S (length l')

(** val app : 'a1 list -> 'a1 list -> 'a1 list **)

let rec app l m =
  match l with
  | [] -> m
  | a :: l1 -> a :: (app l1 m)

type comparison =
| Eq
| Lt
| Gt

(** val compOpp : comparison -> comparison **)

let compOpp = function
| Eq -> Eq
| Lt -> Gt
| Gt -> Lt

(** val add : nat -> nat -> nat **)

let rec add n0 m =
  match n0 with
  | O -> m
  | S p -> S (add p m)

(** val mul : nat -> nat -> nat **)

let rec mul n0 m =
  match n0 with
  | O -> O
  | S p -> add m (mul p m)

(** val sub : nat -> nat -> nat **)

let rec sub n0 m =
  match n0 with
  | O -> n0
  | S k -> (match m with
            | O -> n0
            | S l -> sub k l)

(** val eqb : bool -> bool -> bool **)

let eqb b1 b2 =
  if b1 then b2 else if b2 then false else true

module Nat =
 struct
  (** val eqb : nat -> nat -> bool **)

  let rec eqb n0 m =
    match n0 with
    | O -> (match m with
            | O -> true
            | S _ -> false)
    | S n' -> (match m with
               | O -> false
               | S m' -> eqb n' m')

  (** val leb : nat -> nat -> bool **)

  let rec leb n0 m =
    match n0 with
    | O -> true
    | S n' -> (match m with
               | O -> false
               | S m' -> leb n' m')

  (** val ltb : nat -> nat -> bool **)

  let ltb n0 m =
    leb (S n0) m

  (** val divmod : nat -> nat -> nat -> nat -> nat * nat **)

  let rec divmod x y q u =
    match x with
    | O -> (q, u)
    | S x' ->
      (match u with
       | O -> divmod x' y (S q) y
       | S u' -> divmod x' y q u')

  (** val div : nat -> nat -> nat **)

  let div x y = match y with
  | O -> y
  | S y' -> fst (divmod x y' O y')
 end

(** val nth : nat -> 'a1 list -> 'a1 -> 'a1 **)

let rec nth n0 l default =
  match n0 with
  | O -> (match l with
          | [] -> default
          | x :: _ -> x)
  | S m -> (match l with
            | [] -> default
            | _ :: t -> nth m t default)

(** val last : 'a1 list -> 'a1 -> 'a1 **)

let rec last l d =
  match l with
  | [] -> d
  | a :: l0 -> (match l0 with
                | [] -> a
                | _ :: _ -> last l0 d)

(** val removelast : 'a1 list -> 'a1 list **)

let rec removelast = function
| [] -> []
| a :: l0 -> (match l0 with
              | [] -> []
              | _ :: _ -> a :: (removelast l0))

(** val rev : 'a1 list -> 'a1 list **)

let rec rev = function
| [] -> []
| x :: l' -> app (rev l') (x :: [])

(** val map : ('a1 -> 'a2) -> 'a1 list -> 'a2 list **)

let rec map f = function
| [] -> []
| a :: t -> (f a) :: (map f t)

(** val flat_map : ('a1 -> 'a2 list) -> 'a1 list -> 'a2 list **)

let rec flat_map f = function
| [] -> []
| x :: t -> app (f x) (flat_map f t)

(** val fold_left : ('a1 -> 'a2 -> 'a1) -> 'a2 list -> 'a1 -> 'a1 **)

let rec fold_left f l a0 =
  match l with
  | [] -> a0
  | b :: t -> fold_left f t (f a0 b)

(** val fold_right : ('a2 -> 'a1 -> 'a1) -> 'a1 -> 'a2 list -> 'a1 **)

let rec fold_right f a0 = function
| [] -> a0
| b :: t -> f b (fold_right f a0 t)

(** val existsb : ('a1 -> bool) -> 'a1 list -> bool **)

let rec existsb f = function
| [] -> false
| a :: l0 -> (||) (f a) (existsb f l0)

(** val forallb : ('a1 -> bool) -> 'a1 list -> bool **)

let rec forallb f = function
| [] -> true
| a :: l0 -> (&&) (f a) (forallb f l0)

(** val filter : ('a1 -> bool) -> 'a1 list -> 'a1 list **)

let rec filter f = function
| [] -> []
| x :: l0 -> if f x then x :: (filter f l0) else filter f l0

(** val firstn : nat -> 'a1 list -> 'a1 list **)

let rec firstn n0 l =
  match n0 with
  | O -> []
  | S n1 -> (match l with
             | [] -> []
             | a :: l0 -> a :: (firstn n1 l0))

(** val skipn : nat -> 'a1 list -> 'a1 list **)

let rec skipn n0 l =
  match n0 with
  | O -> l
  | S n1 -> (match l with
             | [] -> []
             | _ :: l0 -> skipn n1 l0)

(** val seq : nat -> nat -> nat list **)

let rec seq start = function
| O -> []
| S len0 -> start :: (seq (S start) len0)

type positive =
| XI of positive
| XO of positive
| XH

type n =
| N0
| Npos of positive

type z =
| Z0
| Zpos of positive
| Zneg of positive

module Pos =
 struct
  (** val succ : positive -> positive **)

  let rec succ = function
  | XI p -> XO (succ p)
  | XO p -> XI p
  | XH -> XO XH

  (** val add : positive -> positive -> positive **)

  let rec add x y =
    match x with
    | XI p ->
      (match y with
       | XI q -> XO (add_carry p q)
       | XO q -> XI (add p q)
       | XH -> XO (succ p))
    | XO p ->
      (match y with
       | XI q -> XI (add p q)
       | XO q -> XO (add p q)
       | XH -> XI p)
    | XH -> (match y with
             | XI q -> XO (succ q)
             | XO q -> XI q
             | XH -> XO XH)

  (** val add_carry : positive -> positive -> positive **)

  and add_carry x y =
    match x with
    | XI p ->
      (match y with
       | XI q -> XI (add_carry p q)
       | XO q -> XO (add_carry p q)
       | XH -> XI (succ p))
    | XO p ->
      (match y with
       | XI q -> XO (add_carry p q)
       | XO q -> XI (add p q)
       | XH -> XO (succ p))
    | XH ->
      (match y with
       | XI q -> XI (succ q)
       | XO q -> XO (succ q)
       | XH -> XI XH)

  (** val pred_double : positive -> positive **)

  let rec pred_double = function
  | XI p -> XI (XO p)
  | XO p -> XI (pred_double p)
  | XH -> XH

  (** val compare_cont : comparison -> positive -> positive -> comparison **)

  let rec compare_cont r x y =
    match x with
    | XI p ->
      (match y with
       | XI q -> compare_cont r p q
       | XO q -> compare_cont Gt p q
       | XH -> Gt)
    | XO p ->
      (match y with
       | XI q -> compare_cont Lt p q
       | XO q -> compare_cont r p q
       | XH -> Gt)
    | XH -> (match y with
             | XH -> r
             | _ -> Lt)

  (** val compare : positive -> positive -> comparison **)

  let compare =
    compare_cont Eq

  (** val eqb : positive -> positive -> bool **)

  let rec eqb p q =
    match p with
    | XI p0 -> (match q with
                | XI q0 -> eqb p0 q0
                | _ -> false)
    | XO p0 -> (match q with
                | XO q0 -> eqb p0 q0
                | _ -> false)
    | XH -> (match q with
             | XH -> true
             | _ -> false)
 end

module N =
 struct
  (** val eqb : n -> n -> bool **)

  let eqb n0 m =
    match n0 with
    | N0 -> (match m with
             | N0 -> true
             | Npos _ -> false)
    | Npos p -> (match m with
                 | N0 -> false
                 | Npos q -> Pos.eqb p q)
 end

module Z =
 struct
  (** val double : z -> z **)

  let double = function
  | Z0 -> Z0
  | Zpos p -> Zpos (XO p)
  | Zneg p -> Zneg (XO p)

  (** val succ_double : z -> z **)

  let succ_double = function
  | Z0 -> Zpos XH
  | Zpos p -> Zpos (XI p)
  | Zneg p -> Zneg (Pos.pred_double p)

  (** val pred_double : z -> z **)

  let pred_double = function
  | Z0 -> Zneg XH
  | Zpos p -> Zpos (Pos.pred_double p)
  | Zneg p -> Zneg (XI p)

  (** val pos_sub : positive -> positive -> z **)

  let rec pos_sub x y =
    match x with
    | XI p ->
      (match y with
       | XI q -> double (pos_sub p q)
       | XO q -> succ_double (pos_sub p q)
       | XH -> Zpos (XO p))
    | XO p ->
      (match y with
       | XI q -> pred_double (pos_sub p q)
       | XO q -> double (pos_sub p q)
       | XH -> Zpos (Pos.pred_double p))
    | XH ->
      (match y with
       | XI q -> Zneg (XO q)
       | XO q -> Zneg (Pos.pred_double q)
       | XH -> Z0)

  (** val add : z -> z -> z **)

  let add x y =
    match x with
    | Z0 -> y
    | Zpos x' ->
      (match y with
       | Z0 -> x
       | Zpos y' -> Zpos (Pos.add x' y')
       | Zneg y' -> pos_sub x' y')
    | Zneg x' ->
      (match y with
       | Z0 -> x
       | Zpos y' -> pos_sub y' x'
       | Zneg y' -> Zneg (Pos.add x' y'))

  (** val opp : z -> z **)

  let opp = function
  | Z0 -> Z0
  | Zpos x0 -> Zneg x0
  | Zneg x0 -> Zpos x0

  (** val sub : z -> z -> z **)

  let sub m n0 =
    add m (opp n0)

  (** val compare : z -> z -> comparison **)

  let compare x y =
    match x with
    | Z0 -> (match y with
             | Z0 -> Eq
             | Zpos _ -> Lt
             | Zneg _ -> Gt)
    | Zpos x' -> (match y with
                  | Zpos y' -> Pos.compare x' y'
                  | _ -> Gt)
    | Zneg x' ->
      (match y with
       | Zneg y' -> compOpp (Pos.compare x' y')
       | _ -> Lt)

  (** val leb : z -> z -> bool **)

  let leb x y =
    match compare x y with
    | Gt -> false
    | _ -> true

  (** val ltb : z -> z -> bool **)

  let ltb x y =
    match compare x y with
    | Lt -> true
    | _ -> false

  (** val eqb : z -> z -> bool **)

  let eqb x y =
    match x with
    | Z0 -> (match y with
             | Z0 -> true
             | _ -> false)
    | Zpos p -> (match y with
                 | Zpos q -> Pos.eqb p q
                 | _ -> false)
    | Zneg p -> (match y with
                 | Zneg q -> Pos.eqb p q
                 | _ -> false)

  (** val max : z -> z -> z **)

  let max n0 m =
    match compare n0 m with
    | Lt -> m
    | _ -> n0

  (** val abs : z -> z **)

  let abs = function
  | Zneg p -> Zpos p
  | x -> x
 end

type syll = nat

type code = syll list

type text = n list

type props = { p_end : nat; p_type : nat; p_cred : z; p_corr : bool }

type spelling_index = (syll * props list) list

type graph = { g_input_len : nat; g_ilen : nat;
               g_edges : (nat * (nat * (syll * props) list) list) list;
               g_indices : (nat * spelling_index) list }

type tentry = { te_text : text; te_w : z }

type lentry = { le_extra : code; le_ent : tentry }

type node = { n_code : code; n_ents : tentry list; n_next : bool;
              n_tail : lentry list }

type table = node list

type prism = (text * (syll * nat) list) list

(** val assoc_nat : nat -> (nat * 'a1) list -> 'a1 option **)

let rec assoc_nat k = function
| [] -> None
| p :: r -> let (k', v) = p in if Nat.eqb k k' then Some v else assoc_nat k r

(** val assoc_list : nat -> (nat * 'a1 list) list -> 'a1 list **)

let assoc_list k l =
  match assoc_nat k l with
  | Some v -> v
  | None -> []

(** val code_eqb : code -> code -> bool **)

let rec code_eqb a b =
  match a with
  | [] -> (match b with
           | [] -> true
           | _ :: _ -> false)
  | x :: a' ->
    (match b with
     | [] -> false
     | y :: b' -> (&&) (Nat.eqb x y) (code_eqb a' b'))

(** val text_eqb : text -> text -> bool **)

let rec text_eqb a b =
  match a with
  | [] -> (match b with
           | [] -> true
           | _ :: _ -> false)
  | x :: a' ->
    (match b with
     | [] -> false
     | y :: b' -> (&&) (N.eqb x y) (text_eqb a' b'))

(** val find_node : table -> code -> node option **)

let rec find_node t c =
  match t with
  | [] -> None
  | n0 :: r -> if code_eqb n0.n_code c then Some n0 else find_node r c

(** val node_ents : table -> code -> tentry list **)

let node_ents t c =
  match find_node t c with
  | Some n0 -> n0.n_ents
  | None -> []

(** val node_next : table -> code -> bool **)

let node_next t c =
  match find_node t c with
  | Some n0 -> n0.n_next
  | None -> false

(** val node_tail : table -> code -> lentry list **)

let node_tail t c =
  match find_node t c with
  | Some n0 -> n0.n_tail
  | None -> []

(** val map_push :
    nat -> 'a1 -> (nat * 'a1 list) list -> (nat * 'a1 list) list **)

let rec map_push k v m = match m with
| [] -> (k, (v :: [])) :: []
| p :: m' ->
  let (k', vs) = p in
  if Nat.ltb k k'
  then (k, (v :: [])) :: m
  else if Nat.eqb k k'
       then (k', (app vs (v :: []))) :: m'
       else (k', vs) :: (map_push k v m')

(** val group : (nat * 'a1) list -> (nat * 'a1 list) list **)

let group items =
  fold_left (fun m kv -> map_push (fst kv) (snd kv) m) items []

type accessor =
| AccShort of code * tentry list * z
| AccLong of code * lentry list * z

(** val acc_exhausted : accessor -> bool **)

let acc_exhausted = function
| AccShort (_, ents, _) -> (match ents with
                            | [] -> true
                            | _ :: _ -> false)
| AccLong (_, ents, _) -> (match ents with
                           | [] -> true
                           | _ :: _ -> false)

(** val access : table -> code -> syll -> z -> accessor **)

let access t ic s cred =
  AccShort ((app ic (s :: [])), (node_ents t (app ic (s :: []))), cred)

(** val tail_access : table -> code -> z -> accessor **)

let tail_access t ic cred =
  AccLong (ic, (node_tail t ic), cred)

(** val can_advance : table -> code -> syll -> bool **)

let can_advance t ic s =
  node_next t (app ic (s :: []))

type qstate = (nat * code) * z

(** val step_state :
    graph -> table -> qstate -> (nat * accessor) list * qstate list **)

let step_state g t = function
| (p, cred) ->
  let (pos, ic) = p in
  (match assoc_nat pos g.g_indices with
   | Some index ->
     if Nat.eqb (length ic) (S (S (S O)))
     then let a = tail_access t ic cred in
          ((if acc_exhausted a then [] else (pos, a) :: []), [])
     else ((flat_map (fun sp ->
             let a = access t ic (fst sp) cred in
             flat_map (fun p0 ->
               if acc_exhausted a then [] else (p0.p_end, a) :: []) (snd sp))
             index),
            (flat_map (fun sp ->
              flat_map (fun p0 ->
                if (&&) (Nat.ltb p0.p_end g.g_ilen)
                     (can_advance t ic (fst sp))
                then ((p0.p_end, (app ic ((fst sp) :: []))),
                       (Z.add cred p0.p_cred)) :: []
                else []) (snd sp)) index))
   | None -> ([], []))

(** val step_all :
    graph -> table -> qstate list -> (nat * accessor) list * qstate list **)

let step_all g t sts =
  ((flat_map (fun st -> fst (step_state g t st)) sts),
    (flat_map (fun st -> snd (step_state g t st)) sts))

(** val query : graph -> table -> nat -> (nat * accessor) list **)

let query g t start =
  if Nat.leb g.g_ilen start
  then []
  else let r0 = step_all g t (((start, []), Z0) :: []) in
       let r1 = step_all g t (snd r0) in
       let r2 = step_all g t (snd r1) in
       let r3 = step_all g t (snd r2) in
       app (fst r0) (app (fst r1) (app (fst r2) (fst r3)))

type chunk = { c_code : code; c_ents : tentry list; c_remlen : nat;
               c_match : nat; c_cred : z }

(** val set_ents : chunk -> tentry list -> chunk **)

let set_ents c l =
  { c_code = c.c_code; c_ents = l; c_remlen = c.c_remlen; c_match =
    c.c_match; c_cred = c.c_cred }

(** val is_exact : chunk -> bool **)

let is_exact c =
  Nat.eqb c.c_match (length c.c_code)

(** val chunk_lt : chunk -> chunk -> bool **)

let chunk_lt a b =
  match a.c_ents with
  | [] -> false
  | ea :: _ ->
    (match b.c_ents with
     | [] -> true
     | eb :: _ ->
       if negb (eqb (is_exact a) (is_exact b))
       then is_exact a
       else if negb (Nat.eqb a.c_remlen b.c_remlen)
            then Nat.ltb a.c_remlen b.c_remlen
            else Z.ltb (Z.add b.c_cred eb.te_w) (Z.add a.c_cred ea.te_w))

type cmatch = (bool * nat) * nat

(** val k_failed : cmatch **)

let k_failed =
  ((false, O), O)

(** val match_extra : graph -> bool -> code -> nat -> nat -> cmatch **)

let rec match_extra g predict rest depth pos =
  match rest with
  | [] -> ((true, depth), pos)
  | s :: rest' ->
    if Nat.leb g.g_ilen pos
    then if predict then ((true, depth), g.g_ilen) else k_failed
    else (match assoc_nat pos g.g_indices with
          | Some index ->
            (match assoc_nat s index with
             | Some pl ->
               fold_left (fun best p ->
                 let m = match_extra g predict rest' (S depth) p.p_end in
                 if fst (fst m)
                 then if Nat.ltb (snd best) (snd m) then m else best
                 else best) pl k_failed
             | None -> k_failed)
          | None -> k_failed)

(** val chunks_of_item :
    graph -> bool -> (nat * accessor) -> (nat * chunk) list **)

let chunks_of_item g predict item =
  let end_pos = fst item in
  (match snd item with
   | AccShort (ic, ents, cred) ->
     (end_pos, { c_code = ic; c_ents = ents; c_remlen = O; c_match =
       (length ic); c_cred = cred }) :: []
   | AccLong (ic, les, cred) ->
     flat_map (fun le ->
       let m = match_extra g predict le.le_extra O end_pos in
       if fst (fst m)
       then ((snd m), { c_code = (app ic le.le_extra); c_ents =
              (le.le_ent :: []); c_remlen = O; c_match =
              (add (length ic) (snd (fst m))); c_cred = cred }) :: []
       else []) les)

(** val select_swap : chunk -> chunk list -> chunk * chunk list **)

let rec select_swap cur = function
| [] -> (cur, [])
| x :: r ->
  if chunk_lt x cur
  then let br = select_swap x r in ((fst br), (cur :: (snd br)))
  else let br = select_swap cur r in ((fst br), (x :: (snd br)))

(** val sort_head : chunk list -> chunk list **)

let sort_head = function
| [] -> []
| c :: r -> let br = select_swap c r in (fst br) :: (snd br)

(** val lookup_chunks :
    graph -> table -> nat -> bool -> (nat * chunk) list **)

let lookup_chunks g t start predict =
  flat_map (fun ea ->
    flat_map (fun a -> chunks_of_item g predict ((fst ea), a)) (snd ea))
    (group (query g t start))

(** val lookup : graph -> table -> nat -> bool -> (nat * chunk list) list **)

let lookup g t start predict =
  map (fun ec -> ((fst ec), (sort_head (snd ec))))
    (group (lookup_chunks g t start predict))

type dentry = { d_text : text; d_code : code; d_w : z; d_remlen : nat;
                d_match : nat }

(** val mk_dentry : chunk -> tentry -> dentry **)

let mk_dentry c e =
  { d_text = e.te_text; d_code = c.c_code; d_w = (Z.add e.te_w c.c_cred);
    d_remlen = c.c_remlen; d_match =
    (if Nat.ltb c.c_match (length c.c_code) then c.c_match else O) }

(** val d_exact : dentry -> bool **)

let d_exact d =
  (||) (Nat.eqb d.d_match O) (Nat.eqb d.d_match (length d.d_code))

(** val d_predictive : dentry -> bool **)

let d_predictive d =
  (&&) (negb (Nat.eqb d.d_match O)) (Nat.ltb d.d_match (length d.d_code))

(** val iter_peek : chunk list -> dentry option **)

let iter_peek = function
| [] -> None
| c :: _ -> (match c.c_ents with
             | [] -> None
             | e :: _ -> Some (mk_dentry c e))

(** val iter_next : chunk list -> chunk list **)

let iter_next = function
| [] -> []
| c :: r ->
  (match c.c_ents with
   | [] -> sort_head r
   | _ :: tl ->
     (match tl with
      | [] -> sort_head r
      | _ :: _ -> sort_head ((set_ents c tl) :: r)))

(** val total : chunk list -> nat **)

let total it =
  fold_right (fun c n0 -> add (length c.c_ents) n0) O it

(** val drain : nat -> chunk list -> dentry list **)

let rec drain fuel it =
  match fuel with
  | O -> []
  | S f ->
    (match iter_peek it with
     | Some d -> d :: (drain f (iter_next it))
     | None -> [])

(** val drain_all : chunk list -> dentry list **)

let drain_all it =
  drain (total it) it

(** val skip : chunk list -> nat -> chunk list **)

let rec skip it n0 = match n0 with
| O -> it
| S _ ->
  (match it with
   | [] -> []
   | c :: r ->
     if Nat.ltb n0 (length c.c_ents)
     then (set_ents c (skipn n0 c.c_ents)) :: r
     else skip r (sub n0 (length c.c_ents)))

type ctype =
| TPhrase
| TCompletion
| TSentence
| TTable

type cand = { k_type : ctype; k_start : nat; k_end : nat; k_text : text;
              k_code : code }

(** val text_mem : text -> text list -> bool **)

let rec text_mem x = function
| [] -> false
| y :: r -> (||) (text_eqb x y) (text_mem x r)

(** val distinct : text list -> cand list -> cand list **)

let rec distinct seen = function
| [] -> []
| c :: r ->
  if text_mem c.k_text seen
  then distinct seen r
  else c :: (distinct (c.k_text :: seen) r)

type wgraph = (nat * (nat * dentry list) list) list

type sentence = (dentry * nat) list

(** val sentence_cand : sentence -> cand **)

let sentence_cand s =
  { k_type = TSentence; k_start = O; k_end = (last (map snd s) O); k_text =
    (flat_map (fun c -> (fst c).d_text) s); k_code =
    (flat_map (fun c -> (fst c).d_code) s) }

(** val dentry_in : dentry -> dentry list -> bool **)

let rec dentry_in d = function
| [] -> false
| x :: r ->
  (||) ((&&) (text_eqb d.d_text x.d_text) (code_eqb d.d_code x.d_code))
    (dentry_in d r)

(** val wg_path_ok : wgraph -> nat -> nat -> sentence -> bool **)

let rec wg_path_ok wg pos total0 = function
| [] -> Nat.eqb pos total0
| p :: r ->
  let (d, e) = p in
  (&&) (dentry_in d (assoc_list e (assoc_list pos wg)))
    (wg_path_ok wg e total0 r)

(** val wg_reach : wgraph -> nat -> nat list **)

let wg_reach wg total0 =
  fold_left (fun r se ->
    if existsb (Nat.eqb (fst se)) r
    then app r
           (flat_map (fun ee ->
             match snd ee with
             | [] -> []
             | _ :: _ ->
               if (&&) (Nat.eqb (fst se) O) (Nat.eqb (fst ee) total0)
               then []
               else (fst ee) :: []) (snd se))
    else r) wg (O :: [])

(** val wg_has_path : wgraph -> nat -> bool **)

let wg_has_path wg total0 =
  existsb (Nat.eqb total0) (wg_reach wg total0)

(** val script_phrase_entries :
    (nat * chunk list) list -> (nat * dentry) list **)

let script_phrase_entries coll =
  flat_map (fun ei -> map (fun d -> ((fst ei), d)) (drain_all (snd ei)))
    (rev coll)

(** val phrase_cand : (nat * dentry) -> cand **)

let phrase_cand ed =
  { k_type = (if d_predictive (snd ed) then TCompletion else TPhrase);
    k_start = O; k_end = (fst ed); k_text = (snd ed).d_text; k_code =
    (snd ed).d_code }

(** val script_phrases : (nat * chunk list) list -> cand list **)

let script_phrases coll =
  map phrase_cand (script_phrase_entries coll)

(** val script_wgraph : graph -> table -> nat -> wgraph **)

let script_wgraph g t mh =
  map (fun x -> ((fst x),
    (map (fun ei -> ((fst ei), (firstn mh (drain_all (snd ei)))))
      (lookup g t (fst x) false)))) g.g_edges

(** val has_exact_at : (nat * chunk list) list -> nat -> bool **)

let has_exact_at rcoll consumed =
  match rcoll with
  | [] -> false
  | ei :: _ ->
    (&&) (Nat.eqb (fst ei) consumed)
      (match iter_peek (snd ei) with
       | Some d -> d_exact d
       | None -> false)

(** val script_translation :
    (wgraph -> nat -> sentence option) -> bool -> nat -> graph -> table ->
    cand list option **)

let script_translation poet wordcompl mh g t =
  let predict = (&&) wordcompl (Nat.eqb g.g_ilen g.g_input_len) in
  (match lookup g t O predict with
   | [] -> None
   | p :: l ->
     let coll = p :: l in
     let sent =
       if (&&) (Nat.leb (S (S O)) (length g.g_edges))
            (negb (has_exact_at (rev coll) g.g_ilen))
       then (match poet (script_wgraph g t mh) g.g_ilen with
             | Some s -> (sentence_cand s) :: []
             | None -> [])
       else []
     in
     Some (app sent (script_phrases coll)))

(** val script_query :
    (wgraph -> nat -> sentence option) -> bool -> nat -> graph -> table ->
    cand list **)

let script_query poet wordcompl mh g t =
  match script_translation poet wordcompl mh g t with
  | Some l -> distinct [] l
  | None -> []

(** val is_prefix : text -> text -> bool **)

let rec is_prefix p s =
  match p with
  | [] -> true
  | x :: p' ->
    (match s with
     | [] -> false
     | y :: s' -> (&&) (N.eqb x y) (is_prefix p' s'))

(** val expand_search :
    prism -> text -> nat -> (text * (syll * nat) list) list **)

let expand_search pr key limit =
  let ms = filter (fun ks -> is_prefix key (fst ks)) pr in
  if Nat.eqb limit O then ms else firstn limit ms

(** val exact_key : prism -> text -> (syll * nat) list option **)

let rec exact_key pr key =
  match pr with
  | [] -> None
  | ks :: r ->
    if text_eqb (fst ks) key then Some (snd ks) else exact_key r key

(** val common_prefix : prism -> text -> (text * (syll * nat) list) list **)

let common_prefix pr s =
  filter (fun ks ->
    (&&) (negb (Nat.eqb (length (fst ks)) O)) (is_prefix (fst ks) s)) pr

(** val syl_str : (nat * text) list -> syll -> text **)

let syl_str syls s =
  match assoc_nat s syls with
  | Some x -> x
  | None -> []

(** val words_chunks :
    (nat * text) list -> table -> nat -> nat -> (syll * nat) list -> chunk
    list **)

let words_chunks syls t code_length mlen sps =
  flat_map (fun st ->
    if Nat.ltb O (snd st)
    then []
    else let remaining =
           if Nat.ltb code_length mlen
           then let s = syl_str syls (fst st) in
                if Nat.ltb code_length (length s)
                then skipn code_length s
                else []
           else []
         in
         (match node_ents t ((fst st) :: []) with
          | [] -> []
          | t0 :: l ->
            { c_code = ((fst st) :: []); c_ents = (t0 :: l); c_remlen =
              (length remaining); c_match = (S O); c_cred = Z0 } :: [])) sps

(** val lookup_words :
    prism -> (nat * text) list -> table -> text -> bool -> nat -> nat * chunk
    list **)

let lookup_words pr syls t inp predictive limit =
  if predictive
  then let keys = expand_search pr inp limit in
       ((length keys),
       (flat_map (fun ks ->
         words_chunks syls t (length inp) (length (fst ks)) (snd ks)) keys))
  else (match exact_key pr inp with
        | Some sps -> ((S O), (words_chunks syls t (length inp) O sps))
        | None -> (O, []))

(** val table_cand : nat -> dentry -> cand **)

let table_cand endp d =
  { k_type = (if Nat.eqb d.d_remlen O then TTable else TCompletion);
    k_start = O; k_end = endp; k_text = d.d_text; k_code = d.d_code }

type lazy_state = (chunk list * nat) * nat

(** val maybe_sort : bool -> chunk list -> chunk list **)

let maybe_sort presort cs =
  if presort then sort_head cs else cs

(** val fetch_more :
    bool -> prism -> (nat * text) list -> table -> text -> lazy_state ->
    lazy_state **)

let fetch_more presort pr syls t inp st = match st with
| (p, cnt) ->
  let (it, limit) = p in
  if Nat.eqb limit O
  then st
  else let r = lookup_words pr syls t inp true limit in
       let limit' =
         if Nat.ltb (fst r) limit
         then O
         else mul limit (S (S (S (S (S (S (S (S (S (S O))))))))))
       in
       if Nat.ltb cnt (total (snd r))
       then (((maybe_sort presort (skip (snd r) cnt)), limit'),
              (total (snd r)))
       else ((it, limit'), cnt)

(** val lazy_drain :
    bool -> prism -> (nat * text) list -> table -> text -> nat -> lazy_state
    -> dentry list **)

let rec lazy_drain presort pr syls t inp fuel st =
  match fuel with
  | O -> []
  | S f ->
    let (p, cnt) = st in
    let (it, limit) = p in
    (match iter_peek it with
     | Some d ->
       let it1 = iter_next it in
       let st1 =
         match it1 with
         | [] -> fetch_more presort pr syls t inp ((it1, limit), cnt)
         | _ :: _ -> ((it1, limit), cnt)
       in
       d :: (lazy_drain presort pr syls t inp f st1)
     | None -> [])

(** val lazy_fuel : prism -> (nat * text) list -> table -> text -> nat **)

let lazy_fuel pr syls t inp =
  S (total (snd (lookup_words pr syls t inp true O)))

(** val trim_right : text -> text -> text **)

let rec trim_right delims = function
| [] -> []
| x :: r ->
  (match trim_right delims r with
   | [] -> if existsb (N.eqb x) delims then [] else x :: []
   | n0 :: l -> x :: (n0 :: l))

(** val consume_delims : text -> text -> nat -> nat **)

let rec consume_delims delims rest pos =
  match rest with
  | [] -> pos
  | x :: r ->
    if existsb (N.eqb x) delims then consume_delims delims r (S pos) else pos

type ms_state = (nat list * wgraph) * (nat * chunk list) list

(** val coll_put :
    nat -> chunk list -> (nat * chunk list) list -> (nat * chunk list) list **)

let rec coll_put k it = function
| [] -> (k, it) :: []
| p :: r ->
  let (k', it') = p in
  if Nat.eqb k k' then (k, it) :: r else (k', it') :: (coll_put k it r)

(** val ms_at :
    nat -> prism -> (nat * text) list -> table -> text -> text -> ms_state ->
    nat -> ms_state **)

let ms_at mhg pr syls t delims inp st start_pos =
  let (p, coll) = st in
  let (verts, wg) = p in
  if negb (existsb (Nat.eqb start_pos) verts)
  then st
  else let active = skipn start_pos inp in
       let matches = common_prefix pr active in
       let r =
         fold_left (fun acc ks ->
           let (p0, coll0) = acc in
           let (verts0, same_start) = p0 in
           let mlen = length (fst ks) in
           let consumed = consume_delims delims (skipn mlen active) mlen in
           let end_pos = add start_pos consumed in
           let homographs = assoc_list end_pos same_start in
           let same_start0 =
             match assoc_nat end_pos same_start with
             | Some _ -> same_start
             | None -> app same_start ((end_pos, []) :: [])
           in
           if Nat.leb mhg (length homographs)
           then ((verts0, same_start0), coll0)
           else let it =
                  snd (lookup_words pr syls t (firstn mlen active) false O)
                in
                (match iter_peek it with
                 | Some _ ->
                   (((end_pos :: verts0),
                     (map (fun eh ->
                       if Nat.eqb (fst eh) end_pos
                       then ((fst eh),
                              (app (snd eh)
                                (firstn (sub mhg (length homographs))
                                  (drain_all it))))
                       else eh) same_start0)),
                     (if Nat.eqb start_pos O
                      then coll_put consumed it coll0
                      else coll0))
                 | None -> ((verts0, same_start0), coll0))) (rev matches)
           ((verts, []), coll)
       in
       let (p0, coll') = r in
       let (verts', same_start) = p0 in
       ((verts', (app wg ((start_pos, same_start) :: []))), coll')

(** val table_ms :
    nat -> prism -> (nat * text) list -> table -> text -> text -> ms_state **)

let table_ms mhg pr syls t delims inp =
  fold_left (ms_at mhg pr syls t delims inp) (seq O (length inp))
    (((O :: []), []), [])

(** val table_wgraph :
    nat -> prism -> (nat * text) list -> table -> text -> text -> wgraph **)

let table_wgraph mhg pr syls t delims inp =
  snd (fst (table_ms mhg pr syls t delims inp))

(** val prefix_phrases : (nat * chunk list) list -> cand list **)

let prefix_phrases coll =
  flat_map (fun ci ->
    map (fun d -> { k_type = TTable; k_start = O; k_end = (fst ci); k_text =
      d.d_text; k_code = d.d_code }) (drain_all (snd ci)))
    (rev
      (group
        (flat_map (fun ci -> map (fun c -> ((fst ci), c)) (snd ci)) coll)))

(** val table_sentence :
    (wgraph -> nat -> sentence option) -> nat -> prism -> (nat * text) list
    -> table -> text -> text -> cand list option **)

let table_sentence poet mhg pr syls t delims inp =
  match poet (table_wgraph mhg pr syls t delims inp) (length inp) with
  | Some s ->
    Some
      ((sentence_cand s) :: (prefix_phrases
                              (snd (table_ms mhg pr syls t delims inp))))
  | None -> None

(** val table_entries :
    bool -> bool -> prism -> (nat * text) list -> table -> text -> dentry list **)

let table_entries presort completion pr syls t code0 =
  if completion
  then lazy_drain presort pr syls t code0 (lazy_fuel pr syls t code0)
         (fetch_more presort pr syls t code0 (([], (S (S (S (S (S (S (S (S (S
           (S O))))))))))), O))
  else drain_all
         (maybe_sort presort (snd (lookup_words pr syls t code0 false O)))

(** val table_query_gen :
    (wgraph -> nat -> sentence option) -> bool -> bool -> bool -> nat ->
    prism -> (nat * text) list -> table -> text -> text -> cand list **)

let table_query_gen poet presort completion sentence_on mhg pr syls t delims inp =
  let code0 = trim_right delims inp in
  (match table_entries presort completion pr syls t code0 with
   | [] ->
     if sentence_on
     then (match table_sentence poet mhg pr syls t delims inp with
           | Some l -> distinct [] l
           | None -> [])
     else []
   | d :: l -> distinct [] (map (table_cand (length inp)) (d :: l)))

(** val table_query :
    (wgraph -> nat -> sentence option) -> bool -> bool -> nat -> prism ->
    (nat * text) list -> table -> text -> text -> cand list **)

let table_query poet =
  table_query_gen poet true

type comp = { cp_ent : dentry; cp_end : nat; cp_w : z }

type line = comp list

(** val l_empty : line -> bool **)

let l_empty = function
| [] -> true
| _ :: _ -> false

(** val l_weight : line -> z **)

let l_weight = function
| [] -> Z0
| c :: _ -> c.cp_w

(** val last_word : line -> text **)

let last_word = function
| [] -> []
| c :: _ -> c.cp_ent.d_text

(** val l_context : line -> text **)

let l_context = function
| [] -> []
| c :: l0 ->
  (match l0 with
   | [] -> c.cp_ent.d_text
   | p :: _ -> app p.cp_ent.d_text c.cp_ent.d_text)

(** val diffs : nat -> nat list -> nat list **)

let rec diffs prev = function
| [] -> []
| e :: r -> (sub e prev) :: (diffs e r)

(** val word_lengths : line -> nat list **)

let word_lengths l =
  diffs O (map (fun c -> c.cp_end) (rev l))

(** val lex_lt : nat list -> nat list -> bool **)

let rec lex_lt a b =
  match a with
  | [] -> (match b with
           | [] -> false
           | _ :: _ -> true)
  | x :: a' ->
    (match b with
     | [] -> false
     | y :: b' ->
       if Nat.ltb x y
       then true
       else if Nat.ltb y x then false else lex_lt a' b')

(** val compare_weight : line -> line -> bool **)

let compare_weight one other =
  Z.ltb (l_weight one) (l_weight other)

(** val left_associate_compare : line -> line -> bool **)

let left_associate_compare one other =
  if Z.ltb (l_weight one) (l_weight other)
  then true
  else if Z.eqb (l_weight one) (l_weight other)
       then let a = word_lengths one in
            let b = word_lengths other in
            if Nat.ltb (length b) (length a)
            then true
            else if Nat.eqb (length a) (length b) then lex_lt a b else false
       else false

(** val sentence_of : line -> sentence **)

let sentence_of l =
  map (fun c -> (c.cp_ent, c.cp_end)) (rev l)

(** val put : nat -> 'a1 -> (nat * 'a1) list -> (nat * 'a1) list **)

let rec put k v = function
| [] -> (k, v) :: []
| p :: r ->
  let (k', v') = p in
  if Nat.eqb k k' then (k, v) :: r else (k', v') :: (put k v r)

(** val evaluate :
    (text -> text -> bool -> z) option -> z -> text -> dentry -> bool -> z **)

let evaluate gr pen context d is_rear =
  Z.add d.d_w
    (match gr with
     | Some q -> q context d.d_text is_rear
     | None -> pen)

(** val new_line :
    (text -> text -> bool -> z) option -> z -> text -> line -> nat -> bool ->
    dentry -> line **)

let new_line gr pen preceding cand0 end_pos is_rear d =
  let context = if l_empty cand0 then preceding else l_context cand0 in
  { cp_ent = d; cp_end = end_pos; cp_w =
  (Z.add (l_weight cand0) (evaluate gr pen context d is_rear)) } :: cand0

(** val better : (line -> line -> bool) -> line -> line -> line **)

let better cmp best nl =
  if (||) (l_empty best) (cmp best nl) then nl else best

type dp_states = (nat * line) list

(** val dp_edge :
    (text -> text -> bool -> z) option -> z -> (line -> line -> bool) -> text
    -> nat -> nat -> line -> dp_states -> (nat * dentry list) -> dp_states **)

let dp_edge gr pen cmp preceding start_pos total0 cand0 sts ev =
  let end_pos = fst ev in
  if (&&) (Nat.eqb start_pos O) (Nat.eqb end_pos total0)
  then sts
  else let target = match assoc_nat end_pos sts with
                    | Some l -> l
                    | None -> []
       in
       put end_pos
         (fold_left (fun best d ->
           better cmp best
             (new_line gr pen preceding cand0 end_pos
               (Nat.eqb end_pos total0) d)) (snd ev) target) sts

(** val dp_step :
    (text -> text -> bool -> z) option -> z -> (line -> line -> bool) -> text
    -> nat -> dp_states -> (nat * (nat * dentry list) list) -> dp_states **)

let dp_step gr pen cmp preceding total0 sts sv =
  match assoc_nat (fst sv) sts with
  | Some cand0 ->
    fold_left (dp_edge gr pen cmp preceding (fst sv) total0 cand0) (snd sv)
      sts
  | None -> sts

(** val dp_run :
    (text -> text -> bool -> z) option -> z -> (line -> line -> bool) -> text
    -> wgraph -> nat -> dp_states **)

let dp_run gr pen cmp preceding wg total0 =
  fold_left (dp_step gr pen cmp preceding total0) wg ((O, []) :: [])

(** val dp_sentence :
    (text -> text -> bool -> z) option -> z -> (line -> line -> bool) -> text
    -> wgraph -> nat -> sentence option **)

let dp_sentence gr pen cmp preceding wg total0 =
  match assoc_nat total0 (dp_run gr pen cmp preceding wg total0) with
  | Some l -> (match l with
               | [] -> None
               | _ :: _ -> Some (sentence_of l))
  | None -> None

type bstate = (text * line) list

(** val bs_find : text -> bstate -> line option **)

let rec bs_find k = function
| [] -> None
| p :: r -> let (k', l) = p in if text_eqb k k' then Some l else bs_find k r

(** val bs_put : text -> line -> bstate -> bstate **)

let rec bs_put k v = function
| [] -> (k, v) :: []
| p :: r ->
  let (k', l) = p in
  if text_eqb k k' then (k, v) :: r else (k', l) :: (bs_put k v r)

(** val upper_bound :
    nat -> (line -> bool) -> line list -> nat -> nat -> nat **)

let rec upper_bound fuel lt l first len =
  match fuel with
  | O -> first
  | S f ->
    if Nat.eqb len O
    then first
    else let half = Nat.div len (S (S O)) in
         let middle = add first half in
         if lt (nth middle l [])
         then upper_bound f lt l first half
         else upper_bound f lt l (S middle) (sub (sub len half) (S O))

(** val k_max_line_candidates : nat **)

let k_max_line_candidates =
  S (S (S (S (S (S (S O))))))

(** val top_insert :
    (line -> line -> bool) -> line list -> line -> line list **)

let top_insert cmp top c =
  let pos = upper_bound (S (length top)) (fun x -> cmp x c) top O (length top)
  in
  if Nat.leb k_max_line_candidates pos
  then top
  else let t = app (firstn pos top) (c :: (skipn pos top)) in
       if Nat.ltb k_max_line_candidates (length t) then removelast t else t

(** val find_top : (line -> line -> bool) -> bstate -> line list **)

let find_top cmp st =
  fold_left (top_insert cmp) (map snd st) []

(** val beam_entry :
    (text -> text -> bool -> z) option -> z -> (line -> line -> bool) -> text
    -> line -> nat -> bool -> bstate -> dentry -> bstate **)

let beam_entry gr pen cmp preceding cand0 end_pos is_rear st d =
  let nl = new_line gr pen preceding cand0 end_pos is_rear d in
  let key = last_word nl in
  let best = match bs_find key st with
             | Some l -> l
             | None -> [] in
  bs_put key (better cmp best nl) st

type beam_states = (nat * bstate) list

(** val beam_edge :
    (text -> text -> bool -> z) option -> z -> (line -> line -> bool) -> text
    -> nat -> nat -> line -> beam_states -> (nat * dentry list) -> beam_states **)

let beam_edge gr pen cmp preceding start_pos total0 cand0 sts ev =
  let end_pos = fst ev in
  if (&&) (Nat.eqb start_pos O) (Nat.eqb end_pos total0)
  then sts
  else let target =
         match assoc_nat end_pos sts with
         | Some st -> st
         | None -> []
       in
       put end_pos
         (fold_left
           (beam_entry gr pen cmp preceding cand0 end_pos
             (Nat.eqb end_pos total0)) (snd ev) target) sts

(** val beam_step :
    (text -> text -> bool -> z) option -> z -> (line -> line -> bool) -> text
    -> nat -> beam_states -> (nat * (nat * dentry list) list) -> beam_states **)

let beam_step gr pen cmp preceding total0 sts sv =
  match assoc_nat (fst sv) sts with
  | Some src ->
    fold_left (fun sts' cand0 ->
      fold_left (beam_edge gr pen cmp preceding (fst sv) total0 cand0)
        (snd sv) sts') (find_top cmp src) sts
  | None -> sts

(** val beam_run :
    (text -> text -> bool -> z) option -> z -> (line -> line -> bool) -> text
    -> wgraph -> nat -> beam_states **)

let beam_run gr pen cmp preceding wg total0 =
  fold_left (beam_step gr pen cmp preceding total0) wg ((O, (([],
    []) :: [])) :: [])

(** val best_in_state : (line -> line -> bool) -> bstate -> line **)

let best_in_state cmp st =
  match fold_left (fun best kl ->
          match best with
          | Some b -> if cmp b (snd kl) then Some (snd kl) else best
          | None -> Some (snd kl)) st None with
  | Some b -> b
  | None -> []

(** val beam_sentence :
    (text -> text -> bool -> z) option -> z -> (line -> line -> bool) -> text
    -> wgraph -> nat -> sentence option **)

let beam_sentence gr pen cmp preceding wg total0 =
  match assoc_nat total0 (beam_run gr pen cmp preceding wg total0) with
  | Some st ->
    (match st with
     | [] -> None
     | _ :: _ -> Some (sentence_of (best_in_state cmp st)))
  | None -> None

(** val make_sentence :
    (text -> text -> bool -> z) option -> z -> (line -> line -> bool) -> text
    -> wgraph -> nat -> sentence option **)

let make_sentence gr pen cmp preceding wg total0 =
  match gr with
  | Some _ -> beam_sentence gr pen cmp preceding wg total0
  | None -> dp_sentence gr pen cmp preceding wg total0

(** val increments : line -> z list **)

let rec increments = function
| [] -> []
| c :: r -> (Z.sub c.cp_w (l_weight r)) :: (increments r)

(** val zlist_eqb : z list -> z list -> bool **)

let rec zlist_eqb a b =
  match a with
  | [] -> (match b with
           | [] -> true
           | _ :: _ -> false)
  | x :: a' ->
    (match b with
     | [] -> false
     | y :: b' -> (&&) (Z.eqb x y) (zlist_eqb a' b'))

(** val safe_pair : z -> bool -> line -> line -> bool **)

let safe_pair eps exact kept nl =
  let d = Z.abs (Z.sub (l_weight kept) (l_weight nl)) in
  (||) (Z.leb eps d)
    ((&&) (Z.eqb d Z0)
      ((||) exact (zlist_eqb (increments kept) (increments nl))))

(** val dp_robust :
    (text -> text -> bool -> z) option -> z -> (line -> line -> bool) -> text
    -> z -> bool -> wgraph -> nat -> bool **)

let dp_robust gr pen cmp preceding eps exact wg total0 =
  let sts = dp_run gr pen cmp preceding wg total0 in
  forallb (fun sv ->
    match assoc_nat (fst sv) sts with
    | Some cand0 ->
      forallb (fun ev ->
        if (&&) (Nat.eqb (fst sv) O) (Nat.eqb (fst ev) total0)
        then true
        else (match assoc_nat (fst ev) sts with
              | Some kept ->
                forallb (fun d ->
                  safe_pair eps exact kept
                    (new_line gr pen preceding cand0 (fst ev)
                      (Nat.eqb (fst ev) total0) d)) (snd ev)
              | None -> false)) (snd sv)
    | None -> true) wg

(** val all_pairs : ('a1 -> 'a1 -> bool) -> 'a1 list -> bool **)

let rec all_pairs p = function
| [] -> true
| x :: r -> (&&) (forallb (p x) r) (all_pairs p r)

(** val beam_robust :
    (text -> text -> bool -> z) option -> z -> (line -> line -> bool) -> text
    -> z -> bool -> wgraph -> nat -> bool **)

let beam_robust gr pen cmp preceding eps exact wg total0 =
  let sts = beam_run gr pen cmp preceding wg total0 in
  (&&)
    (forallb (fun ps ->
      all_pairs (fun a b ->
        Z.leb eps (Z.abs (Z.sub (l_weight (snd a)) (l_weight (snd b)))))
        (snd ps)) sts)
    (forallb (fun sv ->
      match assoc_nat (fst sv) sts with
      | Some src ->
        forallb (fun cand0 ->
          forallb (fun ev ->
            if (&&) (Nat.eqb (fst sv) O) (Nat.eqb (fst ev) total0)
            then true
            else (match assoc_nat (fst ev) sts with
                  | Some st ->
                    forallb (fun d ->
                      let nl =
                        new_line gr pen preceding cand0 (fst ev)
                          (Nat.eqb (fst ev) total0) d
                      in
                      (match bs_find (last_word nl) st with
                       | Some kept -> safe_pair eps exact kept nl
                       | None -> false)) (snd ev)
                  | None -> false)) (snd sv)) (find_top cmp src)
      | None -> true) wg)

(** val robust :
    (text -> text -> bool -> z) option -> z -> (line -> line -> bool) -> text
    -> z -> bool -> wgraph -> nat -> bool **)

let robust gr pen cmp preceding eps exact wg total0 =
  match gr with
  | Some _ -> beam_robust gr pen cmp preceding eps exact wg total0
  | None -> dp_robust gr pen cmp preceding eps exact wg total0

(** val poet_script : z -> wgraph -> nat -> sentence option **)

let poet_script pen =
  make_sentence None pen compare_weight []

(** val poet_table : z -> wgraph -> nat -> sentence option **)

let poet_table pen =
  make_sentence None pen left_associate_compare []

(** val best_match : dentry -> dentry list -> z option **)

let rec best_match d = function
| [] -> None
| x :: r ->
  let rest = best_match d r in
  if (&&) (text_eqb d.d_text x.d_text) (code_eqb d.d_code x.d_code)
  then (match rest with
        | Some w -> Some (Z.max w x.d_w)
        | None -> Some x.d_w)
  else rest

(** val chain_weight : z -> wgraph -> nat -> sentence -> z option **)

let rec chain_weight pen wg pos = function
| [] -> Some Z0
| p :: r ->
  let (d, e) = p in
  (match best_match d (assoc_list e (assoc_list pos wg)) with
   | Some w ->
     (match chain_weight pen wg e r with
      | Some w' -> Some (Z.add (Z.add w pen) w')
      | None -> None)
   | None -> None)
