(** C19 – proofs about the key model (Key/KeyModel.v) over the generated tables.

    Structure: (1) a finite sweep [table_wellformed] over the generated tables
    (closed by [vm_compute] in Properties_C19.v – the domain is the generated
    list itself); (2) general lemmas, by induction, that turn the sweep into
    the round-trip theorems for *all* named masks (no enumeration of the 2^17
    subsets), all named keys, and key sequences of any length; (3) parser
    soundness.  Every general lemma takes [table_wellformed = true] as its only
    hypothesis about the tables. *)
From Coq Require Import List ZArith NArith Bool Lia.
From Coq.Strings Require Import Byte.
From RimeV Require Import Base.Bytes Gen.KeyTable Key.KeyModel.
Import ListNotations.
Local Open Scope Z_scope.

(** * 1. The sweep *)

Definition is_nil {A} (l : list A) : bool := match l with [] => true | _ => false end.

Definition char_ok (c : byte) : bool :=
  negb (Byte.eqb c x00) && negb (Byte.eqb c ch_plus) && negb (Byte.eqb c ch_lbrace) && negb (Byte.eqb c ch_rbrace).
(** a usable name: non-empty, free of NUL, '+', '{', '}' *)
Definition name_ok (nm : bytes) : bool := negb (is_nil nm) && forallb char_ok nm.

(** a one-character name is the ASCII character of its own key value *)
Definition single_ok (e : Z * bytes) : bool :=
  match snd e with
  | [c] => schar c =? fst e
  | _ => true
  end.

(** raw entry: the offset is inside the blob, starts a string (offset 0 or
    just after a NUL) that is terminated inside the blob *)
Fixpoint has_nul (s : bytes) : bool :=
  match s with
  | [] => false
  | c :: r => if Byte.eqb c x00 then true else has_nul r
  end.
Definition offset_ok (len : nat) (e : Z * N) : bool :=
  let off := N.to_nat (snd e) in
  Nat.ltb off len
  && (Nat.eqb off 0 || Byte.eqb (nth (off - 1) key_names x01) x00)
  && has_nul (skipn off key_names).

(** per resolved entry of keys_by_name (what RimeGetKeyName can return):
    usable name, and looking the name up gives the entry's key value back *)
Definition by_name_entry_ok (e : Z * bytes) : bool :=
  name_ok (snd e) && single_ok e
  && ((fst e =? XK_VoidSymbol) || (RimeGetKeycodeByName (snd e) =? fst e)).

(** per resolved entry of keys_by_keyval: usable name and the key value is
    one RimeGetKeyName knows (the two tables name the same key codes) *)
Definition by_keyval_entry_ok (e : Z * bytes) : bool :=
  name_ok (snd e) && single_ok e && key_named (fst e).

Fixpoint mods_good (names : list (option bytes)) (i : nat) : bool :=
  match names with
  | [] => true
  | None :: rest => mods_good rest (S i)
  | Some n :: rest =>
      name_ok n && (RimeGetModifierByName n =? Z.shiftl 1 (Z.of_nat i)) && Nat.ltb i 31
      && mods_good rest (S i)
  end.

Definition table_wellformed : bool :=
  translation_ok
  && (let len := length key_names in forallb (offset_ok len) keys_by_keyval && forallb (offset_ok len) keys_by_name)
  && existsb (fun e => fst e =? XK_VoidSymbol) keys_by_keyval       (* the scan of RimeGetKeycodeByName ends *)
  && forallb by_name_entry_ok resolved_by_name
  && forallb by_keyval_entry_ok resolved_by_keyval
  && Nat.eqb (length modifier_name) 32
  && mods_good modifier_name 0
  && (Z.land named_bits kModifierMask =? named_bits)                  (* repr() masks no named bit away *)
  && (0 <=? kModifierMask) && (kModifierMask <? 4294967296).

(** * 2. Basics *)

Lemma bytes_eqb_eq a b : bytes_eqb a b = true <-> a = b.
Proof.
  revert b. induction a as [|x a IH]; intros [|y b]; cbn; split; intro H; try reflexivity; try discriminate.
  - destruct (Byte.eqb x y) eqn:E; [|discriminate]. apply Byte.byte_dec_bl in E. apply IH in H. now subst.
  - inversion H; subst. rewrite (Byte.byte_dec_lb (x:=y) (y:=y) eq_refl). now apply IH.
Qed.

Lemma bytes_eqb_refl a : bytes_eqb a a = true.
Proof. now apply bytes_eqb_eq. Qed.

Lemma byte_eqb_refl c : Byte.eqb c c = true.
Proof. now apply Byte.byte_dec_lb. Qed.

Lemma byte_eqb_true c d : Byte.eqb c d = true -> c = d.
Proof. apply Byte.byte_dec_bl. Qed.

Definition nul_free (s : bytes) : bool := forallb (fun c => negb (Byte.eqb c x00)) s.
Definition plus_free (s : bytes) : bool := forallb (fun c => negb (Byte.eqb c ch_plus)) s.
Definition rbrace_free (s : bytes) : bool := forallb (fun c => negb (Byte.eqb c ch_rbrace)) s.

Lemma cstr_nul_free s : nul_free s = true -> cstr s = s.
Proof.
  induction s as [|c r IH]; cbn; intro H; [reflexivity|].
  apply andb_true_iff in H. destruct H as [H1 H2].
  apply negb_true_iff in H1. rewrite H1. now rewrite IH.
Qed.

Lemma char_ok_parts c : char_ok c = true ->
  Byte.eqb c x00 = false /\ Byte.eqb c ch_plus = false /\ Byte.eqb c ch_lbrace = false /\ Byte.eqb c ch_rbrace = false.
Proof.
  unfold char_ok. intro H.
  repeat (apply andb_true_iff in H; destruct H as [H ?]).
  repeat split; now apply negb_true_iff.
Qed.

Lemma name_ok_parts nm : name_ok nm = true ->
  nm <> [] /\ nul_free nm = true /\ plus_free nm = true /\ rbrace_free nm = true /\
  (forall c r, nm = c :: r -> Byte.eqb c ch_lbrace = false).
Proof.
  unfold name_ok. intro H. apply andb_true_iff in H. destruct H as [Hn Hall].
  split; [destruct nm; [discriminate|congruence]|].
  assert (Hc : forall c, In c nm -> char_ok c = true) by (apply forallb_forall; exact Hall).
  repeat split.
  - apply forallb_forall. intros c Hc'. apply negb_true_iff. now destruct (char_ok_parts c (Hc c Hc')) as (?&?&?&?).
  - apply forallb_forall. intros c Hc'. apply negb_true_iff. now destruct (char_ok_parts c (Hc c Hc')) as (?&?&?&?).
  - apply forallb_forall. intros c Hc'. apply negb_true_iff. now destruct (char_ok_parts c (Hc c Hc')) as (?&?&?&?).
  - intros c r ->. now destruct (char_ok_parts c (Hc c (or_introl eq_refl))) as (?&?&?&?).
Qed.

Lemma forallb_app' {A} (f : A -> bool) a b : forallb f (a ++ b) = forallb f a && forallb f b.
Proof. apply forallb_app. Qed.

(** ** what [table_wellformed] gives *)

Record tables_facts : Prop := {
  tf_by_name : forall e, In e resolved_by_name -> by_name_entry_ok e = true;
  tf_len : length modifier_name = 32%nat;
  tf_mods : mods_good modifier_name 0 = true;
  tf_mask : Z.land named_bits kModifierMask = named_bits;
  tf_mask_lo : 0 <= kModifierMask;
  tf_mask_hi : kModifierMask < 4294967296
}.

Lemma wellformed_facts : table_wellformed = true -> tables_facts.
Proof.
  unfold table_wellformed. intro H.
  repeat (apply andb_true_iff in H; destruct H as [H ?]).
  constructor.
  - now apply forallb_forall.
  - now apply Nat.eqb_eq.
  - assumption.
  - now apply Z.eqb_eq.
  - now apply Z.leb_le.
  - now apply Z.ltb_lt.
Qed.

(** ** lookups *)

Lemma key_name_in_In tbl k nm : key_name_in tbl k = Some nm -> In (k, nm) tbl.
Proof.
  induction tbl as [|[kv n] rest IH]; cbn; [discriminate|].
  destruct (k =? kv) eqn:E.
  - intro H. inversion H; subst. apply Z.eqb_eq in E. subst. now left.
  - intro H. right. now apply IH.
Qed.

Lemma keycode_by_name_in_In tbl name k :
  keycode_by_name_in tbl name = k -> k <> XK_VoidSymbol -> In (k, name) tbl.
Proof.
  induction tbl as [|[kv n] rest IH]; cbn; intros H Hk; [congruence|].
  destruct (kv =? XK_VoidSymbol) eqn:E1; [congruence|].
  destruct (bytes_eqb name n) eqn:E2.
  - apply bytes_eqb_eq in E2. subst. now left.
  - right. now apply IH.
Qed.

(** every name RimeGetKeyName returns satisfies the per-entry sweep *)
Lemma key_name_facts (TF : tables_facts) k nm :
  RimeGetKeyName k = Some nm ->
  name_ok nm = true /\ single_ok (k, nm) = true /\ (k <> XK_VoidSymbol -> RimeGetKeycodeByName nm = k).
Proof.
  intro H. apply key_name_in_In in H. apply (tf_by_name TF) in H.
  unfold by_name_entry_ok in H. cbn [fst snd] in H.
  apply andb_true_iff in H. destruct H as [H H3]. apply andb_true_iff in H. destruct H as [H1 H2].
  repeat split; try assumption.
  intro Hk. apply orb_true_iff in H3. destruct H3 as [H3|H3]; apply Z.eqb_eq in H3; congruence.
Qed.

(** * 3. Modifiers: repr() and Parse() against a structural specification *)

(** the text repr() writes for the mask [m], slot by slot *)
Fixpoint mods_spec (names : list (option bytes)) (m : Z) : bytes :=
  match names with
  | [] => []
  | nm :: rest =>
      (if Z.odd m then match nm with Some n => cstr n ++ [ch_plus] | None => [] end else [])
      ++ mods_spec rest (Z.shiftr m 1)
  end.

(** [m] only has bits in named slots *)
Fixpoint mask_ok (names : list (option bytes)) (m : Z) : bool :=
  match names with
  | [] => m =? 0
  | nm :: rest =>
      (negb (Z.odd m) || match nm with Some _ => true | None => false end) && mask_ok rest (Z.shiftr m 1)
  end.

Lemma mods_spec_0 names : mods_spec names 0 = [].
Proof. induction names as [|nm rest IH]; cbn; [reflexivity|]. exact IH. Qed.

Lemma half_decomp m : m = 2 * Z.shiftr m 1 + Z.b2z (Z.odd m).
Proof. rewrite <- Z.div2_spec. apply Z.div2_odd. Qed.

Lemma shiftr1_nonneg m : 0 <= m -> 0 <= Z.shiftr m 1.
Proof. intro H. now apply Z.shiftr_nonneg. Qed.

Lemma skipn_nth_cons {A} (l : list A) i d : (i < length l)%nat -> skipn i l = nth i l d :: skipn (S i) l.
Proof.
  revert i. induction l as [|a l IH]; intros i Hi; cbn in Hi; [lia|].
  destruct i as [|i]; [reflexivity|]. cbn. apply IH. lia.
Qed.

(** RimeGetModifierName(k << i) with k odd is slot i *)
Lemma modifier_name_loop_shift names i k :
  Z.odd k = true -> (i < length names)%nat ->
  modifier_name_loop names (Z.shiftl k (Z.of_nat i)) = option_map cstr (nth i names None).
Proof.
  revert i. induction names as [|nm rest IH]; intros i Hodd Hi; cbn in Hi; [lia|].
  assert (Hk0 : k <> 0) by (intro; subst; discriminate).
  destruct i as [|i].
  - cbn [Z.of_nat]. rewrite Z.shiftl_0_r. cbn [modifier_name_loop nth].
    destruct (k =? 0) eqn:E; [apply Z.eqb_eq in E; contradiction|]. now rewrite Hodd.
  - cbn [modifier_name_loop nth].
    assert (Hv : Z.shiftl k (Z.of_nat (S i)) = 2 * Z.shiftl k (Z.of_nat i)).
    { rewrite !Z.shiftl_mul_pow2 by lia. rewrite Nat2Z.inj_succ, Z.pow_succ_r by lia. ring. }
    destruct (Z.shiftl k (Z.of_nat (S i)) =? 0) eqn:E.
    { apply Z.eqb_eq in E. apply Z.shiftl_eq_0_iff in E; [contradiction|lia]. }
    rewrite Hv at 1. rewrite Z.odd_mul, Bool.andb_false_l.
    replace (Z.shiftr (Z.shiftl k (Z.of_nat (S i))) 1) with (Z.shiftl k (Z.of_nat i)).
    + apply IH; [assumption|lia].
    + rewrite Hv, Z.shiftr_div_pow2 by lia. change (2 ^ 1) with 2.
      rewrite Z.mul_comm, Z.div_mul by lia. reflexivity.
Qed.

Lemma repr_mods_loop_spec (TF : tables_facts) fuel i k :
  0 <= k < 2 ^ Z.of_nat fuel -> (i + fuel = length modifier_name)%nat ->
  repr_mods_loop fuel i k = mods_spec (skipn i modifier_name) k.
Proof.
  revert i k. induction fuel as [|f IH]; intros i k Hk Hi.
  - cbn in Hk. assert (k = 0) by lia. subst. now rewrite mods_spec_0.
  - cbn [repr_mods_loop]. destruct (k =? 0) eqn:E.
    + apply Z.eqb_eq in E. subst. now rewrite mods_spec_0.
    + rewrite (skipn_nth_cons modifier_name i None) by lia. cbn [mods_spec].
      rewrite IH.
      * f_equal. destruct (Z.odd k) eqn:Eo; [|reflexivity].
        unfold RimeGetModifierName. rewrite (modifier_name_loop_shift modifier_name i k Eo) by (unfold bytes in *; lia).
        unfold bytes in *. destruct (nth i modifier_name None); reflexivity.
      * rewrite Z.shiftr_div_pow2 by lia. change (2 ^ 1) with 2.
        rewrite Nat2Z.inj_succ, Z.pow_succ_r in Hk by lia.
        split; [apply Z.div_pos; lia|apply Z.div_lt_upper_bound; lia].
      * lia.
Qed.

(** named masks only have bits in named slots *)
Lemma named_mask_ok names m :
  0 <= m -> Z.land m (named_bits_of names) = m -> mask_ok names m = true.
Proof.
  revert m. induction names as [|nm rest IH]; intros m Hm H; cbn [mask_ok named_bits_of] in *.
  - rewrite Z.land_0_r in H. subst. reflexivity.
  - apply andb_true_iff. split.
    + destruct (Z.odd m) eqn:Eo; [|reflexivity]. cbn.
      assert (Hb : Z.odd (Z.land m ((match nm with Some _ => 1 | None => 0 end) + 2 * named_bits_of rest)) = true)
        by (rewrite H; exact Eo).
      rewrite <- Z.bit0_odd, Z.land_spec, !Z.bit0_odd, Eo, Z.odd_add_mul_2 in Hb.
      destruct nm; [reflexivity|discriminate].
    + apply IH; [now apply shiftr1_nonneg|].
      rewrite <- H at 2. rewrite Z.shiftr_land. f_equal.
      rewrite Z.shiftr_div_pow2 by lia. change (2 ^ 1) with 2.
      rewrite Z.add_comm, Z.mul_comm, Z.div_add_l by lia.
      destruct nm; cbn; lia.
Qed.

Lemma mask_ok_bound names m : 0 <= m -> mask_ok names m = true -> m < 2 ^ Z.of_nat (length names).
Proof.
  revert m. induction names as [|nm rest IH]; intros m Hm H; cbn [mask_ok length] in *.
  - apply Z.eqb_eq in H. subst. cbn. lia.
  - apply andb_true_iff in H. destruct H as [_ H]. apply IH in H; [|now apply shiftr1_nonneg].
    rewrite Nat2Z.inj_succ, Z.pow_succ_r by lia.
    pose proof (half_decomp m) as Hd. destruct (Z.odd m); cbn [Z.b2z] in Hd; lia.
Qed.

(** a non-zero named mask writes some text *)
Lemma mods_spec_nil names m : 0 <= m -> mask_ok names m = true -> mods_spec names m = [] -> m = 0.
Proof.
  revert m. induction names as [|nm rest IH]; intros m Hm H Hs; cbn [mask_ok mods_spec] in *.
  - now apply Z.eqb_eq in H.
  - apply andb_true_iff in H. destruct H as [H1 H2].
    apply app_eq_nil in Hs. destruct Hs as [Hs1 Hs2].
    apply IH in Hs2; [|now apply shiftr1_nonneg|assumption].
    pose proof (half_decomp m) as Hd. rewrite Hs2 in Hd.
    destruct (Z.odd m); [|cbn [Z.b2z] in Hd; lia].
    cbn in H1. destruct nm; [|discriminate].
    apply app_eq_nil in Hs1. destruct Hs1 as [_ Hs1]. discriminate.
Qed.

Lemma named_mask_parts m : named_mask m = true -> 0 <= m /\ Z.land m named_bits = m.
Proof.
  unfold named_mask. intro H. apply andb_true_iff in H. destruct H as [H1 H2].
  split; [now apply Z.leb_le|now apply Z.eqb_eq].
Qed.

(** repr() of a named mask is its slot-by-slot text *)
Lemma repr_mods_named (TF : tables_facts) m :
  named_mask m = true -> repr_mods m = mods_spec modifier_name m /\ mask_ok modifier_name m = true /\ 0 <= m.
Proof.
  intro H. destruct (named_mask_parts m H) as [Hm Hl].
  assert (Hok : mask_ok modifier_name m = true) by (now apply named_mask_ok).
  split; [|split; assumption].
  unfold repr_mods. destruct (m =? 0) eqn:E.
  - apply Z.eqb_eq in E. subst. now rewrite mods_spec_0.
  - assert (Hk : Z.land m kModifierMask = m).
    { rewrite <- Hl at 1. rewrite <- Z.land_assoc. rewrite (tf_mask TF). exact Hl. }
    rewrite Hk. rewrite (repr_mods_loop_spec TF 32 0 m); [reflexivity| |now rewrite (tf_len TF)].
    split; [assumption|]. apply mask_ok_bound in Hok; [|assumption]. unfold bytes in *. now rewrite (tf_len TF) in Hok.
Qed.

(** ** the parser on tokens *)

Lemma parse_from_token t r acc m :
  plus_free t = true -> parse_from (t ++ r) acc m = parse_from r (rev t ++ acc) m.
Proof.
  revert acc. induction t as [|c t IH]; intros acc H; [reflexivity|].
  cbn in H. apply andb_true_iff in H. destruct H as [H1 H2]. apply negb_true_iff in H1.
  cbn [app parse_from]. rewrite H1. rewrite IH by assumption. cbn [rev]. now rewrite <- app_assoc.
Qed.

Lemma shiftl_even m' i : 0 <= i -> Z.shiftl (2 * m') i = Z.shiftl m' (i + 1).
Proof. intro Hi. rewrite !Z.shiftl_mul_pow2 by lia. rewrite Z.pow_add_r by lia. change (2 ^ 1) with 2. ring. Qed.

Lemma lor_1_double a : Z.lor 1 (2 * a) = 2 * a + 1.
Proof.
  apply Z.bits_inj'. intros n Hn. rewrite Z.lor_spec.
  destruct (Z.eq_dec n 0) as [->|Hn0].
  - rewrite Z.testbit_odd_0, Z.testbit_even_0. reflexivity.
  - replace n with (Z.succ (n - 1)) by lia.
    rewrite Z.testbit_odd_succ, Z.testbit_even_succ by lia.
    change 1 with (2 * 0 + 1) at 1. rewrite Z.testbit_odd_succ by lia. now rewrite Z.testbit_0_l.
Qed.

Lemma shiftl_odd m' i : 0 <= i -> Z.shiftl (2 * m' + 1) i = Z.lor (Z.shiftl 1 i) (Z.shiftl m' (i + 1)).
Proof.
  intro Hi. rewrite <- lor_1_double, Z.shiftl_lor. f_equal. now apply shiftl_even.
Qed.

(** Parse() of the slot-by-slot text accumulates exactly the mask *)
Lemma parse_from_mods_spec names : forall i m m0 rest,
  0 <= m -> mask_ok names m = true -> mods_good names i = true ->
  parse_from (mods_spec names m ++ rest) [] m0 = parse_from rest [] (Z.lor m0 (Z.shiftl m (Z.of_nat i))).
Proof.
  induction names as [|nm names IH]; intros i m m0 rest Hm Hok Hg; cbn [mods_spec mask_ok] in *.
  - apply Z.eqb_eq in Hok. subst. now rewrite Z.shiftl_0_l, Z.lor_0_r.
  - apply andb_true_iff in Hok. destruct Hok as [Hb Hok].
    pose proof (half_decomp m) as Hd.
    assert (Hg' : mods_good names (S i) = true).
    { cbn [mods_good] in Hg. destruct nm; [|assumption].
      apply andb_true_iff in Hg. now destruct Hg as [_ Hg]. }
    specialize (IH (S i) (Z.shiftr m 1)).
    destruct (Z.odd m) eqn:Eo; cbn [Z.b2z] in Hd.
    + cbn in Hb. destruct nm as [n|]; [|discriminate].
      cbn [mods_good] in Hg. do 3 (apply andb_true_iff in Hg; destruct Hg as [Hg ?]).
      destruct (name_ok_parts n Hg) as (_ & Hnul & Hplus & _).
      rewrite (cstr_nul_free n Hnul).
      rewrite <- !app_assoc. rewrite parse_from_token by assumption.
      cbn [app parse_from]. unfold ch_plus at 1. rewrite byte_eqb_refl.
      rewrite app_nil_r, rev_involutive.
      match goal with H : (RimeGetModifierByName n =? _) = true |- _ => apply Z.eqb_eq in H; rewrite H end.
      destruct (Z.shiftl 1 (Z.of_nat i) =? 0) eqn:E.
      { apply Z.eqb_eq in E. apply Z.shiftl_eq_0_iff in E; lia. }
      rewrite IH by (try assumption; now apply shiftr1_nonneg).
      f_equal. rewrite <- Z.lor_assoc. f_equal.
      rewrite Hd at 2. rewrite shiftl_odd by lia. now rewrite Nat2Z.inj_succ.
    + cbn [app]. rewrite IH by (try assumption; now apply shiftr1_nonneg).
      f_equal. f_equal. rewrite Hd at 2. rewrite Z.add_0_r, shiftl_even by lia. now rewrite Nat2Z.inj_succ.
Qed.

(** Theorem (2): modifier round trip for every named mask, ahead of any rest
    of the text *)
Lemma mods_roundtrip (WF : table_wellformed = true) m :
  named_mask m = true ->
  forall rest m0, parse_from (repr_mods m ++ rest) [] m0 = parse_from rest [] (Z.lor m0 m).
Proof.
  intros H rest m0. pose proof (wellformed_facts WF) as TF.
  destruct (repr_mods_named TF m H) as (Hr & Hok & Hm).
  rewrite Hr. rewrite (parse_from_mods_spec modifier_name 0%nat m m0 rest Hm Hok (tf_mods TF)).
  cbn [Z.of_nat]. now rewrite Z.shiftl_0_r.
Qed.

(** * 4. Key events *)

Lemma parse_key_long s : (2 <= length s)%nat -> parse_key s = parse_from s [] 0.
Proof. destruct s as [|a [|b r]]; cbn [length]; intro H; try lia. reflexivity. Qed.

(** the last token: a '+'-free name is looked up as a key *)
Lemma parse_from_name nm m :
  plus_free nm = true ->
  parse_from nm [] m =
    (let k := RimeGetKeycodeByName nm in if k =? XK_VoidSymbol then (false, k, m) else (true, k, m)).
Proof.
  intro H. rewrite <- (app_nil_r nm) at 1. rewrite parse_from_token by assumption.
  cbn [parse_from]. now rewrite app_nil_r, rev_involutive.
Qed.

Lemma repr_key_named k m nm : RimeGetKeyName k = Some nm -> repr_key (k, m) = repr_mods m ++ nm.
Proof. intro H. unfold repr_key, repr_keyname. cbn [fst snd]. now rewrite H. Qed.

(** Theorem (3): key event round trip *)
Lemma key_roundtrip (WF : table_wellformed = true) k m :
  key_named k = true -> k <> XK_VoidSymbol -> named_mask m = true ->
  parse_key (repr_key (k, m)) = (true, k, m).
Proof.
  intros Hn Hk Hm. pose proof (wellformed_facts WF) as TF.
  unfold key_named in Hn. destruct (RimeGetKeyName k) as [nm|] eqn:En; [|discriminate].
  destruct (key_name_facts TF k nm En) as (Hok & Hsingle & Hback). specialize (Hback Hk).
  destruct (name_ok_parts nm Hok) as (Hne & _ & Hplus & _).
  rewrite (repr_key_named k m nm En).
  assert (Hlookup : forall m', parse_from nm [] m' = (true, k, m')).
  { intro m'. rewrite parse_from_name by assumption. cbn zeta. rewrite Hback.
    destruct (k =? XK_VoidSymbol) eqn:E; [apply Z.eqb_eq in E; contradiction|reflexivity]. }
  destruct (repr_mods_named TF m Hm) as (Hr & Hmok & Hm0).
  destruct (Z.eq_dec m 0) as [->|Hmz].
  - (* no modifier: the text is the name alone *)
    change (repr_mods 0) with (@nil byte). cbn [app].
    destruct nm as [|c [|d r]]; [contradiction| |].
    + cbn [parse_key]. unfold single_ok in Hsingle. cbn [fst snd] in Hsingle.
      apply Z.eqb_eq in Hsingle. now rewrite Hsingle.
    + rewrite parse_key_long by (cbn [length]; lia). apply Hlookup.
  - (* some modifier: at least "X+" precedes the name *)
    assert (Hmods : repr_mods m <> []).
    { rewrite Hr. intro Hnil. apply Hmz. now apply (mods_spec_nil modifier_name m). }
    rewrite parse_key_long.
    + rewrite (mods_roundtrip WF m Hm). rewrite Z.lor_0_l. apply Hlookup.
    + rewrite app_length. destruct (repr_mods m); [contradiction|]. destruct nm; [contradiction|].
      cbn [length]. lia.
Qed.

(** * 5. Key sequences *)

Lemma N_of_byte_of_N n : (n <= 255)%N -> N_of_byte (byte_of_N n) = n.
Proof.
  intro H. unfold N_of_byte, byte_of_N. destruct (Byte.of_N n) as [b|] eqn:E.
  - now apply Byte.to_of_N.
  - apply Byte.of_N_None_iff in E. lia.
Qed.

Lemma hex_digits_length n v : length (hex_digits n v) = n.
Proof.
  revert v. induction n as [|n IH]; intro v; cbn [hex_digits]; [reflexivity|].
  rewrite app_length, IH. cbn [length]. lia.
Qed.

(** a one-character repr() is a one-character name *)
Lemma repr_key_single e c :
  repr_key e = [c] -> exists nm, RimeGetKeyName (fst e) = Some nm /\ repr_mods (snd e) ++ nm = [c].
Proof.
  unfold repr_key, repr_keyname. destruct (RimeGetKeyName (fst e)) as [nm|] eqn:En.
  - intro H. now exists nm.
  - intro H. exfalso.
    destruct (fst e <? 0); [|destruct (fst e <=? 65535); [|destruct (fst e <=? 16777215); [|discriminate]]];
      apply (f_equal (@length byte)) in H; rewrite !app_length, hex_digits_length in H; cbn [length] in H; lia.
Qed.

Lemma rbrace_free_mods_spec names : forall i m,
  mods_good names i = true -> rbrace_free (mods_spec names m) = true.
Proof.
  induction names as [|nm names IH]; intros i m Hg; cbn [mods_spec]; [reflexivity|].
  unfold rbrace_free. rewrite forallb_app. apply andb_true_iff. split.
  - destruct (Z.odd m); [|reflexivity]. destruct nm as [n|]; [|reflexivity].
    cbn [mods_good] in Hg. do 3 (apply andb_true_iff in Hg; destruct Hg as [Hg ?]).
    destruct (name_ok_parts n Hg) as (_ & Hnul & _ & Hrb & _).
    rewrite (cstr_nul_free n Hnul), forallb_app. apply andb_true_iff. split; [exact Hrb|reflexivity].
  - apply (IH (S i)). cbn [mods_good] in Hg. destruct nm; [|assumption].
    apply andb_true_iff in Hg. now destruct Hg.
Qed.

(** collecting a brace body *)
Lemma parse_seq_body t r acc out :
  rbrace_free t = true ->
  parse_seq_from (t ++ r) (Some acc) out = parse_seq_from r (Some (rev t ++ acc)) out.
Proof.
  revert acc. induction t as [|c t IH]; intros acc H; [reflexivity|].
  cbn in H. apply andb_true_iff in H. destruct H as [H1 H2]. apply negb_true_iff in H1.
  cbn [app parse_seq_from]. rewrite H1, IH by assumption. cbn [rev]. now rewrite <- app_assoc.
Qed.

Lemma seq_representable_parts e :
  seq_representable e = true ->
  named_mask (snd e) = true /\ (representable e = true \/ is_unescaped_character e = true).
Proof.
  unfold seq_representable. intro H. apply orb_true_iff in H. destruct H as [H|H].
  - split; [|now left]. unfold representable in H. apply andb_true_iff in H. now destruct H.
  - split; [|now right]. unfold is_unescaped_character in H.
    do 4 (apply andb_true_iff in H; destruct H as [H ?]). apply Z.eqb_eq in H. rewrite H. reflexivity.
Qed.

(** one event of a sequence: its piece of text parses back to it *)
Lemma parse_seq_piece (WF : table_wellformed = true) e rest out :
  seq_representable e = true ->
  parse_seq_from (repr_piece e ++ rest) None out = parse_seq_from rest None (e :: out).
Proof.
  intro Hs. pose proof (wellformed_facts WF) as TF.
  destruct (seq_representable_parts e Hs) as (Hmask & Hcase).
  destruct e as [k m]. cbn [fst snd] in *.
  unfold repr_piece.
  destruct (Nat.eqb (length (repr_key (k, m))) 1) eqn:E1.
  - (* a one-character name, written as itself *)
    apply Nat.eqb_eq in E1.
    destruct (repr_key (k, m)) as [|c [|d r]] eqn:Er; cbn [length] in E1; try lia.
    destruct (repr_key_single (k, m) c Er) as (nm & En & Hcat). cbn [fst snd] in *.
    destruct (key_name_facts TF k nm En) as (Hok & Hsingle & _).
    destruct (name_ok_parts nm Hok) as (Hne & _ & _ & _ & Hlb).
    destruct (repr_mods_named TF m Hmask) as (Hr & Hmok & Hm0).
    assert (Hmods : repr_mods m = []).
    { destruct (repr_mods m) as [|x xs]; [reflexivity|]. destruct nm; [contradiction|].
      apply (f_equal (@length byte)) in Hcat. cbn [length app] in Hcat. rewrite app_length in Hcat. cbn [length] in Hcat. lia. }
    rewrite Hmods in Hcat. cbn [app] in Hcat. subst nm.
    assert (m = 0) by (apply (mods_spec_nil modifier_name m); [assumption|assumption|now rewrite <- Hr]). subst m.
    unfold single_ok in Hsingle. cbn [fst snd] in Hsingle. apply Z.eqb_eq in Hsingle.
    cbn [app parse_seq_from]. rewrite (Hlb c [] eq_refl). cbn [andb parse_key]. now rewrite Hsingle.
  - destruct (is_unescaped_character (k, m)) eqn:E2.
    + (* printable ASCII without modifier, written as the character *)
      unfold is_unescaped_character in E2. cbn [fst snd] in E2.
      do 4 (apply andb_true_iff in E2; destruct E2 as [E2 ?]).
      apply Z.eqb_eq in E2. subst m.
      repeat match goal with H : negb _ = true |- _ => apply negb_true_iff in H; apply Z.eqb_neq in H end.
      repeat match goal with H : (_ <=? _) = true |- _ => apply Z.leb_le in H end.
      assert (Hc : N_of_byte (byte_of_N (Z.to_N k)) = Z.to_N k) by (apply N_of_byte_of_N; lia).
      cbn [app parse_seq_from fst].
      destruct (Byte.eqb (byte_of_N (Z.to_N k)) ch_lbrace) eqn:Eb.
      { apply byte_eqb_true in Eb. rewrite Eb in Hc. cbn in Hc. lia. }
      cbn [andb parse_key]. unfold schar. rewrite Hc, Z2N.id by lia.
      destruct (k <? 128) eqn:E128; [reflexivity|]. apply Z.ltb_ge in E128. lia.
    + (* everything else goes between braces *)
      destruct Hcase as [Hrep|Hun]; [|congruence].
      unfold representable in Hrep. cbn [fst snd] in Hrep.
      do 2 (apply andb_true_iff in Hrep; destruct Hrep as [Hrep ?]).
      assert (Hk : k <> XK_VoidSymbol).
      { match goal with H : negb _ = true |- _ => apply negb_true_iff in H; now apply Z.eqb_neq in H end. }
      pose proof (key_roundtrip WF k m Hrep Hk Hmask) as Hrt.
      assert (Hfree : rbrace_free (repr_key (k, m)) = true).
      { unfold key_named in Hrep. destruct (RimeGetKeyName k) as [nm|] eqn:En; [|discriminate].
        rewrite (repr_key_named k m nm En).
        destruct (key_name_facts TF k nm En) as (Hok & _ & _).
        destruct (name_ok_parts nm Hok) as (_ & _ & _ & Hrb & _).
        destruct (repr_mods_named TF m Hmask) as (Hr & _ & _).
        unfold rbrace_free. rewrite forallb_app. apply andb_true_iff. split; [|exact Hrb].
        rewrite Hr. apply (rbrace_free_mods_spec modifier_name 0%nat). exact (tf_mods TF). }
      rewrite <- !app_assoc. cbn [app parse_seq_from].
      unfold ch_lbrace at 1. rewrite byte_eqb_refl.
      assert (Hnn : (match repr_key (k, m) ++ ch_rbrace :: rest with [] => true | _ => false end) = false)
        by (destruct (repr_key (k, m)); reflexivity).
      rewrite Hnn. cbn [negb andb].
      rewrite parse_seq_body by assumption.
      cbn [app parse_seq_from]. unfold ch_rbrace at 1. rewrite byte_eqb_refl.
      rewrite app_nil_r, rev_involutive, Hrt. reflexivity.
Qed.

Lemma parse_seq_from_roundtrip (WF : table_wellformed = true) ks : forall out,
  Forall (fun e => seq_representable e = true) ks ->
  parse_seq_from (repr_seq ks) None out = (true, rev out ++ ks).
Proof.
  induction ks as [|e ks IH]; intros out H.
  - cbn. now rewrite app_nil_r.
  - inversion H as [|? ? He Hks]; subst.
    change (repr_seq (e :: ks)) with (repr_piece e ++ repr_seq ks).
    rewrite (parse_seq_piece WF e (repr_seq ks) out He).
    rewrite IH by assumption. cbn [rev]. now rewrite <- app_assoc.
Qed.

(** Theorem (4): key sequence round trip, any length *)
Lemma seq_roundtrip (WF : table_wellformed = true) ks :
  Forall (fun e => seq_representable e = true) ks ->
  parse_seq (repr_seq ks) = (true, ks).
Proof. intro H. unfold parse_seq. now rewrite (parse_seq_from_roundtrip WF ks []). Qed.

(** * 6. Parser soundness: what a successful Parse() says about the text *)

(** the tokens of a key event text: the ones terminated by '+', and the last *)
Fixpoint split_plus (s : bytes) (cur_rev : bytes) : list bytes * bytes :=
  match s with
  | [] => ([], rev cur_rev)
  | c :: r =>
      if Byte.eqb c ch_plus
      then let (ts, l) := split_plus r [] in (rev cur_rev :: ts, l)
      else split_plus r (c :: cur_rev)
  end.

Definition mask_of (ts : list bytes) (m0 : Z) : Z :=
  fold_left (fun a t => Z.lor a (RimeGetModifierByName t)) ts m0.

(** Parse() succeeds exactly when every '+'-terminated token is accepted by
    RimeGetModifierByName and the last one by RimeGetKeycodeByName *)
Lemma parse_from_spec s : forall acc m0 k m,
  parse_from s acc m0 = (true, k, m) <->
  (let (ts, l) := split_plus s acc in
   Forall (fun t => RimeGetModifierByName t <> 0) ts /\ m = mask_of ts m0 /\
   RimeGetKeycodeByName l = k /\ k <> XK_VoidSymbol).
Proof.
  induction s as [|c r IH]; intros acc m0 k m; cbn [parse_from split_plus].
  - cbn zeta. destruct (RimeGetKeycodeByName (rev acc) =? XK_VoidSymbol) eqn:E.
    + apply Z.eqb_eq in E. split; [discriminate|]. intros (_ & _ & H1 & H2). congruence.
    + apply Z.eqb_neq in E. split.
      * intro H. inversion H; subst. repeat split; [constructor|assumption].
      * intros (_ & Hm & H1 & _). cbn in Hm. now subst.
  - destruct (Byte.eqb c ch_plus).
    + destruct (split_plus r []) as [ts l] eqn:Es.
      destruct (RimeGetModifierByName (rev acc) =? 0) eqn:E.
      * apply Z.eqb_eq in E. split; [discriminate|]. intros (HF & _). inversion HF; subst. contradiction.
      * apply Z.eqb_neq in E. rewrite IH, Es. cbn [mask_of fold_left].
        split.
        -- intros (HF & Hm & H1 & H2). repeat split; try assumption. now constructor.
        -- intros (HF & Hm & H1 & H2). inversion HF; subst. repeat split; assumption.
    + apply IH.
Qed.

(** the text before '+' is the name of slot i *)
Definition is_modifier_text (t : bytes) (bit : Z) : Prop :=
  exists i n, nth_error modifier_name i = Some (Some n) /\ cstr t = cstr n /\ bit = Z.shiftl 1 (Z.of_nat i).

Lemma modifier_by_name_loop_sound names : forall i name b,
  modifier_by_name_loop names i name = b -> b <> 0 ->
  exists j n, nth_error names j = Some (Some n) /\ name = cstr n /\ b = Z.shiftl 1 (Z.of_nat (i + j)).
Proof.
  induction names as [|nm names IH]; intros i name b H Hb; cbn [modifier_by_name_loop] in H; [congruence|].
  destruct nm as [n|].
  - destruct (bytes_eqb name (cstr n)) eqn:E.
    + apply bytes_eqb_eq in E. exists 0%nat, n. rewrite Nat.add_0_r. repeat split; [assumption|congruence].
    + destruct (IH (S i) name b H Hb) as (j & n' & H1 & H2 & H3). exists (S j), n'.
      repeat split; try assumption. now rewrite Nat.add_succ_r.
  - destruct (IH (S i) name b H Hb) as (j & n' & H1 & H2 & H3). exists (S j), n'.
    repeat split; try assumption. now rewrite Nat.add_succ_r.
Qed.

Lemma modifier_by_name_sound t : RimeGetModifierByName t <> 0 -> is_modifier_text t (RimeGetModifierByName t).
Proof.
  intro H. destruct (modifier_by_name_loop_sound modifier_name 0 (cstr t) _ eq_refl H) as (j & n & H1 & H2 & H3).
  exists j, n. repeat split; assumption.
Qed.

(** a text no slot carries is rejected *)
Lemma modifier_by_name_loop_unknown names : forall i name,
  (forall j n, nth_error names j = Some (Some n) -> name <> cstr n) ->
  modifier_by_name_loop names i name = 0.
Proof.
  induction names as [|nm names IH]; intros i name H; cbn [modifier_by_name_loop]; [reflexivity|].
  assert (Hrest : forall j n, nth_error names j = Some (Some n) -> name <> cstr n)
    by (intros j n Hj; exact (H (S j) n Hj)).
  destruct nm as [n|]; [|now apply IH].
  destruct (bytes_eqb name (cstr n)) eqn:E; [|now apply IH].
  apply bytes_eqb_eq in E. exfalso. exact (H 0%nat n eq_refl E).
Qed.

(** the last token names key [k] in keys_by_keyval *)
Definition is_key_text (t : bytes) (k : Z) : Prop :=
  exists off, In (k, off) keys_by_keyval /\ cstr_at key_names off = cstr t /\ k <> XK_VoidSymbol.

Lemma keycode_by_name_sound t k :
  RimeGetKeycodeByName t = k -> k <> XK_VoidSymbol -> is_key_text t k.
Proof.
  intros H Hk. unfold RimeGetKeycodeByName in H.
  apply keycode_by_name_in_In in H; [|assumption].
  unfold resolved_by_keyval, resolve in H. apply in_map_iff in H. destruct H as ([kv off] & He & Hin).
  cbn [fst snd] in He. inversion He; subst. exists off. repeat split; assumption.
Qed.

Lemma keycode_by_name_in_unknown tbl name :
  (forall k, k <> XK_VoidSymbol -> ~ In (k, name) tbl) -> keycode_by_name_in tbl name = XK_VoidSymbol.
Proof.
  intro H. destruct (Z.eq_dec (keycode_by_name_in tbl name) XK_VoidSymbol) as [E|E]; [assumption|].
  exfalso. exact (H _ E (keycode_by_name_in_In tbl name _ eq_refl E)).
Qed.

(** Theorem (5a): a successful KeyEvent::Parse names only known things *)
Lemma parse_key_sound s k m :
  parse_key s = (true, k, m) ->
  (exists c, s = [c] /\ k = schar c /\ m = 0) \/
  ((2 <= length s)%nat /\
   let (ts, l) := split_plus s [] in
   Forall (fun t => is_modifier_text t (RimeGetModifierByName t)) ts /\ m = mask_of ts 0 /\ is_key_text l k).
Proof.
  destruct s as [|a [|b r]].
  - discriminate.
  - cbn [parse_key]. intro H. inversion H; subst. left. now exists a.
  - intro H. right. split; [cbn [length]; lia|].
    rewrite parse_key_long in H by (cbn [length]; lia).
    apply parse_from_spec in H. destruct (split_plus (a :: b :: r) []) as [ts l].
    destruct H as (HF & Hm & H1 & H2). repeat split.
    + eapply Forall_impl; [|exact HF]. intros t Ht. now apply modifier_by_name_sound.
    + assumption.
    + now apply keycode_by_name_sound.
Qed.

(** Theorem (5b): text naming an unknown modifier or an unknown key fails *)
Lemma parse_key_unknown_fails s :
  (2 <= length s)%nat ->
  (let (ts, l) := split_plus s [] in
   (exists t, In t ts /\ forall j n, nth_error modifier_name j = Some (Some n) -> cstr t <> cstr n) \/
   (forall k off, In (k, off) keys_by_keyval -> k <> XK_VoidSymbol -> cstr_at key_names off <> cstr l)) ->
  fst (fst (parse_key s)) = false.
Proof.
  intros Hlen H. destruct (parse_key s) as [[ok k] m] eqn:E. cbn [fst]. destruct ok; [|reflexivity]. exfalso.
  rewrite parse_key_long in E by assumption. apply parse_from_spec in E.
  destruct (split_plus s []) as [ts l]. destruct E as (HF & _ & H1 & H2).
  destruct H as [(t & Hin & Hun)|Hun].
  - rewrite Forall_forall in HF. apply (HF t Hin).
    unfold RimeGetModifierByName. now apply modifier_by_name_loop_unknown.
  - destruct (keycode_by_name_sound l k H1 H2) as (off & Hin & Hc & _). exact (Hun k off Hin H2 Hc).
Qed.

(** ** sequences *)

(** one piece of key-sequence text and the event it stands for *)
Definition piece_parses (p : bytes) (e : event) : Prop :=
  (exists c, p = [c] /\ e = (schar c, 0)) \/
  (exists body, p = ch_lbrace :: body ++ [ch_rbrace] /\ rbrace_free body = true /\
                parse_key body = (true, fst e, snd e)).

Lemma parse_key_single c : parse_key [c] = (true, schar c, 0).
Proof. reflexivity. Qed.

Lemma forallb_rev' {A} (f : A -> bool) l : forallb f (rev l) = forallb f l.
Proof.
  induction l as [|x l IH]; [reflexivity|]. cbn [rev forallb]. rewrite forallb_app, IH. cbn [forallb].
  rewrite andb_true_r. apply andb_comm.
Qed.

Lemma parse_seq_from_sound s : forall inb out ks,
  parse_seq_from s inb out = (true, ks) ->
  match inb with Some acc => rbrace_free acc = true | None => True end ->
  exists pieces ks', ks = rev out ++ ks' /\ Forall2 piece_parses pieces ks' /\
    match inb with None => s | Some acc => ch_lbrace :: rev acc ++ s end = concat pieces.
Proof.
  induction s as [|c r IH]; intros inb out ks H Hinb; cbn [parse_seq_from] in H.
  - destruct inb; [discriminate|]. inversion H; subst. exists [], []. rewrite app_nil_r. repeat split. constructor.
  - destruct inb as [acc|].
    + destruct (Byte.eqb c ch_rbrace) eqn:Ec.
      * apply byte_eqb_true in Ec. subst c.
        destruct (parse_key (rev acc)) as [[ok k] m] eqn:Ek. destruct ok; [|discriminate].
        destruct (IH None ((k, m) :: out) ks H I) as (pieces & ks' & H1 & H2 & H3).
        exists ((ch_lbrace :: rev acc ++ [ch_rbrace]) :: pieces), ((k, m) :: ks').
        split; [rewrite H1; cbn [rev]; now rewrite <- app_assoc|].
        split.
        -- constructor; [|assumption]. right. exists (rev acc). repeat split; [|exact Ek].
           unfold rbrace_free. now rewrite forallb_rev'.
        -- cbn [concat]. rewrite <- H3. cbn [app]. now rewrite <- app_assoc.
      * destruct (IH (Some (c :: acc)) out ks H) as (pieces & ks' & H1 & H2 & H3).
        { unfold rbrace_free. cbn [forallb]. rewrite Ec. exact Hinb. }
        exists pieces, ks'. repeat split; try assumption.
        rewrite <- H3. cbn [rev]. now rewrite <- app_assoc.
    + destruct (Byte.eqb c ch_lbrace && negb (match r with [] => true | _ => false end)) eqn:Eb.
      * apply andb_true_iff in Eb. destruct Eb as [Eb _]. apply byte_eqb_true in Eb. subst c.
        destruct (IH (Some []) out ks H eq_refl) as (pieces & ks' & H1 & H2 & H3).
        exists pieces, ks'. repeat split; assumption.
      * rewrite parse_key_single in H.
        destruct (IH None ((schar c, 0) :: out) ks H I) as (pieces & ks' & H1 & H2 & H3).
        exists ([c] :: pieces), ((schar c, 0) :: ks').
        split; [rewrite H1; cbn [rev]; now rewrite <- app_assoc|].
        split; [constructor; [left; now exists c|assumption]|].
        cbn [concat app]. now rewrite H3.
Qed.

(** Theorem (5c): a successful KeySequence::Parse splits the text into single
    characters and brace groups, each of which KeyEvent::Parse accepts *)
Lemma parse_seq_sound s ks :
  parse_seq s = (true, ks) ->
  exists pieces, s = concat pieces /\ Forall2 piece_parses pieces ks.
Proof.
  intro H. destruct (parse_seq_from_sound s None [] ks H I) as (pieces & ks' & H1 & H2 & H3).
  cbn [rev app] in H1. subst ks'. now exists pieces.
Qed.
