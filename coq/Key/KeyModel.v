(** C19 – model of key names, key events and key sequences.

    Faithful functional port of
      src/rime/key_table.cc : RimeGetModifierByName, RimeGetModifierName,
                              RimeGetKeycodeByName, RimeGetKeyName
      src/rime/key_event.cc : KeyEvent::repr / Parse, is_unescaped_character,
                              KeySequence::repr / Parse
    over the tables regenerated from the current source in Gen/KeyTable.v
    ([modifier_name], the packed [key_names] blob with its NULs,
    [keys_by_keyval], [keys_by_name] as (keyval, OFFSET) pairs, [kModifierMask],
    [XK_VoidSymbol]).

    Conventions: a C `int` is a [Z] (callers stay inside the int range); a
    `std::string` is a [bytes] (may contain NUL); a `const char*` argument is
    the [bytes] from the pointer on, of which C code sees only [cstr].
    `char` is signed (x86-64 Linux ABI, the platform the harness runs on).
    No proofs in this file. *)
From Coq Require Import List ZArith NArith Bool.
From Coq.Strings Require Import Byte.
From RimeV Require Import Base.Bytes Gen.KeyTable.
Import ListNotations.
Local Open Scope Z_scope.

(** * C strings *)

Fixpoint bytes_eqb (a b : bytes) : bool :=
  match a, b with
  | [], [] => true
  | x :: a', y :: b' => if Byte.eqb x y then bytes_eqb a' b' else false
  | _, _ => false
  end.

(** what C sees of a char pointer: the bytes before the first NUL *)
Fixpoint cstr (s : bytes) : bytes :=
  match s with
  | [] => []
  | c :: r => if Byte.eqb c x00 then [] else c :: cstr r
  end.

(** [key_names + offset] as a C string.  Reading past the array (offset out of
    range, or no terminator before the end) is undefined in C; the model then
    returns the bytes up to the end, and [table_wellformed] (KeyProofs) shows it
    does not happen for any table entry. *)
Definition cstr_at (blob : bytes) (off : N) : bytes := cstr (skipn (N.to_nat off) blob).

(** [!strcmp(a, b)] is [bytes_eqb (cstr a) (cstr b)]; the lookups below take the
    [cstr] of their argument once, before the loop. *)

(** * key_table.cc *)

(** RimeGetModifierByName: first slot i whose name equals [name] gives 1 << i *)
Fixpoint modifier_by_name_loop (names : list (option bytes)) (i : nat) (name : bytes) : Z :=
  match names with
  | [] => 0
  | None :: rest => modifier_by_name_loop rest (S i) name
  | Some n :: rest =>
      if bytes_eqb name (cstr n) then Z.shiftl 1 (Z.of_nat i) else modifier_by_name_loop rest (S i) name
  end.
Definition RimeGetModifierByName (name : bytes) : Z := modifier_by_name_loop modifier_name 0 (cstr name).

(** RimeGetModifierName: name slot of the lowest set bit (may be NULL); NULL
    when no bit is set within the [n] slots.  [modifier >>= 1] on int is an
    arithmetic shift = [Z.shiftr]. *)
Fixpoint modifier_name_loop (names : list (option bytes)) (modifier : Z) : option bytes :=
  match names with
  | [] => None
  | nm :: rest =>
      if modifier =? 0 then None
      else if Z.odd modifier then option_map cstr nm
      else modifier_name_loop rest (Z.shiftr modifier 1)
  end.
Definition RimeGetModifierName (modifier : Z) : option bytes := modifier_name_loop modifier_name modifier.

(** the entry tables with [key_names + offset] evaluated per entry *)
Definition resolve (tbl : list (Z * N)) : list (Z * bytes) :=
  map (fun e => (fst e, cstr_at key_names (snd e))) tbl.
Definition resolved_by_keyval : list (Z * bytes) := resolve keys_by_keyval.
Definition resolved_by_name : list (Z * bytes) := resolve keys_by_name.

(** RimeGetKeycodeByName: scan keys_by_keyval up to the VoidSymbol sentinel.
    Running off the array (no sentinel) is undefined in C; the model answers
    VoidSymbol there and [table_wellformed] shows the sentinel exists. *)
Fixpoint keycode_by_name_in (tbl : list (Z * bytes)) (name : bytes) : Z :=
  match tbl with
  | [] => XK_VoidSymbol
  | (kv, nm) :: rest =>
      if kv =? XK_VoidSymbol then XK_VoidSymbol
      else if bytes_eqb name nm then kv
      else keycode_by_name_in rest name
  end.
(** [name] is what strcmp sees of the argument: evaluated once *)
Definition RimeGetKeycodeByName (name : bytes) : Z := keycode_by_name_in resolved_by_keyval (cstr name).

(** RimeGetKeyName: first entry of keys_by_name with that keyval (all n entries) *)
Fixpoint key_name_in (tbl : list (Z * bytes)) (keycode : Z) : option bytes :=
  match tbl with
  | [] => None
  | (kv, nm) :: rest => if keycode =? kv then Some nm else key_name_in rest keycode
  end.
Definition RimeGetKeyName (keycode : Z) : option bytes := key_name_in resolved_by_name keycode.

(** * KeyEvent *)

Definition ch_plus : byte := x2b.   (* '+' *)
Definition ch_lbrace : byte := x7b. (* '{' *)
Definition ch_rbrace : byte := x7d. (* '}' *)

Definition event := (Z * Z)%type.   (* keycode_, modifier_ *)

(** the modifier loop of repr(): [for (i = 0; k; ++i, k >>= 1)] with
    [RimeGetModifierName(k << i)]; [fuel] bounds the iterations (k < 2^fuel). *)
Fixpoint repr_mods_loop (fuel : nat) (i : nat) (k : Z) : bytes :=
  match fuel with
  | O => []
  | S f =>
      if k =? 0 then []
      else (if Z.odd k
            then match RimeGetModifierName (Z.shiftl k (Z.of_nat i)) with
                 | Some nm => nm ++ [ch_plus]
                 | None => []
                 end
            else [])
           ++ repr_mods_loop f (S i) (Z.shiftr k 1)
  end.
Definition repr_mods (modifier : Z) : bytes :=
  if modifier =? 0 then [] else repr_mods_loop 32 0 (Z.land modifier kModifierMask).

Definition hex_digit (d : Z) : byte :=
  byte_of_N (Z.to_N (if d <? 10 then 48 + d else 87 + d)).
(** exactly [n] lower-case hex digits of [v] (most significant first) *)
Fixpoint hex_digits (n : nat) (v : Z) : bytes :=
  match n with
  | O => []
  | S n' => hex_digits n' (Z.shiftr v 4) ++ [hex_digit (Z.land v 15)]
  end.

(** std::hex prints an int as its unsigned 32-bit pattern *)
Definition repr_keyname (keycode : Z) : option bytes :=
  match RimeGetKeyName keycode with
  | Some nm => Some nm
  | None =>
      if keycode <? 0 then Some ([x30; x78] ++ hex_digits 8 (keycode + 4294967296))
      else if keycode <=? 65535 then Some ([x30; x78] ++ hex_digits 4 keycode)
      else if keycode <=? 16777215 then Some ([x30; x78] ++ hex_digits 6 keycode)
      else None
  end.

Definition unknown_text : bytes := [x28; x75; x6e; x6b; x6e; x6f; x77; x6e; x29]. (* "(unknown)" *)

(** KeyEvent::repr *)
Definition repr_key (e : event) : bytes :=
  match repr_keyname (fst e) with
  | Some nm => repr_mods (snd e) ++ nm
  | None => unknown_text
  end.

(** [static_cast<int>(char)] with signed char *)
Definition schar (c : byte) : Z :=
  let v := Z.of_N (N_of_byte c) in if v <? 128 then v else v - 256.

(** the [while ((found = repr.find('+', start)) != npos)] loop of Parse, as a
    scan over the remaining text; [tok_rev] is the current token reversed.
    Result: (return value, keycode_, modifier_) – the members are left as
    they are on a failing return. *)
Fixpoint parse_from (s : bytes) (tok_rev : bytes) (modifier : Z) : bool * Z * Z :=
  match s with
  | [] =>
      let k := RimeGetKeycodeByName (rev tok_rev) in
      if k =? XK_VoidSymbol then (false, k, modifier) else (true, k, modifier)
  | c :: r =>
      if Byte.eqb c ch_plus then
        let mask := RimeGetModifierByName (rev tok_rev) in
        if mask =? 0 then (false, 0, modifier) else parse_from r [] (Z.lor modifier mask)
      else parse_from r (c :: tok_rev) modifier
  end.

(** KeyEvent::Parse *)
Definition parse_key (s : bytes) : bool * Z * Z :=
  match s with
  | [] => (false, 0, 0)
  | [c] => (true, schar c, 0)
  | _ => parse_from s [] 0
  end.

(** * KeySequence *)

Definition is_unescaped_character (e : event) : bool :=
  (snd e =? 0) && (32 <=? fst e) && (fst e <=? 126) && negb (fst e =? 123) && negb (fst e =? 125).

Definition repr_piece (e : event) : bytes :=
  let k := repr_key e in
  if Nat.eqb (length k) 1 then k
  else if is_unescaped_character e then [byte_of_N (Z.to_N (fst e))]
  else [ch_lbrace] ++ k ++ [ch_rbrace].

(** KeySequence::repr *)
Definition repr_seq (ks : list event) : bytes := flat_map repr_piece ks.

(** KeySequence::Parse as a scan.  [inb = Some body_rev]: a '{' with something
    after it has been seen and the text up to the first '}' is being collected
    ([repr.find('}', start)]); running out of text there is the "unparalleled
    brace" failure.  [out_rev]: the events pushed so far (kept on failure, as
    the vector is).  A '{' that is the last character ([i + 1 < n] false) is an
    ordinary character. *)
Fixpoint parse_seq_from (s : bytes) (inb : option bytes) (out_rev : list event) : bool * list event :=
  match s with
  | [] =>
      match inb with
      | None => (true, rev out_rev)
      | Some _ => (false, rev out_rev)
      end
  | c :: r =>
      match inb with
      | Some body_rev =>
          if Byte.eqb c ch_rbrace then
            match parse_key (rev body_rev) with
            | (true, k, m) => parse_seq_from r None ((k, m) :: out_rev)
            | _ => (false, rev out_rev)
            end
          else parse_seq_from r (Some (c :: body_rev)) out_rev
      | None =>
          if Byte.eqb c ch_lbrace && negb (match r with [] => true | _ => false end) then
            parse_seq_from r (Some []) out_rev
          else
            match parse_key [c] with
            | (true, k, m) => parse_seq_from r None ((k, m) :: out_rev)
            | _ => (false, rev out_rev)
            end
      end
  end.
Definition parse_seq (s : bytes) : bool * list event := parse_seq_from s None [].

(** * The domain of the round-trip property, as boolean predicates *)

(** the key code has a name (RimeGetKeyName finds one) *)
Definition key_named (k : Z) : bool :=
  match RimeGetKeyName k with Some _ => true | None => false end.

(** bits that have a modifier name: sum of 2^i over the named slots *)
Fixpoint named_bits_of (names : list (option bytes)) : Z :=
  match names with
  | [] => 0
  | nm :: rest => (match nm with Some _ => 1 | None => 0 end) + 2 * named_bits_of rest
  end.
Definition named_bits : Z := named_bits_of modifier_name.

(** [m] is a combination of named modifier bits *)
Definition named_mask (m : Z) : bool := (0 <=? m) && (Z.land m named_bits =? m).

(** a key event the textual form can represent: a named key other than
    VoidSymbol under named modifiers *)
Definition representable (e : event) : bool :=
  key_named (fst e) && negb (fst e =? XK_VoidSymbol) && named_mask (snd e).

(** in a key sequence an unmodified printable ASCII character other than the
    braces is written as itself, whether or not it has a name *)
Definition seq_representable (e : event) : bool :=
  representable e || is_unescaped_character e.
