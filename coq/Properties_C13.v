(** C13 - an interrupted deployment is repaired by the next, never mistaken for
    complete.  Property theorems only; each closed by [exact]/a two-line glue of
    lemmas proved in Dep/CrashProofs.v and Dep/StaleProofs.v.  [facts] is
    regenerated from the current source by gen/build_order.py on every run. *)
From Coq Require Import List NArith Bool String.
From RimeV Require Import Dep.Stale Dep.StaleProofs Dep.Crash Dep.CrashProofs Gen.BuildOrder.
Import ListNotations.
Local Open Scope N_scope.

(** what the translator found in Table::Build, Prism::Build, ReverseDb::Build,
    their call sites, MappedFile and ConfigData::SaveToFile today has the shape
    the ordering argument needs (finite domain: the generated facts) *)
Theorem C13_builders_translated_ok :
  forallb (builder_ok facts) [KTable; KPrismF; KReverse] = true /\ bf_save_mode facts = TempRename.
Proof. vm_compute. split; reflexivity. Qed.
Print Assumptions C13_builders_translated_ok.

(** every kill point of a builder before its format-tag write - whatever was on
    disk before, whatever the sizes - leaves a file that Load rejects (neither
    accepts nor crashes on) *)
Theorem C13_mmap_prefix_rejected :
  forall k, In k [KTable; KPrismF; KReverse] ->
  forall old est fin ext n,
  (n <= tag_index (kill_effs facts k old est fin ext))%nat ->
  load facts k (run_effs (firstn n (kill_effs facts k old est fin ext)) (start_file facts k old)) = LReject.
Proof.
  intros k Hk old est fin ext n. apply mmap_prefix_rejected.
  exact (proj1 (forallb_forall _ _) (proj1 C13_builders_translated_ok) k Hk).
Qed.
Print Assumptions C13_mmap_prefix_rejected.

(** every kill point after the tag write leaves the complete file: all metadata
    stored, tag present, accepted by Load (estimate and final size permitting) *)
Theorem C13_mmap_tagged_complete :
  forall k, In k [KTable; KPrismF; KReverse] ->
  forall old est fin ext n,
  (tag_index (kill_effs facts k old est fin ext) < n)%nat ->
  (forall g, ext g <= fin) -> fin <= est -> 0 < fin ->
  exists m, run_effs (firstn n (kill_effs facts k old est fin ext)) (start_file facts k old) = Some m /\
            m_tag m = true /\
            (forall g, In g (prog_fields (bf_prog facts k)) -> In g (m_fields m)) /\
            load facts k (Some m) = LAccept.
Proof.
  intros k Hk old est fin ext n. apply mmap_tagged_complete.
  exact (proj1 (forallb_forall _ _) (proj1 C13_builders_translated_ok) k Hk).
Qed.
Print Assumptions C13_mmap_tagged_complete.

(** compiled YAML as saved today: at every kill point the final name holds what
    it held before or the complete new document, never a strict prefix *)
Theorem C13_yaml_save_atomic :
  forall (A : Type) (chunks : list (list A)) (st : yfs A) n,
  let st' := run_yeffs (firstn n (save_effs (bf_save_mode facts) chunks)) st in
  y_final st' = y_final st \/ y_final st' = Some (List.concat chunks).
Proof.
  intros A chunks st n. rewrite (proj2 C13_builders_translated_ok). apply yaml_save_atomic.
Qed.
Print Assumptions C13_yaml_save_atomic.

(** the next deployment: from any build directory whose surviving artefacts are
    self-describing - i.e. after any set of artefacts was removed or left in a
    state Load rejects - it rebuilds exactly what a clean deployment builds and
    succeeds iff the clean one does *)
Theorem C13_redeploy_completes :
  forall crc cyid list_of info_of dinfo_of deps_fn, crc_inj crc -> cyid_inj cyid ->
  forall Hist, coherent Hist -> nonzero Hist -> deps_closed deps_fn Hist ->
  forall s a, In s Hist -> wf_srcs list_of info_of deps_fn s -> Inv crc cyid deps_fn Hist a ->
  sub (fst (fst (deploy crc cyid list_of info_of dinfo_of deps_fn s [])))
      (fst (fst (deploy crc cyid list_of info_of dinfo_of deps_fn s a))) /\
  snd (deploy crc cyid list_of info_of dinfo_of deps_fn s a) = snd (deploy crc cyid list_of info_of dinfo_of deps_fn s []).
Proof. exact redeploy_completes. Qed.
Print Assumptions C13_redeploy_completes.

(** ... and it leaves the directory invariant again *)
Theorem C13_redeploy_keeps_invariant :
  forall crc cyid list_of info_of dinfo_of deps_fn, crc_inj crc -> cyid_inj cyid ->
  forall Hist, coherent Hist -> nonzero Hist -> deps_closed deps_fn Hist ->
  forall s a, In s Hist -> wf_srcs list_of info_of deps_fn s -> Inv crc cyid deps_fn Hist a ->
  Inv crc cyid deps_fn Hist (fst (fst (deploy crc cyid list_of info_of dinfo_of deps_fn s a))).
Proof. exact deploy_inv. Qed.
Print Assumptions C13_redeploy_keeps_invariant.

(** the window between table->Save() and the creation of the reverse db (a kill
    there leaves a complete table with the right checksum and no reverse db): the
    decision model rebuilds the table, hence the reverse db, whatever else is there *)
Theorem C13_missing_reverse_forces_rebuild :
  forall crc cyid dinfo_of s d p packs cy a vd fl,
  lookup s (FDict d) = Some vd ->
  cids_of s (tables_of d (dinfo_of (fv_cid vd))) = Some fl ->
  get_tab a (KRev d) = None ->
  exists bp l, snd (fst (compile crc cyid dinfo_of s d p packs cy a)) = LDict d true true bp :: l.
Proof. exact missing_reverse_forces_rebuild. Qed.
Print Assumptions C13_missing_reverse_forces_rebuild.

(** WorkspaceUpdate::Run as translated today writes var/last_build_time after
    every schema update: a deployment killed at any point leaves the stamp as it
    was, so DetectModifications answers at the next start-up exactly as it did
    (or would have) before the killed deployment - the ordinary start-up path
    deploys again *)
Theorem C13_stamp_written_last : bf_stamp_last facts = true.
Proof. reflexivity. Qed.
Print Assumptions C13_stamp_written_last.

Theorem C13_killed_deploy_is_redetected :
  forall now xs old n latest,
  (n < List.length (ws_effs (bf_stamp_last facts) now xs))%nat ->
  stamp_after (firstn n (ws_effs (bf_stamp_last facts) now xs)) old = old /\
  detect_modifications latest (stamp_after (firstn n (ws_effs (bf_stamp_last facts) now xs)) old)
  = detect_modifications latest old.
Proof. rewrite C13_stamp_written_last. exact killed_deploy_is_redetected. Qed.
Print Assumptions C13_killed_deploy_is_redetected.

(** written first instead, the stamp hides the unfinished work from start-up *)
Theorem C13_stamp_first_refuted :
  exists n, (n < List.length (ws_effs false 2000 [1%N; 2%N]))%nat /\
    stamp_after (firstn n (ws_effs false 2000 [1; 2])) 0 = 2000 /\
    detect_modifications 1500 0 = true /\
    detect_modifications 1500 (stamp_after (firstn n (ws_effs false 2000 [1; 2])) 0) = false.
Proof. exact stamp_first_refuted. Qed.
Print Assumptions C13_stamp_first_refuted.

(** non-vacuity: a workspace meeting the hypotheses deploys (six artefacts) *)
Theorem C13_nonvacuous :
  wf_srcs demo_list_of demo_info_of demo_deps demo_srcs /\ snd (demo_deploy demo_srcs []) = true /\
  builder_ok (demo_facts true true) KReverse = true.
Proof. exact (conj wf_demo (conj (proj1 deploy_demo_runs) builder_ok_demo)). Qed.
Print Assumptions C13_nonvacuous.

(** the three shapes the source had before the repairs, each refuted by a witness
    (replayed on the real code by the check's mutation drills):
    (1) OpenReadOnly not guarded: a zero-length file makes Load crash *)
Theorem C13_unguarded_open_refuted :
  exists n, (n <= tag_index (kill_effs (demo_facts true false) KReverse None 6000 5000 demo_ext))%nat /\
    load (demo_facts true false) KReverse
         (run_effs (firstn n (kill_effs (demo_facts true false) KReverse None 6000 5000 demo_ext))
                   (start_file (demo_facts true false) KReverse None)) = LCrash.
Proof. exact unguarded_open_refuted. Qed.
Print Assumptions C13_unguarded_open_refuted.

(** (2) Build without Remove(): the resized old file keeps its tag - Load
    crashes on it (smaller estimate) or accepts the old contents (larger) *)
Theorem C13_build_without_remove_refuted :
  (exists n, (n <= tag_index (kill_effs (demo_facts false true) KReverse (Some demo_old) 1100 300 demo_ext))%nat /\
     load (demo_facts false true) KReverse
          (run_effs (firstn n (kill_effs (demo_facts false true) KReverse (Some demo_old) 1100 300 demo_ext))
                    (start_file (demo_facts false true) KReverse (Some demo_old))) = LCrash) /\
  (exists n, (n <= tag_index (kill_effs (demo_facts false true) KReverse (Some demo_old) 6000 5500 demo_ext))%nat /\
     load (demo_facts false true) KReverse
          (run_effs (firstn n (kill_effs (demo_facts false true) KReverse (Some demo_old) 6000 5500 demo_ext))
                    (start_file (demo_facts false true) KReverse (Some demo_old))) = LAccept).
Proof. exact reverse_without_remove_refuted. Qed.
Print Assumptions C13_build_without_remove_refuted.

(** (3) yaml_prefix_rejected_or_rebuilt is false of an in-place save: after the
    first flush the final name holds a strict prefix, and a stump that still
    carries the timestamps is judged exactly as the complete file is *)
Theorem C13_yaml_prefix_inplace_refuted :
  (forall (A : Type) (c1 c2 : list A) rest (st : yfs A),
     y_final (run_yeffs (firstn 2 (save_effs InPlace (c1 :: c2 :: rest))) st) = Some c1) /\
  (forall s c c', cy_ts c' = cy_ts c -> needs_update s (Some c') = needs_update s (Some c)).
Proof. exact (conj yaml_inplace_leaves_prefix stump_accepted). Qed.
Print Assumptions C13_yaml_prefix_inplace_refuted.
