(** C07 - composition with C09 (Dict/PrismModel.v, read-only): the prism input of the table translator.

    The lookup model takes, for one query string, the prism's keys in Prism::ExpandSearch order with their spellings.
    [prism_at p q] builds that input from C09's built prism [p]; the lemmas below show that what the model reads from
    it is what C09's ExpandSearch / GetValue / QuerySpelling return (C09_expand_exact, C09_expand_members,
    C09_exact_match): the model's [expand_search] with any limit, the match lengths, and [exact_key]. *)
From Coq Require Import List Arith ZArith NArith Bool Lia.
From Coq.Strings Require Import Byte.
From RimeV Require Base.Bytes Dict.Algebra Dict.PrismModel Dict.PrismProofs.
From RimeV Require Import Lookup.Defs Lookup.Model Lookup.Spec Lookup.ScriptProofs Lookup.TableProofs Lookup.ComposeTable.
Import ListNotations.

Module PM := RimeV.Dict.PrismModel.
Module PP := RimeV.Dict.PrismProofs.
Module Al := RimeV.Dict.Algebra.

Section PrismSide.
Variable fcred : Type.
Variable fcast : Z -> fcred.

Definition conv_desc (d : PM.desc fcred) : syll * nat := (PM.d_syll fcred d, PM.d_type fcred d).

Definition spellings_of (p : PM.prism fcred) (v : nat) : list (syll * nat) :=
  map conv_desc (PM.query_spelling fcred fcast p v).

Definition conv_match (p : PM.prism fcred) (m : nat * nat) : text * list (syll * nat) :=
  (conv_text (nth (fst m) (PM.p_keys fcred p) []), spellings_of p (fst m)).

(** the keys that extend [q], in ExpandSearch order, with what QuerySpelling enumerates for each *)
Definition prism_at (p : PM.prism fcred) (q : Base.Bytes.bytes) : prism :=
  map (conv_match p) (PM.expand_search fcred p q 0).

Lemma conv_text_app a b : conv_text (a ++ b) = conv_text a ++ conv_text b.
Proof. apply map_app. Qed.
Lemma conv_text_length a : length (conv_text a) = length a.
Proof. apply map_length. Qed.

Section WithPrism.
Variable p : PM.prism fcred.
Hypothesis WF : PP.wf_prism fcred p.
Hypothesis ND : NoDup (PM.p_keys fcred p).

Lemma match_key q v n :
  In (v, n) (PM.expand_search fcred p q 0) ->
  exists w, nth v (PM.p_keys fcred p) [] = q ++ w /\ n = length (q ++ w).
Proof.
  intros H. apply (PP.expand_members fcred p q v n WF ND) in H. destruct H as [w [Hn ->]].
  exists w. split; [|reflexivity]. now apply nth_error_nth.
Qed.

(** ExpandSearch with a limit is the unlimited result cut at the limit (C09_expand_exact) *)
Lemma expand_limit q L :
  PM.expand_search fcred p q L =
  if L =? 0 then PM.expand_search fcred p q 0 else firstn L (PM.expand_search fcred p q 0).
Proof.
  unfold PM.expand_search. rewrite !(PP.expand_exact fcred p q _ WF). cbn [fst Nat.eqb]. reflexivity.
Qed.

(** the model's ExpandSearch on [prism_at] = C09's ExpandSearch, for every limit *)
Theorem expand_search_prism_at q L :
  expand_search (prism_at p q) (conv_text q) L = map (conv_match p) (PM.expand_search fcred p q L).
Proof.
  unfold expand_search. rewrite expand_limit.
  assert (Fl : filter (fun ks : text * list (syll * nat) => is_prefix (conv_text q) (fst ks)) (prism_at p q) = prism_at p q).
  { unfold prism_at. generalize (match_key q). generalize (PM.expand_search fcred p q 0). intros l Hl.
    induction l as [|[v n] l IH]; [reflexivity|]. cbn [map filter].
    destruct (Hl v n (or_introl eq_refl)) as [w [Hk _]]. unfold conv_match at 1. cbn [fst]. rewrite Hk, conv_text_app.
    assert (Ep : is_prefix (conv_text q) (conv_text q ++ conv_text w) = true) by (apply is_prefix_spec; eauto).
    rewrite Ep.
    f_equal. apply IH. intros v' n' H'. apply Hl. now right. }
  rewrite Fl. unfold prism_at. destruct (L =? 0); [reflexivity|]. now rewrite firstn_map.
Qed.

(** the match length the model uses is the length ExpandSearch reports *)
Lemma match_length q m : In m (PM.expand_search fcred p q 0) -> length (fst (conv_match p m)) = snd m.
Proof.
  destruct m as [v n]. intros H. destruct (match_key q v n H) as [w [Hk ->]].
  unfold conv_match. cbn [fst snd]. now rewrite Hk, conv_text_length.
Qed.

Lemma exact_key_none l k : Forall (fun ks : text * list (syll * nat) => length (fst ks) <> length k) l -> exact_key l k = None.
Proof.
  induction 1 as [|ks l H _ IH]; [reflexivity|]. cbn [exact_key].
  destruct (text_eqb (fst ks) k) eqn:E; [apply text_eqb_eq in E; congruence|exact IH].
Qed.

(** the model's GetValue on [prism_at] = C09's GetValue + QuerySpelling *)
Theorem exact_key_prism_at q :
  exact_key (prism_at p q) (conv_text q) = option_map (spellings_of p) (PM.get_value fcred p q).
Proof.
  rewrite PP.get_value_index. unfold prism_at, PM.expand_search. rewrite (PP.expand_exact fcred p q 0 WF).
  cbn [fst Nat.eqb]. unfold PP.expand_spec. rewrite map_app.
  set (tailpart := flat_map _ (seq 1 _)).
  assert (T : Forall (fun ks : text * list (syll * nat) => length (fst ks) <> length (conv_text q)) (map (conv_match p) tailpart)).
  { rewrite Forall_forall. intros ks Hks. apply in_map_iff in Hks. destruct Hks as [[v n] [<- Hm]].
    unfold tailpart in Hm. apply in_flat_map in Hm. destruct Hm as [d [Hd Hm]]. apply in_seq in Hd.
    apply in_flat_map in Hm. destruct Hm as [w [Hw Hm]].
    destruct (PM.index_of (q ++ w) (PM.p_keys fcred p)) as [v'|] eqn:Ei; [|destruct Hm]. destruct Hm as [Hm|[]].
    injection Hm as E1 E2. subst v n. apply PP.index_of_nth in Ei. apply (nth_error_nth _ _ []) in Ei.
    unfold conv_match. cbn [fst].
    rewrite !conv_text_length.
    assert (El : length (nth v' (PM.p_keys fcred p) []) = length q + length w)
      by (rewrite <- app_length; exact (f_equal (@length _) Ei)).
    apply PP.words_length in Hw. intros Heq. rewrite Heq in El. lia. }
  destruct (PM.index_of q (PM.p_keys fcred p)) as [v|] eqn:Ei.
  - cbn [map app exact_key option_map]. apply PP.index_of_nth in Ei. apply (nth_error_nth _ _ []) in Ei.
    assert (Ek : nth v (PM.p_keys fcred p) [] = q) by exact Ei.
    unfold conv_match at 1. cbn [fst snd]. rewrite Ek.
    replace (text_eqb (conv_text q) (conv_text q)) with true by (symmetry; now apply text_eqb_eq). reflexivity.
  - cbn [map app option_map]. now apply exact_key_none.
Qed.

End WithPrism.
End PrismSide.
