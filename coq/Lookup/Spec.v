(** C07 - specification vocabulary (no proofs): paths of a syllable graph, well-formedness of the inputs the
    lookup code is handed, what it means for the table to hold an entry. *)
From Coq Require Import List Arith ZArith NArith Bool Sorted.
From RimeV Require Import Lookup.Defs Lookup.Model.
Import ListNotations.

(** an edge of the graph as [indices] presents it: from [s], labelled with syllable [x], with properties [p] *)
Definition has_edge (g : graph) (s : nat) (x : syll) (p : props) : Prop :=
  exists index pl, In (s, index) (g_indices g) /\ In (x, pl) index /\ In p pl.

(** [gpath g s c e]: the code [c] labels a path from [s] to [e] *)
Inductive gpath (g : graph) : nat -> code -> nat -> Prop :=
| gp_nil : forall s, gpath g s [] s
| gp_cons : forall s x p rest e, has_edge g s x p -> gpath g (p_end p) rest e -> gpath g s (x :: rest) e.

(** [reaches g s e]: [e] can be reached from [s]; a position on a complete segmentation of the interpreted
    input is one that is reachable from 0 and reaches [g_ilen g] *)
Definition reaches (g : graph) (s e : nat) : Prop := exists c, gpath g s c e.
Definition on_complete_segmentation (g : graph) (e : nat) : Prop := reaches g 0 e /\ reaches g e (g_ilen g).

(** what the syllabifier guarantees of the structure it hands over (C08): the maps have unique keys, edges go
    forward and end inside the interpreted prefix, and every end vertex lies on a path to the interpreted length *)
Record wf_graph (g : graph) : Prop := {
  wf_idx_nodup : NoDup (map fst (g_indices g));
  wf_syl_nodup : forall s index, In (s, index) (g_indices g) -> NoDup (map fst index);
  wf_forward : forall s x p, has_edge g s x p -> s < p_end p <= g_ilen g
}.

Definition graph_pruned (g : graph) : Prop :=
  forall s x p, has_edge g s x p -> reaches g (p_end p) (g_ilen g).

(** the walk Table::Query performs: a path whose every syllable could be advanced over *)
Inductive wpath (g : graph) (t : table) (start : nat) : code -> nat -> Z -> Prop :=
| wp_nil : wpath g t start [] start 0%Z
| wp_snoc : forall ic pos cred x p,
    wpath g t start ic pos cred -> has_edge g pos x p -> p_end p < g_ilen g -> node_next t (ic ++ [x]) = true ->
    wpath g t start (ic ++ [x]) (p_end p) (cred + p_cred p)%Z.

(** the table holds the entry (text, weight) under the code [c] *)
Definition table_has (t : table) (c : code) (e : tentry) : Prop :=
  (1 <= length c <= 3 /\ In e (node_ents t c)) \/
  (3 < length c /\ In (mkLE (skipn 3 c) e) (node_tail t (firstn 3 c))).

(** what the compiler guarantees of the index (C06): a node that holds entries, a next level or a tail page is
    reached through nodes that have a next level; entry lists are in non-increasing weight order *)
Definition proper_prefix_of (c' c : code) : Prop := exists r, r <> [] /\ c = c' ++ r.

Record wf_table (t : table) : Prop := {
  wf_prefix_closed : forall c c', (node_ents t c <> [] \/ node_tail t c <> []) -> proper_prefix_of c' c -> c' <> [] ->
                                  node_next t c' = true;
  wf_tail_next : forall c, node_tail t c <> [] -> node_next t c = true;
  wf_tail_len : forall c, node_tail t c <> [] -> length c = 3;
  wf_tail_extra : forall c le, In le (node_tail t c) -> le_extra le <> []
}.

Definition weights_sorted (l : list tentry) : Prop := StronglySorted (fun a b => (te_w b <= te_w a)%Z) l.
Definition table_sorted (t : table) : Prop := forall c, weights_sorted (node_ents t c).
