(** C07 - ScriptTranslation: the phrase candidates are exactly the spelled entries, longer matches first, best head
    first inside one end position; the sentence is a concatenation of spelled entries; nothing else is emitted. *)
From Coq Require Import List Arith ZArith NArith Bool Lia Sorted Permutation.
From RimeV Require Import Lookup.Defs Lookup.Model Lookup.Spec Lookup.MapProofs Lookup.QueryProofs Lookup.IterProofs
     Lookup.LookupProofs.
Import ListNotations.

(** * generic list facts *)
Lemma StronglySorted_app {A} (R : A -> A -> Prop) l1 l2 :
  StronglySorted R l1 -> StronglySorted R l2 -> (forall a b, In a l1 -> In b l2 -> R a b) ->
  StronglySorted R (l1 ++ l2).
Proof.
  intros S1 S2 H. induction S1 as [|a l1 S1 IH F]; [exact S2|]. cbn. constructor.
  - apply IH. intros x y Hx Hy. apply H; [now right|exact Hy].
  - apply Forall_app. split; [exact F|]. rewrite Forall_forall. intros y Hy. apply H; [now left|exact Hy].
Qed.

Lemma StronglySorted_map {A B} (f : A -> B) (R : A -> A -> Prop) (Q : B -> B -> Prop) l :
  (forall a b, R a b -> Q (f a) (f b)) -> StronglySorted R l -> StronglySorted Q (map f l).
Proof.
  intros H S. induction S as [|a l S IH F]; cbn; constructor; [exact IH|].
  rewrite Forall_forall in *. intros y Hy. apply in_map_iff in Hy. destruct Hy as [x [<- Hx]]. apply H. now apply F.
Qed.

Lemma StronglySorted_rev_lt (l : list nat) : StronglySorted lt l -> StronglySorted gt (rev l).
Proof.
  intros S. induction S as [|a l S IH F]; [constructor|]. cbn.
  apply StronglySorted_app; [exact IH|repeat constructor|].
  intros x y Hx [<-|[]]. apply in_rev in Hx. rewrite Forall_forall in F. specialize (F x Hx). lia.
Qed.

Lemma in_firstn {A} n (l : list A) x : In x (firstn n l) -> In x l.
Proof.
  revert l. induction n as [|n IH]; intros [|a l] H; cbn in H; try contradiction.
  destruct H as [<-|H]; [now left|right; now apply IH].
Qed.

Lemma text_eqb_eq a b : text_eqb a b = true <-> a = b.
Proof.
  revert b. induction a as [|x a IH]; intros [|y b]; cbn; try (split; congruence).
  rewrite andb_true_iff, N.eqb_eq, IH. split; [intros [-> ->]; reflexivity|intros H; injection H; auto].
Qed.

Lemma code_eqb_eq a b : code_eqb a b = true <-> a = b.
Proof.
  revert b. induction a as [|x a IH]; intros [|y b]; cbn; try (split; congruence).
  rewrite andb_true_iff, Nat.eqb_eq, IH. split; [intros [-> ->]; reflexivity|intros H; injection H; auto].
Qed.

(** * DistinctTranslation *)
Lemma distinct_incl seen l : incl (distinct seen l) l.
Proof.
  revert seen. induction l as [|c r IH]; intros seen x Hx; [destruct Hx|]. cbn in Hx.
  destruct (text_mem (k_text c) seen); [right; eapply IH; exact Hx|].
  destruct Hx as [<-|Hx]; [now left|right; eapply IH; exact Hx].
Qed.

Lemma text_mem_in x l : text_mem x l = true <-> In x l.
Proof.
  induction l as [|y r IH]; cbn; [split; [discriminate|tauto]|].
  rewrite orb_true_iff, text_eqb_eq, IH. split; intros [H|H]; auto.
Qed.

(** every text of the stream survives (its first occurrence is kept) *)
Lemma distinct_keeps_texts seen l c :
  In c l -> In (k_text c) seen \/ exists c', In c' (distinct seen l) /\ k_text c' = k_text c.
Proof.
  revert seen. induction l as [|x r IH]; intros seen H; [destruct H|]. cbn [distinct].
  destruct (text_mem (k_text x) seen) eqn:E.
  - destruct H as [<-|H]; [left; now apply text_mem_in|]. apply IH. exact H.
  - destruct H as [<-|H]; [right; exists x; split; [now left|reflexivity]|].
    destruct (IH (k_text x :: seen) H) as [[Hs|Hs]|[c' [Hc' Ht]]].
    + right. exists x. split; [now left|exact Hs].
    + now left.
    + right. exists c'. split; [now right|exact Ht].
Qed.

Corollary distinct_complete l c : In c l -> exists c', In c' (distinct [] l) /\ k_text c' = k_text c.
Proof. intros H. destruct (distinct_keeps_texts [] l c H) as [[]|H']. exact H'. Qed.

(** order is preserved: [distinct] yields a subsequence *)
Lemma distinct_sorted (R : cand -> cand -> Prop) seen l : StronglySorted R l -> StronglySorted R (distinct seen l).
Proof.
  intros S. revert seen. induction S as [|a l S IH F]; intros seen; [constructor|]. cbn.
  destruct (text_mem (k_text a) seen); [apply IH|]. constructor; [apply IH|].
  rewrite Forall_forall in *. intros y Hy. apply F. eapply distinct_incl. exact Hy.
Qed.

(** * the phrase stream *)
Lemma lookup_iter_nonempty g t start predict e it :
  wf_graph g -> In (e, it) (lookup g t start predict) -> Forall nonempty it.
Proof.
  intros W H. destruct (le_lt_dec (g_ilen g) start) as [Hs|Hs].
  - rewrite lookup_start_out in H by exact Hs. destruct H.
  - apply lookup_in in H. destruct H as [cs [Hin ->]].
    eapply Permutation_Forall; [apply sort_head_perm|]. rewrite Forall_forall. intros c Hc.
    assert (Hl : In (e, c) (lookup_chunks g t start predict)) by (apply group_in; eauto).
    apply lookup_chunks_in in Hl. destruct Hl as [e0 [a [Hq Hch]]].
    apply query_sound_complete in Hq; [|exact W|exact Hs].
    destruct Hq as [[ic [pos [cred [x [p [Wp [L [He [-> [-> NE]]]]]]]]]]|[ic [cred [Wp [L [Hi [-> NE]]]]]]].
    + cbn in Hch. destruct Hch as [Hch|[]]. injection Hch as <- <-. exact NE.
    + cbn [chunks_of_item snd fst] in Hch. apply in_flat_map in Hch. destruct Hch as [le [Hle Hch]].
      destruct (fst (fst (match_extra g predict (le_extra le) 0 e0))); [|destruct Hch].
      destruct Hch as [Hch|[]]. injection Hch as <- <-. unfold nonempty. cbn. discriminate.
Qed.

Lemma script_phrase_entries_in g t start predict e d :
  wf_graph g ->
  (In (e, d) (script_phrase_entries (lookup g t start predict)) <->
   exists c te, In (e, c) (lookup_chunks g t start predict) /\ In te (c_ents c) /\ d = mk_dentry c te).
Proof.
  intros W. unfold script_phrase_entries. rewrite in_flat_map. split.
  - intros [[e' it] [Hin Hd]]. apply in_rev in Hin. cbn [fst snd] in Hd. apply in_map_iff in Hd.
    destruct Hd as [d' [E Hd]]. injection E as -> ->.
    pose proof (lookup_iter_nonempty g t start predict e it W Hin) as NE.
    eapply Permutation_in in Hd; [|apply drain_all_perm; exact NE].
    now apply (lookup_entry_in g t start predict e it d Hin).
  - intros [c [te [Hc [Hte ->]]]].
    assert (Hk : exists it, In (e, it) (lookup g t start predict)).
    { apply group_in in Hc. destruct Hc as [cs [Hin _]]. exists (sort_head cs). apply lookup_in. eauto. }
    destruct Hk as [it Hin]. exists (e, it). split; [now apply -> in_rev|]. cbn [fst snd].
    apply in_map. pose proof (lookup_iter_nonempty g t start predict e it W Hin) as NE.
    eapply Permutation_in; [symmetry; apply drain_all_perm; exact NE|].
    apply (lookup_entry_in g t start predict e it _ Hin). eauto.
Qed.

(** ** exactness (exact matches): the phrase entries at end [e] are the table entries whose code is spelled start -> e *)
Theorem script_entries_exact g t start e c txt :
  wf_graph g -> wf_table t -> start < g_ilen g ->
  ((exists d, In (e, d) (script_phrase_entries (lookup g t start false)) /\ d_code d = c /\ d_text d = txt) <->
   (exists w, table_has t c (mkTE txt w) /\ spelled g c start e)).
Proof.
  intros W WT Hs. split.
  - intros [d [Hin [<- <-]]]. apply script_phrase_entries_in in Hin; [|exact W].
    destruct Hin as [ch [te [Hc [Hte ->]]]]. exists (te_w te). cbn [mk_dentry d_code d_text].
    replace (mkTE (te_text te) (te_w te)) with te by now destruct te.
    apply (collector_exact g t start e (c_code ch) te W WT Hs). eauto.
  - intros [w [Hth Hsp]].
    destruct (proj2 (collector_exact g t start e c (mkTE txt w) W WT Hs) (conj Hth Hsp)) as [ch [Hc [<- Hte]]].
    exists (mk_dentry ch (mkTE txt w)). split; [|split; reflexivity].
    apply script_phrase_entries_in; [exact W|]. eauto.
Qed.

Lemma script_entries_all_exact g t start e d :
  wf_graph g -> start < g_ilen g ->
  In (e, d) (script_phrase_entries (lookup g t start false)) -> d_match d = 0.
Proof.
  intros W Hs Hin. apply script_phrase_entries_in in Hin; [|exact W].
  destruct Hin as [ch [te [Hc [Hte ->]]]]. cbn [mk_dentry d_match].
  rewrite (lookup_chunks_exact g t start e ch W Hs Hc). now rewrite Nat.ltb_irrefl.
Qed.

(** the same statement on the candidates ScriptTranslation emits (no word completion) *)
Theorem script_candidates_exact g t e c txt :
  wf_graph g -> wf_table t -> 0 < g_ilen g ->
  (In (mkCand TPhrase 0 e txt c) (script_phrases (lookup g t 0 false)) <->
   (exists w, table_has t c (mkTE txt w) /\ spelled g c 0 e)).
Proof.
  intros W WT Hs. rewrite <- (script_entries_exact g t 0 e c txt W WT Hs). unfold script_phrases. rewrite in_map_iff. split.
  - intros [[e' d] [E Hin]]. unfold phrase_cand in E. cbn [fst snd] in E. injection E as _ -> <- <-. eauto.
  - intros [d [Hin [<- <-]]]. exists (e, d). split; [|exact Hin]. unfold phrase_cand. cbn [fst snd].
    pose proof (script_entries_all_exact g t 0 e d W Hs Hin) as M. unfold d_predictive. rewrite M. reflexivity.
Qed.

(** ** order: end positions descending; inside one end position best head first *)
Definition pe_le (a b : nat * dentry) : Prop := fst b < fst a \/ (fst a = fst b /\ dle (snd a) (snd b)).

Lemma phrase_entries_sorted_gen (L : list (nat * list chunk)) :
  StronglySorted gt (map fst L) ->
  (forall e it, In (e, it) L -> StronglySorted dle (drain_all it)) ->
  StronglySorted pe_le (flat_map (fun ei : nat * list chunk => map (fun d => (fst ei, d)) (drain_all (snd ei))) L).
Proof.
  induction L as [|[e it] L IH]; intros S H; [constructor|]. cbn [flat_map fst snd map] in *.
  inversion S as [|? ? S' F]; subst. apply StronglySorted_app.
  - eapply StronglySorted_map; [|apply (H e it); now left]. intros a b Hab. right. split; [reflexivity|exact Hab].
  - apply IH; [exact S'|]. intros e' it' Hin. apply (H e' it'). now right.
  - intros a b Ha Hb. apply in_map_iff in Ha. destruct Ha as [da [<- _]].
    apply in_flat_map in Hb. destruct Hb as [[e' it'] [Hin Hb]]. apply in_map_iff in Hb. destruct Hb as [db [<- _]].
    left. cbn [fst snd]. rewrite Forall_forall in F. specialize (F e' (in_map fst _ _ Hin)). lia.
Qed.

Theorem script_phrase_entries_sorted g t start predict :
  wf_graph g -> table_sorted t ->
  StronglySorted pe_le (script_phrase_entries (lookup g t start predict)).
Proof.
  intros W TS. unfold script_phrase_entries. apply phrase_entries_sorted_gen.
  - rewrite map_rev. apply StronglySorted_rev_lt. apply lookup_keys_sorted.
  - intros e it Hin. apply in_rev in Hin.
    destruct (lookup_iter_ok g t start predict e it W TS Hin) as [F M]. now apply drain_sorted.
Qed.

(** longer matches come before shorter ones *)
Corollary script_longer_first g t start predict :
  wf_graph g -> table_sorted t ->
  StronglySorted (fun a b => k_end b <= k_end a) (script_phrases (lookup g t start predict)).
Proof.
  intros W TS. unfold script_phrases. eapply StronglySorted_map; [|apply script_phrase_entries_sorted; assumption].
  intros a b [H|[H _]]; unfold phrase_cand; cbn [k_end]; lia.
Qed.

(** * the sentence *)
Inductive chain (g : graph) (t : table) : nat -> nat -> sentence -> Prop :=
| chain_nil : forall p, chain g t p p []
| chain_cons : forall pos e total d r,
    (exists w, table_has t (d_code d) (mkTE (d_text d) w)) -> spelled g (d_code d) pos e ->
    chain g t e total r -> chain g t pos total ((d, e) :: r).

Lemma dentry_in_spec d l :
  dentry_in d l = true <-> exists d', In d' l /\ d_text d = d_text d' /\ d_code d = d_code d'.
Proof.
  induction l as [|x r IH]; cbn; [split; [discriminate|intros [? [[] _]]]|].
  rewrite orb_true_iff, andb_true_iff, text_eqb_eq, code_eqb_eq, IH. split.
  - intros [[H1 H2]|[d' [H1 H2]]]; [exists x; auto|exists d'; auto].
  - intros [d' [[<-|H1] H2]]; [left; tauto|right; eauto].
Qed.

Lemma script_wgraph_at g t mh pos e d :
  In d (assoc_list e (assoc_list pos (script_wgraph g t mh))) ->
  exists it, In (e, it) (lookup g t pos false) /\ In d (drain_all it).
Proof.
  unfold script_wgraph, assoc_list at 2. induction (g_edges g) as [|[k v] l IH]; cbn [map assoc_nat fst]; [intros []|].
  destruct (pos =? k) eqn:E; [|exact IH]. apply Nat.eqb_eq in E. subst k. clear IH.
  unfold assoc_list. generalize (lookup g t pos false). intros coll.
  induction coll as [|[e' it] coll IH]; cbn [map assoc_nat fst snd]; [intros []|].
  destruct (e =? e') eqn:E.
  - apply Nat.eqb_eq in E. subst e'. intros H. exists it. split; [now left|]. eapply in_firstn, H.
  - intros H. destruct (IH H) as [it' [Hin Hd]]. exists it'. split; [now right|exact Hd].
Qed.

Section Sentence.
Variable poet : wgraph -> nat -> option sentence.
(* the only thing assumed of Poet: its answer is a chain of word-graph entries from 0 to the requested length *)
Hypothesis poet_chain : forall wg total s, poet wg total = Some s -> wg_path_ok wg 0 total s = true.

Lemma wg_path_chain g t mh : wf_graph g -> wf_table t -> forall s pos total,
  wg_path_ok (script_wgraph g t mh) pos total s = true -> chain g t pos total s.
Proof.
  intros W WT. induction s as [|[d e] r IH]; intros pos total H; cbn [wg_path_ok] in H.
  - apply Nat.eqb_eq in H. subst. constructor.
  - apply andb_true_iff in H. destruct H as [H1 H2]. apply dentry_in_spec in H1.
    destruct H1 as [d' [Hin [Ht Hc]]]. apply script_wgraph_at in Hin. destruct Hin as [it [Hl Hd]].
    assert (Hs : pos < g_ilen g).
    { destruct (le_lt_dec (g_ilen g) pos) as [Hge|Hlt]; [|exact Hlt]. rewrite lookup_start_out in Hl by exact Hge. destruct Hl. }
    assert (Hpe : In (e, d') (script_phrase_entries (lookup g t pos false))).
    { unfold script_phrase_entries. apply in_flat_map. exists (e, it). split; [now apply -> in_rev|].
      cbn [fst snd]. now apply in_map. }
    destruct (proj1 (script_entries_exact g t pos e (d_code d') (d_text d') W WT Hs)) as [w [Hth Hsp]]; [eauto|].
    rewrite <- Ht, <- Hc in *. constructor; [eauto|exact Hsp|]. now apply IH.
Qed.

(** the sentence ScriptTranslation shows is a concatenation of spelled entries covering the interpreted input *)
Theorem sentence_is_concatenation g t mh s :
  wf_graph g -> wf_table t ->
  poet (script_wgraph g t mh) (g_ilen g) = Some s -> chain g t 0 (g_ilen g) s.
Proof. intros W WT H. apply (wg_path_chain g t mh W WT). now apply poet_chain. Qed.

(** * nothing foreign *)
Definition phrase_ok (g : graph) (t : table) (c : cand) : Prop :=
  k_type c = TPhrase /\ k_start c = 0 /\ exists w, table_has t (k_code c) (mkTE (k_text c) w) /\ gpath g 0 (k_code c) (k_end c).

Definition completion_ok (g : graph) (t : table) (wordcompl : bool) (c : cand) : Prop :=
  k_type c = TCompletion /\ k_start c = 0 /\ wordcompl = true /\ g_ilen g = g_input_len g /\ k_end c = g_ilen g /\
  exists w m, table_has t (k_code c) (mkTE (k_text c) w) /\ 3 <= m < length (k_code c) /\
              gpath g 0 (firstn m (k_code c)) (g_ilen g).

Definition sentence_ok (g : graph) (t : table) (c : cand) : Prop :=
  exists s, chain g t 0 (g_ilen g) s /\ c = sentence_cand s.

Lemma d_predictive_mk ch te :
  chunk_wf ch -> d_predictive (mk_dentry ch te) = (c_match ch <? length (c_code ch)).
Proof.
  intros [H1 H2]. unfold d_predictive, mk_dentry. cbn [d_match d_code].
  destruct (c_match ch <? length (c_code ch)) eqn:E; [|reflexivity].
  destruct (c_match ch =? 0) eqn:E0; [apply Nat.eqb_eq in E0; lia|]. now rewrite E.
Qed.

Lemma script_phrases_sound g t predict c :
  wf_graph g -> wf_table t -> 0 < g_ilen g ->
  In c (script_phrases (lookup g t 0 predict)) ->
  phrase_ok g t c \/
  (k_type c = TCompletion /\ k_start c = 0 /\ predict = true /\ k_end c = g_ilen g /\
   exists w m, table_has t (k_code c) (mkTE (k_text c) w) /\ 3 <= m < length (k_code c) /\
               gpath g 0 (firstn m (k_code c)) (g_ilen g)).
Proof.
  intros W WT Hs Hin. unfold script_phrases in Hin. apply in_map_iff in Hin. destruct Hin as [[e d] [<- Hin]].
  apply script_phrase_entries_in in Hin; [|exact W]. destruct Hin as [ch [te [Hc [Hte ->]]]].
  destruct (collector_sound_predict g t 0 predict e ch te W WT Hs Hc Hte) as [Hth [[M1 M2] [Hg Hp]]].
  unfold phrase_cand. cbn [fst snd]. rewrite (d_predictive_mk ch te) by (unfold chunk_wf; lia).
  replace te with (mkTE (te_text te) (te_w te)) in Hth by now destruct te.
  destruct (c_match ch <? length (c_code ch)) eqn:E.
  - apply Nat.ltb_lt in E. destruct (Hp E) as [-> [-> M3]]. right. cbn [k_type k_start k_end k_text k_code mk_dentry d_text d_code].
    split; [reflexivity|]. split; [reflexivity|]. split; [reflexivity|]. split; [reflexivity|].
    exists (te_w te), (c_match ch). split; [exact Hth|]. split; [lia|exact Hg].
  - apply Nat.ltb_ge in E. assert (c_match ch = length (c_code ch)) by lia.
    left. unfold phrase_ok. cbn [k_type k_start k_end k_text k_code mk_dentry d_text d_code].
    split; [reflexivity|]. split; [reflexivity|].
    exists (te_w te). split; [exact Hth|]. rewrite H, firstn_all in Hg. exact Hg.
Qed.

(* what is used of the sentence maker: its answer on THIS word graph is a chain from 0 *)
Lemma script_no_foreign_candidate_local wordcompl mh g t c :
  wf_graph g -> wf_table t ->
  (forall s, poet (script_wgraph g t mh) (g_ilen g) = Some s -> wg_path_ok (script_wgraph g t mh) 0 (g_ilen g) s = true) ->
  In c (script_query poet wordcompl mh g t) ->
  phrase_ok g t c \/ completion_ok g t wordcompl c \/ sentence_ok g t c.
Proof.
  intros W WT Hpoet Hin. unfold script_query, script_translation in Hin.
  set (predict := wordcompl && (g_ilen g =? g_input_len g)) in *.
  destruct (lookup g t 0 predict) as [|x coll] eqn:EL; [destruct Hin|].
  assert (Hs : 0 < g_ilen g).
  { destruct (le_lt_dec (g_ilen g) 0) as [Hge|Hlt]; [|exact Hlt]. rewrite lookup_start_out in EL by exact Hge. discriminate. }
  apply distinct_incl in Hin. apply in_app_or in Hin. destruct Hin as [Hin|Hin].
  - right. right. destruct ((2 <=? length (g_edges g)) && negb (has_exact_at (rev (x :: coll)) (g_ilen g))); [|destruct Hin].
    destruct (poet (script_wgraph g t mh) (g_ilen g)) as [s|] eqn:EP; [|destruct Hin].
    destruct Hin as [<-|[]]. exists s. split; [|reflexivity]. apply (wg_path_chain g t mh W WT). now apply Hpoet.
  - rewrite <- EL in Hin. apply script_phrases_sound in Hin; try assumption.
    destruct Hin as [H|[H1 [H2 [H3 [H4 H5]]]]]; [now left|]. right. left.
    unfold predict in H3. apply andb_true_iff in H3. destruct H3 as [H3 H3']. apply Nat.eqb_eq in H3'.
    unfold completion_ok. auto 10.
Qed.

Theorem script_no_foreign_candidate wordcompl mh g t c :
  wf_graph g -> wf_table t ->
  In c (script_query poet wordcompl mh g t) ->
  phrase_ok g t c \/ completion_ok g t wordcompl c \/ sentence_ok g t c.
Proof.
  intros W WT. apply script_no_foreign_candidate_local; [exact W|exact WT|]. intros s. apply poet_chain.
Qed.

(** * every spelled entry is there *)
Lemma collector_complete g t start predict e c te :
  wf_graph g -> wf_table t -> start < g_ilen g ->
  table_has t c te -> gpath g start c e ->
  exists e' ch, e <= e' /\ In (e', ch) (lookup_chunks g t start predict) /\ c_code ch = c /\ In te (c_ents ch).
Proof.
  intros W WT Hs [[L Hte]|[L Hte]] Hg.
  - assert (NE : node_ents t c <> []) by (intros E; rewrite E in Hte; destruct Hte).
    destruct (proj2 (query_short_codes g t start c e W WT Hs L NE) Hg) as [cred Hq].
    exists e, (mkChunk c (node_ents t c) 0 (length c) cred). split; [lia|]. split; [|auto].
    apply lookup_chunks_in. exists e, (AccShort c (node_ents t c) cred). split; [exact Hq|]. cbn. now left.
  - rewrite <- (firstn_skipn 3 c) in Hg. apply gpath_app in Hg. destruct Hg as [e3 [Hg3 Hgx]].
    set (ic := firstn 3 c) in *. set (ex := skipn 3 c) in *.
    assert (NE : node_tail t ic <> []) by (intros E; rewrite E in Hte; destruct Hte).
    assert (NX : ex <> []) by (apply (wf_tail_extra t WT ic _ Hte)).
    assert (Hl3 : e3 < g_ilen g).
    { pose proof (gpath_lt g _ _ _ W NX Hgx). pose proof (gpath_end_le g _ _ _ W NX Hgx). lia. }
    assert (Hidx : exists index, In (e3, index) (g_indices g)).
    { inversion Hgx as [|? ? p ? ? [index [pl [Hi _]]] _]; subst; [congruence|eauto]. }
    destruct (proj2 (query_tail_pages g t start ic e3 W WT Hs NE) (conj Hg3 (conj Hl3 Hidx))) as [cred Hq].
    destruct (match_extra_complete g predict ex W 0 e3 e Hgx) as [S1 S2].
    destruct (match_extra g predict ex 0 e3) as [[ok d] e'] eqn:EM. cbn [fst snd] in S1, S2. subst ok.
    exists e', (mkChunk (ic ++ ex) [te] 0 (length ic + d) cred). split; [exact S2|].
    split; [|split; [unfold ic, ex; apply firstn_skipn|now left]].
    apply lookup_chunks_in. exists e3, (AccLong ic (node_tail t ic) cred). split; [exact Hq|].
    cbn [chunks_of_item snd fst]. apply in_flat_map. exists (mkLE ex te). split; [exact Hte|].
    cbn [le_extra le_ent]. rewrite EM. cbn [fst snd]. now left.
Qed.

Theorem script_contains_every_entry wordcompl mh g t c te e :
  wf_graph g -> wf_table t -> 0 < g_ilen g ->
  table_has t c te -> gpath g 0 c e ->
  exists k, In k (script_query poet wordcompl mh g t) /\ k_text k = te_text te.
Proof.
  intros W WT Hs Hth Hg. unfold script_query, script_translation.
  set (predict := wordcompl && (g_ilen g =? g_input_len g)).
  destruct (collector_complete g t 0 predict e c te W WT Hs Hth Hg) as [e' [ch [_ [Hc [Hcode Hte]]]]].
  assert (Hpe : In (phrase_cand (e', mk_dentry ch te)) (script_phrases (lookup g t 0 predict))).
  { unfold script_phrases. apply in_map. apply script_phrase_entries_in; [exact W|]. eauto. }
  destruct (lookup g t 0 predict) as [|x coll] eqn:EL; [destruct Hpe|].
  match goal with |- context [distinct [] (?s ++ ?p)] => set (sent := s); set (ph := p) in * end.
  destruct (distinct_complete (sent ++ ph) (phrase_cand (e', mk_dentry ch te))) as [k [Hk Ht]];
    [apply in_or_app; now right|].
  exists k. split; [exact Hk|]. rewrite Ht. reflexivity.
Qed.

End Sentence.

(** * same end position: non-increasing weight + credibility inside one exactness class *)
Lemma sorted_pair_inv {A} (R : A -> A -> Prop) l1 a l2 b l3 :
  StronglySorted R (l1 ++ a :: l2 ++ b :: l3) -> R a b.
Proof.
  induction l1 as [|x l1 IH]; cbn; intros S.
  - inversion S as [|? ? _ F]; subst. rewrite Forall_forall in F. apply F. apply in_or_app. right. now left.
  - inversion S; subst. now apply IH.
Qed.

Lemma script_entries_remlen g t start predict e d :
  wf_graph g -> In (e, d) (script_phrase_entries (lookup g t start predict)) -> d_remlen d = 0.
Proof.
  intros W Hin. apply script_phrase_entries_in in Hin; [|exact W]. destruct Hin as [ch [te [Hc [_ ->]]]].
  cbn [mk_dentry d_remlen]. apply lookup_chunks_in in Hc. destruct Hc as [e0 [a [_ Hc]]].
  destruct a as [ic ents cred|ic les cred]; cbn [chunks_of_item fst snd] in Hc.
  - destruct Hc as [Hc|[]]. injection Hc as _ <-. reflexivity.
  - apply in_flat_map in Hc. destruct Hc as [le [_ Hc]].
    destruct (fst (fst (match_extra g predict (le_extra le) 0 e0))); [|destruct Hc].
    destruct Hc as [Hc|[]]. injection Hc as _ <-. reflexivity.
Qed.

Theorem script_same_end_weight_order g t start predict l1 a l2 b l3 :
  wf_graph g -> table_sorted t ->
  script_phrase_entries (lookup g t start predict) = l1 ++ a :: l2 ++ b :: l3 ->
  fst a = fst b -> (d_match (snd a) =? 0) = (d_match (snd b) =? 0) ->
  (d_w (snd b) <= d_w (snd a))%Z.
Proof.
  intros W TS E Hend Hclass.
  pose proof (script_phrase_entries_sorted g t start predict W TS) as S. rewrite E in S.
  apply sorted_pair_inv in S. destruct S as [S|[_ S]]; [lia|].
  assert (Ra : d_remlen (snd a) = 0).
  { apply (script_entries_remlen g t start predict (fst a) (snd a) W). rewrite E. apply in_or_app. right. left. now destruct a. }
  assert (Rb : d_remlen (snd b) = 0).
  { apply (script_entries_remlen g t start predict (fst b) (snd b) W). rewrite E. apply in_or_app. right. right.
    apply in_or_app. right. left. now destruct b. }
  apply dle_same_class; [exact S|exact Hclass|congruence].
Qed.

(** * a candidate's range lies on a complete segmentation of the interpreted input *)
Theorem spelled_on_complete_segmentation g c e :
  graph_pruned g -> c <> [] -> gpath g 0 c e -> on_complete_segmentation g e.
Proof.
  intros P N H. split; [now exists c|].
  destruct c as [|x c] using rev_ind; [congruence|]. apply gpath_snoc in H. destruct H as [m [p [_ [He ->]]]].
  exact (P _ _ _ He).
Qed.
