(** C07 - the lookup code, ported function by function (no proofs here).

    dict/table.cc        TableQuery::{Access,Advance,Backdate,Walk}, Table::Query
    dict/dictionary.cc   Chunk, compare_chunk_by_head_element, match_extra_code, lookup_table,
                         DictEntryIterator::{AddChunk,Sort,Peek,FindNextEntry,Next,Skip}, Dictionary::{Lookup,LookupWords}
    gear/script_translator.cc  ScriptTranslation::{Evaluate,PrepareCandidate,Next,MakeSentence} (no user dictionary)
    gear/table_translator.cc   TableTranslation, LazyTableTranslation, TableTranslator::{Query,MakeSentence},
                               SentenceTranslation (no user dictionary, no encoder, no charset filter)
    translation.cc       DistinctTranslation
    gear/poet.cc         an oracle: a function from the word graph to an optional list of components.

    Weights and credibilities are exact integers (the float/double values scaled by 2^96): no theorem depends on
    rounding; the comparison [a.credibility + weight > b.credibility + weight] is the integer comparison. *)
From Coq Require Import List Arith ZArith NArith Bool.
From RimeV Require Import Lookup.Defs.
Import ListNotations.
Local Open Scope nat_scope.

(** * TableAccessor *)
Inductive accessor :=
| AccShort (ic : code) (ents : list tentry) (cred : Z)     (* entries_ : index code, List/Array of entries *)
| AccLong (ic : code) (ents : list lentry) (cred : Z).     (* long_entries_ : a tail page *)

Definition acc_exhausted (a : accessor) : bool :=
  match a with
  | AccShort _ [] _ => true
  | AccLong _ [] _ => true
  | _ => false
  end.

(** * TableQuery inside Table::Query.  [level_ = |index_code_|] and [credibility_.back()] is the sum of the
    credibilities of the advanced syllables, so a query state is (index code, credibility). *)

(* TableQuery::Access(syllable_id) at level 0..2 : credibility argument defaulted to 0.0 *)
Definition access (t : table) (ic : code) (s : syll) (cred : Z) : accessor :=
  AccShort (ic ++ [s]) (node_ents t (ic ++ [s])) cred.

(* TableQuery::Access(-1) at level 3 *)
Definition tail_access (t : table) (ic : code) (cred : Z) : accessor :=
  AccLong ic (node_tail t ic) cred.

(* TableQuery::Advance = Walk succeeds: the node exists and has a next level *)
Definition can_advance (t : table) (ic : code) (s : syll) : bool := node_next t (ic ++ [s]).

Definition qstate := (nat * code * Z)%type.      (* (current_pos, index_code_, credibility_.back()) *)

(** one iteration of the [while (!q.empty())] loop of Table::Query: (pushes into the result, pushes into q) *)
Definition step_state (g : graph) (t : table) (st : qstate) : list (nat * accessor) * list qstate :=
  let '(pos, ic, cred) := st in
  match assoc_nat pos (g_indices g) with
  | None => ([], [])
  | Some index =>
      if length ic =? 3 then
        let a := tail_access t ic cred in
        (if acc_exhausted a then [] else [(pos, a)], [])
      else
        (flat_map (fun sp : syll * list props =>
                     let a := access t ic (fst sp) cred in
                     flat_map (fun p : props => if acc_exhausted a then [] else [(p_end p, a)]) (snd sp)) index,
         flat_map (fun sp : syll * list props =>
                     flat_map (fun p : props =>
                                 if (p_end p <? g_ilen g) && can_advance t ic (fst sp)
                                 then [(p_end p, ic ++ [fst sp], (cred + p_cred p)%Z)] else []) (snd sp)) index)
  end.

Definition step_all (g : graph) (t : table) (sts : list qstate) : list (nat * accessor) * list qstate :=
  (flat_map (fun st => fst (step_state g t st)) sts, flat_map (fun st => snd (step_state g t st)) sts).

(** Table::Query.  The queue is FIFO and every pushed state is one level deeper than the popped one, so the
    states are processed generation by generation; a level-3 state pushes nothing: four generations. The
    result is the sequence of [result[end_pos].push_back(accessor)] calls in program order. *)
Definition query (g : graph) (t : table) (start : nat) : list (nat * accessor) :=
  if g_ilen g <=? start then [] else
  let r0 := step_all g t [(start, [], 0%Z)] in
  let r1 := step_all g t (snd r0) in
  let r2 := step_all g t (snd r1) in
  let r3 := step_all g t (snd r2) in
  fst r0 ++ fst r1 ++ fst r2 ++ fst r3.

(** * dictionary::Chunk *)
Record chunk := mkChunk { c_code : code; c_ents : list tentry (* entries[cursor..size) *); c_remlen : nat;
                          c_match : nat; c_cred : Z }.

Definition set_ents (c : chunk) (l : list tentry) : chunk :=
  mkChunk (c_code c) l (c_remlen c) (c_match c) (c_cred c).

Definition is_exact (c : chunk) : bool := c_match c =? length (c_code c).

(** compare_chunk_by_head_element *)
Definition chunk_lt (a b : chunk) : bool :=
  match c_ents a with
  | [] => false
  | ea :: _ =>
      match c_ents b with
      | [] => true
      | eb :: _ =>
          if negb (Bool.eqb (is_exact a) (is_exact b)) then is_exact a
          else if negb (c_remlen a =? c_remlen b) then c_remlen a <? c_remlen b
          else (c_cred b + te_w eb <? c_cred a + te_w ea)%Z
      end
  end.

(** match_extra_code: (success, depth, end_pos); [rest] is extra_code[depth..) *)
Definition cmatch := (bool * nat * nat)%type.
Definition k_failed : cmatch := (false, 0, 0).

Fixpoint match_extra (g : graph) (predict : bool) (rest : code) (depth pos : nat) : cmatch :=
  match rest with
  | [] => (true, depth, pos)
  | s :: rest' =>
      if g_ilen g <=? pos then (if predict then (true, depth, g_ilen g) else k_failed)
      else match assoc_nat pos (g_indices g) with
           | None => k_failed
           | Some index =>
               match assoc_nat s index with
               | None => k_failed
               | Some pl =>
                   fold_left (fun (best : cmatch) (p : props) =>
                                let m := match_extra g predict rest' (S depth) (p_end p) in
                                if fst (fst m) then (if snd best <? snd m then m else best) else best)
                             pl k_failed
               end
           end
  end.

(** the body of lookup_table's [for (TableAccessor& a : v.second)]: the AddChunk calls (collector key, chunk) *)
Definition chunks_of_item (g : graph) (predict : bool) (item : nat * accessor) : list (nat * chunk) :=
  let end_pos := fst item in
  match snd item with
  | AccShort ic ents cred => [(end_pos, mkChunk ic ents 0 (length ic) cred)]
  | AccLong ic les cred =>
      flat_map (fun le : lentry =>
                  let m := match_extra g predict (le_extra le) 0 end_pos in
                  if fst (fst m)
                  then [(snd m, mkChunk (ic ++ le_extra le) [le_ent le] 0 (length ic + snd (fst m)) cred)]
                  else []) les
  end.

(** DictEntryIterator::Sort = std::partial_sort(first, first+1, last, cmp): libstdc++'s __heap_select with a
    one-element heap: for every later element that compares less than the first, swap the two. *)
Fixpoint select_swap (cur : chunk) (rest : list chunk) : chunk * list chunk :=
  match rest with
  | [] => (cur, [])
  | x :: r =>
      if chunk_lt x cur
      then let br := select_swap x r in (fst br, cur :: snd br)
      else let br := select_swap cur r in (fst br, x :: snd br)
  end.

Definition sort_head (cs : list chunk) : list chunk :=
  match cs with
  | [] => []
  | c :: r => let br := select_swap c r in fst br :: snd br
  end.

(** Dictionary::Lookup (one table): DictEntryCollector as key-ordered list; an iterator is the list of its
    chunks from chunk_index_ on. *)
Definition lookup_chunks (g : graph) (t : table) (start : nat) (predict : bool) : list (nat * chunk) :=
  flat_map (fun ea : nat * list accessor =>
              flat_map (fun a => chunks_of_item g predict (fst ea, a)) (snd ea))
           (group (query g t start)).

Definition lookup (g : graph) (t : table) (start : nat) (predict : bool) : list (nat * list chunk) :=
  map (fun ec : nat * list chunk => (fst ec, sort_head (snd ec))) (group (lookup_chunks g t start predict)).

(** * DictEntryIterator *)
Record dentry := mkDE { d_text : text; d_code : code; d_w : Z (* weight + credibility; the constant kS is dropped *);
                        d_remlen : nat; d_match : nat }.

Definition mk_dentry (c : chunk) (e : tentry) : dentry :=
  mkDE (te_text e) (c_code c) (te_w e + c_cred c)%Z (c_remlen c)
       (if c_match c <? length (c_code c) then c_match c else 0).

Definition d_exact (d : dentry) : bool := (d_match d =? 0) || (d_match d =? length (d_code d)).
Definition d_predictive (d : dentry) : bool := negb (d_match d =? 0) && (d_match d <? length (d_code d)).

Definition iter_peek (it : list chunk) : option dentry :=
  match it with
  | [] => None
  | c :: _ => match c_ents c with [] => None | e :: _ => Some (mk_dentry c e) end
  end.

(** FindNextEntry: ++cursor; if the chunk is used up ++chunk_index_; unless exhausted, Sort() *)
Definition iter_next (it : list chunk) : list chunk :=
  match it with
  | [] => []
  | c :: r =>
      match c_ents c with
      | _ :: ((_ :: _) as tl) => sort_head (set_ents c tl :: r)
      | _ => sort_head r
      end
  end.

Definition total (it : list chunk) : nat := fold_right (fun c n => length (c_ents c) + n) 0 it.

Fixpoint drain (fuel : nat) (it : list chunk) : list dentry :=
  match fuel with
  | 0 => []
  | S f => match iter_peek it with
           | None => []
           | Some d => d :: drain f (iter_next it)
           end
  end.

Definition drain_all (it : list chunk) : list dentry := drain (total it) it.

(** DictEntryIterator::Skip on a fresh iterator *)
Fixpoint skip (it : list chunk) (n : nat) : list chunk :=
  match n with
  | 0 => it
  | _ => match it with
         | [] => []
         | c :: r => if n <? length (c_ents c) then set_ents c (skipn n (c_ents c)) :: r
                     else skip r (n - length (c_ents c))
         end
  end.

(** * candidates *)
Inductive ctype := TPhrase | TCompletion | TSentence | TTable.
Record cand := mkCand { k_type : ctype; k_start : nat; k_end : nat; k_text : text; k_code : code }.

(** * DistinctTranslation *)
Fixpoint text_mem (x : text) (l : list text) : bool :=
  match l with [] => false | y :: r => text_eqb x y || text_mem x r end.

Fixpoint distinct (seen : list text) (l : list cand) : list cand :=
  match l with
  | [] => []
  | c :: r => if text_mem (k_text c) seen then distinct seen r
              else c :: distinct (k_text c :: seen) r
  end.

(** * sentences (Poet is an oracle) *)
Definition wgraph := list (nat * list (nat * list dentry)).     (* WordGraph: start -> end -> entries *)
Definition sentence := list (dentry * nat).                     (* components with their end positions *)

Definition sentence_cand (s : sentence) : cand :=
  mkCand TSentence 0 (last (map snd s) 0) (flat_map (fun c => d_text (fst c)) s) (flat_map (fun c => d_code (fst c)) s).

Fixpoint dentry_in (d : dentry) (l : list dentry) : bool :=
  match l with
  | [] => false
  | x :: r => (text_eqb (d_text d) (d_text x) && code_eqb (d_code d) (d_code x)) || dentry_in d r
  end.

(** the type assumed of the oracle's answer: a chain of word-graph entries from [pos] to [total] *)
Fixpoint wg_path_ok (wg : wgraph) (pos total : nat) (s : sentence) : bool :=
  match s with
  | [] => pos =? total
  | (d, e) :: r => dentry_in d (assoc_list e (assoc_list pos wg)) && wg_path_ok wg e total r
  end.

(** positions Poet's dynamic programme reaches (it visits the start positions in ascending order and skips the
    single edge 0 -> total): used only to validate the oracle ("no sentence" iff the end is not reached) *)
Definition wg_reach (wg : wgraph) (total : nat) : list nat :=
  fold_left (fun (r : list nat) (se : nat * list (nat * list dentry)) =>
               if existsb (Nat.eqb (fst se)) r
               then r ++ flat_map (fun ee : nat * list dentry =>
                                     match snd ee with
                                     | [] => []
                                     | _ => if (fst se =? 0) && (fst ee =? total) then [] else [fst ee]
                                     end) (snd se)
               else r) wg [0].

Definition wg_has_path (wg : wgraph) (total : nat) : bool := existsb (Nat.eqb total) (wg_reach wg total).

Section WithPoet.
Variable poet : wgraph -> nat -> option sentence.

(** * ScriptTranslation (user dictionary absent) *)
(* the system phrases in the order ScriptTranslation::Next walks them: collector keys descending, each iterator drained *)
Definition script_phrase_entries (coll : list (nat * list chunk)) : list (nat * dentry) :=
  flat_map (fun ei : nat * list chunk => map (fun d => (fst ei, d)) (drain_all (snd ei))) (rev coll).

Definition phrase_cand (ed : nat * dentry) : cand :=
  mkCand (if d_predictive (snd ed) then TCompletion else TPhrase) 0 (fst ed) (d_text (snd ed)) (d_code (snd ed)).

Definition script_phrases (coll : list (nat * list chunk)) : list cand :=
  map phrase_cand (script_phrase_entries coll).

(** ScriptTranslation::MakeSentence's word graph: for every start vertex of the syllable graph the first
    max_homophones entries of every end position *)
Definition script_wgraph (g : graph) (t : table) (mh : nat) : wgraph :=
  map (fun x : nat * list (nat * list (syll * props)) =>
         (fst x, map (fun ei : nat * list chunk => (fst ei, firstn mh (drain_all (snd ei)))) (lookup g t (fst x) false)))
      (g_edges g).

Definition has_exact_at (rcoll : list (nat * list chunk)) (consumed : nat) : bool :=
  match rcoll with
  | [] => false
  | ei :: _ => (fst ei =? consumed) && match iter_peek (snd ei) with Some d => d_exact d | None => false end
  end.

(** Evaluate + Next/Peek until exhausted; None = Evaluate returned false (no translation) *)
Definition script_translation (wordcompl : bool) (mh : nat) (g : graph) (t : table) : option (list cand) :=
  let predict := wordcompl && (g_ilen g =? g_input_len g) in
  match lookup g t 0 predict with
  | [] => None
  | coll =>
      let sent :=
        if (2 <=? length (g_edges g)) && negb (has_exact_at (rev coll) (g_ilen g))
        then match poet (script_wgraph g t mh) (g_ilen g) with
             | Some s => [sentence_cand s]
             | None => []
             end
        else [] in
      Some (sent ++ script_phrases coll)
  end.

(** ScriptTranslator::Query *)
Definition script_query (wordcompl : bool) (mh : nat) (g : graph) (t : table) : list cand :=
  match script_translation wordcompl mh g t with
  | None => []
  | Some l => distinct [] l
  end.

(** * Prism queries as the table translator uses them *)
Fixpoint is_prefix (p s : text) : bool :=
  match p, s with
  | [], _ => true
  | x :: p', y :: s' => N.eqb x y && is_prefix p' s'
  | _ :: _, [] => false
  end.

(* Prism::ExpandSearch: the keys extending [key] in level order, at most [limit] when limit <> 0 *)
Definition expand_search (pr : prism) (key : text) (limit : nat) : list (text * list (syll * nat)) :=
  let ms := filter (fun ks : text * list (syll * nat) => is_prefix key (fst ks)) pr in
  if limit =? 0 then ms else firstn limit ms.

(* Prism::GetValue *)
Fixpoint exact_key (pr : prism) (key : text) : option (list (syll * nat)) :=
  match pr with
  | [] => None
  | ks :: r => if text_eqb (fst ks) key then Some (snd ks) else exact_key r key
  end.

(* Prism::CommonPrefixSearch: the keys that are prefixes of [s], ascending length *)
Definition common_prefix (pr : prism) (s : text) : list (text * list (syll * nat)) :=
  filter (fun ks : text * list (syll * nat) => negb (length (fst ks) =? 0) && is_prefix (fst ks) s) pr.

Definition syl_str (syls : list (nat * text)) (s : syll) : text :=
  match assoc_nat s syls with Some x => x | None => [] end.

(** Dictionary::LookupWords: (number of matching keys, chunks appended to the iterator) *)
Definition words_chunks (syls : list (nat * text)) (t : table) (code_length : nat) (mlen : nat)
           (sps : list (syll * nat)) : list chunk :=
  flat_map (fun st : syll * nat =>
              if 0 <? snd st then []                      (* type > kNormalSpelling *)
              else
                let remaining :=
                  if code_length <? mlen
                  then (let s := syl_str syls (fst st) in if code_length <? length s then skipn code_length s else [])
                  else [] in
                match node_ents t [fst st] with
                | [] => []
                | ents => [mkChunk [fst st] ents (length remaining) 1 0%Z]
                end) sps.

Definition lookup_words (pr : prism) (syls : list (nat * text)) (t : table) (inp : text) (predictive : bool)
           (limit : nat) : nat * list chunk :=
  if predictive then
    let keys := expand_search pr inp limit in
    (length keys, flat_map (fun ks => words_chunks syls t (length inp) (length (fst ks)) (snd ks)) keys)
  else
    match exact_key pr inp with
    | Some sps => (1, words_chunks syls t (length inp) 0 sps)
    | None => (0, [])
    end.

(** * TableTranslation / LazyTableTranslation *)
Definition table_cand (endp : nat) (d : dentry) : cand :=
  mkCand (if d_remlen d =? 0 then TTable else TCompletion) 0 endp (d_text d) (d_code d).

(* LazyTableTranslation state: iter_, limit_, iter_.entry_count() *)
Definition lazy_state := (list chunk * nat * nat)%type.

(* [presort] = the Sort() calls added to FetchMoreTableEntries / TableTranslator::Query by the repair of the
   "first candidate is not the best" defect (fix: 3b72e76); [presort = false] is the code before the repair *)
Definition maybe_sort (presort : bool) (cs : list chunk) : list chunk := if presort then sort_head cs else cs.

Definition fetch_more (presort : bool) (pr : prism) (syls : list (nat * text)) (t : table) (inp : text) (st : lazy_state)
  : lazy_state :=
  let '(it, limit, cnt) := st in
  if limit =? 0 then st
  else
    let r := lookup_words pr syls t inp true limit in
    let limit' := if fst r <? limit then 0 else limit * 10 in
    if cnt <? total (snd r) then (maybe_sort presort (skip (snd r) cnt), limit', total (snd r)) else (it, limit', cnt).

Fixpoint lazy_drain (presort : bool) (pr : prism) (syls : list (nat * text)) (t : table) (inp : text) (fuel : nat)
         (st : lazy_state) : list dentry :=
  match fuel with
  | 0 => []
  | S f =>
      let '(it, limit, cnt) := st in
      match iter_peek it with
      | None => []
      | Some d =>
          let it1 := iter_next it in
          let st1 := match it1 with [] => fetch_more presort pr syls t inp (it1, limit, cnt) | _ => (it1, limit, cnt) end in
          d :: lazy_drain presort pr syls t inp f st1
      end
  end.

Definition lazy_fuel (pr : prism) (syls : list (nat * text)) (t : table) (inp : text) : nat :=
  S (total (snd (lookup_words pr syls t inp true 0))).

Fixpoint trim_right (delims : text) (s : text) : text :=
  match s with
  | [] => []
  | x :: r => match trim_right delims r with
              | [] => if existsb (N.eqb x) delims then [] else [x]
              | r' => x :: r'
              end
  end.

(** consume_trailing_delimiters(pos, input, delimiters) *)
Fixpoint consume_delims (delims : text) (rest : text) (pos : nat) : nat :=
  match rest with
  | [] => pos
  | x :: r => if existsb (N.eqb x) delims then consume_delims delims r (S pos) else pos
  end.

(** TableTranslator::MakeSentence(input, start, include_prefix_phrases = true), no user dictionary, no encoder:
    state = (reachable vertices, word graph, collector of start position 0).  [mhg] = max_homographs; collect_entries
    appends the first (mhg - size) entries of the iterator; the iterator kept for the prefix phrases is untouched (it
    is looked up again since fix f0d9311; before, for mhg > 1, a shallow copy shared - and advanced - its cursors) *)
Definition ms_state := (list nat * wgraph * list (nat * list chunk))%type.

(* collector[consumed_length] = std::move(iter): std::map assignment - a second match with the same consumed length
   (a key that ends in delimiters) REPLACES the iterator stored before *)
Fixpoint coll_put (k : nat) (it : list chunk) (coll : list (nat * list chunk)) : list (nat * list chunk) :=
  match coll with
  | [] => [(k, it)]
  | (k', it') :: r => if k =? k' then (k, it) :: r else (k', it') :: coll_put k it r
  end.

Definition ms_at (mhg : nat) (pr : prism) (syls : list (nat * text)) (t : table) (delims : text) (inp : text)
           (st : ms_state) (start_pos : nat) : ms_state :=
  let '(verts, wg, coll) := st in
  if negb (existsb (Nat.eqb start_pos) verts) then st
  else
    let active := skipn start_pos inp in
    let matches := common_prefix pr active in
    (* for (m : reverse(matches)) *)
    let r := fold_left
               (fun (acc : list nat * list (nat * list dentry) * list (nat * list chunk)) (ks : text * list (syll * nat)) =>
                  let '(verts, same_start, coll) := acc in
                  let mlen := length (fst ks) in
                  let consumed := consume_delims delims (skipn mlen active) mlen in
                  let end_pos := start_pos + consumed in
                  let homographs := assoc_list end_pos same_start in
                  let same_start0 := match assoc_nat end_pos same_start with
                                     | Some _ => same_start
                                     | None => same_start ++ [(end_pos, [])]
                                     end in
                  if mhg <=? length homographs then (verts, same_start0, coll)
                  else
                    let it := snd (lookup_words pr syls t (firstn mlen active) false 0) in
                    match iter_peek it with
                    | None => (verts, same_start0, coll)
                    | Some _ =>
                        (end_pos :: verts,
                         map (fun eh : nat * list dentry =>
                                if fst eh =? end_pos
                                then (fst eh, snd eh ++ firstn (mhg - length homographs) (drain_all it)) else eh) same_start0,
                         if start_pos =? 0 then coll_put consumed it coll else coll)
                    end)
               (rev matches) (verts, [], coll) in
    let '(verts', same_start, coll') := r in
    (verts', wg ++ [(start_pos, same_start)], coll').

Definition table_ms (mhg : nat) (pr : prism) (syls : list (nat * text)) (t : table) (delims : text) (inp : text) : ms_state :=
  fold_left (ms_at mhg pr syls t delims inp) (seq 0 (length inp)) ([0], [], []).

Definition table_wgraph (mhg : nat) (pr : prism) (syls : list (nat * text)) (t : table) (delims : text) (inp : text) : wgraph :=
  snd (fst (table_ms mhg pr syls t delims inp)).

(* SentenceTranslation after the sentence: the collector by descending code length *)
Definition prefix_phrases (coll : list (nat * list chunk)) : list cand :=
  flat_map (fun ci : nat * list chunk =>
              map (fun d => mkCand TTable 0 (fst ci) (d_text d) (d_code d)) (drain_all (snd ci)))
           (rev (group (flat_map (fun ci : nat * list chunk => map (fun c => (fst ci, c)) (snd ci)) coll))).

Definition table_sentence (mhg : nat) (pr : prism) (syls : list (nat * text)) (t : table) (delims : text) (inp : text)
  : option (list cand) :=
  match poet (table_wgraph mhg pr syls t delims inp) (length inp) with
  | None => None
  | Some s => Some (sentence_cand s :: prefix_phrases (snd (table_ms mhg pr syls t delims inp)))
  end.

(** TableTranslator::Query *)
Definition table_entries (presort completion : bool) (pr : prism) (syls : list (nat * text)) (t : table) (code : text)
  : list dentry :=
  if completion
  then lazy_drain presort pr syls t code (lazy_fuel pr syls t code) (fetch_more presort pr syls t code ([], 10, 0))
  else drain_all (maybe_sort presort (snd (lookup_words pr syls t code false 0))).

Definition table_query_gen (presort completion sentence_on : bool) (mhg : nat) (pr : prism) (syls : list (nat * text))
           (t : table) (delims : text) (inp : text) : list cand :=
  let code := trim_right delims inp in
  match table_entries presort completion pr syls t code with
  | [] => if sentence_on then match table_sentence mhg pr syls t delims inp with
                              | Some l => distinct [] l
                              | None => []
                              end
          else []
  | ents => distinct [] (map (table_cand (length inp)) ents)
  end.

Definition table_query := table_query_gen true.

End WithPoet.
