(** C07 - proofs about Table::Query's walk (model in Lookup/Model.v). *)
From Coq Require Import List Arith ZArith NArith Bool Lia.
From RimeV Require Import Lookup.Defs Lookup.Model.
Import ListNotations.

Lemma query_out_of_range (g : graph) (t : table) (start : nat) :
  g_ilen g <= start -> query g t start = [].
Proof.
  intros H. unfold query. destruct (g_ilen g <=? start) eqn:E; [reflexivity|].
  apply Nat.leb_gt in E. lia.
Qed.
