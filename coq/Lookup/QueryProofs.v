(** C07 - Table::Query's breadth-first walk returns exactly the index codes that label a path of the graph. *)
From Coq Require Import List Arith ZArith NArith Bool Lia.
From RimeV Require Import Lookup.Defs Lookup.Model Lookup.Spec Lookup.MapProofs.
Import ListNotations.

(** * paths *)
Lemma gpath_app g s a b e : gpath g s (a ++ b) e <-> exists m, gpath g s a m /\ gpath g m b e.
Proof.
  revert s. induction a as [|x a IH]; intros s; cbn [app].
  - split.
    + intros H. exists s. split; [constructor|exact H].
    + intros [m [H1 H2]]. inversion H1; subst. exact H2.
  - split.
    + intros H. inversion H as [|? ? p ? ? He Hr]; subst. apply IH in Hr. destruct Hr as [m [H1 H2]].
      exists m. split; [econstructor; eassumption|exact H2].
    + intros [m [H1 H2]]. inversion H1 as [|? ? p ? ? He Hr]; subst.
      econstructor; [exact He|]. apply IH. eauto.
Qed.

Lemma gpath_single g s x e : gpath g s [x] e <-> exists p, has_edge g s x p /\ e = p_end p.
Proof.
  split.
  - intros H. inversion H as [|? ? p ? ? He Hr]; subst. inversion Hr; subst. eauto.
  - intros [p [He ->]]. econstructor; [exact He|constructor].
Qed.

Lemma gpath_snoc g s ic x e :
  gpath g s (ic ++ [x]) e <-> exists m p, gpath g s ic m /\ has_edge g m x p /\ e = p_end p.
Proof.
  rewrite gpath_app. split.
  - intros [m [H1 H2]]. apply gpath_single in H2. destruct H2 as [p [He ->]]. eauto.
  - intros [m [p [H1 [He ->]]]]. exists m. split; [exact H1|]. apply gpath_single. eauto.
Qed.

Lemma gpath_le g s c e : wf_graph g -> gpath g s c e -> s <= e.
Proof.
  intros W H. induction H as [|s x p rest e He Hr IH]; [lia|].
  apply (wf_forward g W) in He. lia.
Qed.

Lemma gpath_lt g s c e : wf_graph g -> c <> [] -> gpath g s c e -> s < e.
Proof.
  intros W N H. destruct H as [|s x p rest e He Hr]; [congruence|].
  pose proof (gpath_le g _ _ _ W Hr). apply (wf_forward g W) in He. lia.
Qed.

Lemma gpath_end_le g s c e : wf_graph g -> c <> [] -> gpath g s c e -> e <= g_ilen g.
Proof.
  intros W N H. induction H as [|s x p rest e He Hr IH]; [congruence|].
  destruct rest as [|y rest].
  - inversion Hr; subst. apply (wf_forward g W) in He. lia.
  - apply IH. discriminate.
Qed.

(** * lookups in a well-formed graph *)
Lemma assoc_index g pos index :
  wf_graph g -> (assoc_nat pos (g_indices g) = Some index <-> In (pos, index) (g_indices g)).
Proof.
  intros W. split; [apply assoc_nat_in|]. apply in_assoc_nat_nodup. exact (wf_idx_nodup g W).
Qed.

Lemma assoc_syll g pos index x pl :
  wf_graph g -> In (pos, index) (g_indices g) -> (assoc_nat x index = Some pl <-> In (x, pl) index).
Proof.
  intros W Hi. split; [apply assoc_nat_in|]. apply in_assoc_nat_nodup. exact (wf_syl_nodup g W _ _ Hi).
Qed.

Lemma indices_functional g pos i1 i2 :
  wf_graph g -> In (pos, i1) (g_indices g) -> In (pos, i2) (g_indices g) -> i1 = i2.
Proof.
  intros W H1 H2. apply (assoc_index g pos i1 W) in H1. apply (assoc_index g pos i2 W) in H2. congruence.
Qed.

(** * one iteration of the loop *)
Lemma step_state_results g t pos ic cred e a :
  wf_graph g -> length ic <> 3 ->
  (In (e, a) (fst (step_state g t (pos, ic, cred))) <->
   exists x p, has_edge g pos x p /\ e = p_end p /\ a = access t ic x cred /\ acc_exhausted a = false).
Proof.
  intros W L. unfold step_state.
  destruct (assoc_nat pos (g_indices g)) as [index|] eqn:EA.
  - apply (assoc_index g pos index W) in EA.
    destruct (length ic =? 3) eqn:E3; [apply Nat.eqb_eq in E3; contradiction|]. cbn [fst].
    rewrite in_flat_map. split.
    + intros [[x pl] [Hx Hin]]. cbn [fst snd] in Hin. apply in_flat_map in Hin. destruct Hin as [p [Hp Hin]].
      destruct (acc_exhausted (access t ic x cred)) eqn:EX; [destruct Hin|].
      destruct Hin as [Hin|[]]. injection Hin as <- <-.
      exists x, p. repeat split; try assumption. exists index, pl. auto.
    + intros [x [p [[index' [pl [Hi [Hx Hp]]]] [-> [-> EX]]]]].
      pose proof (indices_functional g pos index index' W EA Hi). subst index'.
      exists (x, pl). split; [exact Hx|]. cbn [fst snd]. apply in_flat_map. exists p. split; [exact Hp|].
      rewrite EX. now left.
  - cbn. split; [intros []|]. intros [x [p [[index' [pl [Hi _]]] _]]].
    apply (assoc_index g pos index' W) in Hi. congruence.
Qed.

Lemma step_state_next g t pos ic cred st' :
  wf_graph g -> length ic <> 3 ->
  (In st' (snd (step_state g t (pos, ic, cred))) <->
   exists x p, has_edge g pos x p /\ p_end p < g_ilen g /\ node_next t (ic ++ [x]) = true /\
               st' = (p_end p, ic ++ [x], (cred + p_cred p)%Z)).
Proof.
  intros W L. unfold step_state.
  destruct (assoc_nat pos (g_indices g)) as [index|] eqn:EA.
  - apply (assoc_index g pos index W) in EA.
    destruct (length ic =? 3) eqn:E3; [apply Nat.eqb_eq in E3; contradiction|]. cbn [snd].
    rewrite in_flat_map. split.
    + intros [[x pl] [Hx Hin]]. cbn [fst snd] in Hin. apply in_flat_map in Hin. destruct Hin as [p [Hp Hin]].
      destruct ((p_end p <? g_ilen g) && can_advance t ic x) eqn:EC; [|destruct Hin].
      apply andb_true_iff in EC. destruct EC as [E1 E2]. apply Nat.ltb_lt in E1.
      destruct Hin as [Hin|[]]. subst st'. exists x, p. repeat split; try assumption. exists index, pl. auto.
    + intros [x [p [[index' [pl [Hi [Hx Hp]]]] [E1 [E2 ->]]]]].
      pose proof (indices_functional g pos index index' W EA Hi). subst index'.
      exists (x, pl). split; [exact Hx|]. cbn [fst snd]. apply in_flat_map. exists p. split; [exact Hp|].
      apply Nat.ltb_lt in E1. unfold can_advance. rewrite E1, E2. now left.
  - cbn. split; [intros []|]. intros [x [p [[index' [pl [Hi _]]] _]]].
    apply (assoc_index g pos index' W) in Hi. congruence.
Qed.

Lemma step_state_results3 g t pos ic cred e a :
  wf_graph g -> length ic = 3 ->
  (In (e, a) (fst (step_state g t (pos, ic, cred))) <->
   (exists index, In (pos, index) (g_indices g)) /\ e = pos /\ a = tail_access t ic cred /\ acc_exhausted a = false).
Proof.
  intros W L. unfold step_state.
  destruct (assoc_nat pos (g_indices g)) as [index|] eqn:EA.
  - apply (assoc_index g pos index W) in EA. rewrite L. cbn [Nat.eqb fst].
    destruct (acc_exhausted (tail_access t ic cred)) eqn:EX.
    + split; [intros []|]. intros [_ [_ [-> H]]]. congruence.
    + split.
      * intros [H|[]]. injection H as <- <-. eauto.
      * intros [_ [-> [-> _]]]. now left.
  - cbn. split; [intros []|]. intros [[index' Hi] _]. apply (assoc_index g pos index' W) in Hi. congruence.
Qed.

Lemma step_state_next3 g t pos ic cred : length ic = 3 -> snd (step_state g t (pos, ic, cred)) = [].
Proof.
  intros L. unfold step_state. destruct (assoc_nat pos (g_indices g)); [|reflexivity].
  rewrite L. reflexivity.
Qed.

(** * generations of the queue *)
Fixpoint gen (g : graph) (t : table) (start : nat) (k : nat) : list qstate :=
  match k with
  | 0 => [(start, [], 0%Z)]
  | S k' => snd (step_all g t (gen g t start k'))
  end.

Lemma query_gens g t start :
  start < g_ilen g ->
  query g t start = flat_map (fun k => fst (step_all g t (gen g t start k))) [0; 1; 2; 3].
Proof.
  intros H. unfold query. destruct (g_ilen g <=? start) eqn:E; [apply Nat.leb_le in E; lia|].
  cbn [flat_map gen]. now rewrite app_nil_r.
Qed.

Lemma wpath_inv g t start c pos cred :
  wpath g t start c pos cred ->
  (c = [] /\ pos = start /\ cred = 0%Z) \/
  (exists ic pos0 cred0 x p, c = ic ++ [x] /\ wpath g t start ic pos0 cred0 /\ has_edge g pos0 x p /\
     p_end p < g_ilen g /\ node_next t (ic ++ [x]) = true /\ pos = p_end p /\ cred = (cred0 + p_cred p)%Z).
Proof. destruct 1; [left; auto|right]. do 5 eexists. repeat split; eauto. Qed.

Lemma gen_spec g t start k pos ic cred :
  wf_graph g -> k <= 3 ->
  (In (pos, ic, cred) (gen g t start k) <-> length ic = k /\ wpath g t start ic pos cred).
Proof.
  intros W. revert pos ic cred. induction k as [|k IH]; intros pos ic cred Hk.
  - cbn [gen]. split.
    + intros [H|[]]. injection H as <- <- <-. split; [reflexivity|constructor].
    + intros [L H]. apply wpath_inv in H. destruct H as [[-> [-> ->]]|H]; [now left|].
      destruct H as [ic0 [? [? [x [? [-> _]]]]]]. rewrite app_length in L. cbn in L. lia.
  - cbn [gen]. unfold step_all. cbn [snd]. rewrite in_flat_map. split.
    + intros [[[pos0 ic0] cred0] [Hin Hst]]. apply IH in Hin; [|lia]. destruct Hin as [L0 W0].
      apply step_state_next in Hst; [|exact W|lia].
      destruct Hst as [x [p [He [Hl [Hn Heq]]]]]. injection Heq as -> -> ->.
      split; [rewrite app_length; cbn; lia|]. eapply wp_snoc; eassumption.
    + intros [L H]. apply wpath_inv in H. destruct H as [[-> _]|H]; [cbn in L; lia|].
      destruct H as [ic0 [pos0 [cred0 [x [p [-> [W0 [He [Hl [Hn [-> ->]]]]]]]]]]].
      rewrite app_length in L. cbn in L.
      exists (pos0, ic0, cred0). split; [apply IH; [lia|split; [lia|exact W0]]|].
      apply step_state_next; [exact W|lia|]. exists x, p. auto.
Qed.

(** * Table::Query: what it returns, exactly *)
Definition short_result (g : graph) (t : table) (start e : nat) (a : accessor) : Prop :=
  exists ic pos cred x p,
    wpath g t start ic pos cred /\ length ic < 3 /\ has_edge g pos x p /\ e = p_end p /\
    a = AccShort (ic ++ [x]) (node_ents t (ic ++ [x])) cred /\ node_ents t (ic ++ [x]) <> [].

Definition long_result (g : graph) (t : table) (start e : nat) (a : accessor) : Prop :=
  exists ic cred,
    wpath g t start ic e cred /\ length ic = 3 /\ (exists index, In (e, index) (g_indices g)) /\
    a = AccLong ic (node_tail t ic) cred /\ node_tail t ic <> [].

Lemma acc_short_exhausted ic l cred : acc_exhausted (AccShort ic l cred) = false <-> l <> [].
Proof. destruct l; cbn; split; congruence. Qed.
Lemma acc_long_exhausted ic l cred : acc_exhausted (AccLong ic l cred) = false <-> l <> [].
Proof. destruct l; cbn; split; congruence. Qed.

Theorem query_sound_complete g t start e a :
  wf_graph g -> start < g_ilen g ->
  (In (e, a) (query g t start) <-> short_result g t start e a \/ long_result g t start e a).
Proof.
  intros W Hs. rewrite query_gens by exact Hs. rewrite in_flat_map. split.
  - intros [k [Hk Hin]]. assert (K : k <= 3) by (cbn in Hk; lia).
    unfold step_all in Hin. cbn [fst] in Hin. apply in_flat_map in Hin.
    destruct Hin as [[[pos ic] cred] [Hst Hin]]. apply (gen_spec g t start k pos ic cred W K) in Hst.
    destruct Hst as [L Wp]. destruct (Nat.eq_dec k 3) as [->|N3].
    + right. apply step_state_results3 in Hin; [|exact W|exact L].
      destruct Hin as [Hi [-> [-> EX]]]. unfold tail_access in *. apply acc_long_exhausted in EX.
      exists ic, cred. auto.
    + left. apply step_state_results in Hin; [|exact W|lia].
      destruct Hin as [x [p [He [-> [-> EX]]]]]. unfold access in *. apply acc_short_exhausted in EX.
      exists ic, pos, cred, x, p. repeat split; auto. lia.
  - intros [[ic [pos [cred [x [p [Wp [L [He [-> [-> NE]]]]]]]]]]|[ic [cred [Wp [L [Hi [-> NE]]]]]]].
    + exists (length ic). split; [cbn; lia|]. unfold step_all. cbn [fst]. apply in_flat_map.
      exists (pos, ic, cred). split; [apply gen_spec; [exact W|lia|auto]|].
      apply step_state_results; [exact W|lia|]. exists x, p. repeat split; auto.
      unfold access. now apply acc_short_exhausted.
    + exists 3. split; [cbn; auto|]. unfold step_all. cbn [fst]. apply in_flat_map.
      exists (e, ic, cred). split; [apply gen_spec; [exact W|lia|auto]|].
      apply step_state_results3; [exact W|exact L|]. repeat split; auto.
      unfold tail_access. now apply acc_long_exhausted.
Qed.

Lemma query_out_of_range (g : graph) (t : table) (start : nat) :
  g_ilen g <= start -> query g t start = [].
Proof.
  intros H. unfold query. destruct (g_ilen g <=? start) eqn:E; [reflexivity|].
  apply Nat.leb_gt in E. lia.
Qed.

(** * the walk relation against plain graph paths *)
Lemma wpath_gpath g t start ic pos cred : wpath g t start ic pos cred -> gpath g start ic pos.
Proof.
  induction 1 as [|ic pos cred x p Wp IH He Hl Hn]; [constructor|].
  apply gpath_snoc. eauto.
Qed.

Lemma wpath_pos_lt g t start ic pos cred :
  start < g_ilen g -> wpath g t start ic pos cred -> pos < g_ilen g.
Proof. intros Hs. destruct 1; assumption. Qed.

(** every non-empty prefix of [c] leads to a node with a next level *)
Definition advanceable (t : table) (c : code) : Prop :=
  forall c' r, c = c' ++ r -> c' <> [] -> node_next t c' = true.

Lemma gpath_wpath g t start ic pos :
  wf_graph g -> start < g_ilen g -> gpath g start ic pos -> pos < g_ilen g -> advanceable t ic ->
  exists cred, wpath g t start ic pos cred.
Proof.
  intros W Hs. revert pos. induction ic as [|x ic IH] using rev_ind; intros pos Hp Hl Ha.
  - inversion Hp; subst. exists 0%Z. constructor.
  - apply gpath_snoc in Hp. destruct Hp as [m [p [Hp [He ->]]]].
    pose proof (wf_forward g W _ _ _ He) as Hf.
    destruct (IH m Hp) as [cred Wp]; [lia| |].
    + intros c' r E N. apply (Ha c' (r ++ [x])); [|exact N]. rewrite E. now rewrite app_assoc.
    + exists (cred + p_cred p)%Z. eapply wp_snoc; eauto. apply (Ha (ic ++ [x]) []); [now rewrite app_nil_r|].
      now destruct ic.
Qed.

(** index codes of at most three syllables: the accessor of [c] is returned at [e] iff [c] labels a path start -> e *)
Corollary query_short_codes g t start c e :
  wf_graph g -> wf_table t -> start < g_ilen g -> 1 <= length c <= 3 -> node_ents t c <> [] ->
  ((exists cred, In (e, AccShort c (node_ents t c) cred) (query g t start)) <-> gpath g start c e).
Proof.
  intros W WT Hs L NE. split.
  - intros [cred Hin]. apply query_sound_complete in Hin; [|exact W|exact Hs].
    destruct Hin as [[ic [pos [cr [x [p [Wp [Li [He [-> [E _]]]]]]]]]]|[ic [cr [_ [_ [_ [E _]]]]]]]; [|discriminate].
    injection E as -> _ _. apply gpath_snoc. exists pos, p. split; [eapply wpath_gpath; eassumption|auto].
  - intros Hp. destruct c as [|x0 c0] using rev_ind; [cbn in L; lia|]. clear IHc0.
    rewrite app_length in L. cbn in L.
    apply gpath_snoc in Hp. destruct Hp as [m [p [Hp [He ->]]]].
    pose proof (wf_forward g W _ _ _ He) as Hf.
    destruct (gpath_wpath g t start c0 m W Hs Hp) as [cred Wp]; [lia| |].
    + intros c' r E N. apply (wf_prefix_closed t WT (c0 ++ [x0]) c'); [now left| |exact N].
      exists (r ++ [x0]). split; [now destruct r|]. rewrite E. now rewrite app_assoc.
    + exists cred. apply query_sound_complete; [exact W|exact Hs|]. left.
      exists c0, m, cred, x0, p. repeat split; auto. lia.
Qed.

(** codes longer than three syllables: the tail page of [ic] is returned at [e] iff [ic] labels a path start -> e
    that stops before the end of the interpreted input *)
Corollary query_tail_pages g t start ic e :
  wf_graph g -> wf_table t -> start < g_ilen g -> node_tail t ic <> [] ->
  ((exists cred, In (e, AccLong ic (node_tail t ic) cred) (query g t start)) <->
   gpath g start ic e /\ e < g_ilen g /\ exists index, In (e, index) (g_indices g)).
Proof.
  intros W WT Hs NE. pose proof (wf_tail_len t WT ic NE) as L3. split.
  - intros [cred Hin]. apply query_sound_complete in Hin; [|exact W|exact Hs].
    destruct Hin as [[ic0 [pos [cr [x [p [_ [_ [_ [_ [E _]]]]]]]]]]|[ic0 [cr [Wp [L [Hi [E _]]]]]]]; [discriminate|].
    injection E as -> _ _. split; [eapply wpath_gpath; eassumption|]. split; [|exact Hi].
    eapply wpath_pos_lt; eassumption.
  - intros [Hp [Hl Hi]].
    destruct (gpath_wpath g t start ic e W Hs Hp Hl) as [cred Wp].
    + intros c' r E N. destruct r as [|y r].
      * rewrite app_nil_r in E. subst c'. now apply (wf_tail_next t WT).
      * apply (wf_prefix_closed t WT ic c'); [now right| |exact N]. exists (y :: r). split; [discriminate|exact E].
    + exists cred. apply query_sound_complete; [exact W|exact Hs|]. right. exists ic, cred. auto.
Qed.
