(** C07 - non-vacuity: a concrete graph, table and prism that meet the hypotheses of the theorems, and what the
    model computes on them (codes of 1, 2, 4 and 5 syllables, the tail page, two entries under one code). *)
From Coq Require Import List Arith ZArith NArith Bool Lia Sorted.
From RimeV Require Import Lookup.Defs Lookup.Model Lookup.Spec Lookup.MapProofs Lookup.QueryProofs Lookup.IterProofs
     Lookup.LookupProofs Lookup.ScriptProofs.
Import ListNotations.

(* the input "aaaaa" under the syllabary {a}: a chain of five edges labelled with syllable 0 *)
Definition pr (e : nat) : props := mkProps e 0 0%Z false.
Definition ex_g : graph :=
  mkGraph 5 5
    [(0, [(1, [(0, pr 1)])]); (1, [(2, [(0, pr 2)])]); (2, [(3, [(0, pr 3)])]); (3, [(4, [(0, pr 4)])]); (4, [(5, [(0, pr 5)])])]
    [(0, [(0, [pr 1])]); (1, [(0, [pr 2])]); (2, [(0, [pr 3])]); (3, [(0, [pr 4])]); (4, [(0, [pr 5])])].

(* a : X 5, Y 3    a a : XX 4    a a a a : W 2    a a a a a : Z 7   (tail page under a a a, sorted by weight) *)
Definition tX := mkTE [88%N] 5%Z.
Definition tY := mkTE [89%N] 3%Z.
Definition tXX := mkTE [88%N; 88%N] 4%Z.
Definition tZ := mkTE [90%N] 7%Z.
Definition tW := mkTE [87%N] 2%Z.
Definition ex_t : table :=
  [mkNode [0] [tX; tY] true []; mkNode [0; 0] [tXX] true []; mkNode [0; 0; 0] [] true [mkLE [0; 0] tZ; mkLE [0] tW]].

Lemma ex_has_edge s x p : has_edge ex_g s x p <-> x = 0 /\ s < 5 /\ p = pr (S s).
Proof.
  unfold has_edge. split.
  - intros [index [pl [Hi [Hx Hp]]]]. cbn in Hi.
    repeat (destruct Hi as [Hi|Hi]; [injection Hi as <- <-; destruct Hx as [Hx|[]]; injection Hx as <- <-;
                                     destruct Hp as [<-|[]]; repeat split; lia|]). destruct Hi.
  - intros [-> [Hs ->]]. exists [(0, [pr (S s)])], [pr (S s)].
    split; [|split; now left]. cbn.
    destruct s as [|[|[|[|[|s]]]]]; [now left|right; now left|right; right; now left|right; right; right; now left|
                                     right; right; right; right; now left|lia].
Qed.

Lemma ex_g_wf : wf_graph ex_g.
Proof.
  constructor.
  - cbn. repeat (constructor; [cbn; intuition lia|]). constructor.
  - intros s index Hi. cbn in Hi.
    repeat (destruct Hi as [Hi|Hi]; [injection Hi as <- <-; cbn; repeat constructor; intros []|]). destruct Hi.
  - intros s x p He. apply ex_has_edge in He. destruct He as [-> [Hs ->]]. cbn. lia.
Qed.

Lemma ex_g_pruned : graph_pruned ex_g.
Proof.
  intros s x p He. apply ex_has_edge in He. destruct He as [-> [Hs ->]]. cbn [p_end pr g_ilen ex_g].
  assert (G : forall k e, e + k = 5 -> gpath ex_g e (repeat 0 k) 5).
  { induction k as [|k IH]; intros e E; cbn.
    - assert (e = 5) by lia. subst. constructor.
    - apply (gp_cons ex_g e 0 (pr (S e))); [apply ex_has_edge; repeat split; lia|]. apply IH. cbn. lia. }
  exists (repeat 0 (5 - S s)). apply G. lia.
Qed.

Lemma find_node_some t c n : find_node t c = Some n -> In n t /\ n_code n = c.
Proof.
  induction t as [|m t IH]; cbn; [discriminate|]. destruct (code_eqb (n_code m) c) eqn:E.
  - apply code_eqb_eq in E. intros H. injection H as <-. split; [now left|exact E].
  - intros H. destruct (IH H) as [H1 H2]. split; [now right|exact H2].
Qed.

Lemma ex_node_cases c n : find_node ex_t c = Some n -> c = [0] \/ c = [0; 0] \/ c = [0; 0; 0].
Proof.
  intros H. apply find_node_some in H. destruct H as [Hin E]. subst c. cbn in Hin.
  destruct Hin as [E|[E|[E|[]]]]; subst n; cbn; auto.
Qed.

Lemma ex_t_wf : wf_table ex_t.
Proof.
  assert (C : forall c, (node_ents ex_t c <> [] \/ node_tail ex_t c <> [] ) -> c = [0] \/ c = [0; 0] \/ c = [0; 0; 0]).
  { intros c H. unfold node_ents, node_tail in H. destruct (find_node ex_t c) as [n|] eqn:E; [eapply ex_node_cases; exact E|].
    destruct H as [H|H]; congruence. }
  constructor.
  - intros c c' H [r [Nr E]] Nc. apply C in H. destruct c' as [|a c']; [congruence|]. destruct r as [|b r]; [congruence|].
    destruct H as [-> | [-> | ->]].
    + destruct c'; discriminate.
    + destruct c' as [|a2 c']; [|destruct c'; discriminate]. injection E as <- _. reflexivity.
    + destruct c' as [|a2 c']; [injection E as <- _; reflexivity|].
      destruct c' as [|a3 c']; [injection E as <- <- _; reflexivity|]. destruct c'; discriminate.
  - intros c H. destruct (C c (or_intror H)) as [-> | [-> | ->]]; cbn in *; congruence.
  - intros c H. destruct (C c (or_intror H)) as [-> | [-> | ->]]; cbn in *; congruence.
  - intros c le H. assert (N : node_tail ex_t c <> []) by (intros E; rewrite E in H; destruct H).
    destruct (C c (or_intror N)) as [-> | [-> | ->]]; cbn in H; try contradiction.
    destruct H as [<-|[<-|[]]]; cbn; discriminate.
Qed.

Lemma ex_t_sorted : table_sorted ex_t.
Proof.
  intros c. unfold node_ents, weights_sorted. destruct (find_node ex_t c) as [n|] eqn:E; [|constructor].
  apply find_node_some in E. destruct E as [Hin _]. cbn in Hin.
  destruct Hin as [<-|[<-|[<-|[]]]]; cbn; repeat (constructor; cbn; try lia).
Qed.

(** what Table::Query returns from position 0 (end position, index code) *)
Example ex_query :
  map (fun ea => (fst ea, match snd ea with AccShort ic _ _ => ic | AccLong ic _ _ => ic end)) (query ex_g ex_t 0)
  = [(1, [0]); (2, [0; 0]); (3, [0; 0; 0])].
Proof. reflexivity. Qed.

(** the phrase candidates, longest first; X before Y (weights 5, 3) *)
Example ex_script_phrases :
  map (fun c => (k_end c, k_text c, k_code c)) (script_phrases (lookup ex_g ex_t 0 false))
  = [(5, [90%N], [0; 0; 0; 0; 0]); (4, [87%N], [0; 0; 0; 0]); (2, [88%N; 88%N], [0; 0]); (1, [88%N], [0]); (1, [89%N], [0])].
Proof. reflexivity. Qed.

(** on the input "aaaa" (interpreted length 4) with word completion: Z (5 syllables) is offered as a completion *)
Definition ex_g4 : graph :=
  mkGraph 4 4
    [(0, [(1, [(0, pr 1)])]); (1, [(2, [(0, pr 2)])]); (2, [(3, [(0, pr 3)])]); (3, [(4, [(0, pr 4)])])]
    [(0, [(0, [pr 1])]); (1, [(0, [pr 2])]); (2, [(0, [pr 3])]); (3, [(0, [pr 4])])].

Example ex_script_completion :
  map (fun c => (k_type c, k_end c, k_text c)) (script_phrases (lookup ex_g4 ex_t 0 true))
  = [(TPhrase, 4, [87%N]); (TCompletion, 4, [90%N]); (TPhrase, 2, [88%N; 88%N]); (TPhrase, 1, [88%N]); (TPhrase, 1, [89%N])].
Proof. reflexivity. Qed.

(** the hypotheses of the theorems are met by this instance, and their conclusions are not vacuous *)
Theorem example_meets_hypotheses :
  wf_graph ex_g /\ graph_pruned ex_g /\ wf_table ex_t /\ table_sorted ex_t /\ 0 < g_ilen ex_g /\
  table_has ex_t [0; 0; 0; 0; 0] tZ /\ spelled ex_g [0; 0; 0; 0; 0] 0 5 /\
  In (mkCand TPhrase 0 5 [90%N] [0; 0; 0; 0; 0]) (script_phrases (lookup ex_g ex_t 0 false)).
Proof.
  split; [exact ex_g_wf|]. split; [exact ex_g_pruned|]. split; [exact ex_t_wf|]. split; [exact ex_t_sorted|].
  split; [cbn; lia|].
  assert (In (mkCand TPhrase 0 5 [90%N] [0; 0; 0; 0; 0]) (script_phrases (lookup ex_g ex_t 0 false))) as Hin
      by (vm_compute; now left).
  pose proof (proj1 (script_candidates_exact ex_g ex_t 5 [0;0;0;0;0] [90%N] ex_g_wf ex_t_wf ltac:(cbn; lia)) Hin) as [w [Hth Hsp]].
  split; [right; split; [cbn; lia|]; cbn; now left|]. split; [exact Hsp|exact Hin].
Qed.
