(** C07 - proofs about the port of gear/poet.cc (Lookup/Poet.v).

    (a) soundness, both strategies, every word graph: a returned sentence is a chain of word-graph entries ending at
        total_length that never uses the single edge 0 -> total_length; it starts at 0, or - DynamicProgramming only -
        at a position whose state was created by an edge WITHOUT entries ([states[end_pos]] is created before the
        entry loop).  No edge without entries (script translator), or every start position reached over an edge with
        entries (table translator) => it starts at 0: the oracle hypothesis [wg_path_ok wg 0 total s] of the C07
        theorems.  The unrestricted statement is refuted by a three-vertex graph.
    (b) completeness of the dynamic programme on key-ordered forward graphs: a sentence is returned iff a chain of at
        least two words leads from 0 to total_length.
    (c) optimality of the dynamic programme: no chain beats the returned line under the comparison the code uses. *)
From Coq Require Import List Arith ZArith NArith Bool Lia Sorted.
From RimeV Require Import Lookup.Defs Lookup.Model Lookup.Spec Lookup.MapProofs Lookup.ScriptProofs Lookup.Poet.
Import ListNotations.
Local Open Scope nat_scope.

(** * association lists with in-place update *)
Lemma assoc_put_same {A} k (v : A) m : assoc_nat k (put k v m) = Some v.
Proof.
  induction m as [|[k' v'] m IH]; cbn [put assoc_nat]; [now rewrite Nat.eqb_refl|].
  destruct (k =? k') eqn:E; cbn [assoc_nat]; [now rewrite Nat.eqb_refl|]. now rewrite E.
Qed.

Lemma assoc_put_other {A} k k' (v : A) m : k <> k' -> assoc_nat k' (put k v m) = assoc_nat k' m.
Proof.
  intros N. induction m as [|[k0 v0] m IH]; cbn [put assoc_nat].
  - destruct (k' =? k) eqn:E; [apply Nat.eqb_eq in E; congruence|reflexivity].
  - destruct (k =? k0) eqn:E; cbn [assoc_nat].
    + apply Nat.eqb_eq in E. subst k0. destruct (k' =? k) eqn:E'; [apply Nat.eqb_eq in E'; congruence|reflexivity].
    + destruct (k' =? k0); [reflexivity|exact IH].
Qed.

Lemma assoc_put {A} k k' (v : A) m :
  assoc_nat k' (put k v m) = if k' =? k then Some v else assoc_nat k' m.
Proof.
  destruct (k' =? k) eqn:E.
  - apply Nat.eqb_eq in E. subst. apply assoc_put_same.
  - apply Nat.eqb_neq in E. apply assoc_put_other. congruence.
Qed.

(** * chains through a word graph *)
(** an entry on the edge s -> e (membership in the lists; [wg_det] below turns it into the lookup [wg_path_ok] makes) *)
Definition wedge (wg : wgraph) (s e : nat) (d : dentry) : Prop :=
  exists ends ents, In (s, ends) wg /\ In (e, ents) ends /\ In d ents.

(** some edge without entries ends at [q] *)
Definition eend (wg : wgraph) (q : nat) : Prop := exists s ends, In (s, ends) wg /\ In (q, []) ends.

Definition lend (o : nat) (l : line) : nat := match l with [] => o | c :: _ => cp_end c end.

(** the line [l] (newest component first) is a chain of entries from [o]; no step is the single edge 0 -> total *)
Fixpoint lpath (wg : wgraph) (total o : nat) (l : line) : Prop :=
  match l with
  | [] => True
  | c :: r => wedge wg (lend o r) (cp_end c) (cp_ent c) /\ ~ (lend o r = 0 /\ cp_end c = total) /\ lpath wg total o r
  end.

(** the same for a sentence (oldest component first) *)
Fixpoint wchain (wg : wgraph) (total pos fin : nat) (p : sentence) : Prop :=
  match p with
  | [] => pos = fin
  | (d, e) :: r => wedge wg pos e d /\ ~ (pos = 0 /\ e = total) /\ wchain wg total e fin r
  end.

Lemma wchain_snoc wg total pos q p d e :
  wchain wg total pos q p -> wedge wg q e d -> ~ (q = 0 /\ e = total) -> wchain wg total pos e (p ++ [(d, e)]).
Proof.
  revert pos. induction p as [|[d' e'] p IH]; intros pos H W N; cbn [wchain app] in *.
  - subst. auto.
  - destruct H as [H1 [H2 H3]]. auto.
Qed.

Lemma lpath_wchain wg total o l : lpath wg total o l -> wchain wg total o (lend o l) (sentence_of l).
Proof.
  induction l as [|c r IH]; intros H; cbn [lpath] in H; [reflexivity|].
  destruct H as [H1 [H2 H3]]. unfold sentence_of. cbn [rev map lend]. rewrite map_app. cbn [map].
  apply (wchain_snoc wg total o (lend o r)); [now apply IH|exact H1|exact H2].
Qed.

Lemma sentence_of_nil l : sentence_of l = [] -> l = [].
Proof.
  unfold sentence_of. destruct l as [|c r]; [reflexivity|]. cbn [rev]. rewrite map_app. cbn.
  intros H. apply app_eq_nil in H. destruct H as [_ H]. discriminate.
Qed.

(** * (a) soundness of the dynamic programme, every word graph *)
Section DpSound.
Variable gr : option (text -> text -> bool -> Z).
Variable pen : Z.
Variable cmp : line -> line -> bool.
Variable preceding : text.
Variable wg : wgraph.
Variable total : nat.

Notation better := (better cmp).
Notation new_line := (new_line gr pen preceding).

Definition origin_ok (o : nat) : Prop := o = 0 \/ eend wg o.

(** what holds of the line stored under key [q] *)
Definition okl (q : nat) (l : line) : Prop :=
  match l with
  | [] => origin_ok q
  | _ => exists o, lpath wg total o l /\ lend o l = q /\ origin_ok o
  end.

Definition ok_states (sts : dp_states) : Prop := forall q l, assoc_nat q sts = Some l -> okl q l.

Lemma better_cases best nl : better best nl = nl \/ (best <> [] /\ better best nl = best).
Proof.
  unfold Poet.better. destruct best as [|c r]; cbn [l_empty orb]; [now left|].
  destruct (cmp (c :: r) nl); [now left|right; split; [discriminate|reflexivity]].
Qed.

Lemma fold_better_cases (f : dentry -> line) ents target :
  let res := fold_left (fun best d => better best (f d)) ents target in
  (ents = [] /\ res = target) \/ (exists d, In d ents /\ res = f d) \/ (target <> [] /\ res = target).
Proof.
  revert target. induction ents as [|d ents IH]; intros target; cbn [fold_left]; [now left|].
  destruct (IH (better target (f d))) as [[-> H]|[[d' [Hin H]]|[N H]]]; cbn zeta in *.
  - cbn [fold_left]. destruct (better_cases target (f d)) as [E|[N E]]; rewrite E.
    + right. left. exists d. split; [now left|reflexivity].
    + right. right. auto.
  - right. left. exists d'. split; [now right|exact H].
  - rewrite H. destruct (better_cases target (f d)) as [E|[N' E]]; rewrite E.
    + right. left. exists d. split; [now left|reflexivity].
    + right. right. auto.
Qed.

Lemma new_line_okl s ends e ents cand d :
  In (s, ends) wg -> In (e, ents) ends -> In d ents -> ~ (s = 0 /\ e = total) ->
  okl s cand -> okl e (new_line cand e (e =? total) d).
Proof.
  intros H1 H2 H3 N Hc. unfold Poet.new_line, okl.
  destruct cand as [|c r].
  - exists s. cbn [lpath lend cp_end cp_ent]. split; [|split; [reflexivity|exact Hc]].
    split; [exists ends, ents; auto|]. split; [exact N|exact I].
  - destruct Hc as [o [Hp [He Ho]]]. exists o. cbn [lpath lend cp_end cp_ent]. split; [|split; [reflexivity|exact Ho]].
    cbn [lend] in He. split; [rewrite He; exists ends, ents; auto|]. split; [rewrite He; exact N|exact Hp].
Qed.

Lemma dp_edge_ok s ends cand sts ev :
  In (s, ends) wg -> In ev ends -> okl s cand -> ok_states sts -> ok_states (dp_edge gr pen cmp preceding s total cand sts ev).
Proof.
  intros H1 H2 Hc Hs. destruct ev as [e ents]. unfold dp_edge. cbn [fst snd].
  destruct ((s =? 0) && (e =? total)) eqn:G; [exact Hs|].
  assert (N : ~ (s = 0 /\ e = total)).
  { intros [-> ->]. now rewrite !Nat.eqb_refl in G. }
  intros q l. rewrite assoc_put. destruct (q =? e) eqn:E; [|apply Hs].
  apply Nat.eqb_eq in E. subst q. intros H. injection H as <-.
  set (target := match assoc_nat e sts with Some l => l | None => [] end).
  destruct (fold_better_cases (fun d => new_line cand e (e =? total) d) ents target) as [[-> H]|[[d [Hin H]]|[Nt H]]];
    cbn zeta in H; rewrite H.
  - unfold target. destruct (assoc_nat e sts) as [l|] eqn:A; [now apply Hs|].
    cbn [okl]. right. exists s, ends. auto.
  - now apply (new_line_okl s ends e ents).
  - unfold target in *. destruct (assoc_nat e sts) as [l|] eqn:A; [now apply Hs|congruence].
Qed.

Lemma dp_step_ok sts sv : In sv wg -> ok_states sts -> ok_states (dp_step gr pen cmp preceding total sts sv).
Proof.
  intros H Hs. destruct sv as [s ends]. unfold dp_step. cbn [fst snd].
  destruct (assoc_nat s sts) as [cand|] eqn:A; [|exact Hs].
  pose proof (Hs s cand A) as Hc.
  assert (G : forall l sts0, incl l ends -> ok_states sts0 ->
                             ok_states (fold_left (dp_edge gr pen cmp preceding s total cand) l sts0)).
  { induction l as [|ev l IH]; intros sts0 Hi H0; cbn [fold_left]; [exact H0|].
    apply IH; [intros x Hx; apply Hi; now right|].
    apply (dp_edge_ok s ends); auto. apply Hi. now left. }
  apply G; [apply incl_refl|exact Hs].
Qed.

Lemma dp_run_ok : ok_states (dp_run gr pen cmp preceding wg total).
Proof.
  unfold dp_run.
  assert (G : forall l sts0, incl l wg -> ok_states sts0 -> ok_states (fold_left (dp_step gr pen cmp preceding total) l sts0)).
  { induction l as [|sv l IH]; intros sts0 Hi H0; cbn [fold_left]; [exact H0|].
    apply IH; [intros x Hx; apply Hi; now right|]. apply dp_step_ok; [apply Hi; now left|exact H0]. }
  apply G; [apply incl_refl|].
  intros q l. cbn [assoc_nat]. destruct (q =? 0) eqn:E; [|discriminate].
  intros H. injection H as <-. apply Nat.eqb_eq in E. subst. cbn [okl]. now left.
Qed.

(** every word graph: the sentence of the dynamic programme is a non-empty chain of word-graph entries ending at
    [total] which does not use the edge 0 -> total; it starts at 0 or at the end of an edge without entries *)
Theorem dp_sentence_chain s :
  dp_sentence gr pen cmp preceding wg total = Some s ->
  s <> [] /\ exists o, wchain wg total o total s /\ origin_ok o.
Proof.
  unfold dp_sentence. destruct (assoc_nat total (dp_run gr pen cmp preceding wg total)) as [l|] eqn:A; [|discriminate].
  pose proof (dp_run_ok total l A) as H. destruct l as [|c r]; [discriminate|].
  intros E. injection E as <-. split.
  - intros E. apply sentence_of_nil in E. discriminate.
  - destruct H as [o [Hp [He Ho]]]. exists o. split; [|exact Ho].
    pose proof (lpath_wchain wg total o _ Hp) as W. rewrite He in W. exact W.
Qed.

End DpSound.

(** * how one [update(candidate)] changes the states, for an abstract "is no worse than" relation [R] *)
Section DpFold.
Variable gr : option (text -> text -> bool -> Z).
Variable pen : Z.
Variable cmp : line -> line -> bool.
Variable preceding : text.
Variable total : nat.
Variable R : line -> line -> Prop.

Notation better := (better cmp).
Notation new_line := (new_line gr pen preceding).
Notation dp_edge := (dp_edge gr pen cmp preceding).

Hypothesis Ha : forall best nl c, best <> [] -> R best c -> R (better best nl) c.
Hypothesis Hb : forall best nl c, nl <> [] -> R nl c -> R (better best nl) c.

(** [new] is non-empty if [old] is, and no worse than anything [old] is no worse than *)
Definition imp (old new : line) : Prop := old <> [] -> new <> [] /\ forall c, R old c -> R new c.

Lemma imp_refl l : imp l l.
Proof. intros N. auto. Qed.

Lemma imp_trans a b c : imp a b -> imp b c -> imp a c.
Proof. intros H1 H2 N. destruct (H1 N) as [N1 R1]. destruct (H2 N1) as [N2 R2]. auto. Qed.

Lemma better_nonempty best nl : nl <> [] -> better best nl <> [].
Proof. intros N. destruct (better_cases cmp best nl) as [E|[N' E]]; rewrite E; assumption. Qed.

Lemma better_imp best nl : nl <> [] -> imp best (better best nl).
Proof. intros N Nb. split; [now apply better_nonempty|]. intros c. now apply Ha. Qed.

Lemma fold_better_imp (f : dentry -> line) ents target :
  (forall d, f d <> []) -> imp target (fold_left (fun best d => better best (f d)) ents target).
Proof.
  intros Nf. revert target. induction ents as [|d ents IH]; intros target; cbn [fold_left]; [apply imp_refl|].
  eapply imp_trans; [apply better_imp, Nf|apply IH].
Qed.

Lemma fold_better_new (f : dentry -> line) ents target d :
  (forall d, f d <> []) -> In d ents ->
  let res := fold_left (fun best d => better best (f d)) ents target in
  res <> [] /\ forall c, R (f d) c -> R res c.
Proof.
  intros Nf. revert target. induction ents as [|d' ents IH]; intros target Hin; [destruct Hin|].
  cbn [fold_left]. destruct Hin as [->|Hin]; [|now apply IH].
  cbn zeta. pose proof (fold_better_imp f ents (better target (f d)) Nf) as Hi.
  destruct (Hi (better_nonempty target (f d) (Nf d))) as [N1 R1]. split; [exact N1|].
  intros c Hc. apply R1. apply Hb; [apply Nf|exact Hc].
Qed.

Lemma new_line_nonempty cand e r d : new_line cand e r d <> [].
Proof. unfold Poet.new_line. discriminate. Qed.

Definition ends_ok (sts : dp_states) : Prop := forall q l, assoc_nat q sts = Some l -> l <> [] -> l_end l = q.

Lemma dp_edge_other s cand sts ev q : q <> fst ev -> assoc_nat q (dp_edge s total cand sts ev) = assoc_nat q sts.
Proof.
  intros N. unfold Poet.dp_edge. destruct ((s =? 0) && (fst ev =? total)); [reflexivity|].
  apply assoc_put_other. congruence.
Qed.

Lemma dp_edge_imp s cand sts ev q l :
  assoc_nat q sts = Some l -> exists l', assoc_nat q (dp_edge s total cand sts ev) = Some l' /\ imp l l'.
Proof.
  intros A. unfold Poet.dp_edge. destruct ((s =? 0) && (fst ev =? total)); [exists l; split; [exact A|apply imp_refl]|].
  rewrite assoc_put. destruct (q =? fst ev) eqn:E; [|exists l; split; [exact A|apply imp_refl]].
  apply Nat.eqb_eq in E. subst q. rewrite A. eexists. split; [reflexivity|].
  apply fold_better_imp. intros d. apply new_line_nonempty.
Qed.

Lemma dp_edge_new s cand sts e ents d :
  ~ (s = 0 /\ e = total) -> In d ents ->
  exists l', assoc_nat e (dp_edge s total cand sts (e, ents)) = Some l' /\ l' <> [] /\
             forall c, R (new_line cand e (e =? total) d) c -> R l' c.
Proof.
  intros N Hin. unfold Poet.dp_edge. cbn [fst snd].
  destruct ((s =? 0) && (e =? total)) eqn:G.
  { apply andb_true_iff in G. destruct G as [G1 G2]. apply Nat.eqb_eq in G1, G2. tauto. }
  rewrite assoc_put_same. eexists. split; [reflexivity|].
  apply (fold_better_new (fun d => new_line cand e (e =? total) d)); [intros d'; apply new_line_nonempty|exact Hin].
Qed.

Lemma dp_edge_ends s cand sts ev : ends_ok sts -> ends_ok (dp_edge s total cand sts ev).
Proof.
  intros H. unfold Poet.dp_edge. destruct ((s =? 0) && (fst ev =? total)); [exact H|].
  intros q l. rewrite assoc_put. destruct (q =? fst ev) eqn:E; [|apply H].
  apply Nat.eqb_eq in E. subst q. intros A. injection A as <-.
  set (target := match assoc_nat (fst ev) sts with Some l => l | None => [] end).
  destruct (fold_better_cases cmp (fun d => new_line cand (fst ev) (fst ev =? total) d) (snd ev) target)
    as [[_ E]|[[d [_ E]]|[Nt E]]]; cbn zeta in E; rewrite E.
  - unfold target. destruct (assoc_nat (fst ev) sts) as [l|] eqn:A; [now apply H|congruence].
  - intros _. reflexivity.
  - unfold target in *. destruct (assoc_nat (fst ev) sts) as [l|] eqn:A; [now apply H|congruence].
Qed.

(** the whole [for (ev : sv.second)] loop *)
Lemma dp_edges_other s cand ends : forall sts q,
  (forall ev, In ev ends -> fst ev <> q) ->
  assoc_nat q (fold_left (dp_edge s total cand) ends sts) = assoc_nat q sts.
Proof.
  induction ends as [|ev ends IH]; intros sts q H; cbn [fold_left]; [reflexivity|].
  rewrite IH; [|intros ev' Hin; apply H; now right].
  apply dp_edge_other. intros E. apply (H ev); [now left|congruence].
Qed.

Lemma dp_edges_imp s cand ends : forall sts q l,
  assoc_nat q sts = Some l -> exists l', assoc_nat q (fold_left (dp_edge s total cand) ends sts) = Some l' /\ imp l l'.
Proof.
  induction ends as [|ev ends IH]; intros sts q l A; cbn [fold_left]; [exists l; split; [exact A|apply imp_refl]|].
  destruct (dp_edge_imp s cand sts ev q l A) as [l1 [A1 I1]].
  destruct (IH _ q l1 A1) as [l2 [A2 I2]]. exists l2. split; [exact A2|]. eapply imp_trans; eassumption.
Qed.

Lemma dp_edges_new s cand ends : forall sts e ents d,
  In (e, ents) ends -> ~ (s = 0 /\ e = total) -> In d ents ->
  exists l', assoc_nat e (fold_left (dp_edge s total cand) ends sts) = Some l' /\ l' <> [] /\
             forall c, R (new_line cand e (e =? total) d) c -> R l' c.
Proof.
  induction ends as [|ev ends IH]; intros sts e ents d Hin N Hd; [destruct Hin|]. cbn [fold_left].
  destruct Hin as [->|Hin]; [|now apply (IH _ e ents d)].
  destruct (dp_edge_new s cand sts e ents d N Hd) as [l1 [A1 [N1 R1]]].
  destruct (dp_edges_imp s cand ends _ e l1 A1) as [l2 [A2 I2]]. destruct (I2 N1) as [N2 R2].
  exists l2. split; [exact A2|]. split; [exact N2|]. intros c Hc. apply R2, R1, Hc.
Qed.

Lemma dp_edges_ends s cand ends : forall sts, ends_ok sts -> ends_ok (fold_left (dp_edge s total cand) ends sts).
Proof.
  induction ends as [|ev ends IH]; intros sts H; cbn [fold_left]; [exact H|]. apply IH. now apply dp_edge_ends.
Qed.

End DpFold.

(** * (a) continued: graphs in which every start position is reached over an edge WITH entries from an earlier start
    position (the table translator's graph: [vertices] only grows on a non-exhausted iterator) - the state of
    every start position is non-empty when it is processed, so every line starts at 0 *)
Section DpGrounded.
Variable gr : option (text -> text -> bool -> Z).
Variable pen : Z.
Variable cmp : line -> line -> bool.
Variable preceding : text.
Variable wg : wgraph.
Variable total : nat.

Notation new_line := (new_line gr pen preceding).
Notation dp_edge := (dp_edge gr pen cmp preceding).
Notation dp_step := (dp_step gr pen cmp preceding).

Definition gkey (pre : wgraph) (q : nat) : Prop :=
  q = 0 \/ exists s ends ents, In (s, ends) pre /\ In (q, ents) ends /\ ents <> [] /\ ~ (s = 0 /\ q = total).

Definition grounded : Prop := forall pre q ends post, wg = pre ++ (q, ends) :: post -> gkey pre q.

Definition okl0 (q : nat) (l : line) : Prop := l <> [] -> lpath wg total 0 l /\ lend 0 l = q.
Definition ok0_states (sts : dp_states) : Prop := forall q l, assoc_nat q sts = Some l -> okl0 q l.

Lemma new_line_okl0 s ends e ents cand d :
  In (s, ends) wg -> In (e, ents) ends -> In d ents -> ~ (s = 0 /\ e = total) ->
  (cand = [] -> s = 0) -> okl0 s cand -> okl0 e (new_line cand e (e =? total) d).
Proof.
  intros H1 H2 H3 N H0 Hc _. unfold Poet.new_line. cbn [lpath lend cp_end cp_ent]. split; [|reflexivity].
  destruct cand as [|c r].
  - rewrite (H0 eq_refl) in *. cbn [lend]. split; [exists ends, ents; auto|]. split; [exact N|exact I].
  - destruct (Hc ltac:(discriminate)) as [Hp He]. cbn [lend] in *. rewrite He.
    split; [exists ends, ents; auto|]. split; [exact N|exact Hp].
Qed.

Lemma dp_edge_ok0 s ends cand sts ev :
  In (s, ends) wg -> In ev ends -> (cand = [] -> s = 0) -> okl0 s cand -> ok0_states sts ->
  ok0_states (dp_edge s total cand sts ev).
Proof.
  intros H1 H2 H0 Hc Hs. destruct ev as [e ents]. unfold Poet.dp_edge. cbn [fst snd].
  destruct ((s =? 0) && (e =? total)) eqn:G; [exact Hs|].
  assert (N : ~ (s = 0 /\ e = total)).
  { intros [-> ->]. now rewrite !Nat.eqb_refl in G. }
  intros q l. rewrite assoc_put. destruct (q =? e) eqn:E; [|apply Hs].
  apply Nat.eqb_eq in E. subst q. intros H. injection H as <-.
  set (target := match assoc_nat e sts with Some l => l | None => [] end).
  destruct (fold_better_cases cmp (fun d => new_line cand e (e =? total) d) ents target) as [[_ H]|[[d [Hin H]]|[Nt H]]];
    cbn zeta in H; rewrite H.
  - unfold target. destruct (assoc_nat e sts) as [l|] eqn:A; [now apply Hs|]. intros C. congruence.
  - now apply (new_line_okl0 s ends e ents).
  - unfold target in *. destruct (assoc_nat e sts) as [l|] eqn:A; [now apply Hs|congruence].
Qed.

Lemma dp_edges_ok0 s ends cand : In (s, ends) wg -> (cand = [] -> s = 0) -> okl0 s cand ->
  forall l sts, incl l ends -> ok0_states sts -> ok0_states (fold_left (dp_edge s total cand) l sts).
Proof.
  intros H1 H0 Hc. induction l as [|ev l IH]; intros sts Hi Hs; cbn [fold_left]; [exact Hs|].
  apply IH; [intros x Hx; apply Hi; now right|]. apply (dp_edge_ok0 s ends); auto. apply Hi. now left.
Qed.

Definition ginv (pre : wgraph) (sts : dp_states) : Prop :=
  ok0_states sts /\ forall q, gkey pre q -> exists l, assoc_nat q sts = Some l /\ (l = [] -> q = 0).

Let Rt : line -> line -> Prop := fun _ _ => True.

Lemma ginv_step pre q0 ends0 sts :
  In (q0, ends0) wg -> gkey pre q0 -> ginv pre sts -> ginv (pre ++ [(q0, ends0)]) (dp_step total sts (q0, ends0)).
Proof.
  intros Hin Hk [G1 G2]. destruct (G2 q0 Hk) as [cand [A H0]]. unfold Poet.dp_step. cbn [fst snd]. rewrite A.
  assert (Ha : forall best nl c, best <> [] -> Rt best c -> Rt (better cmp best nl) c) by (intros; exact I).
  split.
  - apply (dp_edges_ok0 q0 ends0 cand Hin H0 (G1 q0 cand A)); [apply incl_refl|exact G1].
  - intros q [->|[s [ends [ents [H1 [H2 [H3 H4]]]]]]].
    + destruct (G2 0 (or_introl eq_refl)) as [l [Al _]].
      destruct (dp_edges_imp gr pen cmp preceding total Rt Ha q0 cand ends0 sts 0 l Al) as [l' [Al' _]]. exists l'. auto.
    + apply in_app_or in H1. destruct H1 as [H1|[H1|[]]].
      * assert (Hk' : gkey pre q) by (right; exists s, ends, ents; auto).
        destruct (G2 q Hk') as [l [Al Hl]].
        destruct (dp_edges_imp gr pen cmp preceding total Rt Ha q0 cand ends0 sts q l Al) as [l' [Al' Il]]. exists l'.
        split; [exact Al'|]. intros E. apply Hl. destruct l as [|c r]; [reflexivity|].
        destruct (Il ltac:(discriminate)) as [N _]. congruence.
      * injection H1 as <- <-. destruct ents as [|d ents]; [congruence|].
        destruct (dp_edges_new gr pen cmp preceding total Rt Ha ltac:(intros; exact I) q0 cand ends0 sts q (d :: ents) d H2 H4
                    (or_introl eq_refl)) as [l' [Al' [N _]]].
        exists l'. split; [exact Al'|]. intros E. congruence.
Qed.

Lemma ginv_run : grounded -> forall rest pre sts, wg = pre ++ rest -> ginv pre sts ->
  ginv wg (fold_left (dp_step total) rest sts).
Proof.
  intros Hg. induction rest as [|[q0 ends0] rest IH]; intros pre sts E H; cbn [fold_left].
  - rewrite app_nil_r in E. now subst.
  - apply (IH (pre ++ [(q0, ends0)])); [rewrite <- app_assoc; exact E|].
    apply ginv_step; [rewrite E; apply in_or_app; right; now left|now apply (Hg pre q0 ends0 rest)|exact H].
Qed.

Theorem dp_sentence_chain_grounded s :
  grounded -> dp_sentence gr pen cmp preceding wg total = Some s -> s <> [] /\ wchain wg total 0 total s.
Proof.
  intros Hg. unfold dp_sentence, dp_run.
  assert (H : ginv wg (fold_left (dp_step total) wg [(0, [])])).
  { apply (ginv_run Hg wg [] [(0, [])] eq_refl). split.
    - intros q l. cbn [assoc_nat]. destruct (q =? 0); [|discriminate]. intros A. injection A as <-. intros C. congruence.
    - intros q [->|[s0 [ends [ents [[] _]]]]]. exists []. split; [reflexivity|auto]. }
  destruct H as [G1 _].
  destruct (assoc_nat total (fold_left (dp_step total) wg [(0, [])])) as [l|] eqn:A; [|discriminate].
  destruct l as [|c r]; [discriminate|]. intros E. injection E as <-.
  destruct (G1 total _ A ltac:(discriminate)) as [Hp He]. split.
  - intros E. apply sentence_of_nil in E. discriminate.
  - pose proof (lpath_wchain wg total 0 _ Hp) as W. rewrite He in W. exact W.
Qed.

End DpGrounded.

(** * (b), (c): key-ordered forward graphs (std::map iteration order; every edge ends behind its start) *)
Definition wg_sorted (wg : wgraph) : Prop := StronglySorted lt (map fst wg).
Definition wg_forward (wg : wgraph) : Prop := forall s ends e ents, In (s, ends) wg -> In (e, ents) ends -> s < e.

Lemma sorted_app_lt l1 x l2 : StronglySorted lt (l1 ++ x :: l2) -> forall y, In y l1 -> y < x.
Proof.
  induction l1 as [|a l1 IH]; intros S y Hy; [destruct Hy|]. cbn in S. inversion S as [|? ? S' F]; subst.
  destruct Hy as [->|Hy]; [|now apply IH]. rewrite Forall_forall in F. apply F. apply in_or_app. right. now left.
Qed.

(** chains from 0, built at the end (the order the dynamic programme discovers them in) *)
Inductive rchain (g : wgraph) (total : nat) : nat -> sentence -> Prop :=
| rc_nil : rchain g total 0 []
| rc_snoc : forall q p d e, rchain g total q p -> wedge g q e d -> ~ (q = 0 /\ e = total) ->
                            rchain g total e (p ++ [(d, e)]).

Lemma wedge_mono g g' s e d : incl g g' -> wedge g s e d -> wedge g' s e d.
Proof. intros Hi [ends [ents [H1 H2]]]. exists ends, ents. split; [now apply Hi|exact H2]. Qed.

Lemma rchain_mono g g' total q p : incl g g' -> rchain g total q p -> rchain g' total q p.
Proof. intros Hi H. induction H; [constructor|]. econstructor; eauto using wedge_mono. Qed.

Lemma rchain_nil_inv g total q : rchain g total q [] -> q = 0.
Proof. intros H. inversion H as [|? p ? ? ? ? ? E]; [reflexivity|]. destruct p; discriminate. Qed.

Lemma wchain_rchain g total : forall p pos q p0,
  rchain g total pos p0 -> wchain g total pos q p -> rchain g total q (p0 ++ p).
Proof.
  induction p as [|[d e] p IH]; intros pos q p0 H0 H; cbn [wchain] in H.
  - subst. now rewrite app_nil_r.
  - destruct H as [H1 [H2 H3]]. replace (p0 ++ (d, e) :: p) with ((p0 ++ [(d, e)]) ++ p) by now rewrite <- app_assoc.
    apply (IH e); [|exact H3]. now apply (rc_snoc g total pos).
Qed.

Lemma rchain_wchain g total q p : rchain g total q p -> wchain g total 0 q p.
Proof. intros H. induction H; [reflexivity|]. now apply (wchain_snoc g total 0 q). Qed.

Section DpOpt.
Variable pen : Z.
Variable cmp : line -> line -> bool.
Variable preceding : text.
Variable total : nat.
Variable R : line -> line -> Prop.

Notation better := (better cmp).
Notation new_line := (new_line None pen preceding).
Notation dp_edge := (dp_edge None pen cmp preceding).
Notation dp_step := (dp_step None pen cmp preceding).

Hypothesis Ha : forall best nl c, best <> [] -> R best c -> R (better best nl) c.
Hypothesis Hb : forall best nl c, nl <> [] -> R nl c -> R (better best nl) c.
Hypothesis Hr : forall x, x <> [] -> R x x.
Hypothesis Hm : forall a b d e k, a <> [] -> b <> [] -> l_end a = l_end b -> R a b ->
  R (mkComp d e (l_weight a + k)%Z :: a) (mkComp d e (l_weight b + k)%Z :: b).

(** the line the code builds along a chain *)
Definition line_of (p : sentence) : line :=
  fold_left (fun l (de : dentry * nat) => new_line l (snd de) (snd de =? total) (fst de)) p [].

Lemma line_of_snoc p d e : line_of (p ++ [(d, e)]) = new_line (line_of p) e (e =? total) d.
Proof. unfold line_of. rewrite fold_left_app. reflexivity. Qed.

Lemma rchain_line_end g q p : rchain g total q p -> p <> [] -> line_of p <> [] /\ l_end (line_of p) = q.
Proof.
  intros H. destruct H as [|q p d e H W N]; [congruence|]. intros _. rewrite line_of_snoc.
  unfold Poet.new_line. split; [discriminate|reflexivity].
Qed.

Definition oinv (pre : wgraph) (sts : dp_states) : Prop :=
  assoc_nat 0 sts = Some [] /\ ends_ok sts /\
  forall q p, p <> [] -> rchain pre total q p -> exists r, assoc_nat q sts = Some r /\ r <> [] /\ R r (line_of p).

Lemma rchain_split pre s ends0 q p :
  (forall k ends', In (k, ends') pre -> k < s) -> (forall e ents, In (e, ents) ends0 -> s < e) ->
  rchain (pre ++ [(s, ends0)]) total q p ->
  rchain pre total q p \/
  (s < q /\ exists p0 d ents, p = p0 ++ [(d, q)] /\ rchain pre total s p0 /\ In (q, ents) ends0 /\ In d ents /\
                             ~ (s = 0 /\ q = total)).
Proof.
  intros Hlt Hfw H. induction H as [|q p d e H IH W N]; [left; constructor|].
  destruct W as [ends [ents [H1 [H2 H3]]]]. apply in_app_or in H1. destruct IH as [IH|[Hs _]].
  - destruct H1 as [H1|[H1|[]]].
    + left. apply (rc_snoc pre total q); [exact IH| exists ends, ents; auto|exact N].
    + injection H1 as <- <-. right. split; [now apply (Hfw e ents)|]. exists p, d, ents. auto.
  - exfalso. destruct H1 as [H1|[H1|[]]]; [apply Hlt in H1; lia|injection H1 as <- <-; lia].
Qed.

Lemma oinv_step pre s ends0 sts :
  (forall k ends', In (k, ends') pre -> k < s) -> (forall e ents, In (e, ents) ends0 -> s < e) ->
  oinv pre sts -> oinv (pre ++ [(s, ends0)]) (dp_step total sts (s, ends0)).
Proof.
  intros Hlt Hfw [I0 [I1 I2]]. unfold Poet.dp_step. cbn [fst snd].
  destruct (assoc_nat s sts) as [cand|] eqn:A.
  - split; [|split].
    + rewrite (dp_edges_other None pen cmp preceding total s cand ends0); [exact I0|].
      intros [e ents] Hin. apply Hfw in Hin. cbn [fst]. lia.
    + now apply dp_edges_ends.
    + intros q p Np H. apply (rchain_split pre s ends0 q p Hlt Hfw) in H.
      destruct H as [H|[Hs [p0 [d [ents [-> [H0 [H1 [H2 H3]]]]]]]]].
      * destruct (I2 q p Np H) as [r [Ar [Nr Rr]]].
        destruct (dp_edges_imp None pen cmp preceding total R Ha s cand ends0 sts q r Ar) as [r' [Ar' Ir]].
        destruct (Ir Nr) as [Nr' Rr']. exists r'. auto.
      * destruct (dp_edges_new None pen cmp preceding total R Ha Hb s cand ends0 sts q ents d H1 H3 H2) as [l' [Al' [Nl' Rl']]].
        exists l'. split; [exact Al'|]. split; [exact Nl'|]. apply Rl'. rewrite line_of_snoc.
        destruct p0 as [|x p0].
        -- apply rchain_nil_inv in H0. subst s. rewrite I0 in A. injection A as <-.
           apply Hr. apply new_line_nonempty.
        -- destruct (I2 s (x :: p0) ltac:(discriminate) H0) as [r [Ar [Nr Rr]]]. rewrite A in Ar. injection Ar as <-.
           destruct (rchain_line_end pre s (x :: p0) H0 ltac:(discriminate)) as [Nl El].
           unfold Poet.new_line, evaluate. apply Hm; [exact Nr|exact Nl| |exact Rr].
           rewrite El. now apply I1.
  - split; [exact I0|]. split; [exact I1|].
    intros q p Np H. apply (rchain_split pre s ends0 q p Hlt Hfw) in H.
    destruct H as [H|[Hs [p0 [d [ents [-> [H0 _]]]]]]]; [now apply I2|]. exfalso.
    destruct p0 as [|x p0].
    + apply rchain_nil_inv in H0. subst s. congruence.
    + destruct (I2 s (x :: p0) ltac:(discriminate) H0) as [r [Ar _]]. congruence.
Qed.

Lemma oinv_run wg : wg_sorted wg -> wg_forward wg -> forall rest pre sts, wg = pre ++ rest -> oinv pre sts ->
  oinv wg (fold_left (dp_step total) rest sts).
Proof.
  intros Hs Hf. induction rest as [|[s ends0] rest IH]; intros pre sts E H; cbn [fold_left].
  - rewrite app_nil_r in E. now subst.
  - apply (IH (pre ++ [(s, ends0)])); [rewrite <- app_assoc; exact E|]. apply oinv_step; [| |exact H].
    + intros k ends' Hin. unfold wg_sorted in Hs. rewrite E, map_app in Hs. cbn [map fst] in Hs.
      apply (sorted_app_lt _ _ _ Hs). now apply (in_map fst) in Hin.
    + intros e ents Hin. apply (Hf s ends0 e ents); [|exact Hin]. rewrite E. apply in_or_app. right. now left.
Qed.

(** the final state under [total] *)
Definition dp_best (wg : wgraph) : option line := assoc_nat total (dp_run None pen cmp preceding wg total).

Theorem dp_best_complete wg p :
  wg_sorted wg -> wg_forward wg -> p <> [] -> rchain wg total total p ->
  exists r, dp_best wg = Some r /\ r <> [] /\ R r (line_of p).
Proof.
  intros Hs Hf Np H. unfold dp_best, dp_run.
  assert (G : oinv wg (fold_left (dp_step total) wg [(0, [])])).
  { apply (oinv_run wg Hs Hf wg [] [(0, [])] eq_refl). split; [reflexivity|]. split.
    - intros q l. cbn [assoc_nat]. destruct (q =? 0); [|discriminate]. intros A. injection A as <-. congruence.
    - intros q p' Np' H'. exfalso. destruct H' as [|? ? ? ? ? [ends [ents [[] _]]]]. congruence. }
  destruct G as [_ [_ G]]. now apply G.
Qed.

End DpOpt.

Lemma dp_sentence_best pen cmp preceding total wg :
  dp_sentence None pen cmp preceding wg total =
  match dp_best pen cmp preceding total wg with Some (c :: r) => Some (sentence_of (c :: r)) | _ => None end.
Proof. unfold dp_sentence, dp_best. destruct (assoc_nat total _) as [[|c r]|]; reflexivity. Qed.

(** ** (b) completeness: whatever the comparison, a chain of at least two words yields a sentence *)
Theorem dp_sentence_complete pen cmp preceding wg total p :
  wg_sorted wg -> wg_forward wg -> p <> [] -> wchain wg total 0 total p ->
  exists s, dp_sentence None pen cmp preceding wg total = Some s.
Proof.
  intros Hs Hf Np H.
  destruct (dp_best_complete pen cmp preceding total (fun _ _ => True) (fun _ _ _ _ _ => I) (fun _ _ _ _ _ => I)
              (fun _ _ => I) (fun _ _ _ _ _ _ _ _ _ => I) wg p Hs Hf Np) as [r [E [N _]]].
  - apply (wchain_rchain wg total p 0 total [] (rc_nil wg total) H).
  - rewrite dp_sentence_best, E. destruct r; [congruence|]. eauto.
Qed.

(** ** (c) optimality.  What is needed of [compare_]: a strict weak order ("one is less than other") that is
    preserved when two lines ending at one position are extended by the same word *)
Record cmp_ok (cmp : line -> line -> bool) : Prop := {
  cmp_irrefl : forall x, cmp x x = false;
  cmp_asym : forall a b, cmp a b = true -> cmp b a = false;
  cmp_ntrans : forall a b c, cmp a b = false -> cmp b c = false -> cmp a c = false;
  cmp_mono : forall a b d e k, a <> [] -> b <> [] -> l_end a = l_end b -> cmp a b = false ->
             cmp (mkComp d e (l_weight a + k)%Z :: a) (mkComp d e (l_weight b + k)%Z :: b) = false
}.

Lemma better_spec cmp best nl :
  (best = [] /\ better cmp best nl = nl) \/ (best <> [] /\ cmp best nl = true /\ better cmp best nl = nl) \/
  (best <> [] /\ cmp best nl = false /\ better cmp best nl = best).
Proof.
  unfold better. destruct best as [|c r]; cbn [l_empty orb]; [now left|]. right.
  destruct (cmp (c :: r) nl); [left|right]; (split; [discriminate|auto]).
Qed.

Theorem dp_optimal pen cmp preceding wg total p :
  cmp_ok cmp -> wg_sorted wg -> wg_forward wg -> p <> [] -> wchain wg total 0 total p ->
  exists r, dp_best pen cmp preceding total wg = Some r /\
            dp_sentence None pen cmp preceding wg total = Some (sentence_of r) /\
            cmp r (line_of pen preceding total p) = false.
Proof.
  intros [Ci Ca Ct Cm] Hs Hf Np H.
  destruct (dp_best_complete pen cmp preceding total (fun a b => cmp a b = false)) with (wg := wg) (p := p)
    as [r [E [N Rr]]]; try assumption.
  - intros best nl c Nb Hc. destruct (better_spec cmp best nl) as [[E _]|[[_ [E1 E2]]|[_ [E1 E2]]]]; [congruence| |]; rewrite E2.
    + apply (Ct nl best c); [now apply Ca|exact Hc].
    + exact Hc.
  - intros best nl c Nn Hc. destruct (better_spec cmp best nl) as [[_ E]|[[_ [E1 E2]]|[_ [E1 E2]]]]; try (rewrite E; exact Hc);
      rewrite E2; [exact Hc|]. now apply (Ct best nl c).
  - intros x _. apply Ci.
  - apply (wchain_rchain wg total p 0 total [] (rc_nil wg total) H).
  - exists r. split; [exact E|]. split; [|exact Rr]. rewrite dp_sentence_best, E. destruct r; [congruence|reflexivity].
Qed.

(** the weight of the line built along a chain is the sum of entry weight + penalty over its words *)
Fixpoint path_weight (pen : Z) (p : sentence) : Z :=
  match p with
  | [] => 0%Z
  | (d, _) :: r => (d_w d + pen + path_weight pen r)%Z
  end.

Lemma fold_new_line_weight pen preceding total p : forall l,
  l_weight (fold_left (fun l (de : dentry * nat) => new_line None pen preceding l (snd de) (snd de =? total) (fst de)) p l)
  = (l_weight l + path_weight pen p)%Z.
Proof.
  induction p as [|[d e] p IH]; intros l; cbn [fold_left path_weight]; [lia|].
  rewrite IH. unfold new_line, evaluate. cbn [l_weight cp_w fst snd]. lia.
Qed.

Lemma line_of_weight pen preceding total p : l_weight (line_of pen preceding total p) = path_weight pen p.
Proof. unfold line_of. rewrite fold_new_line_weight. reflexivity. Qed.

(** *** Poet::CompareWeight *)
Lemma compare_weight_ok : cmp_ok compare_weight.
Proof.
  unfold compare_weight. split.
  - intros x. apply Z.ltb_irrefl.
  - intros a b H. apply Z.ltb_lt in H. apply Z.ltb_ge. lia.
  - intros a b c H1 H2. apply Z.ltb_ge in H1, H2. apply Z.ltb_ge. lia.
  - intros a b d e k _ _ _ H. cbn [l_weight cp_w]. apply Z.ltb_ge in H. apply Z.ltb_ge. lia.
Qed.

(** the script translator's sentence has the greatest weight among all chains of at least two words *)
Theorem dp_weight_maximal pen preceding wg total p :
  wg_sorted wg -> wg_forward wg -> p <> [] -> wchain wg total 0 total p ->
  exists r, dp_sentence None pen compare_weight preceding wg total = Some (sentence_of r) /\
            (path_weight pen p <= l_weight r)%Z.
Proof.
  intros Hs Hf Np H. destruct (dp_optimal pen compare_weight preceding wg total p compare_weight_ok Hs Hf Np H) as [r [_ [E C]]].
  exists r. split; [exact E|]. unfold compare_weight in C. apply Z.ltb_ge in C. now rewrite line_of_weight in C.
Qed.

(** *** Poet::LeftAssociateCompare *)
Lemma lex_lt_cons_true x a y b : lex_lt (x :: a) (y :: b) = true <-> x < y \/ (x = y /\ lex_lt a b = true).
Proof.
  cbn [lex_lt]. destruct (x <? y) eqn:E1.
  - apply Nat.ltb_lt in E1. split; auto.
  - apply Nat.ltb_ge in E1. destruct (y <? x) eqn:E2.
    + apply Nat.ltb_lt in E2. split; [discriminate|]. intros [H|[H _]]; lia.
    + apply Nat.ltb_ge in E2. split; [intros H; right; split; [lia|exact H]|]. intros [H|[_ H]]; [lia|exact H].
Qed.

Lemma lex_lt_cons_false x a y b : lex_lt (x :: a) (y :: b) = false <-> y < x \/ (x = y /\ lex_lt a b = false).
Proof.
  cbn [lex_lt]. destruct (x <? y) eqn:E1.
  - apply Nat.ltb_lt in E1. split; [discriminate|]. intros [H|[H _]]; lia.
  - apply Nat.ltb_ge in E1. destruct (y <? x) eqn:E2.
    + apply Nat.ltb_lt in E2. split; auto.
    + apply Nat.ltb_ge in E2. split; [intros H; right; split; [lia|exact H]|]. intros [H|[_ H]]; [lia|exact H].
Qed.

Lemma lex_lt_irrefl a : lex_lt a a = false.
Proof. induction a as [|x a IH]; [reflexivity|]. apply lex_lt_cons_false. auto. Qed.

Lemma lex_lt_asym a : forall b, lex_lt a b = true -> lex_lt b a = false.
Proof.
  induction a as [|x a IH]; intros [|y b] H; try reflexivity; try discriminate.
  apply lex_lt_cons_true in H. apply lex_lt_cons_false. destruct H as [H|[-> H]]; auto.
Qed.

Lemma lex_lt_ntrans a : forall b c, lex_lt a b = false -> lex_lt b c = false -> lex_lt a c = false.
Proof.
  induction a as [|x a IH]; intros [|y b] [|z c] H1 H2; try reflexivity; try discriminate.
  apply lex_lt_cons_false in H1, H2. apply lex_lt_cons_false.
  destruct H1 as [H1|[-> H1]], H2 as [H2|[-> H2]]; try (left; lia). right. split; [reflexivity|]. now apply (IH b c).
Qed.

Lemma lex_lt_snoc_same x a : forall b, length a = length b -> lex_lt (a ++ [x]) (b ++ [x]) = lex_lt a b.
Proof.
  induction a as [|y a IH]; intros [|z b] L; try discriminate.
  - cbn [app lex_lt]. now rewrite Nat.ltb_irrefl.
  - cbn [app lex_lt]. injection L as L. now rewrite IH.
Qed.

Lemma last_cons_default (xs : list nat) : forall x d, last (x :: xs) d = last xs x.
Proof.
  induction xs as [|a xs IH]; intros x d; [reflexivity|].
  change (last (x :: a :: xs) d) with (last (a :: xs) d). now rewrite !IH.
Qed.

Lemma diffs_snoc xs : forall prev e, diffs prev (xs ++ [e]) = diffs prev xs ++ [e - last xs prev].
Proof.
  induction xs as [|x xs IH]; intros prev e; [reflexivity|]. cbn [app diffs]. rewrite IH. now rewrite last_cons_default.
Qed.

Lemma word_lengths_cons c l : l <> [] -> word_lengths (c :: l) = word_lengths l ++ [cp_end c - l_end l].
Proof.
  intros N. unfold word_lengths. cbn [rev]. rewrite map_app. cbn [map]. rewrite diffs_snoc. f_equal. f_equal. f_equal.
  destruct l as [|c' r]; [congruence|]. cbn [rev l_end]. rewrite map_app. cbn [map]. apply last_last.
Qed.

Lemma lac_true a b :
  left_associate_compare a b = true <->
  (l_weight a < l_weight b)%Z \/
  (l_weight a = l_weight b /\
   (length (word_lengths b) < length (word_lengths a) \/
    (length (word_lengths a) = length (word_lengths b) /\ lex_lt (word_lengths a) (word_lengths b) = true))).
Proof.
  unfold left_associate_compare. destruct (l_weight a <? l_weight b)%Z eqn:E1.
  - apply Z.ltb_lt in E1. split; auto.
  - apply Z.ltb_ge in E1. destruct (l_weight a =? l_weight b)%Z eqn:E2.
    + apply Z.eqb_eq in E2. destruct (length (word_lengths b) <? length (word_lengths a)) eqn:E3.
      * apply Nat.ltb_lt in E3. split; auto.
      * apply Nat.ltb_ge in E3. destruct (length (word_lengths a) =? length (word_lengths b)) eqn:E4.
        -- apply Nat.eqb_eq in E4. split; [auto|]. intros [H|[_ [H|[_ H]]]]; [lia|lia|exact H].
        -- apply Nat.eqb_neq in E4. split; [discriminate|]. intros [H|[_ [H|[H _]]]]; lia.
    + apply Z.eqb_neq in E2. split; [discriminate|]. intros [H|[H _]]; lia.
Qed.

Lemma lac_false a b :
  left_associate_compare a b = false <->
  (l_weight b < l_weight a)%Z \/
  (l_weight a = l_weight b /\
   (length (word_lengths a) < length (word_lengths b) \/
    (length (word_lengths a) = length (word_lengths b) /\ lex_lt (word_lengths a) (word_lengths b) = false))).
Proof.
  destruct (left_associate_compare a b) eqn:E.
  - apply lac_true in E. split; [discriminate|]. intros H. exfalso.
    destruct E as [E|[E1 [E|[E2 E3]]]], H as [H|[H1 [H|[H2 H3]]]]; try lia. congruence.
  - split; [intros _|reflexivity].
    destruct (Z.lt_trichotomy (l_weight a) (l_weight b)) as [W|[W|W]]; [|right; split; [exact W|]|now left].
    + assert (C : left_associate_compare a b = true) by (apply lac_true; now left). congruence.
    + destruct (lt_eq_lt_dec (length (word_lengths a)) (length (word_lengths b))) as [[L|L]|L]; [now left| |].
      * right. split; [exact L|]. destruct (lex_lt (word_lengths a) (word_lengths b)) eqn:X; [|reflexivity].
        assert (C : left_associate_compare a b = true) by (apply lac_true; right; auto). congruence.
      * assert (C : left_associate_compare a b = true) by (apply lac_true; right; auto). congruence.
Qed.

Lemma left_associate_compare_ok : cmp_ok left_associate_compare.
Proof.
  split.
  - intros x. apply lac_false. right. split; [reflexivity|]. right. split; [reflexivity|apply lex_lt_irrefl].
  - intros a b H. apply lac_true in H. apply lac_false.
    destruct H as [H|[H1 [H|[H2 H3]]]]; [now left|right; split; [lia|now left]|].
    right. split; [lia|]. right. split; [lia|now apply lex_lt_asym].
  - intros a b c H1 H2. apply lac_false in H1, H2. apply lac_false.
    destruct H1 as [H1|[W1 H1]], H2 as [H2|[W2 H2]]; try (left; lia). right. split; [lia|].
    destruct H1 as [H1|[L1 X1]], H2 as [H2|[L2 X2]]; try (left; lia). right. split; [lia|]. now apply (lex_lt_ntrans _ (word_lengths b)).
  - intros a b d e k Na Nb He H. apply lac_false in H. apply lac_false. cbn [l_weight cp_w].
    rewrite (word_lengths_cons _ a Na), (word_lengths_cons _ b Nb). cbn [cp_end]. rewrite !app_length. cbn [length].
    destruct H as [H|[W H]]; [left; lia|]. right. split; [lia|].
    destruct H as [H|[L X]]; [left; lia|]. right. split; [lia|]. rewrite He. now rewrite lex_lt_snoc_same.
Qed.

(** * (a) for BeamSearch: every word graph, every grammar - the sentence is a chain from 0 (an empty hash map has no
    candidate to extend, so the strategy does not start lines at states created by edges without entries) *)
Section BeamSound.
Variable gr : option (text -> text -> bool -> Z).
Variable pen : Z.
Variable cmp : line -> line -> bool.
Variable preceding : text.
Variable wg : wgraph.
Variable total : nat.

Notation new_line := (new_line gr pen preceding).

Definition okb (q : nat) (l : line) : Prop := (l = [] /\ q = 0) \/ (l <> [] /\ lpath wg total 0 l /\ lend 0 l = q).
Definition ok_bstate (q : nat) (st : bstate) : Prop := forall k l, In (k, l) st -> okb q l.
Definition ok_bstates (sts : beam_states) : Prop := forall q st, assoc_nat q sts = Some st -> ok_bstate q st.

Lemma bs_put_in k v st k' l : In (k', l) (bs_put k v st) -> (k', l) = (k, v) \/ In (k', l) st.
Proof.
  induction st as [|[k0 l0] st IH]; cbn [bs_put]; [intros [H|[]]; left; now symmetry|].
  destruct (text_eqb k k0).
  - intros [H|H]; [left; now symmetry|right; now right].
  - intros [H|H]; [right; now left|]. destruct (IH H) as [H'|H']; [now left|right; now right].
Qed.

Lemma bs_find_in k st l : bs_find k st = Some l -> exists k', In (k', l) st.
Proof.
  induction st as [|[k0 l0] st IH]; cbn [bs_find]; [discriminate|].
  destruct (text_eqb k k0); [intros H; injection H as <-; exists k0; now left|].
  intros H. destruct (IH H) as [k' Hin]. exists k'. now right.
Qed.

Lemma removelast_in {A} (x : A) l : In x (removelast l) -> In x l.
Proof.
  induction l as [|a l IH]; [intros []|]. cbn [removelast]. destruct l as [|b l]; [intros []|].
  intros [H|H]; [now left|right; now apply IH].
Qed.

Lemma top_insert_in top c x : In x (top_insert cmp top c) -> In x top \/ x = c.
Proof.
  unfold top_insert. set (pos := upper_bound _ _ _ _ _).
  destruct (k_max_line_candidates <=? pos); [now left|].
  assert (G : In x (firstn pos top ++ c :: skipn pos top) -> In x top \/ x = c).
  { intros H. apply in_app_or in H. rewrite <- (firstn_skipn pos top) at 1.
    destruct H as [H|[H|H]]; [left; apply in_or_app; now left|now right|left; apply in_or_app; now right]. }
  destruct (k_max_line_candidates <? length (firstn pos top ++ c :: skipn pos top)); [|exact G].
  intros H. apply G. now apply removelast_in.
Qed.

Lemma find_top_in st x : In x (find_top cmp st) -> exists k, In (k, x) st.
Proof.
  unfold find_top.
  assert (G : forall ls top, In x (fold_left (top_insert cmp) ls top) -> In x top \/ In x ls).
  { induction ls as [|c ls IH]; intros top H; cbn [fold_left] in H; [now left|].
    destruct (IH _ H) as [H1|H1]; [|right; now right].
    destruct (top_insert_in top c x H1) as [H2| ->]; [now left|right; now left]. }
  intros H. destruct (G _ _ H) as [[]|H1]. apply in_map_iff in H1. destruct H1 as [[k l] [<- H1]]. now exists k.
Qed.

Lemma new_line_okb s ends e ents cand d :
  In (s, ends) wg -> In (e, ents) ends -> In d ents -> ~ (s = 0 /\ e = total) ->
  okb s cand -> okb e (new_line cand e (e =? total) d).
Proof.
  intros H1 H2 H3 N Hc. right. unfold Poet.new_line. split; [discriminate|]. cbn [lpath lend cp_end cp_ent]. split; [|reflexivity].
  destruct Hc as [[-> ->]|[Nc [Hp He]]].
  - cbn [lend]. split; [exists ends, ents; auto|]. split; [exact N|exact I].
  - destruct cand as [|c r]; [congruence|]. cbn [lend] in *. rewrite He.
    split; [exists ends, ents; auto|]. split; [exact N|exact Hp].
Qed.

Lemma beam_entry_ok s ends e ents cand st d :
  In (s, ends) wg -> In (e, ents) ends -> In d ents -> ~ (s = 0 /\ e = total) -> okb s cand ->
  ok_bstate e st -> ok_bstate e (beam_entry gr pen cmp preceding cand e (e =? total) st d).
Proof.
  intros H1 H2 H3 N Hc Hs k l Hin. unfold beam_entry in Hin. apply bs_put_in in Hin. destruct Hin as [Hin|Hin]; [|now apply (Hs k)].
  injection Hin as _ ->.
  set (nl := new_line cand e (e =? total) d).
  change (last_word nl) with (d_text d) in *.
  destruct (bs_find (d_text d) st) as [b|] eqn:F.
  - destruct (better_cases cmp b nl) as [E|[_ E]]; rewrite E; [now apply (new_line_okb s ends e ents)|].
    destruct (bs_find_in _ _ _ F) as [k' Hin]. now apply (Hs k').
  - destruct (better_cases cmp [] nl) as [E|[C _]]; [|congruence]. rewrite E. now apply (new_line_okb s ends e ents).
Qed.

Lemma beam_edge_ok s ends cand sts ev :
  In (s, ends) wg -> In ev ends -> okb s cand -> ok_bstates sts ->
  ok_bstates (beam_edge gr pen cmp preceding s total cand sts ev).
Proof.
  intros H1 H2 Hc Hs. destruct ev as [e ents]. unfold beam_edge. cbn [fst snd].
  destruct ((s =? 0) && (e =? total)) eqn:G; [exact Hs|].
  assert (N : ~ (s = 0 /\ e = total)).
  { intros [-> ->]. now rewrite !Nat.eqb_refl in G. }
  intros q st. rewrite assoc_put. destruct (q =? e) eqn:E; [|apply Hs].
  apply Nat.eqb_eq in E. subst q. intros H. injection H as <-.
  assert (G' : forall l st0, incl l ents -> ok_bstate e st0 ->
                             ok_bstate e (fold_left (beam_entry gr pen cmp preceding cand e (e =? total)) l st0)).
  { induction l as [|d l IH]; intros st0 Hi H0; cbn [fold_left]; [exact H0|].
    apply IH; [intros x Hx; apply Hi; now right|]. apply (beam_entry_ok s ends e ents); auto. apply Hi. now left. }
  apply G'; [apply incl_refl|].
  destruct (assoc_nat e sts) as [st0|] eqn:A; [now apply Hs|]. intros k l [].
Qed.

Lemma beam_step_ok sts sv : In sv wg -> ok_bstates sts -> ok_bstates (beam_step gr pen cmp preceding total sts sv).
Proof.
  intros H Hs. destruct sv as [s ends]. unfold beam_step. cbn [fst snd].
  destruct (assoc_nat s sts) as [src|] eqn:A; [|exact Hs].
  assert (Hsrc : forall c, In c (find_top cmp src) -> okb s c).
  { intros c Hc. destruct (find_top_in _ _ Hc) as [k Hk]. apply (Hs s src A k c Hk). }
  revert Hsrc. generalize (find_top cmp src). intros tops. clear A. revert sts Hs.
  induction tops as [|c tops IH]; intros sts Hs Hsrc; cbn [fold_left]; [exact Hs|].
  apply IH; [|intros c' Hc'; apply Hsrc; now right].
  assert (G : forall l sts0, incl l ends -> ok_bstates sts0 ->
                             ok_bstates (fold_left (beam_edge gr pen cmp preceding s total c) l sts0)).
  { induction l as [|ev l IHl]; intros sts0 Hi H0; cbn [fold_left]; [exact H0|].
    apply IHl; [intros x Hx; apply Hi; now right|].
    apply (beam_edge_ok s ends); auto; [apply Hi|apply Hsrc]; now left. }
  apply G; [apply incl_refl|exact Hs].
Qed.

Lemma beam_run_ok : ok_bstates (beam_run gr pen cmp preceding wg total).
Proof.
  unfold beam_run.
  assert (G : forall l sts0, incl l wg -> ok_bstates sts0 -> ok_bstates (fold_left (beam_step gr pen cmp preceding total) l sts0)).
  { induction l as [|sv l IH]; intros sts0 Hi H0; cbn [fold_left]; [exact H0|].
    apply IH; [intros x Hx; apply Hi; now right|]. apply beam_step_ok; [apply Hi; now left|exact H0]. }
  apply G; [apply incl_refl|].
  intros q st. cbn [assoc_nat]. destruct (q =? 0) eqn:E; [|discriminate].
  intros H. injection H as <-. apply Nat.eqb_eq in E. subst. intros k l [H|[]]. injection H as _ <-. now left.
Qed.

Lemma best_in_state_in st : st <> [] -> exists k, In (k, best_in_state cmp st) st.
Proof.
  unfold best_in_state.
  assert (G : forall l acc, (forall b, acc = Some b -> exists k, In (k, b) st) -> incl l st ->
              match fold_left (fun (best : option line) (kl : text * line) =>
                                 match best with None => Some (snd kl) | Some b => if cmp b (snd kl) then Some (snd kl) else best end)
                              l acc with
              | Some b => exists k, In (k, b) st
              | None => acc = None /\ l = []
              end).
  { induction l as [|[k x] l IH]; intros acc Ha Hi; cbn [fold_left].
    - destruct acc as [b|]; [now apply Ha|auto].
    - assert (Hx : In (k, x) st) by (apply Hi; now left).
      assert (Hi' : incl l st) by (intros y Hy; apply Hi; now right).
      cbn [snd]. destruct acc as [b|].
      + destruct (cmp b x).
        * specialize (IH (Some x) ltac:(intros b' E; injection E as <-; now exists k) Hi'). destruct (fold_left _ l (Some x)); [exact IH|].
          destruct IH; discriminate.
        * specialize (IH (Some b) Ha Hi'). destruct (fold_left _ l (Some b)); [exact IH|]. destruct IH; discriminate.
      + specialize (IH (Some x) ltac:(intros b' E; injection E as <-; now exists k) Hi'). destruct (fold_left _ l (Some x)); [exact IH|].
        destruct IH; discriminate. }
  intros N. specialize (G st None ltac:(discriminate) (incl_refl _)).
  destruct (fold_left _ st None) as [b|]; [exact G|]. destruct G as [_ G]. congruence.
Qed.

Theorem beam_sentence_chain s :
  beam_sentence gr pen cmp preceding wg total = Some s -> wchain wg total 0 total s.
Proof.
  unfold beam_sentence. destruct (assoc_nat total (beam_run gr pen cmp preceding wg total)) as [st|] eqn:A; [|discriminate].
  pose proof (beam_run_ok total st A) as H. destruct st as [|x st]; [discriminate|].
  intros E. injection E as <-. destruct (best_in_state_in (x :: st) ltac:(discriminate)) as [k Hin].
  destruct (H k _ Hin) as [[-> ->]|[_ [Hp He]]]; [reflexivity|].
  pose proof (lpath_wchain wg total 0 _ Hp) as W. rewrite He in W. exact W.
Qed.

End BeamSound.

(** * from chains to the check [wg_path_ok] the C07 theorems assume of the sentence maker *)
(** the graph is a map of maps (std::map): looking an edge up finds the list it was found in *)
Definition wg_det (wg : wgraph) : Prop :=
  forall s ends e ents, In (s, ends) wg -> In (e, ents) ends -> assoc_list e (assoc_list s wg) = ents.

Definition wg_map (wg : wgraph) : Prop :=
  NoDup (map fst wg) /\ forall s ends, In (s, ends) wg -> NoDup (map fst ends).

Lemma wg_map_det wg : wg_map wg -> wg_det wg.
Proof.
  intros [H1 H2] s ends e ents Hs He. unfold assoc_list.
  rewrite (in_assoc_nat_nodup s ends wg H1 Hs). now rewrite (in_assoc_nat_nodup e ents ends (H2 s ends Hs) He).
Qed.

Definition wg_no_empty (wg : wgraph) : Prop := forall s ends e ents, In (s, ends) wg -> In (e, ents) ends -> ents <> [].

Lemma wchain_path_ok wg total : wg_det wg -> forall p pos fin, wchain wg total pos fin p -> wg_path_ok wg pos fin p = true.
Proof.
  intros Hd. induction p as [|[d e] p IH]; intros pos fin H; cbn [wchain wg_path_ok] in *.
  - now apply Nat.eqb_eq.
  - destruct H as [[ends [ents [H1 [H2 H3]]]] [_ H4]]. apply andb_true_iff. split; [|now apply IH].
    rewrite (Hd pos ends e ents H1 H2). apply dentry_in_spec. exists d. auto.
Qed.

Lemma wchain_two wg total p : p <> [] -> wchain wg total 0 total p -> 2 <= length p.
Proof.
  destruct p as [|[d e] [|x p]]; [congruence| |cbn; lia]. intros _ [_ [N E]]. cbn in E. subst. tauto.
Qed.

Section MakeSentence.
Variable gr : option (text -> text -> bool -> Z).
Variable pen : Z.
Variable cmp : line -> line -> bool.
Variable preceding : text.

(** every grammar, comparison, word graph and length *)
Theorem make_sentence_chain wg total s :
  make_sentence gr pen cmp preceding wg total = Some s ->
  exists o, wchain wg total o total s /\ (o = 0 \/ (gr = None /\ eend wg o)).
Proof.
  unfold make_sentence. destruct gr as [q|] eqn:G.
  - intros H. exists 0. split; [now apply (beam_sentence_chain (Some q) pen cmp preceding)|now left].
  - intros H. destruct (dp_sentence_chain None pen cmp preceding wg total s H) as [_ [o [H1 [H2|H2]]]]; exists o; auto.
Qed.

Theorem make_sentence_path_ok_no_empty wg total s :
  wg_det wg -> wg_no_empty wg ->
  make_sentence gr pen cmp preceding wg total = Some s -> wg_path_ok wg 0 total s = true.
Proof.
  intros Hd Hn H. destruct (make_sentence_chain wg total s H) as [o [W [->|[_ [s0 [ends [H1 H2]]]]]]].
  - now apply (wchain_path_ok wg total Hd).
  - exfalso. now apply (Hn s0 ends o [] H1 H2).
Qed.

Theorem make_sentence_path_ok_grounded wg total s :
  wg_det wg -> grounded wg total ->
  make_sentence gr pen cmp preceding wg total = Some s -> wg_path_ok wg 0 total s = true.
Proof.
  intros Hd Hg. unfold make_sentence. destruct gr as [q|].
  - intros H. apply (wchain_path_ok wg total Hd). now apply (beam_sentence_chain (Some q) pen cmp preceding).
  - intros H. apply (wchain_path_ok wg total Hd). now apply (dp_sentence_chain_grounded None pen cmp preceding wg total s Hg).
Qed.

End MakeSentence.

(** ** (b) as an equivalence, and what happens for an unreachable end: [states.find(total_length)] fails or finds an
    empty line, MakeSentence returns a null pointer, the translator shows no sentence *)
Theorem dp_sentence_iff pen cmp preceding wg total :
  wg_sorted wg -> wg_forward wg -> wg_no_empty wg ->
  ((exists s, dp_sentence None pen cmp preceding wg total = Some s) <->
   (exists p, 2 <= length p /\ wchain wg total 0 total p)).
Proof.
  intros Hs Hf Hn. split.
  - intros [s H]. destruct (dp_sentence_chain None pen cmp preceding wg total s H) as [N [o [W [->|[s0 [ends [H1 H2]]]]]]].
    + exists s. split; [now apply (wchain_two wg total)|exact W].
    + exfalso. now apply (Hn s0 ends o [] H1 H2).
  - intros [p [L W]]. apply (dp_sentence_complete pen cmp preceding wg total p Hs Hf); [|exact W]. destruct p; [cbn in L; lia|discriminate].
Qed.

Corollary dp_sentence_none_iff_unreachable pen cmp preceding wg total :
  wg_sorted wg -> wg_forward wg -> wg_no_empty wg ->
  (dp_sentence None pen cmp preceding wg total = None <-> ~ exists p, 2 <= length p /\ wchain wg total 0 total p).
Proof.
  intros Hs Hf Hn. rewrite <- (dp_sentence_iff pen cmp preceding wg total Hs Hf Hn).
  destruct (dp_sentence None pen cmp preceding wg total) as [s|]; split; try discriminate; try reflexivity.
  - intros H. exfalso. apply H. now exists s.
  - intros _ [s' H]. discriminate.
Qed.

(** ** the unrestricted statement "the sentence starts at 0" is FALSE of the faithful model: an edge without entries
    creates the state of its end position, and the dynamic programme then starts a line there.
    0 -[no entry]-> 1 -[X]-> 2: the sentence is "X", reported as covering [0, 2).  Replayed on rime::Poet by the
    direct stream of the check; no translator builds such a graph (theorems [script_wgraph_*], [table_wgraph_*]). *)
Definition qx : dentry := mkDE [88%N] [7] 0%Z 0 0.
Definition quirk_wg : wgraph := [(0, [(1, [])]); (1, [(2, [qx])])].

Theorem dp_sentence_from_zero_refuted :
  wg_map quirk_wg /\ wg_sorted quirk_wg /\ wg_forward quirk_wg /\
  dp_sentence None 0%Z compare_weight [] quirk_wg 2 = Some [(qx, 2)] /\
  wg_path_ok quirk_wg 0 2 [(qx, 2)] = false /\ wg_path_ok quirk_wg 1 2 [(qx, 2)] = true.
Proof.
  split; [split; [repeat constructor; cbn; intuition discriminate|]|].
  { intros s ends [H|[H|[]]]; injection H as <- <-; repeat constructor; cbn; tauto. }
  split; [repeat constructor|]. split; [|now vm_compute].
  intros s ends e ents [H|[H|[]]]; injection H as <- <-; intros [H|[]]; injection H as <- <-; lia.
Qed.

(** ** non-vacuity: two competing segmentations of [0, 3) and the excluded single word *)
Definition eA : dentry := mkDE [65%N] [1] 5%Z 0 0.
Definition eB : dentry := mkDE [66%N] [2] 1%Z 0 0.
Definition eC : dentry := mkDE [67%N] [3] 2%Z 0 0.
Definition eD : dentry := mkDE [68%N] [4] 7%Z 0 0.
Definition eE : dentry := mkDE [69%N] [5] 100%Z 0 0.
Definition ex_wg : wgraph := [(0, [(1, [eA]); (2, [eC]); (3, [eE])]); (1, [(3, [eB])]); (2, [(3, [eD])])].
(* the same with C D as heavy as A B *)
Definition eD' : dentry := mkDE [68%N] [4] 4%Z 0 0.
Definition ex_wg_tie : wgraph := [(0, [(1, [eA]); (2, [eC]); (3, [eE])]); (1, [(3, [eB])]); (2, [(3, [eD'])])].

Lemma ex_wg_hyps : wg_map ex_wg /\ wg_sorted ex_wg /\ wg_forward ex_wg /\ wg_no_empty ex_wg /\
  wchain ex_wg 3 0 3 [(eA, 1); (eB, 3)] /\ wchain ex_wg 3 0 3 [(eC, 2); (eD, 3)].
Proof.
  split; [split; [repeat constructor; cbn; intuition discriminate|]|].
  { intros s ends [H|[H|[H|[]]]]; injection H as <- <-; repeat constructor; cbn; intuition discriminate. }
  split; [repeat constructor|].
  split.
  { intros s ends e ents [H|[H|[H|[]]]]; injection H as <- <-; cbn; intros H; repeat (destruct H as [H|H]; [injection H as <- <-; lia|]);
      destruct H. }
  split.
  { intros s ends e ents [H|[H|[H|[]]]]; injection H as <- <-; cbn; intros H; repeat (destruct H as [H|H]; [injection H as <- <-; discriminate|]);
      destruct H. }
  split; cbn [wchain]; repeat split; try lia; unfold wedge, ex_wg.
  - exists [(1, [eA]); (2, [eC]); (3, [eE])], [eA]. cbn. auto.
  - exists [(3, [eB])], [eB]. cbn. auto.
  - exists [(1, [eA]); (2, [eC]); (3, [eE])], [eC]. cbn. auto.
  - exists [(3, [eD])], [eD]. cbn. auto.
Qed.

(* the heavier segmentation wins although the single word E is far heavier; the penalty is paid per word *)
Example ex_dp_best : dp_sentence None (-10)%Z compare_weight [] ex_wg 3 = Some [(eC, 2); (eD, 3)] /\
                     path_weight (-10)%Z [(eC, 2); (eD, 3)] = (-11)%Z /\ path_weight (-10)%Z [(eA, 1); (eB, 3)] = (-14)%Z.
Proof. now vm_compute. Qed.

(* a tie: CompareWeight keeps the line that was stored first (start positions ascending: A B over start 1 comes
   before C D over start 2); LeftAssociateCompare prefers the longer first word (word lengths [2;1] over [1;2]) *)
Example ex_dp_tie : dp_sentence None (-10)%Z compare_weight [] ex_wg_tie 3 = Some [(eA, 1); (eB, 3)] /\
                    dp_sentence None (-10)%Z left_associate_compare [] ex_wg_tie 3 = Some [(eC, 2); (eD', 3)].
Proof. now vm_compute. Qed.

(* an end that only the single word reaches, and an unreachable end: no sentence *)
Example ex_dp_none : dp_sentence None (-10)%Z compare_weight [] [(0, [(3, [eE])])] 3 = None /\
                     dp_sentence None (-10)%Z compare_weight [] ex_wg 4 = None.
Proof. now vm_compute. Qed.

(* BeamSearch with a grammar that likes "C" after nothing and dislikes everything else *)
Example ex_beam : make_sentence (Some (fun ctx w _ => match ctx, w with [], [67%N] => 0%Z | _, _ => (-10)%Z end)) 0%Z
                                compare_weight [] ex_wg_tie 3 = Some [(eC, 2); (eD', 3)].
Proof. now vm_compute. Qed.

(** ** the tie-break, exactly: the update happens only on a STRICT improvement, so a line that compares "not less" -
    equal weight under CompareWeight; equal weight, word count and word lengths under LeftAssociateCompare - never
    replaces the stored one; the stored one is the first such line in processing order (start positions ascending,
    end positions in map order, entries in list order) *)
Lemma better_keeps_first cmp best nl : best <> [] -> cmp best nl = false -> better cmp best nl = best.
Proof. intros N H. unfold better. destruct best; [congruence|]. cbn [l_empty orb]. now rewrite H. Qed.

Lemma better_takes_strictly_better cmp best nl : cmp best nl = true -> better cmp best nl = nl.
Proof. intros H. unfold better. rewrite H. now rewrite orb_true_r. Qed.

Lemma compare_weight_tie a b : compare_weight a b = false /\ compare_weight b a = false <-> l_weight a = l_weight b.
Proof. unfold compare_weight. rewrite !Z.ltb_ge. lia. Qed.
