(** C07 - data handed to the lookup code: syllable graph, table index, prism, dictionary entries.

    Everything the dictionary lookup consumes is taken ABSTRACTLY here:
    - a syllable graph is the structure the syllabifier hands over ([interpreted_length], the [edges] map
      start -> end -> syllable -> properties and its transpose [indices] : start -> syllable -> list of
      properties ordered by descending end position);
    - the table is the 3-level index as a finite map from index codes (1..3 syllable ids) to nodes (entries in
      stored order, "has a next level", and under a 3-syllable code the tail page of long entries with their
      extra code);
    - the prism is the list of its keys in the order Prism::ExpandSearch enumerates them (level order), each with
      its spellings (syllable id, spelling type).
    No proofs in this file. *)
From Coq Require Import List Arith ZArith NArith Bool.
Import ListNotations.

Definition syll := nat.
Definition code := list syll.
Definition text := list N.          (* bytes *)

(** SpellingProperties / EdgeProperties (algo/spelling.h, algo/syllabifier.h) *)
Record props := mkProps { p_end : nat; p_type : nat; p_cred : Z; p_corr : bool }.

Definition spelling_index := list (syll * list props).

Record graph := mkGraph {
  g_input_len : nat;
  g_ilen : nat;                                               (* interpreted_length *)
  g_edges : list (nat * list (nat * list (syll * props)));     (* EdgeMap, key order *)
  g_indices : list (nat * spelling_index)                     (* SpellingIndices, key order *)
}.

(** table::Entry, table::LongEntry and the index nodes (dict/table.h) *)
Record tentry := mkTE { te_text : text; te_w : Z }.
Record lentry := mkLE { le_extra : code; le_ent : tentry }.
Record node := mkNode { n_code : code; n_ents : list tentry; n_next : bool; n_tail : list lentry }.
Definition table := list node.

(** prism: keys in ExpandSearch order with (syllable id, spelling type) *)
Definition prism := list (text * list (syll * nat)).

(** finite maps with nat keys *)
Fixpoint assoc_nat {A} (k : nat) (l : list (nat * A)) : option A :=
  match l with
  | [] => None
  | (k', v) :: r => if k =? k' then Some v else assoc_nat k r
  end.

Definition assoc_list {A} (k : nat) (l : list (nat * list A)) : list A :=
  match assoc_nat k l with Some v => v | None => [] end.

Fixpoint code_eqb (a b : code) : bool :=
  match a, b with
  | [], [] => true
  | x :: a', y :: b' => (x =? y) && code_eqb a' b'
  | _, _ => false
  end.

Fixpoint text_eqb (a b : text) : bool :=
  match a, b with
  | [], [] => true
  | x :: a', y :: b' => (N.eqb x y) && text_eqb a' b'
  | _, _ => false
  end.

Fixpoint find_node (t : table) (c : code) : option node :=
  match t with
  | [] => None
  | n :: r => if code_eqb (n_code n) c then Some n else find_node r c
  end.

Definition node_ents (t : table) (c : code) : list tentry :=
  match find_node t c with Some n => n_ents n | None => [] end.
Definition node_next (t : table) (c : code) : bool :=
  match find_node t c with Some n => n_next n | None => false end.
Definition node_tail (t : table) (c : code) : list lentry :=
  match find_node t c with Some n => n_tail n | None => [] end.

(** std::map<int, vector<V>>: [m[k].push_back(v)] keeping keys ascending *)
Fixpoint map_push {A} (k : nat) (v : A) (m : list (nat * list A)) : list (nat * list A) :=
  match m with
  | [] => [(k, [v])]
  | (k', vs) :: m' =>
      if k <? k' then (k, [v]) :: m
      else if k =? k' then (k', vs ++ [v]) :: m'
      else (k', vs) :: map_push k v m'
  end.

Definition group {A} (items : list (nat * A)) : list (nat * list A) :=
  fold_left (fun m kv => map_push (fst kv) (snd kv) m) items [].
