(** C07 - LazyTableTranslation's fetch-more protocol (limits 10, 100, 1000, ... with Skip) for any number of keys:
    the first fetch is drained completely, best head first; everything shown afterwards stems from keys beyond the
    first ten. *)
From Coq Require Import List Arith ZArith NArith Bool Lia Sorted Permutation.
From RimeV Require Import Lookup.Defs Lookup.Model Lookup.Spec Lookup.MapProofs Lookup.IterProofs Lookup.ScriptProofs
     Lookup.TableProofs.
Import ListNotations.

Section Lazy.
Variables (presort : bool) (pr : prism) (syls : list (nat * text)) (t : table) (inp : text).

Definition keys_of := filter (fun ks : text * list (syll * nat) => is_prefix inp (fst ks)) pr.
Definition chunks_of (ks : list (text * list (syll * nat))) : list chunk :=
  flat_map (fun ks => words_chunks syls t (length inp) (length (fst ks)) (snd ks)) ks.

Lemma lookup_words_limit limit :
  lookup_words pr syls t inp true limit =
  (length (if limit =? 0 then keys_of else firstn limit keys_of), chunks_of (if limit =? 0 then keys_of else firstn limit keys_of)).
Proof. unfold lookup_words, expand_search, keys_of, chunks_of. destruct (limit =? 0); reflexivity. Qed.

Lemma chunks_of_app a b : chunks_of (a ++ b) = chunks_of a ++ chunks_of b.
Proof. unfold chunks_of. apply flat_map_app. Qed.

Definition B1 := chunks_of (firstn 10 keys_of).
Definition R := chunks_of (skipn 10 keys_of).

Lemma full_split : snd (lookup_words pr syls t inp true 0) = B1 ++ R.
Proof. rewrite lookup_words_limit. cbn [Nat.eqb snd]. unfold B1, R. rewrite <- chunks_of_app. now rewrite firstn_skipn. Qed.

(** for every limit >= 10 the fetched chunks are B1 followed by chunks of R's keys *)
Lemma chunks_limit_split limit : 10 <= limit ->
  exists ks, snd (lookup_words pr syls t inp true limit) = B1 ++ chunks_of ks /\ incl ks (skipn 10 keys_of).
Proof.
  intros H. rewrite lookup_words_limit. destruct (limit =? 0) eqn:E; [apply Nat.eqb_eq in E; lia|]. cbn [snd].
  exists (skipn 10 (firstn limit keys_of)). split.
  - unfold B1. rewrite <- chunks_of_app. f_equal.
    rewrite <- (firstn_skipn 10 (firstn limit keys_of)) at 1. f_equal.
    rewrite firstn_firstn. now rewrite Nat.min_l by lia.
  - intros x Hx. rewrite <- (firstn_skipn limit keys_of). rewrite skipn_app. apply in_or_app. left. exact Hx.
Qed.

Lemma words_chunks_nonempty cl ml sps : Forall nonempty (words_chunks syls t cl ml sps).
Proof.
  rewrite Forall_forall. intros c Hc. apply words_chunks_spec in Hc. destruct Hc as [sid [_ [NE ->]]]. exact NE.
Qed.

Lemma chunks_of_nonempty ks : Forall nonempty (chunks_of ks).
Proof.
  unfold chunks_of. rewrite Forall_forall. intros c Hc. apply in_flat_map in Hc. destruct Hc as [k [_ Hc]].
  pose proof (words_chunks_nonempty (length inp) (length (fst k)) (snd k)) as F. rewrite Forall_forall in F. now apply F.
Qed.

(** * Skip *)
Lemma skip_0 it : skip it 0 = it.
Proof. destruct it; reflexivity. Qed.

Lemma skip_app_ge a b n : Forall nonempty a -> total a <= n -> skip (a ++ b) n = skip b (n - total a).
Proof.
  revert n. induction a as [|c a IH]; intros n F H; cbn [app total fold_right]; [now rewrite Nat.sub_0_r|].
  inversion F as [|? ? Hc Ha]; subst. cbn [total fold_right] in H. fold (total a) in *.
  assert (0 < length (c_ents c)) by (unfold nonempty in Hc; destruct (c_ents c); [congruence|cbn; lia]).
  destruct n as [|n]; [lia|]. cbn [skip].
  destruct (S n <? length (c_ents c)) eqn:E; [apply Nat.ltb_lt in E; lia|].
  rewrite IH by (try assumption; lia). f_equal. lia.
Qed.

(** * chunks that stem from R: same code, credibility, remaining code, match size; entries among R's *)
Definition from_R (c' : chunk) : Prop :=
  exists c, In c R /\ c_code c' = c_code c /\ c_cred c' = c_cred c /\ c_remlen c' = c_remlen c /\
            c_match c' = c_match c /\ c_ents c' <> [] /\ incl (c_ents c') (c_ents c).

Lemma from_R_set_ents c' l : from_R c' -> l <> [] -> incl l (c_ents c') -> from_R (set_ents c' l).
Proof.
  intros (c & H1 & H2 & H3 & H4 & H5 & H6 & H7) NE I. exists c. cbn. repeat split; auto. eapply incl_tran; eassumption.
Qed.

Lemma skip_from_R it n : Forall from_R it -> Forall from_R (skip it n).
Proof.
  revert n. induction it as [|c r IH]; intros n F; [destruct n; constructor|].
  inversion F as [|? ? Hc Hr]; subst. destruct n as [|n]; [exact F|]. cbn [skip].
  destruct (S n <? length (c_ents c)) eqn:E; [|now apply IH].
  apply Nat.ltb_lt in E. constructor; [|exact Hr]. apply from_R_set_ents; [exact Hc| |].
  - intros E0. apply (f_equal (@length _)) in E0. rewrite skipn_length in E0. cbn in E0. lia.
  - intros x Hx. rewrite <- (firstn_skipn (S n) (c_ents c)). apply in_or_app. now right.
Qed.

Lemma iter_next_from_R it : Forall from_R it -> Forall from_R (iter_next it).
Proof.
  intros F. destruct it as [|c r]; [constructor|]. inversion F as [|? ? Hc Hr]; subst. unfold iter_next.
  destruct (c_ents c) as [|e [|e2 tl]] eqn:E; try (eapply Permutation_Forall; [apply sort_head_perm|exact Hr]).
  eapply Permutation_Forall; [apply sort_head_perm|]. constructor; [|exact Hr].
  apply from_R_set_ents; [exact Hc|discriminate|]. rewrite E. intros x Hx. now right.
Qed.

Lemma chunks_of_R_from_R ks : incl ks (skipn 10 keys_of) -> Forall from_R (chunks_of ks).
Proof.
  intros I. rewrite Forall_forall. intros c Hc. exists c.
  assert (In c R).
  { unfold R, chunks_of in *. apply in_flat_map in Hc. destruct Hc as [k [Hk Hc]]. apply in_flat_map. exists k. auto. }
  pose proof (chunks_of_nonempty ks) as NE. rewrite Forall_forall in NE.
  repeat split; auto using incl_refl. exact (NE c Hc).
Qed.

(** the state after the first batch: only chunks from R, the limit is 0 or at least 10, the count covers B1 *)
Definition later (st : lazy_state) : Prop :=
  Forall from_R (fst (fst st)) /\ (snd (fst st) = 0 \/ 10 <= snd (fst st)) /\ total B1 <= snd st.

Lemma total_app a b : total (a ++ b) = total a + total b.
Proof. induction a as [|c a IH]; cbn [app total fold_right]; [reflexivity|]. fold (total (a ++ b)) (total a). lia. Qed.

Lemma fetch_more_later st : later st -> later (fetch_more presort pr syls t inp st).
Proof.
  destruct st as [[it limit] cnt]. intros (F & HL & HC). cbn [fst snd] in *. unfold fetch_more.
  destruct (limit =? 0) eqn:E0; [repeat split; assumption|]. apply Nat.eqb_neq in E0.
  assert (L10 : 10 <= limit) by lia.
  destruct (chunks_limit_split limit L10) as [ks [Ek Ik]].
  assert (HL' : (if fst (lookup_words pr syls t inp true limit) <? limit then 0 else limit * 10) = 0 \/
                10 <= (if fst (lookup_words pr syls t inp true limit) <? limit then 0 else limit * 10)).
  { destruct (fst (lookup_words pr syls t inp true limit) <? limit); [now left|right; lia]. }
  destruct (cnt <? total (snd (lookup_words pr syls t inp true limit))) eqn:EC.
  - split; [|split; [exact HL'|]]; cbn [fst snd].
    + rewrite Ek. rewrite skip_app_ge by (try apply chunks_of_nonempty; exact HC).
      assert (S : Forall from_R (skip (chunks_of ks) (cnt - total B1))) by (apply skip_from_R; now apply chunks_of_R_from_R).
      destruct presort; cbn [maybe_sort]; [eapply Permutation_Forall; [apply sort_head_perm|exact S]|exact S].
    + rewrite Ek, total_app. lia.
  - repeat split; assumption.
Qed.

(** everything drained from such a state is an entry of a chunk of R *)
Theorem later_sound fuel st d :
  later st -> In d (lazy_drain presort pr syls t inp fuel st) ->
  exists c te, In c R /\ In te (c_ents c) /\ d = mk_dentry c te.
Proof.
  revert st. induction fuel as [|f IH]; intros [[it limit] cnt] J Hd; [destruct Hd|].
  cbn [lazy_drain] in Hd. destruct (iter_peek it) as [d0|] eqn:EP; [|destruct Hd].
  destruct Hd as [<-|Hd].
  - destruct it as [|c r]; [discriminate|]. cbn [iter_peek] in EP. destruct (c_ents c) as [|e tl] eqn:E; [discriminate|].
    injection EP as <-. destruct J as (F & _). cbn [fst] in F. inversion F as [|? ? (c0 & H1 & H2 & H3 & H4 & H5 & H6 & H7) _]; subst.
    exists c0, e. split; [exact H1|]. split; [apply H7; rewrite E; now left|].
    unfold mk_dentry. now rewrite H2, H3, H4, H5.
  - eapply IH; [|exact Hd]. destruct J as (F & HL & HC). cbn [fst snd] in *.
    pose proof (iter_next_from_R it F) as F1.
    destruct (iter_next it) as [|c1 r1] eqn:E1.
    + apply fetch_more_later. repeat split; assumption.
    + repeat split; assumption.
Qed.

(** * draining one fetched iterator completely, then fetching again *)
Lemma lazy_split fuel it limit cnt :
  Forall nonempty it -> it <> [] -> total it < fuel ->
  lazy_drain presort pr syls t inp fuel (it, limit, cnt) =
  drain_all it ++ lazy_drain presort pr syls t inp (fuel - total it) (fetch_more presort pr syls t inp ([], limit, cnt)).
Proof.
  revert it. induction fuel as [|f IH]; intros it F NE H; [lia|].
  destruct it as [|c r]; [congruence|]. inversion F as [|? ? Hc Hr]; subst.
  destruct (c_ents c) as [|e tl] eqn:E; [contradiction|].
  assert (T : total (c :: r) = S (total (iter_next (c :: r)))).
  { rewrite <- !all_entries_length. rewrite (Permutation_length (iter_next_perm c r e tl E)).
    cbn [all_entries flat_map]. unfold entries_of at 1. rewrite E. cbn. now rewrite !app_length, !map_length. }
  cbn [lazy_drain]. unfold drain_all. rewrite T. cbn [drain]. rewrite (iter_peek_some c r e tl E). cbn [app]. f_equal.
  pose proof (iter_next_nonempty (c :: r) F) as F1.
  destruct (iter_next (c :: r)) as [|c1 r1] eqn:E1.
  - cbn [total fold_right drain app]. replace (S f - 1) with f by lia. reflexivity.
  - rewrite IH; [|exact F1|discriminate|lia]. unfold drain_all. f_equal.
Qed.

End Lazy.

(** * exact matches first, then completions: any number of extending keys *)
Theorem table_exact_then_completion pr syls t code :
  table_sorted t ->
  let b1 := B1 pr syls t code in
  let r := R pr syls t code in
  snd (lookup_words pr syls t code true 0) = b1 ++ r /\
  exists rest,
    table_entries true true pr syls t code = drain_all (sort_head b1) ++ rest /\
    Permutation (drain_all (sort_head b1)) (all_entries b1) /\
    StronglySorted dle (drain_all (sort_head b1)) /\
    forall d, In d rest -> exists c te, In c r /\ In te (c_ents c) /\ d = mk_dentry c te.
Proof.
  intros TS b1 r. split; [apply full_split|].
  assert (NE1 : Forall nonempty b1) by apply chunks_of_nonempty.
  assert (OK : Forall chunk_ok b1).
  { rewrite Forall_forall. intros c Hc. unfold b1, B1, chunks_of in Hc. apply in_flat_map in Hc.
    destruct Hc as [k [_ Hc]]. apply words_chunks_spec in Hc. destruct Hc as [sid [_ [NE ->]]].
    split; [exact NE|]. split; [apply TS|]. unfold chunk_wf. cbn. lia. }
  assert (NES : Forall nonempty (sort_head b1)) by (eapply Permutation_Forall; [apply sort_head_perm|exact NE1]).
  assert (TT : total (sort_head b1) = total b1).
  { rewrite <- !all_entries_length. apply Permutation_length, all_entries_perm. symmetry. apply sort_head_perm. }
  assert (E10 : snd (lookup_words pr syls t code true 10) = b1).
  { rewrite lookup_words_limit. reflexivity. }
  unfold table_entries, fetch_more. cbn [Nat.eqb]. rewrite E10.
  set (limit1 := if fst (lookup_words pr syls t code true 10) <? 10 then 0 else 10 * 10).
  destruct (0 <? total b1) eqn:ET.
  - apply Nat.ltb_lt in ET. rewrite skip_0. cbn [maybe_sort].
    assert (NEs : sort_head b1 <> []) by (intros E; rewrite E in TT; cbn [total fold_right] in TT; lia).
    assert (FU : total (sort_head b1) < lazy_fuel pr syls t code).
    { unfold lazy_fuel. rewrite (full_split pr syls t code), total_app. fold b1. rewrite TT. lia. }
    rewrite (lazy_split true pr syls t code _ _ limit1 (total b1) NES NEs FU).
    eexists. split; [reflexivity|]. split; [|split].
    + etransitivity; [apply drain_all_perm; exact NES|apply all_entries_perm; symmetry; apply sort_head_perm].
    + now apply drain_all_sorted.
    + intros d Hd. eapply (later_sound true pr syls t code); [|exact Hd].
      apply fetch_more_later. split; [constructor|]. cbn [fst snd]. split; [|fold b1; lia].
      unfold limit1. destruct (fst (lookup_words pr syls t code true 10) <? 10); [now left|right; lia].
  - apply Nat.ltb_ge in ET. assert (b1 = []).
    { destruct b1 as [|c l]; [reflexivity|]. inversion NE1 as [|? ? Hc _]; subst. unfold nonempty in Hc. cbn in ET.
      destruct (c_ents c); [contradiction|cbn in ET; lia]. }
    rewrite H. exists []. cbn. split; [reflexivity|]. split; [constructor|]. split; [constructor|intros d []].
Qed.

(** * the stronger reading - ONE globally sorted list of all chunks' entries - is false of the faithful model as
    soon as more than ten keys extend the input: a later fetch is drained after the earlier one.  (The property asks
    for no order among completions, so this is not a violation; the witness below has eleven keys, the eleventh with
    the best weight.) *)
Definition global_order_full : Prop := forall pr syls t code,
  table_sorted t ->
  let chunks := snd (lookup_words pr syls t code true 0) in
  Permutation (table_entries true true pr syls t code) (all_entries chunks) /\
  StronglySorted dle (table_entries true true pr syls t code).

Definition kltb (a b : key) : bool :=
  let '(a1, a2, a3) := a in let '(b1, b2, b3) := b in
  (a1 <? b1) || ((a1 =? b1) && ((a2 <? b2) || ((a2 =? b2) && (a3 <? b3)%Z))).
Definition dleb (a b : dentry) : bool := negb (kltb (dkey b) (dkey a)).

Lemma dle_dleb a b : dle a b -> dleb a b = true.
Proof.
  unfold dle, kle, dleb. destruct (dkey a) as [[a1 a2] a3], (dkey b) as [[b1 b2] b3]. unfold klt, kltb. intros H.
  destruct (Nat.ltb_spec b1 a1), (Nat.eqb_spec b1 a1), (Nat.ltb_spec b2 a2), (Nat.eqb_spec b2 a2), (Z.ltb_spec b3 a3);
    cbn; try reflexivity; exfalso; apply H; lia.
Qed.

Fixpoint sorted_dleb (l : list dentry) : bool :=
  match l with [] => true | a :: r => forallb (dleb a) r && sorted_dleb r end.

Lemma sorted_dleb_complete l : StronglySorted dle l -> sorted_dleb l = true.
Proof.
  induction 1 as [|a l S IH F]; [reflexivity|]. cbn. rewrite IH, andb_true_r. apply forallb_forall.
  rewrite Forall_forall in F. intros b Hb. apply dle_dleb. now apply F.
Qed.

Definition e11_prism : prism := map (fun k => ([97%N; N.of_nat k], [(k - 1, 0)])) (seq 1 11).
Definition e11_syls : list (nat * text) := map (fun i => (i, [97%N; N.of_nat (S i)])) (seq 0 11).
Definition e11_table : table := map (fun i => mkNode [i] [mkTE [N.of_nat (65 + i)] (Z.of_nat i)] false []) (seq 0 11).

Lemma single_entries_sorted t : Forall (fun n => length (n_ents n) <= 1) t -> table_sorted t.
Proof.
  intros F c. unfold node_ents, weights_sorted. destruct (find_node t c) as [n|] eqn:E; [|constructor].
  assert (In n t).
  { clear - E. induction t as [|m t IH]; cbn in E; [discriminate|]. destruct (code_eqb (n_code m) c); [injection E as <-; now left|right; auto]. }
  rewrite Forall_forall in F. specialize (F n H). destruct (n_ents n) as [|x [|y l]]; cbn in F; try lia; repeat constructor.
Qed.

Theorem global_order_full_refuted : ~ global_order_full.
Proof.
  intros H. destruct (H e11_prism e11_syls e11_table [97%N]) as [_ S].
  - apply single_entries_sorted. unfold e11_table. rewrite Forall_forall. intros n Hn. apply in_map_iff in Hn.
    destruct Hn as [i [<- _]]. cbn. lia.
  - apply sorted_dleb_complete in S. vm_compute in S. discriminate.
Qed.

(* what the model shows on that instance: weights 9..0 of the first ten keys, then 10 *)
Example e11_entries : map d_w (table_entries true true e11_prism e11_syls e11_table [97%N])
                      = [9; 8; 7; 6; 5; 4; 3; 2; 1; 0; 10]%Z.
Proof. reflexivity. Qed.
