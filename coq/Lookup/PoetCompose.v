(** C07 - the modelled Poet on the word graphs the two translators build: the oracle hypothesis of the C07 theorems
    ([wg_path_ok wg 0 total s] for every answer of the sentence maker) is DISCHARGED for the script translator's graph
    (no edge without entries when max_homophones >= 1; with max_homophones = 0 no sentence at all) and for the table
    translator's graph (every start position is a vertex reached over an edge with entries). *)
From Coq Require Import List Arith ZArith NArith Bool Lia Sorted Permutation.
From RimeV Require Import Lookup.Defs Lookup.Model Lookup.Spec Lookup.MapProofs Lookup.QueryProofs Lookup.IterProofs
     Lookup.LookupProofs Lookup.ScriptProofs Lookup.TableProofs Lookup.Poet Lookup.PoetProofs.
Import ListNotations.
Local Open Scope nat_scope.

(** * the script translator's word graph *)
Lemma assoc_map_fun {A B} (F : nat -> B) (l : list (nat * A)) s :
  In s (map fst l) -> assoc_nat s (map (fun x : nat * A => (fst x, F (fst x))) l) = Some (F s).
Proof.
  induction l as [|[k v] l IH]; [intros []|]. cbn [map fst assoc_nat]. destruct (s =? k) eqn:E.
  - apply Nat.eqb_eq in E. now subst.
  - intros [H|H]; [apply Nat.eqb_neq in E; congruence|now apply IH].
Qed.

Definition script_ends (g : graph) (t : table) (mh s : nat) : list (nat * list dentry) :=
  map (fun ei : nat * list chunk => (fst ei, firstn mh (drain_all (snd ei)))) (lookup g t s false).

Lemma script_wgraph_in g t mh s ends : In (s, ends) (script_wgraph g t mh) -> ends = script_ends g t mh s /\ In s (map fst (g_edges g)).
Proof.
  unfold script_wgraph. intros H. apply in_map_iff in H. destruct H as [[k v] [E H]]. cbn [fst] in E. injection E as -> <-.
  split; [reflexivity|]. now apply (in_map fst) in H.
Qed.

Lemma script_wgraph_det g t mh : wg_det (script_wgraph g t mh).
Proof.
  intros s ends e ents Hs He. destruct (script_wgraph_in g t mh s ends Hs) as [-> Hk]. unfold assoc_list at 2.
  change (script_wgraph g t mh)
    with (map (fun x : nat * list (nat * list (syll * props)) => (fst x, script_ends g t mh (fst x))) (g_edges g)).
  rewrite (assoc_map_fun (script_ends g t mh) (g_edges g) s Hk).
  unfold assoc_list. rewrite (in_assoc_nat_sorted e ents (script_ends g t mh s)); [reflexivity| |exact He].
  unfold keys_sorted, script_ends. rewrite map_map. cbn [fst].
  change (map (fun x : nat * list chunk => fst x) ?l) with (map fst l). apply lookup_keys_sorted.
Qed.

Lemma lookup_chunks_nonempty g t start predict e c :
  wf_graph g -> start < g_ilen g -> In (e, c) (lookup_chunks g t start predict) -> nonempty c.
Proof.
  intros W Hs H. apply lookup_chunks_in in H. destruct H as [e0 [a [Hq Hc]]].
  apply query_sound_complete in Hq; [|exact W|exact Hs].
  destruct Hq as [[ic [pos [cred [x [p [Wp [L [He [-> [-> NE]]]]]]]]]]|[ic [cred [Wp [L [Hi [-> NE]]]]]]].
  - cbn in Hc. destruct Hc as [Hc|[]]. injection Hc as <- <-. exact NE.
  - cbn [chunks_of_item snd fst] in Hc. apply in_flat_map in Hc. destruct Hc as [le [Hle Hc]].
    destruct (fst (fst (match_extra g predict (le_extra le) 0 e0))); [|destruct Hc].
    destruct Hc as [Hc|[]]. injection Hc as <- <-. unfold nonempty. cbn. discriminate.
Qed.

Lemma lookup_drain_nonempty g t start predict e it :
  wf_graph g -> In (e, it) (lookup g t start predict) -> drain_all it <> [].
Proof.
  intros W H. destruct (le_lt_dec (g_ilen g) start) as [Hs|Hs].
  { rewrite lookup_start_out in H by exact Hs. destruct H. }
  apply lookup_in in H. destruct H as [cs [Hin ->]].
  assert (F : Forall nonempty cs).
  { rewrite Forall_forall. intros c Hc. apply (lookup_chunks_nonempty g t start predict e c W Hs). apply group_in. eauto. }
  assert (N : cs <> []).
  { pose proof (group_nonempty (lookup_chunks g t start predict)) as G. rewrite Forall_forall in G. apply (G _ Hin). }
  assert (F' : Forall nonempty (sort_head cs)) by (eapply Permutation_Forall; [apply sort_head_perm|exact F]).
  pose proof (Permutation_length (drain_all_perm _ F')) as L. rewrite all_entries_length in L.
  assert (T : 0 < total (sort_head cs)).
  { pose proof (Permutation_length (all_entries_perm _ _ (sort_head_perm cs))) as L2. rewrite !all_entries_length in L2.
    rewrite <- L2. destruct cs as [|c cs]; [congruence|]. inversion F as [|? ? Nc _]; subst. unfold nonempty in Nc.
    cbn [total fold_right]. destruct (c_ents c); [congruence|cbn; lia]. }
  intros E. rewrite E in L. cbn in L. lia.
Qed.

Lemma script_wgraph_no_empty g t mh : wf_graph g -> 0 < mh -> wg_no_empty (script_wgraph g t mh).
Proof.
  intros W Hm s ends e ents Hs He. destruct (script_wgraph_in g t mh s ends Hs) as [-> _].
  unfold script_ends in He. apply in_map_iff in He. destruct He as [[e' it] [E Hin]]. cbn [fst snd] in E. injection E as -> <-.
  pose proof (lookup_drain_nonempty g t s false e it W Hin) as N.
  destruct (drain_all it) as [|d l]; [congruence|]. destruct mh; [lia|]. discriminate.
Qed.

Lemma script_wgraph_all_empty g t s ends e ents : In (s, ends) (script_wgraph g t 0) -> In (e, ents) ends -> ents = [].
Proof.
  intros Hs He. destruct (script_wgraph_in g t 0 s ends Hs) as [-> _].
  unfold script_ends in He. apply in_map_iff in He. destruct He as [[e' it] [E Hin]]. now injection E as _ <-.
Qed.

(** the oracle hypothesis, discharged: every grammar, comparison, penalty, max_homophones *)
Theorem script_poet_path_ok gr pen cmp preceding g t mh s :
  wf_graph g ->
  make_sentence gr pen cmp preceding (script_wgraph g t mh) (g_ilen g) = Some s ->
  wg_path_ok (script_wgraph g t mh) 0 (g_ilen g) s = true.
Proof.
  intros W H. destruct mh as [|mh].
  - unfold make_sentence in H. destruct gr as [q|].
    + apply (wchain_path_ok _ (g_ilen g) (script_wgraph_det g t 0)). now apply (beam_sentence_chain (Some q) pen cmp preceding).
    + exfalso. destruct (dp_sentence_chain None pen cmp preceding _ _ s H) as [N [o [Wc _]]].
      destruct s as [|[d e] r]; [congruence|]. destruct Wc as [[ends [ents [H1 [H2 H3]]]] _].
      rewrite (script_wgraph_all_empty g t o ends e ents H1 H2) in H3. destruct H3.
  - apply (make_sentence_path_ok_no_empty gr pen cmp preceding); [apply script_wgraph_det| |exact H].
    apply script_wgraph_no_empty; [exact W|lia].
Qed.

(** the sentence ScriptTranslation shows is a concatenation of spelled entries covering the interpreted input *)
Theorem script_poet_sentence_is_concatenation gr pen cmp preceding g t mh s :
  wf_graph g -> wf_table t ->
  make_sentence gr pen cmp preceding (script_wgraph g t mh) (g_ilen g) = Some s -> chain g t 0 (g_ilen g) s.
Proof. intros W WT H. apply (wg_path_chain g t mh W WT). now apply (script_poet_path_ok gr pen cmp preceding). Qed.

Theorem script_poet_no_foreign_candidate gr pen cmp preceding wordcompl mh g t c :
  wf_graph g -> wf_table t ->
  In c (script_query (make_sentence gr pen cmp preceding) wordcompl mh g t) ->
  phrase_ok g t c \/ completion_ok g t wordcompl c \/ sentence_ok g t c.
Proof.
  intros W WT. apply script_no_foreign_candidate_local; [exact W|exact WT|].
  intros s. now apply script_poet_path_ok.
Qed.

(** * the table translator's word graph (TableTranslator::MakeSentence) *)
Lemma NoDup_app_snoc {A} (l : list A) x : NoDup l -> ~ In x l -> NoDup (l ++ [x]).
Proof.
  induction l as [|a l IH]; intros N H; cbn; [constructor; [tauto|constructor]|].
  inversion N as [|? ? Na N']; subst. constructor.
  - intros C. apply in_app_or in C. destruct C as [C|[C|[]]]; [tauto|]. subst. apply H. now left.
  - apply IH; [exact N'|]. intros C. apply H. now right.
Qed.

Section TableGraph.
Variable mhg : nat.
Variable pr : prism.
Variable syls : list (nat * text).
Variable t : table.
Variable delims : text.
Variable inp : text.

(** the body of [for (const auto& m : reverse(matches))] of Model.ms_at, named *)
Definition ms_f (start_pos : nat) (active : text)
           (acc : list nat * list (nat * list dentry) * list (nat * list chunk)) (ks : text * list (syll * nat))
  : list nat * list (nat * list dentry) * list (nat * list chunk) :=
  let '(verts, same_start, coll) := acc in
  let mlen := length (fst ks) in
  let consumed := consume_delims delims (skipn mlen active) mlen in
  let end_pos := start_pos + consumed in
  let homographs := assoc_list end_pos same_start in
  let same_start0 := match assoc_nat end_pos same_start with
                     | Some _ => same_start
                     | None => same_start ++ [(end_pos, [])]
                     end in
  if mhg <=? length homographs then (verts, same_start0, coll)
  else
    let it := snd (lookup_words pr syls t (firstn mlen active) false 0) in
    match iter_peek it with
    | None => (verts, same_start0, coll)
    | Some _ =>
        (end_pos :: verts,
         map (fun eh : nat * list dentry =>
                if fst eh =? end_pos
                then (fst eh, snd eh ++ firstn (mhg - length homographs) (drain_all it)) else eh) same_start0,
         if start_pos =? 0 then coll_put consumed it coll else coll)
    end.

Lemma ms_at_eq (st : ms_state) start_pos :
  ms_at mhg pr syls t delims inp st start_pos =
  let '(verts, wg, coll) := st in
  if negb (existsb (Nat.eqb start_pos) verts) then st
  else
    let r := fold_left (ms_f start_pos (skipn start_pos inp)) (rev (common_prefix pr (skipn start_pos inp))) (verts, [], coll) in
    let '(verts', same_start, coll') := r in
    (verts', wg ++ [(start_pos, same_start)], coll').
Proof. reflexivity. Qed.

(** a word of the dictionary spelled at [pos] by a prism key (normal spelling), trailing delimiters consumed *)
Definition tword (pos e : nat) (d : dentry) : Prop :=
  exists key sps sid, In (key, sps) pr /\ key <> [] /\ is_prefix key (skipn pos inp) = true /\
    e = pos + consume_delims delims (skipn (length key) (skipn pos inp)) (length key) /\
    In (sid, 0) sps /\ d_code d = [sid] /\ In (mkTE (d_text d) (d_w d)) (node_ents t [sid]).

Lemma consume_delims_ge rest : forall pos, pos <= consume_delims delims rest pos.
Proof.
  induction rest as [|x rest IH]; intros pos; cbn [consume_delims]; [lia|].
  destruct (existsb (N.eqb x) delims); [|lia]. specialize (IH (S pos)). lia.
Qed.

Lemma is_prefix_firstn p s : is_prefix p s = true -> firstn (length p) s = p.
Proof.
  intros H. apply is_prefix_spec in H. destruct H as [r ->].
  rewrite firstn_app, Nat.sub_diag, firstn_all. cbn. apply app_nil_r.
Qed.

Lemma assoc_nat_none_notin {A} k (m : list (nat * A)) : assoc_nat k m = None -> ~ In k (map fst m).
Proof.
  induction m as [|[k' v] m IH]; cbn [assoc_nat map fst]; [tauto|].
  destruct (k =? k') eqn:E; [discriminate|]. apply Nat.eqb_neq in E. intros H [C|C]; [congruence|]. now apply IH.
Qed.

Lemma iter_peek_drain it d : iter_peek it = Some d -> drain_all it <> [].
Proof.
  unfold drain_all. destruct it as [|c r]; [discriminate|]. cbn [iter_peek]. destruct (c_ents c) as [|e tl] eqn:E; [discriminate|].
  intros _. cbn [total fold_right]. rewrite E. cbn [length Nat.add drain iter_peek]. rewrite E. discriminate.
Qed.

Definition inner_ok (start_pos : nat) (verts0 : list nat)
           (acc : list nat * list (nat * list dentry) * list (nat * list chunk)) : Prop :=
  let '(verts, ss, coll) := acc in
  NoDup (map fst ss) /\ incl verts0 verts /\
  (forall v, In v verts -> In v verts0 \/ exists ents, In (v, ents) ss /\ ents <> []) /\
  (forall e ents, In (e, ents) ss -> start_pos < e) /\
  (forall e ents d, In (e, ents) ss -> In d ents -> tword start_pos e d).

Lemma ms_f_ok start_pos verts0 acc ks :
  In ks (common_prefix pr (skipn start_pos inp)) ->
  inner_ok start_pos verts0 acc -> inner_ok start_pos verts0 (ms_f start_pos (skipn start_pos inp) acc ks).
Proof.
  intros Hks. destruct acc as [[verts ss] coll]. intros [N [I0 [V [F T]]]].
  unfold common_prefix in Hks. apply filter_In in Hks. destruct Hks as [Hpr Hk]. apply andb_true_iff in Hk.
  destruct Hk as [Hlen Hpre]. apply negb_true_iff, Nat.eqb_neq in Hlen.
  unfold ms_f. set (active := skipn start_pos inp) in *. set (mlen := length (fst ks)) in *.
  set (consumed := consume_delims delims (skipn mlen active) mlen). set (end_pos := start_pos + consumed).
  assert (Hc : mlen <= consumed) by apply consume_delims_ge.
  set (ss0 := match assoc_nat end_pos ss with Some _ => ss | None => ss ++ [(end_pos, [])] end).
  assert (N0 : NoDup (map fst ss0)).
  { unfold ss0. destruct (assoc_nat end_pos ss) eqn:A; [exact N|]. rewrite map_app. cbn [map fst].
    apply NoDup_app_snoc; [exact N|now apply assoc_nat_none_notin]. }
  assert (In0 : forall e ents, In (e, ents) ss0 -> In (e, ents) ss \/ (e = end_pos /\ ents = [])).
  { unfold ss0. destruct (assoc_nat end_pos ss); [auto|]. intros e ents H. apply in_app_or in H.
    destruct H as [H|[H|[]]]; [auto|]. injection H as <- <-. auto. }
  assert (In1 : forall e ents, In (e, ents) ss -> In (e, ents) ss0).
  { unfold ss0. destruct (assoc_nat end_pos ss); [auto|]. intros e ents H. apply in_or_app. now left. }
  assert (OK0 : inner_ok start_pos verts0 (verts, ss0, coll)).
  { split; [exact N0|]. split; [exact I0|]. split.
    - intros v Hv. destruct (V v Hv) as [H|[ents [H1 H2]]]; [now left|right; exists ents; auto].
    - split.
      + intros e ents H. destruct (In0 e ents H) as [H'|[-> _]]; [now apply (F e ents)|unfold end_pos; lia].
      + intros e ents d H Hd. destruct (In0 e ents H) as [H'|[_ ->]]; [now apply (T e ents d)|destruct Hd]. }
  destruct (mhg <=? length (assoc_list end_pos ss)) eqn:G; [exact OK0|]. apply Nat.leb_gt in G.
  set (it := snd (lookup_words pr syls t (firstn mlen active) false 0)).
  destruct (iter_peek it) as [d0|] eqn:P; [|exact OK0].
  set (extra := firstn (mhg - length (assoc_list end_pos ss)) (drain_all it)).
  assert (NE : extra <> []).
  { unfold extra. pose proof (iter_peek_drain it d0 P) as ND. destruct (drain_all it); [congruence|].
    destruct (mhg - length (assoc_list end_pos ss)) eqn:E; [lia|discriminate]. }
  set (upd := fun eh : nat * list dentry => if fst eh =? end_pos then (fst eh, snd eh ++ extra) else eh).
  assert (Kupd : map fst (map upd ss0) = map fst ss0).
  { rewrite map_map. apply map_ext. intros [e ents]. unfold upd. cbn [fst snd]. now destruct (e =? end_pos). }
  assert (InU : forall e ents, In (e, ents) (map upd ss0) ->
                exists ents0, In (e, ents0) ss0 /\ (ents = ents0 \/ (e = end_pos /\ ents = ents0 ++ extra))).
  { intros e ents H. apply in_map_iff in H. destruct H as [[e0 ents0] [E H]]. unfold upd in E. cbn [fst snd] in E.
    destruct (e0 =? end_pos) eqn:Q; injection E as <- <-; exists ents0; split; auto. apply Nat.eqb_eq in Q. auto. }
  assert (Hkey : firstn mlen active = fst ks) by (apply is_prefix_firstn; exact Hpre).
  assert (Hextra : forall d, In d extra -> tword start_pos end_pos d).
  { intros d Hd. unfold extra in Hd. apply in_firstn in Hd.
    destruct (table_no_completion_when_disabled false pr syls t (firstn mlen active) d Hd) as [_ [sps [sid [H1 [H2 [H3 H4]]]]]].
    rewrite Hkey in H1. exists (fst ks), sps, sid. split; [exact H1|]. split; [intros E; apply Hlen; unfold mlen; now rewrite E|].
    split; [exact Hpre|]. auto. }
  split; [now rewrite Kupd|]. split; [intros v Hv; right; now apply I0|]. split.
  - intros v [<-|Hv].
    + right. assert (Hin : exists h, In (end_pos, h) ss0).
      { unfold ss0. destruct (assoc_nat end_pos ss) as [h|] eqn:A; [exists h; now apply assoc_nat_in|].
        exists []. apply in_or_app. right. now left. }
      destruct Hin as [h Hin]. exists (h ++ extra). split.
      * apply in_map_iff. exists (end_pos, h). split; [|exact Hin]. unfold upd. cbn [fst snd]. now rewrite Nat.eqb_refl.
      * intros E. apply app_eq_nil in E. destruct E as [_ E]. now apply NE.
    + destruct (V v Hv) as [H|[ents [H1 H2]]]; [now left|]. right.
      exists (if v =? end_pos then ents ++ extra else ents). split.
      * apply in_map_iff. exists (v, ents). split; [|now apply In1]. unfold upd. cbn [fst snd]. now destruct (v =? end_pos).
      * destruct (v =? end_pos); [|exact H2]. intros E. apply app_eq_nil in E. destruct E as [E _]. now apply H2.
  - destruct OK0 as [_ [_ [_ [F0 T0]]]]. split.
    + intros e ents H. destruct (InU e ents H) as [ents0 [H0 _]]. now apply (F0 e ents0).
    + intros e ents d H Hd. destruct (InU e ents H) as [ents0 [H0 [->|[-> ->]]]]; [now apply (T0 e ents0 d)|].
      apply in_app_or in Hd. destruct Hd as [Hd|Hd]; [now apply (T0 end_pos ents0 d)|now apply Hextra].
Qed.

Lemma inner_fold_ok start_pos verts0 : forall l acc,
  incl l (common_prefix pr (skipn start_pos inp)) -> inner_ok start_pos verts0 acc ->
  inner_ok start_pos verts0 (fold_left (ms_f start_pos (skipn start_pos inp)) l acc).
Proof.
  induction l as [|ks l IH]; intros acc Hi H; cbn [fold_left]; [exact H|].
  apply IH; [intros x Hx; apply Hi; now right|]. apply ms_f_ok; [apply Hi; now left|exact H].
Qed.

Definition gk (wg : wgraph) (q : nat) : Prop :=
  q = 0 \/ exists s ss ents, In (s, ss) wg /\ In (q, ents) ss /\ ents <> [].

(** what holds of (vertices, graph, collector) after the start positions below [k] *)
Definition outer_ok (k : nat) (st : ms_state) : Prop :=
  let '(verts, wg, coll) := st in
  StronglySorted lt (map fst wg) /\ (forall key, In key (map fst wg) -> key < k) /\
  (forall s ss, In (s, ss) wg -> NoDup (map fst ss) /\ forall e ents, In (e, ents) ss -> s < e) /\
  (forall v, In v verts -> gk wg v) /\
  (forall pre q ss post, wg = pre ++ (q, ss) :: post -> gk pre q) /\
  (forall s ss e ents d, In (s, ss) wg -> In (e, ents) ss -> In d ents -> tword s e d).

Lemma sorted_snoc l k : StronglySorted lt l -> (forall x, In x l -> x < k) -> StronglySorted lt (l ++ [k]).
Proof.
  induction l as [|a l IH]; intros S H; cbn; [repeat constructor|]. inversion S as [|? ? S' F]; subst. constructor.
  - apply IH; [exact S'|]. intros x Hx. apply H. now right.
  - rewrite Forall_forall in *. intros x Hx. apply in_app_or in Hx. destruct Hx as [Hx|[<-|[]]]; [now apply F|]. apply H. now left.
Qed.

Lemma snoc_split {A} (pre post wg : list A) x y :
  pre ++ x :: post = wg ++ [y] -> (post = [] /\ pre = wg /\ x = y) \/ (exists post', post = post' ++ [y] /\ wg = pre ++ x :: post').
Proof.
  destruct post as [|z post] using rev_ind.
  - intros H. apply app_inj_tail in H. left. tauto.
  - clear IHpost. intros H. change (pre ++ x :: post ++ [z]) with (pre ++ (x :: post) ++ [z]) in H. rewrite app_assoc in H.
    apply app_inj_tail in H. destruct H as [H ->]. right. exists post. auto.
Qed.

Lemma gk_mono wg wg' q : incl wg wg' -> gk wg q -> gk wg' q.
Proof. intros Hi [->|[s [ss [ents [H1 H2]]]]]; [now left|right; exists s, ss, ents; split; [now apply Hi|exact H2]]. Qed.

Lemma ms_at_ok k st : outer_ok k st -> outer_ok (S k) (ms_at mhg pr syls t delims inp st k).
Proof.
  rewrite ms_at_eq. destruct st as [[verts wg] coll]. intros [S [K [E [V [G T]]]]].
  destruct (negb (existsb (Nat.eqb k) verts)) eqn:X.
  { split; [exact S|]. split; [intros key H; specialize (K key H); lia|]. auto. }
  apply negb_false_iff, existsb_exists in X. destruct X as [k' [Hk' Ek]]. apply Nat.eqb_eq in Ek. subst k'.
  pose proof (inner_fold_ok k verts (rev (common_prefix pr (skipn k inp))) (verts, [], coll)
                (fun x Hx => proj2 (in_rev _ x) Hx)) as IO.
  destruct (fold_left (ms_f k (skipn k inp)) (rev (common_prefix pr (skipn k inp))) (verts, [], coll)) as [[verts' ss] coll'].
  destruct IO as [N [I0 [V' [F' T']]]].
  { split; [constructor|]. split; [apply incl_refl|]. split; [auto|]. split; [intros ? ? []|intros ? ? ? []]. }
  assert (Hi : incl wg (wg ++ [(k, ss)])) by (intros x Hx; apply in_or_app; now left).
  split; [rewrite map_app; cbn [map fst]; now apply sorted_snoc|]. split.
  { intros key H. rewrite map_app in H. apply in_app_or in H. destruct H as [H|[<-|[]]]; [specialize (K key H); lia|cbn [fst]; lia]. }
  split.
  { intros s ss0 H. apply in_app_or in H. destruct H as [H|[H|[]]]; [now apply E|]. injection H as <- <-. split; [exact N|exact F']. }
  split.
  { intros v Hv. destruct (V' v Hv) as [H|[ents [H1 H2]]]; [apply (gk_mono wg _ v Hi), V, H|].
    right. exists k, ss, ents. split; [apply in_or_app; right; now left|auto]. }
  split.
  { intros pre q ss0 post H. symmetry in H. apply snoc_split in H. destruct H as [[_ [-> H]]|[post' [_ H]]].
    - injection H as -> _. now apply V.
    - now apply (G pre q ss0 post'). }
  intros s ss0 e ents d H. apply in_app_or in H. destruct H as [H|[H|[]]]; [now apply T|]. injection H as <- <-. apply T'.
Qed.

Lemma ms_fold_ok : forall n a st, outer_ok a st -> outer_ok (a + n) (fold_left (ms_at mhg pr syls t delims inp) (seq a n) st).
Proof.
  induction n as [|n IH]; intros a st H; cbn [seq fold_left]; [now rewrite Nat.add_0_r|].
  replace (a + S n) with (S a + n) by lia. apply IH. now apply ms_at_ok.
Qed.

Lemma table_ms_ok : outer_ok (length inp) (table_ms mhg pr syls t delims inp).
Proof.
  unfold table_ms. apply (ms_fold_ok (length inp) 0). split; [constructor|]. split; [intros ? []|]. split; [intros ? ? []|].
  split; [intros v [<-|[]]; now left|]. split; [|intros ? ? ? ? ? []].
  intros pre q ss post H. destruct pre; discriminate.
Qed.

Theorem table_wgraph_map : wg_map (table_wgraph mhg pr syls t delims inp).
Proof.
  unfold table_wgraph. pose proof table_ms_ok as H. destruct (table_ms mhg pr syls t delims inp) as [[verts wg] coll].
  destruct H as [S [_ [E _]]]. cbn [fst snd]. split; [now apply keys_sorted_nodup|]. intros s ss Hin. apply (E s ss Hin).
Qed.

Theorem table_wgraph_sorted_forward :
  wg_sorted (table_wgraph mhg pr syls t delims inp) /\ wg_forward (table_wgraph mhg pr syls t delims inp).
Proof.
  unfold table_wgraph. pose proof table_ms_ok as H. destruct (table_ms mhg pr syls t delims inp) as [[verts wg] coll].
  destruct H as [S [_ [E _]]]. cbn [fst snd]. split; [exact S|]. intros s ss e ents H1 H2. now apply (proj2 (E s ss H1) e ents).
Qed.

Theorem table_wgraph_grounded : grounded (table_wgraph mhg pr syls t delims inp) (length inp).
Proof.
  unfold table_wgraph. pose proof table_ms_ok as H. destruct (table_ms mhg pr syls t delims inp) as [[verts wg] coll].
  destruct H as [_ [K [_ [_ [G _]]]]]. cbn [fst snd]. intros pre q ss post Hw.
  destruct (G pre q ss post Hw) as [->|[s [ss' [ents [H1 [H2 H3]]]]]]; [now left|]. right. exists s, ss', ents.
  split; [exact H1|]. split; [exact H2|]. split; [exact H3|]. intros [_ C].
  assert (q < length inp); [|lia]. apply K. rewrite Hw, map_app. apply in_or_app. right. now left.
Qed.

Theorem table_wgraph_words s e d :
  wedge (table_wgraph mhg pr syls t delims inp) s e d -> tword s e d.
Proof.
  unfold table_wgraph. pose proof table_ms_ok as H. destruct (table_ms mhg pr syls t delims inp) as [[verts wg] coll].
  destruct H as [_ [_ [_ [_ [_ T]]]]]. cbn [fst snd]. intros [ss [ents [H1 [H2 H3]]]]. now apply (T s ss e ents d).
Qed.

(** the oracle hypothesis, discharged for the table translator: every grammar, comparison, penalty, max_homographs *)
Theorem table_poet_path_ok gr pen cmp preceding s :
  make_sentence gr pen cmp preceding (table_wgraph mhg pr syls t delims inp) (length inp) = Some s ->
  wg_path_ok (table_wgraph mhg pr syls t delims inp) 0 (length inp) s = true.
Proof.
  apply make_sentence_path_ok_grounded; [apply wg_map_det, table_wgraph_map|apply table_wgraph_grounded].
Qed.

(** a chain of dictionary words tiling [pos, fin) of the input *)
Inductive tchain : nat -> nat -> sentence -> Prop :=
| tc_nil : forall p, tchain p p []
| tc_cons : forall pos e fin d r, tword pos e d -> tchain e fin r -> tchain pos fin ((d, e) :: r).

Lemma wchain_tchain total : forall p pos fin,
  wchain (table_wgraph mhg pr syls t delims inp) total pos fin p -> tchain pos fin p.
Proof.
  induction p as [|[d e] p IH]; intros pos fin H; cbn [wchain] in H; [subst; constructor|].
  destruct H as [H1 [_ H3]]. constructor; [now apply table_wgraph_words|now apply IH].
Qed.

(** the sentence the table translator shows is a concatenation of dictionary words, each spelled (normal spelling) by
    a prism key at its position, covering the whole input *)
Theorem table_poet_sentence_is_concatenation gr pen cmp preceding s :
  make_sentence gr pen cmp preceding (table_wgraph mhg pr syls t delims inp) (length inp) = Some s ->
  tchain 0 (length inp) s.
Proof.
  unfold make_sentence. destruct gr as [q|]; intros H.
  - apply (wchain_tchain (length inp)). now apply (beam_sentence_chain (Some q) pen cmp preceding).
  - apply (wchain_tchain (length inp)).
    now apply (dp_sentence_chain_grounded None pen cmp preceding _ _ s table_wgraph_grounded).
Qed.

(** SentenceTranslation's first candidate *)
Theorem table_poet_sentence_candidate gr pen cmp preceding l :
  table_sentence (make_sentence gr pen cmp preceding) mhg pr syls t delims inp = Some l ->
  exists s, l = sentence_cand s :: prefix_phrases (snd (table_ms mhg pr syls t delims inp)) /\ tchain 0 (length inp) s /\
            wg_path_ok (table_wgraph mhg pr syls t delims inp) 0 (length inp) s = true.
Proof.
  unfold table_sentence. destruct (make_sentence gr pen cmp preceding _ _) as [s|] eqn:E; [|discriminate].
  intros H. injection H as <-. exists s. split; [reflexivity|]. split.
  - now apply (table_poet_sentence_is_concatenation gr pen cmp preceding).
  - now apply (table_poet_path_ok gr pen cmp preceding).
Qed.

End TableGraph.
