(** C07 - the bridges put together: from the rows of the source dictionary (C06), the prism (C08's finite-map prism for
    the syllable graph, C09's built prism for the table translator) and the input to the candidate list. *)
From Coq Require Import List Arith ZArith NArith Bool Lia Sorted Permutation.
From Coq.Strings Require Import Byte.
From RimeV Require Import Lookup.Defs Lookup.Model Lookup.Spec Lookup.QueryProofs Lookup.LookupProofs Lookup.ScriptProofs
     Lookup.Compose Lookup.ComposeTable.
Import ListNotations.

(** script translator: the phrase candidates are exactly the rows of the source files whose code - its syllables
    numbered by rank in the collected syllabary - labels a chain of retained edges of BuildSyllableGraph's graph from
    0 (codes longer than three syllables: to the farthest end the extra code reaches) *)
Theorem script_candidates_source_rows
        F (cast : Vo.dec -> F) (wz : F -> Z) sort_original files cv P delims comp strict inp g0 :
  SS.prism_wf P delims -> Sy.build_syllable_graph P delims comp strict inp = Some g0 ->
  0 < Sy.g_interpreted_length g0 ->
  let col := Vo.collect_files files in
  let t := conv_head F wz (Ix.build_head cast (length (Vo.co_syll col)) (Vo.compile_vocab sort_original col)) in
  let g := conv_graph cv g0 in
  forall e code txt,
  In (mkCand TPhrase 0 e txt code) (script_phrases (lookup g t 0 false)) <->
  (code <> [] /\ exists tx cs ws, In (Vo.LRow tx cs ws) (TP.source_rows files) /\ cs <> [] /\
                                 txt = conv_text tx /\ code = map (Vo.id_of (Vo.co_syll col)) (Vo.split_skip x20 cs)) /\
  spelled g code 0 e.
Proof.
  intros WF HB Hl col t g e code txt.
  destruct (script_candidates_exact_over_built_graph cv P delims comp strict inp g0 WF HB t e code txt
              (compiled_index_wf F cast wz sort_original files) Hl) as [X _]. fold g in X.
  rewrite X. split.
  - intros [w [Hth Hsp]]. split; [|exact Hsp]. apply (table_has_rows F cast wz sort_original files code txt). eauto.
  - intros [Hrow Hsp]. apply (table_has_rows F cast wz sort_original files code txt) in Hrow.
    destruct Hrow as [w Hth]. eauto.
Qed.
