(** C07 - the bridges put together: from the rows of the source dictionary (C06), the prism (C08's finite-map prism for
    the syllable graph, C09's built prism for the table translator) and the input to the candidate list. *)
From Coq Require Import List Arith ZArith NArith Bool Lia Sorted Permutation.
From Coq.Strings Require Import Byte.
From RimeV Require Import Lookup.Defs Lookup.Model Lookup.Spec Lookup.QueryProofs Lookup.LookupProofs Lookup.ScriptProofs
     Lookup.Compose Lookup.ComposeTable.
Import ListNotations.

(** script translator: the phrase candidates are exactly the rows of the source files whose code - its syllables
    numbered by rank in the collected syllabary - labels a chain of retained edges of BuildSyllableGraph's graph from
    0 (codes longer than three syllables: to the farthest end the extra code reaches) *)
Theorem script_candidates_source_rows
        F (cast : Vo.dec -> F) (wz : F -> Z) sort_original files cv P delims comp strict inp g0 :
  SS.prism_wf P delims -> Sy.build_syllable_graph P delims comp strict inp = Some g0 ->
  0 < Sy.g_interpreted_length g0 ->
  let col := Vo.collect_files files in
  let t := conv_head F wz (Ix.build_head cast (length (Vo.co_syll col)) (Vo.compile_vocab sort_original col)) in
  let g := conv_graph cv g0 in
  forall e code txt,
  In (mkCand TPhrase 0 e txt code) (script_phrases (lookup g t 0 false)) <->
  (code <> [] /\ exists tx cs ws, In (Vo.LRow tx cs ws) (TP.source_rows files) /\ cs <> [] /\
                                 txt = conv_text tx /\ code = map (Vo.id_of (Vo.co_syll col)) (Vo.split_skip x20 cs)) /\
  spelled g code 0 e.
Proof.
  intros WF HB Hl col t g e code txt.
  destruct (script_candidates_exact_over_built_graph cv P delims comp strict inp g0 WF HB t e code txt
              (compiled_index_wf F cast wz sort_original files) Hl) as [X _]. fold g in X.
  rewrite X. split.
  - intros [w [Hth Hsp]]. split; [|exact Hsp]. apply (table_has_rows F cast wz sort_original files code txt). eauto.
  - intros [Hrow Hsp]. apply (table_has_rows F cast wz sort_original files code txt) in Hrow.
    destruct Hrow as [w Hth]. eauto.
Qed.

(** * table translator, end to end: (syllabary, algebra, source rows, input) -> candidates *)
From RimeV Require Import Lookup.IterProofs Lookup.TableProofs Lookup.ComposePrism.
From RimeV Require Dict.AlgebraProofs.
Module AP := RimeV.Dict.AlgebraProofs.

Lemma Forall2_in_l {A B} (R : A -> B -> Prop) l1 l2 a :
  Forall2 R l1 l2 -> In a l1 -> exists b, In b l2 /\ R a b.
Proof.
  induction 1 as [|x y l1 l2 Hxy _ IH]; intros H; [destruct H|].
  destruct H as [<-|H]; [exists y; split; [now left|exact Hxy]|]. destruct (IH H) as [b [Hb Hr]]. exists b. split; [now right|exact Hr].
Qed.

Lemma Forall2_in_r {A B} (R : A -> B -> Prop) l1 l2 b :
  Forall2 R l1 l2 -> In b l2 -> exists a, In a l1 /\ R a b.
Proof.
  induction 1 as [|x y l1 l2 Hxy _ IH]; intros H; [destruct H|].
  destruct H as [<-|H]; [exists x; split; [now left|exact Hxy]|]. destruct (IH H) as [a [Ha Hr]]. exists a. split; [now right|exact Hr].
Qed.

Section TableEndToEnd.
Variables (F : Type) (cast : Vo.dec -> F) (wz : F -> Z).
Variables (fcred : Type) (fcast : Z -> fcred).
Variables (sort_original : bool) (files : list (Vo.colspec * list Base.Bytes.bytes)).
Variables (calcs : list Al.calc) (sc : Al.script).

Let col := Vo.collect_files files.
Let syls := Vo.co_syll col.                                     (* the collected syllabary *)
Let t := conv_head F wz (Ix.build_head cast (length syls) (Vo.compile_vocab sort_original col)).
Let p := PM.compile fcred fcast syls calcs.                     (* dict_compiler.cc: syllabary -> algebra -> prism *)

Hypothesis syls_nonempty : forall s, In s syls -> s <> [].
Hypothesis syls_nodup : NoDup syls.                             (* Syllabary = std::set<string> *)
Hypothesis HC : Al.compile_script syls calcs = Some sc.

Lemma p_wf : PP.wf_prism fcred p.
Proof. apply PP.build_wf. Qed.

Lemma p_keys_nodup : NoDup (PM.p_keys fcred p).
Proof.
  unfold p, PM.compile. rewrite HC. cbn [PM.build PM.p_keys].
  destruct (AP.compile_script_some _ _ _ HC) as (-> & _ & _). apply AP.ssorted_NoDup. apply AP.script_always_sorted.
Qed.

(** a word entry of the source: a row whose code is the single syllable of id [sid] *)
Definition word_row (sid : nat) (tx : Base.Bytes.bytes) : Prop :=
  exists cs ws, In (Vo.LRow tx cs ws) (TP.source_rows files) /\ cs <> [] /\
                map (Vo.id_of syls) (Vo.split_skip x20 cs) = [sid].

(** the input spells the syllable [sid] with a normal spelling: the script the algebra produces has it *)
Definition spells_normal (code : Base.Bytes.bytes) (sid : nat) : Prop :=
  exists l x, Al.map_find code sc = Some l /\ In x l /\ Al.ptype (Al.sprops x) = 0 /\ nth_error syls sid = Some (Al.sstr x).

Lemma key_of_match code sps :
  In (conv_text code, sps) (prism_at fcred fcast p code) ->
  exists v, PM.get_value fcred p code = Some v /\ sps = spellings_of fcred fcast p v.
Proof.
  unfold prism_at. intros H. apply in_map_iff in H. destruct H as [[v n] [E Hm]].
  unfold conv_match in E. cbn [fst] in E. injection E as Et <-.
  apply (PP.expand_members fcred p code v n p_wf p_keys_nodup) in Hm. destruct Hm as [w [Hn _]].
  assert (Ek : nth v (PM.p_keys fcred p) [] = code ++ w) by (now apply nth_error_nth).
  rewrite Ek in Et. apply (f_equal (@length _)) in Et. rewrite !conv_text_length, app_length in Et.
  assert (w = []) by (destruct w; [reflexivity|cbn in Et; lia]). subst w. rewrite app_nil_r in Hn.
  exists v. split; [|reflexivity]. rewrite PP.get_value_index. now apply PP.index_of_NoDup; [apply p_keys_nodup|].
Qed.

(** completion off: every candidate is a word row of a syllable the input spells normally ... *)
Theorem table_plain_sound smap code d :
  In d (table_entries true false (prism_at fcred fcast p code) smap t (conv_text code)) ->
  exists sid tx, d_code d = [sid] /\ d_text d = conv_text tx /\ d_remlen d = 0 /\
                 spells_normal code sid /\ word_row sid tx.
Proof.
  intros H. apply table_no_completion_when_disabled in H. destruct H as (R & sps & sid & Hk & Hs & Hc & Hn).
  destruct (key_of_match code sps Hk) as [v [Hv ->]].
  destruct (PP.prism_roundtrip_compiled fcred fcast syls calcs sc syls_nonempty HC) as [R1 R2]. fold p in R1, R2.
  destruct (Al.map_find code sc) as [l|] eqn:Ef; [|rewrite (R2 code Ef) in Hv; discriminate].
  destruct (R1 code l Ef) as (i & Hi & _ & F2). rewrite Hv in Hi. injection Hi as <-.
  unfold spellings_of in Hs. apply in_map_iff in Hs. destruct Hs as [d0 [E0 Hd0]]. unfold conv_desc in E0. injection E0 as Es Et.
  destruct (Forall2_in_l _ _ _ d0 F2 Hd0) as [x [Hx (M1 & M2 & _)]].
  assert (Hth : table_has t [sid] (mkTE (d_text d) (d_w d))) by (left; split; [cbn; lia|exact Hn]).
  destruct (proj1 (table_has_rows F cast wz sort_original files [sid] (d_text d)) (ex_intro (fun w => table_has t [sid] (mkTE (d_text d) w)) (d_w d) Hth)) as [_ (tx & cs & ws & Hrow & Ncs & Etx & Ecode)].
  exists sid, tx. split; [exact Hc|]. split; [exact Etx|]. split; [exact R|]. split.
  - exists l, x. split; [exact Ef|]. split; [exact Hx|]. split; [congruence|]. now rewrite <- Es.
  - exists cs, ws. auto.
Qed.

(** ... and every such word row is among the candidates *)
Theorem table_plain_complete smap code sid tx :
  spells_normal code sid -> word_row sid tx ->
  exists d, In d (table_entries true false (prism_at fcred fcast p code) smap t (conv_text code)) /\
            d_code d = [sid] /\ d_text d = conv_text tx.
Proof.
  intros (l & x & Ef & Hx & Ht & Hn) (cs & ws & Hrow & Ncs & Ecode).
  destruct (PP.prism_roundtrip_compiled fcred fcast syls calcs sc syls_nonempty HC) as [R1 _]. fold p in R1.
  destruct (R1 code l Ef) as (i & Hi & _ & F2).
  destruct (Forall2_in_r _ _ _ x F2 Hx) as [d0 [Hd0 (M1 & M2 & _)]].
  assert (Esid : PM.d_syll fcred d0 = sid).
  { rewrite <- Hn in M1. apply (proj1 (NoDup_nth_error syls) syls_nodup); [|exact M1]. apply nth_error_Some. congruence. }
  (* the table has the word under [sid] *)
  assert (Hth : exists w, table_has t [sid] (mkTE (conv_text tx) w)).
  { apply (table_has_rows F cast wz sort_original files [sid] (conv_text tx)). split; [discriminate|]. exists tx, cs, ws. auto. }
  destruct Hth as [w [[_ Hin]|[L _]]]; [|cbn in L; lia].
  assert (NEn : node_ents t [sid] <> []) by (intros E; rewrite E in Hin; destruct Hin).
  (* the chunk of [sid] is among the chunks LookupWords adds *)
  set (pr := prism_at fcred fcast p code).
  assert (Ex : exact_key pr (conv_text code) = Some (spellings_of fcred fcast p i)).
  { unfold pr. rewrite (exact_key_prism_at fcred fcast p p_wf code), Hi. reflexivity. }
  assert (Hs : In (sid, 0) (spellings_of fcred fcast p i)).
  { unfold spellings_of. apply in_map_iff. exists d0. split; [|exact Hd0]. unfold conv_desc. now rewrite Esid, M2, Ht. }
  set (ch := mkChunk [sid] (node_ents t [sid]) 0 1 0%Z).
  assert (Hch : In ch (plain_chunks pr smap t (conv_text code))).
  { unfold plain_chunks, lookup_words. rewrite Ex. cbn [snd]. apply words_chunks_spec. exists sid. split; [exact Hs|].
    split; [exact NEn|]. unfold ch. reflexivity. }
  assert (NE : Forall nonempty (plain_chunks pr smap t (conv_text code))).
  { rewrite Forall_forall. intros c Hc. destruct (lookup_words_exact pr smap t (conv_text code) c Hc) as [[? [? [_ [_ [_ [_ [_ [H _]]]]]]]] _]. exact H. }
  exists (mk_dentry ch (mkTE (conv_text tx) w)). split; [|split; reflexivity].
  unfold table_entries. cbn [maybe_sort]. fold (plain_chunks pr smap t (conv_text code)).
  eapply Permutation_in; [symmetry; apply drain_all_perm; eapply Permutation_Forall; [apply sort_head_perm|exact NE]|].
  eapply Permutation_in; [apply all_entries_perm; apply sort_head_perm|].
  unfold all_entries. apply in_flat_map. exists ch. split; [exact Hch|]. unfold entries_of. apply in_map. exact Hin.
Qed.

(** completion on: every candidate is a word of a syllable spelled by a key that extends the input *)
Theorem table_completion_sound_e2e smap code d :
  In d (table_entries true true (prism_at fcred fcast p code) smap t (conv_text code)) ->
  exists sid tx key, d_code d = [sid] /\ d_text d = conv_text tx /\ word_row sid tx /\
                     In key (PM.p_keys fcred p) /\ (exists w, key = code ++ w) /\
                     exists v, PM.get_value fcred p key = Some v /\ In (sid, 0) (spellings_of fcred fcast p v).
Proof.
  intros H. apply table_completion_candidates_sound in H. destruct H as (key & sps & sid & Hp & Hk & Hs & Hc & Hn).
  unfold prism_at in Hk. apply in_map_iff in Hk. destruct Hk as [[v n] [E Hm]].
  unfold conv_match in E. cbn [fst] in E. injection E as Et Esp.
  apply (PP.expand_members fcred p code v n p_wf p_keys_nodup) in Hm. destruct Hm as [w [Hnk _]].
  assert (Hth : table_has t [sid] (mkTE (d_text d) (d_w d))) by (left; split; [cbn; lia|exact Hn]).
  destruct (proj1 (table_has_rows F cast wz sort_original files [sid] (d_text d)) (ex_intro (fun w => table_has t [sid] (mkTE (d_text d) w)) (d_w d) Hth)) as [_ (tx & cs & ws & Hrow & Ncs & Etx & Ecode)].
  exists sid, tx, (code ++ w). split; [exact Hc|]. split; [exact Etx|]. split; [exists cs, ws; auto|].
  split; [eapply nth_error_In; exact Hnk|]. split; [eauto|].
  exists v. split; [rewrite PP.get_value_index; apply PP.index_of_NoDup; [apply p_keys_nodup|exact Hnk]|]. now rewrite Esp.
Qed.

End TableEndToEnd.
