(** C07 - composition with the neighbouring models (read-only imports).

    Graph side (C08, Dict/Syll.v): a conversion from the graph [build_syllable_graph] produces to the abstract
    graph the lookup model consumes, and the proof that - for every well-formed prism, delimiter set, flag
    combination and input - the converted graph satisfies [wf_graph] and [graph_pruned], the two hypotheses the
    C07 theorems make about the graph.  Paths of the converted graph are chains of C08 edges, so C08_edge_sound
    says what each hop spells.

    Table side (C06, Dict/TableIx.v): a conversion from the built four-level index to the abstract table. *)
From Coq Require Import List Arith ZArith NArith Bool Lia Sorted.
From RimeV Require Dict.Syll Dict.SyllSpec Dict.SyllBase Dict.SyllFwdInv Dict.SyllProofs.
From RimeV Require Import Lookup.Defs Lookup.Model Lookup.Spec Lookup.MapProofs Lookup.QueryProofs Lookup.IterProofs
     Lookup.LookupProofs Lookup.ScriptProofs.
Import ListNotations.

Module Sy := RimeV.Dict.Syll.
Module SS := RimeV.Dict.SyllSpec.
Module SB := RimeV.Dict.SyllBase.
Module SF := RimeV.Dict.SyllFwdInv.
Module SP := RimeV.Dict.SyllProofs.

Section GraphSide.
(* C08 carries a credibility as a symbolic sum (base atom, completion penalties, ambiguity penalties); C07 as a
   number.  Nothing below depends on the valuation. *)
Variable cv : Sy.cred -> Z.

Definition conv_props (pr : Sy.props) : props :=
  mkProps (Sy.p_end pr) (Sy.p_type pr) (cv (Sy.p_cred pr)) false.     (* corrector off: is_correction = false *)

Definition conv_graph (g : Sy.graph) : graph :=
  mkGraph (Sy.g_input_length g) (Sy.g_interpreted_length g)
    (map (fun sev : nat * Sy.evmap =>
            (fst sev, map (fun esm : nat * Sy.smap =>
                             (fst esm, map (fun kp : nat * Sy.props => (fst kp, conv_props (snd kp))) (snd esm)))
                          (snd sev))) (Sy.g_edges g))
    (map (fun six : nat * Sy.sindex =>
            (fst six, map (fun kl : nat * list Sy.props => (fst kl, map conv_props (snd kl))) (snd six)))
         (Sy.g_indices g)).

(** * [indices] of a built graph: key-sorted at both levels *)
Lemma transpose_sorted (es : Sy.emap) : SB.nm_sorted (Sy.transpose es).
Proof.
  unfold Sy.transpose. apply SB.fold_left_inv; [apply SB.nm_sorted_nil|].
  intros a x _ S. now apply SB.nm_sorted_set.
Qed.

Lemma transpose_inner_sorted (es : Sy.emap) s idx :
  SB.nm_sorted es -> In (s, idx) (Sy.transpose es) -> SB.nm_sorted idx.
Proof.
  intros S Hin. apply (SB.nm_sorted_In_find _ _ _ (transpose_sorted es)) in Hin.
  rewrite SP.transpose_find in Hin by exact S. destruct (Sy.nm_find s es) as [ev|]; [|discriminate].
  cbn in Hin. injection Hin as <-. apply SP.transpose_start_sorted. apply SB.nm_sorted_nil.
Qed.

Section Built.
Variables (P : Sy.prism) (delims : list Sy.sym) (comp strict : bool) (inp : Sy.str) (g0 : Sy.graph).
Hypothesis WF : SS.prism_wf P delims.
Hypothesis HB : Sy.build_syllable_graph P delims comp strict inp = Some g0.

Lemma built_indices : Sy.g_indices g0 = Sy.transpose (Sy.g_edges g0).
Proof.
  destruct (SP.build_inv _ _ _ _ _ _ WF HB) as [[_ ->]|(_ & st & vsb & esb & good & R)]; [reflexivity|].
  rewrite (SP.r_g _ _ _ _ _ _ _ _ _ _ R). reflexivity.
Qed.

Lemma built_indices_sorted :
  SB.nm_sorted (Sy.g_indices g0) /\ forall s idx, In (s, idx) (Sy.g_indices g0) -> SB.nm_sorted idx.
Proof.
  rewrite built_indices. split; [apply transpose_sorted|].
  intros s idx. apply transpose_inner_sorted. exact (proj1 (SP.thm_graph_sorted _ _ _ _ _ _ WF HB)).
Qed.

(** the edges the lookup code sees through [indices] are exactly the edges of C08's edge map *)
Lemma has_edge_conv s x p :
  has_edge (conv_graph g0) s x p <-> exists e pr, SS.edge_at (Sy.g_edges g0) s e x pr /\ p = conv_props pr.
Proof.
  destruct built_indices_sorted as [So Si].
  pose proof (SP.thm_transpose_members _ _ _ _ _ _ WF HB s x) as M.
  unfold has_edge. cbn [conv_graph g_indices]. split.
  - intros (index & pl & Hi & Hx & Hp).
    apply in_map_iff in Hi. destruct Hi as [[s' idx0] [E Hi]]. cbn [fst snd] in E. injection E as -> <-.
    apply in_map_iff in Hx. destruct Hx as [[x' l0] [E Hx]]. cbn [fst snd] in E. injection E as -> <-.
    apply in_map_iff in Hp. destruct Hp as [pr [<- Hp]].
    pose proof (SB.nm_sorted_In_find _ _ _ So Hi) as F1.
    pose proof (SB.nm_sorted_In_find _ _ _ (Si _ _ Hi) Hx) as F2.
    unfold SS.index_at in M. rewrite F1, F2 in M. destruct M as [_ M]. apply M in Hp. destruct Hp as [e He]. eauto.
  - intros (e & pr & He & ->). unfold SS.index_at in M.
    destruct (Sy.nm_find s (Sy.g_indices g0)) as [idx0|] eqn:F1; [|exfalso; exact (M e pr He)].
    destruct (Sy.nm_find x idx0) as [l0|] eqn:F2; [|exfalso; exact (M e pr He)].
    destruct M as [_ M]. apply SB.nm_find_In in F1. apply SB.nm_find_In in F2.
    exists (map (fun kl : nat * list Sy.props => (fst kl, map conv_props (snd kl))) idx0), (map conv_props l0).
    split; [apply in_map_iff; exists (s, idx0); auto|].
    split; [apply in_map_iff; exists (x, l0); auto|].
    apply in_map. apply M. eauto.
Qed.

(** every retained edge goes forward, ends where its properties say, and ends at a retained vertex or at the
    interpreted length *)
Lemma edge_facts s e sid pr :
  SS.edge_at (Sy.g_edges g0) s e sid pr ->
  Sy.p_end pr = e /\ s < e /\ (SS.visited (Sy.g_vertices g0) e \/ e = Sy.g_interpreted_length g0).
Proof.
  intros He. destruct (SP.build_inv _ _ _ _ _ _ WF HB) as [[_ ->]|(_ & st & vsb & esb & good & R)].
  - now apply SP.edge_at_empty in He.
  - destruct (SP.edge_sound _ _ _ _ _ WF _ _ _ _ _ R s e sid pr He) as [E Hk]. split; [exact E|]. split.
    + destruct Hk as [(A & _)|(_ & -> & A & -> & _)]; [exact A|exact A].
    + rewrite (SP.run_edges _ _ _ _ _ _ _ _ _ _ R) in He. apply SP.completion_sound in He.
      destruct He as [He|(_ & _ & Hn & _ & -> & _)].
      * left. apply (SP.esb_edge _ _ _ _ _ _ _ _ _ _ R) in He. destruct He as (_ & _ & Ge & _).
        rewrite (SP.run_vertices _ _ _ _ _ _ _ _ _ _ R). exact (SP.good_retained _ _ _ _ _ _ _ _ _ _ R e Ge).
      * right. rewrite (SP.run_interp _ _ _ _ _ _ _ _ _ _ R). now rewrite Hn.
Qed.

(** a C08 path is a (code-labelled) path of the converted graph, and positions only grow along it *)
Lemma sgpath_conv a b : SS.gpath g0 a b -> a <= b /\ reaches (conv_graph g0) a b.
Proof.
  induction 1 as [a|a b c (sid & pr & He) _ _ [IH1 IH2]].
  - split; [lia|]. exists []. constructor.
  - destruct (edge_facts a b sid pr He) as (E & L & _). split; [lia|].
    destruct IH2 as [code Hc]. exists (sid :: code).
    apply (gp_cons (conv_graph g0) a sid (conv_props pr)); [apply has_edge_conv; eauto|].
    cbn [conv_props p_end]. rewrite E. exact Hc.
Qed.

Lemma edge_end_reaches s e sid pr :
  SS.edge_at (Sy.g_edges g0) s e sid pr ->
  e <= Sy.g_interpreted_length g0 /\ reaches (conv_graph g0) e (Sy.g_interpreted_length g0).
Proof.
  intros He. destruct (edge_facts s e sid pr He) as (_ & _ & [[t Hv]| ->]).
  - destruct (SP.thm_vertex_on_path _ _ _ _ _ _ WF HB e t Hv) as [_ Hp]. now apply sgpath_conv.
  - split; [lia|]. exists []. constructor.
Qed.

(** * the graph handed over by C08's builder meets the hypotheses of the C07 theorems *)
Theorem built_graph_wf : wf_graph (conv_graph g0).
Proof.
  destruct built_indices_sorted as [So Si]. constructor.
  - cbn [conv_graph g_indices]. rewrite map_map. cbn [fst]. exact (keys_sorted_nodup _ So).
  - intros s index Hi. cbn [conv_graph g_indices] in Hi. apply in_map_iff in Hi.
    destruct Hi as [[s' idx0] [E Hi]]. cbn [fst snd] in E. injection E as _ <-.
    rewrite map_map. cbn [fst]. exact (keys_sorted_nodup _ (Si _ _ Hi)).
  - intros s x p He. apply has_edge_conv in He. destruct He as (e & pr & He & ->).
    destruct (edge_facts s e x pr He) as (E & L & _). destruct (edge_end_reaches s e x pr He) as [L2 _].
    cbn [conv_props p_end conv_graph g_ilen]. rewrite E. lia.
Qed.

Theorem built_graph_pruned : graph_pruned (conv_graph g0).
Proof.
  intros s x p He. apply has_edge_conv in He. destruct He as (e & pr & He & ->).
  destruct (edge_facts s e x pr He) as (E & _). destruct (edge_end_reaches s e x pr He) as [_ R].
  cbn [conv_props p_end conv_graph g_ilen]. rewrite E. exact R.
Qed.

(** * paths of the converted graph are chains of C08 edges (what each hop spells: C08_edge_sound / C08_edge_exact) *)
Inductive epath : nat -> code -> nat -> Prop :=
| ep_nil : forall s, epath s [] s
| ep_cons : forall s e sid pr rest e',
    SS.edge_at (Sy.g_edges g0) s e sid pr -> epath e rest e' -> epath s (sid :: rest) e'.

Lemma gpath_epath s c e : gpath (conv_graph g0) s c e <-> epath s c e.
Proof.
  split.
  - induction 1 as [s|s x p rest e He Hr IH]; [constructor|].
    apply has_edge_conv in He. destruct He as (e1 & pr & He & ->).
    destruct (edge_facts s e1 x pr He) as (E & _). cbn [conv_props p_end] in IH. rewrite E in IH.
    econstructor; eassumption.
  - induction 1 as [s|s e sid pr rest e' He Hr IH]; [constructor|].
    destruct (edge_facts s e sid pr He) as (E & _).
    apply (gp_cons (conv_graph g0) s sid (conv_props pr)); [apply has_edge_conv; eauto|].
    cbn [conv_props p_end]. now rewrite E.
Qed.

(** every tiling of the tilable prefix by normal spellings is a path: a prefix of such a tiling is a code-labelled
    path from 0 (C08_normal_tilings_complete, transported) *)
Lemma normal_tiling_epath far a b l :
  Sy.forward_farthest P delims strict inp = Some far ->
  Forall (fun x : nat * nat * Sy.desc =>
            exists pr, SS.edge_at (Sy.g_edges g0) (fst (fst x)) (snd (fst x)) (Sy.d_sid (snd x)) pr) l ->
  SS.tiling P delims strict inp a b l ->
  epath a (map (fun x : nat * nat * Sy.desc => Sy.d_sid (snd x)) l) b.
Proof.
  intros _ F T. induction T as [a|a b c d l Tl Tr IH]; [constructor|].
  inversion F as [|? ? [pr Hpr] F']; subst. cbn [fst snd map] in *.
  econstructor; [exact Hpr|]. now apply IH.
Qed.

Lemma tiling_split a c l1 l2 :
  SS.tiling P delims strict inp a c (l1 ++ l2) ->
  exists b, SS.tiling P delims strict inp a b l1 /\ SS.tiling P delims strict inp b c l2.
Proof.
  revert a. induction l1 as [|x l1 IH]; intros a T; cbn [app] in T.
  - exists a. split; [constructor|exact T].
  - inversion T as [|? b ? d l Tl Tr]; subst. destruct (IH b Tr) as [m [T1 T2]].
    exists m. split; [constructor; assumption|exact T2].
Qed.

(** * end to end over C08: the script translator on the graph BuildSyllableGraph hands over *)

(** the phrase candidates are exactly the table entries whose code labels a chain of retained edges from 0 (for
    codes longer than three syllables: to the farthest end the extra code reaches); their range lies on a complete
    segmentation of the interpreted input *)
Theorem script_candidates_exact_over_built_graph t e c txt :
  wf_table t -> 0 < Sy.g_interpreted_length g0 ->
  (In (mkCand TPhrase 0 e txt c) (script_phrases (lookup (conv_graph g0) t 0 false)) <->
   (exists w, table_has t c (mkTE txt w) /\ spelled (conv_graph g0) c 0 e)) /\
  (In (mkCand TPhrase 0 e txt c) (script_phrases (lookup (conv_graph g0) t 0 false)) ->
   epath 0 c e /\ on_complete_segmentation (conv_graph g0) e).
Proof.
  intros WT Hl. pose proof built_graph_wf as W. pose proof built_graph_pruned as Pr.
  assert (X := script_candidates_exact (conv_graph g0) t e c txt W WT Hl). split; [exact X|].
  intros Hin. apply X in Hin. destruct Hin as [w [Hth Hsp]]. apply spelled_gpath in Hsp.
  split; [now apply gpath_epath|]. apply (spelled_on_complete_segmentation _ c e Pr); [|exact Hsp].
  destruct Hth as [[L _]|[L _]]; destruct c; cbn in L; try lia; discriminate.
Qed.

(** every table entry whose code is the syllable sequence of a prefix of a complete segmentation of the tilable
    prefix by normal spellings is among the candidates (C08_normal_tilings_complete + C07_script_contains_every_entry) *)
Theorem script_contains_entries_on_normal_segmentations
        (poet : wgraph -> nat -> option sentence) wordcompl mh t far l1 l2 te :
  wf_table t -> Sy.forward_farthest P delims strict inp = Some far ->
  SS.tiling P delims strict inp 0 far (l1 ++ l2) ->
  Forall (fun x : nat * nat * Sy.desc => Sy.d_type (snd x) = Sy.kNormalSpelling) (l1 ++ l2) -> l1 <> [] ->
  table_has t (map (fun x : nat * nat * Sy.desc => Sy.d_sid (snd x)) l1) te ->
  exists k, In k (script_query poet wordcompl mh (conv_graph g0) t) /\ k_text k = te_text te.
Proof.
  intros WT Hf T N NE Hth. pose proof built_graph_wf as W.
  pose proof (SP.thm_normal_tilings _ _ _ _ _ _ _ _ WF HB Hf T N) as E.
  destruct (tiling_split 0 far l1 l2 T) as [b [T1 _]].
  assert (E1 : Forall (fun x : nat * nat * Sy.desc =>
                         exists pr, SS.edge_at (Sy.g_edges g0) (fst (fst x)) (snd (fst x)) (Sy.d_sid (snd x)) pr) l1).
  { apply Forall_app in E. destruct E as [E _]. eapply Forall_impl; [|exact E]. intros x [pr [H _]]. eauto. }
  pose proof (normal_tiling_epath far 0 b l1 Hf E1 T1) as Hp. apply gpath_epath in Hp.
  assert (Hc : map (fun x : nat * nat * Sy.desc => Sy.d_sid (snd x)) l1 <> []) by (destruct l1; [congruence|discriminate]).
  assert (Hl : 0 < g_ilen (conv_graph g0)).
  { pose proof (gpath_lt _ _ _ _ W Hc Hp). pose proof (gpath_end_le _ _ _ _ W Hc Hp). lia. }
  eapply script_contains_every_entry; eassumption.
Qed.

End Built.
End GraphSide.
