(** C07 - "entries with the same code appear in non-increasing weight order": false of the undeduplicated stream
    (two paths to one code with different credibilities), true of the candidate list DistinctTranslation leaves. *)
From Coq Require Import List Arith ZArith NArith Bool Lia Sorted Permutation.
From RimeV Require Import Lookup.Defs Lookup.Model Lookup.Spec Lookup.MapProofs Lookup.QueryProofs Lookup.IterProofs
     Lookup.LookupProofs Lookup.ScriptProofs.
Import ListNotations.

(** * DistinctTranslation on the entry stream *)
Fixpoint distinct_pe (seen : list text) (l : list (nat * dentry)) : list (nat * dentry) :=
  match l with
  | [] => []
  | x :: r => if text_mem (d_text (snd x)) seen then distinct_pe seen r
              else x :: distinct_pe (d_text (snd x) :: seen) r
  end.

Lemma distinct_map seen l : distinct seen (map phrase_cand l) = map phrase_cand (distinct_pe seen l).
Proof.
  revert seen. induction l as [|x r IH]; intros seen; [reflexivity|]. cbn [map distinct distinct_pe].
  unfold phrase_cand at 1 2. cbn [k_text]. destruct (text_mem (d_text (snd x)) seen); [apply IH|].
  cbn [map]. f_equal. apply IH.
Qed.

Lemma distinct_pe_incl seen l : incl (distinct_pe seen l) l.
Proof.
  revert seen. induction l as [|u r IH]; intros s y Hy; [destruct Hy|]. cbn [distinct_pe] in Hy.
  destruct (text_mem (d_text (snd u)) s); [right; eapply IH; exact Hy|].
  destruct Hy as [<-|Hy]; [now left|right; eapply IH; exact Hy].
Qed.

Lemma distinct_pe_not_seen seen l x : In x (distinct_pe seen l) -> text_mem (d_text (snd x)) seen = false.
Proof.
  revert seen. induction l as [|u l IH]; intros seen Hx; [destruct Hx|]. cbn [distinct_pe] in Hx.
  destruct (text_mem (d_text (snd u)) seen) eqn:Mu; [now apply IH|].
  destruct Hx as [<-|Hx]; [exact Mu|]. apply IH in Hx. cbn [text_mem] in Hx. apply orb_false_iff in Hx. tauto.
Qed.

(** an element kept by [distinct_pe] is the first of its text in the stream *)
Lemma distinct_pe_first seen l pre x post :
  distinct_pe seen l = pre ++ x :: post ->
  exists pre' post', l = pre' ++ x :: post' /\
    (forall y, In y pre' -> d_text (snd y) <> d_text (snd x)) /\
    (forall y, In y pre -> In y pre') /\ (forall y, In y post -> In y post').
Proof.
  revert seen pre. induction l as [|z r IH]; intros seen pre E; cbn [distinct_pe] in E.
  - destruct pre; discriminate.
  - destruct (text_mem (d_text (snd z)) seen) eqn:M.
    + destruct (IH seen pre E) as (pre' & post' & -> & H1 & H2 & H3).
      exists (z :: pre'), post'. split; [reflexivity|]. split; [|split; [intros y Hy; right; auto|exact H3]].
      intros y [Ey|Hy]; [subst y|now apply H1]. intros Et.
      assert (Hx : In x (distinct_pe seen (pre' ++ x :: post'))) by (rewrite E; apply in_or_app; right; now left).
      apply distinct_pe_not_seen in Hx. congruence.
    + destruct pre as [|p pre].
      * cbn [app] in E. injection E as Ez E. subst z. exists [], r. split; [reflexivity|]. split; [intros y []|].
        split; [intros y []|]. intros y Hy. eapply distinct_pe_incl. rewrite E. exact Hy.
      * cbn [app] in E. injection E as Ez E. subst p.
        destruct (IH _ pre E) as (pre' & post' & -> & H1 & H2 & H3).
        exists (z :: pre'), post'. split; [reflexivity|]. split; [|split; [|exact H3]].
        -- intros y [Ey|Hy]; [subst y|now apply H1]. intros Et.
           assert (Hx : In x (distinct_pe (d_text (snd z) :: seen) (pre' ++ x :: post')))
             by (rewrite E; apply in_or_app; right; now left).
           apply distinct_pe_not_seen in Hx. cbn [text_mem] in Hx. apply orb_false_iff in Hx. destruct Hx as [Hx _].
           rewrite <- Et in Hx. assert (text_eqb (d_text (snd z)) (d_text (snd z)) = true) by now apply text_eqb_eq.
           congruence.
        -- intros y [Ey|Hy]; [now left|right; auto].
Qed.

(** * every chunk of one code offers the same entries: an entry found in a chunk [cb] of the code (at whatever end
    position) is also in a chunk at [ca]'s end position with [ca]'s credibility, match size and remaining length *)
Lemma chunk_sibling g t predict e e2 ca cb tb :
  wf_graph g -> wf_table t -> 0 < g_ilen g ->
  In (e, ca) (lookup_chunks g t 0 predict) -> In (e2, cb) (lookup_chunks g t 0 predict) ->
  c_code cb = c_code ca -> In tb (c_ents cb) ->
  exists cb', In (e, cb') (lookup_chunks g t 0 predict) /\ c_code cb' = c_code ca /\ c_cred cb' = c_cred ca /\
              c_match cb' = c_match ca /\ c_remlen cb' = c_remlen ca /\ In tb (c_ents cb').
Proof.
  intros W WT Hs Ha Hb Ec Htb.
  apply lookup_chunks_in in Ha. destruct Ha as [ea [aa [Hqa Hca]]].
  apply lookup_chunks_in in Hb. destruct Hb as [eb [ab [Hqb Hcb]]].
  pose proof Hqa as Hqa0.
  apply query_sound_complete in Hqa; [|exact W|exact Hs]. apply query_sound_complete in Hqb; [|exact W|exact Hs].
  destruct Hqa as [[ica [posa [creda [xa [pa [Wpa [La [Hea [-> [-> NEa]]]]]]]]]]|[ica [creda [Wpa [La [Hia [-> NEa]]]]]]];
  destruct Hqb as [[icb [posb [credb [xb [pb [Wpb [Lb [Heb [-> [-> NEb]]]]]]]]]]|[icb [credb [Wpb [Lb [Hib [-> NEb]]]]]]].
  - (* both short: the same node *)
    cbn in Hca, Hcb. destruct Hca as [Hca|[]]. destruct Hcb as [Hcb|[]]. injection Hca as <- <-. injection Hcb as Ee <-.
    cbn [c_code c_ents] in *. exists (mkChunk (ica ++ [xa]) (node_ents t (ica ++ [xa])) 0 (length (ica ++ [xa])) creda).
    split; [apply lookup_chunks_in; exists (p_end pa), (AccShort (ica ++ [xa]) (node_ents t (ica ++ [xa])) creda);
            split; [exact Hqa0|cbn; now left]|].
    cbn. repeat split; try reflexivity. now rewrite <- Ec.
  - (* a short, b long: code lengths differ *)
    exfalso. cbn in Hca. destruct Hca as [Hca|[]]. injection Hca as _ <-.
    cbn [chunks_of_item snd fst] in Hcb. apply in_flat_map in Hcb. destruct Hcb as [le [Hle Hcb]].
    destruct (fst (fst (match_extra g predict (le_extra le) 0 eb))); [|destruct Hcb]. destruct Hcb as [Hcb|[]].
    injection Hcb as _ <-. cbn [c_code] in Ec. apply (f_equal (@length _)) in Ec. rewrite !app_length in Ec. cbn in Ec.
    pose proof (wf_tail_extra t WT icb le Hle). destruct (le_extra le); [congruence|cbn in Ec; lia].
  - exfalso. cbn in Hcb. destruct Hcb as [Hcb|[]]. injection Hcb as _ <-.
    cbn [chunks_of_item snd fst] in Hca. apply in_flat_map in Hca. destruct Hca as [le [Hle Hca]].
    destruct (fst (fst (match_extra g predict (le_extra le) 0 ea))); [|destruct Hca]. destruct Hca as [Hca|[]].
    injection Hca as _ <-. cbn [c_code] in Ec. apply (f_equal (@length _)) in Ec. rewrite !app_length in Ec. cbn in Ec.
    pose proof (wf_tail_extra t WT ica le Hle). destruct (le_extra le); [congruence|cbn in Ec; lia].
  - (* both long: same tail page, same extra code; take b's long entry in a's accessor *)
    cbn [chunks_of_item snd fst] in Hca, Hcb.
    apply in_flat_map in Hca. destruct Hca as [lea [Hlea Hca]]. apply in_flat_map in Hcb. destruct Hcb as [leb [Hleb Hcb]].
    destruct (match_extra g predict (le_extra lea) 0 ea) as [[oka da] ea'] eqn:EMa. cbn [fst snd] in Hca.
    destruct oka; [|destruct Hca]. destruct Hca as [Hca|[]]. injection Hca as <- <-.
    destruct (match_extra g predict (le_extra leb) 0 eb) as [[okb db] eb'] eqn:EMb. cbn [fst snd] in Hcb.
    destruct okb; [|destruct Hcb]. destruct Hcb as [Hcb|[]]. injection Hcb as Ee <-.
    cbn [c_code c_ents c_cred c_match c_remlen] in *. destruct Htb as [<-|[]].
    assert (Eic : icb = ica /\ le_extra leb = le_extra lea).
    { assert (length icb = length ica) by lia. clear - Ec H. revert icb Ec H.
      induction ica as [|a ica IH]; intros [|b icb] Ec H; cbn in *; try lia; [auto|].
      injection Ec as -> Ec. destruct (IH icb Ec ltac:(lia)) as [-> E]. auto. }
    destruct Eic as [-> Ex].
    exists (mkChunk (ica ++ le_extra leb) [le_ent leb] 0 (length ica + da) creda). split.
    + apply lookup_chunks_in. exists ea, (AccLong ica (node_tail t ica) creda). split; [exact Hqa0|].
      cbn [chunks_of_item snd fst]. apply in_flat_map. exists leb. split; [exact Hleb|].
      rewrite Ex, EMa. cbn [fst snd]. now left.
    + cbn. rewrite Ex. repeat split; try reflexivity. now left.
Qed.

(** * the statement for the candidate list *)
Lemma sorted_before {A} (R : A -> A -> Prop) l1 a l2 b l3 :
  StronglySorted R (l1 ++ a :: l2 ++ b :: l3) -> R a b.
Proof. apply sorted_pair_inv. Qed.

Theorem script_distinct_same_code_weight_order g t predict seen l1 a l2 b l3 ca ta cb tb :
  wf_graph g -> wf_table t -> table_sorted t -> 0 < g_ilen g ->
  distinct_pe seen (script_phrase_entries (lookup g t 0 predict)) = l1 ++ a :: l2 ++ b :: l3 ->
  fst a = fst b ->
  In (fst a, ca) (lookup_chunks g t 0 predict) -> In ta (c_ents ca) -> snd a = mk_dentry ca ta ->
  In (fst b, cb) (lookup_chunks g t 0 predict) -> In tb (c_ents cb) -> snd b = mk_dentry cb tb ->
  c_code ca = c_code cb -> (c_match ca <? length (c_code ca)) = (c_match cb <? length (c_code cb)) ->
  (te_w tb <= te_w ta)%Z.
Proof.
  intros W WT TS Hs E Hend Hca Hta Ea Hcb Htb Eb Ecode Eclass.
  destruct (Z_le_gt_dec (te_w tb) (te_w ta)) as [L|G]; [exact L|exfalso].
  set (S := script_phrase_entries (lookup g t 0 predict)) in *.
  pose proof (script_phrase_entries_sorted g t 0 predict W TS) as Sorted. fold S in Sorted.
  (* b's entry also sits in a chunk with a's credibility: that copy b' outranks a *)
  rewrite <- Hend in Hcb.
  destruct (chunk_sibling g t predict (fst a) (fst a) ca cb tb W WT Hs Hca Hcb (eq_sym Ecode) Htb)
    as (cb' & Hcb' & Ec' & Ecr' & Em' & Er' & Htb').
  set (b' := (fst a, mk_dentry cb' tb)).
  assert (Hb'S : In b' S) by (apply script_phrase_entries_in; [exact W|]; eauto).
  (* positions of a and b in S: each is the first element of its text *)
  assert (Eb2 : distinct_pe seen S = (l1 ++ a :: l2) ++ b :: l3) by (rewrite E, <- app_assoc; reflexivity).
  destruct (distinct_pe_first seen S _ _ _ Eb2) as (preb & postb & ESb & Firstb & Inclb & _).
  assert (Ha_pre : In a preb) by (apply Inclb; apply in_or_app; right; now left).
  (* b' has the text of b, so it is not before b; it is not b's position unless equal; hence at or after b *)
  assert (Hb'pos : In b' (b :: postb)).
  { rewrite ESb in Hb'S. apply in_app_or in Hb'S. destruct Hb'S as [H|H]; [|exact H].
    exfalso. apply (Firstb b' H). unfold b'. cbn [snd]. rewrite Eb. reflexivity. }
  (* a is before b' in the sorted stream: pe_le a b' *)
  assert (Rab' : pe_le a b').
  { apply in_split in Ha_pre. destruct Ha_pre as (p1 & p2 & ->).
    rewrite ESb, <- app_assoc in Sorted. cbn [app] in Sorted.
    destruct Hb'pos as [<-|Hp].
    - eapply (sorted_pair_inv pe_le p1 a p2 b postb). exact Sorted.
    - apply in_split in Hp. destruct Hp as (q1 & q2 & ->).
      replace (p1 ++ a :: p2 ++ b :: q1 ++ b' :: q2) with (p1 ++ a :: (p2 ++ b :: q1) ++ b' :: q2) in Sorted
        by (rewrite <- app_assoc; reflexivity).
      eapply sorted_pair_inv. exact Sorted. }
  destruct Rab' as [Hlt|[_ Hdle]]; [unfold b' in Hlt; cbn in Hlt; lia|].
  unfold b' in Hdle. cbn [snd] in Hdle. rewrite Ea in Hdle.
  assert (OKa : chunk_ok ca) by (eapply lookup_chunks_ok; eassumption).
  assert (OKb : chunk_ok cb') by (eapply lookup_chunks_ok; eassumption).
  unfold dle in Hdle. rewrite (dkey_mk ca ta (proj2 (proj2 OKa))), (dkey_mk cb' tb (proj2 (proj2 OKb))) in Hdle.
  unfold kle, klt, ekey, is_exact in Hdle. rewrite Ec', Ecr', Em', Er' in Hdle.
  destruct (c_match ca =? length (c_code ca)); lia.
Qed.

(** the FULL wording of the property - "entries with the same code appear in non-increasing weight order" - for the
    candidate list: no restriction to one end position or one exactness class.  A heavier entry of the code also sits
    in a chunk with [a]'s end position, credibility and class ([chunk_sibling]), i.e. in front of [a]; being the first
    of its text, [b] cannot come after it. *)
Theorem script_distinct_same_code_weight_order_full g t predict seen l1 a l2 b l3 ca ta cb tb :
  wf_graph g -> wf_table t -> table_sorted t -> 0 < g_ilen g ->
  distinct_pe seen (script_phrase_entries (lookup g t 0 predict)) = l1 ++ a :: l2 ++ b :: l3 ->
  In (fst a, ca) (lookup_chunks g t 0 predict) -> In ta (c_ents ca) -> snd a = mk_dentry ca ta ->
  In (fst b, cb) (lookup_chunks g t 0 predict) -> In tb (c_ents cb) -> snd b = mk_dentry cb tb ->
  c_code ca = c_code cb ->
  (te_w tb <= te_w ta)%Z.
Proof.
  intros W WT TS Hs E Hca Hta Ea Hcb Htb Eb Ecode.
  destruct (Z_le_gt_dec (te_w tb) (te_w ta)) as [L|G]; [exact L|exfalso].
  set (S := script_phrase_entries (lookup g t 0 predict)) in *.
  pose proof (script_phrase_entries_sorted g t 0 predict W TS) as Sorted. fold S in Sorted.
  (* b's entry also sits in a chunk with a's credibility: that copy b' outranks a *)
  destruct (chunk_sibling g t predict (fst a) (fst b) ca cb tb W WT Hs Hca Hcb (eq_sym Ecode) Htb)
    as (cb' & Hcb' & Ec' & Ecr' & Em' & Er' & Htb').
  set (b' := (fst a, mk_dentry cb' tb)).
  assert (Hb'S : In b' S) by (apply script_phrase_entries_in; [exact W|]; eauto).
  (* positions of a and b in S: each is the first element of its text *)
  assert (Eb2 : distinct_pe seen S = (l1 ++ a :: l2) ++ b :: l3) by (rewrite E, <- app_assoc; reflexivity).
  destruct (distinct_pe_first seen S _ _ _ Eb2) as (preb & postb & ESb & Firstb & Inclb & _).
  assert (Ha_pre : In a preb) by (apply Inclb; apply in_or_app; right; now left).
  (* b' has the text of b, so it is not before b; it is not b's position unless equal; hence at or after b *)
  assert (Hb'pos : In b' (b :: postb)).
  { rewrite ESb in Hb'S. apply in_app_or in Hb'S. destruct Hb'S as [H|H]; [|exact H].
    exfalso. apply (Firstb b' H). unfold b'. cbn [snd]. rewrite Eb. reflexivity. }
  (* a is before b' in the sorted stream: pe_le a b' *)
  assert (Rab' : pe_le a b').
  { apply in_split in Ha_pre. destruct Ha_pre as (p1 & p2 & ->).
    rewrite ESb, <- app_assoc in Sorted. cbn [app] in Sorted.
    destruct Hb'pos as [<-|Hp].
    - eapply (sorted_pair_inv pe_le p1 a p2 b postb). exact Sorted.
    - apply in_split in Hp. destruct Hp as (q1 & q2 & ->).
      replace (p1 ++ a :: p2 ++ b :: q1 ++ b' :: q2) with (p1 ++ a :: (p2 ++ b :: q1) ++ b' :: q2) in Sorted
        by (rewrite <- app_assoc; reflexivity).
      eapply sorted_pair_inv. exact Sorted. }
  destruct Rab' as [Hlt|[_ Hdle]]; [unfold b' in Hlt; cbn in Hlt; lia|].
  unfold b' in Hdle. cbn [snd] in Hdle. rewrite Ea in Hdle.
  assert (OKa : chunk_ok ca) by (eapply lookup_chunks_ok; eassumption).
  assert (OKb : chunk_ok cb') by (eapply lookup_chunks_ok; eassumption).
  unfold dle in Hdle. rewrite (dkey_mk ca ta (proj2 (proj2 OKa))), (dkey_mk cb' tb (proj2 (proj2 OKb))) in Hdle.
  unfold kle, klt, ekey, is_exact in Hdle. rewrite Ec', Ecr', Em', Er' in Hdle.
  destruct (c_match ca =? length (c_code ca)); lia.
Qed.

(** * the undeduplicated stream: the statement is false (two paths to one code with different credibilities) *)
Definition wp (e : nat) (c : Z) : props := mkProps e 0 c false.
Definition w_g : graph :=
  mkGraph 3 3
    [(0, [(1, [(0, wp 1 0)]); (2, [(0, wp 2 (-10))])]); (1, [(3, [(1, wp 3 0)])]); (2, [(3, [(1, wp 3 0)])])]
    [(0, [(0, [wp 2 (-10); wp 1 0])]); (1, [(1, [wp 3 0])]); (2, [(1, [wp 3 0])])].
Definition w_A := mkTE [65%N] 5%Z.
Definition w_B := mkTE [66%N] 3%Z.
Definition w_t : table := [mkNode [0] [] true []; mkNode [0; 1] [w_A; w_B] false []].

Lemma w_g_wf : wf_graph w_g.
Proof.
  constructor.
  - cbn. repeat (constructor; [cbn; intuition lia|]). constructor.
  - intros s index Hi. cbn in Hi.
    repeat (destruct Hi as [Hi|Hi]; [injection Hi as <- <-; cbn; repeat constructor; intros []|]). destruct Hi.
  - intros s x p (index & pl & Hi & Hx & Hp). cbn in Hi.
    repeat (destruct Hi as [Hi|Hi]; [injection Hi as <- <-; destruct Hx as [Hx|[]]; injection Hx as <- <-;
                                     cbn in Hp; intuition (subst; cbn; lia)|]). destruct Hi.
Qed.

Lemma w_t_sorted : table_sorted w_t.
Proof.
  intros c. unfold node_ents, weights_sorted. destruct (find_node w_t c) as [n|] eqn:E; [|constructor].
  unfold w_t in E. cbn [find_node n_code] in E.
  destruct (code_eqb [0] c); [injection E as <-; cbn; constructor|].
  destruct (code_eqb [0; 1] c); [injection E as <-; cbn; repeat (constructor; cbn; try lia)|discriminate].
Qed.

Example w_raw_stream :
  map (fun ed => (fst ed, d_text (snd ed), d_w (snd ed))) (script_phrase_entries (lookup w_g w_t 0 false))
  = [(3, [65%N], 5%Z); (3, [66%N], 3%Z); (3, [65%N], (-5)%Z); (3, [66%N], (-7)%Z)].
Proof. reflexivity. Qed.

Definition raw_stream_weight_order : Prop := forall g t start predict l1 a l2 b l3 (wa wb : Z),
  wf_graph g -> table_sorted t ->
  script_phrase_entries (lookup g t start predict) = l1 ++ a :: l2 ++ b :: l3 ->
  fst a = fst b -> d_code (snd a) = d_code (snd b) ->
  table_has t (d_code (snd a)) (mkTE (d_text (snd a)) wa) -> table_has t (d_code (snd b)) (mkTE (d_text (snd b)) wb) ->
  (wb <= wa)%Z.

Theorem raw_stream_weight_order_refuted : ~ raw_stream_weight_order.
Proof.
  intros H.
  set (S := script_phrase_entries (lookup w_g w_t 0 false)).
  assert (E : exists a b x y, S = [x] ++ a :: [] ++ b :: [y] /\ fst a = fst b /\ d_code (snd a) = [0; 1] /\
                              d_code (snd b) = [0; 1] /\ d_text (snd a) = [66%N] /\ d_text (snd b) = [65%N]).
  { vm_compute. do 4 eexists. split; [reflexivity|]. repeat split. }
  destruct E as (a & b & x & y & ES & E1 & E2 & E3 & E4 & E5).
  specialize (H w_g w_t 0 false [x] a [] b [y] 3%Z 5%Z w_g_wf w_t_sorted ES E1 ltac:(congruence)).
  rewrite E2, E3, E4, E5 in H.
  assert (5 <= 3)%Z; [|lia]. apply H; left; (split; [cbn; lia|]); cbn; auto.
Qed.

(** the same instance after DistinctTranslation: A (5), B (3) *)
Example w_distinct_stream :
  map (fun ed => (d_text (snd ed), d_w (snd ed))) (distinct_pe [] (script_phrase_entries (lookup w_g w_t 0 false)))
  = [([65%N], 5%Z); ([66%N], 3%Z)].
Proof. reflexivity. Qed.

(** * ScriptTranslator::Query = (the sentence, if any) followed by the deduplicated phrase stream *)
Lemma distinct_app_ex seen l1 l2 : exists seen', distinct seen (l1 ++ l2) = distinct seen l1 ++ distinct seen' l2.
Proof.
  revert seen. induction l1 as [|c r IH]; intros seen; [exists seen; reflexivity|]. cbn [app distinct].
  destruct (text_mem (k_text c) seen); [apply IH|].
  destruct (IH (k_text c :: seen)) as [s' E]. exists s'. cbn [app]. now rewrite E.
Qed.

Theorem script_query_shape (poet : wgraph -> nat -> option sentence) wordcompl mh g t :
  let predict := wordcompl && (g_ilen g =? g_input_len g) in
  exists sent seen, (sent = [] \/ exists s, sent = [sentence_cand s]) /\
    script_query poet wordcompl mh g t =
    sent ++ map phrase_cand (distinct_pe seen (script_phrase_entries (lookup g t 0 predict))).
Proof.
  intros predict. unfold script_query, script_translation. fold predict.
  destruct (lookup g t 0 predict) as [|x coll] eqn:EL.
  - exists [], []. split; [now left|]. reflexivity.
  - match goal with |- context [distinct [] (?s ++ ?p)] => set (sent := s); set (ph := p) end.
    destruct (distinct_app_ex [] sent ph) as [seen' E]. rewrite E.
    exists (distinct [] sent), seen'. split.
    + unfold sent. destruct ((2 <=? length (g_edges g)) && negb (has_exact_at (rev (x :: coll)) (g_ilen g))); [|now left].
      destruct (poet (script_wgraph g t mh) (g_ilen g)) as [s|]; [|now left]. right. exists s. reflexivity.
    + f_equal. unfold ph, script_phrases. apply distinct_map.
Qed.
