(** C07 - composition with C06 (Dict/Vocab.v, Dict/TableIx.v, read-only): a conversion from the four-level index
    Table::Build produces to the abstract table of the lookup model, and the proof that the index built from any
    well-formed vocabulary - in particular from any source, C06's [compile_vocab] - satisfies [wf_table], and
    [table_sorted] unless the source asks for the original order. *)
From Coq Require Import List Arith ZArith NArith Bool Lia Sorted Permutation.
From Coq.Strings Require Import Byte.
From RimeV Require Base.Bytes Dict.Vocab Dict.TableIx Dict.TableProofs.
From RimeV Require Import Lookup.Defs Lookup.Model Lookup.Spec Lookup.ScriptProofs.
Import ListNotations.

Module Vo := RimeV.Dict.Vocab.
Module Ix := RimeV.Dict.TableIx.
Module TP := RimeV.Dict.TableProofs.

Section TableSide.
Variable F : Type.                 (* table::Weight *)
Variable cast : Vo.dec -> F.       (* the double -> float cast of the log weight *)
Variable wz : F -> Z.              (* its exact value, scaled *)

Definition conv_text (b : Base.Bytes.bytes) : text := map Byte.to_N b.
Definition conv_entry (e : Ix.ientry F) : tentry := mkTE (conv_text (Ix.ie_text e)) (wz (Ix.ie_w e)).
Definition conv_tail (tl : Ix.tail F) : list lentry :=
  map (fun le => mkLE (Ix.le_extra le) (conv_entry (Ix.le_entry le))) tl.
Definition is_some {A} (o : option A) : bool := match o with Some _ => true | None => false end.

Definition node3 (pre : code) (n : Ix.inode F (Ix.tail F)) : node :=
  mkNode (pre ++ [Ix.n_key n]) (map conv_entry (Ix.n_entries n)) (is_some (Ix.n_next n))
         (match Ix.n_next n with Some tl => conv_tail tl | None => [] end).
Definition node2 (pre : code) (n : Ix.inode F (Ix.trunk3 F)) : node :=
  mkNode (pre ++ [Ix.n_key n]) (map conv_entry (Ix.n_entries n)) (is_some (Ix.n_next n)) [].
Definition node1 (i : nat) (hn : Ix.hnode F) : node :=
  mkNode [i] (map conv_entry (Ix.h_entries hn)) (is_some (Ix.h_next hn)) [].

Definition nodes2 (pre : code) (t2 : Ix.trunk2 F) : list node :=
  flat_map (fun n => node2 pre n ::
                     match Ix.n_next n with Some t3 => map (node3 (pre ++ [Ix.n_key n])) t3 | None => [] end) t2.

Definition conv_head (h : Ix.head F) : table :=
  flat_map (fun ih : nat * Ix.hnode F =>
              node1 (fst ih) (snd ih) ::
              match Ix.h_next (snd ih) with Some t2 => nodes2 [fst ih] t2 | None => [] end)
           (combine (seq 0 (length h)) h).

(** * what the nodes of the converted table are *)
Inductive node_shape (h : Ix.head F) : node -> Prop :=
| shape1 : forall i hn, nth_error h i = Some hn -> node_shape h (node1 i hn)
| shape2 : forall i hn t2 n2, nth_error h i = Some hn -> Ix.h_next hn = Some t2 -> In n2 t2 ->
                              node_shape h (node2 [i] n2)
| shape3 : forall i hn t2 n2 t3 n3, nth_error h i = Some hn -> Ix.h_next hn = Some t2 -> In n2 t2 ->
                                    Ix.n_next n2 = Some t3 -> In n3 t3 ->
                                    node_shape h (node3 [i; Ix.n_key n2] n3).

Lemma in_combine_seq {A} (l : list A) i x : In (i, x) (combine (seq 0 (length l)) l) <-> nth_error l i = Some x.
Proof.
  assert (G : forall (l : list A) s i x, In (i, x) (combine (seq s (length l)) l) <-> s <= i /\ nth_error l (i - s) = Some x).
  { induction l0 as [|a l0 IH]; intros s i0 x0; cbn [length seq combine].
    - cbn. split; [tauto|]. intros [_ H]. destruct (i0 - s); discriminate.
    - cbn [In]. rewrite IH. split.
      + intros [H|[H1 H2]]; [injection H as <- <-; split; [lia|]; now rewrite Nat.sub_diag|].
        split; [lia|]. replace (i0 - s) with (S (i0 - S s)) by lia. exact H2.
      + intros [H1 H2]. destruct (Nat.eq_dec i0 s) as [->|N].
        * left. rewrite Nat.sub_diag in H2. cbn in H2. now injection H2 as <-.
        * right. split; [lia|]. replace (i0 - s) with (S (i0 - S s)) in H2 by lia. exact H2. }
  rewrite G. rewrite Nat.sub_0_r. split; [tauto|]. intros H. split; [lia|exact H].
Qed.

Lemma conv_head_in h n : In n (conv_head h) <-> node_shape h n.
Proof.
  unfold conv_head. rewrite in_flat_map. split.
  - intros [[i hn] [Hi Hn]]. apply in_combine_seq in Hi. cbn [fst snd] in Hn.
    destruct Hn as [<-|Hn]; [now constructor|].
    destruct (Ix.h_next hn) as [t2|] eqn:E2; [|destruct Hn]. unfold nodes2 in Hn. apply in_flat_map in Hn.
    destruct Hn as [n2 [H2 Hn]]. destruct Hn as [<-|Hn]; [econstructor; eassumption|].
    destruct (Ix.n_next n2) as [t3|] eqn:E3; [|destruct Hn]. apply in_map_iff in Hn. destruct Hn as [n3 [<- H3]].
    cbn [app]. econstructor; eassumption.
  - intros S. destruct S as [i hn Hi|i hn t2 n2 Hi E2 H2|i hn t2 n2 t3 n3 Hi E2 H2 E3 H3];
      exists (i, hn); (split; [now apply in_combine_seq|]); cbn [fst snd].
    + now left.
    + right. rewrite E2. unfold nodes2. apply in_flat_map. exists n2. split; [exact H2|now left].
    + right. rewrite E2. unfold nodes2. apply in_flat_map. exists n2. split; [exact H2|]. right. rewrite E3.
      cbn [app]. now apply in_map.
Qed.

(** * with key-sorted trunks (C06_index_keys_sorted) a code determines its node *)
Lemma keys_unique {A} (l : list (Ix.inode F A)) a b :
  TP.keys_sorted F l -> In a l -> In b l -> Ix.n_key a = Ix.n_key b -> a = b.
Proof.
  unfold TP.keys_sorted. induction l as [|x l IH]; intros S Ha Hb E; [destruct Ha|].
  cbn in S. inversion S as [|? ? S' Fa]; subst. rewrite Forall_forall in Fa.
  destruct Ha as [<-|Ha], Hb as [<-|Hb]; try reflexivity.
  - specialize (Fa _ (in_map (@Ix.n_key F A) _ _ Hb)). lia.
  - specialize (Fa _ (in_map (@Ix.n_key F A) _ _ Ha)). lia.
  - now apply IH.
Qed.

Lemma sorted2_of h i hn t2 : TP.ix_sorted_head F h -> nth_error h i = Some hn -> Ix.h_next hn = Some t2 -> TP.ix_sorted2 F t2.
Proof.
  intros S Hi E. unfold TP.ix_sorted_head in S. rewrite Forall_forall in S.
  specialize (S hn (nth_error_In _ _ Hi)). now rewrite E in S.
Qed.

Lemma sorted3_of t2 n2 t3 : TP.ix_sorted2 F t2 -> In n2 t2 -> Ix.n_next n2 = Some t3 -> TP.ix_sorted3 F t3.
Proof.
  intros [_ S] H2 E. rewrite Forall_forall in S. specialize (S n2 H2). now rewrite E in S.
Qed.

Lemma shape_unique h n1 n2 :
  TP.ix_sorted_head F h -> node_shape h n1 -> node_shape h n2 -> n_code n1 = n_code n2 -> n1 = n2.
Proof.
  intros S S1 S2 E.
  destruct S1 as [i hn Hi|i hn t2 a2 Hi E2 H2|i hn t2 a2 t3 a3 Hi E2 H2 E3 H3];
  destruct S2 as [j hm Hj|j hm u2 b2 Hj F2 G2|j hm u2 b2 u3 b3 Hj F2 G2 F3 G3]; cbn in E; try discriminate.
  - injection E as ->. congruence.
  - injection E as -> Ek. assert (hm = hn) by congruence. subst hm. assert (u2 = t2) by congruence. subst u2.
    f_equal. eapply keys_unique; [apply (sorted2_of h j hn t2 S Hi E2)|exact H2|exact G2|exact Ek].
  - injection E as -> Ek2 Ek3. assert (hm = hn) by congruence. subst hm. assert (u2 = t2) by congruence. subst u2.
    pose proof (sorted2_of h j hn t2 S Hi E2) as S2.
    assert (b2 = a2) by (eapply keys_unique; [apply S2|exact G2|exact H2|now symmetry]). subst b2.
    assert (u3 = t3) by congruence. subst u3.
    f_equal. eapply keys_unique; [apply (sorted3_of t2 a2 t3 S2 H2 E3)|exact H3|exact G3|exact Ek3].
Qed.

Lemma find_node_spec t c n : find_node t c = Some n -> In n t /\ n_code n = c.
Proof.
  induction t as [|m t IH]; cbn; [discriminate|]. destruct (code_eqb (n_code m) c) eqn:E.
  - intros H. injection H as <-. split; [now left|]. now apply code_eqb_eq.
  - intros H. destruct (IH H) as [H1 H2]. split; [now right|exact H2].
Qed.

Lemma code_eqb_refl c : code_eqb c c = true.
Proof. induction c as [|x c IH]; cbn; [reflexivity|]. now rewrite Nat.eqb_refl, IH. Qed.

Lemma find_node_exists t n : In n t -> exists n', find_node t (n_code n) = Some n'.
Proof.
  induction t as [|m t IH]; intros H; [destruct H|]. cbn. destruct (code_eqb (n_code m) (n_code n)) eqn:E; [eauto|].
  destruct H as [->|H]; [now rewrite code_eqb_refl in E|now apply IH].
Qed.

Lemma find_node_shape h n :
  TP.ix_sorted_head F h -> node_shape h n -> find_node (conv_head h) (n_code n) = Some n.
Proof.
  intros S Hn. destruct (find_node_exists (conv_head h) n) as [n' E]; [now apply conv_head_in|].
  rewrite E. f_equal. destruct (find_node_spec _ _ _ E) as [Hin Hc]. apply conv_head_in in Hin.
  now apply (shape_unique h n' n S).
Qed.

(** * the index-level facts the lookup relies on, as predicates over all nodes *)
Definition ix_all3 (Pe : list (Ix.ientry F) -> Prop) (Pt : Ix.tail F -> Prop) (t3 : Ix.trunk3 F) : Prop :=
  Forall (fun n => Pe (Ix.n_entries n) /\ match Ix.n_next n with Some tl => Pt tl | None => True end) t3.
Definition ix_all2 Pe Pt (t2 : Ix.trunk2 F) : Prop :=
  Forall (fun n => Pe (Ix.n_entries n) /\ match Ix.n_next n with Some t3 => ix_all3 Pe Pt t3 | None => True end) t2.
Definition ix_all Pe Pt (h : Ix.head F) : Prop :=
  Forall (fun hn => Pe (Ix.h_entries hn) /\ match Ix.h_next hn with Some t2 => ix_all2 Pe Pt t2 | None => True end) h.

Lemma ix_all_shape Pe Pt h n :
  ix_all Pe Pt h -> node_shape h n ->
  exists es, n_ents n = map conv_entry es /\ Pe es /\
             (n_tail n = [] \/ exists tl, n_tail n = conv_tail tl /\ Pt tl /\ n_next n = true /\ length (n_code n) = 3).
Proof.
  intros A S. unfold ix_all in A. rewrite Forall_forall in A.
  destruct S as [i hn Hi|i hn t2 n2 Hi E2 H2|i hn t2 n2 t3 n3 Hi E2 H2 E3 H3];
    destruct (A hn (nth_error_In _ _ Hi)) as [P1 Q1].
  - exists (Ix.h_entries hn). cbn. auto.
  - rewrite E2 in Q1. unfold ix_all2 in Q1. rewrite Forall_forall in Q1. destruct (Q1 n2 H2) as [P2 _].
    exists (Ix.n_entries n2). cbn. auto.
  - rewrite E2 in Q1. unfold ix_all2 in Q1. rewrite Forall_forall in Q1. destruct (Q1 n2 H2) as [_ Q2].
    rewrite E3 in Q2. unfold ix_all3 in Q2. rewrite Forall_forall in Q2. destruct (Q2 n3 H3) as [P3 Q3].
    exists (Ix.n_entries n3). cbn [node3 n_ents n_tail n_next n_code]. split; [reflexivity|]. split; [exact P3|].
    destruct (Ix.n_next n3) as [tl|]; [|now left]. right. exists tl. cbn. auto.
Qed.

(** * wf_table and table_sorted for the converted index *)
Definition tail_ok (tl : Ix.tail F) : Prop := Forall (fun le => Ix.le_extra le <> []) tl.

Theorem conv_head_wf h :
  TP.ix_sorted_head F h -> ix_all (fun _ => True) tail_ok h -> wf_table (conv_head h).
Proof.
  intros S A.
  assert (Next1 : forall i hn t2, nth_error h i = Some hn -> Ix.h_next hn = Some t2 -> node_next (conv_head h) [i] = true).
  { intros i hn t2 Hi E2. unfold node_next. pose proof (find_node_shape h (node1 i hn) S (shape1 h i hn Hi)) as X.
    change (n_code (node1 i hn)) with [i] in X. rewrite X. cbn. now rewrite E2. }
  assert (Next2 : forall i hn t2 n2 t3, nth_error h i = Some hn -> Ix.h_next hn = Some t2 -> In n2 t2 -> Ix.n_next n2 = Some t3 ->
                                        node_next (conv_head h) [i; Ix.n_key n2] = true).
  { intros i hn t2 n2 t3 Hi E2 H2 E3. unfold node_next.
    pose proof (find_node_shape h (node2 [i] n2) S (shape2 h i hn t2 n2 Hi E2 H2)) as X.
    change (n_code (node2 [i] n2)) with [i; Ix.n_key n2] in X. rewrite X. cbn. now rewrite E3. }
  assert (Sh : forall c, (node_ents (conv_head h) c <> [] \/ node_tail (conv_head h) c <> []) ->
                         exists n, find_node (conv_head h) c = Some n /\ node_shape h n /\ n_code n = c).
  { intros c H. unfold node_ents, node_tail in H. destruct (find_node (conv_head h) c) as [n|] eqn:E; [|destruct H; congruence].
    destruct (find_node_spec _ _ _ E) as [Hin Hc]. exists n. split; [reflexivity|]. split; [now apply conv_head_in|exact Hc]. }
  constructor.
  - intros c c' H [r [Nr E]] Nc. destruct (Sh c H) as (n & _ & Sn & Hc). rewrite <- Hc in E. clear Hc H.
    destruct Sn as [i hn Hi|i hn t2 n2 Hi E2 H2|i hn t2 n2 t3 n3 Hi E2 H2 E3 H3]; cbn [node1 node2 node3 n_code app] in E.
    + destruct c' as [|a c']; [congruence|]. destruct c'; destruct r; try congruence; discriminate.
    + destruct c' as [|a [|b c']]; [congruence| |destruct c'; destruct r; try congruence; discriminate].
      injection E as <- _. eapply Next1; eassumption.
    + destruct c' as [|a [|b [|c0 c']]]; [congruence| | |destruct c'; destruct r; try congruence; discriminate].
      * injection E as <- _. eapply Next1; eassumption.
      * injection E as <- <- _. eapply Next2; eassumption.
  - intros c H. destruct (Sh c (or_intror H)) as (n & Ef & Sn & Hc). unfold node_next, node_tail in *. rewrite Ef in *.
    destruct (ix_all_shape _ _ h n A Sn) as (es & _ & _ & [T|(tl & _ & _ & Hn & _)]); [congruence|exact Hn].
  - intros c H. destruct (Sh c (or_intror H)) as (n & Ef & Sn & Hc). unfold node_tail in H. rewrite Ef in H.
    destruct (ix_all_shape _ _ h n A Sn) as (es & _ & _ & [T|(tl & _ & _ & _ & L)]); [congruence|now rewrite <- Hc].
  - intros c le H. assert (N : node_tail (conv_head h) c <> []) by (intros E; rewrite E in H; destruct H).
    destruct (Sh c (or_intror N)) as (n & Ef & Sn & Hc). unfold node_tail in H. rewrite Ef in H.
    destruct (ix_all_shape _ _ h n A Sn) as (es & _ & _ & [T|(tl & Et & Ht & _)]); [rewrite T in H; destruct H|].
    rewrite Et in H. unfold conv_tail in H. apply in_map_iff in H. destruct H as [le0 [<- Hle]]. cbn.
    unfold tail_ok in Ht. rewrite Forall_forall in Ht. now apply Ht.
Qed.

Definition entries_desc (es : list (Ix.ientry F)) : Prop :=
  StronglySorted (fun a b => (wz (Ix.ie_w b) <= wz (Ix.ie_w a))%Z) es.

Theorem conv_head_sorted h : ix_all entries_desc (fun _ => True) h -> table_sorted (conv_head h).
Proof.
  intros A c. unfold node_ents, weights_sorted. destruct (find_node (conv_head h) c) as [n|] eqn:E; [|constructor].
  destruct (find_node_spec _ _ _ E) as [Hin _]. apply conv_head_in in Hin.
  destruct (ix_all_shape _ _ h n A Hin) as (es & -> & Hs & _).
  unfold entries_desc in Hs. induction Hs as [|a l Hs IH Fa]; cbn; constructor; [exact IH|].
  rewrite Forall_forall in *. intros y Hy. apply in_map_iff in Hy. destruct Hy as [b [<- Hb]]. cbn. now apply Fa.
Qed.

(** * the index C06's builder produces from a well-formed vocabulary has these properties *)
Definition lvl_all {A} (Qe : list Vo.entry -> Prop) (Qn : A -> Prop) (v : Vo.lvl A) : Prop :=
  Forall (fun kp => Qe (Vo.p_entries (snd kp)) /\ match Vo.p_next (snd kp) with Some n => Qn n | None => True end) v.

Section Build.
Variables (Qe : list Vo.entry -> Prop) (Q4 : Vo.voc4 -> Prop).
Variables (Pe : list (Ix.ientry F) -> Prop) (Pt : Ix.tail F -> Prop).
Hypothesis He : forall es, Qe es -> Pe (map (Ix.build_entry cast) es).
Hypothesis Ht : forall v4, Q4 v4 -> Pt (Ix.build_tail cast v4).
Hypothesis Pe_nil : Pe [].

Lemma build_trunk3_all v : lvl_all Qe Q4 v -> ix_all3 Pe Pt (Ix.build_trunk3 cast v).
Proof.
  unfold lvl_all, ix_all3, Ix.build_trunk3, Ix.build_trunk. intros H. rewrite Forall_map.
  eapply Forall_impl; [|exact H]. intros [k p] [H1 H2]. cbn in *. split; [now apply He|].
  destruct (Vo.p_next p); cbn; [apply Ht; exact H2|exact I].
Qed.

Lemma build_trunk2_all v : lvl_all Qe (lvl_all Qe Q4) v -> ix_all2 Pe Pt (Ix.build_trunk2 cast v).
Proof.
  unfold lvl_all at 1, ix_all2, Ix.build_trunk2, Ix.build_trunk. intros H. rewrite Forall_map.
  eapply Forall_impl; [|exact H]. intros [k p] [H1 H2]. cbn in *. split; [now apply He|].
  unfold Vo.voc3 in *. destruct (Vo.p_next p); cbn; [apply build_trunk3_all; exact H2|exact I].
Qed.

Lemma build_head_all S v : lvl_all Qe (lvl_all Qe (lvl_all Qe Q4)) v -> ix_all Pe Pt (Ix.build_head cast S v).
Proof.
  unfold lvl_all at 1, ix_all, Ix.build_head. intros H.
  assert (H0 : Forall (fun hn : Ix.hnode F => Pe (Ix.h_entries hn) /\
                          match Ix.h_next hn with Some t2 => ix_all2 Pe Pt t2 | None => True end) (repeat (Ix.hnode0 F) S)).
  { apply Forall_forall. intros x Hx. apply repeat_spec in Hx. subst. cbn. auto. }
  revert H0. generalize (repeat (Ix.hnode0 F) S).
  induction H as [|[k p] r [H1 H2] _ IH]; intros arr Harr; cbn [fold_left]; [exact Harr|].
  apply IH. apply TP.set_nth_Forall; [|exact Harr]. cbn in *. split; [now apply He|].
  unfold Vo.voc2, Vo.voc3 in *. destruct (Vo.p_next p); cbn; [apply build_trunk2_all; exact H2|exact I].
Qed.
End Build.

Lemma wf1_tails S v : TP.wf1 S v ->
  lvl_all (fun _ => True) (lvl_all (fun _ => True) (lvl_all (fun _ => True) TP.wf4)) v.
Proof.
  assert (G : forall A (P : A -> Prop) (Q : A -> Prop) (v : Vo.lvl A), (forall n, P n -> Q n) ->
              TP.wf_lvl P S v -> lvl_all (fun _ => True) Q v).
  { intros A P Q v0 PQ [_ H]. unfold lvl_all. eapply Forall_impl; [|exact H]. intros [k p] [_ Hp]. cbn in *.
    split; [exact I|]. destruct (Vo.p_next p); auto. }
  apply G. intros v2. apply G. intros v3. apply G. auto.
Qed.

Lemma build_tail_ok v4 : TP.wf4 v4 -> tail_ok (Ix.build_tail cast v4).
Proof.
  unfold TP.wf4, tail_ok, Ix.build_tail. intros H. rewrite Forall_map. eapply Forall_impl; [|exact H].
  intros e L. cbn beta in L. cbn [Ix.le_extra]. intros E. apply (f_equal (@length _)) in E. rewrite skipn_length in E. cbn [length] in E. lia.
Qed.

(** for every vocabulary C06 calls well-formed *)
Theorem built_index_wf S v : TP.wf1 S v -> wf_table (conv_head (Ix.build_head cast S v)).
Proof.
  intros W. apply conv_head_wf; [now apply TP.build_head_sorted|].
  apply (build_head_all (fun _ => True) TP.wf4 (fun _ => True) tail_ok); auto using build_tail_ok.
  now apply (wf1_tails S).
Qed.

Hypothesis cast_mono : forall a b, Vo.dec_leb a b = true -> (wz (cast a) <= wz (cast b))%Z.

Lemma build_entries_desc es : StronglySorted TP.wdesc es -> entries_desc (map (Ix.build_entry cast) es).
Proof.
  unfold entries_desc. induction 1 as [|a l Hs IH Fa]; cbn; constructor; [exact IH|].
  rewrite Forall_forall in *. intros y Hy. apply in_map_iff in Hy. destruct Hy as [b [<- Hb]]. cbn.
  apply cast_mono. exact (Fa b Hb).
Qed.

Theorem built_index_sorted S v : TP.sorted1 v -> table_sorted (conv_head (Ix.build_head cast S v)).
Proof.
  intros H. apply conv_head_sorted.
  apply (build_head_all (StronglySorted TP.wdesc) TP.sorted4 entries_desc (fun _ => True)); auto using build_entries_desc.
  constructor.
Qed.

(** for every source: C06's pipeline *)
Theorem compiled_index_wf (sort_original : bool) (files : list (Vo.colspec * list Base.Bytes.bytes)) :
  let c := Vo.collect_files files in
  wf_table (conv_head (Ix.build_head cast (length (Vo.co_syll c)) (Vo.compile_vocab sort_original c))).
Proof.
  intros c. apply built_index_wf. unfold Vo.compile_vocab.
  assert (H : TP.wf1 (length (Vo.co_syll c)) (Vo.vocab_of (Vo.entries_of c))).
  { apply TP.vocab_of_wf. apply TP.entries_of_ids. apply TP.collect_files_inv. }
  destruct sort_original; [exact H|now apply TP.sort1_wf].
Qed.

Theorem compiled_index_sorted (files : list (Vo.colspec * list Base.Bytes.bytes)) :
  let c := Vo.collect_files files in
  table_sorted (conv_head (Ix.build_head cast (length (Vo.co_syll c)) (Vo.compile_vocab false c))).
Proof. intros c. apply built_index_sorted. unfold Vo.compile_vocab. apply TP.sort1_sorted. Qed.


(** * [table_has] of the converted index = C06's [enumerate] = the collected source entries *)

(** keys of every trunk below the number of syllables (C06's builder: wf_lvl) *)
Definition keys_lt3 (S : nat) (t3 : Ix.trunk3 F) : Prop := Forall (fun n => Ix.n_key n < S) t3.
Definition keys_lt2 (S : nat) (t2 : Ix.trunk2 F) : Prop :=
  Forall (fun n => Ix.n_key n < S /\ match Ix.n_next n with Some t3 => keys_lt3 S t3 | None => True end) t2.
Definition keys_lt (S : nat) (h : Ix.head F) : Prop :=
  Forall (fun hn => match Ix.h_next hn with Some t2 => keys_lt2 S t2 | None => True end) h.

Lemma build_trunk3_keys_lt S v : TP.wf3 S v -> keys_lt3 S (Ix.build_trunk3 cast v).
Proof.
  intros [_ H]. unfold keys_lt3, Ix.build_trunk3, Ix.build_trunk. rewrite Forall_map.
  eapply Forall_impl; [|exact H]. intros [k p] [Hk _]. exact Hk.
Qed.

Lemma build_trunk2_keys_lt S v : TP.wf2 S v -> keys_lt2 S (Ix.build_trunk2 cast v).
Proof.
  intros [_ H]. unfold keys_lt2, Ix.build_trunk2, Ix.build_trunk. rewrite Forall_map.
  eapply Forall_impl; [|exact H]. intros [k p] [Hk Hp]. cbn in *. split; [exact Hk|].
  unfold Vo.voc3 in *. destruct (Vo.p_next p); cbn; [now apply build_trunk3_keys_lt|exact I].
Qed.

Lemma build_head_keys_lt S v : TP.wf1 S v -> keys_lt S (Ix.build_head cast S v).
Proof.
  intros [_ Hb]. unfold keys_lt, Ix.build_head.
  assert (H0 : Forall (fun hn : Ix.hnode F => match Ix.h_next hn with Some t2 => keys_lt2 S t2 | None => True end)
                      (repeat (Ix.hnode0 F) S)).
  { apply Forall_forall. intros x Hx. apply repeat_spec in Hx. subst. exact I. }
  revert H0. generalize (repeat (Ix.hnode0 F) S).
  induction Hb as [|[k p] r [_ Hp] _ IH]; intros arr Harr; cbn [fold_left]; [exact Harr|].
  apply IH. apply TP.set_nth_Forall; [|exact Harr]. cbn in *.
  unfold Vo.voc2, Vo.voc3 in *. destruct (Vo.p_next p); cbn; [now apply build_trunk2_keys_lt|exact I].
Qed.

Lemma build_head_length S (v : Vo.voc1) : length (Ix.build_head cast S v) = S.
Proof.
  unfold Ix.build_head. rewrite <- (repeat_length (Ix.hnode0 F) S) at 2. generalize (repeat (Ix.hnode0 F) S).
  induction v as [|kp v IH]; intros arr; cbn [fold_left]; [reflexivity|]. rewrite IH. apply TP.set_nth_length.
Qed.

(** the entries of an index, with their full codes *)
Inductive ix_entry (h : Ix.head F) : code -> Ix.ientry F -> Prop :=
| ixe1 : forall i hn ie, nth_error h i = Some hn -> In ie (Ix.h_entries hn) -> ix_entry h [i] ie
| ixe2 : forall i hn t2 n2 ie, nth_error h i = Some hn -> Ix.h_next hn = Some t2 -> In n2 t2 ->
                               In ie (Ix.n_entries n2) -> ix_entry h [i; Ix.n_key n2] ie
| ixe3 : forall i hn t2 n2 t3 n3 ie, nth_error h i = Some hn -> Ix.h_next hn = Some t2 -> In n2 t2 ->
                                     Ix.n_next n2 = Some t3 -> In n3 t3 -> In ie (Ix.n_entries n3) ->
                                     ix_entry h [i; Ix.n_key n2; Ix.n_key n3] ie
| ixe4 : forall i hn t2 n2 t3 n3 tl le, nth_error h i = Some hn -> Ix.h_next hn = Some t2 -> In n2 t2 ->
                                        Ix.n_next n2 = Some t3 -> In n3 t3 -> Ix.n_next n3 = Some tl -> In le tl ->
                                        ix_entry h ([i; Ix.n_key n2; Ix.n_key n3] ++ Ix.le_extra le) (Ix.le_entry le).

Lemma find_node_ix {A} (l : list (Ix.inode F A)) k n :
  TP.keys_sorted F l -> (Ix.find_node k l = Some n <-> In n l /\ Ix.n_key n = k).
Proof.
  intros S. unfold Ix.find_node. split.
  - intros H. apply find_some in H. destruct H as [H1 H2]. apply Nat.eqb_eq in H2. auto.
  - intros [H1 H2]. destruct (find (fun n0 => Ix.n_key n0 =? k) l) as [n'|] eqn:E.
    + apply find_some in E. destruct E as [E1 E2]. apply Nat.eqb_eq in E2. f_equal.
      eapply keys_unique; eauto. congruence.
    + exfalso. pose proof (find_none _ _ E n H1) as X. cbn in X. rewrite H2, Nat.eqb_refl in X. discriminate.
Qed.

Ltac dfind H n F :=
  match type of H with context [@Ix.find_node ?f ?a ?k ?l] =>
    destruct (@Ix.find_node f a k l) as [n|] eqn:F; [|destruct H] end.

Ltac rwnext E :=
  let lhs := match type of E with ?l = _ => l end in
  match goal with |- context [@Ix.n_next ?f ?a ?n] => change (@Ix.n_next f a n) with lhs end; rewrite E.

Ltac rwfind X :=
  let E := fresh "E" in pose proof X as E;
  match type of E with ?lhs = _ =>
    match goal with |- context [@Ix.find_node ?f ?a ?k ?l] => change (@Ix.find_node f a k l) with lhs end
  end; rewrite E; clear E.

Lemma enumerate_ix_entry S h c ie :
  length h = S -> TP.ix_sorted_head F h -> keys_lt S h ->
  (In (c, ie) (Ix.enumerate S h) <-> ix_entry h c ie).
Proof.
  intros HL HS HK. unfold Ix.enumerate. rewrite in_flat_map. split.
  - intros [i [Hi H]]. destruct (nth_error h i) as [hn|] eqn:E1; [|destruct H].
    apply in_app_or in H. destruct H as [H|H].
    + unfold Ix.emit in H. apply in_map_iff in H. destruct H as [x [Ex Hx]]. injection Ex as <- <-. econstructor; eassumption.
    + destruct (Ix.h_next hn) as [t2|] eqn:E2; [|destruct H].
      pose proof (sorted2_of h i hn t2 HS E1 E2) as S2.
      unfold Ix.enum_trunk2, Ix.enum_trunk in H. apply in_flat_map in H. destruct H as [k2 [_ H]].
      dfind H n2 F2.
      apply (find_node_ix t2 k2 n2 (proj1 S2)) in F2. destruct F2 as [H2 <-].
      apply in_app_or in H. destruct H as [H|H].
      * unfold Ix.emit in H. apply in_map_iff in H. destruct H as [x [Ex Hx]]. injection Ex as <- <-. cbn [app].
        econstructor; eassumption.
      * destruct (Ix.n_next n2) as [t3|] eqn:E3; [|destruct H].
        pose proof (sorted3_of t2 n2 t3 S2 H2 E3) as S3.
        unfold Ix.enum_trunk3, Ix.enum_trunk in H. apply in_flat_map in H. destruct H as [k3 [_ H]].
        dfind H n3 F3.
        apply (find_node_ix t3 k3 n3 S3) in F3. destruct F3 as [H3 <-].
        apply in_app_or in H. destruct H as [H|H].
        -- unfold Ix.emit in H. apply in_map_iff in H. destruct H as [x [Ex Hx]]. injection Ex as <- <-. cbn [app].
           econstructor; eassumption.
        -- destruct (Ix.n_next n3) as [tl|] eqn:E4; [|destruct H].
           unfold Ix.emit_tail in H. apply in_map_iff in H. destruct H as [le [Ex Hle]]. injection Ex as <- <-. cbn [app].
           eapply ixe4; eassumption.
  - intros X.
    assert (Hi : forall i hn, nth_error h i = Some hn -> In i (seq 0 S)).
    { intros i hn E. apply in_seq. split; [lia|]. cbn. rewrite <- HL. apply nth_error_Some. congruence. }
    assert (K2 : forall i hn t2, nth_error h i = Some hn -> Ix.h_next hn = Some t2 -> keys_lt2 S t2).
    { intros i hn t2 E1 E2. unfold keys_lt in HK. rewrite Forall_forall in HK. specialize (HK hn (nth_error_In _ _ E1)). now rewrite E2 in HK. }
    destruct X as [i hn ie0 E1 He|i hn t2 n2 ie0 E1 E2 H2 He|i hn t2 n2 t3 n3 ie0 E1 E2 H2 E3 H3 He|i hn t2 n2 t3 n3 tl le E1 E2 H2 E3 H3 E4 Hle];
      exists i; (split; [eapply Hi; eassumption|]); rewrite E1; apply in_or_app.
    + left. unfold Ix.emit. apply in_map_iff. exists ie0. auto.
    + right. rewrite E2. pose proof (sorted2_of h i hn t2 HS E1 E2) as S2. pose proof (K2 i hn t2 E1 E2) as L2.
      unfold keys_lt2 in L2. rewrite Forall_forall in L2. destruct (L2 n2 H2) as [Lk _].
      unfold Ix.enum_trunk2, Ix.enum_trunk. apply in_flat_map. exists (Ix.n_key n2). split; [apply in_seq; lia|].
      rwfind (proj2 (find_node_ix t2 (Ix.n_key n2) n2 (proj1 S2)) (conj H2 eq_refl)).
      apply in_or_app. left. unfold Ix.emit. apply in_map_iff. exists ie0. auto.
    + right. rewrite E2. pose proof (sorted2_of h i hn t2 HS E1 E2) as S2. pose proof (K2 i hn t2 E1 E2) as L2.
      unfold keys_lt2 in L2. rewrite Forall_forall in L2. destruct (L2 n2 H2) as [Lk L3]. rewrite E3 in L3.
      unfold keys_lt3 in L3. rewrite Forall_forall in L3. pose proof (L3 n3 H3) as Lk3.
      pose proof (sorted3_of t2 n2 t3 S2 H2 E3) as S3.
      unfold Ix.enum_trunk2, Ix.enum_trunk. apply in_flat_map. exists (Ix.n_key n2). split; [apply in_seq; lia|].
      rwfind (proj2 (find_node_ix t2 (Ix.n_key n2) n2 (proj1 S2)) (conj H2 eq_refl)).
      apply in_or_app. right. cbn beta iota. rwnext E3. unfold Ix.enum_trunk3, Ix.enum_trunk. apply in_flat_map.
      exists (Ix.n_key n3). split; [apply in_seq; lia|].
      rwfind (proj2 (find_node_ix t3 (Ix.n_key n3) n3 S3) (conj H3 eq_refl)).
      apply in_or_app. left. unfold Ix.emit. apply in_map_iff. exists ie0. auto.
    + right. rewrite E2. pose proof (sorted2_of h i hn t2 HS E1 E2) as S2. pose proof (K2 i hn t2 E1 E2) as L2.
      unfold keys_lt2 in L2. rewrite Forall_forall in L2. destruct (L2 n2 H2) as [Lk L3]. rewrite E3 in L3.
      unfold keys_lt3 in L3. rewrite Forall_forall in L3. pose proof (L3 n3 H3) as Lk3.
      pose proof (sorted3_of t2 n2 t3 S2 H2 E3) as S3.
      unfold Ix.enum_trunk2, Ix.enum_trunk. apply in_flat_map. exists (Ix.n_key n2). split; [apply in_seq; lia|].
      rwfind (proj2 (find_node_ix t2 (Ix.n_key n2) n2 (proj1 S2)) (conj H2 eq_refl)).
      apply in_or_app. right. cbn beta iota. rwnext E3. unfold Ix.enum_trunk3, Ix.enum_trunk. apply in_flat_map.
      exists (Ix.n_key n3). split; [apply in_seq; lia|].
      rwfind (proj2 (find_node_ix t3 (Ix.n_key n3) n3 S3) (conj H3 eq_refl)).
      apply in_or_app. right. cbn beta iota. rwnext E4. unfold Ix.emit_tail. apply in_map_iff. exists le. auto.
Qed.

Lemma table_has_ix_entry h c te :
  TP.ix_sorted_head F h -> ix_all (fun _ => True) tail_ok h ->
  (table_has (conv_head h) c te <-> exists ie, ix_entry h c ie /\ te = conv_entry ie).
Proof.
  intros HS HA. split.
  - intros [[L Hin]|[L Hin]].
    + unfold node_ents in Hin. destruct (find_node (conv_head h) c) as [n|] eqn:E; [|destruct Hin].
      destruct (find_node_spec _ _ _ E) as [Hn Hc]. apply conv_head_in in Hn. subst c.
      destruct Hn as [i hn E1|i hn t2 n2 E1 E2 H2|i hn t2 n2 t3 n3 E1 E2 H2 E3 H3]; cbn [node1 node2 node3 n_ents n_code app] in *;
        apply in_map_iff in Hin; destruct Hin as [ie [<- Hie]]; exists ie; (split; [|reflexivity]).
      * econstructor; eassumption.
      * econstructor; eassumption.
      * eapply ixe3; eassumption.
    + unfold node_tail in Hin. destruct (find_node (conv_head h) (firstn 3 c)) as [n|] eqn:E; [|destruct Hin].
      destruct (find_node_spec _ _ _ E) as [Hn Hc]. apply conv_head_in in Hn.
      destruct Hn as [i hn E1|i hn t2 n2 E1 E2 H2|i hn t2 n2 t3 n3 E1 E2 H2 E3 H3]; cbn [node1 node2 node3 n_tail n_code app] in *;
        try (destruct Hin; fail).
      destruct (Ix.n_next n3) as [tl|] eqn:E4; [|destruct Hin]. unfold conv_tail in Hin. apply in_map_iff in Hin.
      destruct Hin as [le [Ele Hle]]. injection Ele as Ex Ee. exists (Ix.le_entry le). split; [|now rewrite Ee].
      assert (Ec : c = [i; Ix.n_key n2; Ix.n_key n3] ++ Ix.le_extra le).
      { rewrite <- (firstn_skipn 3 c) at 1. f_equal; [symmetry; exact Hc|symmetry; exact Ex]. }
      rewrite Ec. eapply ixe4; eassumption.
  - intros [ie [X ->]].
    destruct X as [i hn ie0 E1 He|i hn t2 n2 ie0 E1 E2 H2 He|i hn t2 n2 t3 n3 ie0 E1 E2 H2 E3 H3 He|i hn t2 n2 t3 n3 tl le E1 E2 H2 E3 H3 E4 Hle].
    + left. split; [cbn; lia|]. unfold node_ents.
      pose proof (find_node_shape h (node1 i hn) HS (shape1 h i hn E1)) as X. change (n_code (node1 i hn)) with [i] in X.
      rewrite X. cbn. now apply in_map.
    + left. split; [cbn; lia|]. unfold node_ents.
      pose proof (find_node_shape h (node2 [i] n2) HS (shape2 h i hn t2 n2 E1 E2 H2)) as X.
      change (n_code (node2 [i] n2)) with [i; Ix.n_key n2] in X. rewrite X. cbn. now apply in_map.
    + left. split; [cbn; lia|]. unfold node_ents.
      pose proof (find_node_shape h (node3 [i; Ix.n_key n2] n3) HS (shape3 h i hn t2 n2 t3 n3 E1 E2 H2 E3 H3)) as X.
      change (n_code (node3 [i; Ix.n_key n2] n3)) with [i; Ix.n_key n2; Ix.n_key n3] in X. rewrite X. cbn. now apply in_map.
    + assert (NX : Ix.le_extra le <> []).
      { destruct (ix_all_shape _ _ h _ HA (shape3 h i hn t2 n2 t3 n3 E1 E2 H2 E3 H3)) as (es & _ & _ & [T|(tl' & Et & Ht & _)]).
        - cbn [node3 n_tail] in T. rewrite E4 in T. destruct tl; [destruct Hle|discriminate].
        - cbn [node3 n_tail] in Et. rewrite E4 in Et. unfold tail_ok in Ht. rewrite Forall_forall in Ht.
          assert (In (mkLE (Ix.le_extra le) (conv_entry (Ix.le_entry le))) (conv_tail tl')).
          { rewrite <- Et. unfold conv_tail. apply in_map_iff. exists le. auto. }
          unfold conv_tail in H. apply in_map_iff in H. destruct H as [le' [El Hl']]. injection El as Ex _.
          rewrite <- Ex. now apply Ht. }
      right. split; [rewrite app_length; destruct (Ix.le_extra le); [congruence|cbn; lia]|].
      cbn [app firstn skipn]. unfold node_tail.
      pose proof (find_node_shape h (node3 [i; Ix.n_key n2] n3) HS (shape3 h i hn t2 n2 t3 n3 E1 E2 H2 E3 H3)) as X.
      match goal with |- context [find_node ?t ?c] =>
        change (find_node t c) with (find_node (conv_head h) (n_code (node3 [i; Ix.n_key n2] n3))) end.
      rewrite X. cbn [node3 n_tail].
      rewrite E4. unfold conv_tail. apply in_map_iff. exists le. auto.
Qed.

(** for every vocabulary C06 calls well-formed: [table_has] of the converted index is C06's enumeration *)
Theorem table_has_enumerate S v c te :
  TP.wf1 S v ->
  (table_has (conv_head (Ix.build_head cast S v)) c te <->
   exists ie, In (c, ie) (Ix.enumerate S (Ix.build_head cast S v)) /\ te = conv_entry ie).
Proof.
  intros W. rewrite table_has_ix_entry.
  - split; intros [ie [H E]]; exists ie; (split; [|exact E]);
      apply (enumerate_ix_entry S _ c ie (build_head_length S v) (TP.build_head_sorted F cast S v W) (build_head_keys_lt S v W)); exact H.
  - now apply TP.build_head_sorted.
  - apply (build_head_all (fun _ => True) TP.wf4 (fun _ => True) tail_ok); auto using build_tail_ok. now apply (wf1_tails S).
Qed.

(** ... hence, for every source, the collected entries that carry a code (C06_enumerate_build) *)
Theorem table_has_source (sort_original : bool) (files : list (Vo.colspec * list Base.Bytes.bytes)) c te :
  let col := Vo.collect_files files in
  let t := conv_head (Ix.build_head cast (length (Vo.co_syll col)) (Vo.compile_vocab sort_original col)) in
  table_has t c te <->
  exists e, In e (Vo.entries_of col) /\ Vo.e_code e = c /\ c <> [] /\
            te = mkTE (conv_text (Vo.e_text e)) (wz (cast (Vo.e_w e))).
Proof.
  intros col t. unfold t. rewrite table_has_enumerate.
  2:{ unfold Vo.compile_vocab.
      assert (H : TP.wf1 (length (Vo.co_syll col)) (Vo.vocab_of (Vo.entries_of col))).
      { apply TP.vocab_of_wf. apply TP.entries_of_ids. apply TP.collect_files_inv. }
      destruct sort_original; [exact H|now apply TP.sort1_wf]. }
  pose proof (TP.enumerate_build_source cast sort_original files) as P. cbn zeta in P. fold col in P.
  split.
  - intros [ie [Hin ->]]. eapply Permutation_in in Hin; [|exact P].
    apply in_map_iff in Hin. destruct Hin as [o [Eo Ho]]. apply in_map_iff in Ho. destruct Ho as [e [<- He]].
    apply filter_In in He. destruct He as [He Hc]. unfold TP.conv, TP.out_of, TP.te in Eo. cbn in Eo. injection Eo as <- <-.
    exists e. split; [exact He|]. split; [reflexivity|]. split; [|reflexivity].
    unfold TP.has_code in Hc. destruct (Vo.e_code e); [discriminate|discriminate].
  - intros [e [He [<- [Nc ->]]]]. exists (Ix.build_entry cast e). split; [|reflexivity].
    eapply Permutation_in; [symmetry; exact P|]. apply in_map_iff. exists (TP.out_of e). split; [reflexivity|].
    apply in_map. apply filter_In. split; [exact He|]. unfold TP.has_code. destruct (Vo.e_code e) eqn:Ee; [exfalso; now apply Nc|reflexivity].
Qed.

(** ... i.e. the rows of the source files (C06_nothing_invented / C06_nothing_lost): text and code *)
Theorem table_has_rows (sort_original : bool) (files : list (Vo.colspec * list Base.Bytes.bytes)) c txt :
  let col := Vo.collect_files files in
  let t := conv_head (Ix.build_head cast (length (Vo.co_syll col)) (Vo.compile_vocab sort_original col)) in
  (exists w, table_has t c (mkTE txt w)) <->
  c <> [] /\ exists tx cs ws, In (Vo.LRow tx cs ws) (TP.source_rows files) /\ cs <> [] /\
                              txt = conv_text tx /\ c = map (Vo.id_of (Vo.co_syll col)) (Vo.split_skip Byte.x20 cs).
Proof.
  intros col t. split.
  - intros [w H]. apply (table_has_source sort_original files) in H. destruct H as [e [He [Ec [Nc Et]]]].
    split; [exact Nc|]. unfold Vo.entries_of in He. apply in_map_iff in He. destruct He as [r [<- Hr]].
    apply in_rev in Hr. destruct (TP.source_nothing_invented files r Hr) as (tx & cs & ws & Hrow & Ncs & ->).
    exists tx, cs, ws. injection Et as -> _. cbn in *. auto.
  - intros [Nc (tx & cs & ws & Hrow & Ncs & -> & ->)].
    destruct (TP.source_nothing_lost files tx cs ws Hrow Ncs) as (r & Hr & Et & Ec & _).
    exists (wz (cast (Vo.e_w (Vo.short_of (Vo.co_syll col) r)))).
    apply (table_has_source sort_original files). exists (Vo.short_of (Vo.co_syll col) r).
    split; [unfold Vo.entries_of; apply in_map; now apply -> in_rev|]. cbn. rewrite Et, Ec. auto.
Qed.

End TableSide.
