(** C07 - composition with C06 (Dict/Vocab.v, Dict/TableIx.v, read-only): a conversion from the four-level index
    Table::Build produces to the abstract table of the lookup model, and the proof that the index built from any
    well-formed vocabulary - in particular from any source, C06's [compile_vocab] - satisfies [wf_table], and
    [table_sorted] unless the source asks for the original order. *)
From Coq Require Import List Arith ZArith NArith Bool Lia Sorted.
From Coq.Strings Require Import Byte.
From RimeV Require Base.Bytes Dict.Vocab Dict.TableIx Dict.TableProofs.
From RimeV Require Import Lookup.Defs Lookup.Model Lookup.Spec Lookup.ScriptProofs.
Import ListNotations.

Module Vo := RimeV.Dict.Vocab.
Module Ix := RimeV.Dict.TableIx.
Module TP := RimeV.Dict.TableProofs.

Section TableSide.
Variable F : Type.                 (* table::Weight *)
Variable cast : Vo.dec -> F.       (* the double -> float cast of the log weight *)
Variable wz : F -> Z.              (* its exact value, scaled *)

Definition conv_text (b : Base.Bytes.bytes) : text := map Byte.to_N b.
Definition conv_entry (e : Ix.ientry F) : tentry := mkTE (conv_text (Ix.ie_text e)) (wz (Ix.ie_w e)).
Definition conv_tail (tl : Ix.tail F) : list lentry :=
  map (fun le => mkLE (Ix.le_extra le) (conv_entry (Ix.le_entry le))) tl.
Definition is_some {A} (o : option A) : bool := match o with Some _ => true | None => false end.

Definition node3 (pre : code) (n : Ix.inode F (Ix.tail F)) : node :=
  mkNode (pre ++ [Ix.n_key n]) (map conv_entry (Ix.n_entries n)) (is_some (Ix.n_next n))
         (match Ix.n_next n with Some tl => conv_tail tl | None => [] end).
Definition node2 (pre : code) (n : Ix.inode F (Ix.trunk3 F)) : node :=
  mkNode (pre ++ [Ix.n_key n]) (map conv_entry (Ix.n_entries n)) (is_some (Ix.n_next n)) [].
Definition node1 (i : nat) (hn : Ix.hnode F) : node :=
  mkNode [i] (map conv_entry (Ix.h_entries hn)) (is_some (Ix.h_next hn)) [].

Definition nodes2 (pre : code) (t2 : Ix.trunk2 F) : list node :=
  flat_map (fun n => node2 pre n ::
                     match Ix.n_next n with Some t3 => map (node3 (pre ++ [Ix.n_key n])) t3 | None => [] end) t2.

Definition conv_head (h : Ix.head F) : table :=
  flat_map (fun ih : nat * Ix.hnode F =>
              node1 (fst ih) (snd ih) ::
              match Ix.h_next (snd ih) with Some t2 => nodes2 [fst ih] t2 | None => [] end)
           (combine (seq 0 (length h)) h).

(** * what the nodes of the converted table are *)
Inductive node_shape (h : Ix.head F) : node -> Prop :=
| shape1 : forall i hn, nth_error h i = Some hn -> node_shape h (node1 i hn)
| shape2 : forall i hn t2 n2, nth_error h i = Some hn -> Ix.h_next hn = Some t2 -> In n2 t2 ->
                              node_shape h (node2 [i] n2)
| shape3 : forall i hn t2 n2 t3 n3, nth_error h i = Some hn -> Ix.h_next hn = Some t2 -> In n2 t2 ->
                                    Ix.n_next n2 = Some t3 -> In n3 t3 ->
                                    node_shape h (node3 [i; Ix.n_key n2] n3).

Lemma in_combine_seq {A} (l : list A) i x : In (i, x) (combine (seq 0 (length l)) l) <-> nth_error l i = Some x.
Proof.
  assert (G : forall (l : list A) s i x, In (i, x) (combine (seq s (length l)) l) <-> s <= i /\ nth_error l (i - s) = Some x).
  { induction l0 as [|a l0 IH]; intros s i0 x0; cbn [length seq combine].
    - cbn. split; [tauto|]. intros [_ H]. destruct (i0 - s); discriminate.
    - cbn [In]. rewrite IH. split.
      + intros [H|[H1 H2]]; [injection H as <- <-; split; [lia|]; now rewrite Nat.sub_diag|].
        split; [lia|]. replace (i0 - s) with (S (i0 - S s)) by lia. exact H2.
      + intros [H1 H2]. destruct (Nat.eq_dec i0 s) as [->|N].
        * left. rewrite Nat.sub_diag in H2. cbn in H2. now injection H2 as <-.
        * right. split; [lia|]. replace (i0 - s) with (S (i0 - S s)) in H2 by lia. exact H2. }
  rewrite G. rewrite Nat.sub_0_r. split; [tauto|]. intros H. split; [lia|exact H].
Qed.

Lemma conv_head_in h n : In n (conv_head h) <-> node_shape h n.
Proof.
  unfold conv_head. rewrite in_flat_map. split.
  - intros [[i hn] [Hi Hn]]. apply in_combine_seq in Hi. cbn [fst snd] in Hn.
    destruct Hn as [<-|Hn]; [now constructor|].
    destruct (Ix.h_next hn) as [t2|] eqn:E2; [|destruct Hn]. unfold nodes2 in Hn. apply in_flat_map in Hn.
    destruct Hn as [n2 [H2 Hn]]. destruct Hn as [<-|Hn]; [econstructor; eassumption|].
    destruct (Ix.n_next n2) as [t3|] eqn:E3; [|destruct Hn]. apply in_map_iff in Hn. destruct Hn as [n3 [<- H3]].
    cbn [app]. econstructor; eassumption.
  - intros S. destruct S as [i hn Hi|i hn t2 n2 Hi E2 H2|i hn t2 n2 t3 n3 Hi E2 H2 E3 H3];
      exists (i, hn); (split; [now apply in_combine_seq|]); cbn [fst snd].
    + now left.
    + right. rewrite E2. unfold nodes2. apply in_flat_map. exists n2. split; [exact H2|now left].
    + right. rewrite E2. unfold nodes2. apply in_flat_map. exists n2. split; [exact H2|]. right. rewrite E3.
      cbn [app]. now apply in_map.
Qed.

(** * with key-sorted trunks (C06_index_keys_sorted) a code determines its node *)
Lemma keys_unique {A} (l : list (Ix.inode F A)) a b :
  TP.keys_sorted F l -> In a l -> In b l -> Ix.n_key a = Ix.n_key b -> a = b.
Proof.
  unfold TP.keys_sorted. induction l as [|x l IH]; intros S Ha Hb E; [destruct Ha|].
  cbn in S. inversion S as [|? ? S' Fa]; subst. rewrite Forall_forall in Fa.
  destruct Ha as [<-|Ha], Hb as [<-|Hb]; try reflexivity.
  - specialize (Fa _ (in_map (@Ix.n_key F A) _ _ Hb)). lia.
  - specialize (Fa _ (in_map (@Ix.n_key F A) _ _ Ha)). lia.
  - now apply IH.
Qed.

Lemma sorted2_of h i hn t2 : TP.ix_sorted_head F h -> nth_error h i = Some hn -> Ix.h_next hn = Some t2 -> TP.ix_sorted2 F t2.
Proof.
  intros S Hi E. unfold TP.ix_sorted_head in S. rewrite Forall_forall in S.
  specialize (S hn (nth_error_In _ _ Hi)). now rewrite E in S.
Qed.

Lemma sorted3_of t2 n2 t3 : TP.ix_sorted2 F t2 -> In n2 t2 -> Ix.n_next n2 = Some t3 -> TP.ix_sorted3 F t3.
Proof.
  intros [_ S] H2 E. rewrite Forall_forall in S. specialize (S n2 H2). now rewrite E in S.
Qed.

Lemma shape_unique h n1 n2 :
  TP.ix_sorted_head F h -> node_shape h n1 -> node_shape h n2 -> n_code n1 = n_code n2 -> n1 = n2.
Proof.
  intros S S1 S2 E.
  destruct S1 as [i hn Hi|i hn t2 a2 Hi E2 H2|i hn t2 a2 t3 a3 Hi E2 H2 E3 H3];
  destruct S2 as [j hm Hj|j hm u2 b2 Hj F2 G2|j hm u2 b2 u3 b3 Hj F2 G2 F3 G3]; cbn in E; try discriminate.
  - injection E as ->. congruence.
  - injection E as -> Ek. assert (hm = hn) by congruence. subst hm. assert (u2 = t2) by congruence. subst u2.
    f_equal. eapply keys_unique; [apply (sorted2_of h j hn t2 S Hi E2)|exact H2|exact G2|exact Ek].
  - injection E as -> Ek2 Ek3. assert (hm = hn) by congruence. subst hm. assert (u2 = t2) by congruence. subst u2.
    pose proof (sorted2_of h j hn t2 S Hi E2) as S2.
    assert (b2 = a2) by (eapply keys_unique; [apply S2|exact G2|exact H2|now symmetry]). subst b2.
    assert (u3 = t3) by congruence. subst u3.
    f_equal. eapply keys_unique; [apply (sorted3_of t2 a2 t3 S2 H2 E3)|exact H3|exact G3|exact Ek3].
Qed.

Lemma find_node_spec t c n : find_node t c = Some n -> In n t /\ n_code n = c.
Proof.
  induction t as [|m t IH]; cbn; [discriminate|]. destruct (code_eqb (n_code m) c) eqn:E.
  - intros H. injection H as <-. split; [now left|]. now apply code_eqb_eq.
  - intros H. destruct (IH H) as [H1 H2]. split; [now right|exact H2].
Qed.

Lemma code_eqb_refl c : code_eqb c c = true.
Proof. induction c as [|x c IH]; cbn; [reflexivity|]. now rewrite Nat.eqb_refl, IH. Qed.

Lemma find_node_exists t n : In n t -> exists n', find_node t (n_code n) = Some n'.
Proof.
  induction t as [|m t IH]; intros H; [destruct H|]. cbn. destruct (code_eqb (n_code m) (n_code n)) eqn:E; [eauto|].
  destruct H as [->|H]; [now rewrite code_eqb_refl in E|now apply IH].
Qed.

Lemma find_node_shape h n :
  TP.ix_sorted_head F h -> node_shape h n -> find_node (conv_head h) (n_code n) = Some n.
Proof.
  intros S Hn. destruct (find_node_exists (conv_head h) n) as [n' E]; [now apply conv_head_in|].
  rewrite E. f_equal. destruct (find_node_spec _ _ _ E) as [Hin Hc]. apply conv_head_in in Hin.
  now apply (shape_unique h n' n S).
Qed.

(** * the index-level facts the lookup relies on, as predicates over all nodes *)
Definition ix_all3 (Pe : list (Ix.ientry F) -> Prop) (Pt : Ix.tail F -> Prop) (t3 : Ix.trunk3 F) : Prop :=
  Forall (fun n => Pe (Ix.n_entries n) /\ match Ix.n_next n with Some tl => Pt tl | None => True end) t3.
Definition ix_all2 Pe Pt (t2 : Ix.trunk2 F) : Prop :=
  Forall (fun n => Pe (Ix.n_entries n) /\ match Ix.n_next n with Some t3 => ix_all3 Pe Pt t3 | None => True end) t2.
Definition ix_all Pe Pt (h : Ix.head F) : Prop :=
  Forall (fun hn => Pe (Ix.h_entries hn) /\ match Ix.h_next hn with Some t2 => ix_all2 Pe Pt t2 | None => True end) h.

Lemma ix_all_shape Pe Pt h n :
  ix_all Pe Pt h -> node_shape h n ->
  exists es, n_ents n = map conv_entry es /\ Pe es /\
             (n_tail n = [] \/ exists tl, n_tail n = conv_tail tl /\ Pt tl /\ n_next n = true /\ length (n_code n) = 3).
Proof.
  intros A S. unfold ix_all in A. rewrite Forall_forall in A.
  destruct S as [i hn Hi|i hn t2 n2 Hi E2 H2|i hn t2 n2 t3 n3 Hi E2 H2 E3 H3];
    destruct (A hn (nth_error_In _ _ Hi)) as [P1 Q1].
  - exists (Ix.h_entries hn). cbn. auto.
  - rewrite E2 in Q1. unfold ix_all2 in Q1. rewrite Forall_forall in Q1. destruct (Q1 n2 H2) as [P2 _].
    exists (Ix.n_entries n2). cbn. auto.
  - rewrite E2 in Q1. unfold ix_all2 in Q1. rewrite Forall_forall in Q1. destruct (Q1 n2 H2) as [_ Q2].
    rewrite E3 in Q2. unfold ix_all3 in Q2. rewrite Forall_forall in Q2. destruct (Q2 n3 H3) as [P3 Q3].
    exists (Ix.n_entries n3). cbn [node3 n_ents n_tail n_next n_code]. split; [reflexivity|]. split; [exact P3|].
    destruct (Ix.n_next n3) as [tl|]; [|now left]. right. exists tl. cbn. auto.
Qed.

(** * wf_table and table_sorted for the converted index *)
Definition tail_ok (tl : Ix.tail F) : Prop := Forall (fun le => Ix.le_extra le <> []) tl.

Theorem conv_head_wf h :
  TP.ix_sorted_head F h -> ix_all (fun _ => True) tail_ok h -> wf_table (conv_head h).
Proof.
  intros S A.
  assert (Next1 : forall i hn t2, nth_error h i = Some hn -> Ix.h_next hn = Some t2 -> node_next (conv_head h) [i] = true).
  { intros i hn t2 Hi E2. unfold node_next. pose proof (find_node_shape h (node1 i hn) S (shape1 h i hn Hi)) as X.
    change (n_code (node1 i hn)) with [i] in X. rewrite X. cbn. now rewrite E2. }
  assert (Next2 : forall i hn t2 n2 t3, nth_error h i = Some hn -> Ix.h_next hn = Some t2 -> In n2 t2 -> Ix.n_next n2 = Some t3 ->
                                        node_next (conv_head h) [i; Ix.n_key n2] = true).
  { intros i hn t2 n2 t3 Hi E2 H2 E3. unfold node_next.
    pose proof (find_node_shape h (node2 [i] n2) S (shape2 h i hn t2 n2 Hi E2 H2)) as X.
    change (n_code (node2 [i] n2)) with [i; Ix.n_key n2] in X. rewrite X. cbn. now rewrite E3. }
  assert (Sh : forall c, (node_ents (conv_head h) c <> [] \/ node_tail (conv_head h) c <> []) ->
                         exists n, find_node (conv_head h) c = Some n /\ node_shape h n /\ n_code n = c).
  { intros c H. unfold node_ents, node_tail in H. destruct (find_node (conv_head h) c) as [n|] eqn:E; [|destruct H; congruence].
    destruct (find_node_spec _ _ _ E) as [Hin Hc]. exists n. split; [reflexivity|]. split; [now apply conv_head_in|exact Hc]. }
  constructor.
  - intros c c' H [r [Nr E]] Nc. destruct (Sh c H) as (n & _ & Sn & Hc). rewrite <- Hc in E. clear Hc H.
    destruct Sn as [i hn Hi|i hn t2 n2 Hi E2 H2|i hn t2 n2 t3 n3 Hi E2 H2 E3 H3]; cbn [node1 node2 node3 n_code app] in E.
    + destruct c' as [|a c']; [congruence|]. destruct c'; destruct r; try congruence; discriminate.
    + destruct c' as [|a [|b c']]; [congruence| |destruct c'; destruct r; try congruence; discriminate].
      injection E as <- _. eapply Next1; eassumption.
    + destruct c' as [|a [|b [|c0 c']]]; [congruence| | |destruct c'; destruct r; try congruence; discriminate].
      * injection E as <- _. eapply Next1; eassumption.
      * injection E as <- <- _. eapply Next2; eassumption.
  - intros c H. destruct (Sh c (or_intror H)) as (n & Ef & Sn & Hc). unfold node_next, node_tail in *. rewrite Ef in *.
    destruct (ix_all_shape _ _ h n A Sn) as (es & _ & _ & [T|(tl & _ & _ & Hn & _)]); [congruence|exact Hn].
  - intros c H. destruct (Sh c (or_intror H)) as (n & Ef & Sn & Hc). unfold node_tail in H. rewrite Ef in H.
    destruct (ix_all_shape _ _ h n A Sn) as (es & _ & _ & [T|(tl & _ & _ & _ & L)]); [congruence|now rewrite <- Hc].
  - intros c le H. assert (N : node_tail (conv_head h) c <> []) by (intros E; rewrite E in H; destruct H).
    destruct (Sh c (or_intror N)) as (n & Ef & Sn & Hc). unfold node_tail in H. rewrite Ef in H.
    destruct (ix_all_shape _ _ h n A Sn) as (es & _ & _ & [T|(tl & Et & Ht & _)]); [rewrite T in H; destruct H|].
    rewrite Et in H. unfold conv_tail in H. apply in_map_iff in H. destruct H as [le0 [<- Hle]]. cbn.
    unfold tail_ok in Ht. rewrite Forall_forall in Ht. now apply Ht.
Qed.

Definition entries_desc (es : list (Ix.ientry F)) : Prop :=
  StronglySorted (fun a b => (wz (Ix.ie_w b) <= wz (Ix.ie_w a))%Z) es.

Theorem conv_head_sorted h : ix_all entries_desc (fun _ => True) h -> table_sorted (conv_head h).
Proof.
  intros A c. unfold node_ents, weights_sorted. destruct (find_node (conv_head h) c) as [n|] eqn:E; [|constructor].
  destruct (find_node_spec _ _ _ E) as [Hin _]. apply conv_head_in in Hin.
  destruct (ix_all_shape _ _ h n A Hin) as (es & -> & Hs & _).
  unfold entries_desc in Hs. induction Hs as [|a l Hs IH Fa]; cbn; constructor; [exact IH|].
  rewrite Forall_forall in *. intros y Hy. apply in_map_iff in Hy. destruct Hy as [b [<- Hb]]. cbn. now apply Fa.
Qed.

(** * the index C06's builder produces from a well-formed vocabulary has these properties *)
Definition lvl_all {A} (Qe : list Vo.entry -> Prop) (Qn : A -> Prop) (v : Vo.lvl A) : Prop :=
  Forall (fun kp => Qe (Vo.p_entries (snd kp)) /\ match Vo.p_next (snd kp) with Some n => Qn n | None => True end) v.

Section Build.
Variables (Qe : list Vo.entry -> Prop) (Q4 : Vo.voc4 -> Prop).
Variables (Pe : list (Ix.ientry F) -> Prop) (Pt : Ix.tail F -> Prop).
Hypothesis He : forall es, Qe es -> Pe (map (Ix.build_entry cast) es).
Hypothesis Ht : forall v4, Q4 v4 -> Pt (Ix.build_tail cast v4).
Hypothesis Pe_nil : Pe [].

Lemma build_trunk3_all v : lvl_all Qe Q4 v -> ix_all3 Pe Pt (Ix.build_trunk3 cast v).
Proof.
  unfold lvl_all, ix_all3, Ix.build_trunk3, Ix.build_trunk. intros H. rewrite Forall_map.
  eapply Forall_impl; [|exact H]. intros [k p] [H1 H2]. cbn in *. split; [now apply He|].
  destruct (Vo.p_next p); cbn; [apply Ht; exact H2|exact I].
Qed.

Lemma build_trunk2_all v : lvl_all Qe (lvl_all Qe Q4) v -> ix_all2 Pe Pt (Ix.build_trunk2 cast v).
Proof.
  unfold lvl_all at 1, ix_all2, Ix.build_trunk2, Ix.build_trunk. intros H. rewrite Forall_map.
  eapply Forall_impl; [|exact H]. intros [k p] [H1 H2]. cbn in *. split; [now apply He|].
  unfold Vo.voc3 in *. destruct (Vo.p_next p); cbn; [apply build_trunk3_all; exact H2|exact I].
Qed.

Lemma build_head_all S v : lvl_all Qe (lvl_all Qe (lvl_all Qe Q4)) v -> ix_all Pe Pt (Ix.build_head cast S v).
Proof.
  unfold lvl_all at 1, ix_all, Ix.build_head. intros H.
  assert (H0 : Forall (fun hn : Ix.hnode F => Pe (Ix.h_entries hn) /\
                          match Ix.h_next hn with Some t2 => ix_all2 Pe Pt t2 | None => True end) (repeat (Ix.hnode0 F) S)).
  { apply Forall_forall. intros x Hx. apply repeat_spec in Hx. subst. cbn. auto. }
  revert H0. generalize (repeat (Ix.hnode0 F) S).
  induction H as [|[k p] r [H1 H2] _ IH]; intros arr Harr; cbn [fold_left]; [exact Harr|].
  apply IH. apply TP.set_nth_Forall; [|exact Harr]. cbn in *. split; [now apply He|].
  unfold Vo.voc2, Vo.voc3 in *. destruct (Vo.p_next p); cbn; [apply build_trunk2_all; exact H2|exact I].
Qed.
End Build.

Lemma wf1_tails S v : TP.wf1 S v ->
  lvl_all (fun _ => True) (lvl_all (fun _ => True) (lvl_all (fun _ => True) TP.wf4)) v.
Proof.
  assert (G : forall A (P : A -> Prop) (Q : A -> Prop) (v : Vo.lvl A), (forall n, P n -> Q n) ->
              TP.wf_lvl P S v -> lvl_all (fun _ => True) Q v).
  { intros A P Q v0 PQ [_ H]. unfold lvl_all. eapply Forall_impl; [|exact H]. intros [k p] [_ Hp]. cbn in *.
    split; [exact I|]. destruct (Vo.p_next p); auto. }
  apply G. intros v2. apply G. intros v3. apply G. auto.
Qed.

Lemma build_tail_ok v4 : TP.wf4 v4 -> tail_ok (Ix.build_tail cast v4).
Proof.
  unfold TP.wf4, tail_ok, Ix.build_tail. intros H. rewrite Forall_map. eapply Forall_impl; [|exact H].
  intros e L. cbn beta in L. cbn [Ix.le_extra]. intros E. apply (f_equal (@length _)) in E. rewrite skipn_length in E. cbn [length] in E. lia.
Qed.

(** for every vocabulary C06 calls well-formed *)
Theorem built_index_wf S v : TP.wf1 S v -> wf_table (conv_head (Ix.build_head cast S v)).
Proof.
  intros W. apply conv_head_wf; [now apply TP.build_head_sorted|].
  apply (build_head_all (fun _ => True) TP.wf4 (fun _ => True) tail_ok); auto using build_tail_ok.
  now apply (wf1_tails S).
Qed.

Hypothesis cast_mono : forall a b, Vo.dec_leb a b = true -> (wz (cast a) <= wz (cast b))%Z.

Lemma build_entries_desc es : StronglySorted TP.wdesc es -> entries_desc (map (Ix.build_entry cast) es).
Proof.
  unfold entries_desc. induction 1 as [|a l Hs IH Fa]; cbn; constructor; [exact IH|].
  rewrite Forall_forall in *. intros y Hy. apply in_map_iff in Hy. destruct Hy as [b [<- Hb]]. cbn.
  apply cast_mono. exact (Fa b Hb).
Qed.

Theorem built_index_sorted S v : TP.sorted1 v -> table_sorted (conv_head (Ix.build_head cast S v)).
Proof.
  intros H. apply conv_head_sorted.
  apply (build_head_all (StronglySorted TP.wdesc) TP.sorted4 entries_desc (fun _ => True)); auto using build_entries_desc.
  constructor.
Qed.

(** for every source: C06's pipeline *)
Theorem compiled_index_wf (sort_original : bool) (files : list (Vo.colspec * list Base.Bytes.bytes)) :
  let c := Vo.collect_files files in
  wf_table (conv_head (Ix.build_head cast (length (Vo.co_syll c)) (Vo.compile_vocab sort_original c))).
Proof.
  intros c. apply built_index_wf. unfold Vo.compile_vocab.
  assert (H : TP.wf1 (length (Vo.co_syll c)) (Vo.vocab_of (Vo.entries_of c))).
  { apply TP.vocab_of_wf. apply TP.entries_of_ids. apply TP.collect_files_inv. }
  destruct sort_original; [exact H|now apply TP.sort1_wf].
Qed.

Theorem compiled_index_sorted (files : list (Vo.colspec * list Base.Bytes.bytes)) :
  let c := Vo.collect_files files in
  table_sorted (conv_head (Ix.build_head cast (length (Vo.co_syll c)) (Vo.compile_vocab false c))).
Proof. intros c. apply built_index_sorted. unfold Vo.compile_vocab. apply TP.sort1_sorted. Qed.

End TableSide.
