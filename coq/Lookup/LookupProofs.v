(** C07 - match_extra_code and lookup_table: what ends up in the DictEntryCollector, exactly. *)
From Coq Require Import List Arith ZArith NArith Bool Lia Sorted Permutation.
From RimeV Require Import Lookup.Defs Lookup.Model Lookup.Spec Lookup.MapProofs Lookup.QueryProofs Lookup.IterProofs.
Import ListNotations.

(** * the "keep the farthest match" fold of match_extra_code *)
Definition best_step (sub : props -> cmatch) (best : cmatch) (p : props) : cmatch :=
  let m := sub p in if fst (fst m) then (if snd best <? snd m then m else best) else best.

Lemma fold_best_cases sub pl b :
  fold_left (best_step sub) pl b = b \/
  exists p, In p pl /\ fst (fst (sub p)) = true /\ fold_left (best_step sub) pl b = sub p.
Proof.
  revert b. induction pl as [|q pl IH]; intros b; [now left|]. cbn [fold_left].
  destruct (IH (best_step sub b q)) as [H|[p [Hp [Hs H]]]].
  - rewrite H. unfold best_step. destruct (fst (fst (sub q))) eqn:Eq; [|now left].
    destruct (snd b <? snd (sub q)); [|now left]. right. exists q. split; [now left|auto].
  - right. exists p. split; [now right|auto].
Qed.

Lemma fold_best_ge sub pl b :
  snd b <= snd (fold_left (best_step sub) pl b) /\
  forall p, In p pl -> fst (fst (sub p)) = true -> snd (sub p) <= snd (fold_left (best_step sub) pl b).
Proof.
  revert b. induction pl as [|q pl IH]; intros b; [cbn; split; [lia|intros ? []]|]. cbn [fold_left].
  destruct (IH (best_step sub b q)) as [H1 H2].
  assert (Hb : snd b <= snd (best_step sub b q) /\ (fst (fst (sub q)) = true -> snd (sub q) <= snd (best_step sub b q))).
  { unfold best_step. destruct (fst (fst (sub q))); [|split; [lia|discriminate]].
    destruct (snd b <? snd (sub q)) eqn:E; [apply Nat.ltb_lt in E|apply Nat.ltb_ge in E]; split; intros; lia. }
  destruct Hb as [Hb1 Hb2]. split; [lia|]. intros p [<-|Hp] Hs; [specialize (Hb2 Hs); lia|now apply H2].
Qed.

Lemma match_extra_cons g predict s rest depth pos index pl :
  wf_graph g -> pos < g_ilen g -> In (pos, index) (g_indices g) -> In (s, pl) index ->
  match_extra g predict (s :: rest) depth pos =
  fold_left (best_step (fun p => match_extra g predict rest (S depth) (p_end p))) pl k_failed.
Proof.
  intros W Hl Hi Hs. cbn [match_extra].
  destruct (g_ilen g <=? pos) eqn:E; [apply Nat.leb_le in E; lia|].
  apply (assoc_index g pos index W) in Hi as Hi'. rewrite Hi'.
  apply (assoc_syll g pos index s pl W Hi) in Hs. rewrite Hs. reflexivity.
Qed.

(** soundness: a successful match spells a prefix of the extra code (all of it, unless it is a prediction that
    reached the end of the interpreted input) *)
Lemma match_extra_sound g predict rest : wf_graph g -> forall depth pos d e,
  pos <= g_ilen g -> match_extra g predict rest depth pos = (true, d, e) ->
  exists k, d = depth + k /\ k <= length rest /\ gpath g pos (firstn k rest) e /\
            (k = length rest \/ (predict = true /\ e = g_ilen g)).
Proof.
  intros W. induction rest as [|s rest IH]; intros depth pos d e Hpos H.
  - cbn in H. injection H as <- <-. exists 0. split; [lia|]. split; [cbn; lia|]. split; [constructor|now left].
  - cbn [match_extra] in H. destruct (g_ilen g <=? pos) eqn:E.
    + apply Nat.leb_le in E. destruct predict; [|discriminate]. injection H as <- <-.
      exists 0. cbn [firstn]. assert (pos = g_ilen g) by lia. subst pos.
      split; [lia|]. split; [cbn; lia|]. split; [constructor|now right].
    + destruct (assoc_nat pos (g_indices g)) as [index|] eqn:EI; [|discriminate].
      destruct (assoc_nat s index) as [pl|] eqn:ES; [|discriminate].
      apply assoc_nat_in in EI. apply assoc_nat_in in ES.
      change (fold_left _ pl k_failed) with
        (fold_left (best_step (fun p => match_extra g predict rest (S depth) (p_end p))) pl k_failed) in H.
      destruct (fold_best_cases (fun p => match_extra g predict rest (S depth) (p_end p)) pl k_failed) as [Hc|[p [Hp [Hs Hc]]]].
      * rewrite Hc in H. discriminate.
      * rewrite Hc in H. assert (He : has_edge g pos s p) by (exists index, pl; auto).
        pose proof (wf_forward g W _ _ _ He) as Hf.
        apply IH in H; [|lia]. destruct H as [k [-> [Hk [Hg Hor]]]].
        exists (S k). cbn [firstn length]. split; [lia|]. split; [lia|]. split.
        -- econstructor; eassumption.
        -- destruct Hor as [->|Hor]; [now left|now right].
Qed.

(** completeness: whenever the extra code labels a path, the match succeeds and ends at least that far *)
Lemma match_extra_complete g predict rest : wf_graph g -> forall depth pos e,
  gpath g pos rest e ->
  fst (fst (match_extra g predict rest depth pos)) = true /\ e <= snd (match_extra g predict rest depth pos).
Proof.
  intros W. induction rest as [|s rest IH]; intros depth pos e H.
  - inversion H; subst. cbn. split; [reflexivity|lia].
  - inversion H as [|? ? p ? ? He Hr]; subst.
    pose proof (wf_forward g W _ _ _ He) as Hf. destruct He as [index [pl [Hi [Hs Hp]]]].
    rewrite (match_extra_cons g predict s rest depth pos index pl W) by (assumption || lia).
    set (sub := fun p0 => match_extra g predict rest (S depth) (p_end p0)).
    destruct (IH (S depth) (p_end p) e Hr) as [S1 S2].
    pose proof (gpath_le g _ _ _ W Hr) as Hle.
    destruct (fold_best_ge sub pl k_failed) as [_ G]. specialize (G p Hp S1). fold sub.
    split; [|unfold sub in *; lia].
    destruct (fold_best_cases sub pl k_failed) as [Hc|[p' [_ [Hs' Hc]]]].
    + rewrite Hc in G. cbn in G. unfold sub in *. lia.
    + rewrite Hc. exact Hs'.
Qed.

(** * chunks handed to the collector *)
Lemma lookup_chunks_in g t start predict e c :
  In (e, c) (lookup_chunks g t start predict) <->
  exists e0 a, In (e0, a) (query g t start) /\ In (e, c) (chunks_of_item g predict (e0, a)).
Proof.
  unfold lookup_chunks. rewrite in_flat_map. split.
  - intros [[e0 accs] [Hin H]]. cbn [fst snd] in H. apply in_flat_map in H. destruct H as [a [Ha H]].
    exists e0, a. split; [|exact H]. apply group_in. eauto.
  - intros [e0 [a [Hq H]]]. apply group_in in Hq. destruct Hq as [accs [Hin Ha]].
    exists (e0, accs). split; [exact Hin|]. cbn [fst snd]. apply in_flat_map. eauto.
Qed.

Lemma lookup_in g t start predict e it :
  In (e, it) (lookup g t start predict) <->
  exists cs, In (e, cs) (group (lookup_chunks g t start predict)) /\ it = sort_head cs.
Proof.
  unfold lookup. rewrite in_map_iff. split.
  - intros [[e' cs] [E H]]. cbn in E. injection E as -> <-. eauto.
  - intros [cs [H ->]]. exists (e, cs). auto.
Qed.

Lemma lookup_keys_sorted g t start predict : keys_sorted (lookup g t start predict).
Proof.
  unfold lookup, keys_sorted. rewrite map_map. cbn [fst].
  change (map (fun x : nat * list chunk => fst x) ?l) with (map fst l). apply group_sorted.
Qed.

(** the entries held by the iterator of end position [e] are exactly the entries of the chunks added under [e] *)
Lemma lookup_entry_in g t start predict e it d :
  In (e, it) (lookup g t start predict) ->
  (In d (all_entries it) <-> exists c te, In (e, c) (lookup_chunks g t start predict) /\ In te (c_ents c) /\ d = mk_dentry c te).
Proof.
  intros H. apply lookup_in in H. destruct H as [cs [Hin ->]].
  assert (P : Permutation (all_entries (sort_head cs)) (all_entries cs)).
  { apply all_entries_perm. symmetry. apply sort_head_perm. }
  split.
  - intros Hd. eapply Permutation_in in Hd; [|exact P]. unfold all_entries in Hd. apply in_flat_map in Hd.
    destruct Hd as [c [Hc Hd]]. unfold entries_of in Hd. apply in_map_iff in Hd. destruct Hd as [te [<- Hte]].
    exists c, te. split; [|auto]. apply group_in. eauto.
  - intros [c [te [Hc [Hte ->]]]]. eapply Permutation_in; [symmetry; exact P|].
    apply group_in in Hc. destruct Hc as [cs' [Hin' Hc]].
    assert (cs' = cs).
    { pose proof (group_sorted (lookup_chunks g t start predict)) as S.
      pose proof (in_assoc_nat_sorted _ _ _ S Hin). pose proof (in_assoc_nat_sorted _ _ _ S Hin'). congruence. }
    subst cs'. unfold all_entries. apply in_flat_map. exists c. split; [exact Hc|].
    unfold entries_of. now apply in_map.
Qed.

(** * well-formed chunks: what Table::Query and match_extra_code can produce *)
Lemma chunks_of_item_ok g t start predict e0 a e c :
  wf_graph g -> table_sorted t -> start < g_ilen g ->
  In (e0, a) (query g t start) -> In (e, c) (chunks_of_item g predict (e0, a)) -> chunk_ok c.
Proof.
  intros W TS Hs Hq Hc. pose proof Hq as Hq0. apply query_sound_complete in Hq; [|exact W|exact Hs].
  destruct Hq as [[ic [pos [cred [x [p [Wp [L [He [-> [-> NE]]]]]]]]]]|[ic [cred [Wp [L [Hi [-> NE]]]]]]].
  - cbn in Hc. destruct Hc as [Hc|[]]. injection Hc as <- <-.
    split; [exact NE|]. split; [apply TS|]. unfold chunk_wf. cbn. rewrite app_length. cbn. lia.
  - cbn [chunks_of_item snd fst] in Hc. apply in_flat_map in Hc. destruct Hc as [le [Hle Hc]].
    destruct (match_extra g predict (le_extra le) 0 e0) as [[ok d] e'] eqn:EM. cbn [fst snd] in Hc.
    destruct ok; [|destruct Hc]. destruct Hc as [Hc|[]]. injection Hc as <- <-.
    assert (Hpos : e0 <= g_ilen g).
    { pose proof (wpath_pos_lt g t start ic e0 cred Hs Wp). lia. }
    apply match_extra_sound in EM; [|exact W|exact Hpos]. destruct EM as [k [-> [Hk _]]].
    split; [cbn; discriminate|]. split; [cbn; repeat constructor|].
    unfold chunk_wf. cbn. rewrite app_length. lia.
Qed.

Lemma lookup_chunks_ok g t start predict e c :
  wf_graph g -> table_sorted t -> start < g_ilen g ->
  In (e, c) (lookup_chunks g t start predict) -> chunk_ok c.
Proof.
  intros W TS Hs H. apply lookup_chunks_in in H. destruct H as [e0 [a [Hq Hc]]].
  eapply chunks_of_item_ok; eassumption.
Qed.

Lemma lookup_start_out g t start predict : g_ilen g <= start -> lookup g t start predict = [].
Proof.
  intros H. unfold lookup, lookup_chunks. rewrite query_out_of_range by exact H. reflexivity.
Qed.

Lemma lookup_iter_ok g t start predict e it :
  wf_graph g -> table_sorted t ->
  In (e, it) (lookup g t start predict) -> Forall chunk_ok it /\ head_min it.
Proof.
  intros W TS H. destruct (le_lt_dec (g_ilen g) start) as [Hs|Hs].
  - rewrite lookup_start_out in H by exact Hs. destruct H.
  - apply lookup_in in H. destruct H as [cs [Hin ->]]. split; [|apply sort_head_min].
    eapply Permutation_Forall; [apply sort_head_perm|]. rewrite Forall_forall. intros c Hc.
    eapply (lookup_chunks_ok g t start predict e c); try eassumption. apply group_in. eauto.
Qed.

(** * exact matches (predict_word = false): the collector, entry by entry *)
Definition farthest (g : graph) (s : nat) (c : code) (e : nat) : Prop :=
  gpath g s c e /\ forall e', gpath g s c e' -> e' <= e.

(** [spelled g c s e]: the code labels a path s -> e; for codes longer than three syllables the lookup registers the
    entry at the FARTHEST end its extra code reaches from the end of the three-syllable index code *)
Definition spelled (g : graph) (c : code) (s e : nat) : Prop :=
  (length c <= 3 /\ gpath g s c e) \/
  (3 < length c /\ exists e3, gpath g s (firstn 3 c) e3 /\ farthest g e3 (skipn 3 c) e).

Lemma spelled_gpath g c s e : spelled g c s e -> gpath g s c e.
Proof.
  intros [[_ H]|[_ [e3 [H1 [H2 _]]]]]; [exact H|].
  rewrite <- (firstn_skipn 3 c). apply gpath_app. eauto.
Qed.

Theorem collector_exact g t start e c te :
  wf_graph g -> wf_table t -> start < g_ilen g ->
  ((exists ch, In (e, ch) (lookup_chunks g t start false) /\ c_code ch = c /\ In te (c_ents ch)) <->
   table_has t c te /\ spelled g c start e).
Proof.
  intros W WT Hs. split.
  - intros [ch [Hin [<- Hte]]]. apply lookup_chunks_in in Hin. destruct Hin as [e0 [a [Hq Hc]]].
    apply query_sound_complete in Hq; [|exact W|exact Hs].
    destruct Hq as [[ic [pos [cred [x [p [Wp [L [He [-> [-> NE]]]]]]]]]]|[ic [cred [Wp [L [Hi [-> NE]]]]]]].
    + cbn in Hc. destruct Hc as [Hc|[]]. injection Hc as <- <-. cbn [c_code c_ents] in *.
      assert (L' : length (ic ++ [x]) <= 3) by (rewrite app_length; cbn; lia).
      split.
      * left. split; [rewrite app_length in *; cbn in *; lia|exact Hte].
      * left. split; [exact L'|]. apply gpath_snoc. exists pos, p. split; [eapply wpath_gpath; eassumption|auto].
    + cbn [chunks_of_item snd fst] in Hc. apply in_flat_map in Hc. destruct Hc as [le [Hle Hc]].
      destruct (match_extra g false (le_extra le) 0 e0) as [[ok d] e'] eqn:EM. cbn [fst snd] in Hc.
      destruct ok; [|destruct Hc]. destruct Hc as [Hc|[]]. injection Hc as <- <-. cbn [c_code c_ents] in *.
      destruct Hte as [<-|[]].
      assert (Hpos : e0 <= g_ilen g) by (pose proof (wpath_pos_lt g t start ic e0 cred Hs Wp); lia).
      pose proof EM as EM0. apply match_extra_sound in EM; [|exact W|exact Hpos].
      destruct EM as [k [-> [Hk [Hg [->|[Hf _]]]]]]; [|discriminate]. rewrite firstn_all in Hg.
      pose proof (wf_tail_extra t WT ic le Hle) as NX.
      assert (LX : 3 < length (ic ++ le_extra le)) by (rewrite app_length; destruct (le_extra le); [congruence|cbn; lia]).
      assert (F3 : firstn 3 (ic ++ le_extra le) = ic) by (rewrite firstn_app, <- L, Nat.sub_diag, firstn_all; cbn; apply app_nil_r).
      assert (S3 : skipn 3 (ic ++ le_extra le) = le_extra le) by (rewrite skipn_app, <- L, Nat.sub_diag, skipn_all; reflexivity).
      split.
      * right. split; [exact LX|]. rewrite F3, S3. destruct le as [ex en]. exact Hle.
      * right. split; [exact LX|]. exists e0. rewrite F3, S3. split; [eapply wpath_gpath; eassumption|].
        split; [exact Hg|]. intros e'' Hg'.
        destruct (match_extra_complete g false (le_extra le) W 0 e0 e'' Hg') as [_ Hmax]. rewrite EM0 in Hmax. exact Hmax.
  - intros [[[L Hte]|[L Hte]] Hsp].
    + destruct Hsp as [[_ Hg]|[L' _]]; [|lia].
      assert (NE : node_ents t c <> []) by (intros E; rewrite E in Hte; destruct Hte).
      destruct (proj2 (query_short_codes g t start c e W WT Hs L NE) Hg) as [cred Hq].
      exists (mkChunk c (node_ents t c) 0 (length c) cred). split; [|auto].
      apply lookup_chunks_in. exists e, (AccShort c (node_ents t c) cred). split; [exact Hq|]. cbn. now left.
    + destruct Hsp as [[L' _]|[_ [e3 [Hg3 [Hgx Hmax]]]]]; [lia|].
      set (ic := firstn 3 c) in *. set (ex := skipn 3 c) in *.
      assert (NE : node_tail t ic <> []) by (intros E; rewrite E in Hte; destruct Hte).
      assert (NX : ex <> []) by (apply (wf_tail_extra t WT ic _ Hte)).
      assert (Hl3 : e3 < g_ilen g).
      { pose proof (gpath_lt g _ _ _ W NX Hgx). pose proof (gpath_end_le g _ _ _ W NX Hgx). lia. }
      assert (Hidx : exists index, In (e3, index) (g_indices g)).
      { inversion Hgx as [|? ? p ? ? [index [pl [Hi _]]] _]; subst; [congruence|eauto]. }
      destruct (proj2 (query_tail_pages g t start ic e3 W WT Hs NE) (conj Hg3 (conj Hl3 Hidx))) as [cred Hq].
      destruct (match_extra_complete g false ex W 0 e3 e Hgx) as [S1 S2].
      destruct (match_extra g false ex 0 e3) as [[ok d] e'] eqn:EM. cbn [fst snd] in S1, S2. subst ok.
      pose proof EM as EM0. apply match_extra_sound in EM; [|exact W|lia].
      destruct EM as [k [-> [Hk [Hg' [->|[Hf _]]]]]]; [|discriminate]. rewrite firstn_all in Hg'.
      assert (e' = e) by (specialize (Hmax e' Hg'); lia). subst e'.
      exists (mkChunk (ic ++ ex) [te] 0 (length ic + (0 + length ex)) cred).
      split; [|split; [unfold ic, ex; apply firstn_skipn|now left]].
      apply lookup_chunks_in. exists e3, (AccLong ic (node_tail t ic) cred). split; [exact Hq|].
      cbn [chunks_of_item snd fst]. apply in_flat_map. exists (mkLE ex te). split; [exact Hte|].
      cbn [le_extra le_ent]. rewrite EM0. cbn [fst snd]. now left.
Qed.

(** with predict_word = false every chunk is an exact match *)
Lemma lookup_chunks_exact g t start e ch :
  wf_graph g -> start < g_ilen g -> In (e, ch) (lookup_chunks g t start false) -> c_match ch = length (c_code ch).
Proof.
  intros W Hs Hin. apply lookup_chunks_in in Hin. destruct Hin as [e0 [a [Hq Hc]]].
  apply query_sound_complete in Hq; [|exact W|exact Hs].
  destruct Hq as [[ic [pos [cred [x [p [Wp [L [He [-> [-> NE]]]]]]]]]]|[ic [cred [Wp [L [Hi [-> NE]]]]]]].
  - cbn in Hc. destruct Hc as [Hc|[]]. injection Hc as <- <-. reflexivity.
  - cbn [chunks_of_item snd fst] in Hc. apply in_flat_map in Hc. destruct Hc as [le [Hle Hc]].
    destruct (match_extra g false (le_extra le) 0 e0) as [[ok d] e'] eqn:EM. cbn [fst snd] in Hc.
    destruct ok; [|destruct Hc]. destruct Hc as [Hc|[]]. injection Hc as <- <-. cbn [c_code c_match].
    assert (Hpos : e0 <= g_ilen g) by (pose proof (wpath_pos_lt g t start ic e0 cred Hs Wp); lia).
    apply match_extra_sound in EM; [|exact W|exact Hpos].
    destruct EM as [k [-> [Hk [Hg [->|[Hf _]]]]]]; [|discriminate]. rewrite app_length. lia.
Qed.

(** with predict_word = true: every chunk is a table entry whose code - or, for a predictive match, a proper
    prefix of it that reaches the end of the interpreted input - labels a path from the start *)
Theorem collector_sound_predict g t start predict e ch te :
  wf_graph g -> wf_table t -> start < g_ilen g ->
  In (e, ch) (lookup_chunks g t start predict) -> In te (c_ents ch) ->
  table_has t (c_code ch) te /\ 1 <= c_match ch <= length (c_code ch) /\
  gpath g start (firstn (c_match ch) (c_code ch)) e /\
  (c_match ch < length (c_code ch) -> predict = true /\ e = g_ilen g /\ 3 <= c_match ch).
Proof.
  intros W WT Hs Hin Hte. apply lookup_chunks_in in Hin. destruct Hin as [e0 [a [Hq Hc]]].
  apply query_sound_complete in Hq; [|exact W|exact Hs].
  destruct Hq as [[ic [pos [cred [x [p [Wp [L [He [-> [-> NE]]]]]]]]]]|[ic [cred [Wp [L [Hi [-> NE]]]]]]].
  - cbn in Hc. destruct Hc as [Hc|[]]. injection Hc as <- <-. cbn [c_code c_ents c_match] in *.
    rewrite firstn_all. rewrite app_length. cbn [length].
    split; [left; split; [rewrite app_length; cbn; lia|exact Hte]|].
    split; [lia|]. split; [|lia]. apply gpath_snoc. exists pos, p. split; [eapply wpath_gpath; eassumption|auto].
  - cbn [chunks_of_item snd fst] in Hc. apply in_flat_map in Hc. destruct Hc as [le [Hle Hc]].
    destruct (match_extra g predict (le_extra le) 0 e0) as [[ok d] e'] eqn:EM. cbn [fst snd] in Hc.
    destruct ok; [|destruct Hc]. destruct Hc as [Hc|[]]. injection Hc as <- <-. cbn [c_code c_ents c_match] in *.
    destruct Hte as [<-|[]].
    assert (Hpos : e0 <= g_ilen g) by (pose proof (wpath_pos_lt g t start ic e0 cred Hs Wp); lia).
    apply match_extra_sound in EM; [|exact W|exact Hpos]. destruct EM as [k [-> [Hk [Hg Hor]]]].
    pose proof (wf_tail_extra t WT ic le Hle) as NX.
    assert (LX : 3 < length (ic ++ le_extra le)) by (rewrite app_length; destruct (le_extra le); [congruence|cbn; lia]).
    assert (F3 : firstn 3 (ic ++ le_extra le) = ic) by (rewrite firstn_app, <- L, Nat.sub_diag, firstn_all; cbn; apply app_nil_r).
    assert (S3 : skipn 3 (ic ++ le_extra le) = le_extra le) by (rewrite skipn_app, <- L, Nat.sub_diag, skipn_all; reflexivity).
    split; [right; split; [exact LX|]; rewrite F3, S3; destruct le; exact Hle|].
    rewrite app_length. split; [lia|]. split.
    + rewrite firstn_app. replace (length ic + (0 + k) - length ic) with k by lia.
      rewrite firstn_all2 by lia. apply gpath_app. exists e0. split; [eapply wpath_gpath; eassumption|exact Hg].
    + intros Hlt. destruct Hor as [->|[-> ->]]; [lia|]. repeat split; lia.
Qed.
