(** C07 - lemmas on the key-ordered maps ([map_push], [group]) that model std::map<int, vector<V>>. *)
From Coq Require Import List Arith Bool Lia Sorted Permutation.
From RimeV Require Import Lookup.Defs.
Import ListNotations.

Definition keys_sorted {A} (m : list (nat * A)) : Prop := StronglySorted lt (map fst m).

Lemma assoc_nat_none_lt {A} (k : nat) (m : list (nat * A)) :
  Forall (fun k' => k < k') (map fst m) -> assoc_nat k m = None.
Proof.
  induction m as [|[k' v] m IH]; intros H; [reflexivity|].
  cbn in H. inversion H; subst. cbn [assoc_nat].
  destruct (k =? k') eqn:E; [apply Nat.eqb_eq in E; lia|]. now apply IH.
Qed.

Lemma assoc_nat_in {A} (k : nat) (v : A) (m : list (nat * A)) :
  assoc_nat k m = Some v -> In (k, v) m.
Proof.
  induction m as [|[k' v'] m IH]; cbn [assoc_nat]; [discriminate|].
  destruct (k =? k') eqn:E.
  - apply Nat.eqb_eq in E. intros H. injection H as ->. subst. now left.
  - intros H. right. now apply IH.
Qed.

Lemma in_assoc_nat_sorted {A} (k : nat) (v : A) (m : list (nat * A)) :
  keys_sorted m -> In (k, v) m -> assoc_nat k m = Some v.
Proof.
  unfold keys_sorted. induction m as [|[k' v'] m IH]; intros S H; [destruct H|].
  cbn in S. inversion S as [|? ? S' F]; subst. cbn [assoc_nat].
  destruct H as [H|H].
  - injection H as E1 E2. subst. now rewrite Nat.eqb_refl.
  - destruct (k =? k') eqn:E.
    + apply Nat.eqb_eq in E. subst k'. exfalso.
      rewrite Forall_forall in F. specialize (F k (in_map fst _ _ H)). cbn in F. lia.
    + now apply IH.
Qed.

Lemma in_assoc_nat_nodup {A} (k : nat) (v : A) (m : list (nat * A)) :
  NoDup (map fst m) -> In (k, v) m -> assoc_nat k m = Some v.
Proof.
  induction m as [|[k' v'] m IH]; intros S H; [destruct H|].
  cbn in S. inversion S as [|? ? N S']; subst. cbn [assoc_nat].
  destruct H as [H|H].
  - injection H as E1 E2. subst. now rewrite Nat.eqb_refl.
  - destruct (k =? k') eqn:E.
    + apply Nat.eqb_eq in E. subst. exfalso. apply N. now apply (in_map fst _ _ H).
    + now apply IH.
Qed.

Lemma keys_sorted_nodup {A} (m : list (nat * A)) : keys_sorted m -> NoDup (map fst m).
Proof.
  unfold keys_sorted. induction (map fst m) as [|k l IH]; intros S; [constructor|].
  inversion S as [|? ? S' F]; subst. constructor; [|now apply IH].
  intros H. rewrite Forall_forall in F. specialize (F k H). lia.
Qed.

Section Push.
Context {A : Type}.

Lemma map_push_keys (k : nat) (v : A) (m : list (nat * list A)) :
  forall k', In k' (map fst (map_push k v m)) <-> k' = k \/ In k' (map fst m).
Proof.
  induction m as [|[k0 vs] m IH]; intros k'; cbn [map_push].
  - cbn. intuition.
  - destruct (k <? k0) eqn:E1; [cbn; intuition|].
    destruct (k =? k0) eqn:E2.
    + apply Nat.eqb_eq in E2. subst. cbn. intuition.
    + cbn [map fst In]. rewrite IH. intuition.
Qed.

Lemma map_push_sorted (k : nat) (v : A) (m : list (nat * list A)) :
  keys_sorted m -> keys_sorted (map_push k v m).
Proof.
  unfold keys_sorted. induction m as [|[k0 vs] m IH]; intros S; cbn [map_push].
  - cbn. constructor; constructor.
  - cbn in S. inversion S as [|? ? S' F]; subst.
    destruct (k <? k0) eqn:E1.
    + apply Nat.ltb_lt in E1. cbn. constructor; [exact S|].
      constructor; [exact E1|]. eapply Forall_impl; [|exact F]. cbn. intros; lia.
    + apply Nat.ltb_ge in E1. destruct (k =? k0) eqn:E2.
      * cbn. constructor; assumption.
      * apply Nat.eqb_neq in E2. cbn. constructor; [now apply IH|].
        rewrite Forall_forall. intros k' Hk'. apply map_push_keys in Hk'.
        destruct Hk' as [->|Hk']; [lia|]. rewrite Forall_forall in F. now apply F.
Qed.

Lemma map_push_assoc (k : nat) (v : A) (m : list (nat * list A)) (k' : nat) :
  keys_sorted m ->
  assoc_list k' (map_push k v m) = if k' =? k then assoc_list k' m ++ [v] else assoc_list k' m.
Proof.
  unfold keys_sorted, assoc_list. induction m as [|[k0 vs] m IH]; intros S; cbn [map_push].
  - cbn [assoc_nat]. destruct (k' =? k); reflexivity.
  - cbn in S. inversion S as [|? ? S' F]; subst.
    destruct (k <? k0) eqn:E1.
    + apply Nat.ltb_lt in E1. cbn [assoc_nat]. destruct (k' =? k) eqn:E.
      * apply Nat.eqb_eq in E. subst k'.
        destruct (k =? k0) eqn:E0; [apply Nat.eqb_eq in E0; lia|].
        rewrite assoc_nat_none_lt; [reflexivity|]. eapply Forall_impl; [|exact F]. cbn; intros; lia.
      * reflexivity.
    + apply Nat.ltb_ge in E1. destruct (k =? k0) eqn:E2.
      * apply Nat.eqb_eq in E2. subst k0. cbn [assoc_nat]. destruct (k' =? k); reflexivity.
      * cbn [assoc_nat]. destruct (k' =? k0) eqn:E3.
        -- apply Nat.eqb_eq in E3. subst k'. rewrite Nat.eqb_sym, E2. reflexivity.
        -- now apply IH.
Qed.

Lemma map_push_nonempty (k : nat) (v : A) (m : list (nat * list A)) :
  Forall (fun kv => snd kv <> []) m -> Forall (fun kv => snd kv <> []) (map_push k v m).
Proof.
  induction m as [|[k0 vs] m IH]; intros F; cbn [map_push].
  - constructor; [cbn; discriminate|constructor].
  - inversion F; subst. destruct (k <? k0).
    + constructor; [cbn; discriminate|assumption].
    + destruct (k =? k0).
      * constructor; [cbn; now destruct vs|assumption].
      * constructor; [assumption|now apply IH].
Qed.

Definition push_all (items : list (nat * A)) (m : list (nat * list A)) :=
  fold_left (fun m kv => map_push (fst kv) (snd kv) m) items m.

Lemma push_all_sorted items m : keys_sorted m -> keys_sorted (push_all items m).
Proof.
  revert m. induction items as [|[k v] items IH]; intros m S; [exact S|].
  cbn. apply IH. now apply map_push_sorted.
Qed.

Lemma push_all_nonempty items m :
  Forall (fun kv => snd kv <> []) m -> Forall (fun kv => snd kv <> []) (push_all items m).
Proof.
  revert m. induction items as [|[k v] items IH]; intros m S; [exact S|].
  cbn. apply IH. now apply map_push_nonempty.
Qed.

Lemma push_all_assoc items m k :
  keys_sorted m ->
  assoc_list k (push_all items m) = assoc_list k m ++ map snd (filter (fun kv => fst kv =? k) items).
Proof.
  revert m. induction items as [|[k0 v] items IH]; intros m S.
  - cbn. now rewrite app_nil_r.
  - cbn [push_all fold_left]. change (fold_left _ items ?x) with (push_all items x).
    rewrite IH by now apply map_push_sorted. rewrite map_push_assoc by exact S.
    cbn [fst snd filter]. rewrite (Nat.eqb_sym k0 k). destruct (k =? k0); cbn [map snd].
    + now rewrite <- app_assoc.
    + reflexivity.
Qed.

Lemma push_all_keys items m k :
  In k (map fst (push_all items m)) <-> In k (map fst m) \/ In k (map fst items).
Proof.
  revert m. induction items as [|[k0 v] items IH]; intros m.
  - cbn. intuition.
  - cbn [push_all fold_left]. change (fold_left _ items ?x) with (push_all items x).
    rewrite IH, map_push_keys. cbn. intuition.
Qed.

Lemma group_sorted (items : list (nat * A)) : keys_sorted (group items).
Proof. apply (push_all_sorted items []). constructor. Qed.

Lemma group_nonempty (items : list (nat * A)) : Forall (fun kv => snd kv <> []) (group items).
Proof. apply (push_all_nonempty items []). constructor. Qed.

Lemma group_assoc (items : list (nat * A)) (k : nat) :
  assoc_list k (group items) = map snd (filter (fun kv => fst kv =? k) items).
Proof. change (group items) with (push_all items []). rewrite (push_all_assoc items [] k) by constructor. reflexivity. Qed.

Lemma group_keys (items : list (nat * A)) (k : nat) :
  In k (map fst (group items)) <-> In k (map fst items).
Proof. change (group items) with (push_all items []). rewrite (push_all_keys items [] k). cbn. intuition. Qed.

(** membership is preserved by grouping *)
Lemma group_in (items : list (nat * A)) (k : nat) (v : A) :
  In (k, v) items <-> exists vs, In (k, vs) (group items) /\ In v vs.
Proof.
  split.
  - intros H.
    assert (Hk : In k (map fst (group items))) by (apply group_keys; apply (in_map fst _ _ H)).
    apply in_map_iff in Hk. destruct Hk as [[k' vs] [Hk Hin]]. cbn in Hk. subst k'.
    exists vs. split; [exact Hin|].
    pose proof (in_assoc_nat_sorted k vs _ (group_sorted items) Hin) as Ha.
    pose proof (group_assoc items k) as G. unfold assoc_list in G. rewrite Ha in G. subst vs.
    apply in_map_iff. exists (k, v). split; [reflexivity|]. apply filter_In. split; [exact H|cbn; apply Nat.eqb_refl].
  - intros [vs [Hin Hv]].
    pose proof (in_assoc_nat_sorted k vs _ (group_sorted items) Hin) as Ha.
    pose proof (group_assoc items k) as G. unfold assoc_list in G. rewrite Ha in G. subst vs.
    apply in_map_iff in Hv. destruct Hv as [[k' v'] [E Hf]]. cbn in E. subst v'.
    apply filter_In in Hf. destruct Hf as [Hf E]. cbn in E. apply Nat.eqb_eq in E. now subst k'.
Qed.

Lemma group_in_assoc (items : list (nat * A)) (k : nat) (vs : list A) :
  In (k, vs) (group items) -> vs = map snd (filter (fun kv => fst kv =? k) items) /\ vs <> [].
Proof.
  intros Hin.
  pose proof (in_assoc_nat_sorted k vs _ (group_sorted items) Hin) as Ha.
  pose proof (group_assoc items k) as G. unfold assoc_list in G. rewrite Ha in G. split; [exact G|].
  pose proof (group_nonempty items) as F. rewrite Forall_forall in F. exact (F _ Hin).
Qed.

End Push.
