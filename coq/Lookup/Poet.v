(** C07 - gear/poet.cc, ported function by function (definitions only, no proofs).

    poet.cc   struct Line {predecessor, entry, end_pos, weight}, Line::{empty,last_word,components,context,word_lengths},
              Poet::CompareWeight, Poet::LeftAssociateCompare, find_top_candidates<7>, struct BeamSearch,
              struct DynamicProgramming, Poet::MakeSentenceWithStrategy<Strategy> (both instantiations),
              Poet::MakeSentence (grammar_ ? BeamSearch : DynamicProgramming)
    grammar.h Grammar::Evaluate (entry_weight + (grammar ? grammar->Query(context, text, is_rear) : kPenalty))
    translator_commons.cc  Sentence::Extend as far as the component list and the word lengths go.

    Representation.
    - A [Line] is a linked list through [predecessor]; [components()] walks it back to (excluding) the first
      line that is [empty()].  The model keeps that walk as the value: a [line] is the list of its components,
      NEWEST FIRST; the empty list is the empty line (weight 0.0 - both [Line::kEmpty] and a value-initialised
      [Line] of [std::map::operator[]] have weight 0.0).  Copying the list instead of keeping a pointer is
      faithful as long as a state is not written after it has been used as a predecessor, i.e. for word graphs
      whose edges go forward (end_pos > start_pos; [std::map] iterates the start positions in ascending order).
      Both translators build such graphs (proved in PoetProofs.v for the model's graphs).  For a self loop or a
      backward edge the C++ code would alias (a line could become its own predecessor); the model does not
      follow that (not reachable from the translators).
    - [states] (std::map<int, State>) is only accessed by key ([find], [operator[]]), never iterated: an
      association list with in-place update.  [WordGraph] = std::map<int, std::map<int, DictEntryList>> is the
      model's [wgraph], iterated in list order (= key order for the graphs the model builds).
    - BeamSearch::State = std::unordered_map<string, Line>.  Its iteration order is unspecified; the model
      iterates in insertion order.  The order can influence the answer only when two lines of one state are
      incomparable under [compare] (equal weights); the theorems do not depend on it, the correspondence
      excludes such cases ([beam_robust]).
    - Weights are exact integers (the double values scaled by 2^96, like everywhere in Lookup/Model.v), so
      [candidate.weight + (entry_weight + penalty)] is exact.  IEEE rounding is NOT modelled: the code's decision
      can differ from the model's only where two compared sums differ by less than the accumulated rounding
      error; [dp_robust]/[beam_robust] compute, for a concrete graph, whether every decision of the run has a
      margin of at least [eps] (or is an exact tie between lines whose weights are computed by the same sequence
      of floating-point operations), and the correspondence judges the exact sentence only on such cases.
      [pen] is the constant Grammar::Evaluate adds for a null grammar (kPenalty = log 1e-8); since the model's
      [d_w] drops the constant -kS of DictEntryIterator::Peek, the correspondence passes kPenalty - kS.
    - [gr] is the grammar plugin's Query (an external function of context, word, is_rear); [None] = no grammar
      component registered (the stock build: librime has no grammar of its own).

    Not modelled: contextual_translation.cc / Poet::ContextualWeighted ([contextual_suggestions], off by default,
    and a no-op without a grammar). *)
From Coq Require Import List Arith ZArith NArith Bool.
From RimeV Require Import Lookup.Defs Lookup.Model.
Import ListNotations.
Local Open Scope nat_scope.

(** * Line *)
Record comp := mkComp { cp_ent : dentry; cp_end : nat; cp_w : Z }.
Definition line := list comp.           (* components, newest first; [] = Line::empty() *)

Definition l_empty (l : line) : bool := match l with [] => true | _ => false end.
Definition l_weight (l : line) : Z := match l with [] => 0%Z | c :: _ => cp_w c end.
Definition l_end (l : line) : nat := match l with [] => 0 | c :: _ => cp_end c end.
(* Line::last_word *)
Definition last_word (l : line) : text := match l with [] => [] | c :: _ => d_text (cp_ent c) end.
(* Line::context: look back 2 words *)
Definition l_context (l : line) : text :=
  match l with
  | [] => []
  | [c] => d_text (cp_ent c)
  | c :: p :: _ => d_text (cp_ent p) ++ d_text (cp_ent c)
  end.

(* Line::word_lengths: over components() oldest first, end_pos - last_end_pos (size_t; no wrap for forward chains) *)
Fixpoint diffs (prev : nat) (ends : list nat) : list nat :=
  match ends with
  | [] => []
  | e :: r => (e - prev) :: diffs e r
  end.
Definition word_lengths (l : line) : list nat := diffs 0 (map cp_end (rev l)).

(* std::lexicographical_compare on size_t sequences *)
Fixpoint lex_lt (a b : list nat) : bool :=
  match a, b with
  | _, [] => false
  | [], _ :: _ => true
  | x :: a', y :: b' => if x <? y then true else if y <? x then false else lex_lt a' b'
  end.

(** * Poet::CompareWeight, Poet::LeftAssociateCompare ("returns true if one is less than other") *)
Definition compare_weight (one other : line) : bool := (l_weight one <? l_weight other)%Z.

Definition left_associate_compare (one other : line) : bool :=
  if (l_weight one <? l_weight other)%Z then true
  else if (l_weight one =? l_weight other)%Z then
    let a := word_lengths one in
    let b := word_lengths other in
    if length b <? length a then true               (* less words is more favorable *)
    else if length a =? length b then lex_lt a b
    else false
  else false.

(** what becomes of the best line: Sentence::Extend for every component, oldest first *)
Definition sentence_of (l : line) : sentence := map (fun c => (cp_ent c, cp_end c)) (rev l).

(** std::map<int, State>::operator[] / assignment through the returned reference *)
Fixpoint put {A} (k : nat) (v : A) (m : list (nat * A)) : list (nat * A) :=
  match m with
  | [] => [(k, v)]
  | (k', v') :: r => if k =? k' then (k, v) :: r else (k', v') :: put k v r
  end.

Section Poet.
Variable gr : option (text -> text -> bool -> Z).    (* grammar_->Query, if a grammar component exists *)
Variable pen : Z.                                     (* kPenalty *)
Variable cmp : line -> line -> bool.                  (* compare_ *)
Variable preceding : text.                            (* preceding_text *)

(* Grammar::Evaluate *)
Definition evaluate (context : text) (d : dentry) (is_rear : bool) : Z :=
  (d_w d + match gr with Some q => q context (d_text d) is_rear | None => pen end)%Z.

(* Line new_line{&candidate, entry.get(), end_pos, weight} *)
Definition new_line (cand : line) (end_pos : nat) (is_rear : bool) (d : dentry) : line :=
  let context := if l_empty cand then preceding else l_context cand in
  mkComp d end_pos (l_weight cand + evaluate context d is_rear)%Z :: cand.

(* if (best.empty() || compare_(best, new_line)) best = new_line; *)
Definition better (best nl : line) : line := if l_empty best || cmp best nl then nl else best.

(** ** MakeSentenceWithStrategy<DynamicProgramming>: State = Line *)
Definition dp_states := list (nat * line).

(* the body of [for (const auto& ev : sv.second)] inside [update(candidate)] *)
Definition dp_edge (start_pos total : nat) (cand : line) (sts : dp_states) (ev : nat * list dentry) : dp_states :=
  let end_pos := fst ev in
  if (start_pos =? 0) && (end_pos =? total) then sts          (* exclude single word from the result *)
  else
    let target := match assoc_nat end_pos sts with Some l => l | None => [] end in      (* states[end_pos] *)
    put end_pos (fold_left (fun best d => better best (new_line cand end_pos (end_pos =? total) d)) (snd ev) target) sts.

(* one iteration of [for (const auto& sv : graph)]; ForEachCandidate = update(state) *)
Definition dp_step (total : nat) (sts : dp_states) (sv : nat * list (nat * list dentry)) : dp_states :=
  match assoc_nat (fst sv) sts with
  | None => sts                                                 (* states.find(start_pos) == states.end() *)
  | Some cand => fold_left (dp_edge (fst sv) total cand) (snd sv) sts
  end.

Definition dp_run (wg : wgraph) (total : nat) : dp_states := fold_left (dp_step total) wg [(0, [])].

Definition dp_sentence (wg : wgraph) (total : nat) : option sentence :=
  match assoc_nat total (dp_run wg total) with
  | None => None
  | Some [] => None                                             (* found->second.empty() *)
  | Some l => Some (sentence_of l)
  end.

(** ** MakeSentenceWithStrategy<BeamSearch>: State = hash_map<string, Line> (best line per last phrase) *)
Definition bstate := list (text * line).

Fixpoint bs_find (k : text) (st : bstate) : option line :=
  match st with
  | [] => None
  | (k', l) :: r => if text_eqb k k' then Some l else bs_find k r
  end.

Fixpoint bs_put (k : text) (v : line) (st : bstate) : bstate :=
  match st with
  | [] => [(k, v)]
  | (k', l) :: r => if text_eqb k k' then (k, v) :: r else (k', l) :: bs_put k v r
  end.

(* std::upper_bound(first, last, value, comp) as libstdc++ bisects; [lt x] = comp(value, x) *)
Fixpoint upper_bound (fuel : nat) (lt : line -> bool) (l : list line) (first len : nat) : nat :=
  match fuel with
  | 0 => first
  | S f =>
      if len =? 0 then first
      else
        let half := len / 2 in
        let middle := first + half in
        if lt (nth middle l []) then upper_bound f lt l first half
        else upper_bound f lt l (S middle) (len - half - 1)
  end.

Definition k_max_line_candidates : nat := 7.

(* one iteration of find_top_candidates<N>: comp(a, b) = compare(b, a) on the pointees, so comp(value, x) = compare(x, value) *)
Definition top_insert (top : list line) (c : line) : list line :=
  let pos := upper_bound (S (length top)) (fun x => cmp x c) top 0 (length top) in
  if k_max_line_candidates <=? pos then top
  else
    let t := firstn pos top ++ c :: skipn pos top in
    if k_max_line_candidates <? length t then removelast t else t.

Definition find_top (st : bstate) : list line := fold_left top_insert (map snd st) [].

(* the per-entry body for BeamSearch: Line& best = state[new_line.last_word()] *)
Definition beam_entry (cand : line) (end_pos : nat) (is_rear : bool) (st : bstate) (d : dentry) : bstate :=
  let nl := new_line cand end_pos is_rear d in
  let key := last_word nl in
  let best := match bs_find key st with Some l => l | None => [] end in
  bs_put key (better best nl) st.

Definition beam_states := list (nat * bstate).

Definition beam_edge (start_pos total : nat) (cand : line) (sts : beam_states) (ev : nat * list dentry) : beam_states :=
  let end_pos := fst ev in
  if (start_pos =? 0) && (end_pos =? total) then sts
  else
    let target := match assoc_nat end_pos sts with Some st => st | None => [] end in
    put end_pos (fold_left (beam_entry cand end_pos (end_pos =? total)) (snd ev) target) sts.

(* ForEachCandidate: update(candidate) for each of the top candidates, best first *)
Definition beam_step (total : nat) (sts : beam_states) (sv : nat * list (nat * list dentry)) : beam_states :=
  match assoc_nat (fst sv) sts with
  | None => sts
  | Some src => fold_left (fun sts' cand => fold_left (beam_edge (fst sv) total cand) (snd sv) sts') (find_top src) sts
  end.

(* Initiate: initial_state.emplace("", Line::kEmpty) *)
Definition beam_run (wg : wgraph) (total : nat) : beam_states := fold_left (beam_step total) wg [(0, [([], [])])].

(* BestLineInState *)
Definition best_in_state (st : bstate) : line :=
  match fold_left (fun (best : option line) (kl : text * line) =>
                     match best with
                     | None => Some (snd kl)
                     | Some b => if cmp b (snd kl) then Some (snd kl) else best
                     end) st None with
  | Some b => b
  | None => []
  end.

Definition beam_sentence (wg : wgraph) (total : nat) : option sentence :=
  match assoc_nat total (beam_run wg total) with
  | None => None
  | Some [] => None                                             (* found->second.empty(): the map has no element *)
  | Some st => Some (sentence_of (best_in_state st))
  end.

(** ** Poet::MakeSentence *)
Definition make_sentence (wg : wgraph) (total : nat) : option sentence :=
  match gr with
  | Some _ => beam_sentence wg total
  | None => dp_sentence wg total
  end.

(** ** margins (used by the correspondence only; no theorem depends on them)

    The code computes the same sums in IEEE double.  Two runs (exact / rounded) take the same decisions as long
    as every comparison the rounded run makes is between sums whose exact values differ by at least [eps] (far
    above the accumulated rounding error), or between lines whose weights are produced by the same sequence of
    operations on the same operands (then the doubles are bit-identical and the comparison is an exact tie on
    both sides; [exact = true] says all operands are exactly representable with exact sums, so that every exact
    tie is a tie of the doubles).  For a forward graph the final state of a start position is the one its
    successors were computed from, so the check can be made on the final states: every line that arrives at an
    end position is compared with the line that was kept there. *)
Definition increments (l : line) : list Z :=
  (fix go (l : line) : list Z :=
     match l with
     | [] => []
     | c :: r => (cp_w c - l_weight r)%Z :: go r
     end) l.

Fixpoint zlist_eqb (a b : list Z) : bool :=
  match a, b with
  | [], [] => true
  | x :: a', y :: b' => (x =? y)%Z && zlist_eqb a' b'
  | _, _ => false
  end.

Definition safe_pair (eps : Z) (exact : bool) (kept nl : line) : bool :=
  let d := Z.abs (l_weight kept - l_weight nl) in
  (eps <=? d)%Z || ((d =? 0)%Z && (exact || zlist_eqb (increments kept) (increments nl))).

Definition dp_robust (eps : Z) (exact : bool) (wg : wgraph) (total : nat) : bool :=
  let sts := dp_run wg total in
  forallb (fun sv : nat * list (nat * list dentry) =>
             match assoc_nat (fst sv) sts with
             | None => true
             | Some cand =>
                 forallb (fun ev : nat * list dentry =>
                            if (fst sv =? 0) && (fst ev =? total) then true
                            else match assoc_nat (fst ev) sts with
                                 | None => false
                                 | Some kept => forallb (fun d => safe_pair eps exact kept (new_line cand (fst ev) (fst ev =? total) d))
                                                        (snd ev)
                                 end) (snd sv)
             end) wg.

Fixpoint all_pairs {A} (p : A -> A -> bool) (l : list A) : bool :=
  match l with
  | [] => true
  | x :: r => forallb (p x) r && all_pairs p r
  end.

Definition beam_robust (eps : Z) (exact : bool) (wg : wgraph) (total : nat) : bool :=
  let sts := beam_run wg total in
  (* inside one state no two lines within eps: the selection and order of the top candidates and the final best
     line do not depend on the iteration order of the hash map *)
  forallb (fun ps : nat * bstate =>
             all_pairs (fun a b : text * line => (eps <=? Z.abs (l_weight (snd a) - l_weight (snd b)))%Z) (snd ps)) sts &&
  forallb (fun sv : nat * list (nat * list dentry) =>
             match assoc_nat (fst sv) sts with
             | None => true
             | Some src =>
                 forallb (fun cand =>
                   forallb (fun ev : nat * list dentry =>
                              if (fst sv =? 0) && (fst ev =? total) then true
                              else match assoc_nat (fst ev) sts with
                                   | None => false
                                   | Some st =>
                                       forallb (fun d =>
                                                  let nl := new_line cand (fst ev) (fst ev =? total) d in
                                                  match bs_find (last_word nl) st with
                                                  | None => false
                                                  | Some kept => safe_pair eps exact kept nl
                                                  end) (snd ev)
                                   end) (snd sv)) (find_top src)
             end) wg.

Definition robust (eps : Z) (exact : bool) (wg : wgraph) (total : nat) : bool :=
  match gr with
  | Some _ => beam_robust eps exact wg total
  | None => dp_robust eps exact wg total
  end.

End Poet.

(** the two instances in the tree: ScriptTranslator (CompareWeight, the default argument of Poet's constructor)
    and TableTranslator (LeftAssociateCompare); no grammar, no preceding text dependence without a grammar *)
Definition poet_script (pen : Z) : wgraph -> nat -> option sentence := make_sentence None pen compare_weight [].
Definition poet_table (pen : Z) : wgraph -> nat -> option sentence := make_sentence None pen left_associate_compare [].

(** exact weight of a chain of components through the word graph (used to judge near ties as sets): the sum of
    [d_w + pen] over the components, each looked up by (text, code) among the entries of its edge, taking the
    best weight if several match; None if some component is not an entry of its edge *)
Fixpoint best_match (d : dentry) (l : list dentry) : option Z :=
  match l with
  | [] => None
  | x :: r =>
      let rest := best_match d r in
      if text_eqb (d_text d) (d_text x) && code_eqb (d_code d) (d_code x)
      then match rest with Some w => Some (Z.max w (d_w x)) | None => Some (d_w x) end
      else rest
  end.

Fixpoint chain_weight (pen : Z) (wg : wgraph) (pos : nat) (s : sentence) : option Z :=
  match s with
  | [] => Some 0%Z
  | (d, e) :: r =>
      match best_match d (assoc_list e (assoc_list pos wg)), chain_weight pen wg e r with
      | Some w, Some w' => Some (w + pen + w')%Z
      | _, _ => None
      end
  end.
