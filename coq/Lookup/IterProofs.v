(** C07 - DictEntryIterator: the comparator is a total preorder on head elements, Sort() moves a minimal chunk to
    the head, draining the iterator yields every entry exactly once, in "best head first" order. *)
From Coq Require Import List Arith ZArith NArith Bool Lia Sorted Permutation.
From RimeV Require Import Lookup.Defs Lookup.Model Lookup.Spec.
Import ListNotations.

(** * the sort key the comparator implements *)
Definition key := (nat * nat * Z)%type.

Definition klt (a b : key) : Prop :=
  let '(a1, a2, a3) := a in let '(b1, b2, b3) := b in
  a1 < b1 \/ (a1 = b1 /\ (a2 < b2 \/ (a2 = b2 /\ (a3 < b3)%Z))).
Definition kle (a b : key) : Prop := ~ klt b a.

Lemma kle_refl a : kle a a.
Proof. destruct a as [[a1 a2] a3]. unfold kle, klt. lia. Qed.
Lemma kle_trans a b c : kle a b -> kle b c -> kle a c.
Proof. destruct a as [[a1 a2] a3], b as [[b1 b2] b3], c as [[c1 c2] c3]. unfold kle, klt. lia. Qed.
Lemma klt_kle a b : klt a b -> kle a b.
Proof. destruct a as [[a1 a2] a3], b as [[b1 b2] b3]. unfold kle, klt. lia. Qed.
Lemma kle_total a b : kle a b \/ kle b a.
Proof. destruct a as [[a1 a2] a3], b as [[b1 b2] b3]. unfold kle, klt. lia. Qed.

(** exact matches before predictive ones, shorter remaining code first, then credibility + weight descending *)
Definition ekey (c : chunk) (e : tentry) : key :=
  (if is_exact c then 0 else 1, c_remlen c, (- (c_cred c + te_w e))%Z).

Lemma chunk_lt_spec a b ea la eb lb :
  c_ents a = ea :: la -> c_ents b = eb :: lb -> (chunk_lt a b = true <-> klt (ekey a ea) (ekey b eb)).
Proof.
  intros Ea Eb. unfold chunk_lt, ekey, klt. rewrite Ea, Eb.
  destruct (is_exact a), (is_exact b); cbn [Bool.eqb negb].
  - destruct (c_remlen a =? c_remlen b) eqn:E; cbn [negb].
    + apply Nat.eqb_eq in E. rewrite Z.ltb_lt. lia.
    + apply Nat.eqb_neq in E. rewrite Nat.ltb_lt. lia.
  - split; [lia|reflexivity].
  - split; [discriminate|lia].
  - destruct (c_remlen a =? c_remlen b) eqn:E; cbn [negb].
    + apply Nat.eqb_eq in E. rewrite Z.ltb_lt. lia.
    + apply Nat.eqb_neq in E. rewrite Nat.ltb_lt. lia.
Qed.

(** the comparator on possibly exhausted chunks: an exhausted chunk is never less, and everything else is less than it *)
Definition ck (c : chunk) : option key := match c_ents c with [] => None | e :: _ => Some (ekey c e) end.
Definition oklt (a b : option key) : Prop :=
  match a, b with
  | None, _ => False
  | Some _, None => True
  | Some x, Some y => klt x y
  end.
Definition okle (a b : option key) : Prop := ~ oklt b a.

Lemma chunk_lt_oklt a b : chunk_lt a b = true <-> oklt (ck a) (ck b).
Proof.
  unfold ck. destruct (c_ents a) as [|ea la] eqn:Ea.
  - unfold chunk_lt. rewrite Ea. cbn. split; [discriminate|tauto].
  - destruct (c_ents b) as [|eb lb] eqn:Eb.
    + unfold chunk_lt. rewrite Ea, Eb. cbn. tauto.
    + cbn. eapply chunk_lt_spec; eassumption.
Qed.

Lemma okle_trans a b c : okle a b -> okle b c -> okle a c.
Proof.
  unfold okle, oklt. destruct a as [x|], b as [y|], c as [z|]; try tauto.
  intros H1 H2 H3. exact (kle_trans _ _ _ H1 H2 H3).
Qed.
Lemma oklt_okle a b : oklt a b -> okle a b.
Proof.
  unfold okle, oklt. destruct a as [x|], b as [y|]; try tauto. apply klt_kle.
Qed.

Definition cle (a b : chunk) : Prop := chunk_lt b a = false.     (* a is no worse than b *)

Lemma cle_okle a b : cle a b <-> okle (ck a) (ck b).
Proof.
  unfold cle, okle. rewrite <- chunk_lt_oklt. destruct (chunk_lt b a); split; congruence.
Qed.
Lemma cle_trans a b c : cle a b -> cle b c -> cle a c.
Proof. rewrite !cle_okle. apply okle_trans. Qed.
Lemma lt_cle a b : chunk_lt a b = true -> cle a b.
Proof. rewrite cle_okle, chunk_lt_oklt. apply oklt_okle. Qed.
Lemma cle_refl a : cle a a.
Proof.
  apply cle_okle. unfold okle, oklt. destruct (ck a) as [x|]; [apply kle_refl|tauto].
Qed.

(** * Sort(): the swap loop *)
Lemma select_swap_perm cur rest :
  Permutation (cur :: rest) (fst (select_swap cur rest) :: snd (select_swap cur rest)).
Proof.
  revert cur. induction rest as [|x r IH]; intros cur; cbn [select_swap]; [reflexivity|].
  destruct (chunk_lt x cur); cbn [fst snd].
  - eapply perm_trans; [apply perm_skip; apply (IH x)|apply perm_swap].
  - eapply perm_trans; [apply perm_swap|]. eapply perm_trans; [apply perm_skip; apply (IH cur)|apply perm_swap].
Qed.

Lemma select_swap_min cur rest :
  cle (fst (select_swap cur rest)) cur /\ Forall (cle (fst (select_swap cur rest))) rest.
Proof.
  revert cur. induction rest as [|x r IH]; intros cur; cbn [select_swap].
  - split; [apply cle_refl|constructor].
  - destruct (chunk_lt x cur) eqn:E; cbn [fst snd].
    + destruct (IH x) as [H1 H2]. pose proof (lt_cle _ _ E) as Hx.
      split; [eapply cle_trans; eassumption|]. constructor; assumption.
    + destruct (IH cur) as [H1 H2]. split; [exact H1|]. constructor; [|exact H2].
      eapply cle_trans; [exact H1|exact E].
Qed.

Definition head_min (it : list chunk) : Prop :=
  match it with [] => True | c :: r => Forall (cle c) r end.

Lemma sort_head_perm cs : Permutation cs (sort_head cs).
Proof. destruct cs as [|c r]; [reflexivity|]. apply select_swap_perm. Qed.

Lemma sort_head_min cs : head_min (sort_head cs).
Proof.
  destruct cs as [|c r]; [exact I|]. cbn [sort_head head_min].
  destruct (select_swap_min c r) as [H1 H2].
  pose proof (select_swap_perm c r) as P.
  rewrite Forall_forall. intros x Hx.
  assert (Hin : In x (c :: r)).
  { eapply Permutation_in; [symmetry; exact P|]. now right. }
  destruct Hin as [<-|Hin]; [exact H1|]. rewrite Forall_forall in H2. now apply H2.
Qed.

(** * the entries an iterator holds *)
Definition entries_of (c : chunk) : list dentry := map (mk_dentry c) (c_ents c).
Definition all_entries (it : list chunk) : list dentry := flat_map entries_of it.

Lemma all_entries_perm it it' : Permutation it it' -> Permutation (all_entries it) (all_entries it').
Proof.
  induction 1 as [|x l l' P IH|x y l|l l' l'' P1 IH1 P2 IH2]; cbn.
  - reflexivity.
  - now apply Permutation_app_head.
  - rewrite !app_assoc. apply Permutation_app_tail. apply Permutation_app_comm.
  - etransitivity; eassumption.
Qed.

Lemma all_entries_length it : length (all_entries it) = total it.
Proof.
  induction it as [|c r IH]; [reflexivity|]. unfold all_entries in *. cbn [flat_map total fold_right].
  rewrite app_length, IH. unfold entries_of. now rewrite map_length.
Qed.

Lemma mk_dentry_set_ents c l e : mk_dentry (set_ents c l) e = mk_dentry c e.
Proof. reflexivity. Qed.

Definition nonempty (c : chunk) : Prop := c_ents c <> [].

Lemma iter_next_perm c r e tl :
  c_ents c = e :: tl -> Permutation (all_entries (iter_next (c :: r))) (map (mk_dentry c) tl ++ all_entries r).
Proof.
  intros E. unfold iter_next. rewrite E. destruct tl as [|e2 tl].
  - cbn [map app]. apply all_entries_perm. symmetry. apply sort_head_perm.
  - etransitivity; [apply all_entries_perm; symmetry; apply sort_head_perm|]. reflexivity.
Qed.

Lemma iter_next_nonempty it : Forall nonempty it -> Forall nonempty (iter_next it).
Proof.
  intros F. destruct it as [|c r]; [constructor|]. inversion F as [|? ? Hc Hr]; subst.
  unfold iter_next. destruct (c_ents c) as [|e [|e2 tl]] eqn:E.
  - eapply Permutation_Forall; [apply sort_head_perm|exact Hr].
  - eapply Permutation_Forall; [apply sort_head_perm|exact Hr].
  - eapply Permutation_Forall; [apply sort_head_perm|]. constructor; [cbn; discriminate|exact Hr].
Qed.

Lemma iter_peek_some c r e tl : c_ents c = e :: tl -> iter_peek (c :: r) = Some (mk_dentry c e).
Proof. intros E. unfold iter_peek. now rewrite E. Qed.

(** * draining yields every entry exactly once *)
Lemma drain_perm n it :
  Forall nonempty it -> total it = n -> Permutation (drain n it) (all_entries it).
Proof.
  revert it. induction n as [|n IH]; intros it F T.
  - rewrite <- all_entries_length in T. destruct (all_entries it); [reflexivity|discriminate].
  - destruct it as [|c r]; [discriminate|]. inversion F as [|? ? Hc Hr]; subst.
    destruct (c_ents c) as [|e tl] eqn:E; [contradiction|].
    cbn [drain]. rewrite (iter_peek_some c r e tl E).
    cbn [all_entries flat_map]. unfold entries_of at 1. rewrite E. cbn [map app].
    apply perm_skip. etransitivity; [apply IH|apply (iter_next_perm c r e tl E)].
    + now apply iter_next_nonempty.
    + rewrite <- all_entries_length. rewrite (Permutation_length (iter_next_perm c r e tl E)).
      rewrite <- all_entries_length in T. cbn [all_entries flat_map] in T. unfold entries_of at 1 in T. rewrite E in T.
      cbn in T. rewrite app_length in *. rewrite map_length in *. unfold all_entries. lia.
Qed.

Theorem drain_all_perm it : Forall nonempty it -> Permutation (drain_all it) (all_entries it).
Proof. intros F. now apply drain_perm. Qed.

Lemma drain_incl n it : Forall nonempty it -> incl (drain n it) (all_entries it).
Proof.
  revert it. induction n as [|n IH]; intros it F x Hx; [destruct Hx|].
  destruct it as [|c r]; [destruct Hx|]. inversion F as [|? ? Hc Hr]; subst.
  destruct (c_ents c) as [|e tl] eqn:E; [contradiction|].
  cbn [drain] in Hx. rewrite (iter_peek_some c r e tl E) in Hx.
  cbn [all_entries flat_map]. unfold entries_of at 1. rewrite E. cbn [map app].
  destruct Hx as [<-|Hx]; [now left|]. right.
  apply IH in Hx; [|now apply iter_next_nonempty].
  eapply Permutation_in; [apply (iter_next_perm c r e tl E)|exact Hx].
Qed.

(** * best head first *)
Definition chunk_wf (c : chunk) : Prop := 1 <= c_match c <= length (c_code c).
Definition chunk_ok (c : chunk) : Prop := nonempty c /\ weights_sorted (c_ents c) /\ chunk_wf c.

Definition dkey (d : dentry) : key := (if d_match d =? 0 then 0 else 1, d_remlen d, (- d_w d)%Z).
Definition dle (a b : dentry) : Prop := kle (dkey a) (dkey b).

Lemma dkey_mk c e : chunk_wf c -> dkey (mk_dentry c e) = ekey c e.
Proof.
  intros [H1 H2]. unfold dkey, ekey, mk_dentry, is_exact. cbn [d_match d_remlen d_w].
  destruct (c_match c <? length (c_code c)) eqn:E.
  - apply Nat.ltb_lt in E. destruct (c_match c =? 0) eqn:E0; [apply Nat.eqb_eq in E0; lia|].
    destruct (c_match c =? length (c_code c)) eqn:E1; [apply Nat.eqb_eq in E1; lia|].
    f_equal. lia.
  - apply Nat.ltb_ge in E. cbn [Nat.eqb].
    destruct (c_match c =? length (c_code c)) eqn:E1; [|apply Nat.eqb_neq in E1; lia].
    f_equal. lia.
Qed.

Lemma sorted_head_max e tl x : weights_sorted (e :: tl) -> In x (e :: tl) -> (te_w x <= te_w e)%Z.
Proof.
  intros S [<-|H]; [lia|]. inversion S as [|? ? _ F]; subst. rewrite Forall_forall in F. now apply F.
Qed.

Lemma ekey_mono c e x : (te_w x <= te_w e)%Z -> kle (ekey c e) (ekey c x).
Proof. unfold kle, klt, ekey. lia. Qed.

Lemma head_is_min c r e tl :
  Forall chunk_ok (c :: r) -> head_min (c :: r) -> c_ents c = e :: tl ->
  Forall (dle (mk_dentry c e)) (all_entries (c :: r)).
Proof.
  intros F M E. inversion F as [|? ? [Nc [Sc Wc]] Fr]; subst. cbn [head_min] in M.
  rewrite Forall_forall. intros x Hx. cbn [all_entries flat_map] in Hx. apply in_app_or in Hx.
  unfold dle. rewrite (dkey_mk c e Wc).
  destruct Hx as [Hx|Hx].
  - unfold entries_of in Hx. apply in_map_iff in Hx. destruct Hx as [e' [<- He']].
    rewrite (dkey_mk c e' Wc). apply ekey_mono. rewrite E in *. eapply sorted_head_max; eassumption.
  - apply in_flat_map in Hx. destruct Hx as [c' [Hc' Hx]].
    rewrite Forall_forall in Fr, M. destruct (Fr c' Hc') as [Nc' [Sc' Wc']].
    unfold entries_of in Hx. apply in_map_iff in Hx. destruct Hx as [e' [<- He']].
    rewrite (dkey_mk c' e' Wc').
    destruct (c_ents c') as [|e1 tl1] eqn:E1; [contradiction|].
    pose proof (M c' Hc') as Hle. unfold cle in Hle.
    assert (K : kle (ekey c e) (ekey c' e1)).
    { unfold kle. intros K. apply (chunk_lt_spec c' c e1 tl1 e tl E1 E) in K. congruence. }
    eapply kle_trans; [exact K|]. apply ekey_mono. eapply sorted_head_max; eassumption.
Qed.

Lemma weights_sorted_tl e tl : weights_sorted (e :: tl) -> weights_sorted tl.
Proof. intros S. now inversion S. Qed.

Lemma iter_next_ok it : Forall chunk_ok it -> Forall chunk_ok (iter_next it).
Proof.
  intros F. destruct it as [|c r]; [constructor|]. inversion F as [|? ? [Nc [Sc Wc]] Hr]; subst.
  unfold iter_next. destruct (c_ents c) as [|e [|e2 tl]] eqn:E.
  - eapply Permutation_Forall; [apply sort_head_perm|exact Hr].
  - eapply Permutation_Forall; [apply sort_head_perm|exact Hr].
  - eapply Permutation_Forall; [apply sort_head_perm|]. constructor; [|exact Hr].
    split; [cbn; discriminate|]. split; [|exact Wc]. cbn [set_ents c_ents]. now apply weights_sorted_tl in Sc.
Qed.

Lemma iter_next_head_min it : head_min (iter_next it).
Proof.
  destruct it as [|c r]; [exact I|]. unfold iter_next.
  destruct (c_ents c) as [|e [|e2 tl]]; apply sort_head_min.
Qed.

Lemma chunk_ok_nonempty it : Forall chunk_ok it -> Forall nonempty it.
Proof. apply Forall_impl. now intros c [H _]. Qed.

Theorem drain_sorted n it :
  Forall chunk_ok it -> head_min it -> StronglySorted dle (drain n it).
Proof.
  revert it. induction n as [|n IH]; intros it F M; [constructor|].
  destruct it as [|c r]; [constructor|].
  pose proof F as F0. inversion F as [|? ? [Nc [Sc Wc]] Hr]; subst.
  destruct (c_ents c) as [|e tl] eqn:E; [contradiction|].
  cbn [drain]. rewrite (iter_peek_some c r e tl E). constructor.
  - apply IH; [now apply iter_next_ok|apply iter_next_head_min].
  - pose proof (head_is_min c r e tl F0 M E) as H. rewrite Forall_forall in H |- *.
    intros x Hx. apply H.
    apply (drain_incl n (iter_next (c :: r))) in Hx; [|apply chunk_ok_nonempty; now apply iter_next_ok].
    eapply Permutation_in in Hx; [|apply (iter_next_perm c r e tl E)].
    cbn [all_entries flat_map]. unfold entries_of at 1. rewrite E. cbn [map app]. now right.
Qed.

Theorem drain_all_sorted it : Forall chunk_ok it -> StronglySorted dle (drain_all (sort_head it)).
Proof.
  intros F. apply drain_sorted; [|apply sort_head_min].
  eapply Permutation_Forall; [apply sort_head_perm|exact F].
Qed.

(** what [dle] says for two entries of the same class: the one emitted first has the larger weight + credibility *)
Lemma dle_same_class a b :
  dle a b -> (d_match a =? 0) = (d_match b =? 0) -> d_remlen a = d_remlen b -> (d_w b <= d_w a)%Z.
Proof.
  unfold dle, kle, klt, dkey. intros H E1 E2. rewrite E1, E2 in H. lia.
Qed.

(** exact matches are emitted before predictive ones *)
Lemma dle_exact_first a b : dle a b -> d_match b = 0 -> d_match a = 0.
Proof.
  unfold dle, kle, klt, dkey. intros H E. rewrite E in H. cbn [Nat.eqb] in H.
  destruct (d_match a =? 0) eqn:Ea; [now apply Nat.eqb_eq in Ea|]. lia.
Qed.
