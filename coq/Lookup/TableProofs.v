(** C07 - TableTranslation / LazyTableTranslation: exact matches in weight order, completions only from keys that
    extend the input and only when completion is enabled. *)
From Coq Require Import List Arith ZArith NArith Bool Lia Sorted Permutation.
From RimeV Require Import Lookup.Defs Lookup.Model Lookup.Spec Lookup.MapProofs Lookup.IterProofs Lookup.ScriptProofs.
Import ListNotations.

(** * Dictionary::LookupWords *)
(** a chunk that stems from the prism key [key] spelling the syllable [sid] with a normal spelling *)
Definition word_chunk (pr : prism) (t : table) (key : text) (c : chunk) : Prop :=
  exists sps sid, In (key, sps) pr /\ In (sid, 0) sps /\ c_code c = [sid] /\ c_match c = 1 /\ c_cred c = 0%Z /\
                  c_ents c <> [] /\ incl (c_ents c) (node_ents t [sid]).

Lemma words_chunks_spec syls t code_length mlen sps c :
  In c (words_chunks syls t code_length mlen sps) <->
  exists sid, In (sid, 0) sps /\ node_ents t [sid] <> [] /\
    c = mkChunk [sid] (node_ents t [sid])
          (length (if code_length <? mlen
                   then (if code_length <? length (syl_str syls sid) then skipn code_length (syl_str syls sid) else [])
                   else [])) 1 0%Z.
Proof.
  unfold words_chunks. rewrite in_flat_map. split.
  - intros [[sid ty] [Hin H]]. cbn [fst snd] in H. destruct (0 <? ty) eqn:E; [destruct H|].
    apply Nat.ltb_ge in E. assert (ty = 0) by lia. subst ty.
    destruct (node_ents t [sid]) as [|e l] eqn:EN; [destruct H|]. destruct H as [<-|[]].
    exists sid. split; [exact Hin|]. rewrite EN. split; [discriminate|reflexivity].
  - intros [sid [Hin [NE ->]]]. exists (sid, 0). split; [exact Hin|]. cbn [fst snd Nat.ltb Nat.leb].
    destruct (node_ents t [sid]) as [|e l] eqn:EN; [contradiction|]. now left.
Qed.

Lemma exact_key_in pr key sps : exact_key pr key = Some sps -> In (key, sps) pr.
Proof.
  induction pr as [|[k v] pr IH]; cbn [exact_key fst snd]; [discriminate|].
  destruct (text_eqb k key) eqn:E.
  - apply text_eqb_eq in E. subst k. intros H. injection H as ->. now left.
  - intros H. right. now apply IH.
Qed.

(** exact lookup: every chunk stems from the key that EQUALS the input and has no remaining code *)
Lemma lookup_words_exact pr syls t inp c :
  In c (snd (lookup_words pr syls t inp false 0)) -> word_chunk pr t inp c /\ c_remlen c = 0.
Proof.
  unfold lookup_words. destruct (exact_key pr inp) as [sps|] eqn:E; cbn [snd]; [|intros []].
  intros H. apply words_chunks_spec in H. destruct H as [sid [Hin [NE ->]]]. split.
  - exists sps, sid. cbn. repeat split; auto using exact_key_in, incl_refl.
  - cbn [c_remlen]. replace (length inp <? 0) with false; [reflexivity|]. symmetry. apply Nat.ltb_ge. lia.
Qed.

Lemma is_prefix_spec p s : is_prefix p s = true <-> exists r, s = p ++ r.
Proof.
  revert s. induction p as [|x p IH]; intros s; cbn.
  - split; [intros _; now exists s|reflexivity].
  - destruct s as [|y s]; [split; [discriminate|intros [r H]; discriminate]|].
    rewrite andb_true_iff, N.eqb_eq, IH. split.
    + intros [-> [r ->]]. now exists r.
    + intros [r H]. injection H as -> ->. split; [reflexivity|now exists r].
Qed.

(** predictive lookup: every chunk stems from a key that EXTENDS the input *)
Lemma lookup_words_predictive pr syls t inp limit c :
  In c (snd (lookup_words pr syls t inp true limit)) ->
  exists key, is_prefix inp key = true /\ word_chunk pr t key c.
Proof.
  unfold lookup_words, expand_search. cbn [snd]. rewrite in_flat_map. intros [[key sps] [Hk H]].
  assert (Hk' : In (key, sps) (filter (fun ks : text * list (syll * nat) => is_prefix inp (fst ks)) pr)).
  { destruct (limit =? 0); [exact Hk|]. eapply in_firstn. exact Hk. }
  apply filter_In in Hk'. destruct Hk' as [Hpr Hpre]. cbn [fst snd] in *.
  apply words_chunks_spec in H. destruct H as [sid [Hin [NE ->]]].
  exists key. split; [exact Hpre|]. exists sps, sid. cbn. repeat split; auto using incl_refl.
Qed.

(** * the plain TableTranslation (completion disabled) *)
Definition plain_chunks pr syls t code := snd (lookup_words pr syls t code false 0).

Lemma plain_chunks_ok pr syls t code :
  table_sorted t -> Forall chunk_ok (plain_chunks pr syls t code).
Proof.
  intros TS. rewrite Forall_forall. intros c Hc. unfold plain_chunks, lookup_words in Hc.
  destruct (exact_key pr code) as [sps|]; cbn [snd] in Hc; [|destruct Hc].
  apply words_chunks_spec in Hc. destruct Hc as [sid [_ [NE ->]]].
  split; [exact NE|]. split; [apply TS|]. unfold chunk_wf. cbn. lia.
Qed.

Lemma plain_class pr syls t code d :
  In d (all_entries (plain_chunks pr syls t code)) -> d_match d = 0 /\ d_remlen d = 0.
Proof.
  unfold all_entries. rewrite in_flat_map. intros [c [Hc Hd]]. unfold entries_of in Hd. apply in_map_iff in Hd.
  destruct Hd as [te [<- _]]. destruct (lookup_words_exact pr syls t code c Hc) as [[sps [sid [_ [_ [E1 [E2 _]]]]]] R].
  unfold mk_dentry. cbn [d_match d_remlen]. rewrite E1, E2, R. cbn. auto.
Qed.

Lemma sorted_dle_weights l :
  StronglySorted dle l -> Forall (fun d => d_match d = 0 /\ d_remlen d = 0) l ->
  StronglySorted (fun a b => (d_w b <= d_w a)%Z) l.
Proof.
  induction l as [|a l IH]; intros S C; [constructor|].
  inversion S as [|? ? S' F]; subst. inversion C as [|? ? [Ca1 Ca2] C']; subst.
  constructor; [now apply IH|]. rewrite Forall_forall in *. intros b Hb. destruct (C' b Hb) as [Cb1 Cb2].
  apply dle_same_class; [now apply F|now rewrite Ca1, Cb1|now rewrite Ca2, Cb2].
Qed.

(** after the repair: entries whose code equals the input, all of them, in non-increasing weight order *)
Theorem table_exact_weight_order pr syls t code :
  table_sorted t ->
  StronglySorted (fun a b => (d_w b <= d_w a)%Z) (table_entries true false pr syls t code) /\
  Permutation (table_entries true false pr syls t code) (all_entries (plain_chunks pr syls t code)).
Proof.
  intros TS. unfold table_entries, maybe_sort. fold (plain_chunks pr syls t code).
  pose proof (plain_chunks_ok pr syls t code TS) as OK.
  assert (P : Permutation (drain_all (sort_head (plain_chunks pr syls t code))) (all_entries (plain_chunks pr syls t code))).
  { etransitivity; [apply drain_all_perm|apply all_entries_perm; symmetry; apply sort_head_perm].
    eapply Permutation_Forall; [apply sort_head_perm|]. now apply chunk_ok_nonempty. }
  split; [|exact P].
  pose proof (drain_all_sorted _ OK) as S.
  assert (C : Forall (fun d => d_match d = 0 /\ d_remlen d = 0) (drain_all (sort_head (plain_chunks pr syls t code)))).
  { rewrite Forall_forall. intros d Hd. eapply plain_class. eapply Permutation_in; [exact P|exact Hd]. }
  now apply sorted_dle_weights.
Qed.

(** with completion disabled nothing but entries of the key that equals the input is shown *)
Theorem table_no_completion_when_disabled presort pr syls t code d :
  In d (table_entries presort false pr syls t code) ->
  d_remlen d = 0 /\ exists sps sid, In (code, sps) pr /\ In (sid, 0) sps /\ d_code d = [sid] /\
                               In (mkTE (d_text d) (d_w d)) (node_ents t [sid]).
Proof.
  unfold table_entries. fold (plain_chunks pr syls t code). intros Hd.
  assert (NE : Forall nonempty (plain_chunks pr syls t code)).
  { rewrite Forall_forall. intros c Hc. destruct (lookup_words_exact pr syls t code c Hc) as [[? [? [_ [_ [_ [_ [_ [H _]]]]]]]] _]. exact H. }
  assert (Hd' : In d (all_entries (plain_chunks pr syls t code))).
  { destruct presort; cbn [maybe_sort] in Hd.
    - eapply Permutation_in; [apply all_entries_perm; symmetry; apply sort_head_perm|].
      eapply Permutation_in; [apply drain_all_perm|exact Hd]. eapply Permutation_Forall; [apply sort_head_perm|exact NE].
    - eapply Permutation_in; [apply drain_all_perm; exact NE|exact Hd]. }
  unfold all_entries in Hd'. apply in_flat_map in Hd'. destruct Hd' as [c [Hc Hd']].
  unfold entries_of in Hd'. apply in_map_iff in Hd'. destruct Hd' as [te [<- Hte]].
  destruct (lookup_words_exact pr syls t code c Hc) as [[sps [sid [H1 [H2 [H3 [H4 [H5 [H6 H7]]]]]]]] R].
  unfold mk_dentry. cbn [d_remlen d_code d_text d_w]. split; [exact R|].
  exists sps, sid. repeat split; auto. rewrite H5, Z.add_0_r. replace (mkTE (te_text te) (te_w te)) with te by now destruct te.
  now apply H7.
Qed.

(** * the lazy translation (completion enabled) *)
Definition from_expansion (pr : prism) (t : table) (inp : text) (c : chunk) : Prop :=
  exists key, is_prefix inp key = true /\ word_chunk pr t key c.

Lemma word_chunk_set_ents pr t key c l :
  word_chunk pr t key c -> l <> [] -> incl l (c_ents c) -> word_chunk pr t key (set_ents c l).
Proof.
  intros [sps [sid [H1 [H2 [H3 [H4 [H5 [H6 H7]]]]]]]] NE I. exists sps, sid. cbn. repeat split; auto.
  eapply incl_tran; eassumption.
Qed.

Lemma skip_from pr t inp it n :
  Forall (from_expansion pr t inp) it -> Forall (from_expansion pr t inp) (skip it n).
Proof.
  revert n. induction it as [|c r IH]; intros n F; [destruct n; constructor|].
  inversion F as [|? ? Hc Hr]; subst. destruct n as [|n]; [exact F|]. cbn [skip].
  destruct (S n <? length (c_ents c)) eqn:E; [|now apply IH].
  apply Nat.ltb_lt in E. constructor; [|exact Hr]. destruct Hc as [key [Hp Hw]]. exists key. split; [exact Hp|].
  apply word_chunk_set_ents; [exact Hw| |].
  - intros E0. apply (f_equal (@length _)) in E0. rewrite skipn_length in E0. cbn in E0. lia.
  - intros x Hx. rewrite <- (firstn_skipn (S n) (c_ents c)). apply in_or_app. now right.
Qed.

Lemma iter_next_from pr t inp it :
  Forall (from_expansion pr t inp) it -> Forall (from_expansion pr t inp) (iter_next it).
Proof.
  intros F. destruct it as [|c r]; [constructor|]. inversion F as [|? ? Hc Hr]; subst. unfold iter_next.
  destruct (c_ents c) as [|e [|e2 tl]] eqn:E; try (eapply Permutation_Forall; [apply sort_head_perm|exact Hr]).
  eapply Permutation_Forall; [apply sort_head_perm|]. constructor; [|exact Hr].
  destruct Hc as [key [Hp Hw]]. exists key. split; [exact Hp|]. apply word_chunk_set_ents; [exact Hw|discriminate|].
  rewrite E. intros x Hx. now right.
Qed.

Lemma fetch_more_from presort pr syls t inp it limit cnt :
  Forall (from_expansion pr t inp) it ->
  Forall (from_expansion pr t inp) (fst (fst (fetch_more presort pr syls t inp (it, limit, cnt)))).
Proof.
  intros F. unfold fetch_more. destruct (limit =? 0); [exact F|].
  destruct (cnt <? total (snd (lookup_words pr syls t inp true limit))); [|exact F]. cbn [fst].
  assert (S : Forall (from_expansion pr t inp) (skip (snd (lookup_words pr syls t inp true limit)) cnt)).
  { apply skip_from. rewrite Forall_forall. intros c Hc. eapply lookup_words_predictive. exact Hc. }
  destruct presort; cbn [maybe_sort]; [eapply Permutation_Forall; [apply sort_head_perm|exact S]|exact S].
Qed.

(** soundness of the fetch-more protocol, whatever the number of fetches: every entry shown stems from a key that
    extends the input and is an entry of a syllable that key spells *)
Theorem table_completion_sound presort pr syls t inp fuel st d :
  Forall (from_expansion pr t inp) (fst (fst st)) ->
  In d (lazy_drain presort pr syls t inp fuel st) ->
  exists key sps sid, is_prefix inp key = true /\ In (key, sps) pr /\ In (sid, 0) sps /\ d_code d = [sid] /\
                      In (mkTE (d_text d) (d_w d)) (node_ents t [sid]).
Proof.
  revert st. induction fuel as [|f IH]; intros [[it limit] cnt] F Hd; [destruct Hd|]. cbn [fst] in F.
  cbn [lazy_drain] in Hd. destruct (iter_peek it) as [d0|] eqn:EP; [|destruct Hd].
  destruct Hd as [<-|Hd].
  - destruct it as [|c r]; [discriminate|]. cbn [iter_peek] in EP. destruct (c_ents c) as [|e tl] eqn:E; [discriminate|].
    injection EP as <-. inversion F as [|? ? [key [Hp [sps [sid [H1 [H2 [H3 [H4 [H5 [H6 H7]]]]]]]]]] _]; subst.
    exists key, sps, sid. unfold mk_dentry. cbn [d_code d_text d_w]. repeat split; auto.
    rewrite H5, Z.add_0_r. replace (mkTE (te_text e) (te_w e)) with e by now destruct e. apply H7. rewrite E. now left.
  - eapply IH; [|exact Hd]. pose proof (iter_next_from pr t inp it F) as F1.
    destruct (iter_next it) as [|c1 r1] eqn:E1; [|exact F1]. now apply fetch_more_from.
Qed.

Corollary table_completion_candidates_sound presort pr syls t code d :
  In d (table_entries presort true pr syls t code) ->
  exists key sps sid, is_prefix code key = true /\ In (key, sps) pr /\ In (sid, 0) sps /\ d_code d = [sid] /\
                      In (mkTE (d_text d) (d_w d)) (node_ents t [sid]).
Proof.
  unfold table_entries. apply table_completion_sound. apply (fetch_more_from presort pr syls t code [] 10 0). constructor.
Qed.

(** ** a single fetch (fewer than 10 keys extend the input): best head first over ALL chunks *)
Lemma lazy_drain_limit0 presort pr syls t inp fuel it cnt :
  lazy_drain presort pr syls t inp fuel (it, 0, cnt) = drain fuel it.
Proof.
  revert it. induction fuel as [|f IH]; intros it; [reflexivity|]. cbn [lazy_drain drain].
  destruct (iter_peek it); [|reflexivity]. f_equal.
  destruct (iter_next it) eqn:E; [cbn [fetch_more Nat.eqb]; now rewrite IH|now rewrite IH].
Qed.

Lemma drain_more n it : Forall nonempty it -> total it <= n -> drain n it = drain (total it) it.
Proof.
  revert it. induction n as [|n IH]; intros it F H.
  - assert (total it = 0) by lia. now rewrite H0.
  - destruct it as [|c r]; [reflexivity|]. inversion F as [|? ? Hc Hr]; subst.
    destruct (c_ents c) as [|e tl] eqn:E; [contradiction|].
    assert (T : total (c :: r) = S (total (iter_next (c :: r)))).
    { rewrite <- !all_entries_length. rewrite (Permutation_length (iter_next_perm c r e tl E)).
      cbn [all_entries flat_map]. unfold entries_of at 1. rewrite E. cbn. now rewrite !app_length, !map_length. }
    rewrite T. cbn [drain]. rewrite (iter_peek_some c r e tl E). f_equal.
    apply IH; [now apply iter_next_nonempty|lia].
Qed.

Lemma skip_0 it : skip it 0 = it.
Proof. destruct it; reflexivity. Qed.

Lemma firstn_short {A} n (l : list A) : length (firstn n l) < n -> firstn n l = l.
Proof. intros H. rewrite firstn_length in H. apply firstn_all2. lia. Qed.

Theorem table_exact_then_completion_partial pr syls t code :
  table_sorted t ->
  fst (lookup_words pr syls t code true 10) < 10 ->     (* fewer than 10 keys extend the input: one fetch *)
  let chunks := snd (lookup_words pr syls t code true 0) in
  Permutation (table_entries true true pr syls t code) (all_entries chunks) /\
  StronglySorted dle (table_entries true true pr syls t code).
Proof.
  intros TS H chunks.
  assert (Eq : lookup_words pr syls t code true 10 = lookup_words pr syls t code true 0).
  { unfold lookup_words, expand_search in *. cbn [fst Nat.eqb] in *. apply firstn_short in H. now rewrite H. }
  assert (OK : Forall chunk_ok chunks).
  { rewrite Forall_forall. intros c Hc. unfold chunks, lookup_words, expand_search in Hc. cbn [snd Nat.eqb] in Hc.
    apply in_flat_map in Hc. destruct Hc as [[key sps] [_ Hc]]. apply words_chunks_spec in Hc.
    destruct Hc as [sid [_ [NE ->]]]. split; [exact NE|]. split; [apply TS|]. unfold chunk_wf. cbn. lia. }
  assert (NE : Forall nonempty (sort_head chunks)).
  { eapply Permutation_Forall; [apply sort_head_perm|]. now apply chunk_ok_nonempty. }
  assert (E : table_entries true true pr syls t code = drain_all (sort_head chunks)).
  { unfold table_entries, fetch_more. cbn [Nat.eqb]. rewrite Eq. fold chunks.
    assert (L : fst (lookup_words pr syls t code true 0) <? 10 = true) by (apply Nat.ltb_lt; now rewrite <- Eq).
    rewrite L. destruct (0 <? total chunks) eqn:ET.
    - rewrite skip_0. cbn [maybe_sort]. rewrite lazy_drain_limit0. unfold lazy_fuel. fold chunks. unfold drain_all.
      assert (TT : total (sort_head chunks) = total chunks).
      { rewrite <- !all_entries_length. apply Permutation_length, all_entries_perm. symmetry. apply sort_head_perm. }
      rewrite <- TT. apply drain_more; [exact NE|lia].
    - apply Nat.ltb_ge in ET. rewrite lazy_drain_limit0. destruct chunks as [|c r] eqn:EC; [reflexivity|].
      exfalso. inversion OK as [|? ? [Hn _] _]; subst. unfold nonempty in Hn. cbn in ET.
      destruct (c_ents c); [contradiction|cbn in ET; lia]. }
  rewrite E. split.
  - etransitivity; [apply drain_all_perm; exact NE|apply all_entries_perm; symmetry; apply sort_head_perm].
  - now apply drain_all_sorted.
Qed.

(** what [dle] means here (all chunks are exact matches of one syllable): entries without remaining code first, by
    non-increasing weight; then entries with remaining code *)
Lemma dle_table a b :
  dle a b -> d_match a = 0 -> d_match b = 0 ->
  d_remlen a <= d_remlen b /\ (d_remlen a = d_remlen b -> (d_w b <= d_w a)%Z).
Proof. unfold dle, kle, klt, dkey. intros H Ea Eb. rewrite Ea, Eb in H. cbn [Nat.eqb] in H. lia. Qed.

(** * before the repair (presort = false): the first candidate need not be the best *)
Fixpoint weights_desc_b (l : list dentry) : bool :=
  match l with
  | [] => true
  | a :: r => forallb (fun b => (d_w b <=? d_w a)%Z) r && weights_desc_b r
  end.

Lemma weights_desc_b_complete l : StronglySorted (fun a b => (d_w b <= d_w a)%Z) l -> weights_desc_b l = true.
Proof.
  induction 1 as [|a l S IH F]; [reflexivity|]. cbn. rewrite IH, andb_true_r. apply forallb_forall.
  rewrite Forall_forall in F. intros b Hb. apply Z.leb_le. now apply F.
Qed.

(* key "b" spells the syllables 0 and 1 (two syllables share a spelling); syllable 0 holds weights 2,1 and syllable 1 weight 100 *)
Definition ex_prism : prism := [([98%N], [(0, 0); (1, 0)])].
Definition ex_table : table :=
  [mkNode [0] [mkTE [81%N] 2%Z; mkTE [87%N] 1%Z] false []; mkNode [1] [mkTE [88%N] 100%Z] false []].
Definition ex_syls : list (nat * text) := [(0, [97%N]); (1, [98%N])].

Lemma ex_table_sorted : table_sorted ex_table.
Proof.
  intros c. unfold node_ents, weights_sorted. destruct (find_node ex_table c) as [n|] eqn:E; [|constructor].
  unfold ex_table in E. cbn [find_node n_code] in E.
  destruct (code_eqb [0] c); [injection E as <-; cbn; repeat (constructor; cbn; try lia)|].
  destruct (code_eqb [1] c); [injection E as <-; cbn; repeat (constructor; cbn; try lia)|discriminate].
Qed.

Theorem table_exact_weight_order_unsorted_refuted :
  exists pr syls t code, table_sorted t /\
    ~ StronglySorted (fun a b => (d_w b <= d_w a)%Z) (table_entries false false pr syls t code).
Proof.
  exists ex_prism, ex_syls, ex_table, [98%N]. split; [exact ex_table_sorted|].
  intros S. apply weights_desc_b_complete in S. vm_compute in S. discriminate.
Qed.

(* the same instance after the repair: 100, 2, 1 *)
Example table_exact_weight_order_example :
  map d_w (table_entries true false ex_prism ex_syls ex_table [98%N]) = [100%Z; 2%Z; 1%Z].
Proof. reflexivity. Qed.

(** * the sentence mode of the table translator: prefix phrases by descending length *)
Lemma prefix_phrases_desc coll : StronglySorted (fun a b => k_end b <= k_end a) (prefix_phrases coll).
Proof.
  unfold prefix_phrases.
  set (G := group (flat_map (fun ci : nat * list chunk => map (fun c => (fst ci, c)) (snd ci)) coll)).
  assert (S : StronglySorted gt (map fst (rev G))).
  { rewrite map_rev. apply StronglySorted_rev_lt. apply group_sorted. }
  induction (rev G) as [|[e it] L IH]; [constructor|]. cbn [flat_map fst snd map] in *.
  inversion S as [|? ? S' F]; subst. apply StronglySorted_app.
  - induction (drain_all it) as [|d l IHl]; cbn; constructor; [exact IHl|].
    rewrite Forall_forall. intros y Hy. apply in_map_iff in Hy. destruct Hy as [d' [<- _]]. cbn. lia.
  - now apply IH.
  - intros a b Ha Hb. apply in_map_iff in Ha. destruct Ha as [da [<- _]].
    apply in_flat_map in Hb. destruct Hb as [[e' it'] [Hin Hb]]. apply in_map_iff in Hb. destruct Hb as [db [<- _]].
    cbn [k_end fst]. rewrite Forall_forall in F. specialize (F e' (in_map fst _ _ Hin)). lia.
Qed.

(** the model predicts the known finding: with words for "b", "ba", "baa" only, the input "baab" yields the
    sentence baa+b and then the prefix phrases of "baa" [0,3), "ba" [0,2) and "b" [0,1), although neither "ab"
    nor "aab" can be segmented (no key is a prefix of them) *)
Definition f1_prism : prism := [([98%N], [(0, 0)]); ([98%N; 97%N], [(1, 0)]); ([98%N; 97%N; 97%N], [(2, 0)])].
Definition f1_table : table :=
  [mkNode [0] [mkTE [66%N] 1%Z] false []; mkNode [1] [mkTE [67%N] 1%Z] false []; mkNode [2] [mkTE [68%N] 1%Z] false []].
Definition f1_syls : list (nat * text) := [(0, [98%N]); (1, [98%N; 97%N]); (2, [98%N; 97%N; 97%N])].
Definition f1_input : text := [98%N; 97%N; 97%N; 98%N].
Definition f1_sentence : sentence :=
  [(mkDE [68%N] [2] 1%Z 0 0, 3); (mkDE [66%N] [0] 1%Z 0 0, 4)].

Example table_prefix_phrases_off_segmentation :
  map (fun c => (k_end c, k_text c))
      (table_query (fun _ _ => Some f1_sentence) false true 1 f1_prism f1_syls f1_table [39%N] f1_input)
  = [(4, [68%N; 66%N]); (3, [68%N]); (2, [67%N]); (1, [66%N])] /\
  wg_path_ok (table_wgraph 1 f1_prism f1_syls f1_table [39%N] f1_input) 0 4 f1_sentence = true /\
  common_prefix f1_prism (skipn 1 f1_input) = [] /\ common_prefix f1_prism (skipn 2 f1_input) = [].
Proof. repeat split; reflexivity. Qed.
