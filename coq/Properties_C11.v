(** C11 – a kill at any instant leaves the user dictionary openable, whole
    commits intact.  Property theorems only; each closed by [exact] of a lemma
    proved in UdbL/*Proofs.v.

    [ops_of d h] are the LevelDb calls the implementation model issues for the
    event history [h] on a store [d]; [spec_units d h] are the units the atomic
    semantics of the same history makes durable (whole commits, single direct
    writes); [abs_units d us] is the dictionary these units produce on their own.
    LevelDB's own contract is the hypothesis about [kill_inside]. *)
From Coq Require Import List NArith ZArith Bool.
From RimeV Require Import Base.Bytes UdbL.Txn UdbL.TxnProofs UdbL.Learn UdbL.LearnProofs
  UdbL.CommitProofs UdbL.Examples.
Import ListNotations.

(** For every history and every crash point (between two calls, or inside one
    call given LevelDB's atomicity), what a fresh process finds is the initial
    store with a prefix of the history's units applied – each commit entirely or
    not at all – and that prefix contains every unit closed before the kill. *)
Theorem C11_txn_atomic :
  forall kill_inside : db -> dbop -> dict,
  (forall s o, kill_inside s o = durable s \/ kill_inside s o = durable (db_step s o)) ->
  forall (d : dict) (h : list event) (c : crash_point),
  exists j,
    closed_before (db0 d) (ops_of d h) c <= j <= opened_before (db0 d) (ops_of d h) c /\
    recovered kill_inside (db0 d) (ops_of d h) c = abs_units d (firstn j (spec_units d h)).
Proof. exact txn_atomic. Qed.
Print Assumptions C11_txn_atomic.

(** The calls of the implementation model close exactly the units of the atomic
    semantics, for every history (the refinement the theorem above rests on). *)
Theorem C11_impl_refines_atomic :
  forall d h, units_of (db0 d) (ops_of d h) = spec_units d h.
Proof. exact impl_units_are_spec_units. Qed.
Print Assumptions C11_impl_refines_atomic.

(** No partial commit: every write call of a commit (entries and tick) goes to
    the batch; the store changes only by the previous commit becoming durable. *)
Theorem C11_no_partial_commit :
  forall s u kind now segs,
  inv (pdb s) -> loaded (pdb s) = true ->
  let s' := ev_step s (ECommit u kind now segs) in
  in_txn (pdb s') = true /\
  durable (pdb s') =
    (if in_txn (pdb s) then apply_batch (batch (pdb s)) (durable (pdb s)) else durable (pdb s)) /\
  batch (pdb s') = fst (commit_writes (durable (pdb s')) (ud_tick (get_ud (puds s) u)) kind segs).
Proof. exact commit_all_in_batch. Qed.
Print Assumptions C11_no_partial_commit.

(** At most the final commit is missing: a commit first makes the pending one
    durable, so what is not yet durable belongs to the single latest commit. *)
Theorem C11_at_most_last_missing :
  forall d h u kind now segs,
  let st := fst (spec_run (sst0 d) h) in
  let st' := fst (spec_step st (ECommit u kind now segs)) in
  s_loaded st = true ->
  spec_units d (h ++ [ECommit u kind now segs]) =
    spec_units d h ++ (match s_pend st with Some w => [w] | None => [] end) /\
  s_dict st' = abs_units d (spec_units d (h ++ [ECommit u kind now segs])) /\
  s_pend st' = Some (fst (commit_writes (s_dict st') (ud_tick (get_ud (s_uds st) u)) kind segs)).
Proof. exact commit_flushes_previous. Qed.
Print Assumptions C11_at_most_last_missing.

(** and a kill inside one call leaves at most that call's unit undecided *)
Theorem C11_one_unit_undecided :
  forall s ops c, opened_before s ops c <= closed_before s ops c + 1.
Proof. exact opened_closed_gap. Qed.
Print Assumptions C11_one_unit_undecided.

(** Everything durable before stays: a later kill finds the earlier kill's
    store with further whole units applied. *)
Theorem C11_durable_monotone :
  forall d h p q, p <= q ->
  exists us,
    recover (db_run (db0 d) (firstn q (ops_of d h))) =
    abs_units (recover (db_run (db0 d) (firstn p (ops_of d h)))) us /\
    firstn (closed_count (db0 d) (firstn q (ops_of d h))) (spec_units d h) =
    firstn (closed_count (db0 d) (firstn p (ops_of d h))) (spec_units d h) ++ us.
Proof. exact durable_monotone. Qed.
Print Assumptions C11_durable_monotone.

(** The tick is consistent with the entries: a commit's writes carry the tick
    (it grows by the number of counted updates and is stored by the same unit)
    and no entry of the commit is stamped beyond it. *)
Theorem C11_tick_consistent :
  forall d tick kind segs d0,
  let calls := commit_calls kind segs ce_empty in
  let ws := fst (commit_writes d tick kind segs) in
  let tick' := snd (commit_writes d tick kind segs) in
  tick' = (tick + N.of_nat (n_counted calls))%N /\
  ((0 < n_counted calls)%nat -> get (apply_batch ws d0) tick_key = Some (VNum tick')) /\
  (forall k c t, In (WPut k (VEnt c t)) ws -> (tick <= t <= tick')%N) /\
  (forall n, In (WPut tick_key (VNum n)) ws -> (tick < n <= tick')%N).
Proof. exact commit_tick_consistent. Qed.
Print Assumptions C11_tick_consistent.

(** Non-vacuity: a history with two commits; killed inside the first commit's
    batch nothing of it is found, killed at the end the first is whole and the
    last is missing. *)
Theorem C11_example_kill_inside_commit :
  let d := recover (db_run (db0 []) (firstn 8 (ops_of [] ex_h))) in
  closed_count (db0 []) (firstn 8 (ops_of [] ex_h)) = 5 /\
  get d ex_key_a = None /\ get d tick_key = Some (VNum 0).
Proof. exact ex_kill_inside_first_commit. Qed.
Print Assumptions C11_example_kill_inside_commit.

Theorem C11_example_kill_at_end :
  let d := recover (db_run (db0 []) (ops_of [] ex_h)) in
  closed_count (db0 []) (ops_of [] ex_h) = 6 /\
  get d ex_key_a = Some (VEnt 1 1) /\ get d tick_key = Some (VNum 1) /\ get d ex_key_b = None.
Proof. exact ex_kill_at_end. Qed.
Print Assumptions C11_example_kill_at_end.
