(** C05 – editing keys act on the raw input exactly like a text buffer with a
    caret.  Property theorems only; each closed by a lemma proved elsewhere. *)
From Coq Require Import List ZArith Bool.
From Coq.Strings Require Import Byte.
From RimeV Require Import Base.Bytes Eng.Keys Eng.Cand Eng.Segm Eng.Ctx Eng.Engine Eng.Procs Eng.Api Eng.Oracle
     Eng.Spec Eng.EditProofs Gen.Keymaps.
Import ListNotations.

(** The translator understood every [Bind] of editor.cc, navigator.cc and
    selector.cc of the current source. *)
Theorem C05_keymaps_recognised : keymaps_recognised = true.
Proof. reflexivity. Qed.
Print Assumptions C05_keymaps_recognised.

(** The key alphabet of the property is bound, in the current source, to the
    character-wise actions the statement speaks of (KP_Left/KP_Right are
    left_by_char/right_by_char; plain Left is [rewind], which is not). *)
Theorem C05_alphabet_bindings :
  keymap_find (keymap_of_binds nav_horizontal_binds) (mkKey XK_KP_Left 0) = Some NavLeftByChar /\
  keymap_find (keymap_of_binds nav_horizontal_binds) (mkKey XK_KP_Right 0) = Some NavRightByChar /\
  keymap_find (keymap_of_binds nav_horizontal_binds) (mkKey XK_Home 0) = Some NavHome /\
  keymap_find (keymap_of_binds nav_horizontal_binds) (mkKey XK_End 0) = Some NavEnd /\
  keymap_find (keymap_of_binds express_editor_binds) (mkKey XK_BackSpace 0) = Some EdRevertLastEdit /\
  keymap_find (keymap_of_binds fluid_editor_binds) (mkKey XK_BackSpace 0) = Some EdBackToPreviousInput /\
  (forall b, In b [express_editor_binds; fluid_editor_binds] ->
             keymap_find (keymap_of_binds b) (mkKey XK_Delete 0) = Some EdDeleteChar /\
             keymap_find (keymap_of_binds b) (mkKey XK_Escape 0) = Some EdCancelComposition).
Proof.
  repeat split; try (vm_compute; reflexivity);
    destruct H as [<- | [<- | []]]; vm_compute; reflexivity.
Qed.
Print Assumptions C05_alphabet_bindings.

(** For both editor flavours, ANY translator and every finite key sequence over
    {spelling letters, BackSpace, Delete, KP_Left, KP_Right, Home, End, Escape}
    from a fresh session: after every key the reported input and caret are the
    buffer's, the key is reported handled exactly when the buffer was non-empty
    or the key is a spelling letter, nothing is committed (the pending commit
    text read after every key is empty), and no undefined operation is reached
    (every observation is a regular one). *)
Theorem C05_edit_refines_buffer :
  forall (fluid dlog : bool) (translate : bytes -> seginfo -> list cand) (keys : list ekey),
    Forall (fun k => ekey_ok (synth_cfg fluid dlog) k = true) keys ->
    let r := run (synth_cfg fluid dlog) translate (map op_of_ekey keys) in
    cx_input (st_ctx (fst r)) = b_text (buf_run keys) /\
    cx_caret (st_ctx (fst r)) = b_caret (buf_run keys) /\
    st_commit (fst r) = [] /\
    map edit_summary (snd r) = map (fun x => Some (x, [])) (buf_trace buf_empty keys).
Proof. exact edit_refines_buffer. Qed.
Print Assumptions C05_edit_refines_buffer.

(** Round 3 – the generalisation: ANY configuration with the speller settings of the synthetic
    schemas and one of the two chains ([edit_cfg]: speller, selector, navigator, editor over
    abc/fallback segmentors, or the same with the punctuator after the speller and
    punct_segmentor after abc_segmentor, the latter under the hypothesis that no spelling
    letter is a key of the punctuation tables [no_letter_punct]); editor flavour, tables,
    translators, source facts arbitrary.  [C05_edit_refines_buffer] is the instance synth_cfg. *)
Theorem C05_edit_refines_buffer_gen :
  forall (cfg : config) (translate : bytes -> seginfo -> list cand), edit_cfg cfg ->
  forall keys : list ekey,
    Forall (fun k => ekey_ok cfg k = true) keys ->
    let r := run cfg translate (map op_of_ekey keys) in
    cx_input (st_ctx (fst r)) = b_text (buf_run keys) /\
    cx_caret (st_ctx (fst r)) = b_caret (buf_run keys) /\
    st_commit (fst r) = [] /\
    map edit_summary (snd r) = map (fun x => Some (x, [])) (buf_trace buf_empty keys).
Proof. exact edit_refines_buffer_gen. Qed.
Print Assumptions C05_edit_refines_buffer_gen.

(** the punctuator schemas of the correspondence (synth_punct_express / synth_punct_fluid)
    meet the hypotheses: no letter a-z is a key of their punctuation tables *)
Theorem C05_edit_refines_buffer_punct :
  forall (fluid dlog : bool) (translate : bytes -> seginfo -> list cand) (keys : list ekey),
    Forall (fun k => ekey_ok (synth_punct_cfg fluid dlog) k = true) keys ->
    let r := run (synth_punct_cfg fluid dlog) translate (map op_of_ekey keys) in
    cx_input (st_ctx (fst r)) = b_text (buf_run keys) /\
    cx_caret (st_ctx (fst r)) = b_caret (buf_run keys) /\
    st_commit (fst r) = [] /\
    map edit_summary (snd r) = map (fun x => Some (x, [])) (buf_trace buf_empty keys).
Proof. exact edit_refines_buffer_punct. Qed.
Print Assumptions C05_edit_refines_buffer_punct.

(** round 4: [edit_cfg] also admits ascii_composer in front of the processors and ascii_segmentor in front of the
    segmentors (their stock positions).  The instance: the punctuator chain with both, every mode-switch style bound *)
Theorem C05_edit_refines_buffer_ascii :
  forall (fluid dlog : bool) (translate : bytes -> seginfo -> list cand) (keys : list ekey),
    Forall (fun k => ekey_ok (synth_acedit_cfg fluid dlog) k = true) keys ->
    let r := run (synth_acedit_cfg fluid dlog) translate (map op_of_ekey keys) in
    cx_input (st_ctx (fst r)) = b_text (buf_run keys) /\
    cx_caret (st_ctx (fst r)) = b_caret (buf_run keys) /\
    st_commit (fst r) = [] /\
    map edit_summary (snd r) = map (fun x => Some (x, [])) (buf_trace buf_empty keys).
Proof. exact edit_refines_buffer_ascii. Qed.
Print Assumptions C05_edit_refines_buffer_ascii.

(** Non-vacuity: a concrete history over the whole alphabet, run on the model
    with the oracle translator, walks through a non-trivial buffer. *)
Definition c05_example_keys : list ekey :=
  [EkLetter x61; EkLetter x62; EkLetter x63; EkLeft; EkLetter x64; EkHome; EkDelete; EkLeft; EkBackSpace;
   EkRight; EkRight; EkEnd; EkLetter x7a; EkEscape; EkLetter x71; EkBackSpace; EkBackSpace].
Theorem C05_example :
  Forall (fun k => ekey_ok (synth_cfg false true) k = true) c05_example_keys /\
  map (fun x => snd (fst x)) (buf_trace buf_empty c05_example_keys) =
    map (fun o => match edit_summary o with Some (_, t, _, _) => t | None => [x00] end)
        (snd (run (synth_cfg false true) oracle_translate (map op_of_ekey c05_example_keys))) /\
  nth 9 (map (fun x => snd (fst x)) (buf_trace buf_empty c05_example_keys)) [] = [x62; x64].
Proof.
  split; [repeat constructor|]. split; vm_compute; reflexivity.
Qed.
Print Assumptions C05_example.

Theorem C05_punct_example :
  edit_cfg (synth_punct_cfg true true) /\
  map (fun x => snd (fst x)) (buf_trace buf_empty c05_example_keys) =
    map (fun o => match edit_summary o with Some (_, t, _, _) => t | None => [x00] end)
        (snd (run (synth_punct_cfg true true) (synth_translate (synth_punct_cfg true true)) (map op_of_ekey c05_example_keys))).
Proof. split; [apply synth_punct_edit_cfg | vm_compute; reflexivity]. Qed.
Print Assumptions C05_punct_example.

(** ... and key_binder between them and the speller - the stock chain order - under [no_alphabet_binding] (no binding accepts
    an unmodified key of the alphabet; decided by [no_alphabet_binding_dec] for the 28 bindings of the synthetic schemas:
    Control+letter keys, Tab, comma / period / minus / equal / bracketleft in every condition, self-sending and cyclic ones) *)
Theorem C05_edit_refines_buffer_stock_order :
  forall (fluid dlog : bool) (translate : bytes -> seginfo -> list cand) (keys : list ekey),
    Forall (fun k => ekey_ok (synth_ascii_cfg fluid dlog) k = true) keys ->
    let r := run (synth_ascii_cfg fluid dlog) translate (map op_of_ekey keys) in
    cx_input (st_ctx (fst r)) = b_text (buf_run keys) /\
    cx_caret (st_ctx (fst r)) = b_caret (buf_run keys) /\
    st_commit (fst r) = [] /\
    map edit_summary (snd r) = map (fun x => Some (x, [])) (buf_trace buf_empty keys).
Proof. exact edit_refines_buffer_stock_order. Qed.
Print Assumptions C05_edit_refines_buffer_stock_order.

Theorem C05_edit_refines_buffer_key_binder :
  forall (fluid dlog : bool) (translate : bytes -> seginfo -> list cand) (keys : list ekey),
    Forall (fun k => ekey_ok (synth_kb_cfg fluid dlog) k = true) keys ->
    let r := run (synth_kb_cfg fluid dlog) translate (map op_of_ekey keys) in
    cx_input (st_ctx (fst r)) = b_text (buf_run keys) /\
    cx_caret (st_ctx (fst r)) = b_caret (buf_run keys) /\
    st_commit (fst r) = [] /\
    map edit_summary (snd r) = map (fun x => Some (x, [])) (buf_trace buf_empty keys).
Proof. exact edit_refines_buffer_kb. Qed.
Print Assumptions C05_edit_refines_buffer_key_binder.

Theorem C05_ascii_example :
  edit_cfg (synth_acedit_cfg false true) /\
  map (fun x => snd (fst x)) (buf_trace buf_empty c05_example_keys) =
    map (fun o => match edit_summary o with Some (_, t, _, _) => t | None => [x00] end)
        (snd (run (synth_acedit_cfg false true) (synth_translate (synth_acedit_cfg false true)) (map op_of_ekey c05_example_keys))).
Proof. split; [apply synth_acedit_edit_cfg | vm_compute; reflexivity]. Qed.
Print Assumptions C05_ascii_example.

