(** Extraction of the C04 model (ExtrOcamlBasic only). *)
From Coq Require Extraction.
From Coq Require ExtrOcamlBasic.
From RimeV Require Import MenuM.Gen MenuM.Menu MenuM.Spec.
Extraction "c04_model.ml" run_case menu_of full_list nodup_texts dict_conv dict_a dict_b.
