
val negb : bool -> bool

type nat =
| O
| S of nat

val fst : ('a1 * 'a2) -> 'a1

val snd : ('a1 * 'a2) -> 'a2

val length : 'a1 list -> nat

val app : 'a1 list -> 'a1 list -> 'a1 list

type comparison =
| Eq
| Lt
| Gt

val compOpp : comparison -> comparison

val add : nat -> nat -> nat

val mul : nat -> nat -> nat

val sub : nat -> nat -> nat

val eqb : bool -> bool -> bool

module Nat :
 sig
  val eqb : nat -> nat -> bool

  val leb : nat -> nat -> bool

  val ltb : nat -> nat -> bool

  val divmod : nat -> nat -> nat -> nat -> nat * nat

  val div : nat -> nat -> nat
 end

val nth : nat -> 'a1 list -> 'a1 -> 'a1

val last : 'a1 list -> 'a1 -> 'a1

val removelast : 'a1 list -> 'a1 list

val rev : 'a1 list -> 'a1 list

val map : ('a1 -> 'a2) -> 'a1 list -> 'a2 list

val flat_map : ('a1 -> 'a2 list) -> 'a1 list -> 'a2 list

val fold_left : ('a1 -> 'a2 -> 'a1) -> 'a2 list -> 'a1 -> 'a1

val fold_right : ('a2 -> 'a1 -> 'a1) -> 'a1 -> 'a2 list -> 'a1

val existsb : ('a1 -> bool) -> 'a1 list -> bool

val forallb : ('a1 -> bool) -> 'a1 list -> bool

val filter : ('a1 -> bool) -> 'a1 list -> 'a1 list

val firstn : nat -> 'a1 list -> 'a1 list

val skipn : nat -> 'a1 list -> 'a1 list

val seq : nat -> nat -> nat list

type positive =
| XI of positive
| XO of positive
| XH

type n =
| N0
| Npos of positive

type z =
| Z0
| Zpos of positive
| Zneg of positive

module Pos :
 sig
  val succ : positive -> positive

  val add : positive -> positive -> positive

  val add_carry : positive -> positive -> positive

  val pred_double : positive -> positive

  val compare_cont : comparison -> positive -> positive -> comparison

  val compare : positive -> positive -> comparison

  val eqb : positive -> positive -> bool
 end

module N :
 sig
  val eqb : n -> n -> bool
 end

module Z :
 sig
  val double : z -> z

  val succ_double : z -> z

  val pred_double : z -> z

  val pos_sub : positive -> positive -> z

  val add : z -> z -> z

  val opp : z -> z

  val sub : z -> z -> z

  val compare : z -> z -> comparison

  val leb : z -> z -> bool

  val ltb : z -> z -> bool

  val eqb : z -> z -> bool

  val max : z -> z -> z

  val abs : z -> z
 end

type syll = nat

type code = syll list

type text = n list

type props = { p_end : nat; p_type : nat; p_cred : z; p_corr : bool }

type spelling_index = (syll * props list) list

type graph = { g_input_len : nat; g_ilen : nat;
               g_edges : (nat * (nat * (syll * props) list) list) list;
               g_indices : (nat * spelling_index) list }

type tentry = { te_text : text; te_w : z }

type lentry = { le_extra : code; le_ent : tentry }

type node = { n_code : code; n_ents : tentry list; n_next : bool;
              n_tail : lentry list }

type table = node list

type prism = (text * (syll * nat) list) list

val assoc_nat : nat -> (nat * 'a1) list -> 'a1 option

val assoc_list : nat -> (nat * 'a1 list) list -> 'a1 list

val code_eqb : code -> code -> bool

val text_eqb : text -> text -> bool

val find_node : table -> code -> node option

val node_ents : table -> code -> tentry list

val node_next : table -> code -> bool

val node_tail : table -> code -> lentry list

val map_push : nat -> 'a1 -> (nat * 'a1 list) list -> (nat * 'a1 list) list

val group : (nat * 'a1) list -> (nat * 'a1 list) list

type accessor =
| AccShort of code * tentry list * z
| AccLong of code * lentry list * z

val acc_exhausted : accessor -> bool

val access : table -> code -> syll -> z -> accessor

val tail_access : table -> code -> z -> accessor

val can_advance : table -> code -> syll -> bool

type qstate = (nat * code) * z

val step_state :
  graph -> table -> qstate -> (nat * accessor) list * qstate list

val step_all :
  graph -> table -> qstate list -> (nat * accessor) list * qstate list

val query : graph -> table -> nat -> (nat * accessor) list

type chunk = { c_code : code; c_ents : tentry list; c_remlen : nat;
               c_match : nat; c_cred : z }

val set_ents : chunk -> tentry list -> chunk

val is_exact : chunk -> bool

val chunk_lt : chunk -> chunk -> bool

type cmatch = (bool * nat) * nat

val k_failed : cmatch

val match_extra : graph -> bool -> code -> nat -> nat -> cmatch

val chunks_of_item : graph -> bool -> (nat * accessor) -> (nat * chunk) list

val select_swap : chunk -> chunk list -> chunk * chunk list

val sort_head : chunk list -> chunk list

val lookup_chunks : graph -> table -> nat -> bool -> (nat * chunk) list

val lookup : graph -> table -> nat -> bool -> (nat * chunk list) list

type dentry = { d_text : text; d_code : code; d_w : z; d_remlen : nat;
                d_match : nat }

val mk_dentry : chunk -> tentry -> dentry

val d_exact : dentry -> bool

val d_predictive : dentry -> bool

val iter_peek : chunk list -> dentry option

val iter_next : chunk list -> chunk list

val total : chunk list -> nat

val drain : nat -> chunk list -> dentry list

val drain_all : chunk list -> dentry list

val skip : chunk list -> nat -> chunk list

type ctype =
| TPhrase
| TCompletion
| TSentence
| TTable

type cand = { k_type : ctype; k_start : nat; k_end : nat; k_text : text;
              k_code : code }

val text_mem : text -> text list -> bool

val distinct : text list -> cand list -> cand list

type wgraph = (nat * (nat * dentry list) list) list

type sentence = (dentry * nat) list

val sentence_cand : sentence -> cand

val dentry_in : dentry -> dentry list -> bool

val wg_path_ok : wgraph -> nat -> nat -> sentence -> bool

val wg_reach : wgraph -> nat -> nat list

val wg_has_path : wgraph -> nat -> bool

val script_phrase_entries : (nat * chunk list) list -> (nat * dentry) list

val phrase_cand : (nat * dentry) -> cand

val script_phrases : (nat * chunk list) list -> cand list

val script_wgraph : graph -> table -> nat -> wgraph

val has_exact_at : (nat * chunk list) list -> nat -> bool

val script_translation :
  (wgraph -> nat -> sentence option) -> bool -> nat -> graph -> table -> cand
  list option

val script_query :
  (wgraph -> nat -> sentence option) -> bool -> nat -> graph -> table -> cand
  list

val is_prefix : text -> text -> bool

val expand_search : prism -> text -> nat -> (text * (syll * nat) list) list

val exact_key : prism -> text -> (syll * nat) list option

val common_prefix : prism -> text -> (text * (syll * nat) list) list

val syl_str : (nat * text) list -> syll -> text

val words_chunks :
  (nat * text) list -> table -> nat -> nat -> (syll * nat) list -> chunk list

val lookup_words :
  prism -> (nat * text) list -> table -> text -> bool -> nat -> nat * chunk
  list

val table_cand : nat -> dentry -> cand

type lazy_state = (chunk list * nat) * nat

val maybe_sort : bool -> chunk list -> chunk list

val fetch_more :
  bool -> prism -> (nat * text) list -> table -> text -> lazy_state ->
  lazy_state

val lazy_drain :
  bool -> prism -> (nat * text) list -> table -> text -> nat -> lazy_state ->
  dentry list

val lazy_fuel : prism -> (nat * text) list -> table -> text -> nat

val trim_right : text -> text -> text

val consume_delims : text -> text -> nat -> nat

type ms_state = (nat list * wgraph) * (nat * chunk list) list

val coll_put :
  nat -> chunk list -> (nat * chunk list) list -> (nat * chunk list) list

val ms_at :
  nat -> prism -> (nat * text) list -> table -> text -> text -> ms_state ->
  nat -> ms_state

val table_ms :
  nat -> prism -> (nat * text) list -> table -> text -> text -> ms_state

val table_wgraph :
  nat -> prism -> (nat * text) list -> table -> text -> text -> wgraph

val prefix_phrases : (nat * chunk list) list -> cand list

val table_sentence :
  (wgraph -> nat -> sentence option) -> nat -> prism -> (nat * text) list ->
  table -> text -> text -> cand list option

val table_entries :
  bool -> bool -> prism -> (nat * text) list -> table -> text -> dentry list

val table_query_gen :
  (wgraph -> nat -> sentence option) -> bool -> bool -> bool -> nat -> prism
  -> (nat * text) list -> table -> text -> text -> cand list

val table_query :
  (wgraph -> nat -> sentence option) -> bool -> bool -> nat -> prism ->
  (nat * text) list -> table -> text -> text -> cand list

type comp = { cp_ent : dentry; cp_end : nat; cp_w : z }

type line = comp list

val l_empty : line -> bool

val l_weight : line -> z

val last_word : line -> text

val l_context : line -> text

val diffs : nat -> nat list -> nat list

val word_lengths : line -> nat list

val lex_lt : nat list -> nat list -> bool

val compare_weight : line -> line -> bool

val left_associate_compare : line -> line -> bool

val sentence_of : line -> sentence

val put : nat -> 'a1 -> (nat * 'a1) list -> (nat * 'a1) list

val evaluate :
  (text -> text -> bool -> z) option -> z -> text -> dentry -> bool -> z

val new_line :
  (text -> text -> bool -> z) option -> z -> text -> line -> nat -> bool ->
  dentry -> line

val better : (line -> line -> bool) -> line -> line -> line

type dp_states = (nat * line) list

val dp_edge :
  (text -> text -> bool -> z) option -> z -> (line -> line -> bool) -> text
  -> nat -> nat -> line -> dp_states -> (nat * dentry list) -> dp_states

val dp_step :
  (text -> text -> bool -> z) option -> z -> (line -> line -> bool) -> text
  -> nat -> dp_states -> (nat * (nat * dentry list) list) -> dp_states

val dp_run :
  (text -> text -> bool -> z) option -> z -> (line -> line -> bool) -> text
  -> wgraph -> nat -> dp_states

val dp_sentence :
  (text -> text -> bool -> z) option -> z -> (line -> line -> bool) -> text
  -> wgraph -> nat -> sentence option

type bstate = (text * line) list

val bs_find : text -> bstate -> line option

val bs_put : text -> line -> bstate -> bstate

val upper_bound : nat -> (line -> bool) -> line list -> nat -> nat -> nat

val k_max_line_candidates : nat

val top_insert : (line -> line -> bool) -> line list -> line -> line list

val find_top : (line -> line -> bool) -> bstate -> line list

val beam_entry :
  (text -> text -> bool -> z) option -> z -> (line -> line -> bool) -> text
  -> line -> nat -> bool -> bstate -> dentry -> bstate

type beam_states = (nat * bstate) list

val beam_edge :
  (text -> text -> bool -> z) option -> z -> (line -> line -> bool) -> text
  -> nat -> nat -> line -> beam_states -> (nat * dentry list) -> beam_states

val beam_step :
  (text -> text -> bool -> z) option -> z -> (line -> line -> bool) -> text
  -> nat -> beam_states -> (nat * (nat * dentry list) list) -> beam_states

val beam_run :
  (text -> text -> bool -> z) option -> z -> (line -> line -> bool) -> text
  -> wgraph -> nat -> beam_states

val best_in_state : (line -> line -> bool) -> bstate -> line

val beam_sentence :
  (text -> text -> bool -> z) option -> z -> (line -> line -> bool) -> text
  -> wgraph -> nat -> sentence option

val make_sentence :
  (text -> text -> bool -> z) option -> z -> (line -> line -> bool) -> text
  -> wgraph -> nat -> sentence option

val increments : line -> z list

val zlist_eqb : z list -> z list -> bool

val safe_pair : z -> bool -> line -> line -> bool

val dp_robust :
  (text -> text -> bool -> z) option -> z -> (line -> line -> bool) -> text
  -> z -> bool -> wgraph -> nat -> bool

val all_pairs : ('a1 -> 'a1 -> bool) -> 'a1 list -> bool

val beam_robust :
  (text -> text -> bool -> z) option -> z -> (line -> line -> bool) -> text
  -> z -> bool -> wgraph -> nat -> bool

val robust :
  (text -> text -> bool -> z) option -> z -> (line -> line -> bool) -> text
  -> z -> bool -> wgraph -> nat -> bool

val poet_script : z -> wgraph -> nat -> sentence option

val poet_table : z -> wgraph -> nat -> sentence option

val best_match : dentry -> dentry list -> z option

val chain_weight : z -> wgraph -> nat -> sentence -> z option
