
val negb : bool -> bool

type nat =
| O
| S of nat

val fst : ('a1 * 'a2) -> 'a1

val snd : ('a1 * 'a2) -> 'a2

val length : 'a1 list -> nat

val app : 'a1 list -> 'a1 list -> 'a1 list

type comparison =
| Eq
| Lt
| Gt

val compOpp : comparison -> comparison

val add : nat -> nat -> nat

val mul : nat -> nat -> nat

val sub : nat -> nat -> nat

val leb : nat -> nat -> bool

val ltb : nat -> nat -> bool

type byte =
| X00
| X01
| X02
| X03
| X04
| X05
| X06
| X07
| X08
| X09
| X0a
| X0b
| X0c
| X0d
| X0e
| X0f
| X10
| X11
| X12
| X13
| X14
| X15
| X16
| X17
| X18
| X19
| X1a
| X1b
| X1c
| X1d
| X1e
| X1f
| X20
| X21
| X22
| X23
| X24
| X25
| X26
| X27
| X28
| X29
| X2a
| X2b
| X2c
| X2d
| X2e
| X2f
| X30
| X31
| X32
| X33
| X34
| X35
| X36
| X37
| X38
| X39
| X3a
| X3b
| X3c
| X3d
| X3e
| X3f
| X40
| X41
| X42
| X43
| X44
| X45
| X46
| X47
| X48
| X49
| X4a
| X4b
| X4c
| X4d
| X4e
| X4f
| X50
| X51
| X52
| X53
| X54
| X55
| X56
| X57
| X58
| X59
| X5a
| X5b
| X5c
| X5d
| X5e
| X5f
| X60
| X61
| X62
| X63
| X64
| X65
| X66
| X67
| X68
| X69
| X6a
| X6b
| X6c
| X6d
| X6e
| X6f
| X70
| X71
| X72
| X73
| X74
| X75
| X76
| X77
| X78
| X79
| X7a
| X7b
| X7c
| X7d
| X7e
| X7f
| X80
| X81
| X82
| X83
| X84
| X85
| X86
| X87
| X88
| X89
| X8a
| X8b
| X8c
| X8d
| X8e
| X8f
| X90
| X91
| X92
| X93
| X94
| X95
| X96
| X97
| X98
| X99
| X9a
| X9b
| X9c
| X9d
| X9e
| X9f
| Xa0
| Xa1
| Xa2
| Xa3
| Xa4
| Xa5
| Xa6
| Xa7
| Xa8
| Xa9
| Xaa
| Xab
| Xac
| Xad
| Xae
| Xaf
| Xb0
| Xb1
| Xb2
| Xb3
| Xb4
| Xb5
| Xb6
| Xb7
| Xb8
| Xb9
| Xba
| Xbb
| Xbc
| Xbd
| Xbe
| Xbf
| Xc0
| Xc1
| Xc2
| Xc3
| Xc4
| Xc5
| Xc6
| Xc7
| Xc8
| Xc9
| Xca
| Xcb
| Xcc
| Xcd
| Xce
| Xcf
| Xd0
| Xd1
| Xd2
| Xd3
| Xd4
| Xd5
| Xd6
| Xd7
| Xd8
| Xd9
| Xda
| Xdb
| Xdc
| Xdd
| Xde
| Xdf
| Xe0
| Xe1
| Xe2
| Xe3
| Xe4
| Xe5
| Xe6
| Xe7
| Xe8
| Xe9
| Xea
| Xeb
| Xec
| Xed
| Xee
| Xef
| Xf0
| Xf1
| Xf2
| Xf3
| Xf4
| Xf5
| Xf6
| Xf7
| Xf8
| Xf9
| Xfa
| Xfb
| Xfc
| Xfd
| Xfe
| Xff

module Nat :
 sig
  val eqb : nat -> nat -> bool

  val leb : nat -> nat -> bool

  val ltb : nat -> nat -> bool

  val max : nat -> nat -> nat
 end

val nth : nat -> 'a1 list -> 'a1 -> 'a1

val rev : 'a1 list -> 'a1 list

val rev_append : 'a1 list -> 'a1 list -> 'a1 list

val map : ('a1 -> 'a2) -> 'a1 list -> 'a2 list

val flat_map : ('a1 -> 'a2 list) -> 'a1 list -> 'a2 list

val fold_left : ('a1 -> 'a2 -> 'a1) -> 'a2 list -> 'a1 -> 'a1

val existsb : ('a1 -> bool) -> 'a1 list -> bool

val forallb : ('a1 -> bool) -> 'a1 list -> bool

val firstn : nat -> 'a1 list -> 'a1 list

val skipn : nat -> 'a1 list -> 'a1 list

val seq : nat -> nat -> nat list

val repeat : 'a1 -> nat -> 'a1 list

type positive =
| XI of positive
| XO of positive
| XH

type n =
| N0
| Npos of positive

type z =
| Z0
| Zpos of positive
| Zneg of positive

module Pos :
 sig
  type mask =
  | IsNul
  | IsPos of positive
  | IsNeg
 end

module Coq_Pos :
 sig
  val succ : positive -> positive

  val add : positive -> positive -> positive

  val add_carry : positive -> positive -> positive

  val pred_double : positive -> positive

  type mask = Pos.mask =
  | IsNul
  | IsPos of positive
  | IsNeg

  val succ_double_mask : mask -> mask

  val double_mask : mask -> mask

  val double_pred_mask : positive -> mask

  val sub_mask : positive -> positive -> mask

  val sub_mask_carry : positive -> positive -> mask

  val mul : positive -> positive -> positive

  val size : positive -> positive

  val compare_cont : comparison -> positive -> positive -> comparison

  val compare : positive -> positive -> comparison

  val eqb : positive -> positive -> bool

  val iter_op : ('a1 -> 'a1 -> 'a1) -> positive -> 'a1 -> 'a1

  val to_nat : positive -> nat

  val of_succ_nat : nat -> positive
 end

module N :
 sig
  val succ_double : n -> n

  val double : n -> n

  val add : n -> n -> n

  val sub : n -> n -> n

  val mul : n -> n -> n

  val compare : n -> n -> comparison

  val eqb : n -> n -> bool

  val leb : n -> n -> bool

  val ltb : n -> n -> bool

  val size : n -> n

  val pos_div_eucl : positive -> n -> n * n

  val div_eucl : n -> n -> n * n

  val div : n -> n -> n

  val modulo : n -> n -> n

  val to_nat : n -> nat

  val of_nat : nat -> n
 end

val to_N : byte -> n

val of_N : n -> byte option

module Z :
 sig
  val double : z -> z

  val succ_double : z -> z

  val pred_double : z -> z

  val pos_sub : positive -> positive -> z

  val add : z -> z -> z

  val opp : z -> z

  val sub : z -> z -> z

  val compare : z -> z -> comparison

  val leb : z -> z -> bool

  val to_N : z -> n

  val of_N : n -> z
 end

type bytes = byte list

val byte_of_N : n -> byte

val n_of_byte : byte -> n

type item =
| Null
| Scalar of bytes
| Lst of item list
| Map of (bytes * item) list

val byte_eqb : byte -> byte -> bool

val bytes_eqb : bytes -> bytes -> bool

val bytes_cmp : bytes -> bytes -> comparison

val map_get : (bytes * item) list -> bytes -> item

val map_set : (bytes * item) list -> bytes -> item -> (bytes * item) list

val get_at : item list -> nat -> item

val resize : item list -> nat -> item list

val set_at : item list -> nat -> item -> item list

val insert_at : item list -> nat -> item -> item list

val is_null : item -> bool

val prune : item -> item

val item_eqb : item -> item -> bool

val bN : byte -> n

val is_digit : byte -> bool

val is_alpha : byte -> bool

val is_alnum : byte -> bool

val is_space : byte -> bool

val slash : byte

val at_sign : byte

val drop_slashes : bytes -> bytes

val split_on_slash : bytes -> bytes -> bytes list

val split_path : bytes -> bytes list

val is_root_path : bytes -> bool

val path_keys : bytes -> bytes list

val is_list_ref : bytes -> bool

val starts_with : bytes -> bytes -> bool

val skip_spaces : bytes -> bytes

val digits_val : n -> bytes -> n

val two64 : n

val two32 : n

val strtoul10 : bytes -> n

type ref_base =
| BPlain
| BNext
| BBefore
| BAfter

type refspec = { rs_base : ref_base; rs_last : bool; rs_num : n }

val parse_ref : bytes -> refspec

val u32 : n -> n

val index_of : refspec -> n -> n

val inserts : refspec -> bool

val resolve_index : item list -> bytes -> nat

val will_insert : bytes -> bool

val traverse : item -> bytes list -> item

val is_empty : bytes -> bool

val write_ok : item -> bytes list -> bool

val write_at : item -> bytes list -> item -> item

val config_get : item -> bytes -> item

val config_set : item -> bytes -> item -> item option

val cstr : bytes -> bytes

val to_lower : byte -> byte

val s_true : bytes

val s_false : bytes

val get_bool : bytes -> bool option

val set_bool : bool -> bytes

val hex_val : byte -> n option

val hex_run : n -> bytes -> n * bytes

val int_min : z

val int_max : z

val to_int32 : n -> z

val get_int_hex : bytes -> z option

val has_digit : bytes -> bool

val stoi : bytes -> z option

val get_int : bytes -> z option

val dec_digits : nat -> n -> bytes -> bytes

val dec : n -> bytes

val set_int : z -> bytes

val value_at : item -> bytes -> bytes option

val cfg_get_string : item -> bytes -> bytes option

val cfg_get_int : item -> bytes -> z option

val cfg_get_bool : item -> bytes -> bool option

val cfg_list_size : item -> bytes -> nat

type store = item list

type op =
| OSetString of nat * bytes * bytes
| OSetInt of nat * bytes * z
| OSetBool of nat * bytes * bool
| OClear of nat * bytes
| OCreateList of nat * bytes
| OCreateMap of nat * bytes
| OGetString of nat * bytes
| OGetInt of nat * bytes
| OGetBool of nat * bytes
| OListSize of nat * bytes
| OGetItem of nat * bytes * nat
| OSetItem of nat * bytes * nat
| OIterList of nat * bytes
| OIterMap of nat * bytes

type obs =
| RBool of bool
| RString of bytes option
| RInt of z option
| RFlag of bool option
| RSize of nat
| RPaths of (bytes * bytes) list option

val root_of : store -> nat -> item

val set_root : store -> nat -> item -> store

val do_set : store -> nat -> bytes -> item -> store * obs

val iter_prefix : bytes -> bytes

val list_key : nat -> bytes

val api_step : store -> op -> store * obs

type octs = n list

val nums : bytes -> octs

val unnums : octs -> bytes

val lF : n

val sP : n

type style_req =
| ReqAuto
| ReqDoubleQuoted
| ReqLiteral

val plain_class : n -> bool

val is_break : n -> bool

val lit_char_ok : n -> bool

val ends_in_one_lf : octs -> bool

val literal_safe : octs -> bool

val three_dots : octs -> bool

val style_request_fixed : octs -> style_req

val style_request : octs -> style_req

type fmt =
| FPlain
| FDouble
| FLiteral

val is_null_word : octs -> bool

val compute_fmt : style_req -> bool -> octs -> fmt

val rEPL : n

val lead_len : n -> nat

val is_trail : n -> bool

val fix_cp : n -> n

val decode : octs -> n list

val encode : n -> octs

val hexdigit : n -> n

val esc_seq : n -> octs

val dq_cp : n -> octs

val dq_write : octs -> octs

val lit_body : nat -> bool -> n list -> octs

val lit_write : nat -> octs -> octs

val scalar_fmt : bool -> octs -> fmt

val scalar_bytes_f : fmt -> nat -> octs -> octs

val scalar_bytes : bool -> nat -> octs -> octs

val long_key : fmt -> octs -> bool

type out = n list

val col : out -> nat

val put : out -> octs -> out

val indent_to : out -> nat -> out

val space_or_indent : out -> bool -> nat -> out

type ckind =
| CInline
| CBSeq
| CBMap

val nl_if : bool -> out -> out

val prep_top : ckind -> out -> out

val prep_bseq : nat -> nat -> ckind -> out -> out

val prep_bmap_key : nat -> nat -> bool -> out -> out

val prep_bmap_val : nat -> bool -> ckind -> out -> out

val prep_fseq : nat -> nat -> ckind -> out -> out

val prep_fmap_key : nat -> nat -> bool -> out -> out

val prep_fmap_val : nat -> ckind -> out -> out

val is_nullb : item -> bool

val emit_node :
  nat -> nat -> nat -> (ckind -> out -> out) -> item -> out -> out

val emit_octs : item -> octs

val emit_doc : item -> bytes

val span_plain : octs -> octs * octs

val hex_of : n -> n option

val parse_hex : nat -> n -> octs -> (n * octs) option

val esc_encode : n -> octs option

val esc_hex : nat -> octs -> (octs * octs) option

val unescape : n -> octs -> (octs * octs) option

val dq_scan : nat -> octs -> octs -> (octs * octs) option

val lit_scan :
  octs -> nat -> bool -> bool -> bool -> nat -> octs -> ((octs * octs) * nat)
  option

val drop_lfs : octs -> octs

val clip : octs -> octs

val lit_load : octs -> nat -> ((octs * octs) * nat) option

val skip_sp : octs -> nat -> octs * nat

val next_line : octs -> nat -> bool -> (octs * nat) option

val to_ls : octs -> nat -> (octs * nat) option

val starts_blank_or_end : octs -> bool

val build_map : (bytes * item) list -> item

val flow_scalar : octs -> nat -> ((octs * octs) * nat) option

val flow_node : nat -> octs -> nat -> ((item * octs) * nat) option

val flow_seq_items :
  nat -> octs -> nat -> item list -> ((item * octs) * nat) option

val flow_map_items :
  nat -> octs -> nat -> (bytes * item) list -> ((item * octs) * nat) option

val key_scalar : octs -> nat -> ((octs * octs) * nat) option

val is_value_mark : octs -> bool

val is_seq_mark : octs -> bool

val is_longkey_mark : octs -> bool

val block_node :
  nat -> octs -> nat -> nat -> bool -> ((item * octs) * nat) option

val block_seq :
  nat -> octs -> nat -> nat -> item list -> ((item * octs) * nat) option

val block_map :
  nat -> octs -> nat -> nat -> (bytes * item) list -> ((item * octs) * nat)
  option

val load_octs : octs -> item option

val load_doc : bytes -> item option
