(** C18 – the [config_*] functions of src/rime_api_impl.h over a small store of
    [RimeConfig] objects (each a [Config] owning a root item).  One [op] is one
    API call; [api_step] gives the new store and what the call reports.

    Model file: definitions only. *)
From Coq Require Import List NArith ZArith Bool.
From Coq.Strings Require Import Byte.
From RimeV Require Import Base.Bytes Cfg.Tree Cfg.Path Cfg.Typed.
Import ListNotations.

Definition store := list item.

Inductive op :=
| OSetString (c : nat) (p v : bytes)
| OSetInt (c : nat) (p : bytes) (z : Z)
| OSetBool (c : nat) (p : bytes) (b : bool)
| OClear (c : nat) (p : bytes)
| OCreateList (c : nat) (p : bytes)
| OCreateMap (c : nat) (p : bytes)
| OGetString (c : nat) (p : bytes)
| OGetInt (c : nat) (p : bytes)
| OGetBool (c : nat) (p : bytes)
| OListSize (c : nat) (p : bytes)
| OGetItem (c : nat) (p : bytes) (dst : nat)
| OSetItem (c : nat) (p : bytes) (src : nat)
| OIterList (c : nat) (p : bytes)
| OIterMap (c : nat) (p : bytes).

Inductive obs :=
| RBool (b : bool)
| RString (o : option bytes)
| RInt (o : option Z)
| RFlag (o : option bool)
| RSize (n : nat)
| RPaths (o : option (list (bytes * bytes))).

Definition root_of (st : store) (c : nat) : item := nth c st Null.

Fixpoint set_root (st : store) (c : nat) (t : item) : store :=
  match st, c with
  | [], _ => []
  | _ :: r, O => t :: r
  | x :: r, S c' => x :: set_root r c' t
  end.

Definition do_set (st : store) (c : nat) (p : bytes) (v : item) : store * obs :=
  match config_set (root_of st c) p v with
  | Some t => (set_root st c t, RBool true)
  | None => (st, RBool false)
  end.

(** [RimeConfigIteratorImpl]: prefix is empty for "" and "/", else path + "/" *)
Definition iter_prefix (p : bytes) : bytes := if is_root_path p then [] else p ++ [slash].

Definition list_key (i : nat) : bytes := at_sign :: dec (N.of_nat i).

Definition api_step (st : store) (o : op) : store * obs :=
  match o with
  | OSetString c p v => do_set st c p (Scalar v)
  | OSetInt c p z => do_set st c p (Scalar (set_int z))
  | OSetBool c p b => do_set st c p (Scalar (set_bool b))
  | OClear c p => do_set st c p Null
  | OCreateList c p => do_set st c p (Lst [])
  | OCreateMap c p => do_set st c p (Map [])
  | OGetString c p => (st, RString (cfg_get_string (root_of st c) p))
  | OGetInt c p => (st, RInt (cfg_get_int (root_of st c) p))
  | OGetBool c p => (st, RFlag (cfg_get_bool (root_of st c) p))
  | OListSize c p => (st, RSize (cfg_list_size (root_of st c) p))
  | OGetItem c p dst => (set_root st dst (config_get (root_of st c) p), RBool true)
  | OSetItem c p src => do_set st c p (root_of st src)
  | OIterList c p =>
      match config_get (root_of st c) p with
      | Lst l => (st, RPaths (Some (map (fun i => (list_key i, iter_prefix p ++ list_key i)) (seq 0 (length l)))))
      | _ => (st, RPaths None)
      end
  | OIterMap c p =>
      match config_get (root_of st c) p with
      | Map m => (st, RPaths (Some (map (fun kv => (fst kv, iter_prefix p ++ fst kv)) m)))
      | _ => (st, RPaths None)
      end
  end.

Definition run_history (st : store) (ops : list op) : store := fold_left (fun s o => fst (api_step s o)) ops st.
