(** C18 – proofs about typed access: [GetX (SetX v) = v], and conversions
    between types that succeed as documented or fail. *)
From Coq Require Import List NArith ZArith Bool Arith Lia.
From Coq.Strings Require Import Byte.
From RimeV Require Import Base.Bytes Cfg.Tree Cfg.Path Cfg.PathProofs Cfg.Typed.
Import ListNotations.
Local Open Scope N_scope.

Lemma bN_byte_of_N n : n < 256 -> bN (byte_of_N n) = n.
Proof.
  intros H. unfold bN, byte_of_N. destruct (Byte.of_N n) eqn:E.
  - now apply Byte.to_of_N.
  - apply Byte.of_N_None_iff in E. lia.
Qed.

(** * decimal text *)
Definition dstep (a : N) (d : byte) : N := a * 10 + (bN d - 48).
Definition dval (ds : bytes) (a : N) : N := fold_left dstep ds a.

Lemma digits_val_app ds r a :
  Forall (fun d => is_digit d = true) ds -> digits_val a (ds ++ r) = digits_val (dval ds a) r.
Proof.
  revert a. induction ds as [|d ds IH]; intros a F; [reflexivity|].
  inversion F as [|? ? D F']; subst. cbn [app digits_val]. rewrite D. unfold dval. cbn [fold_left]. apply IH, F'.
Qed.

Lemma digits_val_stop a r : has_digit r = false -> digits_val a r = a.
Proof. destruct r as [|c r]; [reflexivity|]. cbn. now intros ->. Qed.

Lemma digit_char d : d < 10 -> is_digit (byte_of_N (48 + d)) = true /\ bN (byte_of_N (48 + d)) - 48 = d.
Proof.
  intros H. unfold is_digit. rewrite bN_byte_of_N by lia. split; [|lia].
  apply andb_true_iff. split; apply N.leb_le; lia.
Qed.

Lemma dec_digits_app f : forall n acc, dec_digits f n acc = dec_digits f n [] ++ acc.
Proof.
  induction f as [|f IH]; intros n acc; cbn [dec_digits]; [reflexivity|].
  destruct (N.eqb (n / 10) 0); [reflexivity|].
  rewrite IH. rewrite (IH _ [_]). now rewrite <- app_assoc.
Qed.

Lemma dec_digits_S f n acc :
  dec_digits (S f) n acc =
  if N.eqb (n / 10) 0 then byte_of_N (48 + n mod 10) :: acc else dec_digits f (n / 10) (byte_of_N (48 + n mod 10) :: acc).
Proof. reflexivity. Qed.

Lemma dec_digits_spec f : forall n, n < 2 ^ N.of_nat f ->
  Forall (fun d => is_digit d = true) (dec_digits (S f) n []) /\ dval (dec_digits (S f) n []) 0 = n /\
  dec_digits (S f) n [] <> [].
Proof.
  induction f as [|f IH]; intros n H.
  - cbn in H. assert (n = 0) by lia. subst n. cbn. repeat split; [repeat constructor|discriminate].
  - rewrite (dec_digits_S (S f)). assert (n mod 10 < 10) as D by (apply N.mod_lt; lia).
    destruct (digit_char _ D) as [D1 D2].
    destruct (N.eqb (n / 10) 0) eqn:Q.
    + apply N.eqb_eq in Q. repeat split; [repeat constructor; exact D1| |discriminate].
      unfold dval. cbn [fold_left]. unfold dstep. rewrite D2.
      pose proof (N.div_mod n 10). lia.
    + assert (n / 10 < 2 ^ N.of_nat f) as H'.
      { rewrite Nat2N.inj_succ, N.pow_succ_r' in H. apply N.div_lt_upper_bound; lia. }
      destruct (IH _ H') as (F & V & NE). rewrite dec_digits_app. repeat split.
      * apply Forall_app. split; [exact F|repeat constructor; exact D1].
      * unfold dval in *. rewrite fold_left_app, V. cbn [fold_left]. unfold dstep. rewrite D2.
        pose proof (N.div_mod n 10). lia.
      * destruct (dec_digits (S f) (n / 10) []); [congruence|discriminate].
Qed.

Lemma dec_spec n :
  Forall (fun d => is_digit d = true) (dec n) /\ dval (dec n) 0 = n /\ dec n <> [].
Proof.
  unfold dec. apply dec_digits_spec. rewrite N2Nat.id. apply N.size_gt.
Qed.

(** [strtoul]/[stoi] read back what [to_string] wrote *)
Lemma digits_val_dec n r : has_digit r = false -> digits_val 0 (dec n ++ r) = n.
Proof.
  intros H. destruct (dec_spec n) as (F & V & _). rewrite digits_val_app by exact F. now rewrite digits_val_stop, V.
Qed.

Lemma is_digit_not_space d : is_digit d = true -> is_space d = false.
Proof.
  unfold is_digit, is_space. intros H. apply andb_true_iff in H. destruct H as [A B].
  apply N.leb_le in A. apply N.leb_le in B.
  apply orb_false_iff. split; [apply N.eqb_neq; lia|].
  apply andb_false_iff. right. apply N.leb_gt. lia.
Qed.

Lemma is_digit_not_sign d : is_digit d = true -> byte_eqb d "-"%byte = false /\ byte_eqb d "+"%byte = false.
Proof.
  unfold is_digit, byte_eqb. intros H. apply andb_true_iff in H. destruct H as [A B].
  apply N.leb_le in A. apply N.leb_le in B. change (Byte.to_N d) with (bN d).
  split; apply N.eqb_neq; cbn; lia.
Qed.

Lemma strtoul10_dec n r : n < two64 -> has_digit r = false -> strtoul10 (dec n ++ r) = n.
Proof.
  intros H R. destruct (dec_spec n) as (F & _ & NE). unfold strtoul10.
  destruct (dec n) as [|d ds] eqn:E; [congruence|]. inversion F as [|? ? D F']; subst.
  cbn [app skip_spaces]. rewrite (is_digit_not_space _ D).
  destruct (is_digit_not_sign _ D) as [S1 S2]. rewrite S1, S2.
  change (d :: ds ++ r) with ((d :: ds) ++ r). rewrite <- E, digits_val_dec by exact R.
  replace (N.leb two64 n) with false by (symmetry; apply N.leb_gt; exact H). reflexivity.
Qed.

(** * bool *)
Theorem get_set_bool b : get_bool (set_bool b) = Some b.
Proof. destruct b; reflexivity. Qed.

(** * int *)
Lemma cstr_no_nul s : Forall (fun b => bN b <> 0) s -> cstr s = s.
Proof.
  induction s as [|c s IH]; intros F; [reflexivity|]. inversion F; subst. cbn [cstr].
  replace (N.eqb (bN c) 0) with false by (symmetry; now apply N.eqb_neq). now rewrite IH.
Qed.

Lemma digits_no_nul ds : Forall (fun d => is_digit d = true) ds -> Forall (fun b => bN b <> 0) ds.
Proof.
  intros F. eapply Forall_impl; [|exact F]. cbn. intros d D. unfold is_digit in D.
  apply andb_true_iff in D. destruct D as [A _]. apply N.leb_le in A. lia.
Qed.

Lemma stoi_dec_pos n : (Z.of_N n <= int_max)%Z -> stoi (dec n) = Some (Z.of_N n).
Proof.
  intros H. destruct (dec_spec n) as (F & _ & NE). unfold stoi.
  destruct (dec n) as [|d ds] eqn:E; [congruence|]. inversion F as [|? ? D F']; subst.
  cbn [skip_spaces]. rewrite (is_digit_not_space _ D).
  destruct (is_digit_not_sign _ D) as [S1 S2]. rewrite S1, S2. cbn [has_digit]. rewrite D.
  rewrite <- E. rewrite <- (app_nil_r (dec n)), digits_val_dec by reflexivity.
  replace (Z.leb int_min (Z.of_N n) && Z.leb (Z.of_N n) int_max)%bool with true; [reflexivity|].
  symmetry. apply andb_true_iff. split; apply Z.leb_le; unfold int_min in *; lia.
Qed.

Lemma stoi_dec_neg p : (int_min <= Zneg p)%Z -> stoi ("-"%byte :: dec (Npos p)) = Some (Zneg p).
Proof.
  intros H. destruct (dec_spec (Npos p)) as (F & _ & NE). unfold stoi.
  cbn [skip_spaces]. change (is_space "-"%byte) with false. cbv iota.
  change (byte_eqb "-"%byte "-"%byte) with true. cbv iota.
  destruct (dec (Npos p)) as [|d ds] eqn:E; [congruence|]. inversion F as [|? ? D F']; subst.
  cbn [has_digit]. rewrite D. rewrite <- E. rewrite <- (app_nil_r (dec (Npos p))), digits_val_dec by reflexivity.
  replace (Z.leb int_min (- Z.of_N (Npos p)) && Z.leb (- Z.of_N (Npos p)) int_max)%bool with true; [reflexivity|].
  symmetry. apply andb_true_iff. split; apply Z.leb_le; unfold int_max, int_min in *; cbn; lia.
Qed.

Lemma dec_not_hex n : starts_with ["0"; "x"]%byte (dec n) = false.
Proof.
  destruct (dec_spec n) as (F & _ & _). destruct (dec n) as [|a [|b r]]; [reflexivity|cbn; now rewrite andb_false_r|].
  inversion F as [|? ? _ F']; subst. inversion F' as [|? ? D _]; subst.
  cbn [starts_with]. replace (byte_eqb "x"%byte b) with false; [now rewrite andb_false_r|].
  symmetry. unfold is_digit in D. apply andb_true_iff in D. destruct D as [_ B]. apply N.leb_le in B.
  unfold byte_eqb. apply N.eqb_neq. change (Byte.to_N b) with (bN b). cbn. lia.
Qed.

Theorem get_set_int z : (int_min <= z <= int_max)%Z -> get_int (set_int z) = Some z.
Proof.
  intros [L U]. unfold get_int, set_int. destruct z as [|p|p].
  - reflexivity.
  - destruct (dec_spec (Z.to_N (Zpos p))) as (F & _ & NE).
    destruct (dec (Z.to_N (Zpos p))) as [|d ds] eqn:E; [congruence|]. rewrite <- E.
    rewrite dec_not_hex. rewrite cstr_no_nul by (apply digits_no_nul; rewrite E; exact F).
    rewrite stoi_dec_pos; [f_equal; cbn; lia|]. cbn. exact U.
  - destruct (dec_spec (Npos p)) as (F & _ & NE).
    cbn [starts_with]. change (byte_eqb "0"%byte "-"%byte) with false. cbn [andb].
    rewrite cstr_no_nul.
    + now apply stoi_dec_neg.
    + constructor; [cbn; lia|]. now apply digits_no_nul.
Qed.

(** * conversions between types *)
(** an int is never read as a bool, a bool never as an int *)
Lemma to_lower_digit d : is_digit d = true -> to_lower d = d.
Proof.
  unfold is_digit, to_lower. intros H. apply andb_true_iff in H. destruct H as [A B].
  apply N.leb_le in A. apply N.leb_le in B.
  replace (N.leb 65 (bN d)) with false by (symmetry; apply N.leb_gt; lia). reflexivity.
Qed.

Theorem get_bool_of_int z : get_bool (set_int z) = None.
Proof.
  assert (forall n, get_bool (dec n) = None) as P.
  { intros n. destruct (dec_spec n) as (F & _ & NE). destruct (dec n) as [|d ds]; [congruence|].
    inversion F as [|? ? D _]; subst. unfold get_bool. cbn [map]. rewrite (to_lower_digit _ D).
    unfold is_digit in D. apply andb_true_iff in D. destruct D as [A B]. apply N.leb_le in A. apply N.leb_le in B.
    cbn [bytes_eqb s_true s_false].
    replace (byte_eqb d "t"%byte) with false by (symmetry; unfold byte_eqb; apply N.eqb_neq; change (Byte.to_N d) with (bN d); cbn; lia).
    replace (byte_eqb d "f"%byte) with false by (symmetry; unfold byte_eqb; apply N.eqb_neq; change (Byte.to_N d) with (bN d); cbn; lia).
    reflexivity. }
  unfold set_int. destruct z; try apply P. reflexivity.
Qed.

Theorem get_int_of_bool b : get_int (set_bool b) = None.
Proof. destruct b; reflexivity. Qed.

(** a string is read as the int it spells, e.g. hexadecimal *)
Example get_int_hex_text : get_int ["0"; "x"; "1"; "F"]%byte = Some 31%Z.
Proof. reflexivity. Qed.
Example get_int_hex_wraps : get_int ["0"; "x"; "F"; "F"; "F"; "F"; "F"; "F"; "F"; "F"]%byte = Some (-1)%Z.
Proof. reflexivity. Qed.
Example get_int_trailing_junk : get_int [" "; "4"; "2"; "a"; "b"; "c"]%byte = Some 42%Z.
Proof. reflexivity. Qed.
Example get_int_out_of_range : get_int ["2"; "1"; "4"; "7"; "4"; "8"; "3"; "6"; "4"; "8"]%byte = None.
Proof. reflexivity. Qed.
Example get_int_not_a_number : get_int ["t"; "r"; "u"; "e"]%byte = None.
Proof. reflexivity. Qed.
Example get_bool_case_insensitive : get_bool ["T"; "r"; "U"; "e"]%byte = Some true.
Proof. reflexivity. Qed.
