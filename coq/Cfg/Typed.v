(** C18 – typed access: [ConfigValue::{GetBool,GetInt,GetString,SetBool,SetInt,
    SetString}] of src/rime/config/config_types.cc and the [Config::Get*/Set*]
    wrappers of config_component.cc.

    Integers are C [int]s, modelled as [Z] in [-2^31, 2^31).  [GetInt] is
    [strtoul(.., 16)] for texts that start with "0x" and are hexadecimal to the
    end of the C string, otherwise [std::stoi]: white space, optional sign,
    decimal digits, anything after the digits ignored, failure when there is no
    digit or the value does not fit an [int].  Both work on [c_str()], i.e. on
    the text up to the first NUL byte.

    Doubles ([std::to_string(double)] = "%f", [std::stod]) are NOT modelled:
    [config_set_double/config_get_double] are covered by the correspondence
    harness only (stated gap).

    Model file: definitions only. *)
From Coq Require Import List NArith ZArith Bool.
From Coq.Strings Require Import Byte.
From RimeV Require Import Base.Bytes Cfg.Tree Cfg.Path.
Import ListNotations.
Local Open Scope N_scope.

(** the C string seen through [c_str()] *)
Fixpoint cstr (s : bytes) : bytes :=
  match s with
  | c :: r => if N.eqb (bN c) 0 then [] else c :: cstr r
  | [] => []
  end.

(** [boost::to_lower] in the "C" locale *)
Definition to_lower (b : byte) : byte :=
  if (N.leb 65 (bN b) && N.leb (bN b) 90)%bool then byte_of_N (bN b + 32) else b.

Definition s_true : bytes := ["t"; "r"; "u"; "e"]%byte.
Definition s_false : bytes := ["f"; "a"; "l"; "s"; "e"]%byte.

Definition get_bool (s : bytes) : option bool :=
  match s with
  | [] => None
  | _ =>
      let l := map to_lower s in
      if bytes_eqb l s_true then Some true
      else if bytes_eqb l s_false then Some false
      else None
  end.

Definition set_bool (b : bool) : bytes := if b then s_true else s_false.

(** hexadecimal digit value *)
Definition hex_val (b : byte) : option N :=
  let n := bN b in
  if (N.leb 48 n && N.leb n 57)%bool then Some (n - 48)
  else if (N.leb 65 n && N.leb n 70)%bool then Some (n - 55)
  else if (N.leb 97 n && N.leb n 102)%bool then Some (n - 87)
  else None.

(** value of a run of hex digits and what follows it *)
Fixpoint hex_run (acc : N) (l : bytes) : N * bytes :=
  match l with
  | c :: r => match hex_val c with Some d => hex_run (acc * 16 + d) r | None => (acc, l) end
  | [] => (acc, [])
  end.

Definition int_min : Z := (-2147483648)%Z.
Definition int_max : Z := 2147483647%Z.

(** [static_cast<int>(unsigned int)] *)
Definition to_int32 (n : N) : Z :=
  let m := n mod two32 in
  if N.ltb m 2147483648 then Z.of_N m else (Z.of_N m - 4294967296)%Z.

(** the "0x" branch of [GetInt]: [Some] when [strtoul(s, &p, 16)] stops at the
    end of the C string *)
Definition get_int_hex (c : bytes) : option Z :=
  match c with
  | z :: x :: r =>
      if (byte_eqb z "0"%byte && byte_eqb x "x"%byte)%bool then
        match r with
        | d :: _ =>
            match hex_val d with
            | Some _ =>
                let '(v, rest) := hex_run 0 r in
                match rest with
                | [] => Some (to_int32 (if N.leb two64 v then two64 - 1 else v))
                | _ => None
                end
            | None => None  (* strtoul converts the "0" only and stops at 'x' *)
            end
        | [] => None
        end
      else None
  | _ => None
  end.

(** [std::stoi] on the C string *)
Definition has_digit (l : bytes) : bool :=
  match l with c :: _ => is_digit c | [] => false end.

Definition stoi (c : bytes) : option Z :=
  let l1 := skip_spaces c in
  let '(neg, l2) :=
    match l1 with
    | ch :: r => if byte_eqb ch "-"%byte then (true, r) else if byte_eqb ch "+"%byte then (false, r) else (false, l1)
    | [] => (false, l1)
    end in
  if has_digit l2 then
    let v := Z.of_N (digits_val 0 l2) in
    let z := if neg then (- v)%Z else v in
    if (Z.leb int_min z && Z.leb z int_max)%bool then Some z else None
  else None.

Definition get_int (s : bytes) : option Z :=
  match s with
  | [] => None
  | _ =>
      let c := cstr s in
      match (if starts_with ["0"; "x"]%byte s then get_int_hex c else None) with
      | Some z => Some z
      | None => stoi c
      end
  end.

(** [std::to_string(int)] *)
Fixpoint dec_digits (fuel : nat) (n : N) (acc : bytes) : bytes :=
  match fuel with
  | O => acc
  | S f =>
      let d := byte_of_N (48 + n mod 10) in
      let q := n / 10 in
      if N.eqb q 0 then d :: acc else dec_digits f q (d :: acc)
  end.

Definition dec (n : N) : bytes := dec_digits (S (N.to_nat (N.size n))) n [].

Definition set_int (z : Z) : bytes :=
  match z with
  | Zneg p => "-"%byte :: dec (Npos p)
  | _ => dec (Z.to_N z)
  end.

(** ** Config::Get* / Set* on a tree *)
Definition value_at (root : item) (path : bytes) : option bytes :=
  match config_get root path with Scalar s => Some s | _ => None end.

Definition cfg_get_string (root : item) (path : bytes) : option bytes := value_at root path.

Definition cfg_get_int (root : item) (path : bytes) : option Z :=
  match value_at root path with Some s => get_int s | None => None end.

Definition cfg_get_bool (root : item) (path : bytes) : option bool :=
  match value_at root path with Some s => get_bool s | None => None end.

Definition cfg_set_string (root : item) (path v : bytes) : option item := config_set root path (Scalar v).
Definition cfg_set_int (root : item) (path : bytes) (z : Z) : option item := config_set root path (Scalar (set_int z)).
Definition cfg_set_bool (root : item) (path : bytes) (b : bool) : option item := config_set root path (Scalar (set_bool b)).

Definition cfg_list_size (root : item) (path : bytes) : nat :=
  match config_get root path with Lst l => length l | _ => O end.
