(** C18 – proofs about the scalar codec: every scalar of the property's domain
    is read back from what [EmitScalar] + yaml-cpp write for it, in block and in
    flow context; the code before the repair is refuted. *)
From Coq Require Import List NArith Bool Arith Lia ZArith ZifyBool ZifyNat ZifyN.
From RimeV Require Import Base.Bytes Cfg.Tree Cfg.Yaml.
Import ListNotations.
Local Open Scope N_scope.
Ltac Zify.zify_post_hook ::= Z.div_mod_to_equations.

(* ------------------------------------------------------------------ *)
(** * the domain *)

(** a Unicode scalar value that is not a noncharacter *)
Definition ok_cp (cp : N) : bool :=
  (cp <=? 1114111) && negb ((55296 <=? cp) && (cp <=? 57343))
  && negb ((cp mod 65536) / 2 =? 32767) && negb ((64976 <=? cp) && (cp <=? 65007)).

Definition utf8 (cps : list N) : octs := flat_map encode cps.

(** "multi-line text provided it ends in exactly one line break".  Line breaks
    are LF, CR LF and a lone CR.  A text with a line break is in the domain when
    it ends in LF, that LF optionally preceded by one CR (a final CR LF pair is
    ONE line break), and what precedes this final break does not itself end in
    LF or CR.  So "one" CR LF, "a" LF "b" CR LF, "a" CR "b" LF are in; a text
    whose last byte is a lone CR, or that has a break but no final one, or that
    ends in two breaks ("a" LF CR LF, "a" CR CR LF) is out. *)
Definition head_is_break (r : octs) : bool := match r with c :: _ => is_break c | [] => false end.

Definition ends_in_one_break (s : octs) : bool :=
  match rev s with
  | 10 :: 13 :: r => negb (head_is_break r)
  | 10 :: r => negb (head_is_break r)
  | _ => false
  end.

Definition multi_line_ok (s : octs) : Prop :=
  existsb is_break s = true -> ends_in_one_break s = true.

(** the text is the UTF-8 encoding of Unicode scalar values, none a noncharacter *)
Definition valid_text (s : octs) : Prop := exists cps, forallb ok_cp cps = true /\ s = utf8 cps.

Definition wf_scalar (s : octs) : Prop := valid_text s /\ multi_line_ok s.

Definition wf_ctx (c : sctx) : Prop :=
  match c with CtxBlock li minlit => (minlit <= li)%nat | CtxFlow => True end.

(* ------------------------------------------------------------------ *)
(** * UTF-8 *)

Lemma ok_cp_fix cp : ok_cp cp = true -> fix_cp cp = cp /\ cp <= 1114111 /\ ~ (55296 <= cp <= 57343).
Proof.
  unfold ok_cp, fix_cp. intros H.
  apply andb_true_iff in H. destruct H as [H H4]. apply andb_true_iff in H. destruct H as [H H3].
  apply andb_true_iff in H. destruct H as [H1 H2].
  apply N.leb_le in H1. apply negb_true_iff in H2, H3, H4.
  replace (1114111 <? cp) with false by (symmetry; apply N.ltb_ge; exact H1).
  rewrite H2, H3, H4. repeat split; [exact H1|].
  intros [A B]. apply N.leb_le in A. apply N.leb_le in B. rewrite A, B in H2. discriminate.
Qed.

Lemma lead1 b : b < 128 -> lead_len b = 1%nat.
Proof. intros H. unfold lead_len. replace (b / 16 <? 8) with true; [reflexivity|]. symmetry. apply N.ltb_lt. lia. Qed.

Lemma lead2 b : 192 <= b < 224 -> lead_len b = 2%nat.
Proof.
  intros H. unfold lead_len. replace (b / 16 <? 8) with false by (symmetry; apply N.ltb_ge; lia).
  assert (b / 16 = 12 \/ b / 16 = 13) as [-> | ->] by lia; reflexivity.
Qed.

Lemma lead3 b : 224 <= b < 240 -> lead_len b = 3%nat.
Proof. intros H. unfold lead_len. assert (b / 16 = 14) as -> by lia. reflexivity. Qed.

Lemma lead4 b : 240 <= b < 256 -> lead_len b = 4%nat.
Proof. intros H. unfold lead_len. assert (b / 16 = 15) as -> by lia. reflexivity. Qed.

Lemma trail_ok x : x < 64 -> is_trail (128 + x) = true.
Proof. intros H. unfold is_trail. apply andb_true_iff. split; [apply N.leb_le|apply N.ltb_lt]; lia. Qed.

(** the four shapes of [encode] *)
Lemma encode_cases cp : cp <= 1114111 ->
  (cp <= 127 /\ encode cp = [cp]) \/
  (127 < cp <= 2047 /\ encode cp = [192 + cp / 64; 128 + cp mod 64]) \/
  (2047 < cp <= 65535 /\ encode cp = [224 + cp / 4096; 128 + (cp / 64) mod 64; 128 + cp mod 64]) \/
  (65535 < cp /\ encode cp = [240 + cp / 262144; 128 + (cp / 4096) mod 64; 128 + (cp / 64) mod 64; 128 + cp mod 64]).
Proof.
  intros H. unfold encode. replace (1114111 <? cp) with false by (symmetry; apply N.ltb_ge; exact H).
  destruct (N.leb_spec cp 127); [left; split; [lia|reflexivity]|].
  destruct (N.leb_spec cp 2047); [right; left; split; [lia|reflexivity]|].
  destruct (N.leb_spec cp 65535); [right; right; left; split; [lia|reflexivity]|].
  right; right; right. split; [lia|reflexivity].
Qed.

Lemma decode_encode cp r : ok_cp cp = true -> decode (encode cp ++ r) = cp :: decode r.
Proof.
  intros OK. destruct (ok_cp_fix _ OK) as (FX & LE & NS).
  destruct (encode_cases cp LE) as [[R ->] | [[R ->] | [[R ->] | [R ->]]]]; cbn [app decode].
  - now rewrite lead1 by lia.
  - rewrite lead2 by lia. rewrite trail_ok by (apply N.mod_lt; lia).
    replace ((192 + cp / 64) mod 32 * 64 + (128 + cp mod 64) mod 64) with cp by lia. now rewrite FX.
  - rewrite lead3 by lia. rewrite !trail_ok by (apply N.mod_lt; lia).
    replace (((224 + cp / 4096) mod 16 * 64 + (128 + cp / 64 mod 64) mod 64) * 64 + (128 + cp mod 64) mod 64) with cp by lia.
    now rewrite FX.
  - rewrite lead4 by lia. rewrite !trail_ok by (apply N.mod_lt; lia).
    replace ((((240 + cp / 262144) mod 8 * 64 + (128 + cp / 4096 mod 64) mod 64) * 64 + (128 + cp / 64 mod 64) mod 64) * 64
             + (128 + cp mod 64) mod 64) with cp by lia.
    now rewrite FX.
Qed.

Lemma decode_utf8 cps : forallb ok_cp cps = true -> decode (utf8 cps) = cps.
Proof.
  induction cps as [|cp cps IH]; intros H; [reflexivity|].
  cbn [forallb] in H. apply andb_true_iff in H. destruct H as [H1 H2].
  unfold utf8. cbn [flat_map]. rewrite decode_encode by exact H1. f_equal. now apply IH.
Qed.

(** bytes of the encoding of a code point above 127 are all above 127 *)
Lemma encode_high cp : cp <= 1114111 -> 127 < cp -> Forall (fun b => 128 <= b) (encode cp).
Proof.
  intros LE H. destruct (encode_cases cp LE) as [[R ->] | [[R ->] | [[R ->] | [R ->]]]]; [lia| | |];
    repeat constructor; lia.
Qed.

(* ------------------------------------------------------------------ *)
(** * plain words *)
Lemma span_plain_all s : forallb plain_class s = true -> span_plain s = (s, []).
Proof.
  induction s as [|c s IH]; intros H; [reflexivity|].
  cbn [forallb] in H. apply andb_true_iff in H. destruct H as [H1 H2].
  cbn [span_plain]. rewrite H1, IH by exact H2. reflexivity.
Qed.

(* ------------------------------------------------------------------ *)
(** * double-quoted scalars *)
Lemma hex_of_hexdigit d : d < 16 -> hex_of (hexdigit d) = Some d.
Proof.
  intros H. unfold hexdigit, hex_of. destruct (N.ltb_spec d 10).
  - replace ((48 <=? 48 + d) && (48 + d <=? 57)) with true; [f_equal; lia|].
    symmetry. apply andb_true_iff. split; apply N.leb_le; lia.
  - replace ((48 <=? 87 + d) && (87 + d <=? 57)) with false by (symmetry; apply andb_false_iff; right; apply N.leb_gt; lia).
    replace ((65 <=? 87 + d) && (87 + d <=? 70)) with false by (symmetry; apply andb_false_iff; right; apply N.leb_gt; lia).
    replace ((97 <=? 87 + d) && (87 + d <=? 102)) with true; [f_equal; lia|].
    symmetry. apply andb_true_iff. split; apply N.leb_le; lia.
Qed.

Lemma esc_encode_eq v : v <= 1114111 -> ~ (55296 <= v <= 57343) -> esc_encode v = Some (encode v).
Proof.
  intros LE NS. unfold esc_encode, encode.
  replace (1114111 <? v) with false by (symmetry; apply N.ltb_ge; exact LE).
  replace ((55296 <=? v) && (v <=? 57343)) with false
    by (symmetry; apply andb_false_iff; destruct (N.leb_spec 55296 v); [right; apply N.leb_gt; lia|now left]).
  cbn [orb]. destruct (v <=? 127); [reflexivity|]. destruct (v <=? 2047); [reflexivity|]. destruct (v <=? 65535); reflexivity.
Qed.

(** the "\xHH" escape is read back *)
Lemma esc_x_roundtrip cp r : cp < 255 ->
  unescape 120 (hexdigit (cp / 16 mod 16) :: hexdigit (cp mod 16) :: r) = Some (encode cp, r).
Proof.
  intros H. change (unescape 120 ?l) with (esc_hex 2 l). unfold esc_hex. cbn [parse_hex].
  rewrite !hex_of_hexdigit by (apply N.mod_lt; lia).
  replace ((0 * 16 + cp / 16 mod 16) * 16 + cp mod 16) with cp by lia.
  rewrite esc_encode_eq by lia. reflexivity.
Qed.

(** a byte the scanner copies verbatim *)
Definition raw_ok (b : N) : bool := negb (b =? 34) && negb (b =? 92) && negb (b =? 10) && negb (b =? 13) && negb (b =? 4).

Lemma dq_scan_raw bs : Forall (fun b => raw_ok b = true) bs ->
  forall fuel acc tail, (length bs <= fuel)%nat ->
  dq_scan fuel (bs ++ tail) acc = dq_scan (fuel - length bs) tail (rev_append bs acc).
Proof.
  induction 1 as [|b bs B F IH]; intros fuel acc tail L; cbn [length app rev_append].
  - now rewrite Nat.sub_0_r.
  - destruct fuel as [|f]; [cbn in L; lia|]. cbn [dq_scan].
    unfold raw_ok in B. repeat (apply andb_true_iff in B; destruct B as [B ?]).
    apply negb_true_iff in B. repeat match goal with H : negb _ = true |- _ => apply negb_true_iff in H end.
    rewrite B. replace (b =? 92) with false by congruence.
    replace ((b =? 10) || (b =? 13) || (b =? 4)) with false by (symmetry; repeat (apply orb_false_iff; split); assumption).
    cbn [length] in L. rewrite IH by lia. reflexivity.
Qed.

Lemma high_raw_ok b : 128 <= b -> raw_ok b = true.
Proof.
  intros H. unfold raw_ok.
  repeat (apply andb_true_iff; split); apply negb_true_iff; apply N.eqb_neq; lia.
Qed.

(** what the scanner does with the text written for one code point *)
Lemma dq_cp_scan cp : ok_cp cp = true ->
  forall fuel acc tail, (length (dq_cp cp) <= fuel)%nat ->
  exists fuel', (fuel - length (dq_cp cp) <= fuel')%nat /\
  dq_scan fuel (dq_cp cp ++ tail) acc = dq_scan fuel' tail (rev_append (encode cp) acc).
Proof.
  intros OK fuel acc tail L. destruct (ok_cp_fix _ OK) as (_ & LE & NS).
  unfold dq_cp in *. revert L.
  (* the seven two-character escapes *)
  assert (forall e x, dq_scan fuel ([92; e] ++ tail) acc = dq_scan (fuel - 1) tail (x :: acc) ->
                      (2 <= fuel)%nat -> encode cp = [x] ->
          exists fuel', (fuel - 2 <= fuel')%nat /\ dq_scan fuel ([92; e] ++ tail) acc = dq_scan fuel' tail (rev_append (encode cp) acc)) as TWO.
  { intros e x E L2 EN. exists (fuel - 1)%nat. split; [lia|]. rewrite E, EN. reflexivity. }
  assert (forall e x, (2 <= fuel)%nat -> unescape e tail = Some ([x], tail) ->
                      dq_scan fuel ([92; e] ++ tail) acc = dq_scan (fuel - 1) tail (x :: acc)) as STEP.
  { intros e x L2 U. destruct fuel as [|f]; [lia|]. cbn [app dq_scan]. change (92 =? 34) with false. change (92 =? 92) with true.
    cbv iota. rewrite U. cbn [rev_append]. replace (S f - 1)%nat with f by lia. reflexivity. }
  destruct (N.eqb_spec cp 34) as [->|N34]; [intros L; cbn [length] in L; apply (TWO 34 34); [apply STEP; [lia|reflexivity]|lia|reflexivity]|].
  destruct (N.eqb_spec cp 92) as [->|N92]; [intros L; cbn [length] in L; apply (TWO 92 92); [apply STEP; [lia|reflexivity]|lia|reflexivity]|].
  destruct (N.eqb_spec cp 10) as [->|N10]; [intros L; cbn [length] in L; apply (TWO 110 10); [apply STEP; [lia|reflexivity]|lia|reflexivity]|].
  destruct (N.eqb_spec cp 9) as [->|N9]; [intros L; cbn [length] in L; apply (TWO 116 9); [apply STEP; [lia|reflexivity]|lia|reflexivity]|].
  destruct (N.eqb_spec cp 13) as [->|N13]; [intros L; cbn [length] in L; apply (TWO 114 13); [apply STEP; [lia|reflexivity]|lia|reflexivity]|].
  destruct (N.eqb_spec cp 8) as [->|N8]; [intros L; cbn [length] in L; apply (TWO 98 8); [apply STEP; [lia|reflexivity]|lia|reflexivity]|].
  destruct (N.eqb_spec cp 12) as [->|N12]; [intros L; cbn [length] in L; apply (TWO 102 12); [apply STEP; [lia|reflexivity]|lia|reflexivity]|].
  destruct ((cp <? 32) || ((128 <=? cp) && (cp <=? 160))) eqn:C.
  - (* "\xHH" *) intros L.
    assert (cp < 255) as S.
    { apply orb_true_iff in C. destruct C as [C|C]; [apply N.ltb_lt in C; lia|].
      apply andb_true_iff in C. destruct C as [_ C]. apply N.leb_le in C. lia. }
    unfold esc_seq in *. replace (cp <? 255) with true in * by (symmetry; apply N.ltb_lt; exact S).
    cbn [length] in L. destruct fuel as [|f]; [lia|]. cbn [length]. exists f. split; [lia|].
    cbn [app dq_scan]. change (92 =? 34) with false. change (92 =? 92) with true. cbv iota.
    rewrite esc_x_roundtrip by exact S. reflexivity.
  - destruct (N.eqb_spec cp 65279) as [->|NB].
    + (* the byte order mark *) intros L.
      cbn [length esc_seq] in *. destruct fuel as [|f]; [cbn in L; lia|]. exists f. split; [cbn; lia|]. reflexivity.
    + (* written raw *) intros L.
      apply orb_false_iff in C. destruct C as [C1 C2]. apply N.ltb_ge in C1.
      assert (Forall (fun b => raw_ok b = true) (encode cp)) as RAW.
      { destruct (N.leb_spec cp 127) as [S|S].
        - destruct (encode_cases cp LE) as [[R ->] | [[R _] | [[R _] | [R _]]]]; try lia.
          constructor; [|constructor]. unfold raw_ok.
          repeat (apply andb_true_iff; split); apply negb_true_iff; apply N.eqb_neq; lia.
        - eapply Forall_impl; [|apply encode_high; [exact LE|lia]]. intros b. apply high_raw_ok. }
      exists (fuel - length (encode cp))%nat. split; [lia|]. now apply dq_scan_raw.
Qed.

Lemma dq_scan_cps cps : forallb ok_cp cps = true ->
  forall fuel acc rest, (length (flat_map dq_cp cps) < fuel)%nat ->
  dq_scan fuel (flat_map dq_cp cps ++ 34 :: rest) acc = Some (rev acc ++ utf8 cps, rest).
Proof.
  induction cps as [|cp cps IH]; intros OK fuel acc rest L.
  - cbn [flat_map app utf8] in *. destruct fuel as [|f]; [cbn in L; lia|]. cbn [dq_scan].
    change (34 =? 34) with true. cbv iota. now rewrite app_nil_r.
  - cbn [forallb] in OK. apply andb_true_iff in OK. destruct OK as [O1 O2].
    cbn [flat_map] in *. rewrite app_length in L. rewrite <- app_assoc.
    destruct (dq_cp_scan cp O1 fuel acc (flat_map dq_cp cps ++ 34 :: rest)) as (f' & Lf & E); [lia|].
    rewrite E, IH by (assumption || lia).
    unfold utf8. cbn [flat_map]. rewrite rev_append_rev, rev_app_distr, rev_involutive, <- app_assoc. reflexivity.
Qed.

Theorem dq_roundtrip cps rest : forallb ok_cp cps = true ->
  flow_scalar (dq_write (utf8 cps) ++ rest) 0%nat =
  Some (utf8 cps, rest, (0 + (length (dq_write (utf8 cps) ++ rest) - length rest))%nat).
Proof.
  intros OK. unfold dq_write. rewrite decode_utf8 by exact OK.
  cbn [app flow_scalar]. change (34 =? 34) with true. cbv iota.
  rewrite <- app_assoc. cbn [app].
  rewrite dq_scan_cps; [reflexivity|exact OK|]. rewrite !app_length. cbn [length]. lia.
Qed.

(* ------------------------------------------------------------------ *)
(** * literal block scalars *)

(** the literal writer, byte by byte *)
Fixpoint lit_bytes (li : nat) (bol : bool) (s : octs) : octs :=
  match s with
  | [] => []
  | b :: r =>
      if b =? 10 then 10 :: lit_bytes li true r
      else (if bol then repeat SP li else []) ++ b :: lit_bytes li false r
  end.

Lemma lit_bytes_no_lf li bs r : Forall (fun b => b <> 10) bs -> lit_bytes li false (bs ++ r) = bs ++ lit_bytes li false r.
Proof.
  induction 1 as [|b bs B F IH]; [reflexivity|]. cbn [app lit_bytes].
  replace (b =? 10) with false by (symmetry; now apply N.eqb_neq). cbn [app]. now rewrite IH.
Qed.

Lemma lit_body_bytes li cps : forallb ok_cp cps = true ->
  forall bol, lit_body li bol cps = lit_bytes li bol (utf8 cps).
Proof.
  induction cps as [|cp cps IH]; intros OK bol; [reflexivity|].
  cbn [forallb] in OK. apply andb_true_iff in OK. destruct OK as [O1 O2].
  destruct (ok_cp_fix _ O1) as (_ & LE & _).
  unfold utf8. cbn [flat_map lit_body]. fold (utf8 cps).
  destruct (N.eqb_spec cp 10) as [->|N10].
  - cbn [encode app lit_bytes]. change (10 =? 10) with true. cbv iota. cbn. f_equal. now apply IH.
  - assert (exists b bs, encode cp = b :: bs /\ b <> 10 /\ Forall (fun x => x <> 10) bs) as (b & bs & E & B & F).
    { destruct (N.leb_spec cp 127) as [S|S].
      - destruct (encode_cases cp LE) as [[R ->] | [[R _] | [[R _] | [R _]]]]; try lia. exists cp, []. repeat split; auto.
      - pose proof (encode_high cp LE S) as H. destruct (encode cp) as [|b bs] eqn:EE.
        + destruct (encode_cases cp LE) as [[R E] | [[R E] | [[R E] | [R E]]]]; rewrite EE in E; discriminate.
        + inversion H; subst. exists b, bs. repeat split; [lia|]. eapply Forall_impl; [|eassumption]. cbn. lia. }
    rewrite E. cbn [app lit_bytes]. replace (b =? 10) with false by (symmetry; now apply N.eqb_neq).
    rewrite lit_bytes_no_lf by exact F. rewrite IH by exact O2. reflexivity.
Qed.

(** scanning [k] spaces of indentation *)
Lemma lit_scan_spaces k : forall l indent detect past c acc,
  (detect = true \/ (c + k <= indent)%nat) ->
  lit_scan (repeat SP k ++ l) indent detect past true c acc = lit_scan l indent detect past true (c + k)%nat acc.
Proof.
  induction k as [|k IH]; intros l indent detect past c acc H; cbn [repeat app].
  - now rewrite Nat.add_0_r.
  - cbn [lit_scan]. change (SP =? 32) with true.
    replace ((c <? indent)%nat || detect) with true.
    + cbn [andb]. rewrite IH by (destruct H; [now left|right; lia]). f_equal. lia.
    + symmetry. destruct H as [->|H]; [apply orb_true_r|]. apply orb_true_iff. left. apply Nat.ltb_lt. lia.
Qed.

Definition lit_byte_ok (b : N) : Prop := b <> 13 /\ b <> 0 /\ b <> 4.

Lemma lit_char_ok_byte b : lit_char_ok b = true -> lit_byte_ok b.
Proof.
  unfold lit_char_ok, lit_byte_ok. intros H. apply orb_true_iff in H. destruct H as [H|H].
  - apply orb_true_iff in H. destruct H as [H|H]; [apply N.leb_le in H|apply N.eqb_eq in H]; lia.
  - apply N.eqb_eq in H. lia.
Qed.

Lemma bad_false b : lit_byte_ok b -> (b =? 13) || (b =? 0) || (b =? 4) = false.
Proof. intros (A & B & C). repeat (apply orb_false_iff; split); now apply N.eqb_neq. Qed.

(** the body of the block after its first byte: both scanner states *)
Lemma lit_scan_body li tail body : Forall lit_byte_ok body ->
  (forall c acc, lit_scan (lit_bytes li false (body ++ [10]) ++ tail) li false true false c acc
                 = lit_scan tail li false true true 0%nat (rev_append body acc)) /\
  (forall acc, lit_scan (lit_bytes li true (body ++ [10]) ++ tail) li false true true 0%nat acc
               = lit_scan tail li false true true 0%nat (rev_append body (10 :: acc))).
Proof.
  induction 1 as [|b body B F [IHm IHb]].
  - split; intros; cbn [app lit_bytes]; change (10 =? 10) with true; cbv iota; cbn [app lit_scan];
      change (10 =? 10) with true; change (10 =? 32) with false; change (10 =? 9) with false;
      change ((10 =? 13) || (10 =? 0) || (10 =? 4)) with false; cbn [andb]; reflexivity.
  - pose proof (bad_false _ B) as BF. split.
    + intros c acc. cbn [app lit_bytes]. destruct (N.eqb_spec b 10) as [->|N10].
      * cbn [app lit_scan]. change (10 =? 10) with true. cbv iota. rewrite IHb. reflexivity.
      * cbn [app lit_scan]. replace (b =? 10) with false by (symmetry; now apply N.eqb_neq).
        rewrite BF. rewrite IHm. reflexivity.
    + intros acc. cbn [app lit_bytes]. destruct (N.eqb_spec b 10) as [->|N10].
      * cbn [app lit_scan]. change (10 =? 32) with false. change (10 =? 9) with false.
        change ((10 =? 13) || (10 =? 0) || (10 =? 4)) with false. change (10 =? 10) with true. cbn [andb]. cbv iota.
        rewrite IHb. reflexivity.
      * rewrite <- app_assoc. rewrite lit_scan_spaces by (right; lia). cbn [app lit_scan Nat.add].
        replace ((b =? 32) && ((li <? li)%nat || false)) with false
          by (rewrite Nat.ltb_irrefl; cbn; now rewrite andb_false_r).
        rewrite Nat.ltb_irrefl. rewrite andb_false_r. rewrite BF.
        replace (b =? 10) with false by (symmetry; now apply N.eqb_neq).
        rewrite IHm. reflexivity.
Qed.

Lemma drop_lfs_head x r : x <> 10 -> drop_lfs (x :: r) = x :: r.
Proof. intros H. cbn. now replace (x =? 10) with false by (symmetry; now apply N.eqb_neq). Qed.

(** a text that ends in exactly one LF: everything before it does not end in LF *)
Lemma ends_in_one_lf_inv s : ends_in_one_lf s = true ->
  exists p, s = p ++ [10] /\ (p = [] \/ exists p' x, p = p' ++ [x] /\ x <> 10).
Proof.
  induction s as [|a s IH]; [discriminate|].
  destruct s as [|b s].
  - cbn. intros H. apply N.eqb_eq in H. subst. exists []. split; [reflexivity|now left].
  - destruct s as [|c s].
    + cbn [ends_in_one_lf]. intros H. apply andb_true_iff in H. destruct H as [H1 H2].
      apply negb_true_iff, N.eqb_neq in H1. apply N.eqb_eq in H2. subst.
      exists [a]. split; [reflexivity|]. right. exists [], a. split; [reflexivity|exact H1].
    + intros H. change (ends_in_one_lf (b :: c :: s) = true) in H.
      destruct (IH H) as (p & E & P). exists (a :: p). split; [cbn; now rewrite E|].
      right. destruct P as [->|(p' & x & -> & X)]; [discriminate E|].
      exists (a :: p'), x. split; [reflexivity|exact X].
Qed.

Theorem lit_roundtrip li minlit cps :
  (minlit <= li)%nat -> forallb ok_cp cps = true -> literal_safe (utf8 cps) = true ->
  load_scalar (CtxBlock li minlit) (lit_write li (utf8 cps)) = Some (utf8 cps, []).
Proof.
  intros ML OK SAFE. unfold lit_write. rewrite decode_utf8 by exact OK. rewrite lit_body_bytes by exact OK.
  set (s := utf8 cps) in *. unfold literal_safe in SAFE. destruct s as [|b0 s0] eqn:ES; [discriminate|].
  apply andb_true_iff in SAFE. destruct SAFE as [SAFE CH]. apply andb_true_iff in SAFE. destruct SAFE as [SAFE E1].
  apply andb_true_iff in SAFE. destruct SAFE as [NL NS].
  apply negb_true_iff, N.eqb_neq in NL. apply negb_true_iff, N.eqb_neq in NS.
  destruct (ends_in_one_lf_inv _ E1) as (p & EP & P).
  destruct p as [|b0' body]; [cbn in EP; inversion EP; subst; congruence|].
  cbn [app] in EP. inversion EP as [[EB ES0]]. subst b0'.
  assert (Forall lit_byte_ok (b0 :: body)) as FB.
  { assert (Forall (fun b => lit_char_ok b = true) (b0 :: s0)) as FC by (apply Forall_forall; now apply forallb_forall).
    rewrite ES0 in FC. change (b0 :: body ++ [10]) with ((b0 :: body) ++ [10]) in FC.
    apply Forall_app in FC. destruct FC as [FC _]. eapply Forall_impl; [|exact FC]. apply lit_char_ok_byte. }
  inversion FB as [|? ? B0 FB']; subst.
  cbn [load_scalar]. unfold lit_load. change (10 =? 10) with true. cbv iota.
  cbn [lit_bytes]. replace (b0 =? 10) with false by (symmetry; now apply N.eqb_neq).
  rewrite <- (app_nil_r (lit_bytes li false (body ++ [10]))).
  rewrite lit_scan_spaces by (now left). cbn [app lit_scan Nat.add].
  replace (b0 =? 32) with false by (symmetry; now apply N.eqb_neq). cbn [andb].
  replace (Nat.max minlit li) with li by lia. rewrite Nat.ltb_irrefl. rewrite andb_false_r.
  rewrite (bad_false _ B0). replace (b0 =? 10) with false by (symmetry; now apply N.eqb_neq).
  destruct (lit_scan_body li [] body FB') as [Hm _]. rewrite Hm. cbn [lit_scan].
  (* clip *)
  f_equal. f_equal. f_equal. unfold clip. rewrite rev_append_rev.
  assert (drop_lfs (10 :: rev body ++ [b0]) = rev body ++ [b0]) as D.
  { cbn [drop_lfs]. change (10 =? 10) with true. cbv iota.
    destruct P as [P|(p' & x & P & X)]; [discriminate P|].
    destruct (rev body) as [|y r] eqn:R.
    - cbn. now replace (b0 =? 10) with false by (symmetry; now apply N.eqb_neq).
    - assert (y = x) as ->.
      { assert (rev (b0 :: body) = rev (p' ++ [x])) as Q by now rewrite P. cbn [rev] in Q. rewrite R, rev_app_distr in Q. cbn in Q. now inversion Q. }
      cbn [app]. now apply drop_lfs_head. }
  rewrite D. destruct (rev body ++ [b0]) as [|z zs] eqn:Z; [destruct (rev body); discriminate|].
  change (10 =? 10) with true. cbv iota. rewrite <- Z. cbn [rev]. rewrite rev_app_distr, rev_involutive. reflexivity.
Qed.

(* ------------------------------------------------------------------ *)
(** * the scalar codec as a whole *)

Lemma plain_first_not_special s : forallb plain_class s = true ->
  match s with c :: _ => c <> 124 /\ c <> 34 /\ plain_class c = true | [] => True end.
Proof.
  destruct s as [|c s]; [trivial|]. cbn [forallb]. intros H. apply andb_true_iff in H. destruct H as [H _].
  repeat split; [| |exact H]; intros ->; discriminate H.
Qed.

Lemma load_scalar_dq ctx cps : forallb ok_cp cps = true ->
  load_scalar ctx (dq_write (utf8 cps)) = Some (utf8 cps, []).
Proof.
  intros OK. pose proof (dq_roundtrip cps [] OK) as H. rewrite app_nil_r in H.
  unfold load_scalar. unfold dq_write in *. cbn [app] in *. rewrite H. reflexivity.
Qed.

Theorem scalar_roundtrip s ctx :
  wf_scalar s -> wf_ctx ctx -> load_scalar ctx (emit_scalar ctx s) = Some (s, []).
Proof.
  intros [(cps & OK & ->) ML] WC.
  unfold emit_scalar, scalar_bytes, scalar_fmt, style_request, style_request_fixed.
  destruct (existsb is_break (utf8 cps)) eqn:BR.
  - destruct (literal_safe (utf8 cps)) eqn:SAFE; [|now apply load_scalar_dq].
    cbn [compute_fmt]. destruct ctx as [li minlit|]; cbn [ctx_flow ctx_li scalar_bytes_f]; [|now apply load_scalar_dq].
    now apply lit_roundtrip.
  - destruct (forallb plain_class (utf8 cps) && negb (three_dots (utf8 cps))) eqn:PL; [|now apply load_scalar_dq].
    cbn [compute_fmt]. destruct (is_null_word (utf8 cps)) eqn:NW; [now apply load_scalar_dq|].
    cbn [scalar_bytes_f]. apply andb_true_iff in PL. destruct PL as [PL _].
    pose proof (plain_first_not_special _ PL) as F.
    destruct (utf8 cps) as [|c r] eqn:E; [discriminate NW|]. destruct F as (F1 & F2 & F3).
    unfold load_scalar. destruct (N.eqb_spec c 124) as [->|_]; [congruence|].
    assert (forall X Y : option (octs * octs), (match c :: r with 124 :: _ => X | _ => Y end) = Y) as M.
    { intros X Y. destruct c as [|p]; [reflexivity|]. do 7 (destruct p as [p|p|]; try reflexivity). congruence. }
    rewrite M. unfold flow_scalar. replace (c =? 34) with false by (symmetry; now apply N.eqb_neq).
    rewrite F3. rewrite span_plain_all by exact PL. reflexivity.
Qed.

(* ------------------------------------------------------------------ *)
(** * the scalar codec inside a document: what follows the scalar is left alone *)

Lemma span_plain_app s rest : forallb plain_class s = true ->
  match rest with [] => True | c :: _ => plain_class c = false end -> span_plain (s ++ rest) = (s, rest).
Proof.
  intros PL R. induction s as [|c s IH]; cbn [app].
  - destruct rest as [|c r]; [reflexivity|]. cbn [span_plain]. now rewrite R.
  - cbn [forallb] in PL. apply andb_true_iff in PL. destruct PL as [P1 P2]. cbn [span_plain]. rewrite P1, IH by exact P2. reflexivity.
Qed.

Lemma repeat_cons_app {A} (x : A) n l : repeat x n ++ x :: l = x :: repeat x n ++ l.
Proof. induction n as [|n IH]; [reflexivity|]. cbn [repeat app]. now rewrite IH. Qed.

(** after the block: [j] empty lines, then a line indented by [k] < [li] blanks *)
Lemma lit_scan_tail li j : forall k c0 r acc,
  (k < li)%nat -> c0 <> 32 -> c0 <> 10 -> c0 <> 9 -> lit_byte_ok c0 ->
  lit_scan (repeat 10 j ++ repeat SP k ++ c0 :: r) li false true true 0%nat acc = Some (repeat 10 (S j) ++ acc, c0 :: r, k).
Proof.
  induction j as [|j IH]; intros k c0 r acc K N32 N10 N9 B.
  - cbn [repeat app]. rewrite lit_scan_spaces by (right; lia). cbn [lit_scan Nat.add].
    replace (c0 =? 32) with false by (symmetry; now apply N.eqb_neq).
    replace (c0 =? 9) with false by (symmetry; now apply N.eqb_neq). cbn [andb].
    rewrite (bad_false _ B). replace (c0 =? 10) with false by (symmetry; now apply N.eqb_neq).
    replace (k <? li)%nat with true by (symmetry; apply Nat.ltb_lt; exact K). reflexivity.
  - cbn [repeat app lit_scan]. change (10 =? 32) with false. change (10 =? 9) with false.
    change ((10 =? 13) || (10 =? 0) || (10 =? 4)) with false. change (10 =? 10) with true. cbn [andb]. cbv iota.
    rewrite IH by assumption. cbn [repeat app]. now rewrite repeat_cons_app.
Qed.

Lemma drop_lfs_repeat n x xs : x <> 10 -> drop_lfs (repeat 10 n ++ x :: xs) = x :: xs.
Proof.
  intros H. induction n as [|n IH]; cbn [repeat app]; [now apply drop_lfs_head|].
  cbn [drop_lfs]. change (10 =? 10) with true. cbv iota. exact IH.
Qed.

Theorem lit_roundtrip_ctx li minlit cps j k c0 r :
  (minlit <= li)%nat -> forallb ok_cp cps = true -> literal_safe (utf8 cps) = true ->
  (k < li)%nat -> c0 <> 32 -> c0 <> 10 -> c0 <> 9 -> lit_byte_ok c0 ->
  load_scalar (CtxBlock li minlit) (lit_write li (utf8 cps) ++ repeat 10 j ++ repeat SP k ++ c0 :: r) = Some (utf8 cps, c0 :: r).
Proof.
  intros ML OK SAFE K N32 N10 N9 BC. unfold lit_write. rewrite decode_utf8 by exact OK. rewrite lit_body_bytes by exact OK.
  set (s := utf8 cps) in *. unfold literal_safe in SAFE. destruct s as [|b0 s0] eqn:ES; [discriminate|].
  apply andb_true_iff in SAFE. destruct SAFE as [SAFE CH]. apply andb_true_iff in SAFE. destruct SAFE as [SAFE E1].
  apply andb_true_iff in SAFE. destruct SAFE as [NL NS].
  apply negb_true_iff, N.eqb_neq in NL. apply negb_true_iff, N.eqb_neq in NS.
  destruct (ends_in_one_lf_inv _ E1) as (p & EP & P).
  destruct p as [|b0' body]; [cbn in EP; inversion EP; subst; congruence|].
  cbn [app] in EP. inversion EP as [[EB ES0]]. subst b0'.
  assert (Forall lit_byte_ok (b0 :: body)) as FB.
  { assert (Forall (fun b => lit_char_ok b = true) (b0 :: s0)) as FC by (apply Forall_forall; now apply forallb_forall).
    rewrite ES0 in FC. change (b0 :: body ++ [10]) with ((b0 :: body) ++ [10]) in FC.
    apply Forall_app in FC. destruct FC as [FC _]. eapply Forall_impl; [|exact FC]. apply lit_char_ok_byte. }
  inversion FB as [|? ? B0 FB']; subst.
  cbn [app load_scalar]. unfold lit_load. change (10 =? 10) with true. cbv iota.
  cbn [lit_bytes]. replace (b0 =? 10) with false by (symmetry; now apply N.eqb_neq).
  rewrite <- app_assoc. rewrite lit_scan_spaces by (now left). cbn [app lit_scan Nat.add].
  replace (b0 =? 32) with false by (symmetry; now apply N.eqb_neq). cbn [andb].
  replace (Nat.max minlit li) with li by lia. rewrite Nat.ltb_irrefl. rewrite andb_false_r.
  rewrite (bad_false _ B0). replace (b0 =? 10) with false by (symmetry; now apply N.eqb_neq).
  destruct (lit_scan_body li (repeat 10 j ++ repeat SP k ++ c0 :: r) body FB') as [Hm _]. rewrite Hm.
  rewrite lit_scan_tail by assumption.
  f_equal. f_equal. unfold clip. rewrite rev_append_rev.
  assert (exists x xs, rev body ++ [b0] = x :: xs /\ x <> 10) as (x & xs & X & XN).
  { destruct P as [P|(p' & y & P & Y)]; [discriminate P|].
    destruct (rev body) as [|z zs] eqn:R; [exists b0, []; split; [reflexivity|exact NL]|].
    exists z, (zs ++ [b0]). split; [reflexivity|].
    assert (rev (b0 :: body) = rev (p' ++ [y])) as Q by now rewrite P. cbn [rev] in Q. rewrite R, rev_app_distr in Q. cbn in Q.
    inversion Q; subst. exact Y. }
  rewrite X. rewrite drop_lfs_repeat by exact XN. cbn [repeat app]. change (10 =? 10) with true. cbv iota.
  rewrite <- X. cbn [rev]. rewrite rev_app_distr, rev_involutive. reflexivity.
Qed.

(** what may follow a scalar of each style, and where the reader stands afterwards *)
Inductive follows (li : nat) : fmt -> octs -> octs -> Prop :=
| FollowPlain rest : match rest with [] => True | c :: _ => plain_class c = false end -> follows li FPlain rest rest
| FollowDouble rest : follows li FDouble rest rest
| FollowLiteralEnd : follows li FLiteral [] []
| FollowLiteral j k c0 r :
    (k < li)%nat -> c0 <> 32 -> c0 <> 10 -> c0 <> 9 -> lit_byte_ok c0 ->
    follows li FLiteral (repeat 10 j ++ repeat SP k ++ c0 :: r) (c0 :: r).

Lemma load_scalar_dq_ctx ctx cps rest : forallb ok_cp cps = true ->
  load_scalar ctx (dq_write (utf8 cps) ++ rest) = Some (utf8 cps, rest).
Proof.
  intros OK. pose proof (dq_roundtrip cps rest OK) as H.
  unfold load_scalar. unfold dq_write in *. cbn [app] in *. rewrite H. reflexivity.
Qed.

Theorem scalar_roundtrip_in_context s ctx rest rest' :
  wf_scalar s -> wf_ctx ctx -> follows (ctx_li ctx) (scalar_fmt (ctx_flow ctx) s) rest rest' ->
  load_scalar ctx (emit_scalar ctx s ++ rest) = Some (s, rest').
Proof.
  intros [(cps & OK & ->) ML] WC FO.
  unfold emit_scalar, scalar_bytes. remember (scalar_fmt (ctx_flow ctx) (utf8 cps)) as f eqn:F.
  destruct FO as [rest' R | rest' | | j k c0 r K N32 N10 N9 BC]; cbn [scalar_bytes_f].
  - (* plain *)
    unfold scalar_fmt, compute_fmt, style_request, style_request_fixed in F.
    destruct (existsb is_break (utf8 cps)); [destruct (literal_safe (utf8 cps)); [destruct (ctx_flow ctx)|]; discriminate F|].
    destruct (forallb plain_class (utf8 cps) && negb (three_dots (utf8 cps))) eqn:PL; [|discriminate F].
    destruct (is_null_word (utf8 cps)) eqn:NW; [discriminate F|].
    apply andb_true_iff in PL. destruct PL as [PL _].
    pose proof (plain_first_not_special _ PL) as FS.
    destruct (utf8 cps) as [|c r] eqn:E; [discriminate NW|]. destruct FS as (F1 & F2 & F3).
    unfold load_scalar. cbn [app].
    assert (forall X Y : option (octs * octs), (match c :: r ++ rest' with 124 :: _ => X | _ => Y end) = Y) as M.
    { intros X Y. destruct c as [|p]; [reflexivity|]. repeat (destruct p as [p|p|]; try reflexivity). congruence. }
    rewrite M. unfold flow_scalar. replace (c =? 34) with false by (symmetry; now apply N.eqb_neq).
    rewrite F3. change (c :: r ++ rest') with ((c :: r) ++ rest'). rewrite span_plain_app by assumption. reflexivity.
  - now apply load_scalar_dq_ctx.
  - rewrite app_nil_r. pose proof (scalar_roundtrip (utf8 cps) ctx) as RT. unfold emit_scalar, scalar_bytes in RT. rewrite <- F in RT. cbn [scalar_bytes_f] in RT.
    apply RT; [split; [exists cps; auto|exact ML]|exact WC].
  - unfold scalar_fmt, compute_fmt, style_request, style_request_fixed in F.
    destruct (existsb is_break (utf8 cps)).
    + destruct (literal_safe (utf8 cps)) eqn:SAFE; [|discriminate F].
      destruct ctx as [li minlit|]; [|discriminate F]. cbn [ctx_li wf_ctx] in *. now apply lit_roundtrip_ctx.
    + destruct (forallb plain_class (utf8 cps) && negb (three_dots (utf8 cps))); [|discriminate F].
      destruct (is_null_word (utf8 cps)); discriminate F.
Qed.

(** What the code delivers beyond the property's wording: the condition on line
    breaks is not needed – every valid text is read back (texts the literal style
    cannot carry, e.g. with CR, without or with several final breaks, are
    double-quoted). *)
Theorem scalar_roundtrip_any_text s ctx :
  valid_text s -> wf_ctx ctx -> load_scalar ctx (emit_scalar ctx s) = Some (s, []).
Proof.
  intros V WC. destruct (existsb is_break s) eqn:B.
  - (* the proof of [scalar_roundtrip] never uses the line-break condition *)
    destruct V as (cps & OK & ->).
    unfold emit_scalar, scalar_bytes, scalar_fmt, style_request, style_request_fixed. rewrite B.
    destruct (literal_safe (utf8 cps)) eqn:SAFE; [|now apply load_scalar_dq].
    cbn [compute_fmt]. destruct ctx as [li minlit|]; cbn [ctx_flow ctx_li scalar_bytes_f]; [|now apply load_scalar_dq].
    now apply lit_roundtrip.
  - apply scalar_roundtrip; [|exact WC]. split; [exact V|]. intros H. rewrite B in H. discriminate H.
Qed.

(** texts with CR are always written double-quoted, in block and in flow context *)
Lemma cr_not_literal_safe s : existsb (fun c => c =? 13) s = true -> literal_safe s = false.
Proof.
  intros H. unfold literal_safe. destruct s as [|c s]; [reflexivity|].
  assert (forallb lit_char_ok (c :: s) = false) as ->; [|now rewrite andb_false_r].
  apply existsb_exists in H. destruct H as (x & I & X). apply N.eqb_eq in X. subst x.
  destruct (forallb lit_char_ok (c :: s)) eqn:F; [|reflexivity].
  rewrite forallb_forall in F. specialize (F 13 I). discriminate F.
Qed.

Theorem cr_text_is_double_quoted s ctx :
  existsb (fun c => c =? 13) s = true -> emit_scalar ctx s = dq_write s.
Proof.
  intros H. unfold emit_scalar, scalar_bytes, scalar_fmt, style_request, style_request_fixed.
  assert (existsb is_break s = true) as ->.
  { apply existsb_exists in H. destruct H as (x & I & X). apply existsb_exists. exists x. split; [exact I|].
    unfold is_break. rewrite X. apply orb_true_r. }
  now rewrite (cr_not_literal_safe _ H).
Qed.

(** the statement is not vacuous: scalars of every style are in the domain *)
Ltac wf_ex cps :=
  split; [exists cps; split; reflexivity
         | unfold multi_line_ok; intros H; first [discriminate H | reflexivity]].

Example wf_scalar_examples :
  wf_scalar [] /\ wf_scalar [32; 97; 10] /\ wf_scalar [97; 10; 98; 10] /\ wf_scalar [110; 117; 108; 108] /\
  wf_scalar [228; 184; 173; 10] /\ wf_scalar [45; 32; 34; 92; 1].
Proof.
  split; [wf_ex (@nil N)|]. split; [wf_ex [32; 97; 10]|]. split; [wf_ex [97; 10; 98; 10]|].
  split; [wf_ex [110; 117; 108; 108]|]. split; [wf_ex [20013; 10]|wf_ex [45; 32; 34; 92; 1]].
Qed.

(** CR LF endings, mixed endings and lone CRs are in the domain *)
Example wf_scalar_cr_examples :
  wf_scalar [111; 110; 101; 13; 10] /\ wf_scalar [97; 13; 10; 98; 13; 10] /\ wf_scalar [97; 10; 98; 13; 10] /\
  wf_scalar [97; 13; 98; 10] /\ wf_scalar [13; 10] /\
  ~ multi_line_ok [97; 13] /\ ~ multi_line_ok [97; 10; 13; 10] /\ ~ multi_line_ok [97; 13; 13; 10] /\ ~ multi_line_ok [97; 13; 98].
Proof.
  split; [wf_ex [111; 110; 101; 13; 10]|]. split; [wf_ex [97; 13; 10; 98; 13; 10]|]. split; [wf_ex [97; 10; 98; 13; 10]|].
  split; [wf_ex [97; 13; 98; 10]|]. split; [wf_ex [13; 10]|].
  repeat split; intros H; specialize (H eq_refl); discriminate H.
Qed.

(** * the code before the repair loses data inside the domain *)
Theorem scalar_roundtrip_v0_refuted :
  exists s ctx, wf_scalar s /\ wf_ctx ctx /\ load_scalar ctx (emit_scalar_v0 ctx s) <> Some (s, []).
Proof.
  exists [32; 97; 10], (CtxBlock 2 1). split; [|split].
  - wf_ex [32; 97; 10].
  - cbn. lia.
  - vm_compute. discriminate.
Qed.

(** what it reads back instead: the leading blank is gone *)
Example v0_witness_reads : load_scalar (CtxBlock 2 1) (emit_scalar_v0 (CtxBlock 2 1) [32; 97; 10]) = Some ([97; 10], []).
Proof. vm_compute. reflexivity. Qed.

(** * noncharacters: valid UTF-8 that yaml-cpp's emitter replaces by U+FFFD (known finding).
    [239; 191; 190] is U+FFFE. *)
Theorem scalar_roundtrip_noncharacter_refuted :
  exists s ctx, wf_ctx ctx /\ s = encode 65534 /\ load_scalar ctx (emit_scalar ctx s) <> Some (s, []).
Proof.
  exists [239; 191; 190], CtxFlow. split; [exact I|]. split; [reflexivity|]. vm_compute. discriminate.
Qed.

Example noncharacter_reads : load_scalar CtxFlow (emit_scalar CtxFlow [239; 191; 190]) = Some ([239; 191; 189], []).
Proof. vm_compute. reflexivity. Qed.
