(** C18 – the save/load round trip of whole trees: the statement
    [tree_roundtrip_full], its base layer [tree_roundtrip_scalar] (a tree that is
    a single scalar, in every style the emitter can choose) and a finite sweep of
    the model.  The full statement is proved in Cfg/RoundTrip.v
    ([tree_roundtrip]) by induction over items, block and flow collections
    included. *)
From Coq Require Import List NArith Bool Arith Lia.
From Coq.Strings Require Import Byte.
From RimeV Require Import Base.Bytes Cfg.Tree Cfg.Yaml Cfg.YamlProofs.
Import ListNotations.
Local Open Scope N_scope.

(** every scalar and every key of the tree is in the scalar domain; keys are short *)
Fixpoint scalars_wf (t : item) : Prop :=
  match t with
  | Null => True
  | Scalar s => wf_scalar (nums s)
  | Lst l => (fix go (l : list item) : Prop := match l with [] => True | x :: r => scalars_wf x /\ go r end) l
  | Map m => (fix go (m : list (bytes * item)) : Prop :=
                match m with [] => True | (k, x) :: r => wf_scalar (nums k) /\ (length k < 256)%nat /\ scalars_wf x /\ go r end) m
  end.

Definition tree_roundtrip_full : Prop :=
  forall t, wf_item t = true -> scalars_wf t -> load_octs (emit_octs t) = Some (prune t).

Lemma unnums_nums s : unnums (nums s) = s.
Proof. unfold unnums, nums. rewrite map_map. rewrite <- (map_id s) at 2. apply map_ext. apply byte_of_N_of_byte. Qed.

Lemma emit_octs_scalar s : emit_octs (Scalar s) = scalar_bytes false 2 (nums s).
Proof.
  unfold emit_octs. cbn [emit_node Nat.leb]. unfold prep_top, space_or_indent, indent_to, put. cbn [col Nat.ltb Nat.leb andb Nat.sub repeat rev_append].
  now rewrite rev_append_rev, app_nil_r, rev_involutive.
Qed.

Lemma three_dots_head c r : c <> 46 -> three_dots (c :: r) = false.
Proof.
  intros H. destruct r as [|b [|d [|e r]]]; try reflexivity. cbn. now replace (c =? 46) with false by (symmetry; now apply N.eqb_neq).
Qed.

Lemma is_seq_mark_other c r : c <> 45 -> is_seq_mark (c :: r) = false.
Proof. intros H. destruct c as [|p]; [reflexivity|]. repeat (destruct p as [p|p|]; try reflexivity). congruence. Qed.

Lemma is_longkey_mark_other c r : c <> 63 -> is_longkey_mark (c :: r) = false.
Proof. intros H. destruct c as [|p]; [reflexivity|]. repeat (destruct p as [p|p|]; try reflexivity). congruence. Qed.

Theorem tree_roundtrip_scalar s : wf_scalar (nums s) -> load_octs (emit_octs (Scalar s)) = Some (prune (Scalar s)).
Proof.
  intros WF. rewrite emit_octs_scalar. cbn [prune].
  pose proof (scalar_roundtrip (nums s) (CtxBlock 2 1) WF) as RT. cbn [wf_ctx] in RT. specialize (RT ltac:(lia)).
  unfold emit_scalar in RT. cbn [ctx_flow ctx_li] in RT.
  destruct WF as [(cps & OK & E) ML].
  set (doc := scalar_bytes false 2 (nums s)) in *.
  unfold scalar_bytes, scalar_bytes_f in doc.
  destruct (scalar_fmt false (nums s)) eqn:F.
  - (* plain *)
    subst doc. unfold scalar_fmt, compute_fmt, style_request, style_request_fixed in F.
    destruct (existsb is_break (nums s)); [destruct (literal_safe (nums s)); discriminate F|].
    destruct (forallb plain_class (nums s) && negb (three_dots (nums s))) eqn:PL; [|discriminate F].
    destruct (is_null_word (nums s)) eqn:NW; [discriminate F|].
    apply andb_true_iff in PL. destruct PL as [PL TD]. apply negb_true_iff in TD.
    pose proof (plain_first_not_special _ PL) as FS.
    destruct (nums s) as [|c r] eqn:EN; [discriminate NW|]. destruct FS as (F1 & F2 & F3).
    unfold load_octs. rewrite TD.
    assert (c <> 91 /\ c <> 123 /\ c <> 45 /\ c <> 63) as (A1 & A2 & A3 & A4) by (repeat split; intros ->; discriminate F3).
    cbn [block_node Nat.mul Nat.add length].
    replace (c =? 91) with false by (symmetry; now apply N.eqb_neq).
    replace (c =? 123) with false by (symmetry; now apply N.eqb_neq).
    replace (c =? 124) with false by (symmetry; now apply N.eqb_neq). cbn [orb].
    rewrite is_seq_mark_other, is_longkey_mark_other by assumption.
    cbn [andb]. unfold key_scalar, flow_scalar.
    replace (c =? 34) with false by (symmetry; now apply N.eqb_neq). rewrite F3.
    rewrite span_plain_all by exact PL. cbn [is_value_mark andb to_ls next_line].
    rewrite <- EN. now rewrite unnums_nums.
  - (* double-quoted *)
    subst doc. rewrite E. pose proof (dq_roundtrip cps [] OK) as DQ. rewrite app_nil_r in DQ.
    unfold dq_write in *. set (body := flat_map dq_cp (decode (utf8 cps)) ++ [34]) in *.
    unfold load_octs. rewrite three_dots_head by discriminate.
    cbn [block_node Nat.mul Nat.add length]. change (34 =? 91) with false. change (34 =? 123) with false. change (34 =? 124) with false.
    cbn [orb]. change (is_seq_mark (34 :: body)) with false. change (is_longkey_mark (34 :: body)) with false. cbn [andb].
    unfold key_scalar. rewrite DQ. cbn [is_value_mark andb to_ls next_line].
    rewrite <- E. now rewrite unnums_nums.
  - (* literal *)
    subst doc. unfold lit_write in *. set (body := lit_body 2 true (decode (nums s))) in *.
    unfold load_octs. rewrite three_dots_head by discriminate.
    cbn [block_node Nat.mul Nat.add length]. change (124 =? 91) with false. change (124 =? 123) with false. change (124 =? 124) with true.
    cbn [orb].
    cbn [load_scalar] in RT. destruct (lit_load (10 :: body) 1) as [[[x y] c]|]; [|discriminate RT].
    inversion RT; subst. now rewrite unnums_nums.
Qed.

(* ------------------------------------------------------------------ *)
(** * an exhaustive sweep of the MODEL over a finite family of shapes

    Not the unbounded statement: a [vm_compute] check that the model loader
    inverts the model emitter on every tree of the generated list
    [sweep_trees] (every list/map of at most two entries over null and four
    scalars – plain, empty, literal, quoted – wrapped zero to four times in
    single- and multi-entry lists and maps with plain and literal ("long") keys,
    so that depth reaches 6 and block, flow, long-key and empty-container
    layouts all occur).  It covers exhaustively the small layouts that the
    random correspondence streams only sample. *)
Definition sw_scalars : list bytes :=
  [ ["a"]%byte; []; ["a"; x0a]%byte; ["-"; " "; "x"]%byte ].

Definition sw_leaves : list item := Null :: map Scalar sw_scalars.

Definition sw_k1 : bytes := ["a"; x0a]%byte.   (* literal key: long-key form in block context *)
Definition sw_k2 : bytes := ["k"]%byte.
Definition sw_k3 : bytes := ["x"; " "; "y"]%byte.

Definition sw_level1 : list item :=
  sw_leaves
  ++ [Lst []] ++ map (fun x => Lst [x]) sw_leaves ++ flat_map (fun x => map (fun y => Lst [x; y]) sw_leaves) sw_leaves
  ++ [Map []] ++ flat_map (fun k => map (fun x => Map [(k, x)]) sw_leaves) [sw_k1; sw_k2; sw_k3]
  ++ flat_map (fun x => flat_map (fun y => [Map [(sw_k1, x); (sw_k2, y)]; Map [(sw_k2, x); (sw_k3, y)]]) sw_leaves) sw_leaves.

Definition sw_wrap (t : item) : list item :=
  [ Lst [t]; Lst [Scalar ["a"]%byte; t; Scalar ["a"; x0a]%byte]; Map [(sw_k2, t)]; Map [(sw_k1, t); (sw_k2, Scalar ["a"]%byte)] ].

Definition sweep_trees : list item :=
  let l1 := sw_level1 in
  let l2 := flat_map sw_wrap l1 in
  let l3 := flat_map sw_wrap l2 in
  let l4 := flat_map sw_wrap l3 in
  let l5 := flat_map sw_wrap l4 in
  l1 ++ l2 ++ l3 ++ l4 ++ l5.

Definition roundtrips (t : item) : bool :=
  match load_octs (emit_octs t) with
  | Some t' => item_eqb t' (prune t)
  | None => false
  end.

Lemma sweep_size : N.of_nat (length sweep_trees) = 34782%N.
Proof. vm_compute. reflexivity. Qed.

Theorem tree_roundtrip_sweep : forallb (fun t => wf_item t && roundtrips t) sweep_trees = true.
Proof. vm_compute. reflexivity. Qed.
