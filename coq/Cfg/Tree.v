(** C18 – the config item tree of src/rime/config/config_types.h.

    [item] mirrors [an<ConfigItem>]: a null pointer ([Null]), a [ConfigValue]
    holding a string ([Scalar]), a [ConfigList] ([Lst], a vector of items that
    may be null) and a [ConfigMap] ([Map], a [std::map<string, an<ConfigItem>>],
    modelled as an association list kept strictly sorted by key in the order of
    [std::string::operator<], i.e. lexicographically on unsigned bytes).  A key
    bound to a null pointer is an entry of the map (iteration shows it), exactly
    as [map_[key] = nullptr] leaves it in C++.

    Model file: definitions only. *)
From Coq Require Import List NArith Bool.
From Coq.Strings Require Import Byte.
From RimeV Require Import Base.Bytes.
Import ListNotations.

Inductive item :=
| Null
| Scalar (s : bytes)
| Lst (l : list item)
| Map (m : list (bytes * item)).

(** ** byte strings as keys *)
Definition byte_eqb (a b : byte) : bool := N.eqb (Byte.to_N a) (Byte.to_N b).

Fixpoint bytes_eqb (a b : bytes) : bool :=
  match a, b with
  | [], [] => true
  | x :: a', y :: b' => byte_eqb x y && bytes_eqb a' b'
  | _, _ => false
  end.

(** [std::string::compare]: lexicographic on unsigned bytes, a proper prefix is smaller. *)
Fixpoint bytes_cmp (a b : bytes) : comparison :=
  match a, b with
  | [], [] => Eq
  | [], _ :: _ => Lt
  | _ :: _, [] => Gt
  | x :: a', y :: b' =>
      match N.compare (Byte.to_N x) (Byte.to_N y) with
      | Eq => bytes_cmp a' b'
      | c => c
      end
  end.

(** ** ConfigMap *)
(** [ConfigMap::Get]: the bound item, or a null pointer when the key is absent. *)
Fixpoint map_get (m : list (bytes * item)) (k : bytes) : item :=
  match m with
  | [] => Null
  | (k', v) :: r => if bytes_eqb k k' then v else map_get r k
  end.

Fixpoint map_has (m : list (bytes * item)) (k : bytes) : bool :=
  match m with
  | [] => false
  | (k', _) :: r => bytes_eqb k k' || map_has r k
  end.

(** [ConfigMap::Set]: [map_[key] = element] on the sorted representation. *)
Fixpoint map_set (m : list (bytes * item)) (k : bytes) (v : item) : list (bytes * item) :=
  match m with
  | [] => [(k, v)]
  | (k', v') :: r =>
      match bytes_cmp k k' with
      | Lt => (k, v) :: m
      | Eq => (k, v) :: r
      | Gt => (k', v') :: map_set r k v
      end
  end.

(** ** ConfigList *)
Definition get_at (l : list item) (i : nat) : item := nth i l Null.

(** [vector::resize(n)]: truncate or pad with null pointers. *)
Definition resize (l : list item) (n : nat) : list item :=
  firstn n l ++ repeat Null (n - length l).

(** [ConfigList::SetAt]. *)
Definition set_at (l : list item) (i : nat) (v : item) : list item :=
  let l' := if Nat.leb (length l) i then resize l (S i) else l in
  firstn i l' ++ v :: skipn (S i) l'.

(** [ConfigList::Insert]. *)
Definition insert_at (l : list item) (i : nat) (v : item) : list item :=
  let l' := if Nat.ltb (length l) i then resize l i else l in
  firstn i l' ++ v :: skipn i l'.

(** ** sortedness (the invariant of std::map) and well-formed trees *)
Fixpoint keys_sorted (m : list (bytes * item)) : bool :=
  match m with
  | [] => true
  | (k, _) :: r =>
      match r with
      | [] => true
      | (k', _) :: _ => match bytes_cmp k k' with Lt => keys_sorted r | _ => false end
      end
  end.

Fixpoint wf_item (t : item) : bool :=
  match t with
  | Null | Scalar _ => true
  | Lst l => forallb wf_item l
  | Map m => keys_sorted m && forallb (fun kv => wf_item (snd kv)) m
  end.

(** ** what a save/load cycle may drop: entries whose value is null.
    [EmitYaml] returns without emitting anything for a null node, so a null
    list element disappears (later elements move up) and a map entry bound to
    null is skipped together with its key. *)
Definition is_null (t : item) : bool := match t with Null => true | _ => false end.

Fixpoint prune (t : item) : item :=
  match t with
  | Null => Null
  | Scalar s => Scalar s
  | Lst l =>
      Lst ((fix go (l : list item) : list item :=
              match l with
              | [] => []
              | x :: r => if is_null x then go r else prune x :: go r
              end) l)
  | Map m =>
      Map ((fix go (m : list (bytes * item)) : list (bytes * item) :=
              match m with
              | [] => []
              | (k, x) :: r => if is_null x then go r else (k, prune x) :: go r
              end) m)
  end.

(** structural equality (used by the oracle on implementation observations) *)
Fixpoint item_eqb (a b : item) : bool :=
  match a, b with
  | Null, Null => true
  | Scalar x, Scalar y => bytes_eqb x y
  | Lst x, Lst y =>
      (fix go (x y : list item) : bool :=
         match x, y with
         | [], [] => true
         | p :: x', q :: y' => item_eqb p q && go x' y'
         | _, _ => false
         end) x y
  | Map x, Map y =>
      (fix go (x y : list (bytes * item)) : bool :=
         match x, y with
         | [], [] => true
         | (k, p) :: x', (k', q) :: y' => bytes_eqb k k' && item_eqb p q && go x' y'
         | _, _ => false
         end) x y
  | _, _ => false
  end.
