(** C18 – key paths: [ConfigData::SplitPath], [IsListItemReference],
    [ResolveListIndex] (with its [strtoul] and [unsigned int] arithmetic),
    [ConfigData::Traverse] (reads) and [TraverseWrite] = [TraverseCopyOnWrite] +
    the [ConfigCowRef::SetItem] chain (writes) of src/rime/config/config_data.cc
    and config_cow_ref.h.

    A write through copy-on-write references is a pure functional update:
    every [SetItem] of the chain first reads its container from the *old* tree
    (the container behind the parent reference), copies it (or creates an empty one when the old node
    is null), hands the copy to its parent and only then writes the child into
    the copy.  All reads therefore see the old tree, and the result is the old
    tree with the containers along the path replaced – [write_at].

    Model file: definitions only. *)
From Coq Require Import List NArith Bool.
From Coq.Strings Require Import Byte.
From RimeV Require Import Base.Bytes Cfg.Tree.
Import ListNotations.
Local Open Scope N_scope.


Definition bN (b : byte) : N := Byte.to_N b.

(** [std::isalnum] in the "C" locale (bytes >= 0x80 are not alphanumeric). *)
Definition is_digit (b : byte) : bool := (N.leb 48 (bN b) && N.leb (bN b) 57)%bool.
Definition is_alpha (b : byte) : bool :=
  ((N.leb 65 (bN b) && N.leb (bN b) 90) || (N.leb 97 (bN b) && N.leb (bN b) 122))%bool.
Definition is_alnum (b : byte) : bool := (is_digit b || is_alpha b)%bool.
(** [isspace] in the "C" locale: space, \t \n \v \f \r *)
Definition is_space (b : byte) : bool :=
  (N.eqb (bN b) 32 || (N.leb 9 (bN b) && N.leb (bN b) 13))%bool.

Definition slash : byte := "/"%byte.
Definition at_sign : byte := "@"%byte.

(** ** SplitPath: trim leading '/', then split on every '/' (empty tokens kept;
    the empty string splits into one empty token). *)
Fixpoint drop_slashes (p : bytes) : bytes :=
  match p with
  | c :: r => if byte_eqb c slash then drop_slashes r else p
  | [] => []
  end.

Fixpoint split_on_slash (cur : bytes) (p : bytes) : list bytes :=
  match p with
  | [] => [rev cur]
  | c :: r => if byte_eqb c slash then rev cur :: split_on_slash [] r else split_on_slash (c :: cur) r
  end.

Definition split_path (p : bytes) : list bytes := split_on_slash [] (drop_slashes p).

(** The guard shared by [Traverse] and [TraverseCopyOnWrite]:
    [node_path.empty() || node_path == "/"] addresses the root. *)
Definition is_root_path (p : bytes) : bool :=
  match p with
  | [] => true
  | [c] => byte_eqb c slash
  | _ => false
  end.

Definition path_keys (p : bytes) : list bytes := if is_root_path p then [] else split_path p.

(** ** list item references *)
(** [key.length() > 1 && key[0] == '@' && std::isalnum(key[1])] *)
Definition is_list_ref (k : bytes) : bool :=
  match k with
  | a :: b :: _ => (byte_eqb a at_sign && is_alnum b)%bool
  | _ => false
  end.

Fixpoint starts_with (pre s : bytes) : bool :=
  match pre, s with
  | [], _ => true
  | x :: pre', y :: s' => (byte_eqb x y && starts_with pre' s')%bool
  | _ :: _, [] => false
  end.

(** [strtoul(p, NULL, 10)] of glibc on a NUL-terminated view: white space,
    optional sign, decimal digits; no digits -> 0; overflow -> ULONG_MAX; a
    minus sign negates modulo 2^64.  (A NUL byte is simply a non-digit.) *)
Fixpoint skip_spaces (l : bytes) : bytes :=
  match l with
  | c :: r => if is_space c then skip_spaces r else l
  | [] => []
  end.

Fixpoint digits_val (acc : N) (l : bytes) : N :=
  match l with
  | c :: r => if is_digit c then digits_val (acc * 10 + (bN c - 48)) r else acc
  | [] => acc
  end.

Definition two64 : N := 18446744073709551616.
Definition two32 : N := 4294967296.

Definition strtoul10 (l : bytes) : N :=
  let l1 := skip_spaces l in
  let '(neg, l2) :=
    match l1 with
    | c :: r => if byte_eqb c "-"%byte then (true, r) else if byte_eqb c "+"%byte then (false, r) else (false, l1)
    | [] => (false, l1)
    end in
  let v := digits_val 0 l2 in
  if N.leb two64 v then two64 - 1
  else if neg then (two64 - v) mod two64 else v.

Inductive ref_base := BPlain | BNext | BBefore | BAfter.

Record refspec := { rs_base : ref_base; rs_last : bool; rs_num : N }.

(** The textual analysis of [ResolveListIndex] (everything that does not depend
    on the list). *)
Definition parse_ref (k : bytes) : refspec :=
  let r := skipn 1%nat k in
  let '(b, r1) :=
    if starts_with (["n"; "e"; "x"; "t"]%byte) r then (BNext, skipn 4%nat r)
    else if starts_with (["b"; "e"; "f"; "o"; "r"; "e"]%byte) r then (BBefore, skipn 6%nat r)
    else if starts_with (["a"; "f"; "t"; "e"; "r"]%byte) r then (BAfter, skipn 5%nat r)
    else (BPlain, r) in
  let r2 := match r1 with c :: r' => if byte_eqb c " "%byte then r' else r1 | [] => r1 end in
  if starts_with (["l"; "a"; "s"; "t"]%byte) r2 then {| rs_base := b; rs_last := true; rs_num := 0 |}
  else {| rs_base := b; rs_last := false; rs_num := strtoul10 r2 |}.

Definition u32 (n : N) : N := n mod two32.

(** [index] is an [unsigned int]; [list->size()] and the [strtoul] result are
    64-bit and are truncated on assignment. *)
Definition index_of (rs : refspec) (size : N) : N :=
  let i0 := match rs_base rs with BNext => u32 size | BAfter => 1 | _ => 0 end in
  if rs_last rs then
    let i1 := u32 (i0 + size) in if N.eqb i1 0 then 0 else i1 - 1
  else u32 (i0 + rs_num rs).

Definition inserts (rs : refspec) : bool :=
  match rs_base rs with BBefore | BAfter => true | _ => false end.

Definition resolve_index (l : list item) (k : bytes) : nat :=
  N.to_nat (index_of (parse_ref k) (N.of_nat (length l))).

Definition will_insert (k : bytes) : bool := inserts (parse_ref k).

(** ** ConfigData::Traverse *)
Fixpoint traverse (t : item) (keys : list bytes) : item :=
  match keys with
  | [] => t
  | k :: ks =>
      if is_list_ref k then
        match t with
        | Lst l => traverse (get_at l (resolve_index l k)) ks
        | _ => Null
        end
      else
        match t with
        | Map m => traverse (map_get m k) ks
        | _ => Null
        end
  end.

(** ** TraverseCopyOnWrite: the type checks made while the reference chain is
    built ([TypeCheckedCopyOnWrite]); an empty key returns the parent reference
    itself. *)
Definition is_empty (k : bytes) : bool := match k with [] => true | _ => false end.

Fixpoint write_ok (t : item) (keys : list bytes) : bool :=
  match keys with
  | [] => true
  | k :: ks =>
      if is_empty k then write_ok t ks
      else if is_list_ref k then
        match t with
        | Null => write_ok Null ks
        | Lst l => write_ok (get_at l (resolve_index l k)) ks
        | _ => false
        end
      else
        match t with
        | Null => write_ok Null ks
        | Map m => write_ok (map_get m k) ks
        | _ => false
        end
  end.

(** The effect of [*target = item] on the chain. *)
Fixpoint write_at (t : item) (keys : list bytes) (v : item) : item :=
  match keys with
  | [] => v
  | k :: ks =>
      if is_empty k then write_at t ks v
      else if is_list_ref k then
        let l := match t with Lst l => l | _ => [] end in
        let i := resolve_index l k in
        let child := write_at (get_at l i) ks v in
        let l1 := if will_insert k then insert_at l i Null else l in
        Lst (set_at l1 i child)
      else
        let m := match t with Map m => m | _ => [] end in
        Map (map_set m k (write_at (map_get m k) ks v))
  end.

(** [Config::GetItem(path)] and [Config::SetItem(path, item)] on the root. *)
Definition config_get (root : item) (path : bytes) : item := traverse root (path_keys path).

Definition config_set (root : item) (path : bytes) (v : item) : option item :=
  let keys := path_keys path in
  if write_ok root keys then Some (write_at root keys v) else None.

(** ** resolved paths (what a path means on a given tree) *)
Inductive step :=
| KMap (k : bytes)
| KIdx (i : nat).

Fixpoint traverse_r (t : item) (ps : list step) : item :=
  match ps with
  | [] => t
  | KMap k :: r => match t with Map m => traverse_r (map_get m k) r | _ => Null end
  | KIdx i :: r => match t with Lst l => traverse_r (get_at l i) r | _ => Null end
  end.

(** the steps a write takes on tree [t] (indices as resolved against the old
    tree), with the insertion flag of each list step *)
Inductive wstep :=
| WMap (k : bytes)
| WIdx (i : nat) (ins : bool).

Fixpoint resolve_w (t : item) (keys : list bytes) : list wstep :=
  match keys with
  | [] => []
  | k :: ks =>
      if is_empty k then resolve_w t ks
      else if is_list_ref k then
        let l := match t with Lst l => l | _ => [] end in
        let i := resolve_index l k in
        WIdx i (will_insert k) :: resolve_w (get_at l i) ks
      else
        let m := match t with Map m => m | _ => [] end in
        WMap k :: resolve_w (map_get m k) ks
  end.

Definition step_of (w : wstep) : step :=
  match w with WMap k => KMap k | WIdx i _ => KIdx i end.
