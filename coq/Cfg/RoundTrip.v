(** C18 – the tree round trip: flow collections (this part) and block
    collections (below), by induction over items. *)
From Coq Require Import List NArith Bool Arith Lia.
From Coq.Strings Require Import Byte.
From RimeV Require Import Base.Bytes Cfg.Tree Cfg.PathProofs Cfg.Yaml Cfg.YamlProofs Cfg.TreeProofs.
Import ListNotations.
Local Open Scope N_scope.

(* ------------------------------------------------------------------ *)
(** * induction over items *)
Section ItemInd.
  Variable P : item -> Prop.
  Hypothesis HN : P Null.
  Hypothesis HS : forall s, P (Scalar s).
  Hypothesis HL : forall l, Forall P l -> P (Lst l).
  Hypothesis HM : forall m, Forall (fun kv => P (snd kv)) m -> P (Map m).
  Fixpoint item_ind' (t : item) : P t :=
    match t with
    | Null => HN
    | Scalar s => HS s
    | Lst l => HL l ((fix go (l : list item) : Forall P l :=
                        match l with [] => Forall_nil _ | x :: r => Forall_cons x (item_ind' x) (go r) end) l)
    | Map m => HM m ((fix go (m : list (bytes * item)) : Forall (fun kv => P (snd kv)) m :=
                        match m with [] => Forall_nil _ | kv :: r => Forall_cons kv (item_ind' (snd kv)) (go r) end) m)
    end.
End ItemInd.

(** the tree is in the domain: scalars and keys in the scalar domain, keys short and strictly sorted *)
Inductive tree_ok : item -> Prop :=
| ok_null : tree_ok Null
| ok_scalar s : wf_scalar (nums s) -> tree_ok (Scalar s)
| ok_lst l : Forall tree_ok l -> tree_ok (Lst l)
| ok_map m : keys_sorted m = true ->
             Forall (fun kv => wf_scalar (nums (fst kv)) /\ (length (fst kv) < 256)%nat /\ tree_ok (snd kv)) m ->
             tree_ok (Map m).

Lemma tree_ok_of t : wf_item t = true -> scalars_wf t -> tree_ok t.
Proof.
  induction t using item_ind'; intros W S.
  - constructor.
  - constructor. exact S.
  - constructor. cbn [wf_item scalars_wf] in *. induction l as [|x r IH]; [constructor|].
    inversion H; subst. cbn [forallb] in W. apply andb_true_iff in W. destruct W as [W1 W2]. destruct S as [S1 S2].
    constructor; [auto|]. apply IH; auto.
  - cbn [wf_item scalars_wf] in *. apply andb_true_iff in W. destruct W as [W0 W]. constructor; [exact W0|].
    clear W0. induction m as [|[k x] r IH]; [constructor|].
    inversion H; subst. cbn [forallb snd] in W. apply andb_true_iff in W. destruct W as [W1 W2].
    destruct S as (S1 & S2 & S3 & S4). constructor; [cbn; auto|]. apply IH; auto.
Qed.

(* ------------------------------------------------------------------ *)
(** * the output stream *)
Lemma put_put o a b : put (put o a) b = put o (a ++ b).
Proof. unfold put. rewrite !rev_append_rev, rev_app_distr, app_assoc. reflexivity. Qed.

Lemma put_nil o : put o [] = o.
Proof. reflexivity. Qed.

Lemma rev_put o a : rev (put o a) = rev o ++ a.
Proof. unfold put. rewrite rev_append_rev, rev_app_distr, rev_involutive. reflexivity. Qed.

Lemma col_put_char o c : c <> 10 -> col (put o [c]) = S (col o).
Proof. intros H. unfold put. cbn [rev_append col]. now replace (c =? 10) with false by (symmetry; now apply N.eqb_neq). Qed.

Lemma col_put_lf o : col (put o [LF]) = 0%nat.
Proof. reflexivity. Qed.

Lemma col_put_spaces o k : col (put o (repeat SP k)) = (col o + k)%nat.
Proof.
  revert o. induction k as [|k IH]; intros o; [cbn; lia|].
  cbn [repeat]. change (SP :: repeat SP k) with ([SP] ++ repeat SP k). rewrite <- put_put, IH, col_put_char by discriminate. lia.
Qed.

Lemma indent_to_put o n : indent_to o n = put o (repeat SP (n - col o)).
Proof. reflexivity. Qed.

(** [space_or_indent] writes at most one required blank and then padding *)
Lemma space_or_indent_put o b n :
  space_or_indent o b n = put o ((if (Nat.ltb 0 (col o) && b)%bool then [SP] else []) ++
                                 repeat SP (n - col (if (Nat.ltb 0 (col o) && b)%bool then put o [SP] else o))).
Proof.
  unfold space_or_indent. destruct (Nat.ltb 0 (col o) && b)%bool; [|reflexivity].
  rewrite indent_to_put, put_put. reflexivity.
Qed.

(* ------------------------------------------------------------------ *)
(** * blanks *)
Lemma skip_sp_repeat p l c : skip_sp (repeat SP p ++ l) c = skip_sp l (c + p)%nat.
Proof.
  revert c. induction p as [|p IH]; intros c; cbn [repeat app]; [f_equal; lia|].
  cbn [skip_sp]. change (SP =? 32) with true. cbv iota. rewrite IH. f_equal. lia.
Qed.

Lemma skip_sp_stop l c : match l with x :: _ => x <> 32 | [] => True end -> skip_sp l c = (l, c).
Proof. destruct l as [|x l]; [reflexivity|]. intros H. cbn. now replace (x =? 32) with false by (symmetry; now apply N.eqb_neq). Qed.

(** the first byte of a flow token: an opening bracket or brace, a double quote or a plain character *)
Definition tok_head (w : octs) : Prop :=
  match w with c :: _ => c = 91 \/ c = 123 \/ c = 34 \/ plain_class c = true | [] => False end.

Lemma tok_head_facts w : tok_head w ->
  match w with c :: _ => c <> 32 /\ c <> 93 /\ c <> 125 /\ c <> 63 /\ c <> 10 | [] => False end.
Proof.
  destruct w as [|c w]; [trivial|]. cbn. intros [->|[->|[->|H]]]; repeat split; try discriminate; intros ->; discriminate H.
Qed.

(** what may follow a flow token: nothing a plain word would swallow *)
Definition rest_ok (rest : octs) : Prop := match rest with [] => True | c :: _ => plain_class c = false end.

(* ------------------------------------------------------------------ *)
(** * inline scalars (plain and double-quoted) at any column *)
Lemma dq_roundtrip_col cps rest c : forallb ok_cp cps = true ->
  flow_scalar (dq_write (utf8 cps) ++ rest) c = Some (utf8 cps, rest, (c + length (dq_write (utf8 cps)))%nat).
Proof.
  intros OK. unfold dq_write. rewrite decode_utf8 by exact OK.
  cbn [app flow_scalar]. change (34 =? 34) with true. cbv iota.
  rewrite <- app_assoc. cbn [app].
  rewrite dq_scan_cps; [|exact OK|rewrite !app_length; cbn [length]; lia].
  cbn [rev app length]. rewrite !app_length. cbn [length]. f_equal. f_equal. lia.
Qed.

(** the scalar is written plain or double-quoted *)
Definition inline_fmt (f : fmt) : Prop := f <> FLiteral.

Lemma inline_scalar_reads flow li s rest c :
  valid_text s -> inline_fmt (scalar_fmt flow s) -> rest_ok rest ->
  flow_scalar (scalar_bytes flow li s ++ rest) c = Some (s, rest, (c + length (scalar_bytes flow li s))%nat) /\
  tok_head (scalar_bytes flow li s).
Proof.
  intros (cps & OK & ->) IF R. unfold scalar_bytes. destruct (scalar_fmt flow (utf8 cps)) eqn:F; [| |congruence].
  - cbn [scalar_bytes_f].
    unfold scalar_fmt, compute_fmt, style_request, style_request_fixed in F.
    destruct (existsb is_break (utf8 cps)); [destruct (literal_safe (utf8 cps)); [destruct flow|]; discriminate F|].
    destruct (forallb plain_class (utf8 cps) && negb (three_dots (utf8 cps))) eqn:PL; [|discriminate F].
    destruct (is_null_word (utf8 cps)) eqn:NW; [discriminate F|].
    apply andb_true_iff in PL. destruct PL as [PL _].
    pose proof (plain_first_not_special _ PL) as FS.
    destruct (utf8 cps) as [|x r] eqn:E; [discriminate NW|]. destruct FS as (F1 & F2 & F3).
    split; [|cbn; auto].
    unfold flow_scalar. cbn [app]. replace (x =? 34) with false by (symmetry; now apply N.eqb_neq). rewrite F3.
    change (x :: r ++ rest) with ((x :: r) ++ rest). rewrite span_plain_app by assumption. reflexivity.
  - cbn [scalar_bytes_f]. split; [now apply dq_roundtrip_col|]. cbn. auto.
Qed.

(** length of the double-quoted form: at most four bytes per byte, plus the quotes *)
Lemma dq_cp_len cp : ok_cp cp = true -> (length (dq_cp cp) <= 4 * length (encode cp))%nat.
Proof.
  intros OK. destruct (ok_cp_fix _ OK) as (_ & LE & _). unfold dq_cp.
  destruct (encode_cases cp LE) as [[R E] | [[R E] | [[R E] | [R E]]]]; rewrite E; cbn [length];
    repeat (match goal with |- context [if ?b then _ else _] => destruct b end); unfold esc_seq;
    repeat (match goal with |- context [if ?b then _ else _] => destruct b eqn:?; try (apply N.ltb_lt in Heqb; lia) end);
    cbn [length]; try lia.
Qed.

(* ------------------------------------------------------------------ *)
(** * the loops of [emit_node] as functions *)
Fixpoint seq_loop (F : nat -> item -> out -> out) (l : list item) (k : nat) (o : out) : out * nat :=
  match l with
  | [] => (o, k)
  | x :: r => if is_nullb x then seq_loop F r k o else seq_loop F r (S k) (F k x o)
  end.

Fixpoint map_loop (F : nat -> bytes -> item -> out -> out) (m : list (bytes * item)) (k : nat) (o : out) : out * nat :=
  match m with
  | [] => (o, k)
  | (key, x) :: r => if is_nullb x then map_loop F r k o else map_loop F r (S k) (F k key x o)
  end.

Lemma seq_loop_eq (F : nat -> item -> out -> out) : forall l k o,
  (fix go (l : list item) (k : nat) (o : out) {struct l} : out * nat :=
     match l with
     | [] => (o, k)
     | x :: r => if is_nullb x then go r k o else go r (S k) (F k x o)
     end) l k o = seq_loop F l k o.
Proof. induction l as [|x r IH]; intros k o; [reflexivity|]. cbn [seq_loop]. destruct (is_nullb x); apply IH. Qed.

Lemma map_loop_eq (F : nat -> bytes -> item -> out -> out) : forall m k o,
  (fix go (m : list (bytes * item)) (k : nat) (o : out) {struct m} : out * nat :=
     match m with
     | [] => (o, k)
     | (key, x) :: r => if is_nullb x then go r k o else go r (S k) (F k key x o)
     end) m k o = map_loop F m k o.
Proof. induction m as [|[key x] r IH]; intros k o; [reflexivity|]. cbn [map_loop]. destruct (is_nullb x); apply IH. Qed.

Definition seq_child (d gi : nat) (k : nat) (x : item) (o : out) : out :=
  emit_node (S d) (gi + 2) (gi + 2) (if Nat.leb 3 d then prep_fseq (gi - 2) k else prep_bseq gi k) x o.

Definition map_child (d gi : nat) (k : nat) (key : bytes) (x : item) (o : out) : out :=
  let flow := Nat.leb 3 d in
  let ks := nums key in
  let f := scalar_fmt flow ks in
  let long := long_key f ks in
  let ok := put (if flow then prep_fmap_key (gi - 2) k long o else prep_bmap_key gi k long o) (scalar_bytes_f f (gi + 2) ks) in
  emit_node (S d) (gi + 2) (gi + 2) (if flow then prep_fmap_val (gi - 2) else prep_bmap_val gi long) x ok.

Lemma emit_node_lst d li gi prep l o :
  emit_node d li gi prep (Lst l) o =
  let flow := Nat.leb 3 d in
  let '(o1, k) := seq_loop (seq_child d gi) l 0%nat (prep (if flow then CInline else CBSeq) o) in
  if Nat.eqb k 0 then put (indent_to o1 gi) [91; 93] else if flow then put (indent_to o1 gi) [93] else o1.
Proof. cbn [emit_node]. rewrite (seq_loop_eq (seq_child d gi)). reflexivity. Qed.

Lemma emit_node_map d li gi prep m o :
  emit_node d li gi prep (Map m) o =
  let flow := Nat.leb 3 d in
  let '(o1, k) := map_loop (map_child d gi) m 0%nat (prep (if flow then CInline else CBMap) o) in
  if Nat.eqb k 0 then put (indent_to o1 gi) [123; 125] else if flow then put (indent_to o1 gi) [125] else o1.
Proof. cbn [emit_node]. rewrite (map_loop_eq (map_child d gi)). reflexivity. Qed.

(* ------------------------------------------------------------------ *)
(** * flow collections: the parser's steps *)
Definition seq_after (f : nat) (x : item) (acc : list item) (r : octs) (c1 : nat) : option (item * octs * nat) :=
  let '(r1, c2) := skip_sp r c1 in
  match r1 with
  | 44 :: r2 => let '(r3, c3) := skip_sp r2 (S c2) in flow_seq_items f r3 c3 (x :: acc)
  | 93 :: r2 => Some (Lst (rev (x :: acc)), r2, S c2)
  | _ => None
  end.

Lemma flow_seq_items_S f l c acc :
  flow_seq_items (S f) l c acc =
  match flow_node f l c with Some (x, r, c1) => seq_after f x acc r c1 | None => None end.
Proof. reflexivity. Qed.

Definition map_after (f : nat) (k : bytes) (v : item) (acc : list (bytes * item)) (r4 : octs) (c4 : nat)
  : option (item * octs * nat) :=
  let '(r5, c5) := skip_sp r4 c4 in
  match r5 with
  | 44 :: r6 => let '(r7, c7) := skip_sp r6 (S c5) in flow_map_items f r7 c7 ((k, v) :: acc)
  | 125 :: r6 => Some (build_map (rev ((k, v) :: acc)), r6, S c5)
  | _ => None
  end.

Lemma no_explicit_mark (l : octs) (c : nat) :
  match l with x :: _ => x <> 63 | [] => True end ->
  match l with
  | 63 :: 32 :: r => let '(l1, c1) := skip_sp r (c + 2)%nat in (l1, c1, true)
  | _ => (l, c, false)
  end = (l, c, false).
Proof.
  destruct l as [|x l]; [reflexivity|]. intros H. destruct x as [|p]; [reflexivity|].
  repeat (destruct p as [p|p|]; try reflexivity). congruence.
Qed.

(** one entry "key: value" of a flow map, the key written implicitly *)
Lemma flow_map_items_entry f ktok k a b vw after c acc :
  tok_head ktok -> tok_head vw -> (length ktok <= 1024)%nat ->
  (forall c0, flow_scalar (ktok ++ repeat SP a ++ 58 :: 32 :: repeat SP b ++ vw ++ after) c0 =
              Some (k, repeat SP a ++ 58 :: 32 :: repeat SP b ++ vw ++ after, (c0 + length ktok)%nat)) ->
  exists c3,
  flow_map_items (S f) (ktok ++ repeat SP a ++ 58 :: 32 :: repeat SP b ++ vw ++ after) c acc =
  match flow_node f (vw ++ after) c3 with
  | Some (v, r4, c4) => map_after f (unnums k) v acc r4 c4
  | None => None
  end.
Proof.
  intros HK HV LK FS. pose proof (tok_head_facts _ HK) as KF. pose proof (tok_head_facts _ HV) as VF.
  eexists. cbn [flow_map_items]. rewrite no_explicit_mark.
  2:{ destruct ktok as [|k0 kt]; [contradiction|]. cbn [app]. tauto. }
  rewrite FS. rewrite skip_sp_repeat. rewrite skip_sp_stop by (cbn; discriminate).
  cbn [negb andb]. replace (1024 <? c + length ktok - c)%nat with false by (symmetry; apply Nat.ltb_ge; lia).
  rewrite skip_sp_repeat. rewrite skip_sp_stop.
  2:{ destruct vw as [|v0 vt]; [contradiction|]. cbn [app]. tauto. }
  reflexivity.
Qed.

(* ------------------------------------------------------------------ *)
(** * pruned children *)
Definition pruned_list (l : list item) : list item := map prune (filter (fun x => negb (is_nullb x)) l).
Definition pruned_map (m : list (bytes * item)) : list (bytes * item) :=
  map (fun kv => (fst kv, prune (snd kv))) (filter (fun kv => negb (is_nullb (snd kv))) m).

Lemma is_null_nullb x : is_null x = is_nullb x.
Proof. destruct x; reflexivity. Qed.

Lemma prune_lst l : prune (Lst l) = Lst (pruned_list l).
Proof.
  cbn [prune]. f_equal. unfold pruned_list. induction l as [|x r IH]; [reflexivity|].
  cbn [filter map]. rewrite is_null_nullb. destruct (is_nullb x); cbn [negb map]; now rewrite IH.
Qed.

Lemma prune_map m : prune (Map m) = Map (pruned_map m).
Proof.
  cbn [prune]. f_equal. unfold pruned_map. induction m as [|[k x] r IH]; [reflexivity|].
  cbn [filter map snd fst]. rewrite is_null_nullb. destruct (is_nullb x); cbn [negb map fst snd]; now rewrite IH.
Qed.

Lemma is_nullb_false x : is_nullb x = false -> x <> Null.
Proof. intros H ->. discriminate H. Qed.

(* ------------------------------------------------------------------ *)
(** * sorted keys: loading the entries in order rebuilds the map *)
Lemma bytes_cmp_antisym a : forall b, bytes_cmp b a = CompOpp (bytes_cmp a b).
Proof.
  induction a as [|x a IH]; intros [|y b]; try reflexivity. cbn [bytes_cmp].
  rewrite (N.compare_antisym (Byte.to_N x) (Byte.to_N y)).
  destruct (N.compare (Byte.to_N x) (Byte.to_N y)); cbn [CompOpp]; auto.
Qed.

Lemma bytes_cmp_trans a : forall b c, bytes_cmp a b = Lt -> bytes_cmp b c = Lt -> bytes_cmp a c = Lt.
Proof.
  induction a as [|x a IH]; intros [|y b] [|z c]; cbn [bytes_cmp]; try congruence.
  destruct (N.compare_spec (Byte.to_N x) (Byte.to_N y)) as [E1|L1|G1]; try discriminate;
  destruct (N.compare_spec (Byte.to_N y) (Byte.to_N z)) as [E2|L2|G2]; try discriminate; intros H1 H2.
  - rewrite E1, E2, N.compare_refl. eapply IH; eauto.
  - rewrite E1. now apply N.compare_lt_iff in L2 as ->.
  - rewrite <- E2. now apply N.compare_lt_iff in L1 as ->.
  - assert (Byte.to_N x < Byte.to_N z) as L by lia. now apply N.compare_lt_iff in L as ->.
Qed.

Definition key_lt (k : bytes) (m : list (bytes * item)) : Prop := Forall (fun kv => bytes_cmp k (fst kv) = Lt) m.

Lemma keys_sorted_head k v r : keys_sorted ((k, v) :: r) = true -> key_lt k r /\ keys_sorted r = true.
Proof.
  revert k v. induction r as [|[k' v'] r IH]; intros k v H; [split; [constructor|reflexivity]|].
  cbn [keys_sorted] in H. destruct (bytes_cmp k k') eqn:E; try discriminate.
  destruct (IH k' v' H) as [L S]. split; [|exact H].
  constructor; [exact E|]. eapply Forall_impl; [|exact L]. cbn. intros kv Q. eapply bytes_cmp_trans; eauto.
Qed.

Lemma map_set_append m k v : Forall (fun kv => bytes_cmp (fst kv) k = Lt) m -> map_set m k v = m ++ [(k, v)].
Proof.
  induction 1 as [|[k' v'] m H F IH]; [reflexivity|]. cbn [map_set app fst] in *.
  rewrite (bytes_cmp_antisym k' k), H. cbn [CompOpp]. now rewrite IH.
Qed.

(** entries whose keys increase strictly, all above those already loaded *)
Inductive incr : list (bytes * item) -> Prop :=
| incr_nil : incr []
| incr_cons k v r : key_lt k r -> incr r -> incr ((k, v) :: r).

Lemma fold_map_set_incr es : incr es -> forall m0,
  Forall (fun kv => key_lt (fst kv) es) m0 ->
  fold_left (fun m kv => map_set m (fst kv) (snd kv)) es m0 = m0 ++ es.
Proof.
  induction 1 as [|k v r L I IH]; intros m0 F; [now rewrite app_nil_r|].
  cbn [fold_left fst snd]. rewrite map_set_append.
  - rewrite IH; [now rewrite <- app_assoc|]. apply Forall_app. split.
    + eapply Forall_impl; [|exact F]. cbn. intros kv Q. inversion Q; subst. assumption.
    + constructor; [exact L|constructor].
  - eapply Forall_impl; [|exact F]. cbn. intros kv Q. inversion Q; subst. assumption.
Qed.

Lemma build_map_incr es : incr es -> build_map es = Map es.
Proof. intros I. unfold build_map. rewrite (fold_map_set_incr es I []); [reflexivity|constructor]. Qed.

Lemma incr_pruned m : keys_sorted m = true -> incr (pruned_map m).
Proof.
  induction m as [|[k v] r IH]; intros S; [constructor|].
  destruct (keys_sorted_head _ _ _ S) as [L S']. unfold pruned_map. cbn [filter snd].
  destruct (is_nullb v); cbn [negb map fst snd]; [now apply IH|].
  constructor; [|now apply IH]. unfold key_lt in *. rewrite Forall_forall in *.
  intros kv I. apply in_map_iff in I. destruct I as (kv' & <- & I'). apply filter_In in I'. cbn [fst]. apply L. tauto.
Qed.

(* ------------------------------------------------------------------ *)
(** * what the flow Prepare functions write *)
Lemma flow_sep_put o li (br : N) (k : nat) : br <> 10 ->
  exists p1 p2, space_or_indent (put (indent_to o li) [br]) (Nat.ltb 0 k) li =
                put o (repeat SP p1 ++ br :: (if Nat.ltb 0 k then [SP] else []) ++ repeat SP p2).
Proof.
  intros B. set (o' := indent_to o li). rewrite space_or_indent_put. rewrite col_put_char by exact B.
  destruct k as [|k]; cbn [Nat.ltb Nat.leb andb]; subst o'; rewrite indent_to_put, !put_put;
    do 2 eexists; rewrite <- ?app_assoc; cbn [app]; reflexivity.
Qed.

Lemma prep_fseq_put li k ck o :
  exists p1 p2, prep_fseq li k ck o = put o (repeat SP p1 ++ (if Nat.eqb k 0 then 91 else 44) :: (if Nat.ltb 0 k then [SP] else []) ++ repeat SP p2).
Proof. unfold prep_fseq. apply flow_sep_put. destruct (Nat.eqb k 0); discriminate. Qed.

Lemma prep_fmap_key_put li k o :
  exists p1 p2, prep_fmap_key li k false o = put o (repeat SP p1 ++ (if Nat.eqb k 0 then 123 else 44) :: (if Nat.ltb 0 k then [SP] else []) ++ repeat SP p2).
Proof. unfold prep_fmap_key. apply flow_sep_put. destruct (Nat.eqb k 0); discriminate. Qed.

Lemma prep_fmap_val_put li ck o :
  exists a b, prep_fmap_val li ck o = put o (repeat SP a ++ 58 :: 32 :: repeat SP b).
Proof.
  unfold prep_fmap_val. destruct (flow_sep_put o li 58 1) as (p1 & p2 & E); [discriminate|].
  cbn [Nat.ltb Nat.leb] in E. exists p1, p2. rewrite E. reflexivity.
Qed.

Lemma repeat_app_sp a b : repeat SP a ++ repeat SP b = repeat SP (a + b).
Proof. symmetry. apply repeat_app. Qed.

(* ------------------------------------------------------------------ *)
(** * flow collections read back *)
Definition FlowReads (t : item) (w : octs) : Prop :=
  tok_head w /\
  forall fuel rest c, (length w < fuel)%nat -> rest_ok rest -> exists c', flow_node fuel (w ++ rest) c = Some (t, rest, c').

Definition sep_head (W : octs) : Prop := match W with [] => True | c :: _ => c = 32 \/ c = 44 end.

Lemma sep_head_rest_ok W q (cl : N) rest : sep_head W -> (cl = 93 \/ cl = 125) -> rest_ok (W ++ repeat SP q ++ cl :: rest).
Proof.
  destruct W as [|c W]; cbn [app sep_head rest_ok].
  - intros _ H. destruct q; cbn; destruct H as [-> | ->]; reflexivity.
  - intros [->| ->] _; reflexivity.
Qed.

(** every non-null item, emitted where the flow style applies, is a padded flow token that reads back *)
Definition P_flow (t : item) : Prop :=
  forall d li gi prep o, (3 <= d)%nat -> (match t with Scalar _ => (4 <= d)%nat | _ => True end) ->
  tree_ok t -> t <> Null ->
  exists p w, emit_node d li gi prep t o = put (prep CInline o) (repeat SP p ++ w) /\ FlowReads (prune t) w.

Lemma flow_fmt_inline s : inline_fmt (scalar_fmt true s).
Proof.
  unfold inline_fmt, scalar_fmt, compute_fmt. destruct (style_request s); [destruct (is_null_word s)| |]; discriminate.
Qed.

Lemma flow_node_scalar f l c s r c' :
  flow_scalar l c = Some (s, r, c') -> flow_node (S f) l c = Some (Scalar (unnums s), r, c').
Proof.
  intros H. destruct l as [|x l]; [discriminate H|]. cbn [flow_node].
  destruct (N.eqb_spec x 91) as [->|N1]; [cbn in H; discriminate H|].
  destruct (N.eqb_spec x 123) as [->|N2]; [cbn in H; discriminate H|].
  now rewrite H.
Qed.

Lemma flow_scalar_reads s li : wf_scalar (nums s) -> FlowReads (Scalar s) (scalar_bytes true li (nums s)).
Proof.
  intros [V _]. split.
  - apply (inline_scalar_reads true li (nums s) [] 0%nat V (flow_fmt_inline _) I).
  - intros fuel rest c L R. destruct (inline_scalar_reads true li (nums s) rest c V (flow_fmt_inline _) R) as [E H].
    destruct fuel as [|f]; [lia|]. eexists. rewrite (flow_node_scalar _ _ _ _ _ _ E). now rewrite unnums_nums.
Qed.

Lemma flow_node_open_seq f r c r1 c1 :
  skip_sp r (S c) = (r1, c1) -> match r1 with x :: _ => x <> 93 | [] => True end ->
  flow_node (S f) (91 :: r) c = flow_seq_items f r1 c1 [].
Proof.
  intros E H. cbn [flow_node]. change (91 =? 91) with true. cbv iota. rewrite E.
  destruct r1 as [|x r1]; [reflexivity|]. destruct x as [|p]; [reflexivity|].
  repeat (destruct p as [p|p|]; try reflexivity). congruence.
Qed.

Lemma flow_node_open_map f r c r1 c1 :
  skip_sp r (S c) = (r1, c1) -> match r1 with x :: _ => x <> 125 | [] => True end ->
  flow_node (S f) (123 :: r) c = flow_map_items f r1 c1 [].
Proof.
  intros E H. cbn [flow_node]. change (123 =? 91) with false. change (123 =? 123) with true. cbv iota. rewrite E.
  destruct r1 as [|x r1]; [reflexivity|]. destruct x as [|p]; [reflexivity|].
  repeat (destruct p as [p|p|]; try reflexivity). congruence.
Qed.

Lemma flow_empty_seq : FlowReads (Lst []) [91; 93].
Proof.
  split; [cbn; auto|]. intros fuel rest c L R. destruct fuel as [|f]; [cbn in L; lia|]. eexists. reflexivity.
Qed.

Lemma flow_empty_map : FlowReads (Map []) [123; 125].
Proof.
  split; [cbn; auto|]. intros fuel rest c L R. destruct fuel as [|f]; [cbn in L; lia|]. eexists. reflexivity.
Qed.

Lemma seq_after_comma f x acc p1 p l c :
  match l with y :: _ => y <> 32 | [] => True end ->
  seq_after f x acc (repeat SP p1 ++ 44 :: repeat SP p ++ l) c = flow_seq_items f l (S (c + p1) + p)%nat (x :: acc).
Proof.
  intros H. unfold seq_after. rewrite skip_sp_repeat. cbn [skip_sp]. change (44 =? 32) with false. cbv iota.
  rewrite skip_sp_repeat. now rewrite skip_sp_stop.
Qed.

Lemma seq_after_close f x acc q rest c :
  seq_after f x acc (repeat SP q ++ 93 :: rest) c = Some (Lst (rev (x :: acc)), rest, S (c + q)).
Proof. unfold seq_after. rewrite skip_sp_repeat. reflexivity. Qed.

Lemma tok_head_nonblank w tail : tok_head w -> match w ++ tail with y :: _ => y <> 32 | [] => True end.
Proof. intros H. pose proof (tok_head_facts _ H) as F. destruct w as [|y w]; [contradiction|]. cbn [app]. tauto. Qed.

(** the children of a flow sequence after the first one *)
Lemma flow_seq_rest d gi l : (3 <= d)%nat -> Forall P_flow l -> Forall tree_ok l ->
  forall k o, (1 <= k)%nat ->
  exists W k', seq_loop (seq_child d gi) l k o = (put o W, k') /\ (1 <= k')%nat /\ sep_head W /\
    forall q f x acc rest c, (length W < f)%nat ->
      exists c', seq_after f x acc (W ++ repeat SP q ++ 93 :: rest) c = Some (Lst (rev acc ++ x :: pruned_list l), rest, c').
Proof.
  intros D. induction l as [|x0 r IH]; intros FP FT k o K.
  - exists [], k. cbn [seq_loop]. repeat split; auto. intros q f x acc rest c _. cbn [app]. rewrite seq_after_close.
    cbn [rev pruned_list filter map]. eauto.
  - inversion FP as [|? ? P0 FP']; subst. inversion FT as [|? ? T0 FT']; subst. cbn [seq_loop].
    destruct (is_nullb x0) eqn:NB.
    + destruct (IH FP' FT' k o K) as (W & k' & E & K' & SH & R). exists W, k'. repeat split; auto.
      intros q f x acc rest c L. destruct (R q f x acc rest c L) as (c' & E'). exists c'. rewrite E'.
      unfold pruned_list. cbn [filter]. rewrite NB. reflexivity.
    + unfold seq_child at 2. replace (Nat.leb 3 d) with true by (symmetry; apply Nat.leb_le; exact D).
      destruct (P0 (S d) (gi + 2)%nat (gi + 2)%nat (prep_fseq (gi - 2) k) o) as (p & w & EM & [TH FR]);
        [lia|destruct x0; auto; lia|exact T0|now apply is_nullb_false|].
      destruct (prep_fseq_put (gi - 2) k CInline o) as (p1 & p2 & EP).
      replace (Nat.eqb k 0) with false in EP by (symmetry; apply Nat.eqb_neq; lia).
      replace (Nat.ltb 0 k) with true in EP by (symmetry; apply Nat.ltb_lt; lia).
      rewrite EM, EP, put_put.
      destruct (IH FP' FT' (S k) (put o ((repeat SP p1 ++ 44 :: [SP] ++ repeat SP p2) ++ repeat SP p ++ w))) as (W & k' & E & K' & SH & R); [lia|].
      exists (((repeat SP p1 ++ 44 :: [SP] ++ repeat SP p2) ++ repeat SP p ++ w) ++ W), k'. rewrite E, put_put.
      repeat split; auto.
      { destruct p1; cbn; auto. }
      intros q f x acc rest c L.
      assert (((repeat SP p1 ++ 44 :: [SP] ++ repeat SP p2) ++ repeat SP p ++ w) ++ W =
              repeat SP p1 ++ 44 :: repeat SP (1 + p2 + p) ++ w ++ W) as EQ.
      { rewrite <- !app_assoc. cbn [app]. f_equal. f_equal. rewrite <- !repeat_app_sp. cbn [repeat app]. now rewrite <- app_assoc. }
      rewrite EQ in *.
      replace ((repeat SP p1 ++ 44 :: repeat SP (1 + p2 + p) ++ w ++ W) ++ repeat SP q ++ 93 :: rest)
        with (repeat SP p1 ++ 44 :: repeat SP (1 + p2 + p) ++ w ++ (W ++ repeat SP q ++ 93 :: rest))
        by (repeat (rewrite <- app_assoc; cbn [app]); reflexivity).
      rewrite seq_after_comma by (apply tok_head_nonblank; exact TH).
      rewrite !app_length in L. cbn [length] in L. rewrite !app_length in L. rewrite !repeat_length in L.
      destruct f as [|f]; [lia|]. rewrite flow_seq_items_S.
      destruct (FR f (W ++ repeat SP q ++ 93 :: rest) (S (c + p1) + (1 + p2 + p))%nat) as (c1 & E1);
        [lia|apply sep_head_rest_ok; auto|].
      rewrite E1. destruct (R q f (prune x0) (x :: acc) rest c1) as (c' & E'); [lia|]. exists c'. rewrite E'.
      unfold pruned_list. cbn [filter rev]. rewrite NB. cbn [negb map]. now rewrite <- app_assoc.
Qed.

(** length of an inline scalar token *)
Lemma dq_cps_len cps : forallb ok_cp cps = true -> (length (flat_map dq_cp cps) <= 4 * length (utf8 cps))%nat.
Proof.
  induction cps as [|cp cps IH]; intros OK; [cbn; lia|]. cbn [forallb] in OK. apply andb_true_iff in OK. destruct OK as [O1 O2].
  unfold utf8 in *. cbn [flat_map]. rewrite !app_length. pose proof (dq_cp_len _ O1). specialize (IH O2). lia.
Qed.

Lemma scalar_bytes_len flow li s : valid_text s -> inline_fmt (scalar_fmt flow s) ->
  (length (scalar_bytes flow li s) <= 4 * length s + 2)%nat.
Proof.
  intros (cps & OK & ->) IF. unfold scalar_bytes. destruct (scalar_fmt flow (utf8 cps)); [cbn; lia| |congruence].
  cbn [scalar_bytes_f]. unfold dq_write. rewrite decode_utf8 by exact OK. cbn [length]. rewrite app_length. cbn [length].
  pose proof (dq_cps_len _ OK). lia.
Qed.

Lemma length_nums s : length (nums s) = length s.
Proof. apply map_length. Qed.

Lemma map_after_comma f k v acc p1 p l c :
  match l with y :: _ => y <> 32 | [] => True end ->
  map_after f k v acc (repeat SP p1 ++ 44 :: repeat SP p ++ l) c = flow_map_items f l (S (c + p1) + p)%nat ((k, v) :: acc).
Proof.
  intros H. unfold map_after. rewrite skip_sp_repeat. cbn [skip_sp]. change (44 =? 32) with false. cbv iota.
  rewrite skip_sp_repeat. now rewrite skip_sp_stop.
Qed.

Lemma map_after_close f k v acc q rest c :
  map_after f k v acc (repeat SP q ++ 125 :: rest) c = Some (build_map (rev ((k, v) :: acc)), rest, S (c + q)).
Proof. unfold map_after. rewrite skip_sp_repeat. reflexivity. Qed.

Definition entry_ok (kv : bytes * item) : Prop :=
  wf_scalar (nums (fst kv)) /\ (length (fst kv) < 256)%nat /\ tree_ok (snd kv).

(** one flow map entry: separator, then the entry text [E], which is read as key and value *)
Lemma flow_entry d gi key x : (3 <= d)%nat -> P_flow x -> entry_ok (key, x) -> x <> Null ->
  forall k o, exists p1 p2 E,
    map_child d gi k key x o =
      put o (repeat SP p1 ++ (if Nat.eqb k 0 then 123 else 44) :: (if Nat.ltb 0 k then [SP] else []) ++ repeat SP p2 ++ E) /\
    tok_head E /\
    forall f c acc after, (length E < f)%nat -> rest_ok after ->
      exists c4, flow_map_items (S f) (E ++ after) c acc = map_after f key (prune x) acc after c4.
Proof.
  intros D PX (WK & LK & TX) NX k o. cbn [fst snd] in *.
  unfold map_child. replace (Nat.leb 3 d) with true by (symmetry; apply Nat.leb_le; exact D). cbv zeta.
  assert (long_key (scalar_fmt true (nums key)) (nums key) = false) as LKF.
  { unfold long_key. pose proof (flow_fmt_inline (nums key)) as IF. unfold inline_fmt in IF.
    destruct (scalar_fmt true (nums key)); try congruence; apply Nat.ltb_ge; rewrite length_nums; lia. }
  rewrite LKF. change (scalar_bytes_f (scalar_fmt true (nums key)) (gi + 2) (nums key)) with (scalar_bytes true (gi + 2) (nums key)).
  set (ktok := scalar_bytes true (gi + 2) (nums key)).
  destruct (prep_fmap_key_put (gi - 2) k o) as (p1 & p2 & EK). rewrite EK, put_put.
  set (ok := put o _).
  destruct (PX (S d) (gi + 2)%nat (gi + 2)%nat (prep_fmap_val (gi - 2)) ok) as (p & vw & EM & [TH FR]);
    [lia|destruct x; auto; lia|exact TX|exact NX|].
  destruct (prep_fmap_val_put (gi - 2) CInline ok) as (a & b & EV). rewrite EM, EV, put_put. subst ok. rewrite put_put.
  destruct WK as [VK _].
  exists p1, p2, (ktok ++ repeat SP a ++ 58 :: 32 :: repeat SP (b + p) ++ vw). split; [|split].
  - f_equal. repeat (rewrite <- app_assoc; cbn [app]). rewrite <- repeat_app_sp. repeat (rewrite <- app_assoc; cbn [app]). reflexivity.
  - destruct (inline_scalar_reads true (gi + 2) (nums key) [] 0%nat VK (flow_fmt_inline _) I) as [_ H]. fold ktok in H.
    destruct ktok; [contradiction|exact H].
  - intros f c acc after L R.
    assert (tok_head ktok) as HK by apply (inline_scalar_reads true (gi + 2) (nums key) [] 0%nat VK (flow_fmt_inline _) I).
    assert (length ktok <= 1024)%nat as LT.
    { pose proof (scalar_bytes_len true (gi + 2) (nums key) VK (flow_fmt_inline _)) as Q. fold ktok in Q. rewrite length_nums in Q. lia. }
    destruct (flow_map_items_entry f ktok (nums key) a (b + p) vw after c acc HK TH LT) as (c3 & E3).
    { intros c0. apply (inline_scalar_reads true (gi + 2) (nums key) _ c0 VK (flow_fmt_inline _)). destruct a; reflexivity. }
    repeat (rewrite <- app_assoc; cbn [app]). rewrite E3.
    rewrite !app_length in L. cbn [length] in L. rewrite !app_length in L.
    destruct (FR f after c3) as (c4 & E4); [lia|exact R|]. rewrite E4, unnums_nums. eauto.
Qed.

(** a whole flow sequence, from the opening bracket *)
Lemma flow_seq_all d gi l : (3 <= d)%nat -> Forall P_flow l -> Forall tree_ok l -> forall o,
  (seq_loop (seq_child d gi) l 0%nat o = (o, 0%nat) /\ pruned_list l = []) \/
  (exists p1 W k', seq_loop (seq_child d gi) l 0%nat o = (put o (repeat SP p1 ++ 91 :: W), k') /\ (1 <= k')%nat /\
     forall q fuel rest c, (length (91 :: W ++ repeat SP q ++ [93])%N < fuel)%nat ->
       exists c', flow_node fuel (91 :: W ++ repeat SP q ++ 93 :: rest) c = Some (Lst (pruned_list l), rest, c')).
Proof.
  intros D. induction l as [|x0 r IH]; intros FP FT o; [left; split; reflexivity|].
  inversion FP as [|? ? P0 FP']; subst. inversion FT as [|? ? T0 FT']; subst. cbn [seq_loop].
  destruct (is_nullb x0) eqn:NB.
  - destruct (IH FP' FT' o) as [[E Q]|(p1 & W & k' & E & K & R)].
    + left. split; [exact E|]. unfold pruned_list in *. cbn [filter]. now rewrite NB.
    + right. exists p1, W, k'. repeat split; auto. intros q fuel rest c L. destruct (R q fuel rest c L) as (c' & E').
      exists c'. rewrite E'. unfold pruned_list. cbn [filter]. now rewrite NB.
  - right. unfold seq_child at 2. replace (Nat.leb 3 d) with true by (symmetry; apply Nat.leb_le; exact D).
    destruct (P0 (S d) (gi + 2)%nat (gi + 2)%nat (prep_fseq (gi - 2) 0) o) as (p & w & EM & [TH FR]);
      [lia|destruct x0; auto; lia|exact T0|now apply is_nullb_false|].
    destruct (prep_fseq_put (gi - 2) 0 CInline o) as (p1 & p2 & EP). cbn [Nat.eqb Nat.ltb Nat.leb app] in EP.
    rewrite EM, EP, put_put.
    destruct (flow_seq_rest d gi r D FP' FT' 1%nat (put o ((repeat SP p1 ++ 91 :: repeat SP p2) ++ repeat SP p ++ w))) as (W & k' & E & K' & SH & R); [lia|].
    exists p1, (repeat SP (p2 + p) ++ w ++ W), k'. rewrite E, put_put. split; [|split; [exact K'|]].
    + f_equal. repeat (rewrite <- app_assoc; cbn [app]). rewrite <- repeat_app_sp. repeat (rewrite <- app_assoc; cbn [app]). reflexivity.
    + intros q fuel rest c L. cbn [length] in L. rewrite !app_length in L. cbn [length] in L. rewrite repeat_length in L.
      destruct fuel as [|f]; [lia|].
      rewrite (flow_node_open_seq f _ c (w ++ W ++ repeat SP q ++ 93 :: rest) (S c + (p2 + p))%nat).
      2:{ repeat (rewrite <- app_assoc; cbn [app]). rewrite skip_sp_repeat. apply skip_sp_stop. now apply tok_head_nonblank. }
      2:{ pose proof (tok_head_facts _ TH) as F. destruct w; [contradiction|]. cbn [app]. tauto. }
      destruct f as [|f]; [lia|]. rewrite flow_seq_items_S.
      destruct (FR f (W ++ repeat SP q ++ 93 :: rest) (S c + (p2 + p))%nat) as (c1 & E1); [lia|apply sep_head_rest_ok; auto|].
      rewrite E1. destruct (R q f (prune x0) [] rest c1) as (c' & E'); [lia|]. exists c'. rewrite E'.
      unfold pruned_list. cbn [filter rev app]. rewrite NB. reflexivity.
Qed.

(** the entries of a flow map after the first one *)
Lemma flow_map_rest d gi m : (3 <= d)%nat -> Forall (fun kv => P_flow (snd kv)) m -> Forall entry_ok m ->
  forall k o, (1 <= k)%nat ->
  exists W k', map_loop (map_child d gi) m k o = (put o W, k') /\ (1 <= k')%nat /\ sep_head W /\
    forall q f key v acc rest c, (length W < f)%nat ->
      exists c', map_after f key v acc (W ++ repeat SP q ++ 125 :: rest) c =
                 Some (build_map (rev acc ++ (key, v) :: pruned_map m), rest, c').
Proof.
  intros D. induction m as [|[key0 x0] r IH]; intros FP FT k o K.
  - exists [], k. cbn [map_loop]. repeat split; auto. intros q f key v acc rest c _. cbn [app]. rewrite map_after_close.
    cbn [rev pruned_map filter map]. eauto.
  - inversion FP as [|? ? P0 FP']; subst. inversion FT as [|? ? T0 FT']; subst. cbn [map_loop snd] in *.
    destruct (is_nullb x0) eqn:NB.
    + destruct (IH FP' FT' k o K) as (W & k' & E & K' & SH & R). exists W, k'. repeat split; auto.
      intros q f key v acc rest c L. destruct (R q f key v acc rest c L) as (c' & E'). exists c'. rewrite E'.
      unfold pruned_map. cbn [filter snd]. rewrite NB. reflexivity.
    + destruct (flow_entry d gi key0 x0 D P0 T0 (is_nullb_false _ NB) k o) as (p1 & p2 & E & EM & TH & RD).
      replace (Nat.eqb k 0) with false in EM by (symmetry; apply Nat.eqb_neq; lia).
      replace (Nat.ltb 0 k) with true in EM by (symmetry; apply Nat.ltb_lt; lia).
      rewrite EM.
      destruct (IH FP' FT' (S k) (put o (repeat SP p1 ++ 44 :: [SP] ++ repeat SP p2 ++ E))) as (W & k' & EL & K' & SH & R); [lia|].
      exists ((repeat SP p1 ++ 44 :: [SP] ++ repeat SP p2 ++ E) ++ W), k'. rewrite EL, put_put.
      repeat split; auto.
      { destruct p1; cbn; auto. }
      intros q f key v acc rest c L.
      replace (((repeat SP p1 ++ 44 :: [SP] ++ repeat SP p2 ++ E) ++ W) ++ repeat SP q ++ 125 :: rest)
        with (repeat SP p1 ++ 44 :: repeat SP (1 + p2) ++ E ++ (W ++ repeat SP q ++ 125 :: rest))
        by (cbn [repeat Nat.add]; repeat (rewrite <- app_assoc; cbn [app]); reflexivity).
      rewrite map_after_comma by (apply tok_head_nonblank; exact TH).
      rewrite ?app_length in L; cbn [length app] in L; rewrite ?app_length in L; cbn [length app] in L; rewrite ?app_length, ?repeat_length in L.
      destruct f as [|f]; [lia|].
      destruct (RD f (S (c + p1) + (1 + p2))%nat ((key, v) :: acc) (W ++ repeat SP q ++ 125 :: rest)) as (c4 & E4);
        [lia|apply sep_head_rest_ok; auto|].
      rewrite E4. destruct (R q f key0 (prune x0) ((key, v) :: acc) rest c4) as (c' & E'); [lia|]. exists c'. rewrite E'.
      unfold pruned_map. cbn [filter rev snd fst]. rewrite NB. cbn [negb map fst snd]. now rewrite <- app_assoc.
Qed.

(** a whole flow map, from the opening brace *)
Lemma flow_map_all d gi m : (3 <= d)%nat -> Forall (fun kv => P_flow (snd kv)) m -> Forall entry_ok m -> forall o,
  (map_loop (map_child d gi) m 0%nat o = (o, 0%nat) /\ pruned_map m = []) \/
  (exists p1 W k', map_loop (map_child d gi) m 0%nat o = (put o (repeat SP p1 ++ 123 :: W), k') /\ (1 <= k')%nat /\
     forall q fuel rest c, (length (123 :: W ++ repeat SP q ++ [125])%N < fuel)%nat ->
       exists c', flow_node fuel (123 :: W ++ repeat SP q ++ 125 :: rest) c = Some (build_map (pruned_map m), rest, c')).
Proof.
  intros D. induction m as [|[key0 x0] r IH]; intros FP FT o; [left; split; reflexivity|].
  inversion FP as [|? ? P0 FP']; subst. inversion FT as [|? ? T0 FT']; subst. cbn [map_loop snd] in *.
  destruct (is_nullb x0) eqn:NB.
  - destruct (IH FP' FT' o) as [[E Q]|(p1 & W & k' & E & K & R)].
    + left. split; [exact E|]. unfold pruned_map in *. cbn [filter snd]. now rewrite NB.
    + right. exists p1, W, k'. repeat split; auto. intros q fuel rest c L. destruct (R q fuel rest c L) as (c' & E').
      exists c'. rewrite E'. unfold pruned_map. cbn [filter snd]. now rewrite NB.
  - right. destruct (flow_entry d gi key0 x0 D P0 T0 (is_nullb_false _ NB) 0%nat o) as (p1 & p2 & E & EM & TH & RD).
    cbn [Nat.eqb Nat.ltb Nat.leb app] in EM. rewrite EM.
    destruct (flow_map_rest d gi r D FP' FT' 1%nat (put o (repeat SP p1 ++ 123 :: repeat SP p2 ++ E))) as (W & k' & EL & K' & SH & R); [lia|].
    exists p1, (repeat SP p2 ++ E ++ W), k'. rewrite EL, put_put. split; [|split; [exact K'|]].
    + f_equal. repeat (rewrite <- app_assoc; cbn [app]). reflexivity.
    + intros q fuel rest c L. cbn [length] in L. rewrite !app_length in L. cbn [length] in L. rewrite repeat_length in L.
      destruct fuel as [|f]; [lia|].
      rewrite (flow_node_open_map f _ c (E ++ W ++ repeat SP q ++ 125 :: rest) (S c + p2)%nat).
      2:{ repeat (rewrite <- app_assoc; cbn [app]). rewrite skip_sp_repeat. apply skip_sp_stop. now apply tok_head_nonblank. }
      2:{ pose proof (tok_head_facts _ TH) as F. destruct E; [contradiction|]. cbn [app]. tauto. }
      destruct f as [|f]; [lia|].
      destruct (RD f (S c + p2)%nat [] (W ++ repeat SP q ++ 125 :: rest)) as (c4 & E4); [lia|apply sep_head_rest_ok; auto|].
      rewrite E4. destruct (R q f key0 (prune x0) [] rest c4) as (c' & E'); [lia|]. exists c'. rewrite E'.
      unfold pruned_map. cbn [filter rev app snd]. rewrite NB. reflexivity.
Qed.

Theorem flow_all t : P_flow t.
Proof.
  induction t using item_ind'; intros d li gi prep o D DS TO NN.
  - congruence.
  - inversion TO; subst. exists 0%nat, (scalar_bytes true li (nums s)). split; [|now apply flow_scalar_reads].
    cbn [emit_node repeat app]. now replace (Nat.leb 4 d) with true by (symmetry; apply Nat.leb_le; exact DS).
  - inversion TO as [| |? FT|]; subst. rewrite emit_node_lst, prune_lst.
    replace (Nat.leb 3 d) with true by (symmetry; apply Nat.leb_le; exact D). cbv zeta.
    destruct (flow_seq_all d gi l D H FT (prep CInline o)) as [[E Q]|(p1 & W & k' & E & K & R)]; rewrite E.
    + cbn [Nat.eqb]. rewrite indent_to_put, put_put, Q. eexists _, [91; 93]. split; [reflexivity|apply flow_empty_seq].
    + replace (Nat.eqb k' 0) with false by (symmetry; apply Nat.eqb_neq; lia).
      rewrite indent_to_put, !put_put. eexists p1, (91 :: W ++ repeat SP _ ++ [93]). split.
      * f_equal. repeat (rewrite <- app_assoc; cbn [app]). reflexivity.
      * split; [cbn; auto|]. intros fuel rest c L RO.
        replace ((91 :: W ++ repeat SP (gi - col (put (prep CInline o) (repeat SP p1 ++ 91 :: W))) ++ [93]) ++ rest)
          with (91 :: W ++ repeat SP (gi - col (put (prep CInline o) (repeat SP p1 ++ 91 :: W))) ++ 93 :: rest)
          by (cbn [app]; repeat (rewrite <- app_assoc; cbn [app]); reflexivity).
        apply R. exact L.
  - inversion TO as [| | |? KS FT]; subst. rewrite emit_node_map, prune_map.
    replace (Nat.leb 3 d) with true by (symmetry; apply Nat.leb_le; exact D). cbv zeta.
    assert (Forall entry_ok m) as FE by exact FT.
    destruct (flow_map_all d gi m D H FE (prep CInline o)) as [[E Q]|(p1 & W & k' & E & K & R)]; rewrite E.
    + cbn [Nat.eqb]. rewrite indent_to_put, put_put, Q. eexists _, [123; 125]. split; [reflexivity|apply flow_empty_map].
    + replace (Nat.eqb k' 0) with false by (symmetry; apply Nat.eqb_neq; lia).
      rewrite indent_to_put, !put_put. eexists p1, (123 :: W ++ repeat SP _ ++ [125]). split.
      * f_equal. repeat (rewrite <- app_assoc; cbn [app]). reflexivity.
      * split; [cbn; auto|]. intros fuel rest c L RO.
        replace ((123 :: W ++ repeat SP (gi - col (put (prep CInline o) (repeat SP p1 ++ 123 :: W))) ++ [125]) ++ rest)
          with (123 :: W ++ repeat SP (gi - col (put (prep CInline o) (repeat SP p1 ++ 123 :: W))) ++ 125 :: rest)
          by (cbn [app]; repeat (rewrite <- app_assoc; cbn [app]); reflexivity).
        rewrite <- (build_map_incr _ (incr_pruned _ KS)). apply R. exact L.
Qed.

(* ------------------------------------------------------------------ *)
(** * block context *)

(** a byte that can start the next line's content *)
Definition ok_start (c0 : N) : Prop := c0 <> 32 /\ c0 <> 10 /\ c0 <> 9 /\ lit_byte_ok c0.

(** what follows a node in block context: the end of the document, or a line
    feed and a line indented by [k] < [b] blanks; [rest'] is where the reader
    stands afterwards (line-start form) *)
Inductive follows_b (b : nat) : octs -> octs -> nat -> Prop :=
| fb_end c : follows_b b [] [] c
| fb_line k c0 r : (k < b)%nat -> ok_start c0 -> follows_b b (10 :: repeat SP k ++ c0 :: r) (c0 :: r) k.

Lemma follows_b_weaken b b' rest rest' k : (b <= b')%nat -> follows_b b rest rest' k -> follows_b b' rest rest' k.
Proof. intros L H. destruct H; constructor; auto; lia. Qed.

Lemma next_line_spaces k : forall c c0 r, c0 <> 32 -> c0 <> 10 ->
  next_line (repeat SP k ++ c0 :: r) c true = Some (c0 :: r, (c + k)%nat).
Proof.
  induction k as [|k IH]; intros c c0 r N1 N2; cbn [repeat app next_line].
  - replace (c0 =? 10) with false by (symmetry; now apply N.eqb_neq).
    replace (c0 =? 32) with false by (symmetry; now apply N.eqb_neq). f_equal. f_equal. lia.
  - change (SP =? 10) with false. change (SP =? 32) with true. cbv iota. rewrite IH by assumption. f_equal. f_equal. lia.
Qed.

Lemma to_ls_follows b rest rest' k c : follows_b b rest rest' k ->
  exists c', to_ls rest c = Some (rest', c') /\ (rest' <> [] -> c' = k).
Proof.
  intros H. destruct H as [c1|k c0 r K (N1 & N2 & _)].
  - exists c. split; [reflexivity|congruence].
  - exists k. split; [|reflexivity]. unfold to_ls. cbn [next_line]. change (10 =? 10) with true. cbv iota.
    now rewrite next_line_spaces.
Qed.

Lemma follows_b_not_value b rest rest' k : follows_b b rest rest' k -> is_value_mark rest = false.
Proof. intros H. destruct H; reflexivity. Qed.

Definition BlockReads (t : item) (w : octs) (c minlit : nat) (akey : bool) (b : nat) : Prop :=
  forall fuel rest rest' k, (length w + 2 < fuel)%nat -> follows_b b rest rest' k ->
  exists c', block_node fuel (w ++ rest) c minlit akey = Some (t, rest', c') /\ (rest' <> [] -> c' = k).

(** ** scalars *)
Lemma lit_load_end li minlit cps :
  (minlit <= li)%nat -> forallb ok_cp cps = true -> literal_safe (utf8 cps) = true ->
  exists c', lit_load (10 :: lit_body li true (decode (utf8 cps))) minlit = Some (utf8 cps, [], c').
Proof.
  intros ML OK SAFE. pose proof (lit_roundtrip li minlit cps ML OK SAFE) as H.
  unfold lit_write in H. cbn [load_scalar] in H.
  destruct (lit_load (10 :: lit_body li true (decode (utf8 cps))) minlit) as [[[x y] c]|]; [|discriminate H].
  inversion H; subst. eauto.
Qed.

Lemma lit_load_line li minlit cps k c0 r :
  (minlit <= li)%nat -> forallb ok_cp cps = true -> literal_safe (utf8 cps) = true ->
  (k < li)%nat -> ok_start c0 ->
  lit_load (10 :: lit_body li true (decode (utf8 cps)) ++ 10 :: repeat SP k ++ c0 :: r) minlit = Some (utf8 cps, c0 :: r, k).
Proof.
  intros ML OK SAFE K (N32 & N10 & N9 & BC). rewrite decode_utf8 by exact OK. rewrite lit_body_bytes by exact OK.
  set (s := utf8 cps) in *. unfold literal_safe in SAFE. destruct s as [|b0 s0] eqn:ES; [discriminate|].
  apply andb_true_iff in SAFE. destruct SAFE as [SAFE CH]. apply andb_true_iff in SAFE. destruct SAFE as [SAFE E1].
  apply andb_true_iff in SAFE. destruct SAFE as [NL NS].
  apply negb_true_iff, N.eqb_neq in NL. apply negb_true_iff, N.eqb_neq in NS.
  destruct (ends_in_one_lf_inv _ E1) as (p & EP & P).
  destruct p as [|b0' body]; [cbn in EP; inversion EP; subst; congruence|].
  cbn [app] in EP. inversion EP as [[EB ES0]]. subst b0'.
  assert (Forall lit_byte_ok (b0 :: body)) as FB.
  { assert (Forall (fun b => lit_char_ok b = true) (b0 :: s0)) as FC by (apply Forall_forall; now apply forallb_forall).
    rewrite ES0 in FC. change (b0 :: body ++ [10]) with ((b0 :: body) ++ [10]) in FC.
    apply Forall_app in FC. destruct FC as [FC _]. eapply Forall_impl; [|exact FC]. apply lit_char_ok_byte. }
  inversion FB as [|? ? B0 FB']; subst.
  unfold lit_load. change (10 =? 10) with true. cbv iota.
  cbn [lit_bytes]. replace (b0 =? 10) with false by (symmetry; now apply N.eqb_neq).
  rewrite <- app_assoc. rewrite lit_scan_spaces by (now left). cbn [app lit_scan Nat.add].
  replace (b0 =? 32) with false by (symmetry; now apply N.eqb_neq). cbn [andb].
  replace (Nat.max minlit li) with li by lia. rewrite Nat.ltb_irrefl. rewrite andb_false_r.
  rewrite (bad_false _ B0). replace (b0 =? 10) with false by (symmetry; now apply N.eqb_neq).
  destruct (lit_scan_body li (10 :: repeat SP k ++ c0 :: r) body FB') as [Hm _]. rewrite Hm.
  change (10 :: repeat SP k ++ c0 :: r) with (repeat 10 1 ++ repeat SP k ++ c0 :: r).
  rewrite lit_scan_tail by assumption.
  f_equal. f_equal. f_equal. unfold clip. rewrite rev_append_rev.
  assert (exists x xs, rev body ++ [b0] = x :: xs /\ x <> 10) as (x & xs & X & XN).
  { destruct P as [P|(p' & y & P & Y)]; [discriminate P|].
    destruct (rev body) as [|z zs] eqn:R; [exists b0, []; split; [reflexivity|exact NL]|].
    exists z, (zs ++ [b0]). split; [reflexivity|].
    assert (rev (b0 :: body) = rev (p' ++ [y])) as Q by now rewrite P. cbn [rev] in Q. rewrite R, rev_app_distr in Q. cbn in Q.
    inversion Q; subst. exact Y. }
  rewrite X. rewrite drop_lfs_repeat by exact XN. cbn [repeat app]. change (10 =? 10) with true. cbv iota.
  rewrite <- X. cbn [rev]. rewrite rev_app_distr, rev_involutive. reflexivity.
Qed.

Lemma block_node_inline f l c minlit akey s rest c1 b rest' k :
  flow_scalar l c = Some (s, rest, c1) -> follows_b b rest rest' k ->
  exists c', block_node (S f) l c minlit akey = Some (Scalar (unnums s), rest', c') /\ (rest' <> [] -> c' = k).
Proof.
  intros E FO. destruct l as [|x l]; [discriminate E|].
  assert (x <> 91 /\ x <> 123 /\ x <> 124 /\ x <> 45 /\ x <> 63) as (N1 & N2 & N3 & N4 & N5).
  { repeat split; intros ->; cbn in E; discriminate E. }
  cbn [block_node].
  replace (x =? 91) with false by (symmetry; now apply N.eqb_neq).
  replace (x =? 123) with false by (symmetry; now apply N.eqb_neq).
  replace (x =? 124) with false by (symmetry; now apply N.eqb_neq). cbn [orb].
  rewrite is_seq_mark_other, is_longkey_mark_other by assumption. cbn [andb].
  unfold key_scalar. rewrite E. rewrite (follows_b_not_value _ _ _ _ FO). cbn [andb].
  destruct (to_ls_follows _ _ _ _ c1 FO) as (c' & T & CK). rewrite T. eauto.
Qed.

Lemma follows_rest_ok b rest rest' k : follows_b b rest rest' k -> rest_ok rest.
Proof. intros H. destruct H; cbn; auto. Qed.

Definition nb_head (w : octs) : Prop := match w with x :: _ => x <> 32 /\ x <> 10 | [] => False end.

Lemma block_scalar_reads s li minlit c akey b :
  wf_scalar (nums s) -> (minlit <= li)%nat -> (b <= li)%nat ->
  BlockReads (Scalar s) (scalar_bytes false li (nums s)) c minlit akey b /\ nb_head (scalar_bytes false li (nums s)).
Proof.
  intros [V _] ML BL. destruct (scalar_fmt false (nums s)) eqn:F.
  1,2: assert (inline_fmt (scalar_fmt false (nums s))) as IF by (rewrite F; discriminate).
  1,2: split; [|pose proof (proj2 (inline_scalar_reads false li (nums s) [] 0%nat V IF I)) as H;
                 pose proof (tok_head_facts _ H) as Q; destruct (scalar_bytes false li (nums s)); [contradiction|cbn; tauto]].
  1,2: intros fuel rest rest' k L FO; destruct fuel as [|f]; [lia|];
       destruct (inline_scalar_reads false li (nums s) rest c V IF (follows_rest_ok _ _ _ _ FO)) as [E _];
       destruct (block_node_inline f _ c minlit akey _ _ _ b rest' k E FO) as (c' & E' & CK);
       exists c'; rewrite E', unnums_nums; auto.
  (* literal *)
  unfold scalar_bytes. rewrite F. cbn [scalar_bytes_f]. split; [|cbn; split; discriminate].
  destruct V as (cps & OK & EV).
  assert (literal_safe (nums s) = true) as SAFE.
  { unfold scalar_fmt, compute_fmt, style_request, style_request_fixed in F.
    destruct (existsb is_break (nums s)).
    - destruct (literal_safe (nums s)); [reflexivity|discriminate F].
    - destruct (forallb plain_class (nums s) && negb (three_dots (nums s))); [destruct (is_null_word (nums s))|]; discriminate F. }
  rewrite EV in *.
  intros fuel rest rest' k L FO. destruct fuel as [|f]; [lia|]. unfold lit_write. cbn [app block_node].
  change (124 =? 91) with false. change (124 =? 123) with false. change (124 =? 124) with true. cbn [orb]. cbv iota.
  destruct FO as [c1|k c0 r K OS].
  - rewrite app_nil_r. destruct (lit_load_end li minlit cps ML OK SAFE) as (c' & E). rewrite E, <- EV, unnums_nums.
    exists c'. split; [reflexivity|congruence].
  - rewrite (lit_load_line li minlit cps k c0 r ML OK SAFE) by (lia || exact OS). rewrite <- EV, unnums_nums.
    exists k. split; reflexivity.
Qed.

(** ** flow groups met in block context *)
Lemma flow_group_head t w : FlowReads t w -> match t with Lst _ | Map _ => True | _ => False end ->
  match w with x :: _ => x = 91 \/ x = 123 | [] => False end.
Proof.
  intros [TH FR] G. destruct w as [|x w]; [contradiction|]. cbn in TH.
  destruct TH as [->|[->|H]]; auto. exfalso.
  destruct (FR (S (S (length (x :: w)))) [] 0%nat) as (c' & E); [lia|exact I|].
  rewrite app_nil_r in E. cbn [flow_node] in E.
  assert (x <> 91 /\ x <> 123) as [N1 N2] by (destruct H as [->|H]; split; try discriminate; intros ->; discriminate H).
  replace (x =? 91) with false in E by (symmetry; now apply N.eqb_neq).
  replace (x =? 123) with false in E by (symmetry; now apply N.eqb_neq).
  destruct (flow_scalar (x :: w) 0) as [[[a b'] c0]|]; [|discriminate E]. inversion E; subst. contradiction.
Qed.

Lemma flow_in_block t w c minlit akey b : FlowReads t w -> match t with Lst _ | Map _ => True | _ => False end ->
  BlockReads t w c minlit akey b /\ nb_head w.
Proof.
  intros FRD G. pose proof (flow_group_head _ _ FRD G) as HD. destruct FRD as [TH FR].
  destruct w as [|x w]; [contradiction|]. split; [|destruct HD as [->| ->]; cbn; split; discriminate].
  intros fuel rest rest' k L FO. destruct fuel as [|f]; [lia|]. cbn [app block_node].
  replace ((x =? 91) || (x =? 123)) with true by (destruct HD as [->| ->]; reflexivity).
  destruct (FR (S (length (x :: w ++ rest))) rest c) as (c1 & E); [cbn [length]; rewrite app_length; cbn [length]; lia|eapply follows_rest_ok; eauto|].
  cbn [app] in E. rewrite E. destruct (to_ls_follows _ _ _ _ c1 FO) as (c' & T & CK). rewrite T. eauto.
Qed.

(** ** block sequences: the parser's steps *)
Definition seq_elem (f : nat) (r : octs) (c m : nat) : option (item * octs * nat) :=
  match r with
  | 32 :: _ =>
      let '(r1, c1) := skip_sp r (S c) in
      match r1 with
      | [] => Some (Null, [], c1)
      | _ => block_node f r1 c1 (S m) true
      end
  | _ =>
      match to_ls r (S c) with
      | Some (r1, c1) =>
          match r1 with
          | [] => Some (Null, [], c1)
          | _ => if Nat.ltb m c1 then block_node f r1 c1 (S m) true else Some (Null, r1, c1)
          end
      | None => None
      end
  end.

Definition block_seq_after (f : nat) (x : item) (acc : list item) (r2 : octs) (c2 m : nat) : option (item * octs * nat) :=
  match r2 with
  | [] => Some (Lst (rev (x :: acc)), [], c2)
  | _ =>
      if Nat.ltb c2 m then Some (Lst (rev (x :: acc)), r2, c2)
      else if (Nat.eqb c2 m && is_seq_mark r2)%bool then block_seq f r2 c2 m (x :: acc)
      else None
  end.

Lemma block_seq_S f r c m acc :
  block_seq (S f) (45 :: r) c m acc =
  match seq_elem f r c m with Some (x, r2, c2) => block_seq_after f x acc r2 c2 m | None => None end.
Proof. reflexivity. Qed.

Lemma nb_head_app w rest : nb_head w -> exists x t, w ++ rest = x :: t /\ x <> 32 /\ x <> 10.
Proof. destruct w as [|x w]; [contradiction|]. intros [A B]. exists x, (w ++ rest). auto. Qed.

Lemma seq_elem_inline f p w rest c m : nb_head w ->
  seq_elem f (repeat SP (S p) ++ w ++ rest) c m = block_node f (w ++ rest) (S c + S p)%nat (S m) true.
Proof.
  intros H. destruct (nb_head_app w rest H) as (x & t & E & N1 & N2). unfold seq_elem. cbn [repeat app].
  change (SP :: repeat SP p ++ w ++ rest) with (repeat SP (S p) ++ w ++ rest).
  rewrite skip_sp_repeat, E. rewrite skip_sp_stop by exact N1. reflexivity.
Qed.

Lemma seq_elem_nextline f p w rest c m : nb_head w -> (m < p)%nat ->
  seq_elem f (10 :: repeat SP p ++ w ++ rest) c m = block_node f (w ++ rest) p (S m) true.
Proof.
  intros H MP. destruct (nb_head_app w rest H) as (x & t & E & N1 & N2). unfold seq_elem. rewrite E.
  unfold to_ls. cbn [next_line]. change (10 =? 10) with true. cbv iota. rewrite next_line_spaces by assumption.
  cbn [Nat.add]. replace (Nat.ltb m p) with true by (symmetry; apply Nat.ltb_lt; exact MP). reflexivity.
Qed.

(** ** what the block Prepare functions write *)
Definition glue (ck : ckind) : octs := match ck with CInline => [32] | CBSeq => [10] | CBMap => [] end.
Definition gcol (n : nat) (ck : ckind) : nat := match ck with CInline => (n + 2)%nat | CBSeq => 0%nat | CBMap => (n + 1)%nat end.

Lemma col_put_app_char o w c : c <> 10 -> col (put o (w ++ [c])) = S (col (put o w)).
Proof. intros H. rewrite <- put_put. now apply col_put_char. Qed.

Lemma prep_bseq_core n k ck o :
  prep_bseq n k ck o =
  match ck with
  | CInline => space_or_indent (put (indent_to (nl_if (Nat.ltb 0 k) o) n) [45]) false (n + 2)
  | CBSeq => put (put (indent_to (nl_if (Nat.ltb 0 k) o) n) [45]) [LF]
  | CBMap => put (indent_to (nl_if (Nat.ltb 0 k) o) n) [45]
  end.
Proof. reflexivity. Qed.

Lemma prep_bseq_tail n ck o1 : col o1 = n ->
  (match ck with CInline => space_or_indent (put o1 [45]) false (n + 2) | CBSeq => put (put o1 [45]) [LF] | CBMap => put o1 [45] end)
   = put o1 (45 :: glue ck) /\
  col (put o1 (45 :: glue ck)) = gcol n ck.
Proof.
  intros C. destruct ck; cbn [glue gcol].
  - rewrite space_or_indent_put. rewrite andb_false_r. rewrite col_put_char, C by discriminate.
    replace (n + 2 - S n)%nat with 1%nat by lia. cbn [repeat app]. rewrite put_put. split; [reflexivity|].
    change [45; 32] with ([45] ++ [32]). rewrite col_put_app_char, col_put_char by discriminate. lia.
  - rewrite put_put. split; reflexivity.
  - split; [reflexivity|]. rewrite col_put_char by discriminate. lia.
Qed.

Lemma prep_bseq_first n ck o : (col o <= n)%nat ->
  prep_bseq n 0 ck o = put o (repeat SP (n - col o) ++ 45 :: glue ck) /\ col (prep_bseq n 0 ck o) = gcol n ck.
Proof.
  intros C. rewrite prep_bseq_core. cbn [Nat.ltb Nat.leb nl_if]. rewrite indent_to_put.
  assert (col (put o (repeat SP (n - col o))) = n) as CN by (rewrite col_put_spaces; lia).
  destruct (prep_bseq_tail n ck _ CN) as [E1 E2]. rewrite E1. split; [now rewrite put_put|exact E2].
Qed.

Lemma prep_bseq_next n k ck o : (0 < k)%nat ->
  prep_bseq n k ck o = put o (10 :: repeat SP n ++ 45 :: glue ck) /\ col (prep_bseq n k ck o) = gcol n ck.
Proof.
  intros K. rewrite prep_bseq_core. replace (Nat.ltb 0 k) with true by (symmetry; apply Nat.ltb_lt; exact K).
  cbn [nl_if]. rewrite indent_to_put. rewrite col_put_lf, Nat.sub_0_r.
  assert (col (put (put o [LF]) (repeat SP n)) = n) as CN by (rewrite col_put_spaces, col_put_lf; lia).
  destruct (prep_bseq_tail n ck _ CN) as [E1 E2]. rewrite E1. split; [now rewrite !put_put|exact E2].
Qed.

(** ** the induction statement for block context *)
Definition kindd (d : nat) (t : item) : ckind :=
  match t with
  | Lst _ => if Nat.leb 3 d then CInline else CBSeq
  | Map _ => if Nat.leb 3 d then CInline else CBMap
  | _ => CInline
  end.

Definition is_bgroup (d : nat) (t : item) : Prop :=
  match t with Lst _ | Map _ => (d <= 2)%nat | _ => False end.

Definition P_block (t : item) : Prop :=
  forall d li gi prep o minlit b,
  (d <= 3)%nat -> tree_ok t -> t <> Null -> (minlit <= li)%nat -> (b <= li)%nat -> (b <= gi)%nat ->
  (is_bgroup d t -> (col (prep (kindd d t) o) <= gi)%nat) ->
  exists p w, emit_node d li gi prep t o = put (prep (kindd d t) o) (repeat SP p ++ w) /\
    (is_bgroup d t -> (col (prep (kindd d t) o) + p = gi)%nat) /\ nb_head w /\
    forall c akey, (is_bgroup d t -> c = gi /\ akey = true) -> BlockReads (prune t) w c minlit akey b.

Lemma is_bgroup_kind d t : is_bgroup d t -> kindd d t = CBSeq \/ kindd d t = CBMap.
Proof. destruct t; cbn [is_bgroup kindd]; try tauto; intros H; replace (Nat.leb 3 d) with false by (symmetry; apply Nat.leb_gt; lia); auto. Qed.

Lemma not_bgroup_kind d t : ~ is_bgroup d t -> kindd d t = CInline.
Proof. destruct t; cbn [is_bgroup kindd]; try tauto; intros H; replace (Nat.leb 3 d) with true by (symmetry; apply Nat.leb_le; lia); auto. Qed.

Lemma is_bgroup_dec d t : is_bgroup d t \/ ~ is_bgroup d t.
Proof. destruct t; cbn [is_bgroup]; try tauto; lia. Qed.

(** one child of a block sequence whose dashes stand in column [n] *)
Lemma seq_child_reads d n x : (d <= 2)%nat -> P_block x -> tree_ok x -> x <> Null ->
  forall k o, (k = 0%nat -> (col o <= n)%nat) ->
  exists E, seq_child d n k x o = put o ((if Nat.eqb k 0 then repeat SP (n - col o) else 10 :: repeat SP n) ++ 45 :: E) /\
    (forall t, starts_blank_or_end (E ++ t) = true) /\
    forall f rest R2 K2, (length E + 1 < f)%nat -> follows_b (S n) rest R2 K2 ->
      exists c2, seq_elem f (E ++ rest) n n = Some (prune x, R2, c2) /\ (R2 <> [] -> c2 = K2).
Proof.
  intros D PX TX NX k o CK. unfold seq_child. replace (Nat.leb 3 d) with false by (symmetry; apply Nat.leb_gt; lia).
  set (ck := kindd (S d) x).
  assert (prep_bseq n k ck o = put o ((if Nat.eqb k 0 then repeat SP (n - col o) else 10 :: repeat SP n) ++ 45 :: glue ck) /\
          col (prep_bseq n k ck o) = gcol n ck) as [EP CP].
  { destruct k as [|k]; cbn [Nat.eqb]; [apply prep_bseq_first; auto|]. destruct (prep_bseq_next n (S k) ck o) as [A B]; [lia|]. split; [exact A|exact B]. }
  destruct (PX (S d) (n + 2)%nat (n + 2)%nat (prep_bseq n k) o (S n) (S n)) as (p & w & EM & CG & NB & BR);
    [lia|exact TX|exact NX|lia|lia|lia| |].
  { intros BG. fold ck. rewrite CP. destruct (is_bgroup_kind _ _ BG) as [Q|Q]; fold ck in Q; rewrite Q; cbn; lia. }
  fold ck in EM, CG, BR. rewrite EM, EP, put_put.
  exists (glue ck ++ repeat SP p ++ w). split; [f_equal; repeat (rewrite <- app_assoc; cbn [app]); reflexivity|].
  destruct (is_bgroup_dec (S d) x) as [BG|NBG].
  - specialize (CG BG). rewrite CP in CG. destruct (is_bgroup_kind _ _ BG) as [Q|Q]; fold ck in Q; rewrite Q in *; cbn [glue gcol] in *.
    + (* block sequence on the next line *)
      split; [intros t; reflexivity|]. intros f rest R2 K2 L FO. cbn [app]. rewrite <- app_assoc.
      rewrite seq_elem_nextline by (exact NB || lia).
      rewrite !app_length in L. cbn [length] in L.
      apply (BR p true (fun _ => conj (eq_sym (eq_trans (eq_sym CG) eq_refl)) eq_refl)); [lia|exact FO].
    + (* block map right after the dash *)
      assert (p = 1%nat) as -> by lia. split; [intros t; reflexivity|]. intros f rest R2 K2 L FO. cbn [app]. rewrite <- app_assoc.
      rewrite (seq_elem_inline f 0 w rest n n NB).
      rewrite !app_length in L. cbn [length repeat] in L.
      apply (BR (S n + 1)%nat true); [intros _; split; [lia|reflexivity]|lia|exact FO].
  - assert (ck = CInline) as Q by (apply not_bgroup_kind; exact NBG). clearbody ck. subst ck. cbn [glue]. split; [intros t; reflexivity|].
    intros f rest R2 K2 L FO.
    replace (([32] ++ repeat SP p ++ w) ++ rest) with (repeat SP (S p) ++ w ++ rest)
      by (cbn [repeat app]; now rewrite <- app_assoc).
    rewrite (seq_elem_inline f p w rest n n NB). cbn [app] in L.
    change (32 :: repeat SP p ++ w) with (repeat SP (S p) ++ w) in L. rewrite !app_length in L. rewrite repeat_length in L.
    apply (BR (S n + S p)%nat true); [tauto|lia|exact FO].
Qed.

Lemma block_seq_after_stop f x acc b n rest rest' kf c2 :
  (b <= n)%nat -> follows_b b rest rest' kf -> (rest' <> [] -> c2 = kf) ->
  exists c', block_seq_after f x acc rest' c2 n = Some (Lst (rev acc ++ [x]), rest', c') /\ (rest' <> [] -> c' = kf).
Proof.
  intros BN FO CK. destruct FO as [c1|k c0 r K OS]; cbn [block_seq_after rev].
  - eauto.
  - specialize (CK ltac:(discriminate)). subst c2.
    replace (Nat.ltb k n) with true by (symmetry; apply Nat.ltb_lt; lia). eauto.
Qed.

(** the children of a block sequence after the first one *)
Lemma block_seq_rest d n b l : (d <= 2)%nat -> (b <= n)%nat -> Forall P_block l -> Forall tree_ok l ->
  forall k o, (1 <= k)%nat ->
  exists W k', seq_loop (seq_child d n) l k o = (put o W, k') /\ (1 <= k')%nat /\
    forall rest rest' kf, follows_b b rest rest' kf ->
      exists R2 K2, follows_b (S n) (W ++ rest) R2 K2 /\
        forall f x acc c2, (length W < f)%nat -> (R2 <> [] -> c2 = K2) ->
          exists c', block_seq_after f x acc R2 c2 n = Some (Lst (rev acc ++ x :: pruned_list l), rest', c') /\ (rest' <> [] -> c' = kf).
Proof.
  intros D BN. induction l as [|x0 r IH]; intros FP FT k o K.
  - exists [], k. cbn [seq_loop]. repeat split; auto. intros rest rest' kf FO. exists rest', kf. cbn [app]. split.
    + eapply follows_b_weaken; [|exact FO]. lia.
    + intros f x acc c2 _ CK. cbn [pruned_list filter map]. eapply block_seq_after_stop; eauto.
  - inversion FP as [|? ? P0 FP']; subst. inversion FT as [|? ? T0 FT']; subst. cbn [seq_loop].
    destruct (is_nullb x0) eqn:NB.
    + destruct (IH FP' FT' k o K) as (W & k' & E & K' & R). exists W, k'. repeat split; auto.
      intros rest rest' kf FO. destruct (R rest rest' kf FO) as (R2 & K2 & F2 & RD). exists R2, K2. split; [exact F2|].
      intros f x acc c2 L CK. destruct (RD f x acc c2 L CK) as (c' & E' & CK'). exists c'. rewrite E'.
      unfold pruned_list. cbn [filter]. rewrite NB. auto.
    + destruct (seq_child_reads d n x0 D P0 T0 (is_nullb_false _ NB) k o) as (E0 & EM & SB & RD0); [lia|].
      replace (Nat.eqb k 0) with false in EM by (symmetry; apply Nat.eqb_neq; lia). rewrite EM.
      destruct (IH FP' FT' (S k) (put o ((10 :: repeat SP n) ++ 45 :: E0))) as (W & k' & EL & K' & R); [lia|].
      exists (((10 :: repeat SP n) ++ 45 :: E0) ++ W), k'. rewrite EL, put_put. repeat split; auto.
      intros rest rest' kf FO. destruct (R rest rest' kf FO) as (R2 & K2 & F2 & RD).
      exists (45 :: E0 ++ W ++ rest), n. split.
      * replace ((((10 :: repeat SP n) ++ 45 :: E0) ++ W) ++ rest) with (10 :: repeat SP n ++ 45 :: E0 ++ W ++ rest)
          by (cbn [app]; repeat (rewrite <- app_assoc; cbn [app]); reflexivity).
        constructor; [lia|]. repeat split; discriminate.
      * intros f x acc c2 L CK. specialize (CK ltac:(discriminate)). subst c2. cbn [block_seq_after].
        rewrite Nat.ltb_irrefl, Nat.eqb_refl. cbn [andb is_seq_mark]. rewrite SB.
        rewrite ?app_length in L; cbn [length app] in L; rewrite ?app_length in L; cbn [length app] in L; rewrite ?app_length, ?repeat_length in L.
        destruct f as [|f]; [lia|]. rewrite block_seq_S.
        destruct (RD0 f (W ++ rest) R2 K2) as (c2 & E2 & CK2); [lia|exact F2|]. rewrite E2.
        destruct (RD f (prune x0) (x :: acc) c2) as (c' & E' & CK'); [lia|exact CK2|]. exists c'. rewrite E'.
        unfold pruned_list. cbn [filter rev]. rewrite NB. cbn [negb map]. rewrite <- app_assoc. auto.
Qed.

Lemma block_node_seq f r c minlit akey : starts_blank_or_end r = true ->
  block_node (S f) (45 :: r) c minlit akey = block_seq f (45 :: r) c c [].
Proof. intros H. cbn [block_node]. change ((45 =? 91) || (45 =? 123)) with false. change (45 =? 124) with false. cbn [is_seq_mark]. now rewrite H. Qed.

(** a whole block sequence, from its first dash *)
Lemma block_seq_all d n b l : (d <= 2)%nat -> (b <= n)%nat -> Forall P_block l -> Forall tree_ok l ->
  forall o, (col o <= n)%nat ->
  (seq_loop (seq_child d n) l 0%nat o = (o, 0%nat) /\ pruned_list l = []) \/
  (exists E k', seq_loop (seq_child d n) l 0%nat o = (put o (repeat SP (n - col o) ++ 45 :: E), k') /\ (1 <= k')%nat /\
     (forall t, starts_blank_or_end (E ++ t) = true) /\
     forall f rest rest' kf, (length E + 1 < f)%nat -> follows_b b rest rest' kf ->
       exists c', block_seq (S f) (45 :: E ++ rest) n n [] = Some (Lst (pruned_list l), rest', c') /\ (rest' <> [] -> c' = kf)).
Proof.
  intros D BN. induction l as [|x0 r IH]; intros FP FT o CO; [left; split; reflexivity|].
  inversion FP as [|? ? P0 FP']; subst. inversion FT as [|? ? T0 FT']; subst. cbn [seq_loop].
  destruct (is_nullb x0) eqn:NB.
  - destruct (IH FP' FT' o CO) as [[E Q]|(E & k' & EL & K & SB & R)].
    + left. split; [exact E|]. unfold pruned_list in *. cbn [filter]. now rewrite NB.
    + right. exists E, k'. repeat split; auto. intros f rest rest' kf L FO. destruct (R f rest rest' kf L FO) as (c' & E' & CK).
      exists c'. rewrite E'. unfold pruned_list. cbn [filter]. rewrite NB. auto.
  - right. destruct (seq_child_reads d n x0 D P0 T0 (is_nullb_false _ NB) 0%nat o) as (E0 & EM & SB & RD0); [auto|].
    cbn [Nat.eqb] in EM. rewrite EM.
    destruct (block_seq_rest d n b r D BN FP' FT' 1%nat (put o (repeat SP (n - col o) ++ 45 :: E0))) as (W & k' & EL & K' & R); [lia|].
    exists (E0 ++ W), k'. rewrite EL, put_put. split; [|split; [exact K'|split]].
    + f_equal. repeat (rewrite <- app_assoc; cbn [app]). reflexivity.
    + intros t. rewrite <- app_assoc. apply SB.
    + intros f rest rest' kf L FO. destruct (R rest rest' kf FO) as (R2 & K2 & F2 & RD).
      rewrite app_length in L. rewrite block_seq_S. rewrite <- app_assoc.
      destruct (RD0 f (W ++ rest) R2 K2) as (c2 & E2 & CK2); [lia|exact F2|]. rewrite E2.
      destruct (RD f (prune x0) [] c2) as (c' & E' & CK'); [lia|exact CK2|]. exists c'. rewrite E'.
      unfold pruned_list. cbn [filter rev app]. rewrite NB. auto.
Qed.

(** ** block maps: the parser's steps *)
Definition map_entry (f : nat) (l : octs) (c m : nat) : option (bytes * item * octs * nat) :=
        if is_longkey_mark l then
          
          let '(r1, c1) := skip_sp (skipn 1 l) (S c) in
          match block_node f r1 c1 (S m) false with
          | Some (Scalar k, r2, c2) =>
              if (Nat.eqb c2 m && is_value_mark r2)%bool then
                match skipn 1 r2 with
                | (32 :: _) as r3 =>
                    let '(r4, c4) := skip_sp r3 (S c2) in
                    match r4 with
                    | [] => Some (k, Null, [], c4)
                    | _ => match block_node f r4 c4 (S m) true with
                           | Some (v, r5, c5) => Some (k, v, r5, c5)
                           | None => None
                           end
                    end
                | r3 =>
                    match to_ls r3 (S c2) with
                    | Some (r4, c4) =>
                        match r4 with
                        | [] => Some (k, Null, [], c4)
                        | _ => if Nat.ltb m c4 then
                                 match block_node f r4 c4 (S m) true with
                                 | Some (v, r5, c5) => Some (k, v, r5, c5)
                                 | None => None
                                 end
                               else Some (k, Null, r4, c4)
                        end
                    | None => None
                    end
                end
              else None
          | _ => None
          end
        else
          match key_scalar l c with
          | Some (k, r1, c1) =>
              if Nat.ltb 1024 (c1 - c) then None
              else if is_value_mark r1 then
                match skipn 1 r1 with
                | (32 :: _) as r3 =>
                    let '(r4, c4) := skip_sp r3 (S c1) in
                    match r4 with
                    | [] => Some (unnums k, Null, [], c4)
                    | _ => match block_node f r4 c4 (S m) false with
                           | Some (v, r5, c5) => Some (unnums k, v, r5, c5)
                           | None => None
                           end
                    end
                | r3 =>
                    match to_ls r3 (S c1) with
                    | Some (r4, c4) =>
                        match r4 with
                        | [] => Some (unnums k, Null, [], c4)
                        | _ => if Nat.ltb m c4 then
                                 match block_node f r4 c4 (S m) true with
                                 | Some (v, r5, c5) => Some (unnums k, v, r5, c5)
                                 | None => None
                                 end
                               else Some (unnums k, Null, r4, c4)
                        end
                    | None => None
                    end
                end
              else None
          | None => None
          end.

Definition block_map_after (f : nat) (k : bytes) (v : item) (acc : list (bytes * item)) (r2 : octs) (c2 m : nat)
  : option (item * octs * nat) :=
  match r2 with
  | [] => Some (build_map (rev ((k, v) :: acc)), [], c2)
  | _ =>
      if Nat.ltb c2 m then Some (build_map (rev ((k, v) :: acc)), r2, c2)
      else if Nat.eqb c2 m then block_map f r2 c2 m ((k, v) :: acc)
      else None
  end.

Lemma block_map_S f l c m acc :
  block_map (S f) l c m acc =
  match map_entry f l c m with Some (k, v, r2, c2) => block_map_after f k v acc r2 c2 m | None => None end.
Proof. reflexivity. Qed.

Lemma map_entry_simple_inline f ktok k q w rest c m :
  match ktok with x :: _ => x <> 63 | [] => False end -> (length ktok <= 1024)%nat -> nb_head w ->
  flow_scalar (ktok ++ 58 :: 32 :: repeat SP q ++ w ++ rest) c = Some (k, 58 :: 32 :: repeat SP q ++ w ++ rest, (c + length ktok)%nat) ->
  map_entry f (ktok ++ 58 :: 32 :: repeat SP q ++ w ++ rest) c m =
  match block_node f (w ++ rest) (S (c + length ktok) + S q)%nat (S m) false with
  | Some (v, r5, c5) => Some (unnums k, v, r5, c5)
  | None => None
  end.
Proof.
  intros HK LK NB FS. unfold map_entry.
  assert (is_longkey_mark (ktok ++ 58 :: 32 :: repeat SP q ++ w ++ rest) = false) as ->.
  { destruct ktok as [|x kt]; [contradiction|]. cbn [app]. now apply is_longkey_mark_other. }
  unfold key_scalar. rewrite FS.
  replace (Nat.ltb 1024 (c + length ktok - c)) with false by (symmetry; apply Nat.ltb_ge; lia).
  cbn [is_value_mark starts_blank_or_end skipn]. change (32 =? 32) with true. cbn [orb].
  change (32 :: repeat SP q ++ w ++ rest) with (repeat SP (S q) ++ w ++ rest).
  destruct (nb_head_app w rest NB) as (x & t & E & N1 & N2).
  rewrite skip_sp_repeat, E, skip_sp_stop by exact N1. reflexivity.
Qed.

Lemma map_entry_simple_nextline f ktok k p w rest c m :
  match ktok with x :: _ => x <> 63 | [] => False end -> (length ktok <= 1024)%nat -> nb_head w -> (m < p)%nat ->
  flow_scalar (ktok ++ 58 :: 10 :: repeat SP p ++ w ++ rest) c = Some (k, 58 :: 10 :: repeat SP p ++ w ++ rest, (c + length ktok)%nat) ->
  map_entry f (ktok ++ 58 :: 10 :: repeat SP p ++ w ++ rest) c m =
  match block_node f (w ++ rest) p (S m) true with
  | Some (v, r5, c5) => Some (unnums k, v, r5, c5)
  | None => None
  end.
Proof.
  intros HK LK NB MP FS. unfold map_entry.
  assert (is_longkey_mark (ktok ++ 58 :: 10 :: repeat SP p ++ w ++ rest) = false) as ->.
  { destruct ktok as [|x kt]; [contradiction|]. cbn [app]. now apply is_longkey_mark_other. }
  unfold key_scalar. rewrite FS.
  replace (Nat.ltb 1024 (c + length ktok - c)) with false by (symmetry; apply Nat.ltb_ge; lia).
  cbn [is_value_mark starts_blank_or_end skipn]. change (10 =? 32) with false. change (10 =? 10) with true. cbn [orb].
  destruct (nb_head_app w rest NB) as (x & t & E & N1 & N2). rewrite E.
  unfold to_ls. cbn [next_line]. change (10 =? 10) with true. cbv iota. rewrite next_line_spaces by assumption.
  cbn [Nat.add]. replace (Nat.ltb m p) with true by (symmetry; apply Nat.ltb_lt; exact MP). reflexivity.
Qed.

Lemma map_entry_long f kw tailk k q w rest c m :
  nb_head kw -> nb_head w ->
  block_node f (kw ++ tailk) (S c + 1)%nat (S m) false = Some (Scalar k, 58 :: 32 :: repeat SP q ++ w ++ rest, m) ->
  map_entry f (63 :: 32 :: kw ++ tailk) c m =
  match block_node f (w ++ rest) (S m + S q)%nat (S m) true with
  | Some (v, r5, c5) => Some (k, v, r5, c5)
  | None => None
  end.
Proof.
  intros NK NB BK. unfold map_entry. cbn [is_longkey_mark skipn].
  destruct (nb_head_app kw tailk NK) as (x & t & E & N1 & N2).
  change (32 :: kw ++ tailk) with (repeat SP 1 ++ kw ++ tailk). rewrite skip_sp_repeat. rewrite E in *. rewrite skip_sp_stop by exact N1.
  rewrite BK. rewrite Nat.eqb_refl. cbn [is_value_mark starts_blank_or_end andb skipn]. change (32 =? 32) with true. cbn [orb].
  change (32 :: repeat SP q ++ w ++ rest) with (repeat SP (S q) ++ w ++ rest).
  destruct (nb_head_app w rest NB) as (y & t' & E' & M1 & M2).
  rewrite skip_sp_repeat, E', skip_sp_stop by exact M1. reflexivity.
Qed.

(** ** what the block map Prepare functions write *)
Definition bsep (n k : nat) (o : out) : octs := if Nat.eqb k 0 then repeat SP (n - col o) else 10 :: repeat SP n.

Lemma col_bsep n k o : (k = 0%nat -> (col o <= n)%nat) -> col (put o (bsep n k o)) = n /\ indent_to (nl_if (Nat.ltb 0 k) o) n = put o (bsep n k o).
Proof.
  intros C. unfold bsep. destruct k as [|k]; cbn [Nat.eqb Nat.ltb Nat.leb nl_if].
  - specialize (C eq_refl). rewrite indent_to_put, col_put_spaces. split; [lia|reflexivity].
  - rewrite indent_to_put, col_put_lf, Nat.sub_0_r, put_put. split; [|reflexivity].
    change (10 :: repeat SP n) with ([10] ++ repeat SP n). rewrite <- put_put, col_put_spaces, col_put_lf. lia.
Qed.

Lemma prep_bmap_key_put n k long o : (k = 0%nat -> (col o <= n)%nat) ->
  prep_bmap_key n k long o = put o (bsep n k o ++ (if long then [63; 32] else [])) /\
  col (prep_bmap_key n k long o) = (if long then n + 2 else n)%nat.
Proof.
  intros C. destruct (col_bsep n k o C) as [CN EI]. unfold prep_bmap_key. destruct long.
  - rewrite EI. rewrite space_or_indent_put. rewrite col_put_char, CN by discriminate. cbn [Nat.ltb Nat.leb andb].
    rewrite !col_put_char, CN by discriminate. replace (n + 1 - S (S n))%nat with 0%nat by lia.
    cbn [repeat app]. split; [now rewrite !put_put|]. rewrite !col_put_char, CN by discriminate. lia.
  - rewrite space_or_indent_put. rewrite andb_false_r. cbn [app].
    change (put (nl_if (Nat.ltb 0 k) o) (repeat SP (n - col (nl_if (Nat.ltb 0 k) o)))) with (indent_to (nl_if (Nat.ltb 0 k) o) n).
    rewrite EI, app_nil_r. split; [reflexivity|exact CN].
Qed.

Lemma prep_bmap_val_long n ck o :
  prep_bmap_val n true ck o = put o (10 :: repeat SP n ++ 58 :: (match ck with CInline => [32] | _ => [] end)) /\
  col (prep_bmap_val n true ck o) = (match ck with CInline => n + 2 | _ => n + 1 end)%nat.
Proof.
  unfold prep_bmap_val. rewrite indent_to_put, col_put_lf, Nat.sub_0_r.
  assert (col (put (put o [LF]) (repeat SP n)) = n) as CN by (rewrite col_put_spaces, col_put_lf; lia).
  destruct ck.
  - rewrite space_or_indent_put. rewrite col_put_char, CN by discriminate. cbn [Nat.ltb Nat.leb andb].
    rewrite !col_put_char, CN by discriminate. replace (n + 1 - S (S n))%nat with 0%nat by lia.
    cbn [repeat app]. split; [rewrite !put_put; cbn [app]; rewrite <- ?app_assoc; reflexivity|]. rewrite !col_put_char, CN by discriminate. lia.
  - rewrite !put_put. split; [reflexivity|]. rewrite <- !put_put. rewrite col_put_char, CN by discriminate. lia.
  - rewrite !put_put. split; [reflexivity|]. rewrite <- !put_put. rewrite col_put_char, CN by discriminate. lia.
Qed.

Lemma prep_bmap_val_simple n ck o :
  match ck with
  | CInline => exists q, prep_bmap_val n false ck o = put o (58 :: 32 :: repeat SP q)
  | _ => prep_bmap_val n false ck o = put o [58; 10] /\ col (prep_bmap_val n false ck o) = 0%nat
  end.
Proof.
  unfold prep_bmap_val. destruct ck.
  - rewrite space_or_indent_put. rewrite col_put_char by discriminate. cbn [Nat.ltb Nat.leb andb]. eexists. rewrite put_put. reflexivity.
  - rewrite put_put. split; reflexivity.
  - rewrite put_put. split; reflexivity.
Qed.

Definition ok_head (E : octs) : Prop := match E with x :: _ => ok_start x | [] => False end.

Lemma plain_class_ok_start c : plain_class c = true -> ok_start c.
Proof.
  intros H. unfold ok_start, lit_byte_ok. repeat split; intros ->; discriminate H.
Qed.

Lemma tok_head_ok_head w : tok_head w -> ok_head w.
Proof.
  destruct w as [|x w]; [trivial|]. cbn. intros [->|[->|[->|H]]]; try (unfold ok_start, lit_byte_ok; repeat split; discriminate).
  now apply plain_class_ok_start.
Qed.

(** one entry of a block map whose keys stand in column [n] *)
Lemma map_child_reads d n key x : (d <= 2)%nat -> P_block x -> entry_ok (key, x) -> x <> Null ->
  forall k o, (k = 0%nat -> (col o <= n)%nat) ->
  exists E, map_child d n k key x o = put o (bsep n k o ++ E) /\ ok_head E /\
    forall f rest R2 K2, (length E < f)%nat -> follows_b (S n) rest R2 K2 ->
      exists c2, map_entry f (E ++ rest) n n = Some (key, prune x, R2, c2) /\ (R2 <> [] -> c2 = K2).
Proof.
  intros D PX (WK & LK & TX) NX k o CK. cbn [fst snd] in *.
  unfold map_child. replace (Nat.leb 3 d) with false by (symmetry; apply Nat.leb_gt; lia). cbv zeta.
  set (ks := nums key). set (ck := kindd (S d) x).
  change (scalar_bytes_f (scalar_fmt false ks) (n + 2) ks) with (scalar_bytes false (n + 2) ks).
  destruct (scalar_fmt false ks) eqn:F0.
  1,2: assert (inline_fmt (scalar_fmt false ks)) as IF by (rewrite F0; discriminate).
  1,2: assert (long_key (scalar_fmt false ks) ks = false) as LKF
         by (rewrite F0; cbn [long_key]; apply Nat.ltb_ge; unfold ks; rewrite length_nums; lia).
  1,2: rewrite F0 in LKF; rewrite LKF.
  1,2: destruct (prep_bmap_key_put n k false o CK) as [EK CKK]; rewrite EK, app_nil_r, put_put;
       set (ktok := scalar_bytes false (n + 2) ks); set (ok := put o (bsep n k o ++ ktok));
       destruct WK as [VK _];
       assert (tok_head ktok) as HK by apply (inline_scalar_reads false (n + 2) ks [] 0%nat VK IF I);
       assert (length ktok <= 1024)%nat as LT
         by (pose proof (scalar_bytes_len false (n + 2) ks VK IF) as Q; fold ktok in Q; unfold ks in Q; rewrite length_nums in Q; lia);
       assert (match ktok with y :: _ => y <> 63 | [] => False end) as H63
         by (pose proof (tok_head_facts _ HK) as Q; destruct ktok; [contradiction|tauto]);
       destruct (PX (S d) (n + 2)%nat (n + 2)%nat (prep_bmap_val n false) ok (S n) (S n)) as (p & w & EM & CG & NB & BR);
         [lia|exact TX|exact NX|lia|lia|lia|
          intros BG; fold ck; pose proof (prep_bmap_val_simple n ck ok) as Q;
          destruct (is_bgroup_kind _ _ BG) as [Q'|Q']; fold ck in Q'; rewrite Q' in *; destruct Q as [_ Q]; rewrite Q; lia|];
       fold ck in EM, CG, BR; rewrite EM;
       destruct (is_bgroup_dec (S d) x) as [BG|NBG].
  1,3: (* value on the next lines *)
       specialize (CG BG); pose proof (prep_bmap_val_simple n ck ok) as Q;
       assert (prep_bmap_val n false ck ok = put ok [58; 10] /\ col (prep_bmap_val n false ck ok) = 0%nat) as [EV CV]
         by (destruct (is_bgroup_kind _ _ BG) as [Q'|Q']; fold ck in Q'; rewrite Q' in *; exact Q);
       rewrite CV in CG; rewrite EV; unfold ok; rewrite !put_put;
       exists (ktok ++ 58 :: 10 :: repeat SP p ++ w); split;
         [f_equal; repeat (rewrite <- app_assoc; cbn [app]); reflexivity|];
       split; [pose proof (tok_head_ok_head _ HK) as Q1; destruct ktok; [contradiction|exact Q1]|];
       intros f rest R2 K2 L FO; repeat (rewrite <- app_assoc; cbn [app]);
       rewrite (map_entry_simple_nextline f ktok ks p w rest n n H63 LT NB) by
         (lia || apply (inline_scalar_reads false (n + 2) ks _ n VK IF); reflexivity);
       rewrite !app_length in L; cbn [length] in L; rewrite !app_length in L;
       destruct (BR p true (fun _ => conj (eq_sym (eq_trans (eq_sym CG) eq_refl)) eq_refl) f rest R2 K2) as (c2 & E2 & CK2); [lia|exact FO|];
       rewrite E2; unfold ks; rewrite unnums_nums; eauto.
  1,2: (* value on the same line *)
       assert (ck = CInline) as QC by (apply not_bgroup_kind; exact NBG);
       pose proof (prep_bmap_val_simple n ck ok) as Q; rewrite QC in *; destruct Q as (q & EV);
       rewrite EV; unfold ok; rewrite !put_put;
       exists (ktok ++ 58 :: 32 :: repeat SP (q + p) ++ w); split;
         [f_equal; repeat (rewrite <- app_assoc; cbn [app]); rewrite <- repeat_app_sp; repeat (rewrite <- app_assoc; cbn [app]); reflexivity|];
       split; [pose proof (tok_head_ok_head _ HK) as Q1; destruct ktok; [contradiction|exact Q1]|];
       intros f rest R2 K2 L FO; repeat (rewrite <- app_assoc; cbn [app]);
       rewrite (map_entry_simple_inline f ktok ks (q + p) w rest n n H63 LT NB) by
         (apply (inline_scalar_reads false (n + 2) ks _ n VK IF); reflexivity);
       rewrite !app_length in L; cbn [length] in L; rewrite !app_length in L;
       destruct (BR (S (n + length ktok) + S (q + p))%nat false ltac:(tauto) f rest R2 K2) as (c2 & E2 & CK2); [lia|exact FO|];
       rewrite E2; unfold ks; rewrite unnums_nums; eauto.
  (* literal key: the long form *)
  assert (long_key FLiteral ks = true) as -> by reflexivity.
  destruct (prep_bmap_key_put n k true o CK) as [EK CKK]. rewrite EK, put_put.
  set (kw := scalar_bytes false (n + 2) ks). set (ok := put o ((bsep n k o ++ [63; 32]) ++ kw)).
  destruct (prep_bmap_val_long n ck ok) as [EV CV].
  destruct (PX (S d) (n + 2)%nat (n + 2)%nat (prep_bmap_val n true) ok (S n) (S n)) as (p & w & EM & CG & NB & BR);
    [lia|exact TX|exact NX|lia|lia|lia| |].
  { intros BG. fold ck. rewrite CV. destruct (is_bgroup_kind _ _ BG) as [Q'|Q']; fold ck in Q'; rewrite Q'; lia. }
  fold ck in EM, CG, BR. rewrite EM, EV. unfold ok. rewrite !put_put.
  destruct (block_scalar_reads key (n + 2) (S n) (S n + 1) false (S n) WK ltac:(lia) ltac:(lia)) as [BK NK].
  fold ks in BK, NK. fold kw in BK, NK.
  set (q := match ck with CInline => p | _ => 0%nat end).
  assert ((match ck with CInline => [32] | _ => [] end) ++ repeat SP p ++ w = 32 :: repeat SP q ++ w /\
          (is_bgroup (S d) x -> q = 0%nat)) as [EQ Q0].
  { destruct (is_bgroup_dec (S d) x) as [BG|NBG].
    - specialize (CG BG). rewrite CV in CG. destruct (is_bgroup_kind _ _ BG) as [Q'|Q']; fold ck in Q'; subst q; rewrite Q' in *;
        (assert (p = 1%nat) as -> by lia); split; auto.
    - assert (ck = CInline) as QC by (apply not_bgroup_kind; exact NBG). subst q. rewrite QC. split; [reflexivity|tauto]. }
  exists (63 :: 32 :: kw ++ 10 :: repeat SP n ++ 58 :: 32 :: repeat SP q ++ w). split; [|split].
  - f_equal. repeat (rewrite <- app_assoc; cbn [app]). do 3 f_equal. rewrite <- EQ. repeat (rewrite <- app_assoc; cbn [app]). reflexivity.
  - cbn. unfold ok_start, lit_byte_ok. repeat split; discriminate.
  - intros f rest R2 K2 L FO. cbn [app]. rewrite <- app_assoc.
    cbn [length] in L. rewrite !app_length in L. cbn [length] in L. rewrite !app_length in L. cbn [length] in L. rewrite !app_length in L.
    destruct (BK f (10 :: repeat SP n ++ 58 :: 32 :: repeat SP q ++ w ++ rest) (58 :: 32 :: repeat SP q ++ w ++ rest) n) as (ck2 & EKR & CKR);
      [lia|constructor; [lia|unfold ok_start, lit_byte_ok; repeat split; discriminate]|].
    specialize (CKR ltac:(discriminate)). subst ck2.
    replace ((10 :: repeat SP n ++ 58 :: 32 :: repeat SP q ++ w) ++ rest) with (10 :: repeat SP n ++ 58 :: 32 :: repeat SP q ++ w ++ rest)
      by (cbn [app]; repeat (rewrite <- app_assoc; cbn [app]); reflexivity).
    rewrite (map_entry_long f kw _ key q w rest n n NK NB EKR).
    destruct (BR (S n + S q)%nat true) with (fuel := f) (rest := rest) (rest' := R2) (k := K2) as (c2 & E2 & CK2);
      [intros BG; rewrite (Q0 BG); split; [lia|reflexivity]|lia|exact FO|].
    rewrite E2. eauto.
Qed.

Lemma block_map_after_stop f key v acc b n rest rest' kf c2 :
  (b <= n)%nat -> follows_b b rest rest' kf -> (rest' <> [] -> c2 = kf) ->
  exists c', block_map_after f key v acc rest' c2 n = Some (build_map (rev acc ++ [(key, v)]), rest', c') /\ (rest' <> [] -> c' = kf).
Proof.
  intros BN FO CK. destruct FO as [c1|k c0 r K OS]; cbn [block_map_after rev].
  - eauto.
  - specialize (CK ltac:(discriminate)). subst c2.
    replace (Nat.ltb k n) with true by (symmetry; apply Nat.ltb_lt; lia). eauto.
Qed.

(** the entries of a block map after the first one *)
Lemma block_map_rest d n b m : (d <= 2)%nat -> (b <= n)%nat -> Forall (fun kv => P_block (snd kv)) m -> Forall entry_ok m ->
  forall k o, (1 <= k)%nat ->
  exists W k', map_loop (map_child d n) m k o = (put o W, k') /\ (1 <= k')%nat /\
    forall rest rest' kf, follows_b b rest rest' kf ->
      exists R2 K2, follows_b (S n) (W ++ rest) R2 K2 /\
        forall f key v acc c2, (length W < f)%nat -> (R2 <> [] -> c2 = K2) ->
          exists c', block_map_after f key v acc R2 c2 n = Some (build_map (rev acc ++ (key, v) :: pruned_map m), rest', c') /\ (rest' <> [] -> c' = kf).
Proof.
  intros D BN. induction m as [|[key0 x0] r IH]; intros FP FT k o K.
  - exists [], k. cbn [map_loop]. repeat split; auto. intros rest rest' kf FO. exists rest', kf. cbn [app]. split.
    + eapply follows_b_weaken; [|exact FO]. lia.
    + intros f key v acc c2 _ CK. cbn [pruned_map filter map]. eapply block_map_after_stop; eauto.
  - inversion FP as [|? ? P0 FP']; subst. inversion FT as [|? ? T0 FT']; subst. cbn [map_loop snd] in *.
    destruct (is_nullb x0) eqn:NB.
    + destruct (IH FP' FT' k o K) as (W & k' & E & K' & R). exists W, k'. repeat split; auto.
      intros rest rest' kf FO. destruct (R rest rest' kf FO) as (R2 & K2 & F2 & RD). exists R2, K2. split; [exact F2|].
      intros f key v acc c2 L CK. destruct (RD f key v acc c2 L CK) as (c' & E' & CK'). exists c'. rewrite E'.
      unfold pruned_map. cbn [filter snd]. rewrite NB. auto.
    + destruct (map_child_reads d n key0 x0 D P0 T0 (is_nullb_false _ NB) k o) as (E0 & EM & OH & RD0); [lia|].
      unfold bsep in EM. replace (Nat.eqb k 0) with false in EM by (symmetry; apply Nat.eqb_neq; lia). rewrite EM.
      destruct (IH FP' FT' (S k) (put o ((10 :: repeat SP n) ++ E0))) as (W & k' & EL & K' & R); [lia|].
      exists (((10 :: repeat SP n) ++ E0) ++ W), k'. rewrite EL, put_put. repeat split; auto.
      intros rest rest' kf FO. destruct (R rest rest' kf FO) as (R2 & K2 & F2 & RD).
      destruct E0 as [|y E0']; [contradiction|]. cbn [ok_head] in OH.
      exists (y :: E0' ++ W ++ rest), n. split.
      * replace ((((10 :: repeat SP n) ++ y :: E0') ++ W) ++ rest) with (10 :: repeat SP n ++ y :: E0' ++ W ++ rest)
          by (cbn [app]; repeat (rewrite <- app_assoc; cbn [app]); reflexivity).
        constructor; [lia|exact OH].
      * intros f key v acc c2 L CK. specialize (CK ltac:(discriminate)). subst c2. cbn [block_map_after].
        rewrite Nat.ltb_irrefl, Nat.eqb_refl.
        rewrite ?app_length in L; cbn [length app] in L; rewrite ?app_length in L; cbn [length app] in L; rewrite ?app_length, ?repeat_length in L.
        destruct f as [|f]; [lia|]. rewrite block_map_S.
        change (y :: E0' ++ W ++ rest) with ((y :: E0') ++ (W ++ rest)).
        destruct (RD0 f (W ++ rest) R2 K2) as (c2 & E2 & CK2); [cbn [length]; lia|exact F2|]. rewrite E2.
        destruct (RD f key0 (prune x0) ((key, v) :: acc) c2) as (c' & E' & CK'); [lia|exact CK2|]. exists c'. rewrite E'.
        unfold pruned_map. cbn [filter rev snd fst]. rewrite NB. cbn [negb map fst snd]. rewrite <- app_assoc. auto.
Qed.

(** a whole block map, from its first key *)
Lemma block_map_all d n b m : (d <= 2)%nat -> (b <= n)%nat -> Forall (fun kv => P_block (snd kv)) m -> Forall entry_ok m ->
  forall o, (col o <= n)%nat ->
  (map_loop (map_child d n) m 0%nat o = (o, 0%nat) /\ pruned_map m = []) \/
  (exists E k', map_loop (map_child d n) m 0%nat o = (put o (repeat SP (n - col o) ++ E), k') /\ (1 <= k')%nat /\ ok_head E /\
     forall f rest rest' kf, (length E < f)%nat -> follows_b b rest rest' kf ->
       exists c', block_map (S f) (E ++ rest) n n [] = Some (build_map (pruned_map m), rest', c') /\ (rest' <> [] -> c' = kf)).
Proof.
  intros D BN. induction m as [|[key0 x0] r IH]; intros FP FT o CO; [left; split; reflexivity|].
  inversion FP as [|? ? P0 FP']; subst. inversion FT as [|? ? T0 FT']; subst. cbn [map_loop snd] in *.
  destruct (is_nullb x0) eqn:NB.
  - destruct (IH FP' FT' o CO) as [[E Q]|(E & k' & EL & K & OH & R)].
    + left. split; [exact E|]. unfold pruned_map in *. cbn [filter snd]. now rewrite NB.
    + right. exists E, k'. repeat split; auto. intros f rest rest' kf L FO. destruct (R f rest rest' kf L FO) as (c' & E' & CK).
      exists c'. rewrite E'. unfold pruned_map. cbn [filter snd]. rewrite NB. auto.
  - right. destruct (map_child_reads d n key0 x0 D P0 T0 (is_nullb_false _ NB) 0%nat o) as (E0 & EM & OH & RD0); [auto|].
    unfold bsep in EM. cbn [Nat.eqb] in EM. rewrite EM.
    destruct (block_map_rest d n b r D BN FP' FT' 1%nat (put o (repeat SP (n - col o) ++ E0))) as (W & k' & EL & K' & R); [lia|].
    exists (E0 ++ W), k'. rewrite EL, put_put. split; [|split; [exact K'|split]].
    + f_equal. repeat (rewrite <- app_assoc; cbn [app]). reflexivity.
    + destruct E0; [contradiction|exact OH].
    + intros f rest rest' kf L FO. destruct (R rest rest' kf FO) as (R2 & K2 & F2 & RD).
      rewrite app_length in L. rewrite block_map_S. rewrite <- app_assoc.
      destruct (RD0 f (W ++ rest) R2 K2) as (c2 & E2 & CK2); [lia|exact F2|]. rewrite E2.
      destruct (RD f key0 (prune x0) [] c2) as (c' & E' & CK'); [lia|exact CK2|]. exists c'. rewrite E'.
      unfold pruned_map. cbn [filter rev app snd]. rewrite NB. auto.
Qed.

Lemma longkey_inv l : is_longkey_mark l = true -> exists r, l = 63 :: 32 :: r.
Proof.
  destruct l as [|x l]; [discriminate|].
  destruct (N.eqb_spec x 63) as [->|N]; [|intros H; rewrite is_longkey_mark_other in H by exact N; discriminate].
  destruct l as [|y l]; [discriminate|]. destruct (N.eqb_spec y 32) as [->|N]; [eauto|]. intros H. exfalso.
  destruct y as [|p]; [discriminate H|]. repeat (destruct p as [p|p|]; try discriminate H). congruence.
Qed.

(** [block_node] hands a node that starts with a map entry to [block_map] *)
Lemma block_node_map f f' l c m minlit e :
  map_entry f' l c m = Some e -> block_node (S f) l c minlit true = block_map f l c c [].
Proof.
  unfold map_entry. intros H. destruct (is_longkey_mark l) eqn:LM.
  - destruct (longkey_inv _ LM) as (r & ->). clear H.
    cbn [block_node]. change ((63 =? 91) || (63 =? 123)) with false. change (63 =? 124) with false.
    cbn [is_seq_mark]. rewrite LM. reflexivity.
  - destruct (key_scalar l c) as [[[k r1] c1]|] eqn:KS; [|discriminate H].
    destruct (Nat.ltb 1024 (c1 - c)); [discriminate H|].
    destruct (is_value_mark r1) eqn:VM; [|discriminate H].
    destruct l as [|x l]; [discriminate KS|].
    assert (x <> 91 /\ x <> 123 /\ x <> 124 /\ x <> 45) as (N1 & N2 & N3 & N4).
    { repeat split; intros ->; cbn in KS; discriminate KS. }
    cbn [block_node].
    replace (x =? 91) with false by (symmetry; now apply N.eqb_neq).
    replace (x =? 123) with false by (symmetry; now apply N.eqb_neq).
    replace (x =? 124) with false by (symmetry; now apply N.eqb_neq). cbn [orb].
    rewrite is_seq_mark_other by assumption. rewrite LM. cbn [andb]. rewrite KS, VM. reflexivity.
Qed.

Lemma block_map_some_entry f l c m acc r : block_map (S f) l c m acc = Some r -> exists e, map_entry f l c m = Some e.
Proof. rewrite block_map_S. destruct (map_entry f l c m) as [e|]; [eauto|discriminate]. Qed.

(** ** every non-null item in block context *)
Theorem block_all t : P_block t.
Proof.
  induction t using item_ind'; intros d li gi prep o minlit b D TO NN ML BL BG CO.
  - congruence.
  - inversion TO; subst. exists 0%nat, (scalar_bytes false li (nums s)).
    destruct (block_scalar_reads s li minlit 0%nat false b H0 ML BL) as [_ NB].
    split; [|split; [intros []|split; [exact NB|]]].
    + cbn [emit_node kindd repeat app]. now replace (Nat.leb 4 d) with false by (symmetry; apply Nat.leb_gt; lia).
    + intros c akey _. now apply block_scalar_reads.
  - destruct (Nat.leb 3 d) eqn:FL.
    + (* flow style from depth 3 *)
      apply Nat.leb_le in FL. destruct (flow_all (Lst l) d li gi prep o FL I TO NN) as (p & w & EM & FR).
      exists p, w. cbn [kindd]. replace (Nat.leb 3 d) with true by (symmetry; apply Nat.leb_le; exact FL).
      split; [exact EM|]. split; [cbn [is_bgroup]; lia|].
      assert (match prune (Lst l) with Lst _ | Map _ => True | _ => False end) as G by (rewrite prune_lst; exact I).
      split; [apply (flow_in_block _ _ 0%nat 0%nat true 0%nat FR G)|]. intros c akey _. apply (proj1 (flow_in_block _ _ c minlit akey b FR G)).
    + apply Nat.leb_gt in FL. inversion TO as [| |? FT|]; subst. rewrite emit_node_lst, prune_lst.
      cbn [kindd is_bgroup] in *. replace (Nat.leb 3 d) with false in * by (symmetry; apply Nat.leb_gt; lia). cbv zeta.
      specialize (CO ltac:(lia)).
      destruct (block_seq_all d gi b l ltac:(lia) BG H FT (prep CBSeq o) CO) as [[E Q]|(E & k' & EL & K & SB & R)]; rewrite ?E, ?EL.
      * cbn [Nat.eqb]. rewrite indent_to_put, put_put, Q. exists (gi - col (prep CBSeq o))%nat, [91; 93].
        split; [reflexivity|]. split; [lia|]. destruct (flow_in_block _ _ 0%nat 0%nat true 0%nat flow_empty_seq I) as [_ NB].
        split; [exact NB|]. intros c akey _. apply (proj1 (flow_in_block _ _ c minlit akey b flow_empty_seq I)).
      * replace (Nat.eqb k' 0) with false by (symmetry; apply Nat.eqb_neq; lia).
        exists (gi - col (prep CBSeq o))%nat, (45 :: E). split; [reflexivity|]. split; [lia|]. split; [cbn; split; discriminate|].
        intros c akey CA. destruct (CA ltac:(lia)) as [-> ->].
        intros fuel rest rest' kf L FO. cbn [length] in L. destruct fuel as [|[|f]]; [lia|lia|].
        cbn [app]. rewrite block_node_seq by apply SB. apply R; [lia|exact FO].
  - destruct (Nat.leb 3 d) eqn:FL.
    + apply Nat.leb_le in FL. destruct (flow_all (Map m) d li gi prep o FL I TO NN) as (p & w & EM & FR).
      exists p, w. cbn [kindd]. replace (Nat.leb 3 d) with true by (symmetry; apply Nat.leb_le; exact FL).
      split; [exact EM|]. split; [cbn [is_bgroup]; lia|].
      assert (match prune (Map m) with Lst _ | Map _ => True | _ => False end) as G by (rewrite prune_map; exact I).
      split; [apply (flow_in_block _ _ 0%nat 0%nat true 0%nat FR G)|]. intros c akey _. apply (proj1 (flow_in_block _ _ c minlit akey b FR G)).
    + apply Nat.leb_gt in FL. inversion TO as [| | |? KS FT]; subst. rewrite emit_node_map, prune_map.
      cbn [kindd is_bgroup] in *. replace (Nat.leb 3 d) with false in * by (symmetry; apply Nat.leb_gt; lia). cbv zeta.
      specialize (CO ltac:(lia)). assert (Forall entry_ok m) as FE by exact FT.
      destruct (block_map_all d gi b m ltac:(lia) BG H FE (prep CBMap o) CO) as [[E Q]|(E & k' & EL & K & OH & R)]; rewrite ?E, ?EL.
      * cbn [Nat.eqb]. rewrite indent_to_put, put_put, Q. exists (gi - col (prep CBMap o))%nat, [123; 125].
        split; [reflexivity|]. split; [lia|]. destruct (flow_in_block _ _ 0%nat 0%nat true 0%nat flow_empty_map I) as [_ NB].
        split; [exact NB|]. intros c akey _. apply (proj1 (flow_in_block _ _ c minlit akey b flow_empty_map I)).
      * replace (Nat.eqb k' 0) with false by (symmetry; apply Nat.eqb_neq; lia).
        exists (gi - col (prep CBMap o))%nat, E. split; [reflexivity|]. split; [lia|].
        split; [destruct E as [|y E']; [contradiction|]; destruct OH as (A & B' & _); cbn; auto|].
        intros c akey CA. destruct (CA ltac:(lia)) as [-> ->].
        intros fuel rest rest' kf L FO. destruct fuel as [|[|f]]; [lia|lia|].
        destruct (R f rest rest' kf) as (c' & EB & CK); [lia|exact FO|].
        destruct (block_map_some_entry _ _ _ _ _ _ EB) as (e & EE).
        rewrite (block_node_map (S f) f _ gi gi minlit e EE). rewrite <- (build_map_incr _ (incr_pruned _ KS)). eauto.
Qed.

(* ------------------------------------------------------------------ *)
(** * the whole document *)
Lemma three_dots_inv w : three_dots w = true -> w = [46; 46; 46].
Proof.
  destruct w as [|a [|b' [|c [|d w]]]]; try discriminate. cbn. intros H.
  apply andb_true_iff in H. destruct H as [H H3]. apply andb_true_iff in H. destruct H as [H1 H2].
  apply N.eqb_eq in H1, H2, H3. now subst.
Qed.

Theorem tree_roundtrip : tree_roundtrip_full.
Proof.
  intros t WI SW. destruct t as [|s|l|m].
  - reflexivity.
  - now apply tree_roundtrip_scalar.
  - pose proof (tree_ok_of _ WI SW) as TO.
    destruct (block_all (Lst l) 0%nat 2%nat 0%nat prep_top [] 1%nat 0%nat) as (p & w & EM & CG & NB & BR);
      [lia|exact TO|discriminate|lia|lia|lia|intros _; cbn; lia|].
    cbn [kindd Nat.leb prep_top] in *. specialize (CG ltac:(cbn; lia)). cbn [col] in CG. assert (p = 0%nat) as -> by lia.
    unfold emit_octs. rewrite EM. cbn [repeat app]. rewrite rev_put. cbn [rev app].
    destruct (BR 0%nat true ltac:(auto) (2 * length w + 4)%nat [] [] 0%nat) as (c' & E & _); [lia|constructor|].
    rewrite app_nil_r in E. unfold load_octs. destruct w as [|x w']; [contradiction|].
    destruct (three_dots (x :: w')) eqn:TD.
    + apply three_dots_inv in TD. rewrite TD in E. rewrite prune_lst in E. vm_compute in E. discriminate E.
    + rewrite E. reflexivity.
  - pose proof (tree_ok_of _ WI SW) as TO.
    destruct (block_all (Map m) 0%nat 2%nat 0%nat prep_top [] 1%nat 0%nat) as (p & w & EM & CG & NB & BR);
      [lia|exact TO|discriminate|lia|lia|lia|intros _; cbn; lia|].
    cbn [kindd Nat.leb prep_top] in *. specialize (CG ltac:(cbn; lia)). cbn [col] in CG. assert (p = 0%nat) as -> by lia.
    unfold emit_octs. rewrite EM. cbn [repeat app]. rewrite rev_put. cbn [rev app].
    destruct (BR 0%nat true ltac:(auto) (2 * length w + 4)%nat [] [] 0%nat) as (c' & E & _); [lia|constructor|].
    rewrite app_nil_r in E. unfold load_octs. destruct w as [|x w']; [contradiction|].
    destruct (three_dots (x :: w')) eqn:TD.
    + apply three_dots_inv in TD. rewrite TD in E. rewrite prune_map in E. vm_compute in E. discriminate E.
    + rewrite E. reflexivity.
Qed.

(** non-vacuity: a tree of the domain with a literal (long-form) key, a null
    entry that is pruned, a text with a leading blank, and flow style from depth 3 *)
Definition ex_tree : item :=
  Map [ (["a"; x0a]%byte, Lst [Null; Scalar [" "; "a"; x0a]%byte; Lst [Lst [Map [(["k"]%byte, Scalar [])]]]]);
        (["k"]%byte, Scalar ["a"]%byte) ].

Example ex_tree_in_domain : wf_item ex_tree = true /\ scalars_wf ex_tree.
Proof.
  split; [reflexivity|]. cbn [scalars_wf ex_tree].
  repeat match goal with |- _ /\ _ => split end; try exact I; try (cbn; lia);
    first [wf_ex [97; 10] | wf_ex [32; 97; 10] | wf_ex [107] | wf_ex (@nil N) | wf_ex [97]].
Qed.

Example ex_tree_roundtrip :
  load_octs (emit_octs ex_tree) = Some (prune ex_tree) /\ prune ex_tree <> ex_tree /\
  unnums (emit_octs ex_tree) =
    ["?"; " "; "|"; x0a; " "; " "; "a"; x0a; x0a; ":"; " "; "-"; " "; """"; " "; "a"; "\"; "n"; """"; x0a;
     " "; " "; "-"; x0a; " "; " "; " "; " "; "-"; " "; "["; "{"; "k"; ":"; " "; """"; """"; "}"; "]"; x0a;
     "k"; ":"; " "; "a"]%byte.
Proof. split; [|split]; [vm_compute; reflexivity|discriminate|vm_compute; reflexivity]. Qed.
