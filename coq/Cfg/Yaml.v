(** C18 – saving and loading a config tree as YAML.

    Three layers, all over octets ([list N], one number < 256 per byte):

    (a) librime: [EmitScalar]'s style request and [EmitYaml]
        (src/rime/config/config_data.cc): null nodes emit nothing (a null list
        element vanishes, a map entry bound to null is skipped with its key),
        lists and maps at depth >= 3 are requested in flow style.
        [style_request] is the code as it is NOW; [style_request_v0] is the
        code before the repair "fix: ... EmitScalar" and is kept so that the
        finding stays machine-checked ([scalar_roundtrip_v0_refuted]).

    (b) the part of yaml-cpp 0.7.0's emitter that those calls exercise
        (emitter.cpp, emitterutils.cpp; the library source is not in the
        sandbox, the port is from the upstream text and was fitted to probes):
        [ComputeStringFormat] (null-like words are never plain, the literal
        style is refused in flow context), the code-point reader
        [GetNextCodePointAndAdvance] (bad sequences and noncharacters become
        U+FFFD), the double-quoted escaper, the literal writer, the
        [Prepare*Node] layout of block/flow sequences and maps including the
        long-key form ("? key" newline ": value") chosen for literal keys and
        for keys longer than 1024 bytes, and [IndentTo] which depends on the
        output column (so the output is threaded: [out] is the reversed
        stream, [col] the number of bytes since the last line feed).

    (c) a loader for the emitted subset: plain words over [A-Za-z0-9_.],
        double-quoted scalars with yaml-cpp's escape table, literal block
        scalars ([ScanBlockScalar]/[ScanScalar] with indentation auto-detection,
        no folding, clip chomping; ported statement by statement), block and
        flow collections exactly in the layout (b) produces.  Outside that
        subset the loader answers [None] ("not modelled" or "yaml-cpp
        throws"); it is validated against the real loader by the
        correspondence check on emitted documents only.

    Model file: definitions only. *)
From Coq Require Import List NArith Bool Arith.
From Coq.Strings Require Import Byte.
From RimeV Require Import Base.Bytes Cfg.Tree.
Import ListNotations.
Local Open Scope N_scope.

Definition octs := list N.

Definition nums (s : bytes) : octs := map Byte.to_N s.
Definition unnums (o : octs) : bytes := map byte_of_N o.

Definition LF : N := 10.
Definition SP : N := 32.

(* ------------------------------------------------------------------ *)
(** * (a) librime: EmitScalar's style request *)

Inductive style_req := ReqAuto | ReqDoubleQuoted | ReqLiteral.

(** [std::isalnum(ch) || ch == '_' || ch == '.'] ("C" locale) *)
Definition plain_class (c : N) : bool :=
  ((48 <=? c) && (c <=? 57)) || ((65 <=? c) && (c <=? 90)) || ((97 <=? c) && (c <=? 122))
  || (c =? 95) || (c =? 46).

Definition is_break (c : N) : bool := (c =? 10) || (c =? 13).

(** the code before the repair: literal for any text with a CR or LF *)
Definition style_request_v0 (s : octs) : style_req :=
  if existsb is_break s then ReqLiteral
  else if forallb plain_class s then ReqAuto
  else ReqDoubleQuoted.

(** [IsSafeForLiteralStyle]: a text the literal block style reads back
    unchanged – it ends in exactly one LF, does not start with an LF or a blank
    (yaml-cpp detects the block's indentation from the first non-empty line),
    and has no control character other than LF and TAB (CR is a line break to
    the scanner, NUL its escape character, 0x04 its end-of-input mark). *)
Definition lit_char_ok (c : N) : bool := (32 <=? c) || (c =? 10) || (c =? 9).

Fixpoint ends_in_one_lf (s : octs) : bool :=
  match s with
  | [] => false
  | [c] => c =? 10
  | [b; c] => negb (b =? 10) && (c =? 10)
  | _ :: r => ends_in_one_lf r
  end.

Definition literal_safe (s : octs) : bool :=
  match s with
  | [] => false
  | c :: _ => negb (c =? 10) && negb (c =? 32) && ends_in_one_lf s && forallb lit_char_ok s
  end.

Definition three_dots (s : octs) : bool :=
  match s with [a; b; c] => (a =? 46) && (b =? 46) && (c =? 46) | _ => false end.

(** the repaired code *)
Definition style_request_fixed (s : octs) : style_req :=
  if existsb is_break s then (if literal_safe s then ReqLiteral else ReqDoubleQuoted)
  else if forallb plain_class s && negb (three_dots s) then ReqAuto
  else ReqDoubleQuoted.

(** the code now *)
Definition style_request (s : octs) : style_req := style_request_fixed s.

(* ------------------------------------------------------------------ *)
(** * (b) yaml-cpp emitter *)

Inductive fmt := FPlain | FDouble | FLiteral.

(** [IsNullString] *)
Definition is_null_word (s : octs) : bool :=
  match s with
  | [] => true
  | [126] => true
  | [110; 117; 108; 108] => true   (* null *)
  | [78; 117; 108; 108] => true    (* Null *)
  | [78; 85; 76; 76] => true       (* NULL *)
  | _ => false
  end.

(** [ComputeStringFormat] for the requests librime makes.  [ReqAuto] is only
    requested for words over [plain_class]; for those [IsValidPlainScalar] is
    exactly "not a null word". *)
Definition compute_fmt (req : style_req) (flow : bool) (s : octs) : fmt :=
  match req with
  | ReqAuto => if is_null_word s then FDouble else FPlain
  | ReqDoubleQuoted => FDouble
  | ReqLiteral => if flow then FDouble else FLiteral
  end.

(** ** code points *)
Definition REPL : N := 65533.

(** [Utf8BytesIndicated]: 0 stands for "bad lead byte" *)
Definition lead_len (b : N) : nat :=
  let h := b / 16 in
  if h <? 8 then 1%nat
  else if (h =? 12) || (h =? 13) then 2%nat
  else if h =? 14 then 3%nat
  else if h =? 15 then 4%nat
  else 0%nat.

Definition is_trail (b : N) : bool := (128 <=? b) && (b <? 192).

(** the "illegal code point" replacements at the end of [GetNextCodePointAndAdvance] *)
Definition fix_cp (cp : N) : N :=
  if 1114111 <? cp then REPL
  else if (55296 <=? cp) && (cp <=? 57343) then REPL
  else if (cp mod 65536) / 2 =? 32767 then REPL          (* (cp & 0xFFFE) == 0xFFFE *)
  else if (64976 <=? cp) && (cp <=? 65007) then REPL
  else cp.

(** [GetNextCodePointAndAdvance] iterated over the whole string.  A missing or
    non-trailing byte ends the sequence with U+FFFD and is itself read next. *)
Fixpoint decode (l : octs) : list N :=
  match l with
  | [] => []
  | b :: r =>
      match lead_len b with
      | 1%nat => b :: decode r
      | 2%nat =>
          match r with
          | b2 :: r2 => if is_trail b2 then fix_cp ((b mod 32) * 64 + b2 mod 64) :: decode r2 else REPL :: decode r
          | [] => [REPL]
          end
      | 3%nat =>
          match r with
          | b2 :: r2 =>
              if is_trail b2 then
                match r2 with
                | b3 :: r3 =>
                    if is_trail b3 then fix_cp (((b mod 16) * 64 + b2 mod 64) * 64 + b3 mod 64) :: decode r3
                    else REPL :: decode r2
                | [] => [REPL]
                end
              else REPL :: decode r
          | [] => [REPL]
          end
      | 4%nat =>
          match r with
          | b2 :: r2 =>
              if is_trail b2 then
                match r2 with
                | b3 :: r3 =>
                    if is_trail b3 then
                      match r3 with
                      | b4 :: r4 =>
                          if is_trail b4 then
                            fix_cp ((((b mod 8) * 64 + b2 mod 64) * 64 + b3 mod 64) * 64 + b4 mod 64) :: decode r4
                          else REPL :: decode r3
                      | [] => [REPL]
                      end
                    else REPL :: decode r2
                | [] => [REPL]
                end
              else REPL :: decode r
          | [] => [REPL]
          end
      | _ => REPL :: decode r
      end
  end.

(** [WriteCodePoint] *)
Definition encode (cp0 : N) : octs :=
  let cp := if 1114111 <? cp0 then REPL else cp0 in
  if cp <=? 127 then [cp]
  else if cp <=? 2047 then [192 + cp / 64; 128 + cp mod 64]
  else if cp <=? 65535 then [224 + cp / 4096; 128 + (cp / 64) mod 64; 128 + cp mod 64]
  else [240 + cp / 262144; 128 + (cp / 4096) mod 64; 128 + (cp / 64) mod 64; 128 + cp mod 64].

Definition hexdigit (d : N) : N := if d <? 10 then 48 + d else 87 + d.

(** [WriteDoubleQuoteEscapeSequence] *)
Definition esc_seq (cp : N) : octs :=
  if cp <? 255 then [92; 120; hexdigit (cp / 16 mod 16); hexdigit (cp mod 16)]
  else if cp <? 65535 then
    [92; 117; hexdigit (cp / 4096 mod 16); hexdigit (cp / 256 mod 16); hexdigit (cp / 16 mod 16); hexdigit (cp mod 16)]
  else
    [92; 85; hexdigit (cp / 268435456 mod 16); hexdigit (cp / 16777216 mod 16); hexdigit (cp / 1048576 mod 16);
     hexdigit (cp / 65536 mod 16); hexdigit (cp / 4096 mod 16); hexdigit (cp / 256 mod 16);
     hexdigit (cp / 16 mod 16); hexdigit (cp mod 16)].

(** one code point inside [WriteDoubleQuotedString] *)
Definition dq_cp (cp : N) : octs :=
  if cp =? 34 then [92; 34]
  else if cp =? 92 then [92; 92]
  else if cp =? 10 then [92; 110]
  else if cp =? 9 then [92; 116]
  else if cp =? 13 then [92; 114]
  else if cp =? 8 then [92; 98]
  else if cp =? 12 then [92; 102]
  else if (cp <? 32) || ((128 <=? cp) && (cp <=? 160)) then esc_seq cp
  else if cp =? 65279 then esc_seq cp
  else encode cp.

Definition dq_write (s : octs) : octs := 34 :: flat_map dq_cp (decode s) ++ [34].

(** [WriteLiteralString]: "|" LF, then every code point; a LF is written bare,
    anything else after [IndentTo(indent)] (which pads only at a line start). *)
Fixpoint lit_body (indent : nat) (at_bol : bool) (cps : list N) : octs :=
  match cps with
  | [] => []
  | cp :: r =>
      if cp =? 10 then 10 :: lit_body indent true r
      else (if at_bol then repeat SP indent else []) ++ encode cp ++ lit_body indent false r
  end.

Definition lit_write (indent : nat) (s : octs) : octs := 124 :: 10 :: lit_body indent true (decode s).

(** the bytes of a scalar: [flow] is the flow type of the enclosing group,
    [li] = CurIndent + 2, the indentation a literal block would get *)
Definition scalar_fmt (flow : bool) (s : octs) : fmt := compute_fmt (style_request s) flow s.

Definition scalar_bytes_f (f : fmt) (li : nat) (s : octs) : octs :=
  match f with
  | FPlain => s
  | FDouble => dq_write s
  | FLiteral => lit_write li s
  end.

Definition scalar_bytes (flow : bool) (li : nat) (s : octs) : octs := scalar_bytes_f (scalar_fmt flow s) li s.

(** the same with the old request, for the finding *)
Definition scalar_bytes_v0 (flow : bool) (li : nat) (s : octs) : octs :=
  scalar_bytes_f (compute_fmt (style_request_v0 s) flow s) li s.

(** [Emitter::Write]: a literal scalar or one longer than 1024 bytes makes the
    map entry it is the key of a "long key" entry *)
Definition long_key (f : fmt) (s : octs) : bool :=
  match f with FLiteral => true | _ => Nat.ltb 1024 (length s) end.

(** ** the output stream with its column *)
Definition out := list N.   (* reversed *)

Fixpoint col (o : out) : nat :=
  match o with
  | [] => 0%nat
  | c :: r => if c =? 10 then 0%nat else S (col r)
  end.

Definition put (o : out) (s : octs) : out := rev_append s o.

Definition indent_to (o : out) (n : nat) : out := put o (repeat SP (n - col o)%nat).

(** [SpaceOrIndentTo] (no comments are ever written) *)
Definition space_or_indent (o : out) (require_space : bool) (n : nat) : out :=
  let o1 := if (Nat.ltb 0 (col o) && require_space)%bool then put o [SP] else o in
  indent_to o1 n.

Inductive ckind := CInline | CBSeq | CBMap.

Definition nl_if (b : bool) (o : out) : out := if b then put o [LF] else o.

(** [PrepareTopNode]: first and only document, nothing written yet *)
Definition prep_top (ck : ckind) (o : out) : out :=
  match ck with CInline => space_or_indent o false 0 | _ => o end.

(** [BlockSeqPrepareNode], group at CurIndent [n], [k] children so far *)
Definition prep_bseq (n k : nat) (ck : ckind) (o : out) : out :=
  let o1 := put (indent_to (nl_if (Nat.ltb 0 k) o) n) [45] in
  match ck with
  | CInline => space_or_indent o1 false (n + 2)%nat
  | CBSeq => put o1 [LF]
  | CBMap => o1
  end.

(** [BlockMapPrepare{Simple,Long}Key]; keys are scalars, [k] pairs so far *)
Definition prep_bmap_key (n k : nat) (long : bool) (o : out) : out :=
  let o1 := nl_if (Nat.ltb 0 k) o in
  if long then space_or_indent (put (indent_to o1 n) [63]) true (n + 1)%nat
  else space_or_indent o1 false n.

(** [BlockMapPrepare{Simple,Long}KeyValue] *)
Definition prep_bmap_val (n : nat) (long : bool) (ck : ckind) (o : out) : out :=
  if long then
    let o1 := put (indent_to (put o [LF]) n) [58] in
    match ck with CInline => space_or_indent o1 true (n + 1)%nat | _ => o1 end
  else
    let o1 := put o [58] in
    match ck with CInline => space_or_indent o1 true (n + 2)%nat | _ => put o1 [LF] end.

(** [FlowSeqPrepareNode], [li] = LastIndent *)
Definition prep_fseq (li k : nat) (ck : ckind) (o : out) : out :=
  let o1 := put (indent_to o li) [if Nat.eqb k 0 then 91 else 44] in
  space_or_indent o1 (Nat.ltb 0 k) li.

(** [FlowMapPrepare{Simple,Long}Key] *)
Definition prep_fmap_key (li k : nat) (long : bool) (o : out) : out :=
  let o0 := indent_to o li in
  let o1 := if long then put o0 (if Nat.eqb k 0 then [123; SP; 63] else [44; SP; 63])
            else put o0 [if Nat.eqb k 0 then 123 else 44] in
  space_or_indent o1 (Nat.ltb 0 k) li.

(** [FlowMapPrepare{Simple,Long}KeyValue] *)
Definition prep_fmap_val (li : nat) (ck : ckind) (o : out) : out :=
  space_or_indent (put (indent_to o li) [58]) true li.

(** ** EmitYaml driving the emitter.
    [d] is librime's depth of the node, [li] the literal indentation for a
    scalar here (CurIndent of the enclosing group + 2), [gi] the CurIndent a
    group opened here gets, [prep] what the enclosing group's Prepare*Node
    writes for a child of the given kind. *)
Definition is_nullb (t : item) : bool := match t with Null => true | _ => false end.

Fixpoint emit_node (d li gi : nat) (prep : ckind -> out -> out) (t : item) (o : out) {struct t} : out :=
  match t with
  | Null => o
  | Scalar s =>
      let s' := nums s in
      put (prep CInline o) (scalar_bytes (Nat.leb 4 d) li s')
  | Lst l =>
      let flow := Nat.leb 3 d in
      let c := gi in
      let o0 := prep (if flow then CInline else CBSeq) o in
      let '(o1, k) :=
        (fix go (l : list item) (k : nat) (o : out) {struct l} : out * nat :=
           match l with
           | [] => (o, k)
           | x :: r =>
               if is_nullb x then go r k o
               else go r (S k) (emit_node (S d) (c + 2)%nat (c + 2)%nat
                                          (if flow then prep_fseq (c - 2)%nat k else prep_bseq c k) x o)
           end) l 0%nat o0 in
      if Nat.eqb k 0 then put (indent_to o1 c) [91; 93]
      else if flow then put (indent_to o1 c) [93] else o1
  | Map m =>
      let flow := Nat.leb 3 d in
      let c := gi in
      let o0 := prep (if flow then CInline else CBMap) o in
      let '(o1, k) :=
        (fix go (m : list (bytes * item)) (k : nat) (o : out) {struct m} : out * nat :=
           match m with
           | [] => (o, k)
           | (key, x) :: r =>
               if is_nullb x then go r k o
               else
                 let ks := nums key in
                 let f := scalar_fmt flow ks in
                 let long := long_key f ks in
                 let ok := put (if flow then prep_fmap_key (c - 2)%nat k long o else prep_bmap_key c k long o)
                               (scalar_bytes_f f (c + 2)%nat ks) in
                 go r (S k) (emit_node (S d) (c + 2)%nat (c + 2)%nat
                                       (if flow then prep_fmap_val (c - 2)%nat else prep_bmap_val c long) x ok)
           end) m 0%nat o0 in
      if Nat.eqb k 0 then put (indent_to o1 c) [123; 125]
      else if flow then put (indent_to o1 c) [125] else o1
  end.

Definition emit_octs (t : item) : octs := rev (emit_node 0 2 0 prep_top t []).

Definition emit_doc (t : item) : bytes := unnums (emit_octs t).

(* ------------------------------------------------------------------ *)
(** * (c) loader for the emitted subset *)

(** ** plain words *)
Fixpoint span_plain (l : octs) : octs * octs :=
  match l with
  | c :: r => if plain_class c then let '(a, b) := span_plain r in (c :: a, b) else ([], l)
  | [] => ([], [])
  end.

(** ** double-quoted scalars: [ScanQuotedScalar] + [Exp::Escape] *)
Definition hex_of (c : N) : option N :=
  if (48 <=? c) && (c <=? 57) then Some (c - 48)
  else if (65 <=? c) && (c <=? 70) then Some (c - 55)
  else if (97 <=? c) && (c <=? 102) then Some (c - 87)
  else None.

Fixpoint parse_hex (n : nat) (acc : N) (l : octs) : option (N * octs) :=
  match n with
  | O => Some (acc, l)
  | S n' =>
      match l with
      | c :: r => match hex_of c with Some d => parse_hex n' (acc * 16 + d) r | None => None end
      | [] => None
      end
  end.

(** [Escape(in, codeLength)]: the loader's own UTF-8 encoder *)
Definition esc_encode (v : N) : option octs :=
  if ((55296 <=? v) && (v <=? 57343)) || (1114111 <? v) then None
  else if v <=? 127 then Some [v]
  else if v <=? 2047 then Some [192 + v / 64; 128 + v mod 64]
  else if v <=? 65535 then Some [224 + v / 4096; 128 + (v / 64) mod 64; 128 + v mod 64]
  else Some [240 + v / 262144; 128 + (v / 4096) mod 64; 128 + (v / 64) mod 64; 128 + v mod 64].

Definition esc_hex (n : nat) (l : octs) : option (octs * octs) :=
  match parse_hex n 0 l with
  | Some (v, r) => match esc_encode v with Some e => Some (e, r) | None => None end
  | None => None
  end.

(** the character after the backslash *)
Definition unescape (c : N) (r : octs) : option (octs * octs) :=
  if c =? 48 then Some ([0], r)
  else if c =? 97 then Some ([7], r)
  else if c =? 98 then Some ([8], r)
  else if (c =? 116) || (c =? 9) then Some ([9], r)
  else if c =? 110 then Some ([10], r)
  else if c =? 118 then Some ([11], r)
  else if c =? 102 then Some ([12], r)
  else if c =? 114 then Some ([13], r)
  else if c =? 101 then Some ([27], r)
  else if c =? 32 then Some ([32], r)
  else if c =? 34 then Some ([34], r)
  else if c =? 39 then Some ([39], r)
  else if c =? 92 then Some ([92], r)
  else if c =? 47 then Some ([47], r)
  else if c =? 78 then Some ([133], r)
  else if c =? 95 then Some ([160], r)
  else if c =? 76 then Some ([226; 128; 168], r)
  else if c =? 80 then Some ([226; 128; 169], r)
  else if c =? 120 then esc_hex 2 r
  else if c =? 117 then esc_hex 4 r
  else if c =? 85 then esc_hex 8 r
  else None.

(** the text after the opening quote up to and including the closing quote.
    Raw line breaks inside the quotes (folding) are not modelled; the emitter
    never writes one.  NUL and 0x04 never appear raw either. *)
Fixpoint dq_scan (fuel : nat) (l : octs) (acc : octs) : option (octs * octs) :=
  match fuel with
  | O => None
  | S f =>
      match l with
      | [] => None
      | c :: r =>
          if c =? 34 then Some (rev acc, r)
          else if c =? 92 then
            match r with
            | e :: r' =>
                match unescape e r' with
                | Some (bs, r'') => dq_scan f r'' (rev_append bs acc)
                | None => None
                end
            | [] => None
            end
          else if (c =? 10) || (c =? 13) || (c =? 4) then None
          else dq_scan f r (c :: acc)
      end
  end.

(** ** literal block scalars: [ScanBlockScalar] + [ScanScalar] with
    fold = DONT_FOLD, chomp = CLIP, detectIndent, eatLeadingWhitespace = false,
    trimTrailingSpaces = false, escape = NUL, end = end of input.
    [lit_scan] starts right after the LF that follows the "|" header; the
    state is that of phase #3 ([at_ls = true], [c] spaces eaten on this line) or
    of phase #1 (inside a line).  Result: the raw text (reversed), the rest of
    the input, positioned at the first non-blank of a less indented line (or at
    the end), and the column there. *)
Fixpoint lit_scan (l : octs) (indent : nat) (detect past at_ls : bool) (c : nat) (acc : octs)
  : option (octs * octs * nat) :=
  match l with
  | [] =>
      if at_ls then Some (if past then 10 :: acc else acc, [], c) else Some (acc, [], c)
  | ch :: r =>
      if at_ls then
        if (ch =? 32) && (Nat.ltb c indent || detect) then lit_scan r indent detect past true (S c) acc
        else
          let indent' := if detect then Nat.max indent c else indent in
          if (ch =? 9) && Nat.ltb c indent' then None                 (* TAB_IN_INDENTATION *)
          else if (ch =? 13) || (ch =? 0) || (ch =? 4) then None       (* not modelled *)
          else
            let acc' := if past then 10 :: acc else acc in
            if ch =? 10 then lit_scan r indent' detect true true 0%nat acc'
            else if Nat.ltb c indent' then Some (acc', l, c)
            else lit_scan r indent' false true false (S c) (ch :: acc')
      else
        if ch =? 10 then lit_scan r indent detect past true 0%nat acc
        else if (ch =? 13) || (ch =? 0) || (ch =? 4) then None
        else lit_scan r indent detect past false (S c) (ch :: acc)
  end.

(** CLIP: drop trailing line feeds but one; a text of line feeds only becomes empty *)
Fixpoint drop_lfs (racc : octs) : octs :=
  match racc with
  | c :: r => if c =? 10 then drop_lfs r else racc
  | [] => []
  end.

Definition clip (racc : octs) : octs :=
  match drop_lfs racc with
  | [] => []
  | core => match racc with
            | c :: _ => if c =? 10 then rev (10 :: core) else rev core
            | [] => []
            end
  end.

(** after the "|": only the bare header "|" LF is modelled *)
Definition lit_load (l : octs) (min_indent : nat) : option (octs * octs * nat) :=
  match l with
  | ch :: r =>
      if ch =? 10 then
        match lit_scan r min_indent true false true 0%nat [] with
        | Some (racc, rest, c) => Some (clip racc, rest, c)
        | None => None
        end
      else None
  | [] => Some ([], [], 0%nat)
  end.

(** ** positions *)
(** skip blanks on the current line *)
Fixpoint skip_sp (l : octs) (c : nat) : octs * nat :=
  match l with
  | ch :: r => if ch =? 32 then skip_sp r (S c) else (l, c)
  | [] => ([], c)
  end.

(** from the end of an inline node to the first non-blank of the next
    non-empty line ("line-start form"); the rest of the current line must be
    empty *)
Fixpoint next_line (l : octs) (c : nat) (seen_lf : bool) : option (octs * nat) :=
  match l with
  | [] => Some ([], c)
  | ch :: r =>
      if ch =? 10 then next_line r 0%nat true
      else if ch =? 32 then (if seen_lf then next_line r (S c) true else None)
      else if seen_lf then Some (l, c) else None
  end.

Definition to_ls (l : octs) (c : nat) : option (octs * nat) := next_line l c false.

Definition starts_blank_or_end (l : octs) : bool :=
  match l with [] => true | ch :: _ => (ch =? 32) || (ch =? 10) end.

(** ** flow collections (one line) *)
Definition build_map (kvs : list (bytes * item)) : item :=
  Map (fold_left (fun m kv => map_set m (fst kv) (snd kv)) kvs []).

Definition flow_scalar (l : octs) (c : nat) : option (octs * octs * nat) :=
  match l with
  | ch :: r =>
      if ch =? 34 then
        match dq_scan (S (length r)) r [] with
        | Some (s, r') => Some (s, r', (c + (length l - length r'))%nat)
        | None => None
        end
      else if plain_class ch then
        let '(w, r') := span_plain l in Some (w, r', (c + length w)%nat)
      else None
  | [] => None
  end.

Fixpoint flow_node (fuel : nat) (l : octs) (c : nat) : option (item * octs * nat) :=
  match fuel with
  | O => None
  | S f =>
      match l with
      | [] => None
      | ch :: r =>
          if ch =? 91 then
            let '(r1, c1) := skip_sp r (S c) in
            match r1 with
            | 93 :: r2 => Some (Lst [], r2, S c1)
            | _ => flow_seq_items f r1 c1 []
            end
          else if ch =? 123 then
            let '(r1, c1) := skip_sp r (S c) in
            match r1 with
            | 125 :: r2 => Some (Map [], r2, S c1)
            | _ => flow_map_items f r1 c1 []
            end
          else
            match flow_scalar l c with
            | Some (s, r', c') => Some (Scalar (unnums s), r', c')
            | None => None
            end
      end
  end
with flow_seq_items (fuel : nat) (l : octs) (c : nat) (acc : list item) : option (item * octs * nat) :=
  match fuel with
  | O => None
  | S f =>
      match flow_node f l c with
      | Some (x, r, c1) =>
          let '(r1, c2) := skip_sp r c1 in
          match r1 with
          | 44 :: r2 => let '(r3, c3) := skip_sp r2 (S c2) in flow_seq_items f r3 c3 (x :: acc)
          | 93 :: r2 => Some (Lst (rev (x :: acc)), r2, S c2)
          | _ => None
          end
      | None => None
      end
  end
with flow_map_items (fuel : nat) (l : octs) (c : nat) (acc : list (bytes * item)) : option (item * octs * nat) :=
  match fuel with
  | O => None
  | S f =>
      (* optional explicit key mark "? " *)
      let '(l0, c0, explicit) :=
        match l with
        | 63 :: 32 :: r => let '(l1, c1) := skip_sp r (c + 2)%nat in (l1, c1, true)
        | _ => (l, c, false)
        end in
      match flow_scalar l0 c0 with
      | Some (k, r, c1) =>
          let '(r1, c2) := skip_sp r c1 in
          match r1 with
          | 58 :: 32 :: r2 =>
              if (negb explicit && Nat.ltb 1024 (c1 - c0))%bool then None   (* VerifySimpleKey: an implicit key spans at most 1024 bytes *)
              else
              let '(r3, c3) := skip_sp r2 (c2 + 2)%nat in
              match flow_node f r3 c3 with
              | Some (v, r4, c4) =>
                  let '(r5, c5) := skip_sp r4 c4 in
                  match r5 with
                  | 44 :: r6 => let '(r7, c7) := skip_sp r6 (S c5) in flow_map_items f r7 c7 ((unnums k, v) :: acc)
                  | 125 :: r6 => Some (build_map (rev ((unnums k, v) :: acc)), r6, S c5)
                  | _ => None
                  end
              | None => None
              end
          | _ => None
          end
      | None => None
      end
  end.

(** ** block structure.
    Every function takes the input at the first byte of a node ([c] = its
    column) and returns the node with the input in line-start form.
    [minlit] = 1 + the indentation of the innermost enclosing block
    collection (1 at top level): the least indentation of a literal block. *)

(** a scalar that may be a simple key: plain word or double-quoted *)
Definition key_scalar (l : octs) (c : nat) : option (octs * octs * nat) := flow_scalar l c.

Definition is_value_mark (l : octs) : bool :=
  match l with
  | 58 :: r => starts_blank_or_end r
  | _ => false
  end.

Definition is_seq_mark (l : octs) : bool :=
  match l with
  | 45 :: r => starts_blank_or_end r
  | _ => false
  end.

Definition is_longkey_mark (l : octs) : bool :=
  match l with
  | 63 :: 32 :: _ => true
  | _ => false
  end.

Fixpoint block_node (fuel : nat) (l : octs) (c : nat) (minlit : nat) (allow_key : bool)
  : option (item * octs * nat) :=
  match fuel with
  | O => None
  | S f =>
      match l with
      | [] => None
      | ch :: r =>
          if (ch =? 91) || (ch =? 123) then
            match flow_node (S (length l)) l c with
            | Some (x, r1, c1) => match to_ls r1 c1 with Some (r2, c2) => Some (x, r2, c2) | None => None end
            | None => None
            end
          else if ch =? 124 then
            match lit_load r minlit with
            | Some (s, r1, c1) => Some (Scalar (unnums s), r1, c1)
            | None => None
            end
          else if is_seq_mark l then block_seq f l c c []
          else if (is_longkey_mark l && allow_key)%bool then block_map f l c c []
          else
            match key_scalar l c with
            | Some (s, r1, c1) =>
                if (is_value_mark r1 && allow_key)%bool then block_map f l c c []
                else match to_ls r1 c1 with Some (r2, c2) => Some (Scalar (unnums s), r2, c2) | None => None end
            | None => None
            end
      end
  end
(** entries of a block sequence whose "-" stand in column [m]; [l] is at a "-" in column [c] *)
with block_seq (fuel : nat) (l : octs) (c m : nat) (acc : list item) : option (item * octs * nat) :=
  match fuel with
  | O => None
  | S f =>
      match l with
      | 45 :: r =>
          let elem :=
            match r with
            | 32 :: _ =>
                let '(r1, c1) := skip_sp r (S c) in
                match r1 with
                | [] => Some (Null, [], c1)
                | _ => block_node f r1 c1 (S m) true
                end
            | _ =>
                match to_ls r (S c) with
                | Some (r1, c1) =>
                    match r1 with
                    | [] => Some (Null, [], c1)
                    | _ => if Nat.ltb m c1 then block_node f r1 c1 (S m) true else Some (Null, r1, c1)
                    end
                | None => None
                end
            end in
          match elem with
          | Some (x, r2, c2) =>
              match r2 with
              | [] => Some (Lst (rev (x :: acc)), [], c2)
              | _ =>
                  if Nat.ltb c2 m then Some (Lst (rev (x :: acc)), r2, c2)
                  else if (Nat.eqb c2 m && is_seq_mark r2)%bool then block_seq f r2 c2 m (x :: acc)
                  else None
              end
          | None => None
          end
      | _ => None
      end
  end
(** entries of a block map whose keys stand in column [m] *)
with block_map (fuel : nat) (l : octs) (c m : nat) (acc : list (bytes * item)) : option (item * octs * nat) :=
  match fuel with
  | O => None
  | S f =>
      let entry :=
        if is_longkey_mark l then
          (* "? " key-node, then ":" in column m, then the value *)
          let '(r1, c1) := skip_sp (skipn 1 l) (S c) in
          match block_node f r1 c1 (S m) false with
          | Some (Scalar k, r2, c2) =>
              if (Nat.eqb c2 m && is_value_mark r2)%bool then
                match skipn 1 r2 with
                | (32 :: _) as r3 =>
                    let '(r4, c4) := skip_sp r3 (S c2) in
                    match r4 with
                    | [] => Some (k, Null, [], c4)
                    | _ => match block_node f r4 c4 (S m) true with
                           | Some (v, r5, c5) => Some (k, v, r5, c5)
                           | None => None
                           end
                    end
                | r3 =>
                    match to_ls r3 (S c2) with
                    | Some (r4, c4) =>
                        match r4 with
                        | [] => Some (k, Null, [], c4)
                        | _ => if Nat.ltb m c4 then
                                 match block_node f r4 c4 (S m) true with
                                 | Some (v, r5, c5) => Some (k, v, r5, c5)
                                 | None => None
                                 end
                               else Some (k, Null, r4, c4)
                        end
                    | None => None
                    end
                end
              else None
          | _ => None
          end
        else
          match key_scalar l c with
          | Some (k, r1, c1) =>
              if Nat.ltb 1024 (c1 - c) then None      (* VerifySimpleKey: an implicit key spans at most 1024 bytes *)
              else if is_value_mark r1 then
                match skipn 1 r1 with
                | (32 :: _) as r3 =>
                    let '(r4, c4) := skip_sp r3 (S c1) in
                    match r4 with
                    | [] => Some (unnums k, Null, [], c4)
                    | _ => match block_node f r4 c4 (S m) false with
                           | Some (v, r5, c5) => Some (unnums k, v, r5, c5)
                           | None => None
                           end
                    end
                | r3 =>
                    match to_ls r3 (S c1) with
                    | Some (r4, c4) =>
                        match r4 with
                        | [] => Some (unnums k, Null, [], c4)
                        | _ => if Nat.ltb m c4 then
                                 match block_node f r4 c4 (S m) true with
                                 | Some (v, r5, c5) => Some (unnums k, v, r5, c5)
                                 | None => None
                                 end
                               else Some (unnums k, Null, r4, c4)
                        end
                    | None => None
                    end
                end
              else None
          | None => None
          end in
      match entry with
      | Some (k, v, r2, c2) =>
          match r2 with
          | [] => Some (build_map (rev ((k, v) :: acc)), [], c2)
          | _ =>
              if Nat.ltb c2 m then Some (build_map (rev ((k, v) :: acc)), r2, c2)
              else if Nat.eqb c2 m then block_map f r2 c2 m ((k, v) :: acc)
              else None
          end
      | None => None
      end
  end.

(** [YAML::Load] + [ConvertFromYaml] on an emitted document.  A document that
    is exactly "..." is a document-end marker: the stream holds no node. *)
Definition load_octs (doc : octs) : option item :=
  match doc with
  | [] => Some Null
  | _ =>
      if three_dots doc then Some Null
      else
        match block_node (2 * length doc + 4)%nat doc 0%nat 1%nat true with
        | Some (t, [], _) => Some t
        | _ => None
        end
  end.

Definition load_doc (doc : bytes) : option item := load_octs (nums doc).

(** ** the scalar codec in isolation (what [scalar_roundtrip] is about) *)
Inductive sctx :=
| CtxBlock (li minlit : nat)   (* scalar in a block collection: a literal is written with indentation li
                                   and read with least indentation minlit = 1 + that of the enclosing collection *)
| CtxFlow.              (* scalar in a flow collection *)

Definition ctx_flow (c : sctx) : bool := match c with CtxFlow => true | _ => false end.
Definition ctx_li (c : sctx) : nat := match c with CtxBlock li _ => li | CtxFlow => 0%nat end.

Definition emit_scalar (c : sctx) (s : octs) : octs := scalar_bytes (ctx_flow c) (ctx_li c) s.
Definition emit_scalar_v0 (c : sctx) (s : octs) : octs := scalar_bytes_v0 (ctx_flow c) (ctx_li c) s.

(** read one scalar token from the front of [l] *)
Definition load_scalar (c : sctx) (l : octs) : option (octs * octs) :=
  match l with
  | 124 :: r =>
      match c with
      | CtxBlock _ minlit => match lit_load r minlit with Some (s, rest, _) => Some (s, rest) | None => None end
      | CtxFlow => None
      end
  | _ => match flow_scalar l 0%nat with Some (s, rest, _) => Some (s, rest) | None => None end
  end.
