(** C18 – the textual forms of keys ("name", "@N", "@next", "@last",
    "@before N", "@after N"), what [ResolveListIndex] makes of them, the path a
    value written through them is read back at, and the API-level statements
    (path strings, typed setters and getters). *)
From Coq Require Import List NArith ZArith Bool Arith Lia.
From Coq.Strings Require Import Byte.
From RimeV Require Import Base.Bytes Cfg.Tree Cfg.Path Cfg.PathProofs Cfg.Typed Cfg.TypedProofs.
Import ListNotations.

(** * key forms *)
Inductive keyform :=
| FKey (k : bytes)        (* a map key *)
| FIdx (n : N)            (* "@N" *)
| FBefore (n : N)         (* "@before N" *)
| FAfter (n : N)          (* "@after N" *)
| FNext                   (* "@next" *)
| FLast.                  (* "@last" *)

Definition t_before : bytes := ["@"; "b"; "e"; "f"; "o"; "r"; "e"; " "]%byte.
Definition t_after : bytes := ["@"; "a"; "f"; "t"; "e"; "r"; " "]%byte.
Definition t_next : bytes := ["@"; "n"; "e"; "x"; "t"]%byte.
Definition t_last : bytes := ["@"; "l"; "a"; "s"; "t"]%byte.

Definition key_text (f : keyform) : bytes :=
  match f with
  | FKey k => k
  | FIdx n => at_sign :: dec n
  | FBefore n => t_before ++ dec n
  | FAfter n => t_after ++ dec n
  | FNext => t_next
  | FLast => t_last
  end.

(** the key under which the written element is read afterwards *)
Definition key_readback (f : keyform) : bytes :=
  match f with FNext => t_last | _ => key_text f end.

Definition no_slash (k : bytes) : Prop := Forall (fun c => byte_eqb c slash = false) k.

(** a map key: not empty, no '/', not of the list-reference shape *)
Definition wf_form (f : keyform) : Prop :=
  match f with
  | FKey k => k <> [] /\ no_slash k /\ is_list_ref k = false
  | _ => True
  end.

(** ** what the parser makes of each form *)
Lemma dec_head n : exists d ds, dec n = d :: ds /\ is_digit d = true.
Proof.
  destruct (dec_spec n) as (F & _ & NE). destruct (dec n) as [|d ds]; [congruence|].
  inversion F; subst. eauto.
Qed.

Lemma digit_neq d c : is_digit d = true -> (bN c < 48 \/ 57 < bN c)%N -> byte_eqb c d = false.
Proof.
  unfold is_digit. intros D H. apply andb_true_iff in D. destruct D as [A B].
  apply N.leb_le in A. apply N.leb_le in B. unfold byte_eqb. apply N.eqb_neq.
  change (Byte.to_N c) with (bN c). change (Byte.to_N d) with (bN d). lia.
Qed.

Lemma digit_neq' d c : is_digit d = true -> (bN c < 48 \/ 57 < bN c)%N -> byte_eqb d c = false.
Proof. intros D H. unfold byte_eqb. rewrite N.eqb_sym. now apply (digit_neq d c). Qed.

Lemma parse_ref_digits n (p : bytes) :
  (n < two64)%N ->
  parse_ref (p ++ dec n) =
  match p with
  | [_] => {| rs_base := BPlain; rs_last := false; rs_num := n |}
  | _ => parse_ref (p ++ dec n)
  end.
Proof.
  intros H. destruct p as [|a [|b p]]; try reflexivity.
  destruct (dec_head n) as (d & ds & E & D). unfold parse_ref. cbn [app skipn]. rewrite E.
  cbn [starts_with]. rewrite !(digit_neq d) by (exact D || (cbn; lia)). cbn [andb].
  rewrite (digit_neq' d) by (exact D || (cbn; lia)). cbn [starts_with]. rewrite !(digit_neq d) by (exact D || (cbn; lia)). cbn [andb].
  rewrite <- E. rewrite <- (app_nil_r (dec n)), strtoul10_dec by (exact H || reflexivity). reflexivity.
Qed.

Lemma parse_ref_idx n : (n < two64)%N -> parse_ref (key_text (FIdx n)) = {| rs_base := BPlain; rs_last := false; rs_num := n |}.
Proof. intros H. exact (parse_ref_digits n [at_sign] H). Qed.

Lemma parse_ref_before n : (n < two64)%N -> parse_ref (key_text (FBefore n)) = {| rs_base := BBefore; rs_last := false; rs_num := n |}.
Proof.
  intros H. destruct (dec_head n) as (d & ds & E & D). unfold parse_ref, key_text, t_before. cbn [app skipn starts_with].
  change (byte_eqb "n"%byte "b"%byte) with false. cbn [andb].
  change (byte_eqb "b"%byte "b"%byte) with true. change (byte_eqb "e"%byte "e"%byte) with true.
  change (byte_eqb "f"%byte "f"%byte) with true. change (byte_eqb "o"%byte "o"%byte) with true.
  change (byte_eqb "r"%byte "r"%byte) with true. cbn [andb]. change (byte_eqb " "%byte " "%byte) with true. cbv iota.
  rewrite E. cbn [starts_with]. rewrite (digit_neq d) by (exact D || (cbn; lia)). cbn [andb].
  rewrite <- E. rewrite <- (app_nil_r (dec n)), strtoul10_dec by (exact H || reflexivity). reflexivity.
Qed.

Lemma parse_ref_after n : (n < two64)%N -> parse_ref (key_text (FAfter n)) = {| rs_base := BAfter; rs_last := false; rs_num := n |}.
Proof.
  intros H. destruct (dec_head n) as (d & ds & E & D). unfold parse_ref, key_text, t_after. cbn [app skipn starts_with].
  change (byte_eqb "n"%byte "a"%byte) with false. change (byte_eqb "b"%byte "a"%byte) with false. cbn [andb].
  change (byte_eqb "a"%byte "a"%byte) with true. change (byte_eqb "f"%byte "f"%byte) with true.
  change (byte_eqb "t"%byte "t"%byte) with true. change (byte_eqb "e"%byte "e"%byte) with true.
  change (byte_eqb "r"%byte "r"%byte) with true. cbn [andb]. change (byte_eqb " "%byte " "%byte) with true. cbv iota.
  rewrite E. cbn [starts_with]. rewrite (digit_neq d) by (exact D || (cbn; lia)). cbn [andb].
  rewrite <- E. rewrite <- (app_nil_r (dec n)), strtoul10_dec by (exact H || reflexivity). reflexivity.
Qed.

Lemma parse_ref_next : parse_ref t_next = {| rs_base := BNext; rs_last := false; rs_num := 0 |}.
Proof. reflexivity. Qed.

Lemma parse_ref_last : parse_ref t_last = {| rs_base := BPlain; rs_last := true; rs_num := 0 |}.
Proof. reflexivity. Qed.

(** the meaning of the forms: "@N" is element N, "@before N" inserts before
    element N, "@after N" inserts before element N+1, "@next" is one past the
    end, "@last" the last element (element 0 of an empty list) *)
Theorem form_index l :
  (forall n, (n < two32)%N -> resolve_index l (key_text (FIdx n)) = N.to_nat n /\ will_insert (key_text (FIdx n)) = false) /\
  (forall n, (n < two32)%N -> resolve_index l (key_text (FBefore n)) = N.to_nat n /\ will_insert (key_text (FBefore n)) = true) /\
  (forall n, (n + 1 < two32)%N -> resolve_index l (key_text (FAfter n)) = S (N.to_nat n) /\ will_insert (key_text (FAfter n)) = true) /\
  ((N.of_nat (length l) < two32)%N -> resolve_index l (key_text FNext) = length l /\ will_insert (key_text FNext) = false) /\
  ((N.of_nat (length l) < two32)%N -> resolve_index l (key_text FLast) = length l - 1 /\ will_insert (key_text FLast) = false).
Proof.
  assert (forall n, (n < two32)%N -> (n < two64)%N) as W by (unfold two32, two64; lia).
  repeat split.
  - unfold resolve_index. rewrite parse_ref_idx by auto. unfold index_of, u32. cbn. rewrite N.mod_small by exact H. reflexivity.
  - unfold will_insert. rewrite parse_ref_idx by auto. reflexivity.
  - unfold resolve_index. rewrite parse_ref_before by auto. unfold index_of, u32. cbn. rewrite N.mod_small by exact H. reflexivity.
  - unfold will_insert. rewrite parse_ref_before by auto. reflexivity.
  - unfold resolve_index. rewrite parse_ref_after by (apply W; lia). unfold index_of, u32. cbn [rs_base rs_last rs_num].
    rewrite N.mod_small by lia. lia.
  - unfold will_insert. rewrite parse_ref_after by (apply W; lia). reflexivity.
  - unfold resolve_index. cbn [key_text]. rewrite parse_ref_next. unfold index_of, u32. cbn [rs_base rs_last rs_num].
    rewrite N.add_0_r, N.mod_mod by (unfold two32; lia). rewrite N.mod_small by exact H. lia.
  - unfold resolve_index. cbn [key_text]. rewrite parse_ref_last. apply index_of_last; [split; reflexivity|exact H].
Qed.

(** ** list-reference shape of the forms *)
Lemma is_list_ref_form f : match f with FKey _ => True | _ => is_list_ref (key_text f) = true end.
Proof.
  destruct f; try exact I; try reflexivity; cbn [key_text].
  - destruct (dec_head n) as (d & ds & -> & D). cbn. unfold is_alnum. now rewrite D.
Qed.

Lemma is_list_ref_readback f : match f with FKey _ => True | _ => is_list_ref (key_readback f) = true end.
Proof. destruct f; try exact I; try reflexivity; apply (is_list_ref_form (FIdx n)). Qed.

(** ** reading back through each form *)
(** the lists met along the written path are short enough for the 32-bit index arithmetic *)
Fixpoint sizes_ok (t : item) (fs : list keyform) : Prop :=
  match fs with
  | [] => True
  | f :: r =>
      match f with
      | FKey k => sizes_ok (map_get (match t with Map m => m | _ => [] end) k) r
      | _ =>
          let l := match t with Lst l => l | _ => [] end in
          (N.of_nat (length l) + 1 < two32)%N /\
          match f with
          | FIdx n | FBefore n | FAfter n => (n < two64)%N
          | _ => True
          end /\
          sizes_ok (get_at l (resolve_index l (key_text f))) r
      end
  end.

Lemma readable_forms fs : forall t,
  Forall wf_form fs -> sizes_ok t fs -> readable t (map key_text fs) (map key_readback fs).
Proof.
  induction fs as [|f fs IH]; intros t WF SZ; [exact I|].
  inversion WF as [|? ? W WF']; subst. cbn [map readable].
  destruct f as [k|n|n|n| |]; cbn [sizes_ok] in SZ.
  - destruct W as (NE & _ & LR). cbn [key_text key_readback]. rewrite LR. repeat split; auto.
  - destruct SZ as (S1 & S2 & S3). pose proof (is_list_ref_form (FIdx n)) as LR. cbn beta iota in LR.
    pose proof (parse_ref_idx n S2) as PR. cbn [key_text key_readback] in *.
    split; [destruct (dec_head n) as (d & ds & -> & _); discriminate|]. rewrite LR. split; [|now apply IH].
    apply reads_back_fixed; [exact LR|]. rewrite PR. split; [reflexivity|discriminate].
  - destruct SZ as (S1 & S2 & S3). pose proof (is_list_ref_form (FBefore n)) as LR. cbn beta iota in LR.
    pose proof (parse_ref_before n S2) as PR. cbn [key_text key_readback] in *.
    split; [destruct (dec_head n) as (d & ds & -> & _); discriminate|]. rewrite LR. split; [|now apply IH].
    apply reads_back_fixed; [exact LR|]. rewrite PR. split; [reflexivity|discriminate].
  - destruct SZ as (S1 & S2 & S3). pose proof (is_list_ref_form (FAfter n)) as LR. cbn beta iota in LR.
    pose proof (parse_ref_after n S2) as PR. cbn [key_text key_readback] in *.
    split; [destruct (dec_head n) as (d & ds & -> & _); discriminate|]. rewrite LR. split; [|now apply IH].
    apply reads_back_fixed; [exact LR|]. rewrite PR. split; [reflexivity|discriminate].
  - destruct SZ as (S1 & _ & S3). split; [discriminate|]. change (is_list_ref (key_text FNext)) with true. cbv iota.
    split; [|now apply IH]. apply reads_back_next; [split; reflexivity|reflexivity|split; reflexivity|].
    cbn [key_text]. rewrite parse_ref_next. cbn [rs_num]. lia.
  - destruct SZ as (S1 & _ & S3). split; [discriminate|]. change (is_list_ref (key_text FLast)) with true. cbv iota.
    split; [|now apply IH]. apply reads_back_last; [reflexivity|split; reflexivity|lia].
Qed.

(** * path strings *)
Fixpoint join (keys : list bytes) : bytes :=
  match keys with
  | [] => []
  | [k] => k
  | k :: r => k ++ slash :: join r
  end.

Lemma split_on_slash_app k : no_slash k -> forall cur rest,
  split_on_slash cur (k ++ rest) = split_on_slash (rev k ++ cur) rest.
Proof.
  induction 1 as [|c k C F IH]; intros cur rest; [reflexivity|].
  cbn [app split_on_slash rev]. rewrite C, IH. now rewrite <- app_assoc.
Qed.

Lemma split_join keys : keys <> [] -> Forall no_slash keys -> split_on_slash [] (join keys) = keys.
Proof.
  induction keys as [|k r IH]; intros NE F; [congruence|]. inversion F as [|? ? K F']; subst.
  destruct r as [|k2 r].
  - cbn [join]. rewrite <- (app_nil_r k) at 1. rewrite split_on_slash_app by exact K.
    cbn [split_on_slash]. now rewrite app_nil_r, rev_involutive.
  - change (join (k :: k2 :: r)) with (k ++ slash :: join (k2 :: r)).
    rewrite split_on_slash_app by exact K. cbn [split_on_slash]. rewrite byte_eqb_refl.
    rewrite app_nil_r, rev_involutive. f_equal. apply IH; [discriminate|exact F'].
Qed.

Lemma path_keys_join keys :
  match keys with k :: _ => k <> [] | [] => False end -> Forall no_slash keys -> path_keys (join keys) = keys.
Proof.
  intros NE F. destruct keys as [|k r]; [contradiction|]. inversion F as [|? ? K F']; subst.
  destruct k as [|c k]; [congruence|]. inversion K as [|? ? C _]; subst.
  assert (exists rest, join ((c :: k) :: r) = c :: rest) as [rest E] by (destruct r; cbn; eauto).
  unfold path_keys, split_path. rewrite E.
  assert (is_root_path (c :: rest) = false) as ->.
  { destruct rest; [cbn; exact C|reflexivity]. }
  cbn [drop_slashes]. rewrite C. rewrite <- E. apply split_join; [discriminate|exact F].
Qed.

Lemma no_slash_text f : wf_form f -> no_slash (key_text f) /\ no_slash (key_readback f).
Proof.
  assert (forall n, no_slash (dec n)) as D.
  { intros n. destruct (dec_spec n) as (F & _ & _). eapply Forall_impl; [|exact F]. cbn. intros d Hd.
    unfold slash. rewrite Bool.eqb_false_iff || idtac. unfold is_digit in Hd.
    apply andb_true_iff in Hd. destruct Hd as [A B]. apply N.leb_le in A. apply N.leb_le in B.
    unfold byte_eqb. apply N.eqb_neq. change (Byte.to_N d) with (bN d). cbn. lia. }
  destruct f; cbn [wf_form key_text key_readback]; intros W.
  - destruct W as (_ & W & _). split; exact W.
  - split; (constructor; [reflexivity|apply D]).
  - split; (apply Forall_app; split; [repeat constructor|apply D]).
  - split; (apply Forall_app; split; [repeat constructor|apply D]).
  - split; repeat constructor.
  - split; repeat constructor.
Qed.

Definition path_text (fs : list keyform) : bytes := join (map key_text fs).
Definition path_readback (fs : list keyform) : bytes := join (map key_readback fs).

Lemma first_nonempty fs g : Forall wf_form fs -> (g = key_text \/ g = key_readback) -> fs <> [] ->
  match map g fs with k :: _ => k <> [] | [] => False end.
Proof.
  intros WF G NE. destruct fs as [|f r]; [congruence|]. inversion WF as [|? ? W _]; subst. cbn [map].
  destruct G as [-> | ->]; destruct f; cbn; try discriminate; try (destruct W as [W _]; exact W);
    destruct (dec_head n) as (d & ds & -> & _); discriminate.
Qed.

(** ** the API-level theorems *)
(** After [config_set] succeeded at a path built from the key forms, [config_get]
    at the read-back path yields the item that was set. *)
Theorem config_get_after_set t fs v t' :
  fs <> [] -> Forall wf_form fs -> sizes_ok t fs ->
  config_set t (path_text fs) v = Some t' ->
  config_get t' (path_readback fs) = v.
Proof.
  intros NE WF SZ. unfold config_set, config_get, path_text, path_readback.
  assert (Forall no_slash (map key_text fs) /\ Forall no_slash (map key_readback fs)) as [N1 N2].
  { split; apply Forall_map; (eapply Forall_impl; [|exact WF]); intros f W; now apply no_slash_text. }
  rewrite !path_keys_join by (assumption || (apply first_nonempty; auto)).
  destruct (write_ok t (map key_text fs)); [|discriminate]. intros E. inversion E; subst.
  apply write_then_traverse. now apply readable_forms.
Qed.

Theorem get_after_set_string t fs s t' :
  fs <> [] -> Forall wf_form fs -> sizes_ok t fs ->
  cfg_set_string t (path_text fs) s = Some t' -> cfg_get_string t' (path_readback fs) = Some s.
Proof.
  intros NE WF SZ H. unfold cfg_get_string, value_at. now rewrite (config_get_after_set _ _ _ _ NE WF SZ H).
Qed.

Theorem get_after_set_int t fs z t' :
  fs <> [] -> Forall wf_form fs -> sizes_ok t fs -> (int_min <= z <= int_max)%Z ->
  cfg_set_int t (path_text fs) z = Some t' -> cfg_get_int t' (path_readback fs) = Some z.
Proof.
  intros NE WF SZ R H. unfold cfg_get_int, value_at. rewrite (config_get_after_set _ _ _ _ NE WF SZ H).
  now apply get_set_int.
Qed.

Theorem get_after_set_bool t fs b t' :
  fs <> [] -> Forall wf_form fs -> sizes_ok t fs ->
  cfg_set_bool t (path_text fs) b = Some t' -> cfg_get_bool t' (path_readback fs) = Some b.
Proof.
  intros NE WF SZ H. unfold cfg_get_bool, value_at. rewrite (config_get_after_set _ _ _ _ NE WF SZ H).
  apply get_set_bool.
Qed.

(** values of other types convert as documented or fail *)
Theorem get_other_type_after_set t fs t' :
  fs <> [] -> Forall wf_form fs -> sizes_ok t fs ->
  (forall z, cfg_set_int t (path_text fs) z = Some t' ->
     cfg_get_string t' (path_readback fs) = Some (set_int z) /\ cfg_get_bool t' (path_readback fs) = None) /\
  (forall b, cfg_set_bool t (path_text fs) b = Some t' ->
     cfg_get_string t' (path_readback fs) = Some (set_bool b) /\ cfg_get_int t' (path_readback fs) = None).
Proof.
  intros NE WF SZ. split.
  - intros z H. unfold cfg_get_string, cfg_get_bool, value_at. rewrite (config_get_after_set _ _ _ _ NE WF SZ H).
    split; [reflexivity|apply get_bool_of_int].
  - intros b H. unfold cfg_get_string, cfg_get_int, value_at. rewrite (config_get_after_set _ _ _ _ NE WF SZ H).
    split; [reflexivity|apply get_int_of_bool].
Qed.

(** * wrong kinds fail cleanly *)
(** a write whose path runs through a scalar, or through a list where a map key
    is used (and vice versa), is refused and nothing changes; typed getters on a
    node that is not a scalar report failure *)
Lemma write_ok_through_scalar keys : forall t pre s k ks,
  (forall x, In x pre -> x <> []) -> traverse t pre = Scalar s -> k <> [] -> keys = pre ++ k :: ks ->
  write_ok t keys = false.
Proof.
  intros t pre. revert t keys. induction pre as [|p pre IH]; intros t keys s k ks NE T K ->.
  - cbn in T. subst t. cbn [app write_ok]. replace (is_empty k) with false by (destruct k; [congruence|reflexivity]).
    destruct (is_list_ref k); reflexivity.
  - cbn [app write_ok]. assert (p <> []) as P by (apply NE; now left).
    replace (is_empty p) with false by (destruct p; [congruence|reflexivity]).
    cbn [traverse] in T. destruct (is_list_ref p).
    + destruct t; try discriminate T. apply (IH _ _ s k ks); [intros x I; apply NE; now right|exact T|exact K|reflexivity].
    + destruct t; try discriminate T. apply (IH _ _ s k ks); [intros x I; apply NE; now right|exact T|exact K|reflexivity].
Qed.

Theorem wrong_kind_fails_cleanly :
  (forall t pre s k ks v, (forall x, In x pre -> x <> []) -> traverse t pre = Scalar s -> k <> [] ->
     write_ok t (pre ++ k :: ks) = false /\
     (path_keys (join (pre ++ k :: ks)) = pre ++ k :: ks -> config_set t (join (pre ++ k :: ks)) v = None)) /\
  (forall l k ks, is_list_ref k = false -> k <> [] -> write_ok (Lst l) (k :: ks) = false) /\
  (forall m k ks, is_list_ref k = true -> write_ok (Map m) (k :: ks) = false) /\
  (forall t p, (forall s, config_get t p <> Scalar s) ->
     cfg_get_string t p = None /\ cfg_get_int t p = None /\ cfg_get_bool t p = None).
Proof.
  split; [|split; [|split]].
  - intros t pre s k ks v NE T K. split.
    + eapply write_ok_through_scalar; eauto.
    + intros E. unfold config_set. rewrite E. erewrite write_ok_through_scalar; eauto.
  - intros l k ks H K. cbn [write_ok]. replace (is_empty k) with false by (destruct k; [congruence|reflexivity]). now rewrite H.
  - intros m k ks H. cbn [write_ok]. replace (is_empty k) with false by (destruct k; [discriminate H|reflexivity]). now rewrite H.
  - intros t p H. unfold cfg_get_string, cfg_get_int, cfg_get_bool, value_at.
    destruct (config_get t p) eqn:E; try (repeat split; reflexivity). exfalso. eapply H; eauto.
Qed.

(** * non-vacuity: a concrete history through every key form *)
Definition ex_path : list keyform :=
  [FKey ["m"]%byte; FIdx 2; FBefore 0; FKey ["k"]%byte].

Example ex_forms_ok : Forall wf_form ex_path /\ sizes_ok Null ex_path.
Proof. split; [repeat constructor; try discriminate; reflexivity|]. cbn. repeat split; reflexivity || (unfold two32; lia) || (unfold two64; lia). Qed.

Example ex_set_then_get :
  exists t', cfg_set_int Null (path_text ex_path) (-7)%Z = Some t' /\
             cfg_get_int t' (path_readback ex_path) = Some (-7)%Z /\
             t' = Map [(["m"]%byte, Lst [Null; Null; Lst [Map [(["k"]%byte, Scalar ["-"; "7"]%byte)]]])].
Proof. eexists. split; [vm_compute; reflexivity|]. split; vm_compute; reflexivity. Qed.

Example ex_next_then_last :
  exists t', cfg_set_string (Lst [Scalar ["a"]%byte]) (path_text [FNext]) ["b"]%byte = Some t' /\
             cfg_get_string t' (path_readback [FNext]) = Some ["b"]%byte /\ cfg_get_string t' (path_text [FNext]) = None.
Proof. eexists. split; [vm_compute; reflexivity|]. split; vm_compute; reflexivity. Qed.
