(** C18 – proofs about key paths: reading back what a write stored, the frame
    property, and clean failure on nodes of the wrong kind. *)
From Coq Require Import List NArith Bool Arith Lia.
From Coq.Strings Require Import Byte.
From RimeV Require Import Base.Bytes Base.ListX Cfg.Tree Cfg.Path.
Import ListNotations.

(** * byte strings *)
Lemma byte_eqb_refl b : byte_eqb b b = true.
Proof. unfold byte_eqb. apply N.eqb_refl. Qed.

Lemma byte_eqb_eq a b : byte_eqb a b = true <-> a = b.
Proof.
  unfold byte_eqb. rewrite N.eqb_eq. split; [|now intros ->].
  intros H. assert (Some a = Some b) as E.
  { rewrite <- (Byte.of_to_N a), <- (Byte.of_to_N b). now rewrite H. }
  now inversion E.
Qed.

Lemma bytes_eqb_refl a : bytes_eqb a a = true.
Proof. induction a as [|x a IH]; cbn; [reflexivity|]. now rewrite byte_eqb_refl. Qed.

Lemma bytes_eqb_eq a b : bytes_eqb a b = true <-> a = b.
Proof.
  revert b. induction a as [|x a IH]; intros [|y b]; cbn; try (split; congruence).
  rewrite andb_true_iff, byte_eqb_eq, IH. split; [intros [-> ->]; reflexivity | intros E; inversion E; auto].
Qed.

Lemma bytes_eqb_neq a b : a <> b -> bytes_eqb a b = false.
Proof. intros H. destruct (bytes_eqb a b) eqn:E; [|reflexivity]. apply bytes_eqb_eq in E. contradiction. Qed.

Lemma bytes_cmp_eq a b : bytes_cmp a b = Eq <-> a = b.
Proof.
  revert b. induction a as [|x a IH]; intros [|y b]; cbn; try (split; congruence).
  destruct (N.compare (Byte.to_N x) (Byte.to_N y)) eqn:E.
  - apply N.compare_eq_iff in E. assert (x = y) as -> by (apply byte_eqb_eq; unfold byte_eqb; now apply N.eqb_eq).
    rewrite IH. split; [now intros ->|intros H; now inversion H].
  - split; [discriminate|]. intros H; inversion H; subst. rewrite N.compare_refl in E. discriminate.
  - split; [discriminate|]. intros H; inversion H; subst. rewrite N.compare_refl in E. discriminate.
Qed.

Lemma bytes_cmp_refl a : bytes_cmp a a = Eq.
Proof. now apply bytes_cmp_eq. Qed.

(** * ConfigMap *)
Lemma map_get_set_same m k v : map_get (map_set m k v) k = v.
Proof.
  induction m as [|[k' v'] m IH]; cbn.
  - now rewrite bytes_eqb_refl.
  - destruct (bytes_cmp k k') eqn:E; cbn.
    + now rewrite bytes_eqb_refl.
    + now rewrite bytes_eqb_refl.
    + assert (k <> k') as N by (intros ->; rewrite bytes_cmp_refl in E; discriminate).
      now rewrite (bytes_eqb_neq _ _ N).
Qed.

Lemma map_get_set_other m k v k2 : k2 <> k -> map_get (map_set m k v) k2 = map_get m k2.
Proof.
  intros N. induction m as [|[k' v'] m IH]; cbn.
  - now rewrite (bytes_eqb_neq _ _ N).
  - destruct (bytes_cmp k k') eqn:E; cbn.
    + apply bytes_cmp_eq in E. subst k'. now rewrite (bytes_eqb_neq _ _ N).
    + now rewrite (bytes_eqb_neq _ _ N).
    + destruct (bytes_eqb k2 k'); [reflexivity|apply IH].
Qed.

(** * ConfigList *)
Lemma get_at_nth l i : get_at l i = nth i l Null.
Proof. reflexivity. Qed.

Lemma length_resize l n : length (resize l n) = n.
Proof. unfold resize. rewrite app_length, firstn_length, repeat_length. lia. Qed.

Lemma nth_resize l n j : nth j (resize l n) Null = if Nat.ltb j n then nth j l Null else Null.
Proof.
  unfold resize. destruct (Nat.ltb j n) eqn:E.
  - apply Nat.ltb_lt in E. destruct (Nat.lt_ge_cases j (length l)) as [H|H].
    + rewrite app_nth1 by (rewrite firstn_length; lia). apply nth_firstn_lt. lia.
    + rewrite app_nth2 by (rewrite firstn_length; lia).
      rewrite (nth_overflow l) by lia.
      destruct (nth_in_or_default (j - length (firstn n l)) (repeat Null (n - length l)) Null) as [I|I]; [|exact I].
      now apply repeat_spec in I.
  - apply Nat.ltb_ge in E. apply nth_overflow. rewrite app_length, firstn_length, repeat_length. lia.
Qed.

Lemma nth_update (l : list item) i v j :
  i < length l -> nth j (firstn i l ++ v :: skipn (S i) l) Null = if Nat.eqb j i then v else nth j l Null.
Proof.
  intros H. destruct (Nat.eqb j i) eqn:E.
  - apply Nat.eqb_eq in E. subst j. rewrite app_nth2 by (rewrite firstn_length; lia).
    rewrite firstn_length. replace (i - Nat.min i (length l)) with 0 by lia. reflexivity.
  - apply Nat.eqb_neq in E. destruct (Nat.lt_ge_cases j i) as [L|L].
    + rewrite app_nth1 by (rewrite firstn_length; lia). apply nth_firstn_lt. lia.
    + rewrite app_nth2 by (rewrite firstn_length; lia). rewrite firstn_length.
      replace (j - Nat.min i (length l)) with (S (j - S i)) by lia. cbn [nth].
      rewrite nth_skipn. f_equal. lia.
Qed.

Lemma get_set_at l i v j : get_at (set_at l i v) j = if Nat.eqb j i then v else get_at l j.
Proof.
  unfold get_at, set_at. destruct (Nat.leb (length l) i) eqn:E.
  - apply Nat.leb_le in E. rewrite nth_update by (rewrite length_resize; lia).
    destruct (Nat.eqb j i) eqn:J; [reflexivity|]. rewrite nth_resize.
    destruct (Nat.ltb j (S i)) eqn:Q; [reflexivity|].
    apply Nat.ltb_ge in Q. now rewrite nth_overflow by lia.
  - apply Nat.leb_gt in E. now apply nth_update.
Qed.

Lemma get_set_at_same l i v : get_at (set_at l i v) i = v.
Proof. rewrite get_set_at. now rewrite Nat.eqb_refl. Qed.

Lemma nth_insert (l : list item) i v j :
  i <= length l ->
  nth j (firstn i l ++ v :: skipn i l) Null = if Nat.ltb j i then nth j l Null else if Nat.eqb j i then v else nth (j - 1) l Null.
Proof.
  intros H. destruct (Nat.ltb j i) eqn:E.
  - apply Nat.ltb_lt in E. rewrite app_nth1 by (rewrite firstn_length; lia). apply nth_firstn_lt. lia.
  - apply Nat.ltb_ge in E. rewrite app_nth2 by (rewrite firstn_length; lia). rewrite firstn_length.
    replace (Nat.min i (length l)) with i by lia.
    destruct (Nat.eqb j i) eqn:J.
    + apply Nat.eqb_eq in J. subst. now replace (i - i) with 0 by lia.
    + apply Nat.eqb_neq in J. replace (j - i) with (S (j - S i)) by lia. cbn [nth].
      rewrite nth_skipn. f_equal. lia.
Qed.

Lemma get_insert_at l i v j :
  get_at (insert_at l i v) j = if Nat.ltb j i then get_at l j else if Nat.eqb j i then v else get_at l (j - 1).
Proof.
  unfold get_at, insert_at. destruct (Nat.ltb (length l) i) eqn:E.
  - apply Nat.ltb_lt in E. rewrite nth_insert by (rewrite length_resize; lia).
    destruct (Nat.ltb j i) eqn:J.
    + rewrite nth_resize, J. reflexivity.
    + destruct (Nat.eqb j i) eqn:Q; [reflexivity|]. rewrite nth_resize.
      apply Nat.ltb_ge in J. apply Nat.eqb_neq in Q.
      destruct (Nat.ltb (j - 1) i) eqn:R; [reflexivity|].
      apply Nat.ltb_ge in R. now rewrite nth_overflow by lia.
  - apply Nat.ltb_ge in E. now apply nth_insert.
Qed.

(** the list a write leaves behind at a list step *)
Definition written_list (l : list item) (i : nat) (ins : bool) (child : item) : list item :=
  set_at (if ins then insert_at l i Null else l) i child.

Lemma get_written_same l i ins child : get_at (written_list l i ins child) i = child.
Proof. apply get_set_at_same. Qed.

(** where an element of the old list is found in the new one *)
Definition shift (i : nat) (ins : bool) (j : nat) : nat := if (ins && negb (Nat.ltb j i))%bool then S j else j.

Lemma get_written_other l i ins child j :
  (ins = false -> j <> i) ->
  get_at (written_list l i ins child) (shift i ins j) = get_at l j.
Proof.
  intros H. unfold written_list, shift. rewrite get_set_at. destruct ins; cbn [andb].
  - destruct (Nat.ltb j i) eqn:E; cbn [negb].
    + apply Nat.ltb_lt in E. replace (Nat.eqb j i) with false by (symmetry; apply Nat.eqb_neq; lia).
      rewrite get_insert_at. now replace (Nat.ltb j i) with true by (symmetry; apply Nat.ltb_lt; lia).
    + apply Nat.ltb_ge in E. replace (Nat.eqb (S j) i) with false by (symmetry; apply Nat.eqb_neq; lia).
      rewrite get_insert_at.
      replace (Nat.ltb (S j) i) with false by (symmetry; apply Nat.ltb_ge; lia).
      replace (Nat.eqb (S j) i) with false by (symmetry; apply Nat.eqb_neq; lia).
      f_equal. lia.
  - replace (Nat.eqb j i) with false by (symmetry; apply Nat.eqb_neq; auto). reflexivity.
Qed.

(** * reads *)
(** the meaning of a textual path on a tree *)
Fixpoint resolve_r (t : item) (keys : list bytes) : list step :=
  match keys with
  | [] => []
  | k :: ks =>
      if is_list_ref k then
        match t with
        | Lst l => KIdx (resolve_index l k) :: resolve_r (get_at l (resolve_index l k)) ks
        | _ => [KIdx 0]
        end
      else
        match t with
        | Map m => KMap k :: resolve_r (map_get m k) ks
        | _ => [KMap k]
        end
  end.

Lemma traverse_resolved t keys : traverse t keys = traverse_r t (resolve_r t keys).
Proof.
  revert t. induction keys as [|k ks IH]; intros t; cbn; [reflexivity|].
  destruct (is_list_ref k); destruct t; cbn; auto.
Qed.

Lemma traverse_r_null_any ps : traverse_r Null ps = Null.
Proof. destruct ps as [|[k|i] r]; reflexivity. Qed.

(** * get after set, on resolved paths: unconditional *)
Theorem write_then_read_resolved t keys v :
  traverse_r (write_at t keys v) (map step_of (resolve_w t keys)) = v.
Proof.
  revert t. induction keys as [|k ks IH]; intros t; cbn [write_at resolve_w]; [reflexivity|].
  destruct (is_empty k); [apply IH|].
  destruct (is_list_ref k); cbn [map step_of traverse_r].
  - fold (written_list (match t with Lst l => l | _ => [] end) (resolve_index (match t with Lst l => l | _ => [] end) k)
           (will_insert k) (write_at (get_at (match t with Lst l => l | _ => [] end)
                                              (resolve_index (match t with Lst l => l | _ => [] end) k)) ks v)).
    rewrite get_written_same. apply IH.
  - rewrite map_get_set_same. apply IH.
Qed.

(** * get after set, on textual paths *)
(** [k'] names after the write the element that [k] named while writing *)
Definition reads_back (l : list item) (k k' : bytes) : Prop :=
  is_list_ref k' = true /\
  forall child, resolve_index (written_list l (resolve_index l k) (will_insert k) child) k' = resolve_index l k.

(** along the write path every list reference has a read-back key, map keys read back as themselves *)
Fixpoint readable (t : item) (keys keys' : list bytes) : Prop :=
  match keys, keys' with
  | [], [] => True
  | k :: ks, k' :: ks' =>
      k <> [] /\
      if is_list_ref k then
        let l := match t with Lst l => l | _ => [] end in
        reads_back l k k' /\ readable (get_at l (resolve_index l k)) ks ks'
      else
        k' = k /\ readable (map_get (match t with Map m => m | _ => [] end) k) ks ks'
  | _, _ => False
  end.

Theorem write_then_traverse t keys keys' v :
  readable t keys keys' -> traverse (write_at t keys v) keys' = v.
Proof.
  revert t keys'. induction keys as [|k ks IH]; intros t [|k' ks']; cbn [readable]; try tauto; try (intros _; reflexivity).
  intros [NE H]. cbn [write_at]. replace (is_empty k) with false by (destruct k; [congruence|reflexivity]).
  destruct (is_list_ref k) eqn:LR.
  - destruct H as [[LR' RB] H]. cbn [traverse]. rewrite LR'.
    set (l := match t with Lst l => l | _ => [] end) in *.
    fold (written_list l (resolve_index l k) (will_insert k) (write_at (get_at l (resolve_index l k)) ks v)).
    rewrite RB, get_written_same. now apply IH.
  - destruct H as [-> H]. cbn [traverse]. rewrite LR. rewrite map_get_set_same. now apply IH.
Qed.

(** ** the read-back key for each form of list reference *)
Lemma length_set_at l i v : length (set_at l i v) = Nat.max (length l) (S i).
Proof.
  unfold set_at. destruct (Nat.leb (length l) i) eqn:E.
  - apply Nat.leb_le in E. rewrite app_length, firstn_length, length_resize. cbn [length]. rewrite skipn_length, length_resize. lia.
  - apply Nat.leb_gt in E. rewrite app_length, firstn_length. cbn [length]. rewrite skipn_length. lia.
Qed.

(** forms whose index does not depend on the list: @N, @before N, @after N *)
Definition fixed_form (rs : refspec) : Prop := rs_last rs = false /\ rs_base rs <> BNext.

Lemma index_of_fixed rs s1 s2 : fixed_form rs -> index_of rs s1 = index_of rs s2.
Proof. intros [L B]. unfold index_of. rewrite L. destruct (rs_base rs); congruence. Qed.

Lemma reads_back_fixed l k :
  is_list_ref k = true -> fixed_form (parse_ref k) -> reads_back l k k.
Proof.
  intros LR F. split; [exact LR|]. intros child. unfold resolve_index. f_equal. now apply index_of_fixed.
Qed.

(** @last *)
Definition last_form (rs : refspec) : Prop := rs_last rs = true /\ rs_base rs = BPlain.

Lemma two32_pos : (0 < two32)%N. Proof. reflexivity. Qed.

Lemma index_of_last rs n :
  last_form rs -> (N.of_nat n < two32)%N -> N.to_nat (index_of rs (N.of_nat n)) = n - 1.
Proof.
  intros [L B] H. unfold index_of, u32. rewrite L, B. rewrite N.add_0_l, N.mod_small by exact H.
  destruct (N.eqb (N.of_nat n) 0) eqn:E.
  - apply N.eqb_eq in E. lia.
  - apply N.eqb_neq in E. lia.
Qed.

Lemma reads_back_last l k :
  is_list_ref k = true -> last_form (parse_ref k) -> (N.of_nat (length l) < two32)%N -> reads_back l k k.
Proof.
  intros LR F H. split; [exact LR|]. intros child. unfold resolve_index.
  assert (will_insert k = false) as W by (unfold will_insert, inserts; destruct F as [_ ->]; reflexivity).
  unfold written_list. rewrite W. rewrite (index_of_last _ _ F H).
  rewrite index_of_last; [|exact F|].
  - rewrite length_set_at. lia.
  - rewrite length_set_at. unfold two32 in *. lia.
Qed.

(** @next (optionally "@next N"): read back as @last *)
Definition next_form (rs : refspec) : Prop := rs_last rs = false /\ rs_base rs = BNext.

Lemma reads_back_next l k k' :
  next_form (parse_ref k) -> is_list_ref k' = true -> last_form (parse_ref k') ->
  (N.of_nat (length l) + rs_num (parse_ref k) + 1 < two32)%N -> reads_back l k k'.
Proof.
  intros [L B] LR' F' H. split; [exact LR'|]. intros child.
  assert (will_insert k = false) as W by (unfold will_insert, inserts; rewrite B; reflexivity).
  assert (resolve_index l k = length l + N.to_nat (rs_num (parse_ref k))) as I.
  { unfold resolve_index, index_of, u32. rewrite L, B.
    rewrite (N.mod_small (N.of_nat (length l))) by (unfold two32 in *; lia).
    rewrite N.mod_small by (unfold two32 in *; lia). lia. }
  unfold written_list. rewrite W. unfold resolve_index at 1.
  rewrite index_of_last; [|exact F'|].
  - rewrite length_set_at. lia.
  - rewrite length_set_at. unfold two32 in *. lia.
Qed.

(** * frame: what a write leaves alone *)
(** [unrelated ws qs = Some qs'] when the resolved read path [qs] leaves the
    written path [ws] at some step; [qs'] is where the same node is found
    afterwards (list elements at or behind an insertion point move up by one). *)
Fixpoint unrelated (ws : list wstep) (qs : list step) : option (list step) :=
  match ws, qs with
  | [], _ => None
  | _ :: _, [] => None
  | WMap k :: ws', KMap k' :: qs' =>
      if bytes_eqb k' k then option_map (cons (KMap k')) (unrelated ws' qs') else Some qs
  | WIdx i ins :: ws', KIdx j :: qs' =>
      if (negb ins && Nat.eqb j i)%bool then option_map (cons (KIdx j)) (unrelated ws' qs')
      else Some (KIdx (shift i ins j) :: qs')
  | WMap _ :: _, KIdx _ :: _ => Some qs
  | WIdx _ _ :: _, KMap _ :: _ => Some qs
  end.

Theorem write_frame keys : forall t v qs qs',
  (forall k, In k keys -> k <> []) ->
  write_ok t keys = true ->
  unrelated (resolve_w t keys) qs = Some qs' ->
  traverse_r (write_at t keys v) qs' = traverse_r t qs.
Proof.
  induction keys as [|k ks IH]; intros t v qs qs' NE OK U; cbn [resolve_w] in U; [discriminate|].
  assert (k <> []) as NEk by (apply NE; now left).
  assert (forall k0, In k0 ks -> k0 <> []) as NE' by (intros k0 I; apply NE; now right).
  cbn [write_at write_ok] in *. replace (is_empty k) with false in * by (destruct k; [congruence|reflexivity]).
  destruct (is_list_ref k) eqn:LR.
  - set (l := match t with Lst l => l | _ => [] end) in *.
    fold (written_list l (resolve_index l k) (will_insert k) (write_at (get_at l (resolve_index l k)) ks v)).
    assert (write_ok (get_at l (resolve_index l k)) ks = true) as OK'.
    { destruct t; try discriminate; subst l; cbn [get_at nth]; [|exact OK]. destruct (resolve_index [] k); exact OK. }
    assert (forall j q, traverse_r t (KIdx j :: q) = traverse_r (get_at l j) q) as R1.
    { intros j q. destruct t; try discriminate; subst l; cbn [traverse_r get_at]; [|reflexivity].
      destruct j; cbn [nth]; now rewrite traverse_r_null_any. }
    assert (forall k' q, traverse_r t (KMap k' :: q) = Null) as R2.
    { intros k' q. destruct t; try discriminate; reflexivity. }
    clearbody l.
    cbn [unrelated] in U. destruct qs as [|[k'|j] qs0]; [discriminate| |].
    + inversion U; subst qs'. rewrite R2. reflexivity.
    + rewrite R1. destruct (negb (will_insert k) && Nat.eqb j (resolve_index l k))%bool eqn:C.
      * apply andb_true_iff in C. destruct C as [C1 C2]. apply Nat.eqb_eq in C2. subst j.
        destruct (unrelated (resolve_w (get_at l (resolve_index l k)) ks) qs0) as [q0|] eqn:U0; [|discriminate].
        inversion U; subst qs'. cbn [traverse_r]. rewrite get_written_same.
        apply (IH _ v _ _ NE' OK' U0).
      * inversion U; subst qs'. cbn [traverse_r]. rewrite get_written_other; [reflexivity|].
        intros W E. rewrite W, E, Nat.eqb_refl in C. discriminate.
  - set (m := match t with Map m => m | _ => [] end) in *.
    assert (write_ok (map_get m k) ks = true) as OK'.
    { destruct t; try discriminate; subst m; cbn [map_get]; exact OK. }
    assert (forall k' q, traverse_r t (KMap k' :: q) = traverse_r (map_get m k') q) as R1.
    { intros k' q. destruct t; try discriminate; subst m; cbn [traverse_r map_get]; [|reflexivity].
      now rewrite traverse_r_null_any. }
    assert (forall j q, traverse_r t (KIdx j :: q) = Null) as R2.
    { intros j q. destruct t; try discriminate; reflexivity. }
    clearbody m.
    cbn [unrelated] in U. destruct qs as [|[k'|j] qs0]; [discriminate| |].
    + rewrite R1. destruct (bytes_eqb k' k) eqn:E.
      * apply bytes_eqb_eq in E. subst k'.
        destruct (unrelated (resolve_w (map_get m k) ks) qs0) as [q0|] eqn:U0; [|discriminate].
        inversion U; subst qs'. cbn [traverse_r]. rewrite map_get_set_same.
        apply (IH _ v _ _ NE' OK' U0).
      * inversion U; subst qs'. cbn [traverse_r]. rewrite map_get_set_other; [reflexivity|].
        intros ->. now rewrite bytes_eqb_refl in E.
    + inversion U; subst qs'. rewrite R2. reflexivity.
Qed.

(** a write through one map key leaves every other key of that map alone, textually *)
Lemma traverse_null keys : traverse Null keys = Null.
Proof. destruct keys as [|k ks]; [reflexivity|]. cbn. destruct (is_list_ref k); reflexivity. Qed.

Theorem write_frame_other_key t k ks v k' qs :
  k <> [] -> is_list_ref k = false -> is_list_ref k' = false -> k' <> k ->
  write_ok t (k :: ks) = true ->
  traverse (write_at t (k :: ks) v) (k' :: qs) = traverse t (k' :: qs).
Proof.
  intros NE LR LR' D OK. cbn [write_at write_ok traverse] in *.
  replace (is_empty k) with false in * by (destruct k; [congruence|reflexivity]).
  rewrite LR in *. rewrite LR'. rewrite map_get_set_other by exact D.
  destruct t; try discriminate OK; cbn [map_get]; [now rewrite traverse_null|reflexivity].
Qed.
