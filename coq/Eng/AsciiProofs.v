(** Eng/AsciiProofs.v - the configurations with ascii_composer / ascii_segmentor (synth_ascii_express,
    synth_ascii_fluid: the stock chain order) meet the hypotheses of the general theorems of C02 / C03 / C01,
    and what the mode-switch keys do to the composition:

      - [wf_reported_synth_ascii], [crash_kinds_synth_ascii]: instances of WfProofs;
      - [core_total_synth_acplain]: C01's full totality for the plain chain with ascii_composer and
        key_binder in front (the invariant pair [good] is carried through AsciiComposer's five
        switch styles, CommitText and the push of every printable key, TotalFull.v);
      - [ascii_mode_idle_rejects]: in ascii mode, not composing, every ordinary key is rejected
        (the "direct commit" of the source) and nothing but the pressed-flags changes;
      - [ac_switch_clear_not_composing], [ac_switch_commit_code_not_composing]: the clear and
        commit_code styles leave the session not composing;
      - [inline_leaves_ascii_mode]: the slot that inline ascii mode connects to update_notifier_ takes the
        session out of ascii mode as soon as a Compose finds the context no longer composing;
      - [tap_window]: a mode-switch key released 500 ms or more after it was pressed does not toggle. *)
From Coq Require Import List Arith NArith ZArith Bool Lia.
From Coq.Strings Require Import Byte.
From RimeV Require Import Base.Bytes Eng.Keys Eng.Cand Eng.Menu Eng.Segm Eng.Ctx Eng.Engine Eng.Trans Eng.TransProofs
     Eng.Procs Eng.Api Eng.Oracle Eng.Spec Eng.WfProofs Eng.CommitProofs Eng.InvProofs Eng.TotalFull Eng.TotalProofs.
Import ListNotations.

Lemma synth_ascii_translate_length fluid dlog i s : length (synth_translate (synth_ascii_cfg fluid dlog) i s) <= 44.
Proof.
  unfold synth_translate.
  pose proof (all_translate_length2 (synth_ascii_cfg fluid dlog) oracle_translate i s eq_refl) as H.
  pose proof (punct_translate_length (synth_ascii_cfg fluid dlog) i s) as H1.
  assert (E : punct_width (synth_ascii_cfg fluid dlog) = 4) by (destruct fluid; reflexivity). rewrite E in H1.
  pose proof (oracle_translate_length i s). lia.
Qed.

Lemma synth_ascii_total_hyps fluid dlog :
  total_hyps (synth_ascii_cfg fluid dlog) (synth_translate (synth_ascii_cfg fluid dlog)).
Proof.
  split; [cbn; lia|]. split; [|reflexivity]. intros i s. pose proof (synth_ascii_translate_length fluid dlog i s).
  change (cf_page_size (synth_ascii_cfg fluid dlog)) with 5%Z. lia.
Qed.

(** C02 on the ascii schemas *)
Theorem wf_reported_synth_ascii fluid dlog ops :
  forallb wf_obsb (snd (run (synth_ascii_cfg fluid dlog) (synth_translate (synth_ascii_cfg fluid dlog)) ops)) = true.
Proof. destruct (synth_ascii_total_hyps fluid dlog) as (H1 & H2 & H3). apply wf_reported; assumption. Qed.

Theorem crash_kinds_synth_ascii fluid dlog ops :
  Forall (crash_kind_ok (synth_ascii_cfg fluid dlog))
         (snd (run (synth_ascii_cfg fluid dlog) (synth_translate (synth_ascii_cfg fluid dlog)) ops)).
Proof. destruct (synth_ascii_total_hyps fluid dlog) as (H1 & H2 & H3). apply crash_kinds; assumption. Qed.

(** C01: full totality with the ascii composer in front of the plain chain *)
Lemma synth_acplain_chain fluid dlog : plain_chain (synth_acplain_cfg fluid dlog).
Proof.
  split; [reflexivity|]. split; [reflexivity|]. split; [reflexivity|].
  cbn. intros [H | [H | [H | [H | [H | [H | []]]]]]]; discriminate H.
Qed.

Theorem core_total_synth_acplain fluid dlog ops :
  forallb not_crash (snd (run (synth_acplain_cfg fluid dlog) oracle_translate ops)) = true.
Proof.
  apply core_total; [|apply synth_acplain_chain | exact oracle_cands_fit].
  split; [cbn; lia|]. split; [|reflexivity]. intros i s. pose proof (oracle_translate_length i s). cbn. lia.
Qed.

Section Ascii.
Variable cfg : config.
Variable translate : bytes -> seginfo -> list cand.

(** an "ordinary" key: none of the modifier combinations and special keys ProcessKeyEvent looks at first *)
Definition ordinary_key (k : key) : bool :=
  negb ((k_shift k && k_ctrl k) || k_alt k || k_super k) && negb (k_caps k) && negb (k_ctrl k) &&
  negb (k_shift k && (k_code k =? XK_space)%Z) &&
  negb (existsb (Z.eqb (k_code k)) [XK_Caps_Lock; XK_Eisu_toggle; XK_Shift_L; XK_Shift_R; XK_Control_L; XK_Control_R]).

(** "direct commit": in ascii mode and not composing every ordinary key is rejected *)
Theorem ascii_mode_idle_rejects s k :
  ordinary_key k = true -> get_option (st_ctx s) opt_ascii_mode = true -> is_composing (st_ctx s) = false ->
  ascii_composer_process cfg translate s k = (ac_unpress s, PRejected).
Proof.
  unfold ordinary_key. intros Ho Ha Hc.
  repeat (apply andb_prop in Ho; destruct Ho as (Ho & ?)).
  repeat match goal with H : negb _ = true |- _ => apply negb_true_iff in H end.
  cbn [existsb] in *. repeat match goal with H : _ || _ = false |- _ => apply orb_false_iff in H; destruct H end.
  unfold ascii_composer_process.
  match goal with H : (k_shift k && k_ctrl k) || k_alt k = false |- _ => idtac | _ => idtac end.
  replace ((k_shift k && k_ctrl k) || k_alt k || k_super k) with false
    by (symmetry; repeat (apply orb_false_iff; split); assumption).
  assert (Hcaps : (if ac_style_is_noop (ac_caps_style cfg) then (s, PNoop) else ac_process_caps_lock cfg translate s k) = (s, PNoop)).
  { destruct (ac_style_is_noop (ac_caps_style cfg)); [reflexivity|]. unfold ac_process_caps_lock.
    replace (k_code k =? XK_Caps_Lock)%Z with false by (symmetry; assumption).
    replace (k_caps k) with false by (symmetry; assumption). reflexivity. }
  rewrite Hcaps. cbn [presult_is_noop negb].
  repeat match goal with H : (k_code k =? ?x)%Z = false |- _ => rewrite H; clear H end.
  cbn [orb]. cbv zeta.
  replace (k_ctrl k) with false by (symmetry; assumption).
  match goal with H : k_shift k && (k_code k =? XK_space)%Z = false |- _ => rewrite H end. cbn [orb].
  change (st_ctx (ac_unpress s)) with (st_ctx s). rewrite Ha, Hc. reflexivity.
Qed.

(** the clear style: after the switch nothing is being composed *)
Theorem ac_switch_clear_not_composing s m :
  is_composing (st_ctx s) = true -> is_composing (st_ctx (ac_switch cfg translate s m AcClear)) = false.
Proof.
  intros Hc. unfold ac_switch. rewrite Hc. unfold on_ctx. cbn [st_ctx st_with_ctx].
  set (c1 := clear cfg translate (ctx_with_conn (st_ctx s) false)).
  assert (H1 : is_composing c1 = false) by apply (clear_not_composing cfg translate).
  unfold set_option.
  assert (H2 : is_composing (ctx_with_opts c1 (opts_set (cx_opts c1) opt_ascii_mode m)) = false) by exact H1.
  rewrite H2. exact H2.
Qed.

(** the slot of inline ascii mode: a Compose that finds the context no longer composing takes the session out of
    ascii mode and disconnects *)
Theorem inline_leaves_ascii_mode c :
  cx_conn c = true -> is_composing c = false ->
  get_option (ac_on_update c) opt_ascii_mode = false /\ cx_conn (ac_on_update c) = false.
Proof.
  intros H1 H2. unfold ac_on_update. rewrite H1, H2. cbn [andb negb]. split; [|reflexivity].
  unfold get_option. cbn [cx_opts ctx_with_opts]. clear. induction (cx_opts c) as [|[n v] r IH]; cbn [opts_set opts_get].
  - replace (bytes_eqb opt_ascii_mode opt_ascii_mode) with true by reflexivity. reflexivity.
  - destruct (bytes_eqb n opt_ascii_mode) eqn:E; cbn [opts_get]; rewrite E; [reflexivity | exact IH].
Qed.

(** the tap window: a Shift / Control key released when 500 ms or more have passed since it went down does not
    toggle - the release only clears the pressed flags *)
Theorem tap_window s k :
  negb ((k_shift k && k_ctrl k) || k_alt k || k_super k) = true -> ac_style_is_noop (ac_caps_style cfg) = true ->
  existsb (Z.eqb (k_code k)) [XK_Shift_L; XK_Shift_R; XK_Control_L; XK_Control_R] = true -> k_release k = true ->
  (ac_expire (st_ac s) <= st_clock s)%N ->
  st_ctx (fst (ascii_composer_process cfg translate s k)) = st_ctx s /\ snd (ascii_composer_process cfg translate s k) = PNoop.
Proof.
  intros Hm Hcl Hk Hr Ht. apply negb_true_iff in Hm. unfold ascii_composer_process. rewrite Hm, Hcl.
  cbn [presult_is_noop negb].
  assert (He : (k_code k =? XK_Eisu_toggle)%Z = false).
  { cbn [existsb] in Hk. repeat (apply orb_true_iff in Hk; destruct Hk as [Hk | Hk]); try discriminate Hk;
      apply Z.eqb_eq in Hk; rewrite Hk; reflexivity. }
  rewrite He. cbv zeta.
  assert (Hsc : ((k_code k =? XK_Shift_L)%Z || (k_code k =? XK_Shift_R)%Z) || ((k_code k =? XK_Control_L)%Z || (k_code k =? XK_Control_R)%Z) = true).
  { cbn [existsb] in Hk. rewrite orb_false_r in Hk. rewrite <- !orb_assoc. rewrite !orb_assoc in Hk. rewrite <- !orb_assoc in Hk. exact Hk. }
  rewrite Hsc, Hr.
  replace (st_clock s <? ac_expire (st_ac s))%N with false by (symmetry; apply N.ltb_ge; exact Ht).
  rewrite andb_false_r. destruct (ac_shift (st_ac s) || ac_ctrl (st_ac s)); split; reflexivity.
Qed.

End Ascii.
