(** Eng/Segm.v – Segment and Segmentation.  Model only.

    Ported from src/rime/segmentation.h/.cc.  The vector of segments is kept
    REVERSED: the head of [sg_segs] is [back()]; [segs_fwd] gives the C++
    iteration order.  Positions ([start], [end], [length]) are [nat] (bounded
    by the input length); [selected_index] is an [N] because the API lets a
    client write any [size_t] into it. *)
From Coq Require Import List Arith NArith Bool.
From RimeV Require Import Base.Bytes Eng.Keys Eng.Cand Eng.Menu.
Import ListNotations.

Inductive status := SVoid | SGuess | SSelected | SConfirmed.
Definition status_rank (s : status) : nat :=
  match s with SVoid => 0 | SGuess => 1 | SSelected => 2 | SConfirmed => 3 end.
(** [a >= b] on the enum *)
Definition status_geb (a b : status) : bool := status_rank b <=? status_rank a.

Record segment := mkSeg {
  s_status : status;
  s_start : nat;
  s_end : nat;
  s_length : nat;
  s_tags : tags;
  s_menu : option menu;     (* None = null an<Menu> *)
  s_sel : N;                (* selected_index *)
  s_prompt : bytes
}.

(** [Segment(start_pos, end_pos)] *)
Definition new_segment (st en : nat) : segment := mkSeg SVoid st en (en - st) [] None 0%N [].

Definition seg_with_status (g : segment) (x : status) : segment :=
  mkSeg x (s_start g) (s_end g) (s_length g) (s_tags g) (s_menu g) (s_sel g) (s_prompt g).
Definition seg_with_end (g : segment) (e : nat) : segment :=
  mkSeg (s_status g) (s_start g) e (s_length g) (s_tags g) (s_menu g) (s_sel g) (s_prompt g).
Definition seg_with_tags (g : segment) (t : tags) : segment :=
  mkSeg (s_status g) (s_start g) (s_end g) (s_length g) t (s_menu g) (s_sel g) (s_prompt g).
Definition seg_with_sel (g : segment) (i : N) : segment :=
  mkSeg (s_status g) (s_start g) (s_end g) (s_length g) (s_tags g) (s_menu g) i (s_prompt g).

(** [Segment::Clear()] *)
Definition seg_clear (g : segment) : segment :=
  mkSeg SVoid (s_start g) (s_end g) (s_length g) [] None 0%N [].

Definition seg_info (opts : list (bytes * bool)) (g : segment) : seginfo :=
  mkSegInfo (s_start g) (s_end g) (s_tags g) opts.

(** [Segment::GetCandidateAt] / [GetSelectedCandidate] *)
Definition cand_at (g : segment) (i : N) : option cand :=
  match s_menu g with None => None | Some m => menu_at m i end.
Definition selected_cand (g : segment) : option cand := cand_at g (s_sel g).

(** [Segment::Close()] *)
Definition seg_close (g : segment) : segment :=
  match selected_cand g with
  | Some c => if c_end c <? s_end g
              then seg_with_tags (seg_with_end g (c_end c)) (tag_insert TPartial (s_tags g))
              else g
  | None => g
  end.

(** [Segment::Reopen(caret_pos)] *)
Definition seg_reopen (g : segment) (caret : nat) : segment * bool :=
  if negb (status_geb (s_status g) SSelected) then (g, false)
  else
    let original_end := s_start g + s_length g in
    if original_end =? caret then
      let g1 := if s_end g <? original_end
                then seg_with_tags (seg_with_end g original_end) (tag_erase TPartial (s_tags g))
                else g in
      (seg_with_status g1 SGuess, true)
    else (seg_with_status g SVoid, true).

(** Segmentation: the input it was computed for + the segments (reversed). *)
Record segmentation := mkSegm { sg_input : bytes; sg_segs : list segment }.

Definition segs_fwd (sg : segmentation) : list segment := rev (sg_segs sg).
Definition sg_empty (sg : segmentation) : bool := match sg_segs sg with [] => true | _ => false end.
Definition sg_back (sg : segmentation) : option segment := hd_error (sg_segs sg).
Definition sg_with_segs (sg : segmentation) (l : list segment) : segmentation := mkSegm (sg_input sg) l.
Definition sg_set_back (sg : segmentation) (g : segment) : segmentation :=
  match sg_segs sg with [] => sg | _ :: r => sg_with_segs sg (g :: r) end.
Definition sg_pop_back (sg : segmentation) : segmentation := sg_with_segs sg (tl (sg_segs sg)).
Definition sg_push_back (sg : segmentation) (g : segment) : segmentation := sg_with_segs sg (g :: sg_segs sg).

Definition cur_start (sg : segmentation) : nat := match sg_segs sg with [] => 0 | g :: _ => s_start g end.
Definition cur_end (sg : segmentation) : nat := match sg_segs sg with [] => 0 | g :: _ => s_end g end.
Definition cur_len (sg : segmentation) : nat := match sg_segs sg with [] => 0 | g :: _ => s_end g - s_start g end.

(** [Segmentation::Forward()] *)
Definition forward (sg : segmentation) : segmentation * bool :=
  match sg_segs sg with
  | [] => (sg, false)
  | g :: _ => if s_start g =? s_end g then (sg, false)
              else (sg_push_back sg (new_segment (s_end g) (s_end g)), true)
  end.

(** [Segmentation::Trim()] *)
Definition trim (sg : segmentation) : segmentation * bool :=
  match sg_segs sg with
  | g :: _ => if s_start g =? s_end g then (sg_pop_back sg, true) else (sg, false)
  | [] => (sg, false)
  end.

Definition has_finished (sg : segmentation) : bool := length (sg_input sg) <=? cur_end sg.

(** [Segmentation::GetConfirmedPosition()]: end of the last segment (in C++
    order) whose status >= kSelected *)
Fixpoint confirmed_pos_rev (l : list segment) : nat :=
  match l with
  | [] => 0
  | g :: r => if status_geb (s_status g) SSelected then s_end g else confirmed_pos_rev r
  end.
Definition confirmed_pos (sg : segmentation) : nat := confirmed_pos_rev (sg_segs sg).

(** the [while (!empty() && back().end > diff_pos) pop_back()] loop of Reset *)
Fixpoint dispose (l : list segment) (diff_pos : nat) : list segment * nat :=
  match l with
  | g :: r => if diff_pos <? s_end g then let (l', n) := dispose r diff_pos in (l', S n) else (l, 0)
  | [] => ([], 0)
  end.

(** [Segmentation::Reset(const string& new_input)] *)
Definition reset_input (sg : segmentation) (new_input : bytes) : segmentation :=
  let diff_pos := common_prefix (sg_input sg) new_input in
  let (l, disposed) := dispose (sg_segs sg) diff_pos in
  let sg1 := sg_with_segs sg l in
  let sg2 := if 0 <? disposed then fst (forward sg1) else sg1 in
  mkSegm new_input (sg_segs sg2).

(** [Segmentation::AddSegment(segment)] *)
Definition add_segment (sg : segmentation) (g : segment) : segmentation * bool :=
  if negb (s_start g =? cur_start sg) then (sg, false)
  else match sg_segs sg with
       | [] => (sg_push_back sg g, true)
       | last :: r =>
         if s_end g <? s_end last then (sg, true)
         else if s_end last <? s_end g then (sg_with_segs sg (g :: r), true)
         else (sg_with_segs sg (seg_with_tags last (tags_union (s_tags last) (s_tags g)) :: r), true)
       end.
