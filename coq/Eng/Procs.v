(** Eng/Procs.v – the processors and ConcreteEngine::ProcessKey.  Model only.

    Ported from src/rime/gear/speller.cc (default options only:
    max_code_length = 0, auto_select = false, auto_clear = none, so the
    AutoSelect*/AutoClear helpers are no-ops), selector.cc, navigator.cc (with
    Spans of translator_commons.cc), editor.cc, key_binding_processor_impl.h,
    shape.cc (ShapeProcessor), gear/punctuator.cc (Punctuator: ProcessKeyEvent,
    ConvertDigitSeparator, ReconvertDigitSeparatorAsPunct, AlternatePunct,
    ConfirmUniquePunct, AutoCommitPunct, PairPunct) and engine.cc (ProcessKey; the
    processor chain is [cf_processors cfg]; the key binder re-enters it), gear/key_binder.cc
    (KeyBindings::Bind, KeyBindingConditions, KeyBinder::{ProcessKeyEvent,
    PerformKeyBinding, ReinterpretPagingKey}; not modelled: Switches / radio groups, "@index"
    options, the select action = ApplySchema).  The default key maps
    are Gen/Keymaps.v (regenerated from the source by gen/keymaps.py). *)
From Coq Require Import List Arith NArith ZArith Bool.
From Coq.Strings Require Import Byte.
From RimeV Require Import Base.Bytes Eng.Keys Eng.Cand Eng.Menu Eng.Segm Eng.Ctx Eng.Engine Gen.Keymaps.
Import ListNotations.

Inductive presult := PRejected | PAccepted | PNoop.

Definition presult_is_noop (r : presult) : bool := match r with PNoop => true | _ => false end.

(** ---- KeyBindingProcessor<T>::ProcessKeyEvent / Accept ----
    [fallback_all]: FallbackOptions::All (true) or ::None (false). *)
Section KeyBinding.
Context {A : Type}.
Variable run : state -> A -> state * bool.
Variable km : keymap A.

Definition kbp_accept (s : state) (k : key) : state * bool :=
  match keymap_find km k with
  | Some a => run s a
  | None => (s, false)
  end.

Definition kbp_process (fallback_all : bool) (s : state) (k : key) : state * presult :=
  let (s1, ok1) := kbp_accept s k in
  if ok1 then (s1, PAccepted)
  else if k_ctrl k || k_alt k then (s1, PNoop)
  else if k_shift k && fallback_all then
    let (s2, ok2) := kbp_accept s1 (mkKey (k_code k) (shift_as_control (k_mod k))) in
    if ok2 then (s2, PAccepted)
    else let (s3, ok3) := kbp_accept s2 (mkKey (k_code k) (clear_shift (k_mod k))) in
         if ok3 then (s3, PAccepted) else (s3, PNoop)
  else (s1, PNoop).
End KeyBinding.

(** ---- Spans (translator_commons.cc) ---- *)
Fixpoint spans_add_vertex (l : list nat) (v : nat) : list nat :=
  match l with
  | [] => [v]
  | x :: r => if v <? x then v :: l else if v =? x then l else x :: spans_add_vertex r v
  end.
Definition spans_add_span (l : list nat) (st en : nat) : list nat := spans_add_vertex (spans_add_vertex l st) en.
Definition spans_previous_stop (l : list nat) (caret : nat) : nat :=
  fold_left (fun acc x => if x <? caret then x else acc) l caret.
Fixpoint spans_next_stop (l : list nat) (caret : nat) : nat :=
  match l with
  | [] => caret
  | x :: r => if caret <? x then x else spans_next_stop r caret
  end.
Definition spans_count (l : list nat) : nat := length l - 1.
Definition spans_end (l : list nat) : nat := last l 0.
Definition spans_has_vertex (l : list nat) (v : nat) : bool := existsb (Nat.eqb v) l.

Section Procs.
Variable cfg : config.
Variable translate : bytes -> seginfo -> list cand.

Notation compose := (compose cfg translate).
Notation push_input := (push_input cfg translate).
Notation pop_input := (pop_input cfg translate).
Notation delete_input := (delete_input cfg translate).
Notation clear := (clear cfg translate).
Notation set_caret_pos := (set_caret_pos cfg translate).
Notation commit := (commit cfg translate).
Notation select := (select cfg translate).
Notation confirm_current_selection := (confirm_current_selection cfg translate).

Definition on_ctx (s : state) (f : context -> context) : state := st_with_ctx s (f (st_ctx s)).
Definition on_ctx_b (s : state) (f : context -> context * bool) : state * bool :=
  let (c, b) := f (st_ctx s) in (st_with_ctx s c, b).

(** ---- Speller ---- *)
Definition expecting_an_initial (c : context) : bool :=
  let caret := cx_caret c in
  if (caret =? 0) || (caret =? cur_start (cx_comp c)) then true
  else
    let previous_char := nth (caret - 1) (cx_input c) x00 in
    mem_byte previous_char (cf_finals cfg) || negb (mem_byte previous_char (cf_alphabet cfg)).

Definition speller_process (s : state) (k : key) : state * presult :=
  if k_release k || k_ctrl k || k_alt k || k_super k then (s, PNoop)
  else
    let ch := k_code k in
    if ((ch <? 32) || (127 <=? ch))%Z then (s, PNoop)
    else if (ch =? XK_space)%Z && (negb (cf_use_space cfg) || k_shift k) then (s, PNoop)
    else
      let b := byte_of_N (Z.to_N ch) in
      if negb (mem_byte b (cf_alphabet cfg)) && negb (mem_byte b (cf_delims cfg)) then (s, PNoop)
      else
        let is_initial := mem_byte b (cf_initials cfg) in
        if negb is_initial && expecting_an_initial (st_ctx s) then (s, PNoop)
        else (on_ctx s (fun c => begin_editing (push_input c b)), PAccepted).

(** ---- Selector ---- *)
Definition is_linear_layout (c : context) : bool := get_option c opt_linear || get_option c opt_horizontal.
Definition caret_at_end_of_input (c : context) : bool := length (cx_input c) <=? cx_caret c.

Definition with_back (c : context) (f : segment -> segment) : context :=
  match sg_segs (cx_comp c) with
  | [] => c
  | g :: _ => ctx_with_comp c (sg_set_back (cx_comp c) (f g))
  end.
Definition set_sel_paging (c : context) (index : Z) : context :=
  with_back c (fun g => seg_with_tags (seg_with_sel g (size_of_int index)) (tag_insert TPaging (s_tags g))).

Definition sel_previous_page (c : context) : context * bool :=
  match sg_segs (cx_comp c) with
  | [] => (c, false)
  | g :: _ =>
    let page_size := cf_page_size cfg in
    let selected_index := int_of_size (s_sel g) in
    let index := if (selected_index <? page_size)%Z then 0%Z else (selected_index - page_size)%Z in
    (set_sel_paging c index, true)
  end.

Definition sel_next_page (c : context) : context * bool :=
  match sg_segs (cx_comp c) with
  | [] => (c, false)
  | g :: _ =>
    match s_menu g with
    | None => (c, false)
    | Some m =>
      let page_size := cf_page_size cfg in
      let index := int_of_size (size_wrap (s_sel g + size_of_int page_size)) in
      let page_start := (Z.quot index page_size * page_size)%Z in
      let candidate_count := int_of_size (menu_prepare m (size_of_int (page_start + page_size))) in
      if (candidate_count <=? page_start)%Z then
        if cf_page_down_cycle cfg then (set_sel_paging c 0%Z, true) else (c, true)
      else if (candidate_count <=? index)%Z then (set_sel_paging c (candidate_count - 1)%Z, true)
      else (set_sel_paging c index, true)
    end
  end.

Definition sel_previous_candidate (c : context) : context * bool :=
  if is_linear_layout c && negb (caret_at_end_of_input c) then (c, false)
  else match sg_segs (cx_comp c) with
       | [] => (c, false)
       | g :: _ =>
         let index := int_of_size (s_sel g) in
         if (index <=? 0)%Z then (c, negb (is_linear_layout c))
         else (set_sel_paging c (index - 1)%Z, true)
       end.

Definition sel_next_candidate (c : context) : context * bool :=
  if is_linear_layout c && negb (caret_at_end_of_input c) then (c, false)
  else match sg_segs (cx_comp c) with
       | [] => (c, false)
       | g :: _ =>
         match s_menu g with
         | None => (c, false)
         | Some m =>
           let index := int_of_size (size_wrap (s_sel g + 1)) in
           let candidate_count := int_of_size (menu_prepare m (size_of_int (index + 1))) in
           if (candidate_count <=? index)%Z then (c, true)
           else (set_sel_paging c index, true)
         end
       end.

Definition sel_home (c : context) : context * bool :=
  match sg_segs (cx_comp c) with
  | [] => (c, false)
  | g :: _ => if (0 <? s_sel g)%N then (with_back c (fun g => seg_with_sel g 0%N), true) else (c, false)
  end.

Definition sel_end (c : context) : context * bool :=
  if cx_caret c <? length (cx_input c) then (c, false) else sel_home c.

Definition run_sel_action (s : state) (a : sel_action) : state * bool :=
  match a with
  | SelPreviousCandidate => on_ctx_b s sel_previous_candidate
  | SelNextCandidate => on_ctx_b s sel_next_candidate
  | SelPreviousPage => on_ctx_b s sel_previous_page
  | SelNextPage => on_ctx_b s sel_next_page
  | SelHome => on_ctx_b s sel_home
  | SelEnd => on_ctx_b s sel_end
  | SelUnrecognised => (s, false)
  end.

Definition sel_keymap (c : context) : keymap sel_action :=
  keymap_of_binds
    (match get_option c opt_vertical, is_linear_layout c with
     | false, false => sel_hs_binds
     | false, true => sel_hl_binds
     | true, false => sel_vs_binds
     | true, true => sel_vl_binds
     end).

(** [Selector::SelectCandidateAt(ctx, index)] *)
Definition select_candidate_at (s : state) (index : Z) : state * bool :=
  match sg_segs (cx_comp (st_ctx s)) with
  | [] => (s, false)
  | g :: _ =>
    let page_size := cf_page_size cfg in
    if (page_size <=? index)%Z then (s, false)
    else
      let selected_index := int_of_size (s_sel g) in
      let page_start := (Z.quot selected_index page_size * page_size)%Z in
      select s (size_of_int (page_start + index))
  end.

(** the candidate index a key selects on the current page, or -1 *)
Definition select_key_index (k : key) : Z :=
  let ch := k_code k in
  let select_keys := cf_select_keys cfg in
  if negb (match select_keys with [] => true | _ => false end) && negb (k_ctrl k)
     && (32 <=? ch)%Z && (ch <? 127)%Z
  then match find_byte (byte_of_N (Z.to_N ch)) select_keys with
       | Some pos => Z.of_nat pos
       | None => (-1)%Z
       end
  else if (XK_0 <=? ch)%Z && (ch <=? XK_9)%Z then (((ch - XK_0) + 9) mod 10)%Z
  else if (XK_KP_0 <=? ch)%Z && (ch <=? XK_KP_9)%Z then (((ch - XK_KP_0) + 9) mod 10)%Z
  else (-1)%Z.

Definition selector_process (s : state) (k : key) : state * presult :=
  if k_release k || k_alt k || k_super k then (s, PNoop)
  else
    let c := st_ctx s in
    match sg_segs (cx_comp c) with
    | [] => (s, PNoop)
    | g :: _ =>
      if (match s_menu g with None => true | Some _ => false end) || has_tag TRaw (s_tags g) then (s, PNoop)
      else
        let (s1, r) := kbp_process run_sel_action (sel_keymap c) false s k in
        if negb (presult_is_noop r) then (s1, r)
        else
          let index := select_key_index k in
          if (0 <=? index)%Z then (fst (select_candidate_at s1 index), PAccepted)
          else (s1, PNoop)
    end.

(** ---- Navigator ---- *)
(** candidates of the modelled translators are not [Phrase]s: only the
    segment spans are added *)
Definition begin_move (s : state) : state :=
  let c := begin_editing (st_ctx s) in
  if negb (bytes_eqb (st_nav_input s) (cx_input c)) || (spans_end (st_spans s) <? cx_caret c)
  then mkSt c (cx_input c)
            (fold_left (fun sp g => spans_add_span sp (s_start g) (s_end g)) (segs_fwd (cx_comp c)) [])
            (st_commit s) (st_odd s) (st_kb_last s) (st_ac s) (st_clock s)
  else st_with_ctx s c.

Definition jump_left (s : state) (start_pos : nat) : state * bool :=
  let c := st_ctx s in
  let caret_pos := cx_caret c in
  let stop0 := spans_previous_stop (st_spans s) caret_pos in
  let stop := if stop0 <? start_pos then length (cx_input c) else stop0 in
  if negb (stop =? caret_pos) then (st_with_ctx s (set_caret_pos c stop), true) else (s, false).

Definition jump_right (s : state) (start_pos : nat) : state * bool :=
  let c := st_ctx s in
  let caret_pos := if cx_caret c =? length (cx_input c) then start_pos else cx_caret c in
  let stop := spans_next_stop (st_spans s) caret_pos in
  if negb (stop =? caret_pos) then (st_with_ctx s (set_caret_pos c stop), true) else (s, false).

Definition move_left (s : state) : state * bool :=
  let c := st_ctx s in
  if cx_caret c =? 0 then (s, false) else (st_with_ctx s (set_caret_pos c (cx_caret c - 1)), true).

Definition move_right (s : state) : state * bool :=
  let c := st_ctx s in
  if length (cx_input c) <=? cx_caret c then (s, false)
  else (st_with_ctx s (set_caret_pos c (S (cx_caret c))), true).

Fixpoint go_home_pos (l : list segment) (acc : nat) : nat :=
  match l with
  | [] => acc
  | g :: r => if status_geb (s_status g) SSelected then acc else go_home_pos r (s_start g)
  end.

Definition go_home (s : state) : state * bool :=
  let c := st_ctx s in
  let caret_pos := cx_caret c in
  let confirmed := match sg_segs (cx_comp c) with
                   | [] => caret_pos
                   | l => go_home_pos l caret_pos
                   end in
  if confirmed <? caret_pos then (st_with_ctx s (set_caret_pos c confirmed), true)
  else if negb (caret_pos =? 0) then (st_with_ctx s (set_caret_pos c 0), true)
  else (s, false).

Definition go_to_end (s : state) : state * bool :=
  let c := st_ctx s in
  let end_pos := length (cx_input c) in
  if negb (cx_caret c =? end_pos) then (st_with_ctx s (set_caret_pos c end_pos), true) else (s, false).

(** [a || b] on handlers: the state changes of [a] persist when it fails *)
Definition or_else (r : state * bool) (f : state -> state * bool) : state * bool :=
  let (s, ok) := r in if ok then (s, true) else f s.

Definition run_nav_action (s : state) (a : nav_action) : state * bool :=
  match a with
  | NavRewind =>
    let s1 := begin_move s in
    let r := if (1 <? spans_count (st_spans s1)) && spans_has_vertex (st_spans s1) (cx_caret (st_ctx s1))
             then jump_left s1 0 else move_left s1 in
    (fst (or_else r go_to_end), true)
  | NavLeftByChar =>
    let s1 := begin_move s in (fst (or_else (move_left s1) go_to_end), true)
  | NavRightByChar =>
    let s1 := begin_move s in (fst (or_else (move_right s1) go_home), true)
  | NavLeftBySyllable =>
    let s1 := begin_move s in
    let confirmed := confirmed_pos (cx_comp (st_ctx s1)) in
    (fst (or_else (jump_left s1 confirmed) go_to_end), true)
  | NavRightBySyllable =>
    let s1 := begin_move s in
    let confirmed := confirmed_pos (cx_comp (st_ctx s1)) in
    (fst (or_else (jump_right s1 confirmed) go_to_end), true)
  | NavHome => let s1 := begin_move s in (fst (go_home s1), true)
  | NavEnd => let s1 := begin_move s in (fst (go_to_end s1), true)
  | NavUnrecognised => (s, false)
  end.

Definition navigator_process (s : state) (k : key) : state * presult :=
  if k_release k then (s, PNoop)
  else if negb (is_composing (st_ctx s)) then (s, PNoop)
  else
    let km := keymap_of_binds (if get_option (st_ctx s) opt_vertical then nav_vertical_binds else nav_horizontal_binds) in
    kbp_process run_nav_action km true s k.

(** ---- Punctuator (gear/punctuator.cc) ---- *)
(** [punctuation_is_translated(ctx, tag)] *)
Definition punct_is_translated (c : context) (t : tag) : bool :=
  match sg_segs (cx_comp c) with
  | [] => false
  | g :: _ => has_tag t (s_tags g) &&
              match selected_cand g with Some cd => bytes_eqb (c_type cd) ty_punct | None => false end
  end.

(** [is_after_digit_separator(ctx)]: [comp[0]] is the FIRST segment *)
Definition is_after_digit_separator (c : context) : bool :=
  match segs_fwd (cx_comp c) with
  | g :: _ => has_tag TPunctNumber (s_tags g) && (s_length g =? length (cx_input c))
  | [] => false
  end.

(** [oddness_[definition]]: the map is keyed by the definition node, i.e. by
    (mapping in force, key); a missing entry reads 0 *)
Fixpoint odd_get (l : list (bool * byte * bool)) (fs : bool) (b : byte) : bool :=
  match l with
  | [] => false
  | (f, k, v) :: r => if Bool.eqb f fs && Byte.eqb k b then v else odd_get r fs b
  end.
Fixpoint odd_set (l : list (bool * byte * bool)) (fs : bool) (b : byte) (v : bool) : list (bool * byte * bool) :=
  match l with
  | [] => [(fs, b, v)]
  | (f, k, v') :: r => if Bool.eqb f fs && Byte.eqb k b then (f, k, v) :: r else (f, k, v') :: odd_set r fs b v
  end.

(** [Punctuator::AlternatePunct]: writes Segment::selected_index and status
    directly (no notification).  [candidate_count()] after [Prepare(sel + 2)] is
    max(prepared, min(sel + 2, total)); the index written, (sel + 1) mod that, does
    not depend on the prepared count (sel + 2 <= total: sel + 1 either way; else the
    count is the total), so the total-based [menu_prepare] of Menu.v is exact here
    unless [sel + 2] wraps around 2^64 (as for Context::Highlight). *)
Definition alternate_punct (c : context) (b : byte) (d : pdef) : context * bool :=
  match d with
  | PdList _ =>
    match sg_segs (cx_comp c) with
    | [] => (c, false)
    | g :: _ =>
      if negb (status_geb SVoid (s_status g)) && has_tag TPunct (s_tags g) then
        let (t, ok) := substr_se (cx_input c) (s_start g) (s_end g) in
        let c := ctx_check c ok ErrSubstr in
        if bytes_eqb [b] t then
          match s_menu g with
          | None => (c, false)
          | Some m =>
            let count := menu_prepare m (size_wrap (s_sel g + 2)) in
            if (count =? 0)%N then (c, false)
            else
              let g' := seg_with_status (seg_with_sel g (size_wrap (s_sel g + 1) mod count)%N) SGuess in
              (ctx_with_comp c (sg_set_back (cx_comp c) g'), true)
          end
        else (c, false)
      else (c, false)
    end
  | _ => (c, false)
  end.

(** [Punctuator::PairPunct] for a definition that has the key [pair]; [fs], [b]
    identify the definition *)
Definition pair_punct (s : state) (fs : bool) (b : byte) : state * bool :=
  let c := st_ctx s in
  match sg_segs (cx_comp c) with
  | [] => (s, false)
  | g :: _ =>
    if negb (status_geb SVoid (s_status g)) && has_tag TPunct (s_tags g) then
      match s_menu g with
      | None => (s, false)
      | Some m =>
        if (menu_prepare m 2 <? 2)%N then (s, false)
        else
          let odd := odd_get (st_odd s) fs b in
          let g' := seg_with_sel g (size_wrap (s_sel g + (if odd then 1 else 0)) mod 2)%N in
          let s1 := mkSt (ctx_with_comp c (sg_set_back (cx_comp c) g')) (st_nav_input s) (st_spans s) (st_commit s)
                         (odd_set (st_odd s) fs b (negb odd)) (st_kb_last s) (st_ac s) (st_clock s) in
          (fst (confirm_current_selection s1), true)
      end
    else (s, false)
  end.

(** the first segment of the composition ([comp[0]]) rewritten by [f] *)
Definition map_front (f : segment -> segment) (l : list segment) : list segment :=
  match rev l with
  | [] => []
  | g :: r => rev (f g :: r)
  end.

(** [Punctuator::ReconvertDigitSeparatorAsPunct] *)
Definition reconvert_digit_separator (c : context) (b : byte) : context * bool :=
  if match cf_digit_seps cfg with [] => true | _ => false end then (c, false)
  else if negb (bytes_eqb (cx_input c) [b]) then (c, false)
  else match segs_fwd (cx_comp c) with
       | [] => (c, false)
       | g0 :: _ =>
         if has_tag TPunctNumber (s_tags g0) then
           let f := fun g => seg_with_status (seg_with_tags g (tag_insert TPunct (tag_erase TPunctNumber (s_tags g)))) SVoid in
           let c1 := ctx_with_comp c (sg_with_segs (cx_comp c) (map_front f (sg_segs (cx_comp c)))) in
           (fst (reopen_previous_segment cfg translate c1), true)
         else (c, false)
       end.

(** [Punctuator::ProcessKeyEvent] *)
Definition punctuator_process (s : state) (k : key) : state * presult :=
  if k_release k || k_ctrl k || k_alt k || k_super k then (s, PNoop)
  else
    let ch := k_code k in
    if ((ch <? 32) || (127 <=? ch))%Z then (s, PNoop)
    else
      let c := st_ctx s in
      if get_option c opt_ascii_punct then (s, PNoop)
      else
        let b := byte_of_N (Z.to_N ch) in
        if (is_digit_byte b || (ch =? XK_space)%Z) && is_after_digit_separator c then
          (fst (commit (on_ctx s (fun c => push_input c b))), PAccepted)
        else if negb (cf_punct_use_space cfg) && (ch =? XK_space)%Z && is_composing c then (s, PNoop)
        else if is_digit_separator cfg b && sg_empty (cx_comp c) && is_after_number (cx_hist c) then
          (* ConvertDigitSeparator *)
          let s1 := on_ctx s (fun c => push_input c b) in
          if punct_is_translated (st_ctx s1) TPunctNumber then
            if cf_digit_sep_commit cfg then (fst (commit s1), PAccepted)
            else (on_ctx s1 (fun c => ctx_with_comp c (fst (forward (cx_comp c)))), PAccepted)
          else (s1, PAccepted)
        else
          let fs := get_option c opt_full_shape in
          match punct_lookup cfg (cx_opts c) b with
          | None => (s, PNoop)
          | Some d =>
            let (c1, alternated) := alternate_punct c b d in
            let s0 := st_with_ctx s c1 in
            if alternated then (s0, PAccepted)
            else
              let (c2, reconverted) := reconvert_digit_separator c1 b in
              let s1 := if reconverted then st_with_ctx s0 c2 else on_ctx s0 (fun c => push_input c b) in
              let s2 :=
                if punct_is_translated (st_ctx s1) TPunct then
                  match d with
                  | PdValue _ => fst (confirm_current_selection s1)       (* ConfirmUniquePunct *)
                  | PdList _ => s1
                  | PdMap (Some _) _ => fst (commit s1)                    (* AutoCommitPunct *)
                  | PdMap None (Some _) => fst (pair_punct s1 fs b)        (* PairPunct *)
                  | PdMap None None => s1
                  end
                else s1 in
              (s2, PAccepted)
          end.

(** ---- Editor ---- *)
Definition ed_revert_last_edit (s : state) : state :=
  fst (or_else (on_ctx_b s (reopen_previous_selection cfg translate))
               (fun s1 => let (s2, ok) := on_ctx_b s1 (fun c => pop_input c 1) in
                          if ok then on_ctx_b s2 (reopen_previous_segment cfg translate) else (s2, false))).

Definition run_editor_action (s : state) (a : editor_action) : state * bool :=
  match a with
  | EdConfirm => (fst (or_else (confirm_current_selection s) commit), true)
  | EdToggleSelection =>
    (fst (or_else (on_ctx_b s (reopen_previous_segment cfg translate)) confirm_current_selection), true)
  | EdCommitComment =>
    match ctx_selected_cand (st_ctx s) with
    | Some cd => match c_comment cd with
                 | _ :: _ => (on_ctx (sink s (c_comment cd)) clear, true)
                 | [] => (s, true)
                 end
    | None => (s, true)
    end
  | EdCommitScriptText =>
    let (t, ok) := comp_script_text (cx_comp (st_ctx s)) in
    (on_ctx (sink (on_ctx s (fun c => ctx_check c ok ErrSubstr)) t) clear, true)
  | EdCommitRawInput => (fst (commit (on_ctx s (fun c => fst (clear_non_confirmed c)))), true)
  | EdCommitComposition =>
    let (s1, ok) := confirm_current_selection s in
    if negb ok || negb (has_menu (st_ctx s1)) then (fst (commit s1), true) else (s1, true)
  | EdRevertLastEdit => (ed_revert_last_edit s, true)
  | EdBackToPreviousInput =>
    (fst (or_else (or_else (on_ctx_b s (reopen_previous_segment cfg translate))
                           (fun s1 => on_ctx_b s1 (reopen_previous_selection cfg translate)))
                  (fun s1 => on_ctx_b s1 (fun c => pop_input c 1))), true)
  | EdBackToPreviousSyllable =>
    (* pop_input_by_syllable needs a Phrase candidate; the modelled translators yield none *)
    (ed_revert_last_edit s, true)
  | EdDeleteCandidate => (fst (delete_current_selection cfg s), true)
  | EdDeleteChar => (on_ctx s (fun c => fst (delete_input c 1)), true)
  | EdCancelComposition =>
    let (s1, ok) := on_ctx_b s (clear_previous_segment cfg translate) in
    if ok then (s1, true) else (on_ctx s1 clear, true)
  | EdUnrecognised => (s, false)
  end.

Definition editor_keymap : keymap editor_action :=
  keymap_of_binds (if cf_fluid cfg then fluid_editor_binds else express_editor_binds).
Definition editor_char_handler : char_handler :=
  if cf_fluid cfg then fluid_char_handler else express_char_handler.

Definition editor_process (s : state) (k : key) : state * presult :=
  if k_release k then (s, PRejected)
  else
    let ch := k_code k in
    let (s1, r) := if is_composing (st_ctx s) then kbp_process run_editor_action editor_keymap true s k
                   else (s, PNoop) in
    if negb (presult_is_noop r) then (s1, r)
    else if negb (k_ctrl k) && negb (k_alt k) && negb (k_super k) && (32 <? ch)%Z && (ch <? 127)%Z then
      match editor_char_handler with
      | CHDirectCommit => (fst (commit s1), PRejected)
      | CHAddToInput => (on_ctx s1 (fun c => begin_editing (push_input c (byte_of_N (Z.to_N ch)))), PAccepted)
      | CHNone | CHUnrecognised => (s1, PNoop)
      end
    else (s1, PNoop).

(** ---- AsciiComposer (gear/ascii_composer.cc) ---- *)
Definition XK_Shift_L : Z := 65505.      (* 0xffe1 *)
Definition XK_Shift_R : Z := 65506.
Definition XK_Control_L : Z := 65507.
Definition XK_Control_R : Z := 65508.
Definition XK_Caps_Lock : Z := 65509.    (* 0xffe5 *)
Definition XK_Eisu_toggle : Z := 65328.  (* 0xff30 *)
Definition k_caps (k : key) : bool := Z.testbit (k_mod k) 1.

Fixpoint ac_find (l : list (Z * ac_style)) (code : Z) : option ac_style :=
  match l with
  | [] => None
  | (c, st) :: r => if (c =? code)%Z then Some st else ac_find r code
  end.
(** caps_lock_switch_style_ as LoadConfig leaves it *)
Definition ac_caps_style : ac_style :=
  match ac_find (cf_ascii_keys cfg) XK_Caps_Lock with
  | Some AcInline => AcClear
  | Some st => st
  | None => AcNoop
  end.
Definition ac_style_is_noop (st : ac_style) : bool := match st with AcNoop => true | _ => false end.

Definition ac_unpress (s : state) : state :=
  st_with_ac s (mkAc false false (ac_caps (st_ac s)) (ac_expire (st_ac s))).
Definition ac_with_caps (s : state) (b : bool) : state :=
  st_with_ac s (mkAc (ac_shift (st_ac s)) (ac_ctrl (st_ac s)) b (ac_expire (st_ac s))).

(** ConcreteEngine::CommitText(text) *)
Definition commit_text (s : state) (text : bytes) : state :=
  let c := st_ctx s in
  let c1 := ctx_with_hist c (Some (ty_raw, ends_with_digit text)) in
  sink (st_with_ctx s c1) (format_text c1 text).

(** AsciiComposer::SwitchAsciiMode *)
Definition ac_switch (s : state) (ascii_mode : bool) (style : ac_style) : state :=
  let s1 :=
    if is_composing (st_ctx s) then
      let s0 := on_ctx s (fun c => ctx_with_conn c false) in
      match style with
      | AcInline => if ascii_mode then on_ctx s0 (fun c => ctx_with_conn c true) else s0
      | AcCommitText => fst (confirm_current_selection s0)
      | AcCommitCode => fst (commit (on_ctx s0 (fun c => fst (clear_non_confirmed c))))
      | AcClear => on_ctx s0 clear
      | AcNoop => s0
      end
    else s in
  on_ctx s1 (fun c => set_option cfg translate c opt_ascii_mode ascii_mode).

(** AsciiComposer::ToggleAsciiModeWithKey *)
Definition ac_toggle_with_key (s : state) (code : Z) : state :=
  match ac_find (cf_ascii_keys cfg) code with
  | None => s
  | Some style =>
    let s1 := ac_switch s (negb (get_option (st_ctx s) opt_ascii_mode)) style in
    ac_with_caps s1 (code =? XK_Caps_Lock)%Z
  end.

(** [isascii(ch) && isalpha(ch)] and the case swap of ProcessCapsLock *)
Definition ac_is_alpha (ch : Z) : bool := (((65 <=? ch) && (ch <=? 90)) || ((97 <=? ch) && (ch <=? 122)))%Z.
Definition ac_swap_case (ch : Z) : Z := (if (97 <=? ch) then ch - 32 else ch + 32)%Z.

(** AsciiComposer::ProcessCapsLock *)
Definition ac_process_caps_lock (s : state) (k : key) : state * presult :=
  let ch := k_code k in
  if (ch =? XK_Caps_Lock)%Z then
    if negb (k_release k) then
      let s1 := ac_unpress s in
      if cf_good_old_caps cfg && negb (ac_caps (st_ac s1)) && get_option (st_ctx s1) opt_ascii_mode
      then (s1, PRejected)
      else
        let s2 := ac_with_caps s1 (negb (k_caps k)) in
        (ac_switch s2 (negb (k_caps k)) ac_caps_style, PAccepted)
    else (s, PRejected)
  else if k_caps k then
    if negb (cf_good_old_caps cfg) && negb (k_release k) && negb (k_ctrl k) && ac_is_alpha ch
    then (commit_text s [byte_of_N (Z.to_N (ac_swap_case ch))], PAccepted)
    else (s, PRejected)
  else (s, PNoop).

(** AsciiComposer::ProcessKeyEvent.  [now < toggle_expired_] is read off the state's clock. *)
Definition ascii_composer_process (s : state) (k : key) : state * presult :=
  if (k_shift k && k_ctrl k) || k_alt k || k_super k then (ac_unpress s, PNoop)
  else
    let (s, r) := if ac_style_is_noop ac_caps_style then (s, PNoop) else ac_process_caps_lock s k in
    if negb (presult_is_noop r) then (s, r)
    else
      let ch := k_code k in
      if (ch =? XK_Eisu_toggle)%Z then
        if negb (k_release k) then (ac_toggle_with_key (ac_unpress s) ch, PAccepted) else (s, PRejected)
      else
        let is_shift := ((ch =? XK_Shift_L) || (ch =? XK_Shift_R))%Z in
        let is_ctrl := ((ch =? XK_Control_L) || (ch =? XK_Control_R))%Z in
        let a := st_ac s in
        if is_shift || is_ctrl then
          if k_release k then
            if ac_shift a || ac_ctrl a then
              let s1 := if ((is_shift && ac_shift a) || (is_ctrl && ac_ctrl a)) && (st_clock s <? ac_expire a)%N
                        then ac_toggle_with_key s ch else s in
              (ac_unpress s1, PNoop)
            else (s, PNoop)
          else if negb (ac_shift a || ac_ctrl a) then
            (st_with_ac s (mkAc is_shift (negb is_shift) (ac_caps a) (st_clock s + 500)%N), PNoop)
          else (s, PNoop)
        else
          let s := ac_unpress s in
          if k_ctrl k || (k_shift k && (ch =? XK_space)%Z) then (s, PNoop)
          else if get_option (st_ctx s) opt_ascii_mode then
            if negb (is_composing (st_ctx s)) then (s, PRejected)
            else if negb (k_release k) && (32 <=? ch)%Z && (ch <? 128)%Z
                 then (on_ctx s (fun c => push_input c (byte_of_N (Z.to_N ch))), PAccepted)
                 else (s, PNoop)
          else (s, PNoop).

(** ---- ShapeProcessor (the post-processor) ---- *)
Definition shape_process (s : state) (k : key) : state * presult :=
  let c := st_ctx s in
  if negb (get_option c opt_full_shape) then (s, PNoop)
  else if k_ctrl k || k_alt k || k_super k || k_release k then (s, PNoop)
  else
    let ch := k_code k in
    if ((ch <? 32) || (126 <? ch))%Z then (s, PNoop)
    else (sink s (format_text c [byte_of_N (Z.to_N ch)]), PAccepted).

(** ---- ConcreteEngine::ProcessKey ---- (the Switcher, first in the real
    list, has no hot keys in the modelled workspace and returns kNoop) *)
(** ---- KeyBinder (gear/key_binder.cc) ---- *)
(** KeyBindings::Bind: the vector of one key is kept sorted by condition
    (predicting < paging < has_menu < composing < always); a new binding goes in
    front of the existing ones of the same condition (std::lower_bound) *)
Definition kb_rank (w : kb_when) : nat :=
  match w with KwPredicting => 1 | KwPaging => 2 | KwHasMenu => 3 | KwComposing => 4 | KwAlways => 5 end.
Fixpoint kb_insert (v : list kbinding) (b : kbinding) : list kbinding :=
  match v with
  | [] => [b]
  | x :: r => if kb_rank (kb_whence x) <? kb_rank (kb_whence b) then x :: kb_insert r b else b :: v
  end.
(** the vector key_bindings_ holds for [key_event] after LoadBindings *)
Definition kb_vector (k : key) : list kbinding :=
  fold_left (fun v b => if key_eqb (kb_accept b) k then kb_insert v b else v) (cf_bindings cfg) [].

(** KeyBindingConditions(ctx); no modelled component sets the tag "prediction" *)
Definition kb_active (c : context) (w : kb_when) : bool :=
  match w with
  | KwAlways => true
  | KwComposing => is_composing c
  | KwHasMenu => has_menu c && negb (get_option c opt_ascii_mode)
  | KwPaging => match sg_segs (cx_comp c) with g :: _ => has_tag TPaging (s_tags g) | [] => false end
  | KwPredicting => false
  end.

(** KeyBinder::ReinterpretPagingKey *)
Definition reinterpret_paging_key (s : state) (k : key) : state * bool :=
  if k_release k then (s, false)
  else
    let ch := if (k_mod k =? 0)%Z then k_code k else 0%Z in
    let lk := st_kb_last s in
    let with_last (x : state) (v : Z) := mkSt (st_ctx x) (st_nav_input x) (st_spans x) (st_commit x) (st_odd x) v (st_ac x) (st_clock x) in
    if (ch =? 46)%Z && ((lk =? 46)%Z || (lk =? 44)%Z) then (with_last s 0%Z, false)
    else if (lk =? 46)%Z && (97 <=? ch)%Z && (ch <=? 122)%Z then
      let inp := cx_input (st_ctx s) in
      match inp with
      | [] => (with_last s ch, false)
      | _ => if Byte.eqb (last inp x00) x2e then (with_last s ch, false)
             else (with_last (on_ctx s (fun c => push_input c x2e)) ch, true)
      end
    else (with_last s ch, false).

(** the actions toggle / set_option / unset_option for a schema without [switches]
    (no radio groups, no "@index" options: Switches finds nothing) *)
Definition kb_perform_action (s : state) (a : kb_action) : state :=
  match a with
  | KaToggle o => on_ctx s (fun c => set_option cfg translate c o (negb (get_option c o)))
  | KaSet o => on_ctx s (fun c => set_option cfg translate c o true)
  | KaUnset o => on_ctx s (fun c => set_option cfg translate c o false)
  | KaSelect _ => s     (* ApplySchema is outside the model (one schema per model run); no modelled schema binds it *)
  | KaSend _ => s
  end.

(** KeyBinder::ProcessKeyEvent + PerformKeyBinding.
    [red] is the value of [redirecting_] during this call: the member is written only by
    PerformKeyBinding (true before the replay loop, false after it), so it is passed down
    the call chain instead of being kept in the state.  [replay] is the re-entered
    ConcreteEngine::ProcessKey ([None]: the model's nesting fuel is used up). *)
Definition key_binder_process (replay : option (state -> key -> state * bool)) (red : bool)
           (s : state) (k : key) : state * presult :=
  if red || match cf_bindings cfg with [] => true | _ => false end then (s, PNoop)
  else
    let (s1, reinterpreted) := reinterpret_paging_key s k in
    if reinterpreted then (s1, PNoop)
    else
      match find (fun b => kb_active (st_ctx s1) (kb_whence b)) (kb_vector k) with
      | None => (s1, PNoop)
      | Some b =>
        match kb_act b with
        | KaSend keys =>
          match keys, replay with
          | [], _ => (s1, PAccepted)
          | _, Some f => (fold_left (fun x tk => fst (f x tk)) keys s1, PAccepted)
          | _, None => (on_ctx s1 (fun c => ctx_fail c ErrRecursion), PAccepted)
          end
        | a => (kb_perform_action s1 a, PAccepted)
        end
      end.

(** ---- ConcreteEngine::ProcessKey ---- (the Switcher, first in the real
    list, has no hot keys in the modelled workspace and returns kNoop) *)
Definition proc_of (kb : state -> key -> state * presult) (i : proc_id) : state -> key -> state * presult :=
  match i with
  | PSpeller => speller_process
  | PPunctuator => punctuator_process
  | PSelector => selector_process
  | PNavigator => navigator_process
  | PEditor => editor_process
  | PKeyBinder => kb
  | PAsciiComposer => ascii_composer_process
  end.
Definition processors (kb : state -> key -> state * presult) : list (state -> key -> state * presult) :=
  map (proc_of kb) (cf_processors cfg).

Fixpoint run_processors (ps : list (state -> key -> state * presult)) (s : state) (k : key) : state * presult :=
  match ps with
  | [] => (s, PNoop)
  | p :: r =>
    let (s1, ret) := p s k in
    match ret with
    | PRejected => (s1, PRejected)
    | PAccepted => (s1, PAccepted)
    | PNoop => run_processors r s1 k
    end
  end.

Definition process_key_gen (kb : state -> key -> state * presult) (s : state) (k : key) : state * bool :=
  let (s1, ret) := run_processors (processors kb) s k in
  match ret with
  | PAccepted => (s1, true)
  | _ =>
    (* context_->commit_history().Push(key_event) *)
    let s1 := on_ctx s1 (fun c => ctx_with_hist c (hist_push_key (cx_hist c) k)) in
    let (s2, ret2) := shape_process s1 k in
    match ret2 with PAccepted => (s2, true) | _ => (s2, false) end
  end.

(** ProcessKey re-entered by the key binder: [fuel] bounds the nesting depth; the replay runs
    with redirecting_ = true when the source sets the flag ([cf_kb_guard], Gen/EngFacts.v:
    key_binder_redirect_guard), else with the flag as it was (false) *)
Fixpoint process_key_n (fuel : nat) (red : bool) (s : state) (k : key) : state * bool :=
  process_key_gen
    (key_binder_process (match fuel with
                         | 0 => None
                         | S f => Some (process_key_n f (cf_kb_guard cfg))
                         end) red) s k.

Definition kb_fuel : nat := 64.

(** a key event from the client: redirecting_ is false *)
Definition process_key (s : state) (k : key) : state * bool := process_key_n kb_fuel false s k.

End Procs.
