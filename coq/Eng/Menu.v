(** Eng/Menu.v – Menu over a candidate list.  Model only.

    Ported from src/rime/menu.cc.  A [Menu] is modelled by the complete list
    of candidates its translations will ever yield ([menu := list cand]); the
    number of candidates already fetched ([candidates_.size()], "prepared") is
    NOT modelled.  Justification (menu.cc read line by line, for translations
    whose [exhausted()] is exact, which holds for FifoTranslation under
    MergedTranslation): with T = total and P = prepared,
      - [Prepare(n)] returns [min n T] whenever [n > P] or [P = T];
      - [GetCandidateAt(i)] is [nth i] for [i < T], null otherwise;
      - [CreatePage]'s [is_last_page] is [end_pos = T] (see [create_page]);
    so P is unobservable except through [Prepare(0)] (a wrapped [index + 1],
    see Engine.v: [highlight]) – documented there. *)
From Coq Require Import List Arith NArith Bool.
From RimeV Require Import Base.Bytes Eng.Keys Eng.Cand.
Import ListNotations.
Local Open Scope N_scope.

Definition menu := list cand.

Definition menu_count (m : menu) : N := N.of_nat (length m).

(** [Menu::Prepare(requested)] for [requested > prepared]: the new count *)
Definition menu_prepare (m : menu) (requested : N) : N := N.min requested (menu_count m).

(** [Menu::GetCandidateAt(index)] *)
Definition menu_at (m : menu) (i : N) : option cand :=
  if menu_count m <=? i then None else nth_error m (N.to_nat i).

(** [Menu::empty()] *)
Definition menu_empty (m : menu) : bool := match m with [] => true | _ => false end.

Record page := mkPage { pg_last : bool; pg_cands : list cand }.

(** [Menu::CreatePage(page_size, page_no)] (size_t arithmetic).  Second
    component [false]: the call may reach [std::copy(first, last)] with
    [first > last] (only possible after a wrapped multiplication). *)
Definition create_page (m : menu) (ps pn : N) : option page * bool :=
  let T := menu_count m in
  let start := size_wrap (ps * pn) in
  let end0 := size_wrap (start + ps) in
  if T <? end0 then
    if T <=? start then (None, true)
    else (Some (mkPage true (skipn (N.to_nat start) m)), true)
  else if end0 <=? start then (None, false)
  else (Some (mkPage (end0 =? T) (firstn (N.to_nat (end0 - start)) (skipn (N.to_nat start) m))), true).
