(** Eng/Spec.v – the specifications of C05 and C02 (definitions only; they are
    also extracted and evaluated on the implementation's observations).

    C05: a plain text buffer with a caret, and the key alphabet of the property.
    C02: well-formedness of everything a client can read after a call. *)
From Coq Require Import List Arith NArith ZArith Bool.
From Coq.Strings Require Import Byte.
From RimeV Require Import Base.Bytes Eng.Keys Eng.Cand Eng.Menu Eng.Segm Eng.Ctx Eng.Engine Eng.Procs Eng.Api.
Import ListNotations.

(** * C05: the buffer *)
Record buf := mkBuf { b_text : bytes; b_caret : nat }.

Inductive ekey :=
| EkLetter (b : byte)   (* a spelling letter *)
| EkBackSpace | EkDelete
| EkLeft | EkRight      (* KP_Left / KP_Right: left_by_char / right_by_char *)
| EkHome | EkEnd | EkEscape.

Definition buf_empty : buf := mkBuf [] 0.

Definition buf_step (b : buf) (k : ekey) : buf :=
  let t := b_text b in
  let c := b_caret b in
  match k with
  | EkLetter ch => mkBuf (firstn c t ++ ch :: skipn c t) (S c)
  | EkBackSpace => if c =? 0 then b else mkBuf (firstn (c - 1) t ++ skipn c t) (c - 1)
  | EkDelete => if c <? length t then mkBuf (firstn c t ++ skipn (S c) t) c else b
  | EkLeft => if c =? 0 then mkBuf t (length t) else mkBuf t (c - 1)
  | EkRight => if length t <=? c then mkBuf t 0 else mkBuf t (S c)
  | EkHome => mkBuf t 0
  | EkEnd => mkBuf t (length t)
  | EkEscape => buf_empty
  end.

Definition ekey_is_letter (k : ekey) : bool := match k with EkLetter _ => true | _ => false end.
Definition buf_nonempty (b : buf) : bool := match b_text b with [] => false | _ => true end.

(** "each key is reported handled exactly when the buffer was non-empty or the
    key was a spelling letter" *)
Definition handled_spec (b : buf) (k : ekey) : bool := buf_nonempty b || ekey_is_letter k.

(** (handled, text, caret) after each key *)
Fixpoint buf_trace (b : buf) (keys : list ekey) : list (bool * bytes * nat) :=
  match keys with
  | [] => []
  | k :: r => let b' := buf_step b k in (handled_spec b k, b_text b', b_caret b') :: buf_trace b' r
  end.

Definition buf_run (keys : list ekey) : buf := fold_left buf_step keys buf_empty.

(** the key event of each element of the alphabet (modifier 0) *)
Definition key_code_of (k : ekey) : Z :=
  match k with
  | EkLetter ch => Z.of_N (N_of_byte ch)
  | EkBackSpace => XK_BackSpace
  | EkDelete => XK_Delete
  | EkLeft => XK_KP_Left
  | EkRight => XK_KP_Right
  | EkHome => XK_Home
  | EkEnd => XK_End
  | EkEscape => XK_Escape
  end.
Definition op_of_ekey (k : ekey) : op := OpKey (key_code_of k) 0.

(** spelling letters of a configuration: in the alphabet and initials *)
Definition ekey_ok (cfg : config) (k : ekey) : bool :=
  match k with
  | EkLetter ch => mem_byte ch (cf_alphabet cfg) && mem_byte ch (cf_initials cfg)
  | _ => true
  end.

(** what C05 compares of an observation: handled flag, input, caret, pending commit *)
Definition edit_summary (o : obs) : option (bool * bytes * nat * bytes) :=
  match o with
  | Obs (RBool h) v => Some (h, v_input v, v_caret v, v_commit v)
  | _ => None
  end.

(** * C02: well-formed reported state *)
Definition is_cont_byte (b : byte) : bool :=
  let n := N_of_byte b in ((128 <=? n) && (n <? 192))%N.

(** the (possibly empty) string starts at a character boundary *)
Definition starts_clean (t : bytes) : bool :=
  match t with [] => true | b :: _ => negb (is_cont_byte b) end.

(** [p] is a UTF-8 character boundary of [t] *)
Definition char_boundary (t : bytes) (p : nat) : bool :=
  (p <=? length t) && starts_clean (skipn p t).

Definition is_ascii (b : byte) : bool := (N_of_byte b <? 128)%N.

(** preedit clause without / with the UTF-8 part *)
Definition wf_preeditb (p : preedit) : bool :=
  (pe_sel_start p <=? pe_sel_end p) && (pe_sel_end p <=? length (pe_text p)) && (pe_caret p <=? length (pe_text p)).
Definition wf_preedit_utf8b (p : preedit) : bool :=
  char_boundary (pe_text p) (pe_sel_start p) && char_boundary (pe_text p) (pe_sel_end p)
  && char_boundary (pe_text p) (pe_caret p).

(** menu clause: 0 <= highlighted < number on the page <= page size, and the
    page is the one containing the highlighted candidate *)
Definition wf_menub (m : menu_obs) (sel : option N) : bool :=
  let n := Z.of_nat (length (mo_cands m)) in
  ((0 <=? mo_hl m) && (mo_hl m <? n) && (n <=? mo_page_size m) && (0 <=? mo_page_no m)
   && match sel with
      | Some i => (mo_page_no m * mo_page_size m + mo_hl m =? Z.of_N i)
      | None => false
      end)%Z.

Definition wf_viewb (v : view) : bool :=
  (v_caret v <=? length (v_input v))
  && (v_composing v
      || ((match v_input v with [] => true | _ => false end)
          && (match v_preedit v with None => true | Some _ => false end)
          && (match v_menu v with None => true | Some _ => false end)))
  && (match v_preedit v with Some p => wf_preeditb p | None => true end)
  && (match v_menu v with Some m => wf_menub m (v_sel v) | None => true end).

Definition wf_view_utf8b (v : view) : bool :=
  match v_preedit v with Some p => wf_preedit_utf8b p | None => true end.

Definition wf_obsb (o : obs) : bool := match o with Obs _ v => wf_viewb v | ObsCrash _ => true end.
Definition wf_obs_utf8b (o : obs) : bool := match o with Obs _ v => wf_view_utf8b v | ObsCrash _ => true end.

(** structural UTF-8 validity (lead byte followed by the right number of
    continuation bytes); [need] = continuation bytes still expected *)
Fixpoint utf8_wf_from (need : nat) (t : bytes) : bool :=
  match t with
  | [] => need =? 0
  | b :: r =>
    let n := N_of_byte b in
    match need with
    | 0 => if (n <? 128)%N then utf8_wf_from 0 r
           else if ((192 <=? n) && (n <? 224))%N then utf8_wf_from 1 r
           else if ((224 <=? n) && (n <? 240))%N then utf8_wf_from 2 r
           else if ((240 <=? n) && (n <? 248))%N then utf8_wf_from 3 r
           else false
    | S k => is_cont_byte b && utf8_wf_from k r
    end
  end.
Definition utf8_wf (t : bytes) : bool := utf8_wf_from 0 t.
