(** Eng/Trans.v – the translators of a schema and the merging of their
    translations.  Model only.

    Ported from src/rime/gear/punctuator.cc (PunctTranslator::Query with
    TranslateUniquePunct / TranslateAlternatingPunct / TranslateAutoCommitPunct /
    TranslatePairedPunct, CreatePunctCandidate), the loop over [translators_] in
    ConcreteEngine::TranslateSegments (engine.cc), Menu::AddTranslation (menu.cc)
    and MergedTranslation::{operator+=, Elect, Next, Peek} with
    Translation::Compare / Candidate::compare (translation.cc, candidate.cc).

    [all_translate cfg main] is the complete candidate list of a segment's menu:
    what Engine.v takes as its Section variable [translate].  [main] stands for
    the schema's other translator (TrMain in [cf_translators]); every modelled
    candidate is a SimpleCandidate (quality 0), so Candidate::compare is decided
    by start, then end.

    Not modelled: punctuator/symbols (multi-character keys: reachable only
    through recognizer patterns), definition texts containing a NUL byte. *)
From Coq Require Import List Arith NArith ZArith Bool.
From Coq.Strings Require Import Byte.
From RimeV Require Import Base.Bytes Eng.Keys Eng.Cand Eng.Menu Eng.Segm Eng.Ctx Eng.Engine.
Import ListNotations.

(** ---- utf8::unchecked::next on a NUL-terminated string ---- the bytes past
    the end read as 0 (the terminator; beyond it the C++ read is undefined, which
    needs a truncated multi-byte sequence in the schema's punctuation text) *)
Definition byte_n (l : bytes) (i : nat) : N := N_of_byte (nth i l x00).

(** (code point, number of bytes consumed) *)
Definition utf8_next (l : bytes) : N * nat :=
  let b0 := byte_n l 0 in
  if (b0 <? 128)%N then (b0, 1)
  else if (N.shiftr b0 5 =? 6)%N then
    ((N.land (N.shiftl b0 6) 2047 + N.land (byte_n l 1) 63)%N, 2)
  else if (N.shiftr b0 4 =? 14)%N then
    ((N.land (N.shiftl b0 12) 65535 + N.land (N.shiftl (byte_n l 1) 6) 4095 + N.land (byte_n l 2) 63)%N, 3)
  else if (N.shiftr b0 3 =? 30)%N then
    ((N.land (N.shiftl b0 18) 2097151 + N.land (N.shiftl (byte_n l 1) 12) 262143
      + N.land (N.shiftl (byte_n l 2) 6) 4095 + N.land (byte_n l 3) 63)%N, 4)
  else (b0, 1).

Definition label_half_shape : bytes := [xe3;x80;x94;xe5;x8d;x8a;xe8;xa7;x92;xe3;x80;x95].  (* 〔半角〕 *)
Definition label_full_shape : bytes := [xe3;x80;x94;xe5;x85;xa8;xe8;xa7;x92;xe3;x80;x95].  (* 〔全角〕 *)

Definition in_range (ch lo hi : N) : bool := ((lo <=? ch) && (ch <=? hi))%N.

(** the comment of [CreatePunctCandidate(punct, segment)] *)
Definition punct_comment (punct : bytes) : bytes :=
  let (ch, used) := utf8_next punct in
  if negb (length punct <=? used) then []        (* [*p != '\0']: more than one character *)
  else
    let is_ascii := ((32 <=? ch) && (ch <? 127))%N in
    let is_ideographic_space := (ch =? 12288)%N in
    let is_full_shape_ascii := in_range ch 65281 65374 in
    let is_kana := (in_range ch 12449 12540 || (ch =? 12289) || (ch =? 12290) || (ch =? 12300) || (ch =? 12301)
                    || (ch =? 12443) || (ch =? 12444))%N in
    let is_half_shape_kana := in_range ch 65377 65439 in
    let is_hangul := in_range ch 12593 12644 in
    let is_half_shape_hangul := in_range ch 65440 65500 in
    let is_full_shape_narrow_symbol := ((ch =? 65375) || (ch =? 65376) || in_range ch 65504 65510)%N in
    let is_narrow_symbol := ((ch =? 162) || (ch =? 163) || (ch =? 165) || (ch =? 166) || (ch =? 172) || (ch =? 175)
                             || (ch =? 10629) || (ch =? 10630))%N in
    let is_half_shape_wide_symbol := in_range ch 65512 65518 in
    let is_wide_symbol := (in_range ch 8592 8595 || (ch =? 9474) || (ch =? 9632) || (ch =? 9675))%N in
    let is_half_shape := is_ascii || is_half_shape_kana || is_half_shape_hangul || is_narrow_symbol
                         || is_half_shape_wide_symbol in
    let is_full_shape := is_ideographic_space || is_full_shape_ascii || is_kana || is_hangul
                         || is_full_shape_narrow_symbol || is_wide_symbol in
    if is_half_shape then label_half_shape else if is_full_shape then label_full_shape else [].

(** [CreatePunctCandidate] *)
Definition punct_cand (punct : bytes) (seg : seginfo) : cand :=
  let one_key := (si_end seg - si_start seg =? 1) in
  mkCand (si_start seg) (si_end seg) punct (punct_comment punct) (if one_key then punct else []) ty_punct.

Section Trans.
Variable cfg : config.

(** ShapeFormatter::Format as the translator's [formatter_] sees it (option full_shape) *)
Definition shape_format (opts : list (bytes * bool)) (text : bytes) : bytes :=
  if negb (opts_get opts opt_full_shape) then text
  else if forallb shape_outside text then text
       else flat_map shape_wide text.

(** [PunctTranslator::Query]; [[]] = no (or an exhausted) translation *)
Definition punct_translate (input : bytes) (seg : seginfo) : list cand :=
  if has_tag TPunctNumber (si_tags seg) then
    match input with
    | [] => []
    | _ => [punct_cand (shape_format (si_opts seg) input) seg]
    end
  else if negb (has_tag TPunct (si_tags seg)) then []
  else match input with
       | [b] =>
         match punct_lookup cfg (si_opts seg) b with
         | None => []
         | Some (PdValue s) => [punct_cand s seg]
         | Some (PdList l) => map (fun s => punct_cand s seg) l
         | Some (PdMap (Some s) _) => [punct_cand s seg]
         | Some (PdMap None (Some l)) => if length l =? 2 then map (fun s => punct_cand s seg) l else []
         | Some (PdMap None None) => []
         end
       | _ => []      (* the mappings of this model have single-byte keys only *)
       end.

(** ---- MergedTranslation ---- *)
(** [Candidate::compare]: start, then end (longer first); qualities are equal *)
Definition cand_compare (a b : cand) : Z :=
  let k := int_of_size (size_wrap (N.of_nat (c_start a) + 18446744073709551616 - N.of_nat (c_start b))) in
  if negb (k =? 0)%Z then k
  else let k := int_of_size (size_wrap (N.of_nat (c_end a) + 18446744073709551616 - N.of_nat (c_end b))) in
       if negb (k =? 0)%Z then (- k)%Z else 0%Z.

(** [MergedTranslation::Elect] over non-exhausted translations: the first one
    that does not lose against its right neighbour *)
Fixpoint elect (ts : list (list cand)) : nat :=
  match ts with
  | (c1 :: _) :: (((c2 :: _) :: _) as r) => if (cand_compare c1 c2 <=? 0)%Z then 0 else S (elect r)
  | _ => 0
  end.

(** Peek + Next of the elected translation; an exhausted one is erased *)
Fixpoint take_at (k : nat) (ts : list (list cand)) : option (cand * list (list cand)) :=
  match ts with
  | [] => None
  | t :: r =>
    match k with
    | 0 => match t with
           | [] => None
           | c :: t' => Some (c, match t' with [] => r | _ => t' :: r end)
           end
    | S k' => match take_at k' r with
              | Some (c, r') => Some (c, t :: r')
              | None => None
              end
    end
  end.

Fixpoint merge_loop (fuel : nat) (ts : list (list cand)) : list cand :=
  match fuel with
  | 0 => []
  | S f => match take_at (elect ts) ts with
           | Some (c, ts') => c :: merge_loop f ts'
           | None => []
           end
  end.

Definition nonempty {A} (l : list A) : bool := match l with [] => false | _ => true end.
Definition total_len (ts : list (list cand)) : nat := fold_right (fun t n => length t + n) 0 ts.

(** Menu::AddTranslation for each non-null, non-exhausted translation in
    translator order, then everything Menu::Prepare can ever fetch *)
Definition merge_translations (ts : list (list cand)) : list cand :=
  let ts := filter nonempty ts in merge_loop (total_len ts) ts.

Variable translate_main : bytes -> seginfo -> list cand.

Definition translator_query (t : trans_id) (input : bytes) (seg : seginfo) : list cand :=
  match t with
  | TrPunct => punct_translate input seg
  | TrMain => translate_main input seg
  end.

Definition all_translate (input : bytes) (seg : seginfo) : list cand :=
  merge_translations (map (fun t => translator_query t input seg) (cf_translators cfg)).

End Trans.
