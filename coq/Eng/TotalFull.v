(** Eng/TotalFull.v – C01 (modelled session core): NO undefined / throwing C++
    operation is reachable by any history of API calls, for translators whose
    candidates lie inside the segment they were made for
    ([si_start s < c_end c <= si_start s + |segment input|]).

    Structure: on top of the invariant of WfProofs.v (instantiated with the
    geometric part on) a second invariant [fit] is carried through every
    function of Engine.v / Procs.v / Api.v:
      - an open (Guess) segment holds only candidates that end inside it;
      - a closed (Selected/Confirmed) segment has a selected candidate that ends
        inside it, every other candidate ends at or before its "original end"
        max(end, start + length) (what Segment::Reopen restores), and an empty
        closed segment has no candidates;
      - a segment tagged "raw" has length 1, is not empty and every byte it
        covers is one the abc_segmentor refuses as the first byte of a segment
        (so fallback_segmentor absorbs it again); other segments have
        end <= start + length;
      - the last segment is open or empty; the composition's input is a prefix
        of the context's input; the error flag is clear.
    The strong form holds at every function boundary; a weak form (a Void
    segment may still carry its stale menu – Segment::Reopen) suffices for
    Compose, which re-establishes the strong form ([compose_fit]).  The one
    place where a closed raw segment with a stale [length] is cut short by a
    partial candidate (Context::Select -> OnSelect) is followed by a Compose
    whose first round lets the fallback segmentor swallow that segment again
    ([compose_absorb]). *)
From Coq Require Import List Arith NArith ZArith Bool Lia.
From Coq.Strings Require Import Byte.
From RimeV Require Import Base.Bytes Base.ListX Eng.Keys Eng.Cand Eng.Menu Eng.Segm Eng.Ctx Eng.Engine Eng.Procs
     Eng.Api Eng.WfProofs.
Import ListNotations.

(** ---- tags ---- *)
Lemma tag_eqb_eq a b : tag_eqb a b = true -> a = b.
Proof. destruct a, b; cbn; intros H; try discriminate; reflexivity. Qed.

Lemma has_tag_insert t t' l : has_tag t (tag_insert t' l) = tag_eqb t t' || has_tag t l.
Proof.
  unfold tag_insert. destruct (has_tag t' l) eqn:E; [|reflexivity].
  destruct (tag_eqb t t') eqn:Et; [|reflexivity]. apply tag_eqb_eq in Et. subst. rewrite E. reflexivity.
Qed.

Lemma has_tag_union t a b : has_tag t (tags_union a b) = has_tag t a || has_tag t b.
Proof.
  unfold tags_union. induction b as [|x b IH]; cbn [fold_right]; [cbn; now rewrite orb_false_r|].
  rewrite has_tag_insert, IH. cbn [has_tag existsb]. destruct (tag_eqb t x), (has_tag t a); reflexivity.
Qed.

Lemma has_tag_erase_raw l : has_tag TRaw (tag_erase TPartial l) = has_tag TRaw l.
Proof.
  unfold tag_erase, has_tag. induction l as [|x l IH]; [reflexivity|]. cbn [filter].
  destruct x; cbn [tag_eqb negb existsb orb]; try exact IH; try reflexivity; change (fun x : tag => negb (tag_eqb TPartial x)) with (fun x : tag => negb match x with TPartial => true | _ => false end) in IH; rewrite ?IH; reflexivity.
Qed.

(** ---- bytes ---- *)
Lemma byte_eqb_true x y : Byte.eqb x y = true -> x = y.
Proof. apply Byte.byte_dec_bl. Qed.

Lemma skipn_nth_cons {A} (p : nat) (l : list A) d : p < length l -> skipn p l = nth p l d :: skipn (S p) l.
Proof.
  revert l. induction p as [|p IH]; intros [|x l] H; cbn [length] in H; try lia; [reflexivity|].
  cbn [skipn nth]. rewrite (IH l) by lia. reflexivity.
Qed.

Lemma common_prefix_nth a b p : p < common_prefix a b -> nth p a x00 = nth p b x00.
Proof.
  revert b p. induction a as [|x a IH]; intros [|y b] p H; cbn [common_prefix] in H; try lia.
  destruct (Byte.eqb x y) eqn:E; [|lia]. apply byte_eqb_true in E. subst y.
  destruct p as [|p]; [reflexivity|]. cbn [nth]. apply IH. lia.
Qed.

Lemma common_prefix_le_l a b : common_prefix a b <= length a.
Proof.
  revert b. induction a as [|x a IH]; intros [|y b]; cbn [common_prefix length]; try lia.
  destruct (Byte.eqb x y); [specialize (IH b)|]; lia.
Qed.
Lemma common_prefix_le_r a b : common_prefix a b <= length b.
Proof.
  revert b. induction a as [|x a IH]; intros [|y b]; cbn [common_prefix length]; try lia.
  destruct (Byte.eqb x y); [specialize (IH b)|]; lia.
Qed.

Lemma byte_eqb_refl x : Byte.eqb x x = true.
Proof. destruct (Byte.eqb x x) eqn:E; [reflexivity|]. exfalso. pose proof (@Byte.byte_dec_lb x x eq_refl). congruence. Qed.

Lemma common_prefix_firstn a k : common_prefix (firstn k a) a = Nat.min k (length a).
Proof.
  revert k. induction a as [|x a IH]; intros [|k]; cbn [firstn common_prefix length Nat.min]; try reflexivity.
  rewrite byte_eqb_refl, IH. reflexivity.
Qed.
Lemma common_prefix_firstn_r a k : common_prefix a (firstn k a) = Nat.min k (length a).
Proof.
  revert k. induction a as [|x a IH]; intros [|k]; cbn [firstn common_prefix length Nat.min]; try reflexivity.
  rewrite byte_eqb_refl, IH. reflexivity.
Qed.

Section Full.
Variable cfg : config.
Variable translate : bytes -> seginfo -> list cand.
Hypothesis Hps : (1 <= cf_page_size cfg)%Z.
Hypothesis Hlen : forall i s, (Z.of_nat (length (translate i s)) + cf_page_size cfg < 2147483648)%Z.
Hypothesis Hdel : cf_del_checked cfg = true.
(** source fact: CommitHistory::Push(composition, input) resets [last] in its raw branch *)
Hypothesis Hhg : cf_hist_guard cfg = true.
(** source fact: the key binder replays its target keys with redirecting_ = true *)
Hypothesis Hkg : cf_kb_guard cfg = true.
(** the chains of this section: segmentors [abc_segmentor, fallback_segmentor], no punctuator
    (TotalPunct.v states what holds and what fails for chains with punct_segmentor) *)
Hypothesis Hseg : cf_segmentors cfg = [SgAbc; SgFallback].
Hypothesis Hnp : ~ In PPunctuator (cf_processors cfg).
(** the candidate-shape hypothesis: a candidate covers a non-empty stretch of
    the segment it was made for *)
Hypothesis Hfit : forall i s c, In c (translate i s) -> si_start s < c_end c /\ c_end c <= si_start s + length i.

Definition MPf (st : nat) (m : menu) : Prop := forall c, In c m -> st < c_end c.
Definition IPt (b : bytes) : Prop := True.

Lemma HMPf : forall i s, IPt i -> MPf (si_start s) (translate i s).
Proof. intros i s _ c Hc. apply Hfit in Hc. lia. Qed.
Lemma HGEf : True -> forall st m, MPf st m -> forall c, In c m -> st <= c_end c.
Proof. intros _ st m H c Hc. specialize (H c Hc). lia. Qed.

Notation cinvT := (cinv cfg MPf IPt True).
Notation cpreT := (cpre cfg MPf IPt True).
Notation sinvT := (sinv cfg MPf IPt True).

Ltac side := first [exact Hps | exact Hlen | exact Hdel | exact Hhg | exact Hkg | exact HMPf | exact HGEf | exact I | (intros; exact I)].
Ltac wf L :=
  first [eapply L with (MP := MPf) (IP := IPt) (GE := True) | eapply L with (MP := MPf) (IP := IPt) | eapply L];
  try side; eauto.

(** clean restatements of the geometry lemmas of WfProofs.v *)
Lemma g_dispose l d n : chain_rev l -> Forall (seg_geo n) l -> Forall (seg_geo (Nat.min n d)) (fst (dispose l d)).
Proof. intros Hc Hf. assert (X : chain_rev (fst (dispose l d)) /\ Forall (seg_geo (Nat.min n d)) (fst (dispose l d)) /\ (d <= n -> True)) by (wf dispose_geo). apply X. Qed.
Lemma g_cur sg : sgeo sg -> cur_start sg <= cur_end sg /\ cur_end sg <= length (sg_input sg).
Proof. intros H. wf cur_geo. Qed.
Lemma g_abc sg : sgeo sg -> sgeo (abc_proceed cfg sg).
Proof. intros H. wf abc_proceed_geo. Qed.
Lemma g_fallback sg : sgeo sg -> sgeo (fallback_proceed sg).
Proof. intros H. wf fallback_proceed_geo. Qed.
Lemma g_forward sg : sgeo sg -> sgeo (fst (forward sg)).
Proof. intros H. wf forward_geo. Qed.
Lemma g_abc_cur_start sg : cur_start (abc_proceed cfg sg) = cur_start sg.
Proof. wf abc_proceed_cur_start. Qed.
Lemma g_reset sg ni : sgeo sg -> sgeo (reset_input sg ni).
Proof. intros H. wf reset_input_geo. Qed.
Lemma g_calc o h caret sg : sgeo sg -> sgeo (fst (calc_segmentation cfg o h caret sg)) /\ snd (calc_segmentation cfg o h caret sg) = true.
Proof. intros H. wf calc_segmentation_geo. Qed.
Lemma g_calc_loop o h fuel caret sg : sgeo sg -> sgeo (fst (calc_loop cfg o h fuel caret sg)).
Proof. intros H. wf calc_loop_geo. Qed.
(** a round of this section's chain *)
Lemma round_eq o h sg : seg_round cfg o h sg = fallback_proceed (abc_proceed cfg sg).
Proof. unfold seg_round. rewrite Hseg. reflexivity. Qed.
Lemma g_translate o sg : sgeo sg -> sgeo (fst (translate_segs translate o sg)) /\ snd (translate_segs translate o sg) = true.
Proof. intros H. wf translate_segs_geo. Qed.

(** ---- the abc segmentor refuses the byte at [p] as the start of a segment ---- *)
Definition unabc (inp : bytes) (p : nat) : Prop := abc_scan cfg (skipn p inp) true true = 0.

Lemma abc_scan_head b r r' : abc_scan cfg (b :: r) true true = 0 -> abc_scan cfg (b :: r') true true = 0.
Proof.
  cbn [abc_scan]. intros H.
  destruct (negb (mem_byte b (cf_alphabet cfg)) && negb (negb true && mem_byte b (cf_delims cfg))); [reflexivity|].
  destruct (true && negb (mem_byte b (cf_initials cfg)) && negb (negb true && mem_byte b (cf_delims cfg))); [reflexivity | discriminate].
Qed.

Lemma unabc_ext a b p : p < length a -> p < length b -> nth p a x00 = nth p b x00 -> unabc a p -> unabc b p.
Proof.
  intros Ha Hb E H. unfold unabc in *. rewrite (skipn_nth_cons p a x00 Ha) in H. rewrite (skipn_nth_cons p b x00 Hb).
  rewrite <- E. eapply abc_scan_head, H.
Qed.

(** ---- the per-segment invariant ---- *)
Definition is_raw (g : segment) : bool := has_tag TRaw (s_tags g).
Definition closed (g : segment) : bool := status_geb (s_status g) SSelected.
Definition oend (g : segment) : nat := Nat.max (s_end g) (s_start g + s_length g).

Definition seg_tag_ok (inp : bytes) (g : segment) : Prop :=
  (is_raw g = true -> s_length g = 1 /\ s_start g < s_end g /\ forall p, s_start g <= p < s_end g -> unabc inp p) /\
  (is_raw g = false -> s_end g <= s_start g + s_length g).

Definition menu_ok (strong : bool) (g : segment) (m : menu) : Prop :=
  match s_status g with
  | SVoid => strong = false
  | SGuess => forall c, In c m -> c_end c <= s_end g
  | _ => (forall c, selected_cand g = Some c -> c_end c <= s_end g) /\
         (forall c, In c m -> c_end c <= oend g) /\ (s_start g = s_end g -> m = [])
  end.

Definition sfit (strong : bool) (inp : bytes) (g : segment) : Prop :=
  seg_tag_ok inp g /\ forall m, s_menu g = Some m -> menu_ok strong g m.
Definition lfit (strong : bool) (inp : bytes) (l : list segment) : Prop := Forall (sfit strong inp) l.

Definition last_ok (l : list segment) : Prop :=
  match l with [] => True | g :: _ => closed g = true -> s_start g = s_end g end.
Definition prefix_ok (c : context) : Prop :=
  sg_input (cx_comp c) = firstn (length (sg_input (cx_comp c))) (cx_input c).

Definition fit (c : context) : Prop :=
  cx_err c = None /\ lfit true (sg_input (cx_comp c)) (sg_segs (cx_comp c)) /\
  last_ok (sg_segs (cx_comp c)) /\ prefix_ok c.
Definition wfit (c : context) : Prop :=
  cx_err c = None /\ lfit false (sg_input (cx_comp c)) (sg_segs (cx_comp c)).

Lemma sfit_weaken inp g : sfit true inp g -> sfit false inp g.
Proof.
  intros (Ht & Hm). split; [exact Ht|]. intros m E. specialize (Hm m E). unfold menu_ok in *.
  destruct (s_status g); auto.
Qed.
Lemma lfit_weaken inp l : lfit true inp l -> lfit false inp l.
Proof. intros H. eapply Forall_impl; [|exact H]. intros a. apply sfit_weaken. Qed.
Lemma fit_wfit c : fit c -> wfit c.
Proof. intros (E & L & _). split; [exact E | apply lfit_weaken, L]. Qed.

Lemma sfit_nomenu b inp g : seg_tag_ok inp g -> s_menu g = None -> sfit b inp g.
Proof. intros Ht E. split; [exact Ht|]. intros m. rewrite E. discriminate. Qed.

Lemma sfit_new b inp a e : a <= e -> sfit b inp (new_segment a e).
Proof. intros H. apply sfit_nomenu; [|reflexivity]. split; cbn; [discriminate | intros _; lia]. Qed.

(** same status, positions, rawness, menu and index *)
Lemma sfit_same b inp g g' :
  s_status g' = s_status g -> s_start g' = s_start g -> s_end g' = s_end g -> s_length g' = s_length g ->
  is_raw g' = is_raw g -> s_menu g' = s_menu g -> s_sel g' = s_sel g -> sfit b inp g -> sfit b inp g'.
Proof.
  intros E1 E2 E3 E4 E5 E6 E7 ((R & N) & Hm). split.
  - split; rewrite E5, ?E2, ?E3, ?E4; assumption.
  - intros m. rewrite E6. intros Em. specialize (Hm m Em). unfold menu_ok, oend, selected_cand, cand_at in *.
    rewrite E1, E2, E3, E4, E6, E7. exact Hm.
Qed.

Lemma sfit_tags_insert b inp g t : t <> TRaw -> sfit b inp g -> sfit b inp (seg_with_tags g (tag_insert t (s_tags g))).
Proof.
  intros Ht. apply sfit_same; try reflexivity. unfold is_raw. cbn [s_tags seg_with_tags]. rewrite has_tag_insert.
  destruct t; try reflexivity. congruence.
Qed.

(** ---- segmentations: the weak/strong list invariant through the Compose pipeline ---- *)
Lemma seg_tag_ok_ext inp inp' g d :
  s_end g <= d -> d <= length inp -> d <= length inp' -> (forall p, p < d -> nth p inp x00 = nth p inp' x00) ->
  seg_tag_ok inp g -> seg_tag_ok inp' g.
Proof.
  intros He H1 H2 Hn (R & N). split; [|exact N]. intros Hr. destruct (R Hr) as (A & B & C). split; [exact A|]. split; [exact B|].
  intros p Hp. apply (unabc_ext inp inp' p); [lia | lia | apply Hn; lia | apply C, Hp].
Qed.

Lemma lfit_ext b inp inp' l d :
  Forall (fun g => s_end g <= d) l -> d <= length inp -> d <= length inp' ->
  (forall p, p < d -> nth p inp x00 = nth p inp' x00) -> lfit b inp l -> lfit b inp' l.
Proof.
  intros He H1 H2 Hn H. unfold lfit in *. rewrite Forall_forall in *. intros g Hg. destruct (H g Hg) as (Ht & Hm).
  split; [|exact Hm]. apply (seg_tag_ok_ext inp inp' g d); auto.
Qed.

Lemma dispose_Forall {P : segment -> Prop} l d : Forall P l -> Forall P (fst (dispose l d)).
Proof.
  induction l as [|g r IH]; intros H; [exact H|]. cbn [dispose].
  destruct (d <? s_end g); [|exact H]. inversion H; subst.
  destruct (dispose r d) eqn:E. cbn [fst] in *. apply IH. assumption.
Qed.

Lemma forward_lfit b inp sg : lfit b inp (sg_segs sg) -> lfit b inp (sg_segs (fst (forward sg))).
Proof.
  intros H. unfold forward. destruct (sg_segs sg) as [|g r] eqn:E; cbn [fst]; [rewrite E; exact H|].
  destruct (s_start g =? s_end g); cbn [fst]; [rewrite E; exact H|].
  cbn. rewrite E. constructor; [apply sfit_new; lia | exact H].
Qed.

Lemma forward_back sg last r : sg_segs (fst (forward sg)) = last :: r -> s_start last = s_end last.
Proof.
  unfold forward. destruct (sg_segs sg) as [|g r0] eqn:E; cbn [fst]; [rewrite E; discriminate|].
  destruct (s_start g =? s_end g) eqn:Ee; cbn [fst].
  - rewrite E. intros X. injection X as <- <-. apply Nat.eqb_eq, Ee.
  - cbn. intros X. injection X as <- <-. reflexivity.
Qed.

Lemma trim_lfit b inp sg : lfit b inp (sg_segs sg) -> lfit b inp (sg_segs (fst (trim sg))).
Proof.
  intros H. unfold trim. destruct (sg_segs sg) as [|g r] eqn:E; cbn [fst]; [rewrite E; exact H|].
  destruct (s_start g =? s_end g); cbn [fst]; [|rewrite E; exact H].
  cbn. rewrite E. inversion H; assumption.
Qed.

Lemma reset_input_lfit b sg ni :
  sgeo sg -> lfit b (sg_input sg) (sg_segs sg) -> lfit b ni (sg_segs (reset_input sg ni)).
Proof.
  intros (Hc & Hf) H. unfold reset_input.
  pose proof (g_dispose (sg_segs sg) (common_prefix (sg_input sg) ni) (length (sg_input sg)) Hc Hf) as D2.
  pose proof (dispose_Forall (sg_segs sg) (common_prefix (sg_input sg) ni) H) as D3.
  destruct (dispose (sg_segs sg) (common_prefix (sg_input sg) ni)) as [l k]. cbn [fst] in *.
  assert (H1 : lfit b ni l).
  { apply (lfit_ext b (sg_input sg) ni l (Nat.min (length (sg_input sg)) (common_prefix (sg_input sg) ni))).
    - eapply Forall_impl; [|exact D2]. intros a (_ & X). exact X.
    - lia.
    - pose proof (common_prefix_le_r (sg_input sg) ni). lia.
    - intros p Hp. apply common_prefix_nth. lia.
    - exact D3. }
  destruct (0 <? k); cbn [sg_segs]; [|exact H1]. apply (forward_lfit b ni (sg_with_segs sg l)). exact H1.
Qed.

Lemma add_segment_lfit b inp sg g :
  lfit b inp (sg_segs sg) -> sfit b inp g ->
  (is_raw g = true -> forall last r, sg_segs sg = last :: r -> s_start last = s_start g -> s_end last <> s_end g) ->
  lfit b inp (sg_segs (fst (add_segment sg g))).
Proof.
  intros H Hg Hraw. unfold add_segment. destruct (s_start g =? cur_start sg) eqn:Es; cbn [negb]; [|exact H].
  apply Nat.eqb_eq in Es. destruct (sg_segs sg) as [|last r] eqn:E.
  - cbn. rewrite E. constructor; assumption.
  - unfold cur_start in Es. rewrite E in Es. inversion H; subst.
    destruct (s_end g <? s_end last) eqn:E1; cbn [fst]; [rewrite E; exact H|].
    destruct (s_end last <? s_end g) eqn:E2; cbn; constructor; auto.
    apply Nat.ltb_ge in E1, E2.
    destruct (is_raw g) eqn:Er; [exfalso; apply (Hraw eq_refl last r eq_refl); [auto | lia]|].
    revert H2. apply sfit_same; try reflexivity. unfold is_raw in *. cbn [s_tags seg_with_tags].
    rewrite has_tag_union, Er. apply orb_false_r.
Qed.

Lemma abc_proceed_lfit b sg : lfit b (sg_input sg) (sg_segs sg) -> lfit b (sg_input sg) (sg_segs (abc_proceed cfg sg)).
Proof.
  intros H. unfold abc_proceed. destruct (cur_start sg <? _) eqn:E; [|exact H]. apply Nat.ltb_lt in E.
  apply add_segment_lfit; [exact H| |discriminate].
  apply sfit_nomenu; [|reflexivity]. split; cbn; [discriminate | intros _; lia].
Qed.

Lemma abc_none sg :
  cur_len (abc_proceed cfg sg) = 0 -> unabc (sg_input sg) (cur_start sg).
Proof.
  unfold abc_proceed, unabc. set (j := cur_start sg). set (n := abc_scan cfg (skipn j (sg_input sg)) true true).
  destruct (j <? j + n) eqn:E; [|apply Nat.ltb_ge in E; intros _; lia]. apply Nat.ltb_lt in E.
  intros Hl. exfalso. revert Hl. unfold add_segment. cbn [s_start seg_with_tags new_segment s_end].
  fold j. rewrite Nat.eqb_refl. cbn [negb]. unfold cur_len. subst j. unfold cur_start in *.
  destruct (sg_segs sg) as [|last r] eqn:Es; cbn [fst sg_push_back sg_segs sg_with_segs s_start s_end seg_with_tags new_segment]; [lia|].
  destruct (s_start last + n <? s_end last) eqn:E1; cbn [fst]; [rewrite Es; apply Nat.ltb_lt in E1; lia|].
  destruct (s_end last <? s_start last + n) eqn:E2; cbn [fst sg_segs sg_with_segs s_start s_end seg_with_tags new_segment]; [lia|].
  apply Nat.ltb_ge in E1, E2. lia.
Qed.

Lemma fallback_proceed_lfit b sg :
  sgeo sg -> lfit b (sg_input sg) (sg_segs sg) -> (cur_len sg = 0 -> unabc (sg_input sg) (cur_start sg)) ->
  lfit b (sg_input sg) (sg_segs (fallback_proceed sg)).
Proof.
  intros H L Hu. unfold fallback_proceed. destruct (0 <? cur_len sg) eqn:El; [exact L|].
  destruct (cur_start sg =? length (sg_input sg)) eqn:Ek; [exact L|].
  apply Nat.ltb_ge in El. apply Nat.eqb_neq in Ek. destruct (g_cur sg H) as (A & B).
  assert (Hl0 : cur_len sg = 0) by lia. specialize (Hu Hl0).
  assert (Hse : cur_end sg = cur_start sg).
  { unfold cur_len, cur_start, cur_end in *. destruct (sg_segs sg); [reflexivity | lia]. }
  set (k := cur_start sg) in *.
  set (sg1 := match sg_segs sg with
              | g :: _ => if s_start g =? s_end g then sg_pop_back sg else sg
              | [] => sg
              end).
  assert (H1 : lfit b (sg_input sg) (sg_segs sg1) /\ (forall last r, sg_segs sg1 = last :: r -> s_end last = k)).
  { subst sg1. destruct (sg_segs sg) as [|g r] eqn:E.
    - split; [rewrite E; exact L|]. rewrite E. discriminate.
    - unfold k, cur_start, cur_end in *. rewrite E in *. replace (s_start g =? s_end g) with true by (symmetry; apply Nat.eqb_eq; lia).
      split; [cbn; rewrite E; inversion L; assumption|]. cbn. rewrite E. cbn.
      destruct H as (Hc & _). rewrite E in Hc. destruct Hc as (Hc1 & _). intros last r0 X. subst r. lia. }
  destruct H1 as (L1 & C1).
  assert (Hnew : sfit b (sg_input sg) (seg_with_tags (new_segment k (S k)) [TRaw])).
  { apply sfit_nomenu; [|reflexivity]. split; [intros _ | cbn; discriminate].
    cbn [s_length s_start s_end seg_with_tags new_segment]. split; [lia|]. split; [lia|].
    intros p Hp. replace p with k by lia. exact Hu. }
  assert (Hadd : lfit b (sg_input sg) (sg_segs (fst (add_segment (fst (forward sg1)) (seg_with_tags (new_segment k (S k)) [TRaw]))))).
  { apply add_segment_lfit; [apply forward_lfit; exact L1 | exact Hnew|].
    intros _ last r E Es. apply forward_back in E. cbn in Es |- *. lia. }
  destruct (sg_segs sg1) as [|last r] eqn:E1; [exact Hadd|].
  destruct (has_tag TRaw (s_tags last)) eqn:Er; [|exact Hadd].
  cbn. inversion L1 as [|? ? Hlast Hr]; subst. constructor; [|exact Hr].
  apply sfit_nomenu; [|reflexivity]. destruct Hlast as ((R & _) & _). destruct (R Er) as (R1 & R2 & R3).
  specialize (C1 last r eq_refl).
  split; [intros _ | cbn; discriminate]. cbn [s_length s_start s_end seg_with_tags seg_clear seg_with_end].
  split; [exact R1|]. split; [lia|].
  intros p Hp. destruct (Nat.eq_dec p k) as [-> | Hne]; [exact Hu | apply R3; lia].
Qed.

Lemma round_lfit b sg :
  sgeo sg -> lfit b (sg_input sg) (sg_segs sg) ->
  lfit b (sg_input sg) (sg_segs (fallback_proceed (abc_proceed cfg sg))).
Proof.
  intros H L. pose proof (g_abc sg H) as Ha. pose proof (abc_proceed_lfit b sg L) as La.
  pose proof (abc_none sg) as Hn. rewrite <- (abc_proceed_input cfg sg) in La, Hn |- *.
  rewrite <- (g_abc_cur_start sg) in Hn.
  apply fallback_proceed_lfit; assumption.
Qed.

Lemma calc_loop_lfit b o h fuel caret sg :
  sgeo sg -> lfit b (sg_input sg) (sg_segs sg) ->
  lfit b (sg_input sg) (sg_segs (fst (calc_loop cfg o h fuel caret sg))).
Proof.
  revert sg. induction fuel as [|f IH]; intros sg H L; cbn [calc_loop].
  - destruct (has_finished sg); exact L.
  - destruct (has_finished sg); [exact L|]. rewrite round_eq.
    pose proof (g_fallback _ (g_abc _ H)) as H2.
    pose proof (round_lfit b sg H L) as L2.
    assert (Ei : sg_input (fallback_proceed (abc_proceed cfg sg)) = sg_input sg)
      by (rewrite fallback_proceed_input; apply abc_proceed_input).
    set (sg2 := fallback_proceed (abc_proceed cfg sg)) in *.
    destruct (cur_start sg =? cur_end sg2); [exact L2|].
    destruct (caret <=? cur_start sg); [exact L2|].
    destruct (has_finished sg2).
    + rewrite <- Ei. apply IH; [exact H2 | rewrite Ei; exact L2].
    + rewrite <- Ei, <- (forward_input sg2). apply IH; [apply g_forward, H2|].
      rewrite forward_input, Ei. apply forward_lfit, L2.
Qed.

(** what CalculateSegmentation does after its loop *)
Definition post_calc (sg1 : segmentation) : segmentation :=
  let sg2 := match sg_segs sg1 with
             | g :: _ => if has_tag TPlaceholder (s_tags g) then sg1 else fst (trim sg1)
             | [] => sg1
             end in
  match sg_segs sg2 with
  | g :: _ => if status_geb (s_status g) SSelected then fst (forward sg2) else sg2
  | [] => sg2
  end.

Lemma calc_segmentation_post o h caret sg :
  calc_segmentation cfg o h caret sg =
  (post_calc (fst (calc_loop cfg o h (S (length (sg_input sg))) caret sg)), snd (calc_loop cfg o h (S (length (sg_input sg))) caret sg)).
Proof. unfold calc_segmentation, post_calc. destruct (calc_loop cfg o h (S (length (sg_input sg))) caret sg). reflexivity. Qed.

Lemma post_calc_lfit b inp sg1 : lfit b inp (sg_segs sg1) -> lfit b inp (sg_segs (post_calc sg1)).
Proof.
  intros H1. unfold post_calc.
  set (sg2 := match sg_segs sg1 with
              | g :: _ => if has_tag TPlaceholder (s_tags g) then sg1 else fst (trim sg1)
              | [] => sg1
              end).
  assert (H2 : lfit b inp (sg_segs sg2)).
  { subst sg2. destruct (sg_segs sg1) as [|g r] eqn:E; [rewrite E; exact H1|].
    destruct (has_tag TPlaceholder (s_tags g)); [rewrite E; exact H1|]. apply trim_lfit. rewrite E; exact H1. }
  destruct (sg_segs sg2) as [|g r] eqn:E2; [rewrite E2; exact H2|].
  destruct (status_geb (s_status g) SSelected); [apply forward_lfit|]; rewrite E2; exact H2.
Qed.

Lemma post_calc_last sg1 : last_ok (sg_segs (post_calc sg1)).
Proof.
  unfold post_calc.
  set (sg2 := match sg_segs sg1 with
              | g :: _ => if has_tag TPlaceholder (s_tags g) then sg1 else fst (trim sg1)
              | [] => sg1
              end).
  destruct (sg_segs sg2) as [|g r] eqn:E2; [rewrite E2; exact I|].
  destruct (status_geb (s_status g) SSelected) eqn:Ec.
  - unfold forward. rewrite E2. destruct (s_start g =? s_end g) eqn:Ee; cbn [fst].
    + rewrite E2. cbn. intros _. apply Nat.eqb_eq, Ee.
    + cbn. discriminate.
  - rewrite E2. unfold last_ok, closed. rewrite Ec. discriminate.
Qed.

Lemma calc_segmentation_lfit b o h caret sg :
  sgeo sg -> lfit b (sg_input sg) (sg_segs sg) ->
  lfit b (sg_input sg) (sg_segs (fst (calc_segmentation cfg o h caret sg))) /\
  last_ok (sg_segs (fst (calc_segmentation cfg o h caret sg))).
Proof.
  intros H L. rewrite calc_segmentation_post. cbn [fst]. split; [|apply post_calc_last].
  apply post_calc_lfit, calc_loop_lfit; assumption.
Qed.

(** ---- TranslateSegments turns the weak form into the strong one ---- *)
Lemma translate_one_sfit o inp g :
  seg_geo (length inp) g -> sfit false inp g -> sfit true inp (fst (translate_one translate o inp g)).
Proof.
  intros (A & B) (Ht & Hm). unfold translate_one. destruct (status_geb (s_status g) SGuess) eqn:Es; cbn [fst].
  - split; [exact Ht|]. intros m Em. specialize (Hm m Em). unfold menu_ok in *. destruct (s_status g); try exact Hm. discriminate.
  - unfold substr_se. replace (length inp <? s_start g) with false by (symmetry; apply Nat.ltb_ge; lia).
    replace (s_start g <=? s_end g) with true by (symmetry; apply Nat.leb_le; lia). cbn [fst].
    split; [exact Ht|]. intros m Em. cbn in Em. injection Em as <-. unfold menu_ok. cbn [s_status s_end].
    intros c Hc. apply Hfit in Hc. cbn in Hc. rewrite firstn_length, skipn_length in Hc. lia.
Qed.

Lemma translate_list_lfit o inp l :
  Forall (seg_geo (length inp)) l -> lfit false inp l -> lfit true inp (fst (translate_list translate o inp l)).
Proof.
  induction l as [|g r IH]; intros Hg H; [constructor|]. inversion Hg; subst. inversion H; subst. cbn [translate_list].
  pose proof (translate_one_sfit o inp g H2 H4) as H1. destruct (translate_one translate o inp g) as [g' ok1].
  specialize (IH H3 H5). destruct (translate_list translate o inp r) as [r' ok2]. cbn [fst] in *. constructor; assumption.
Qed.

Lemma translate_list_last o inp l : last_ok l -> last_ok (fst (translate_list translate o inp l)).
Proof.
  destruct l as [|g r]; [intros _; exact I|]. cbn [translate_list]. intros H.
  destruct (translate_one translate o inp g) as [g' ok1] eqn:E1. destruct (translate_list translate o inp r) as [r' ok2].
  cbn [fst last_ok]. unfold translate_one in E1. destruct (status_geb (s_status g) SGuess).
  - injection E1 as <- _. exact H.
  - destruct (substr_se inp (s_start g) (s_end g)). injection E1 as <- _. cbn. discriminate.
Qed.

(** ---- Compose re-establishes the strong form from the weak one ---- *)
Lemma cpre_geo c : cpreT c -> sgeo (cx_comp c) /\ cx_caret c <= length (cx_input c).
Proof. intros (Hc & _ & _ & _ & _ & Hg). split; [apply Hg, I | exact Hc]. Qed.

Definition compose_sg1 (c : context) : segmentation :=
  let sg0 := reset_input (cx_comp c) (firstn (cx_caret c) (cx_input c)) in
  if (cx_caret c <? length (cx_input c)) && (cx_caret c =? confirmed_pos sg0)
  then reset_input sg0 (cx_input c) else sg0.

Lemma firstn_firstn_len {A} k (a : list A) : firstn (length (firstn k a)) a = firstn k a.
Proof.
  rewrite firstn_length. destruct (Nat.le_ge_cases k (length a)) as [H | H].
  - rewrite Nat.min_l by lia. reflexivity.
  - rewrite Nat.min_r by lia. rewrite firstn_all. symmetry. apply firstn_all2. lia.
Qed.

Lemma compose_sg1_facts c :
  sgeo (cx_comp c) -> sgeo (compose_sg1 c) /\ sg_input (compose_sg1 c) = firstn (length (sg_input (compose_sg1 c))) (cx_input c).
Proof.
  intros Hgeo. unfold compose_sg1.
  set (sg0 := reset_input (cx_comp c) (firstn (cx_caret c) (cx_input c))).
  assert (G0 : sgeo sg0) by (apply g_reset, Hgeo).
  destruct (_ && _).
  - split; [apply g_reset, G0|]. rewrite reset_input_input. symmetry. apply firstn_all.
  - split; [exact G0|]. subst sg0. rewrite reset_input_input. symmetry. apply firstn_firstn_len.
Qed.

Lemma compose_fit_core c :
  cx_err c = None -> sgeo (cx_comp c) ->
  lfit false (sg_input (compose_sg1 c))
       (sg_segs (fst (calc_loop cfg (cx_opts c) (cx_hist c) (S (length (sg_input (compose_sg1 c)))) (cx_caret c) (compose_sg1 c)))) ->
  fit (compose cfg translate c).
Proof.
  intros He Hgeo L. unfold compose.
  assert (Hhook : forall x, fit x -> fit (ac_on_update x))
    by (intros x Hx; unfold ac_on_update; destruct (cx_conn x && negb (is_composing x)); exact Hx).
  apply Hhook. clear Hhook.
  destruct (compose_sg1_facts c Hgeo) as (G1 & P1).
  unfold compose_core. fold (compose_sg1 c). set (sg1 := compose_sg1 c) in *.
  destruct (g_calc (cx_opts c) (cx_hist c) (cx_caret c) sg1 G1) as (G2 & O2).
  pose proof (calc_segmentation_input cfg (cx_opts c) (cx_hist c) (cx_caret c) sg1) as I2.
  assert (L2 : lfit false (sg_input sg1) (sg_segs (fst (calc_segmentation cfg (cx_opts c) (cx_hist c) (cx_caret c) sg1)))).
  { rewrite calc_segmentation_post. cbn [fst]. apply post_calc_lfit, L. }
  assert (K2 : last_ok (sg_segs (fst (calc_segmentation cfg (cx_opts c) (cx_hist c) (cx_caret c) sg1)))).
  { rewrite calc_segmentation_post. cbn [fst]. apply post_calc_last. }
  destruct (calc_segmentation cfg (cx_opts c) (cx_hist c) (cx_caret c) sg1) as [sg2 okf]. cbn [fst snd] in *. subst okf.
  destruct (g_translate (cx_opts c) sg2 G2) as (G3 & O3).
  unfold translate_segs in *.
  pose proof (translate_list_lfit (cx_opts c) (sg_input sg2) (sg_segs sg2) (proj2 G2)) as L3.
  pose proof (translate_list_last (cx_opts c) (sg_input sg2) (sg_segs sg2) K2) as K3.
  destruct (translate_list translate (cx_opts c) (sg_input sg2) (sg_segs sg2)) as [l oks]. cbn [fst snd] in *. subst oks.
  cbn [ctx_check]. split; [exact He|]. cbn [ctx_with_comp cx_comp sg_with_segs sg_input sg_segs].
  split; [apply L3; rewrite I2; exact L2|]. split; [exact K3|].
  unfold prefix_ok. cbn. rewrite I2. exact P1.
Qed.

Lemma compose_fit_gen c : sgeo (cx_comp c) -> wfit c -> fit (compose cfg translate c).
Proof.
  intros Hgeo (He & L). apply compose_fit_core; [exact He | exact Hgeo|].
  destruct (compose_sg1_facts c Hgeo) as (G1 & _). apply calc_loop_lfit; [exact G1|].
  unfold compose_sg1.
  set (sg0 := reset_input (cx_comp c) (firstn (cx_caret c) (cx_input c))).
  assert (G0 : sgeo sg0) by (apply g_reset, Hgeo).
  assert (L0 : lfit false (sg_input sg0) (sg_segs sg0)).
  { subst sg0. rewrite reset_input_input. apply reset_input_lfit; assumption. }
  destruct (_ && _); [|exact L0]. rewrite reset_input_input. apply reset_input_lfit; assumption.
Qed.

Lemma compose_fit c : cpreT c -> wfit c -> fit (compose cfg translate c).
Proof. intros H W. destruct (cpre_geo c H) as (G & Hc). apply compose_fit_gen; assumption. Qed.

Lemma wfit_with_input c i k : wfit c -> wfit (ctx_with_input c i k).
Proof. intros H; exact H. Qed.

(** ---- the invariant pair ---- *)
Definition good (c : context) : Prop := cinvT c /\ fit c.
Definition sgood (s : state) : Prop := good (st_ctx s).

Lemma good_geo c : cinvT c -> sgeo (cx_comp c) /\ cx_caret c <= length (sg_input (cx_comp c)).
Proof. intros H. apply (cinv_geo cfg MPf IPt True c H I). Qed.

Lemma compose_input_fit c i k : cinvT c -> fit c -> fit (compose cfg translate (ctx_with_input c i k)).
Proof. intros H F. apply compose_fit_gen; [apply (good_geo c H) | apply fit_wfit in F; exact F]. Qed.

Lemma compose_good c : cinvT c -> wfit c -> good (compose cfg translate c).
Proof.
  intros H W. split; [wf compose_inv; apply H|]. apply compose_fit_gen; [apply (good_geo c H) | exact W].
Qed.

Lemma push_input_good c ch : good c -> good (push_input cfg translate c ch).
Proof.
  intros (H & F). split; [wf push_input_inv|]. unfold push_input.
  destruct (length (cx_input c) <=? cx_caret c); apply compose_input_fit; assumption.
Qed.
Lemma pop_input_good c n : good c -> good (fst (pop_input cfg translate c n)).
Proof.
  intros (H & F). split; [wf pop_input_inv|]. unfold pop_input.
  destruct (cx_caret c <? n); [exact F|]. cbn [fst]. apply compose_input_fit; assumption.
Qed.
Lemma delete_input_good c n : good c -> good (fst (delete_input cfg translate c n)).
Proof.
  intros (H & F). split; [wf delete_input_inv|]. unfold delete_input.
  destruct (length (cx_input c) <? cx_caret c + n); [exact F|]. cbn [fst]. apply compose_input_fit; assumption.
Qed.
Lemma set_caret_pos_good c pos : good c -> good (set_caret_pos cfg translate c pos).
Proof. intros (H & F). split; [wf set_caret_pos_inv|]. unfold set_caret_pos. apply compose_input_fit; assumption. Qed.
Lemma set_input_good c v : good c -> good (set_input cfg translate c v).
Proof. intros (H & F). split; [wf set_input_inv|]. unfold set_input. apply compose_input_fit; assumption. Qed.

Lemma clear_fit c : cx_err c = None -> fit (clear cfg translate c).
Proof.
  intros He. unfold clear. apply compose_fit_gen; [split; constructor|]. split; [exact He | constructor].
Qed.
Lemma clear_good c : good c -> good (clear cfg translate c).
Proof. intros (H & F). split; [wf clear_inv | apply clear_fit, F]. Qed.

Lemma clear_previous_segment_good c : good c -> good (fst (clear_previous_segment cfg translate c)).
Proof.
  intros G. unfold clear_previous_segment. destruct (sg_segs (cx_comp c)) as [|g r]; [exact G|].
  destruct (length (cx_input c) <=? s_start g); [exact G|]. cbn [fst]. apply set_input_good, G.
Qed.

(** ---- replacing the last segment ---- *)
Lemma set_back_lfit b inp sg g : lfit b inp (sg_segs sg) -> sfit b inp g -> lfit b inp (sg_segs (sg_set_back sg g)).
Proof.
  intros H Hg. unfold sg_set_back. destruct (sg_segs sg) as [|g0 r] eqn:E; [rewrite E; exact H|].
  cbn. inversion H; constructor; assumption.
Qed.

Lemma set_back_sgeo sg g g0 r :
  sgeo sg -> sg_segs sg = g0 :: r -> s_start g = s_start g0 -> seg_geo (length (sg_input sg)) g -> sgeo (sg_set_back sg g).
Proof. intros H E Hs Hg. unfold sg_set_back. rewrite E. apply (set_back_geo sg g g0 r H E Hs Hg). Qed.

Lemma back_seg_geo sg g0 r : sgeo sg -> sg_segs sg = g0 :: r -> seg_geo (length (sg_input sg)) g0.
Proof. intros (_ & Hf) E. rewrite E in Hf. inversion Hf; assumption. Qed.

Lemma fit_set_back c g0 r g :
  fit c -> sg_segs (cx_comp c) = g0 :: r -> sfit true (sg_input (cx_comp c)) g ->
  (closed g = true -> s_start g = s_end g) ->
  fit (ctx_with_comp c (sg_set_back (cx_comp c) g)).
Proof.
  intros (He & L & K & P) E Hg Hc. split; [exact He|]. cbn [ctx_with_comp cx_comp]. rewrite set_back_input.
  split; [apply set_back_lfit; assumption|]. split.
  - unfold sg_set_back. rewrite E. cbn. exact Hc.
  - unfold prefix_ok. cbn. rewrite set_back_input. exact P.
Qed.

Lemma closed_status g : closed g = true -> s_status g = SSelected \/ s_status g = SConfirmed.
Proof. unfold closed. destruct (s_status g); cbn; intros H; try discriminate; auto. Qed.

(** writing any index into an open segment, or into a closed empty one *)
Lemma sel_sfit inp g i :
  sfit true inp g -> (closed g = true -> s_start g = s_end g) -> sfit true inp (seg_with_sel g i).
Proof.
  intros (Ht & Hm) Hc. split; [exact Ht|]. intros m Em. cbn [s_menu seg_with_sel] in Em. specialize (Hm m Em).
  unfold menu_ok in *. cbn [s_status seg_with_sel s_end s_start]. unfold oend in *. cbn [s_end s_start s_length seg_with_sel].
  destruct (s_status g) eqn:Es; try exact Hm.
  - destruct Hm as (_ & H2 & H3). assert (Hem : m = []) by (apply H3, Hc; unfold closed; rewrite Es; reflexivity).
    split; [|split; assumption]. intros c Hsel. unfold selected_cand, cand_at in Hsel. cbn in Hsel. rewrite Em, Hem in Hsel.
    unfold menu_at in Hsel. cbn in Hsel. destruct (0 <=? i)%N; [discriminate|]. destruct (N.to_nat i); discriminate.
  - destruct Hm as (_ & H2 & H3). assert (Hem : m = []) by (apply H3, Hc; unfold closed; rewrite Es; reflexivity).
    split; [|split; assumption]. intros c Hsel. unfold selected_cand, cand_at in Hsel. cbn in Hsel. rewrite Em, Hem in Hsel.
    unfold menu_at in Hsel. cbn in Hsel. destruct (0 <=? i)%N; [discriminate|]. destruct (N.to_nat i); discriminate.
Qed.

Lemma back_of_fit c g r :
  fit c -> sg_segs (cx_comp c) = g :: r ->
  sfit true (sg_input (cx_comp c)) g /\ (closed g = true -> s_start g = s_end g).
Proof. intros (_ & L & K & _) E. rewrite E in L, K. inversion L; subst. split; assumption. Qed.

(** [f] changes only the index and non-raw tags of the last segment *)
Lemma with_back_fit c f :
  fit c ->
  (forall g, sfit true (sg_input (cx_comp c)) g -> (closed g = true -> s_start g = s_end g) ->
             sfit true (sg_input (cx_comp c)) (f g) /\ closed (f g) = closed g /\ s_start (f g) = s_start g /\ s_end (f g) = s_end g) ->
  fit (with_back c f).
Proof.
  intros F Hf. unfold with_back. destruct (sg_segs (cx_comp c)) as [|g r] eqn:E; [exact F|].
  destruct (back_of_fit c g r F E) as (Hg & Hc). destruct (Hf g Hg Hc) as (A & B & C & D).
  apply (fit_set_back c g r); auto. rewrite B, C, D. exact Hc.
Qed.

Lemma set_sel_paging_fit c z : fit c -> fit (set_sel_paging c z).
Proof.
  intros F. apply with_back_fit; [exact F|]. intros g Hg Hc. split; [|repeat split; reflexivity].
  apply (sfit_tags_insert true _ (seg_with_sel g (size_of_int z)) TPaging); [discriminate|]. apply sel_sfit; assumption.
Qed.

(** ---- Selector ---- *)
Lemma sel_previous_page_good c : good c -> good (fst (sel_previous_page cfg c)).
Proof.
  intros (H & F). split; [wf sel_previous_page_inv|]. unfold sel_previous_page.
  destruct (sg_segs (cx_comp c)) as [|s0 r0]; [exact F|]. cbn [fst]. apply set_sel_paging_fit, F.
Qed.
Lemma sel_next_page_good c : good c -> good (fst (sel_next_page cfg c)).
Proof.
  intros (H & F). split; [wf sel_next_page_inv|]. unfold sel_next_page.
  destruct (sg_segs (cx_comp c)) as [|s0 r0]; [exact F|]. destruct (s_menu s0); [|exact F].
  match goal with |- fit (fst (if ?a then (if ?b then _ else _) else if ?d then _ else _)) =>
    destruct a; [destruct b|destruct d] end; cbn [fst]; try exact F; apply set_sel_paging_fit, F.
Qed.
Lemma sel_previous_candidate_good c : good c -> good (fst (sel_previous_candidate c)).
Proof.
  intros (H & F). split; [wf sel_previous_candidate_inv|]. unfold sel_previous_candidate.
  destruct (is_linear_layout c && negb (caret_at_end_of_input c)); [exact F|].
  destruct (sg_segs (cx_comp c)) as [|s0 r0]; [exact F|]. destruct (int_of_size (s_sel s0) <=? 0)%Z; [exact F|]. cbn [fst].
  apply set_sel_paging_fit, F.
Qed.
Lemma sel_next_candidate_good c : good c -> good (fst (sel_next_candidate c)).
Proof.
  intros (H & F). split; [wf sel_next_candidate_inv|]. unfold sel_next_candidate.
  destruct (is_linear_layout c && negb (caret_at_end_of_input c)); [exact F|].
  destruct (sg_segs (cx_comp c)) as [|s0 r0]; [exact F|]. destruct (s_menu s0); [|exact F].
  match goal with |- fit (fst (if ?a then _ else _)) => destruct a end; [exact F|]. cbn [fst]. apply set_sel_paging_fit, F.
Qed.
Lemma sel_home_good c : good c -> good (fst (sel_home c)).
Proof.
  intros (H & F). split; [wf sel_home_inv|]. unfold sel_home.
  destruct (sg_segs (cx_comp c)) as [|s0 r0]; [exact F|]. destruct (0 <? s_sel s0)%N; [|exact F]. cbn [fst].
  apply with_back_fit; [exact F|]. intros g Hg Hc. split; [apply sel_sfit; assumption | repeat split; reflexivity].
Qed.
Lemma sel_end_good c : good c -> good (fst (sel_end c)).
Proof. intros G. unfold sel_end. destruct (cx_caret c <? length (cx_input c)); [exact G | apply sel_home_good, G]. Qed.

(** ---- Context::Highlight, DeleteCandidate ---- *)
Lemma set_back_same_sgeo c g0 r g :
  cinvT c -> sg_segs (cx_comp c) = g0 :: r -> s_start g = s_start g0 -> s_end g = s_end g0 ->
  sgeo (sg_set_back (cx_comp c) g).
Proof.
  intros H E E1 E2. destruct (good_geo c H) as (Hgeo & _). apply (set_back_sgeo _ g g0 r Hgeo E E1).
  destruct (back_seg_geo _ g0 r Hgeo E) as (A & B). split; lia.
Qed.

Lemma highlight_good c i : good c -> good (fst (highlight cfg translate c i)).
Proof.
  intros (H & F). split; [wf highlight_inv|]. unfold highlight.
  destruct (sg_segs (cx_comp c)) as [|g r] eqn:E; [exact F|]. destruct (s_menu g); [|exact F].
  match goal with |- fit (fst (if ?a then _ else _)) => destruct a end; [exact F|]. cbn [fst].
  destruct (back_of_fit c g r F E) as (Hg & Hc).
  apply compose_fit_gen; [apply (set_back_same_sgeo c g r _ H E); reflexivity|].
  apply fit_wfit. apply (fit_set_back c g r); auto. apply sel_sfit; assumption.
Qed.

Lemma delete_candidate_good s i : sgood s -> sgood (fst (delete_candidate cfg s i)).
Proof.
  intros (H & F). split; [wf delete_candidate_inv|]. unfold delete_candidate.
  destruct (sg_segs (cx_comp (st_ctx s))) as [|g r] eqn:E; [exact F|]. rewrite Hdel.
  destruct (cand_at g i); [|exact F]. cbn [fst st_ctx st_with_ctx].
  destruct (back_of_fit _ g r F E) as (Hg & Hc). apply (fit_set_back _ g r); auto. apply sel_sfit; assumption.
Qed.
Lemma delete_current_selection_good s : sgood s -> sgood (fst (delete_current_selection cfg s)).
Proof.
  intros G. unfold delete_current_selection. destruct (sg_segs (cx_comp (st_ctx s))); [exact G|].
  apply delete_candidate_good, G.
Qed.

(** ---- Context::BeginEditing ---- *)
Lemma begin_editing_rev_lfit inp l : lfit true inp l -> lfit true inp (begin_editing_rev l).
Proof.
  induction l as [|g r IH]; intros H; [exact H|]. inversion H; subst. cbn [begin_editing_rev].
  destruct (s_status g); try exact H; constructor; auto; try (apply IH; assumption).
  apply sfit_tags_insert; [discriminate | assumption].
Qed.
Lemma begin_editing_rev_last l : last_ok l -> last_ok (begin_editing_rev l).
Proof.
  destruct l as [|g r]; [auto|]. cbn [begin_editing_rev]. destruct (s_status g) eqn:Es; cbn; unfold closed; cbn; rewrite ?Es; auto.
Qed.
Lemma begin_editing_good c : good c -> good (begin_editing c).
Proof.
  intros (H & He & L & K & P). split; [wf begin_editing_inv|]. split; [exact He|]. cbn.
  split; [apply begin_editing_rev_lfit, L|]. split; [apply begin_editing_rev_last, K | exact P].
Qed.

(** ---- Segment::Reopen ---- *)
Lemma seg_reopen_sfit inp g k : sfit true inp g -> sfit false inp (fst (seg_reopen g k)).
Proof.
  intros Hs. pose proof Hs as ((R & N) & Hm). unfold seg_reopen.
  destruct (status_geb (s_status g) SSelected) eqn:Ec; cbn [negb]; [|apply sfit_weaken, Hs].
  assert (Hcl : forall m, s_menu g = Some m -> forall c, In c m -> c_end c <= oend g).
  { intros m Em. specialize (Hm m Em). unfold menu_ok in Hm. destruct (s_status g); cbn in Ec; try discriminate Ec; apply Hm. }
  destruct (s_start g + s_length g =? k); cbn [fst].
  - destruct (s_end g <? s_start g + s_length g) eqn:E2; [apply Nat.ltb_lt in E2 | apply Nat.ltb_ge in E2].
    + split.
      * split; unfold is_raw; cbn [s_tags s_start s_end s_length seg_with_status seg_with_tags seg_with_end]; rewrite has_tag_erase_raw.
        -- intros Hr. destruct (R Hr) as (A & B & _). lia.
        -- intros _. lia.
      * intros m Em. cbn in Em. unfold menu_ok. cbn [s_status seg_with_status s_end seg_with_tags seg_with_end].
        intros c Hc. specialize (Hcl m Em c Hc). unfold oend in Hcl. lia.
    + split; [split; assumption|]. intros m Em. cbn in Em. unfold menu_ok. cbn [s_status seg_with_status s_end].
      intros c Hc. specialize (Hcl m Em c Hc). unfold oend in Hcl. lia.
  - split; [split; assumption|]. intros m Em. unfold menu_ok. cbn. reflexivity.
Qed.

Lemma g_seg_reopen n g k :
  seg_geo n g -> k <= n -> s_start (fst (seg_reopen g k)) = s_start g /\ seg_geo n (fst (seg_reopen g k)).
Proof. intros Hg Hk. wf seg_reopen_geo. Qed.

Lemma reopen_previous_segment_good c : good c -> good (fst (reopen_previous_segment cfg translate c)).
Proof.
  intros (H & F). split; [wf reopen_previous_segment_inv|]. unfold reopen_previous_segment.
  destruct (good_geo c H) as (Hgeo & Hcar). destruct F as (He & L & K & P).
  pose proof (trim_lfit true _ (cx_comp c) L) as Lt. pose proof (trim_geo (cx_comp c) Hgeo) as Gt.
  pose proof (trim_input (cx_comp c)) as Ei.
  destruct (trim (cx_comp c)) as [sg trimmed]. cbn [fst] in *. destruct trimmed; [|split; [|split; [|split]]; assumption]. cbn [fst].
  rewrite <- Ei in Lt, Hcar.
  apply compose_fit_gen; cbn [ctx_with_comp cx_comp].
  - destruct (sg_segs sg) as [|g r] eqn:E; [exact Gt|]. destruct (status_geb (s_status g) SSelected); [|exact Gt].
    destruct (g_seg_reopen _ g (cx_caret c) (back_seg_geo sg g r Gt E) Hcar) as (R1 & R2).
    apply (set_back_sgeo sg _ g r Gt E R1 R2).
  - split; [exact He|]. cbn [ctx_with_comp cx_comp].
    destruct (sg_segs sg) as [|g r] eqn:E; cbv beta iota; [rewrite E; constructor|].
    destruct (status_geb (s_status g) SSelected); cbv beta iota.
    + rewrite set_back_input. apply set_back_lfit; [rewrite E; apply lfit_weaken; exact Lt|].
      apply seg_reopen_sfit. inversion Lt; assumption.
    + rewrite E. apply lfit_weaken. exact Lt.
Qed.

Lemma reopen_sel_rev_lfit inp l k l' : lfit true inp l -> reopen_sel_rev l k = Some l' -> lfit false inp l'.
Proof.
  revert l'. induction l as [|g r IH]; intros l' H E; [discriminate|]. inversion H; subst. cbn [reopen_sel_rev] in E.
  destruct (s_status g); try discriminate; try (apply IH; assumption).
  destruct (has_tag TSelectedBeforeEditing (s_tags g)); [discriminate|]. injection E as <-.
  constructor; [apply seg_reopen_sfit; assumption | apply lfit_weaken; assumption].
Qed.
Lemma g_reopen_sel_rev n l k l' :
  chain_rev l -> Forall (seg_geo n) l -> k <= n -> reopen_sel_rev l k = Some l' -> chain_rev l' /\ Forall (seg_geo n) l'.
Proof. intros A B C D. wf reopen_sel_rev_geo. Qed.

Lemma reopen_previous_selection_good c : good c -> good (fst (reopen_previous_selection cfg translate c)).
Proof.
  intros (H & F). split; [wf reopen_previous_selection_inv|]. unfold reopen_previous_selection.
  destruct (reopen_sel_rev (sg_segs (cx_comp c)) (cx_caret c)) as [l|] eqn:E; [|exact F]. cbn [fst].
  destruct (good_geo c H) as ((Hc0 & Hf0) & Hcar). destruct F as (He & L & K & P).
  destruct (g_reopen_sel_rev _ _ _ _ Hc0 Hf0 Hcar E) as (R1 & R2).
  apply compose_fit_gen; [split; assumption|]. split; [exact He|]. cbn. apply (reopen_sel_rev_lfit _ _ _ _ L E).
Qed.

(** ---- ClearNonConfirmedComposition / RefreshNonConfirmedComposition / set_option ---- *)
Lemma forward_last sg : last_ok (sg_segs (fst (forward sg))).
Proof.
  unfold forward. destruct (sg_segs sg) as [|g r] eqn:E; cbn [fst]; [rewrite E; exact I|].
  destruct (s_start g =? s_end g) eqn:Ee; cbn [fst]; [rewrite E; cbn; intros _; apply Nat.eqb_eq, Ee | cbn; discriminate].
Qed.

Lemma drop_unselected_lfit b inp l : lfit b inp l -> lfit b inp (fst (drop_unselected l)).
Proof.
  induction l as [|g r IH]; intros H; [exact H|]. cbn [drop_unselected].
  destruct (status_geb (s_status g) SSelected); [exact H|]. cbn [fst]. apply IH. inversion H; assumption.
Qed.

Lemma clear_non_confirmed_good c : good c -> good (fst (clear_non_confirmed c)).
Proof.
  intros (H & F). split; [wf clear_non_confirmed_inv|]. unfold clear_non_confirmed.
  destruct F as (He & L & K & P). pose proof (drop_unselected_lfit true _ _ L) as Ld.
  destruct (drop_unselected (sg_segs (cx_comp c))) as [l reverted]. cbn [fst] in Ld.
  destruct reverted; [|split; [|split; [|split]]; assumption]. cbn [fst].
  split; [exact He|]. cbn [ctx_with_comp cx_comp]. rewrite (forward_input (sg_with_segs (cx_comp c) l)).
  split; [apply (forward_lfit true _ (sg_with_segs (cx_comp c) l)); exact Ld|]. split; [apply forward_last|].
  unfold prefix_ok. cbn [ctx_with_comp cx_comp cx_input]. rewrite (forward_input (sg_with_segs (cx_comp c) l)). exact P.
Qed.

Lemma refresh_non_confirmed_good c : good c -> good (fst (refresh_non_confirmed cfg translate c)).
Proof.
  intros G. unfold refresh_non_confirmed. pose proof (clear_non_confirmed_good c G) as (H1 & F1).
  destruct (clear_non_confirmed c) as [c1 reverted]. cbn [fst] in *.
  destruct reverted; [|exact G]. cbn [fst]. apply compose_good; [exact H1 | apply fit_wfit, F1].
Qed.

Lemma set_option_good c n v : good c -> good (set_option cfg translate c n v).
Proof.
  intros G. unfold set_option. destruct (is_composing _); [|exact G].
  apply (refresh_non_confirmed_good (ctx_with_opts c (opts_set (cx_opts c) n v))). exact G.
Qed.

(** ---- the read-only views never reach substr with pos > size ---- *)
Lemma substr_se_ok s pos en : pos <= length s -> snd (substr_se s pos en) = true.
Proof.
  intros H. unfold substr_se. replace (length s <? pos) with false by (symmetry; apply Nat.ltb_ge; lia).
  destruct (pos <=? en); reflexivity.
Qed.

Lemma commit_text_loop_ok inp l acc :
  Forall (seg_geo (length inp)) l -> snd acc = true -> snd (commit_text_loop inp l acc) = true.
Proof.
  revert acc. induction l as [|g r IH]; intros [[res en] ok] Hf Hok; [exact Hok|]. cbn [snd] in Hok. subst ok.
  inversion Hf as [|? ? (A & B) Hr]; subst. cbn [commit_text_loop]. apply IH; [exact Hr|].
  destruct (selected_cand g); [reflexivity|]. destruct (has_tag TPhony (s_tags g)); [reflexivity|].
  pose proof (substr_se_ok inp (s_start g) (s_end g) ltac:(lia)) as Hs. destruct (substr_se inp (s_start g) (s_end g)). cbn in *. exact Hs.
Qed.

Lemma comp_commit_text_ok sg : sgeo sg -> snd (comp_commit_text sg) = true.
Proof.
  intros (_ & Hf). unfold comp_commit_text, segs_fwd.
  pose proof (commit_text_loop_ok (sg_input sg) (rev (sg_segs sg)) ([], 0, true)) as H.
  destruct (commit_text_loop (sg_input sg) (rev (sg_segs sg)) ([], 0, true)) as [[res en] ok]. cbn [snd] in *.
  apply H; [|reflexivity]. apply Forall_rev, Hf.
Qed.

Lemma ctx_commit_text_ok c : cinvT c -> snd (ctx_commit_text c) = true.
Proof.
  intros H. unfold ctx_commit_text. destruct (get_option c opt_dumb); [reflexivity|].
  apply comp_commit_text_ok, (good_geo c H).
Qed.

(** the commit history's record: inside the input (geometry), [last] never dangles (source fact) *)
Lemma hist_step_ok g0 input a g :
  seg_geo (length input) g -> ha_ok a = true -> ha_ok (hist_step g0 input a g) = true.
Proof.
  intros (A & B) Ha. unfold hist_step. destruct (selected_cand g) as [cd|].
  - destruct (match ha_last a with Some (t, _) => bytes_eqb t (c_type cd) | None => false end); cbn [ha_ok hacc_push]; exact Ha.
  - pose proof (substr_se_ok input (s_start g) (s_end g) ltac:(lia)) as Hs.
    destruct (substr_se input (s_start g) (s_end g)) as [t ok]. cbn [snd] in Hs. subst ok. cbn [ha_ok]. rewrite Ha. reflexivity.
Qed.
Lemma hist_fold_ok g0 input l : forall a, Forall (seg_geo (length input)) l -> ha_ok a = true ->
  ha_ok (fold_left (hist_step g0 input) l a) = true.
Proof.
  induction l as [|g r IH]; intros a Hf Ha; [exact Ha|]. inversion Hf; subst. cbn [fold_left].
  apply IH; [assumption | apply hist_step_ok; assumption].
Qed.
Lemma hist_push_comp_ok c : cinvT c ->
  snd (fst (hist_push_comp (cf_hist_guard cfg) (cx_hist c) (cx_comp c) (cx_input c))) = true /\
  snd (hist_push_comp (cf_hist_guard cfg) (cx_hist c) (cx_comp c) (cx_input c)) = true.
Proof.
  intros H. split.
  - destruct (good_geo c H) as ((_ & Hf) & _). assert (Hlen2 : length (sg_input (cx_comp c)) <= length (cx_input c)) by apply H.
    unfold hist_push_comp.
    pose proof (hist_fold_ok (cf_hist_guard cfg) (cx_input c) (segs_fwd (cx_comp c)) (mkHacc (cx_hist c) None 0 true true)) as X.
    set (a := fold_left _ _ _) in *. assert (Ha : ha_ok a = true).
    { apply X; [|reflexivity]. unfold segs_fwd. apply Forall_rev. eapply Forall_impl; [|exact Hf]. intros g0 (A & B). split; lia. }
    destruct (ha_end a <? length (cx_input c)); cbn [fst snd hacc_push ha_ok]; exact Ha.
  - rewrite Hhg. wf hist_push_comp_live.
Qed.

Lemma commit_tail s : sinvT s -> cx_err (st_ctx s) = None ->
  fit (st_ctx (fst (let '(h, okh, live) := hist_push_comp (cf_hist_guard cfg) (cx_hist (st_ctx s)) (cx_comp (st_ctx s)) (cx_input (st_ctx s)) in
        let c := ctx_check (ctx_check (ctx_with_hist (st_ctx s) h) okh ErrSubstr) live ErrDangling in
        let (text, ok) := ctx_commit_text c in
        let s1 := sink (st_with_ctx s (ctx_check c ok ErrSubstr)) (format_text c text) in
        (st_with_ctx s1 (clear cfg translate (st_ctx s1)), true)))).
Proof.
  intros H He. destruct (hist_push_comp_ok (st_ctx s) H) as (O1 & O2).
  destruct (hist_push_comp (cf_hist_guard cfg) (cx_hist (st_ctx s)) (cx_comp (st_ctx s)) (cx_input (st_ctx s))) as [[h okh] live].
  cbn [fst snd] in O1, O2. subst okh live. cbn [ctx_check].
  pose proof (ctx_commit_text_ok (ctx_with_hist (st_ctx s) h) H) as Hok.
  destruct (ctx_commit_text (ctx_with_hist (st_ctx s) h)) as [text ok]. cbn [snd] in Hok. subst ok.
  cbn [fst st_ctx st_with_ctx sink ctx_check]. apply clear_fit. exact He.
Qed.

Lemma commit_good s : sgood s -> sgood (fst (commit cfg translate s)).
Proof.
  intros (H & F). split; [wf commit_inv|]. unfold commit. destruct (negb (is_composing (st_ctx s))); [exact F|].
  apply commit_tail; [exact H | apply F].
Qed.

(** commit needs only the first invariant and a clear error flag *)
Lemma commit_good_gen s :
  sinvT s -> cx_err (st_ctx s) = None -> is_composing (st_ctx s) = true -> sgood (fst (commit cfg translate s)).
Proof.
  intros H He Hc. split; [wf commit_inv|]. unfold commit. rewrite Hc. cbn [negb].
  apply commit_tail; assumption.
Qed.

(** ---- the one transient exception: a closed raw segment cut short by a partial
    candidate is swallowed again by the fallback segmentor in the first round of
    the Compose that follows ---- *)
Lemma common_prefix_firstn2 (a : bytes) n k : common_prefix (firstn n a) (firstn k a) = Nat.min (Nat.min n k) (length a).
Proof.
  revert n k. induction a as [|x a IH]; intros [|n] [|k]; cbn [firstn common_prefix length Nat.min]; try reflexivity.
  rewrite byte_eqb_refl, IH. reflexivity.
Qed.

Lemma g_chain_ends n g r : chain_rev (g :: r) -> Forall (seg_geo n) (g :: r) -> Forall (fun g' => s_end g' <= s_start g) r.
Proof. intros A B. wf chain_ends_le. Qed.

Lemma nth_firstn_same (a : bytes) n p : p < n -> nth p (firstn n a) x00 = nth p a x00.
Proof. intros H. apply nth_firstn_lt, H. Qed.

Lemma compose_absorb c gb r e :
  sg_segs (cx_comp c) = new_segment e e :: gb :: r ->
  sgeo (cx_comp c) -> prefix_ok c -> cx_err c = None ->
  lfit false (sg_input (cx_comp c)) r ->
  closed gb = true -> s_end gb = e -> is_raw gb = true -> s_length gb = 1 -> s_start gb < e ->
  (forall p, s_start gb <= p <= e -> unabc (sg_input (cx_comp c)) p) ->
  e < length (sg_input (cx_comp c)) -> e < cx_caret c -> cx_caret c <= length (cx_input c) ->
  fit (compose cfg translate c).
Proof.
  intros Es Hgeo P He Lr Hcl Hend Hraw Hlen1 Hst Hun Hen Hek Hka.
  apply compose_fit_core; [exact He | exact Hgeo|].
  destruct (compose_sg1_facts c Hgeo) as (G1 & _).
  destruct c as [a k comp opts err hs cn]. destruct comp as [inp segs]. unfold prefix_ok in P. cbn in Es, P, Hen, Hek, Hka, Hun, Lr, He. subst segs.
  remember (length inp) as n eqn:En.
  assert (Esg1 : compose_sg1 (mkCtx a k (mkSegm inp (new_segment e e :: gb :: r)) opts err hs cn)
                 = mkSegm (firstn k a) (new_segment e e :: gb :: r)).
  { unfold compose_sg1. cbn [cx_comp cx_caret cx_input].
    assert (E0 : reset_input (mkSegm inp (new_segment e e :: gb :: r)) (firstn k a) = mkSegm (firstn k a) (new_segment e e :: gb :: r)).
    { unfold reset_input. cbn [sg_input sg_segs]. rewrite P, common_prefix_firstn2.
      cbn [dispose s_end new_segment]. replace (Nat.min (Nat.min n k) (length a) <? e) with false by (symmetry; apply Nat.ltb_ge; lia).
      cbn. reflexivity. }
    rewrite E0. unfold confirmed_pos. cbn [sg_segs confirmed_pos_rev s_status new_segment].
    change (status_geb SVoid SSelected) with false. cbv beta iota.
    unfold closed in Hcl. rewrite Hcl, Hend. replace (k =? e) with false by (symmetry; apply Nat.eqb_neq; lia).
    rewrite andb_false_r. reflexivity. }
  rewrite Esg1 in *. cbn [cx_caret sg_input].
  assert (Hl1 : length (firstn k a) = k) by (rewrite firstn_length; lia).
  assert (Hun1 : forall p, s_start gb <= p <= e -> unabc (firstn k a) p).
  { intros p Hp. apply (unabc_ext inp (firstn k a) p); [lia | lia | | apply Hun, Hp].
    rewrite P. rewrite !nth_firstn_same by lia. reflexivity. }
  assert (Lr1 : lfit false (firstn k a) r).
  { destruct Hgeo as (Hc & Hf). cbn in Hc, Hf. inversion Hf as [|? ? _ Hf1]; subst.
    pose proof (g_chain_ends _ gb r (proj2 Hc) Hf1) as Hle.
    apply (lfit_ext false inp (firstn k a) r (s_start gb)); [exact Hle | lia | lia | | exact Lr].
    intros p Hp. rewrite P. rewrite !nth_firstn_same by lia. reflexivity. }
  remember (firstn k a) as inp1 eqn:Ei1.
  set (sgA := mkSegm inp1 (new_segment e e :: gb :: r)) in *.
  set (gX := seg_with_tags (seg_clear (seg_with_end gb (S e))) [TRaw]).
  set (sgX := mkSegm inp1 (gX :: r)).
  assert (Hround : fallback_proceed (abc_proceed cfg sgA) = sgX).
  { assert (Ha : abc_proceed cfg sgA = sgA).
    { unfold abc_proceed. cbn [cur_start sgA sg_segs s_start new_segment sg_input].
      pose proof (Hun1 e ltac:(lia)) as U. unfold unabc in U. rewrite U, Nat.add_0_r, Nat.ltb_irrefl. reflexivity. }
    rewrite Ha. unfold fallback_proceed, cur_len, cur_start. cbn [sgA sg_segs s_start s_end new_segment sg_input].
    rewrite Nat.sub_diag. cbn [Nat.ltb Nat.leb]. rewrite Hl1.
    replace (e =? k) with false by (symmetry; apply Nat.eqb_neq; lia).
    rewrite Nat.eqb_refl. cbn [sg_pop_back sg_with_segs sg_segs tl sg_input sgA].
    unfold is_raw in Hraw. rewrite Hraw. reflexivity. }
  assert (GX : sgeo sgX) by (rewrite <- Hround; apply g_fallback, g_abc, G1).
  assert (LX : lfit false inp1 (sg_segs sgX)).
  { cbn [sgX sg_segs]. constructor; [|exact Lr1]. apply sfit_nomenu; [|reflexivity].
    split; [intros _ | cbn; discriminate]. cbn [gX s_length s_start s_end seg_with_tags seg_clear seg_with_end].
    split; [exact Hlen1|]. split; [lia|]. intros p Hp. apply Hun1. lia. }
  cbn [calc_loop]. unfold has_finished at 1. cbn [sgA sg_input cur_end sg_segs s_end new_segment]. rewrite Hl1.
  replace (k <=? e) with false by (symmetry; apply Nat.leb_gt; lia).
  fold sgA. rewrite round_eq, Hround. cbn [cur_start sgA sg_segs s_start new_segment cur_end sgX gX s_end seg_with_tags seg_clear seg_with_end].
  replace (e =? S e) with false by (symmetry; apply Nat.eqb_neq; lia).
  replace (k <=? e) with false by (symmetry; apply Nat.leb_gt; lia).
  destruct (has_finished sgX).
  - apply (calc_loop_lfit false _ _ k k sgX GX LX).
  - change inp1 with (sg_input sgX). rewrite <- (forward_input sgX).
    apply calc_loop_lfit; [apply g_forward, GX|]. rewrite forward_input. apply forward_lfit, LX.
Qed.

(** ---- Segment::Close and ConcreteEngine::OnSelect ---- *)
Lemma seg_close_cases g :
  seg_close g = g \/
  exists c, selected_cand g = Some c /\ c_end c < s_end g /\
            seg_close g = seg_with_tags (seg_with_end g (c_end c)) (tag_insert TPartial (s_tags g)).
Proof.
  unfold seg_close. destruct (selected_cand g) as [c|]; [|left; reflexivity].
  destruct (c_end c <? s_end g) eqn:E; [|left; reflexivity]. apply Nat.ltb_lt in E. right. exists c. auto.
Qed.

Lemma selected_in g c : selected_cand g = Some c -> exists m, s_menu g = Some m /\ In c m.
Proof.
  unfold selected_cand, cand_at. destruct (s_menu g) as [m|]; [|discriminate]. unfold menu_at.
  destruct (menu_count m <=? s_sel g)%N; [discriminate|]. intros H. apply nth_error_In in H. exists m. auto.
Qed.

Lemma g_seg_close n g : seg_inv cfg MPf g -> seg_geo n g -> s_start (seg_close g) = s_start g /\ seg_geo n (seg_close g).
Proof. intros A B. wf seg_close_geo. Qed.

Lemma sfit_confirm b inp g : closed g = true -> sfit b inp g -> sfit b inp (seg_with_status g SConfirmed).
Proof.
  intros Hc (Ht & Hm). split; [exact Ht|]. intros m Em. cbn in Em. specialize (Hm m Em). unfold menu_ok in *.
  cbn [s_status seg_with_status]. destruct (closed_status g Hc) as [Es | Es]; rewrite Es in Hm; exact Hm.
Qed.

Lemma close_short_sfit inp g0 c :
  sfit true inp g0 -> closed g0 = true -> selected_cand g0 = Some c -> s_start g0 < c_end c -> c_end c < s_end g0 ->
  s_end g0 <= s_start g0 + s_length g0 ->
  sfit true inp (seg_with_tags (seg_with_end g0 (c_end c)) (tag_insert TPartial (s_tags g0))).
Proof.
  intros ((R & N) & Hm) Hc Hsel H1 H2 HL. split.
  - split; unfold is_raw; cbn [s_tags s_start s_end s_length seg_with_tags seg_with_end]; rewrite has_tag_insert; cbn [tag_eqb orb].
    + intros Hr. destruct (R Hr) as (A & B & C). split; [exact A|]. split; [exact H1|]. intros p Hp. apply C. lia.
    + intros _. lia.
  - intros m Em. cbn in Em. specialize (Hm m Em). unfold menu_ok in *. cbn [s_status seg_with_tags seg_with_end].
    assert (Hsel' : selected_cand (seg_with_tags (seg_with_end g0 (c_end c)) (tag_insert TPartial (s_tags g0))) = Some c) by exact Hsel.
    assert (X : (forall c0, selected_cand g0 = Some c0 -> c_end c0 <= s_end g0) /\
                (forall c0, In c0 m -> c_end c0 <= oend g0) /\ (s_start g0 = s_end g0 -> m = [])).
    { destruct (closed_status g0 Hc) as [Es | Es]; rewrite Es in Hm; exact Hm. }
    destruct X as (_ & X2 & _).
    assert (Y : (forall c0, selected_cand (seg_with_tags (seg_with_end g0 (c_end c)) (tag_insert TPartial (s_tags g0))) = Some c0 ->
                            c_end c0 <= c_end c) /\
                (forall c0, In c0 m -> c_end c0 <= oend (seg_with_tags (seg_with_end g0 (c_end c)) (tag_insert TPartial (s_tags g0)))) /\
                (s_start g0 = c_end c -> m = [])).
    { split; [intros c0 Hc0; rewrite Hsel' in Hc0; injection Hc0 as <-; lia|]. split; [|intros X; lia].
      intros c0 Hc0. specialize (X2 c0 Hc0). unfold oend in *. cbn [s_start s_end s_length seg_with_tags seg_with_end]. lia. }
    destruct (closed_status g0 Hc) as [Es | Es]; rewrite Es; exact Y.
Qed.

Lemma on_select_good s g0 r :
  sinvT s -> cx_err (st_ctx s) = None -> sg_segs (cx_comp (st_ctx s)) = g0 :: r ->
  lfit true (sg_input (cx_comp (st_ctx s))) (g0 :: r) -> closed g0 = true -> prefix_ok (st_ctx s) ->
  sgood (on_select cfg translate s).
Proof.
  intros H He E L Hcl P.
  split; [wf on_select_inv; rewrite E; discriminate|].
  set (c := st_ctx s) in *.
  destruct (good_geo c H) as (Hgeo & Hcar).
  assert (Hlen2 : length (sg_input (cx_comp c)) <= length (cx_input c)) by apply H.
  assert (Hcin : cx_caret c <= length (cx_input c)) by apply H.
  assert (Hsi : seg_inv cfg MPf g0) by (wf back_inv).
  pose proof (back_seg_geo _ g0 r Hgeo E) as Hg0.
  destruct (g_seg_close _ g0 Hsi Hg0) as (C1 & C2).
  inversion L as [|? ? Lg0 Lr]; subst.
  unfold on_select. fold c. rewrite E. cbn [st_ctx]. set (g := seg_close g0) in *.
  match goal with |- fit (st_ctx ?x) => assert (Hx : fit (st_ctx x)); [|exact Hx] end.
  destruct (s_end g =? length (cx_input c)) eqn:Eend.
  - (* the whole input is covered: Confirmed *)
    apply Nat.eqb_eq in Eend.
    assert (Eg : g = g0).
    { destruct (seg_close_cases g0) as [X | (cd & _ & X1 & X2)]; [exact X|]. exfalso. subst g. rewrite X2 in Eend. cbn in Eend.
      destruct Hg0 as (_ & B). lia. }
    rewrite Eg in *.
    set (c1 := ctx_with_comp c (sg_set_back (cx_comp c) (seg_with_status g0 SConfirmed))).
    assert (Hb : sfit true (sg_input (cx_comp c)) (seg_with_status g0 SConfirmed)) by (apply sfit_confirm; assumption).
    assert (H1 : cinvT c1).
    { assert (Hsi' : seg_inv cfg MPf (seg_with_status g0 SConfirmed)) by (wf seg_inv_status).
      assert (Hbg : True -> back_geo_ok c (seg_with_status g0 SConfirmed)).
      { intros _. wf back_geo_same. intros g1 r1 E1. rewrite E in E1. injection E1 as <- <-. split; reflexivity. }
      unfold c1. wf cinv_set_back. }
    destruct (get_option c1 opt_auto_commit).
    + cbn [st_ctx]. apply (commit_good_gen (st_with_ctx s c1)); [exact H1 | exact He|].
      unfold is_composing, c1, sg_empty, sg_set_back. cbn [st_ctx st_with_ctx ctx_with_comp cx_comp]. rewrite E. cbn. apply orb_true_r.
    + cbn [st_ctx st_with_ctx]. split; [exact He|]. unfold c1. cbn [ctx_with_comp cx_comp]. rewrite forward_input, set_back_input.
      split; [apply forward_lfit, set_back_lfit; [rewrite E; exact L | exact Hb]|]. split; [apply forward_last|].
      unfold prefix_ok. cbn [ctx_with_comp cx_comp cx_input]. rewrite forward_input, set_back_input. exact P.
  - apply Nat.eqb_neq in Eend.
    set (c1 := ctx_with_comp c (fst (forward (sg_set_back (cx_comp c) g)))).
    assert (G1 : sgeo (fst (forward (sg_set_back (cx_comp c) g)))).
    { apply g_forward. apply (set_back_sgeo _ g g0 r Hgeo E C1 C2). }
    assert (Hmain : forall i k, (i = cx_input c /\ (k = length i \/ (k = cx_caret c /\ s_end g < k))) ->
                                fit (compose cfg translate (ctx_with_input c1 i k))).
    { intros i k Hik.
      assert (Hok : sfit true (sg_input (cx_comp c)) g -> fit (compose cfg translate (ctx_with_input c1 i k))).
      { intros Hg. apply compose_fit_gen; [exact G1|]. split; [exact He|]. unfold c1. cbn [ctx_with_input ctx_with_comp cx_comp].
        rewrite forward_input, set_back_input. apply forward_lfit, set_back_lfit; [apply lfit_weaken; rewrite E; exact L | apply sfit_weaken, Hg]. }
      destruct (seg_close_cases g0) as [X | (cd & X0 & X1 & X2)]; [apply Hok; unfold g; rewrite X; exact Lg0|].
      destruct (selected_in g0 cd X0) as (m & Em & Hin).
      assert (Hst : s_start g0 < c_end cd) by (destruct Hsi as (_ & Hsi); destruct (Hsi m Em) as (_ & _ & Hmp); apply Hmp, Hin).
      destruct (Nat.le_gt_cases (s_end g0) (s_start g0 + s_length g0)) as [HL | HL].
      { apply Hok. unfold g. rewrite X2. apply close_short_sfit; assumption. }
      (* a raw segment with a stale length, cut short: absorbed by the Compose *)
      destruct Lg0 as ((R & N) & _).
      destruct (is_raw g0) eqn:Er; [|specialize (N eq_refl); lia]. destruct (R eq_refl) as (R1 & R2 & R3).
      destruct Hik as (-> & Hk).
      assert (Eg : g = seg_with_tags (seg_with_end g0 (c_end cd)) (tag_insert TPartial (s_tags g0))) by exact X2.
      assert (Esegs : sg_segs (fst (forward (sg_set_back (cx_comp c) g))) = new_segment (c_end cd) (c_end cd) :: g :: r).
      { unfold sg_set_back. rewrite E. unfold forward. cbn [sg_segs sg_with_segs]. rewrite Eg at 1 2.
        cbn [s_start s_end seg_with_tags seg_with_end]. replace (s_start g0 =? c_end cd) with false by (symmetry; apply Nat.eqb_neq; lia).
        cbn [fst sg_push_back sg_segs sg_with_segs]. rewrite Eg. reflexivity. }
      destruct Hg0 as (_ & Hg0b).
      apply (compose_absorb _ g r (c_end cd)); unfold c1; cbn [ctx_with_input ctx_with_comp cx_comp cx_input cx_caret cx_err];
        rewrite ?forward_input, ?set_back_input.
      - exact Esegs.
      - exact G1.
      - unfold prefix_ok. cbn [ctx_with_input ctx_with_comp cx_comp cx_input]. rewrite ?forward_input, ?set_back_input. exact P.
      - exact He.
      - apply lfit_weaken, Lr.
      - rewrite Eg. exact Hcl.
      - rewrite Eg. reflexivity.
      - rewrite Eg. unfold is_raw. cbn [s_tags seg_with_tags]. rewrite has_tag_insert. exact Er.
      - rewrite Eg. exact R1.
      - rewrite Eg. exact Hst.
      - rewrite Eg. cbn [s_start seg_with_tags seg_with_end]. intros p Hp. apply R3. lia.
      - lia.
      - rewrite Eg in Hk. cbn [s_end seg_with_tags seg_with_end] in Hk. destruct Hk as [-> | (-> & Hk)]; lia.
      - destruct Hk as [-> | (-> & Hk)]; lia. }
    destruct (cx_caret c <=? s_end g) eqn:Er; cbn [st_ctx st_with_ctx].
    + unfold set_caret_pos. apply Hmain. split; [reflexivity|]. left. rewrite Nat.ltb_irrefl. reflexivity.
    + apply Nat.leb_gt in Er. apply (Hmain (cx_input c) (cx_caret c)). split; [reflexivity|]. right. split; [reflexivity | exact Er].
Qed.

(** ---- Context::Select, ConfirmCurrentSelection ---- *)
Lemma to_selected_sfit inp g : seg_inv cfg MPf g -> sfit true inp g -> sfit true inp (seg_with_status g SSelected).
Proof.
  intros (_ & Hmi) (Ht & Hm). split; [exact Ht|]. intros m Em. cbn in Em. specialize (Hm m Em).
  destruct (Hmi m Em) as (_ & _ & Hmp). unfold menu_ok in *. cbn [s_status seg_with_status].
  destruct (s_status g) eqn:Es; try exact Hm; [discriminate Hm|].
  split; [|split].
  - intros c Hsel. change (selected_cand g = Some c) in Hsel. destruct (selected_in g c Hsel) as (m' & Em' & Hin).
    rewrite Em in Em'. injection Em' as <-. apply Hm, Hin.
  - intros c Hin. specialize (Hm c Hin). unfold oend. cbn [s_end s_start s_length seg_with_status]. lia.
  - cbn [s_end s_start seg_with_status]. intros Hse. destruct m as [|c0 m']; [reflexivity|]. exfalso.
    pose proof (Hm c0 (or_introl eq_refl)). pose proof (Hmp c0 (or_introl eq_refl)). lia.
Qed.

Lemma set_back_cinv c g0 r g :
  cinvT c -> sg_segs (cx_comp c) = g0 :: r -> seg_inv cfg MPf g -> s_start g = s_start g0 -> s_end g = s_end g0 ->
  cinvT (ctx_with_comp c (sg_set_back (cx_comp c) g)).
Proof.
  intros H E Hg E1 E2.
  assert (Hbg : True -> back_geo_ok c g).
  { intros _. wf back_geo_same. intros g1 r1 X. rewrite E in X. injection X as <- <-. split; assumption. }
  wf cinv_set_back.
Qed.

Lemma select_good s i : sgood s -> sgood (fst (select cfg translate s i)).
Proof.
  intros (H & F). unfold select. destruct (sg_segs (cx_comp (st_ctx s))) as [|g r] eqn:E; [split; assumption|].
  destruct (cand_at g i) as [cd|] eqn:Ec; [|split; assumption]. cbn [fst].
  assert (Hsi : seg_inv cfg MPf g) by (wf back_inv).
  assert (Hsi1 : seg_inv cfg MPf (seg_with_sel g i)).
  { wf seg_inv_sel_at. intros m Hm _. wf cand_at_some. }
  assert (Hsi2 : seg_inv cfg MPf (seg_with_status (seg_with_sel g i) SSelected)) by (wf seg_inv_status).
  destruct (back_of_fit _ g r F E) as (Hg & Hc). destruct F as (He & L & K & P).
  apply (on_select_good _ (seg_with_status (seg_with_sel g i) SSelected) r).
  - apply (set_back_cinv _ g r _ H E Hsi2); reflexivity.
  - exact He.
  - cbn. unfold sg_set_back. rewrite E. reflexivity.
  - cbn [st_ctx st_with_ctx ctx_with_comp cx_comp]. rewrite set_back_input. rewrite E in L. inversion L; subst.
    constructor; [|assumption]. apply to_selected_sfit; [exact Hsi1|]. apply sel_sfit; assumption.
  - reflexivity.
  - unfold prefix_ok. cbn. rewrite set_back_input. exact P.
Qed.

Lemma confirm_current_selection_good s : sgood s -> sgood (fst (confirm_current_selection cfg translate s)).
Proof.
  intros (H & F). unfold confirm_current_selection. destruct (sg_segs (cx_comp (st_ctx s))) as [|g r] eqn:E; [split; assumption|].
  assert (Hsi : seg_inv cfg MPf g) by (wf back_inv).
  assert (Hsi2 : seg_inv cfg MPf (seg_with_status g SSelected)) by (wf seg_inv_status).
  destruct (back_of_fit _ g r F E) as (Hg & Hc).
  pose proof (to_selected_sfit _ g Hsi Hg) as Hg2.
  pose proof (set_back_cinv _ g r _ H E Hsi2 eq_refl eq_refl) as H1.
  assert (Hos : sgood (on_select cfg translate (st_with_ctx s (ctx_with_comp (st_ctx s)
                        (sg_set_back (cx_comp (st_ctx s)) (seg_with_status g SSelected)))))).
  { destruct F as (He & L & K & P). apply (on_select_good _ (seg_with_status g SSelected) r).
    - exact H1.
    - exact He.
    - cbn. unfold sg_set_back. rewrite E. reflexivity.
    - cbn [st_ctx st_with_ctx ctx_with_comp cx_comp]. rewrite set_back_input. rewrite E in L. inversion L; subst.
      constructor; assumption.
    - reflexivity.
    - unfold prefix_ok. cbn. rewrite set_back_input. exact P. }
  destruct (selected_cand (seg_with_status g SSelected)); cbn [fst]; [exact Hos|].
  destruct (s_end (seg_with_status g SSelected) =? s_start (seg_with_status g SSelected)) eqn:Ee; cbn [fst]; [|exact Hos].
  apply Nat.eqb_eq in Ee. split; [exact H1|]. cbn [st_ctx st_with_ctx].
  apply (fit_set_back _ g r _ F E Hg2). intros _. cbn in Ee |- *. lia.
Qed.

(** ---- combinators (as in WfProofs.v, for any state predicate) ---- *)
Lemma on_ctx_b_good s f : sgood s -> (forall c, good c -> good (fst (f c))) -> sgood (fst (on_ctx_b s f)).
Proof. intros H Hf. unfold on_ctx_b. specialize (Hf _ H). destruct (f (st_ctx s)). exact Hf. Qed.
Lemma on_ctx_good s f : sgood s -> (forall c, good c -> good (f c)) -> sgood (on_ctx s f).
Proof. intros H Hf. apply Hf, H. Qed.
Lemma or_else_good r f : sgood (fst r) -> (forall s, sgood s -> sgood (fst (f s))) -> sgood (fst (or_else r f)).
Proof. intros H Hf. unfold or_else. destruct r as [s ok]. destruct ok; [exact H | apply Hf, H]. Qed.
Lemma sgood_sink s t : sgood s -> sgood (sink s t).
Proof. intros H; exact H. Qed.

Lemma kbp_process_good {A} (run : state -> A -> state * bool) km fb s k :
  (forall s a, sgood s -> sgood (fst (run s a))) -> sgood s -> sgood (fst (kbp_process run km fb s k)).
Proof.
  intros Hr H. unfold kbp_process.
  assert (Ha : forall s k, sgood s -> sgood (fst (kbp_accept run km s k))).
  { intros s0 k0 H0. unfold kbp_accept. destruct (keymap_find km k0); [apply Hr; exact H0 | exact H0]. }
  pose proof (Ha s k H) as H1. destruct (kbp_accept run km s k) as [s1 ok1]. cbn [fst] in H1.
  destruct ok1; [exact H1|]. destruct (k_ctrl k || k_alt k); [exact H1|].
  destruct (k_shift k && fb); [|exact H1].
  pose proof (Ha s1 (mkKey (k_code k) (shift_as_control (k_mod k))) H1) as H2.
  destruct (kbp_accept run km s1 _) as [s2 ok2]. cbn [fst] in H2. destruct ok2; [exact H2|].
  pose proof (Ha s2 (mkKey (k_code k) (clear_shift (k_mod k))) H2) as H3.
  destruct (kbp_accept run km s2 _) as [s3 ok3]. cbn [fst] in H3. destruct ok3; exact H3.
Qed.

(** ---- Selector, Speller, Navigator ---- *)
Lemma run_sel_action_good s a : sgood s -> sgood (fst (run_sel_action cfg s a)).
Proof.
  intros H. destruct a; cbn [run_sel_action]; try exact H; apply on_ctx_b_good; try exact H; intros c Hc.
  - apply sel_previous_candidate_good, Hc.
  - apply sel_next_candidate_good, Hc.
  - apply sel_previous_page_good, Hc.
  - apply sel_next_page_good, Hc.
  - apply sel_home_good, Hc.
  - apply sel_end_good, Hc.
Qed.

Lemma select_candidate_at_good s i : sgood s -> sgood (fst (select_candidate_at cfg translate s i)).
Proof.
  intros H. unfold select_candidate_at. destruct (sg_segs (cx_comp (st_ctx s))) as [|g r]; [exact H|].
  destruct (cf_page_size cfg <=? i)%Z; [exact H | apply select_good, H].
Qed.

Lemma selector_process_good s k : sgood s -> sgood (fst (selector_process cfg translate s k)).
Proof.
  intros H. unfold selector_process. destruct (k_release k || k_alt k || k_super k); [exact H|].
  destruct (sg_segs (cx_comp (st_ctx s))) as [|g r]; [exact H|].
  destruct ((match s_menu g with None => true | Some _ => false end) || has_tag TRaw (s_tags g)); [exact H|].
  pose proof (kbp_process_good (run_sel_action cfg) (sel_keymap (st_ctx s)) false s k (fun s a => run_sel_action_good s a) H) as H1.
  destruct (kbp_process (run_sel_action cfg) (sel_keymap (st_ctx s)) false s k) as [s1 r1]. cbn [fst] in H1.
  destruct (negb (presult_is_noop r1)); [exact H1|].
  destruct (0 <=? select_key_index cfg k)%Z; [apply select_candidate_at_good, H1 | exact H1].
Qed.

Lemma speller_process_good s k : sgood s -> sgood (fst (speller_process cfg translate s k)).
Proof.
  intros H. unfold speller_process.
  repeat match goal with |- sgood (fst (if ?b then _ else _)) => destruct b; [exact H|] end.
  cbn [fst]. apply on_ctx_good; [exact H|]. intros c Hc. apply begin_editing_good, push_input_good, Hc.
Qed.

Lemma begin_move_good s : sgood s -> sgood (begin_move s).
Proof.
  intros H. unfold begin_move. pose proof (begin_editing_good _ H) as H1.
  destruct (negb (bytes_eqb (st_nav_input s) (cx_input (begin_editing (st_ctx s))))
            || (spans_end (st_spans s) <? cx_caret (begin_editing (st_ctx s)))); exact H1.
Qed.

Lemma caret_to_good s pos : sgood s -> sgood (st_with_ctx s (set_caret_pos cfg translate (st_ctx s) pos)).
Proof. intros H. apply set_caret_pos_good, H. Qed.

Lemma jump_left_good s p : sgood s -> sgood (fst (jump_left cfg translate s p)).
Proof. intros H. unfold jump_left. match goal with |- sgood (fst (if ?b then _ else _)) => destruct b end; [apply caret_to_good|]; exact H. Qed.
Lemma jump_right_good s p : sgood s -> sgood (fst (jump_right cfg translate s p)).
Proof. intros H. unfold jump_right. match goal with |- sgood (fst (if ?b then _ else _)) => destruct b end; [apply caret_to_good|]; exact H. Qed.
Lemma move_left_good s : sgood s -> sgood (fst (move_left cfg translate s)).
Proof. intros H. unfold move_left. destruct (cx_caret (st_ctx s) =? 0); [|apply caret_to_good]; exact H. Qed.
Lemma move_right_good s : sgood s -> sgood (fst (move_right cfg translate s)).
Proof. intros H. unfold move_right. destruct (length (cx_input (st_ctx s)) <=? cx_caret (st_ctx s)); [|apply caret_to_good]; exact H. Qed.
Lemma go_home_good s : sgood s -> sgood (fst (go_home cfg translate s)).
Proof.
  intros H. unfold go_home.
  match goal with |- sgood (fst (if ?b then _ else if ?d then _ else _)) => destruct b; [|destruct d] end;
    try apply caret_to_good; exact H.
Qed.
Lemma go_to_end_good s : sgood s -> sgood (fst (go_to_end cfg translate s)).
Proof. intros H. unfold go_to_end. match goal with |- sgood (fst (if ?b then _ else _)) => destruct b end; [apply caret_to_good|]; exact H. Qed.

Lemma run_nav_action_good s a : sgood s -> sgood (fst (run_nav_action cfg translate s a)).
Proof.
  intros H. pose proof (begin_move_good s H) as H1.
  destruct a; cbn [run_nav_action fst]; try exact H.
  - apply or_else_good; [|intros; apply go_to_end_good; assumption].
    destruct ((1 <? spans_count (st_spans (begin_move s))) && _); [apply jump_left_good | apply move_left_good]; exact H1.
  - apply or_else_good; [apply move_left_good, H1 | intros; apply go_to_end_good; assumption].
  - apply or_else_good; [apply move_right_good, H1 | intros; apply go_home_good; assumption].
  - apply or_else_good; [apply jump_left_good, H1 | intros; apply go_to_end_good; assumption].
  - apply or_else_good; [apply jump_right_good, H1 | intros; apply go_to_end_good; assumption].
  - apply go_home_good, H1.
  - apply go_to_end_good, H1.
Qed.

Lemma navigator_process_good s k : sgood s -> sgood (fst (navigator_process cfg translate s k)).
Proof.
  intros H. unfold navigator_process. destruct (k_release k); [exact H|].
  destruct (negb (is_composing (st_ctx s))); [exact H|].
  apply kbp_process_good; [intros; apply run_nav_action_good; assumption | exact H].
Qed.

(** ---- the running [end] of GetPreedit / GetScriptText stays inside the input ---- *)
Definition sel_in (n : nat) (g : segment) : Prop :=
  s_end g <= n /\ forall c, selected_cand g = Some c -> c_end c <= n.

Lemma sfit_sel_in inp n g : sfit true inp g -> seg_geo n g -> sel_in n g.
Proof.
  intros (_ & Hm) (A & B). split; [exact B|]. intros c Hsel. destruct (selected_in g c Hsel) as (m & Em & Hin).
  specialize (Hm m Em). unfold menu_ok in Hm. destruct (s_status g).
  - discriminate Hm.
  - specialize (Hm c Hin). lia.
  - destruct Hm as (Hm & _). specialize (Hm c Hsel). lia.
  - destruct Hm as (Hm & _). specialize (Hm c Hsel). lia.
Qed.

Lemma fit_sel_in c : cinvT c -> fit c -> Forall (sel_in (length (sg_input (cx_comp c)))) (segs_fwd (cx_comp c)).
Proof.
  intros H (_ & L & _). destruct (good_geo c H) as ((_ & Hf) & _). unfold segs_fwd. apply Forall_rev.
  unfold lfit in L. rewrite Forall_forall in *. intros g Hg. apply (sfit_sel_in (sg_input (cx_comp c))); auto.
Qed.

Lemma script_text_loop_ok inp l acc :
  Forall (sel_in (length inp)) l -> snd (fst acc) <= length inp -> snd acc = true ->
  snd (script_text_loop inp l acc) = true.
Proof.
  revert acc. induction l as [|g r IH]; intros [[res en] ok] Hf Hen Hok; [exact Hok|]. cbn [fst snd] in Hen, Hok. subst ok.
  inversion Hf as [|? ? (A & B) Hr]; subst. cbn [script_text_loop].
  pose proof (substr_se_ok inp en) as Hs.
  destruct (selected_cand g) as [c|] eqn:Ec.
  - specialize (B c eq_refl).
    destruct (negb (match c_text c with [] => true | _ => false end) && status_geb (s_status g) SSelected); [apply IH; auto|].
    destruct (c_preedit c); [|apply IH; auto].
    specialize (Hs (c_end c) Hen). destruct (substr_se inp en (c_end c)). cbn in Hs. subst. apply IH; auto.
  - specialize (Hs (s_end g) Hen). destruct (substr_se inp en (s_end g)). cbn in Hs. subst. apply IH; auto.
Qed.

Lemma comp_script_text_ok c : cinvT c -> fit c -> snd (comp_script_text (cx_comp c)) = true.
Proof.
  intros H F. unfold comp_script_text.
  pose proof (script_text_loop_ok (sg_input (cx_comp c)) (segs_fwd (cx_comp c)) ([], 0, true) (fit_sel_in c H F)) as X.
  destruct (script_text_loop (sg_input (cx_comp c)) (segs_fwd (cx_comp c)) ([], 0, true)) as [[res en] ok]. cbn [fst snd] in *.
  apply X; [lia | reflexivity].
Qed.

Lemma preedit_step_ok inp full caret is_last a g :
  sel_in (length inp) g -> pa_end a <= length inp -> pa_ok a = true ->
  pa_end (preedit_step inp full caret is_last a g) <= length inp /\ pa_ok (preedit_step inp full caret is_last a g) = true.
Proof.
  intros (A & B) Hen Hok. unfold preedit_step.
  set (a1 := if caret =? pa_end a then _ else a).
  assert (H1 : pa_end a1 = pa_end a /\ pa_ok a1 = pa_ok a) by (subst a1; destruct (caret =? pa_end a); split; reflexivity).
  destruct H1 as (E1 & E2). clearbody a1.
  pose proof (substr_se_ok inp (pa_end a) (s_end g) Hen) as Hs.
  destruct (negb is_last).
  - destruct (selected_cand g) as [c|]; [cbn; split; [apply B; reflexivity | congruence]|].
    destruct (has_tag TPhony (s_tags g)); [cbn; split; [exact A | congruence]|].
    destruct (substr_se inp (pa_end a) (s_end g)) as [t ok]. cbn in Hs. subst ok. cbn. rewrite E2, Hok. split; [exact A | reflexivity].
  - match goal with |- context [match pa_sel_end ?x with _ => _ end] => set (a2 := x) end.
    assert (H2 : pa_end a2 <= length inp /\ pa_ok a2 = true).
    { subst a2. destruct (selected_cand g) as [c|].
      - specialize (B c eq_refl). destruct (c_preedit c) as [|b0 p0].
        + destruct (substr_se inp (pa_end a) (s_end g)) as [t ok]. cbn in Hs. subst ok. cbn. rewrite E2, Hok. split; [exact A | reflexivity].
        + destruct (find_byte byte_tab (b0 :: p0)); [|cbn; split; [exact B | congruence]].
          destruct ((caret =? c_end c) && (c_end c =? length full)); cbn; split; try exact B; congruence.
      - destruct (substr_se inp (pa_end a) (s_end g)) as [t ok]. cbn in Hs. subst ok. cbn. rewrite E2, Hok. split; [exact A | reflexivity]. }
    clearbody a2. destruct (pa_sel_end a2); [cbn; exact H2 | exact H2].
Qed.

Lemma preedit_loop_ok inp full caret l a :
  Forall (sel_in (length inp)) l -> pa_end a <= length inp -> pa_ok a = true ->
  pa_ok (preedit_loop inp full caret l a) = true.
Proof.
  revert a. induction l as [|g r IH]; intros a Hf Hen Hok; [exact Hok|]. inversion Hf; subst. cbn [preedit_loop].
  destruct (preedit_step_ok inp full caret (match r with [] => true | _ => false end) a g H1 Hen Hok) as (X & Y).
  apply IH; assumption.
Qed.

Lemma ctx_preedit_ok c : cinvT c -> fit c -> pe_ok (ctx_preedit c) = true.
Proof.
  intros H F. unfold ctx_preedit, comp_preedit.
  pose proof (preedit_loop_ok (sg_input (cx_comp c)) (cx_input c) (cx_caret c) (segs_fwd (cx_comp c))
                              (mkPacc [] None 0 (Some 0) 0 true) (fit_sel_in c H F) ltac:(cbn; lia) eq_refl) as X.
  set (a := preedit_loop _ _ _ _ _) in *. clearbody a.
  set (a' := if pa_end a <? length (sg_input (cx_comp c)) then _ else a).
  assert (Y : pa_ok a' = true) by (subst a'; destruct (pa_end a <? _); [cbn|]; exact X). clearbody a'.
  destruct (_ ++ comp_prompt (cx_comp c)); cbn; exact Y.
Qed.

Lemma g_menu_view_ok c : cinvT c -> snd (menu_view cfg c) = true.
Proof. intros H. wf menu_view_ok. Qed.

Lemma view_no_err s : sgood s -> snd (view_of cfg s) = None.
Proof.
  intros (H & F). unfold view_of. pose proof (ctx_commit_text_ok (st_ctx s) H) as H2.
  destruct (ctx_commit_text (st_ctx s)) as [pv ok2]. cbn [snd] in H2. subst ok2.
  pose proof (g_menu_view_ok (st_ctx s) H) as Hm. destruct (menu_view cfg (st_ctx s)) as [mv ok3]. cbn [snd] in *. subst ok3.
  rewrite (ctx_preedit_ok (st_ctx s) H F). cbn. rewrite andb_false_r. reflexivity.
Qed.

(** ---- Editor ---- *)
Lemma ed_revert_last_edit_good s : sgood s -> sgood (ed_revert_last_edit cfg translate s).
Proof.
  intros H. unfold ed_revert_last_edit. apply or_else_good.
  - apply on_ctx_b_good; [exact H | intros; apply reopen_previous_selection_good; assumption].
  - intros s1 H1.
    pose proof (on_ctx_b_good s1 (fun c => pop_input cfg translate c 1) H1 (fun c Hc => pop_input_good c 1 Hc)) as H2.
    destruct (on_ctx_b s1 (fun c => pop_input cfg translate c 1)) as [s2 ok]. cbn [fst] in H2.
    destruct ok; [|exact H2]. apply on_ctx_b_good; [exact H2 | intros; apply reopen_previous_segment_good; assumption].
Qed.

Lemma run_editor_action_good s a : sgood s -> sgood (fst (run_editor_action cfg translate s a)).
Proof.
  intros H. destruct a; cbn [run_editor_action fst]; try exact H.
  - apply or_else_good; [apply confirm_current_selection_good, H | intros; apply commit_good; assumption].
  - apply or_else_good; [apply on_ctx_b_good; [exact H | intros; apply reopen_previous_segment_good; assumption]
                        | intros; apply confirm_current_selection_good; assumption].
  - destruct (ctx_selected_cand (st_ctx s)) as [cd|]; [|exact H]. destruct (c_comment cd); [exact H|]. cbn [fst].
    apply on_ctx_good; [apply sgood_sink, H | intros; apply clear_good; assumption].
  - apply commit_good. apply on_ctx_good; [exact H | intros; apply clear_non_confirmed_good; assumption].
  - pose proof (comp_script_text_ok (st_ctx s) (proj1 H) (proj2 H)) as Hok.
    destruct (comp_script_text (cx_comp (st_ctx s))) as [t ok]. cbn [snd] in Hok. subst ok. cbn [fst].
    apply on_ctx_good; [|intros; apply clear_good; assumption]. apply sgood_sink. exact H.
  - pose proof (confirm_current_selection_good s H) as H1.
    destruct (confirm_current_selection cfg translate s) as [s1 ok]. cbn [fst] in H1.
    destruct (negb ok || negb (has_menu (st_ctx s1))); cbn [fst]; [apply commit_good|]; exact H1.
  - apply ed_revert_last_edit_good, H.
  - apply or_else_good; [apply or_else_good|].
    + apply on_ctx_b_good; [exact H | intros; apply reopen_previous_segment_good; assumption].
    + intros; apply on_ctx_b_good; [assumption | intros; apply reopen_previous_selection_good; assumption].
    + intros; apply on_ctx_b_good; [assumption | intros; apply pop_input_good; assumption].
  - apply ed_revert_last_edit_good, H.
  - apply delete_current_selection_good, H.
  - apply on_ctx_good; [exact H | intros; apply delete_input_good; assumption].
  - pose proof (on_ctx_b_good s (clear_previous_segment cfg translate) H (fun c Hc => clear_previous_segment_good c Hc)) as H1.
    destruct (on_ctx_b s (clear_previous_segment cfg translate)) as [s1 ok]. cbn [fst] in H1.
    destruct ok; cbn [fst]; [exact H1|]. apply on_ctx_good; [exact H1 | intros; apply clear_good; assumption].
Qed.

Lemma editor_process_good s k : sgood s -> sgood (fst (editor_process cfg translate s k)).
Proof.
  intros H. unfold editor_process. destruct (k_release k); [exact H|].
  assert (H1 : sgood (fst (if is_composing (st_ctx s)
                           then kbp_process (run_editor_action cfg translate) (editor_keymap cfg) true s k
                           else (s, PNoop)))).
  { destruct (is_composing (st_ctx s)); [|exact H].
    apply kbp_process_good; [intros; apply run_editor_action_good; assumption | exact H]. }
  destruct (if is_composing (st_ctx s) then _ else _) as [s1 r]. cbn [fst] in H1.
  destruct (negb (presult_is_noop r)); [exact H1|].
  match goal with |- sgood (fst (if ?b then _ else _)) => destruct b end; [|exact H1].
  destruct (editor_char_handler cfg); cbn [fst]; try exact H1.
  - apply commit_good, H1.
  - apply on_ctx_good; [exact H1|]. intros c Hc. apply begin_editing_good, push_input_good, Hc.
Qed.

Lemma shape_process_good s k : sgood s -> sgood (fst (shape_process s k)).
Proof.
  intros H. unfold shape_process.
  repeat match goal with |- sgood (fst (if ?b then _ else _)) => destruct b; [exact H|] end. exact H.
Qed.

Lemma sgood_hist s h : sgood s -> sgood (on_ctx s (fun c => ctx_with_hist c h)).
Proof. intros H; exact H. Qed.

Lemma run_processors_good ps k :
  (forall p, In p ps -> forall s, sgood s -> sgood (fst (p s k))) ->
  forall s, sgood s -> sgood (fst (run_processors ps s k)).
Proof.
  induction ps as [|p r IH]; intros Hp s H; cbn [run_processors]; [exact H|].
  pose proof (Hp p (or_introl eq_refl) s H) as H1. destruct (p s k) as [s1 ret]. cbn [fst] in H1.
  destruct ret; cbn [fst]; try exact H1. apply IH; [|exact H1]. intros q Hq. apply Hp. right; exact Hq.
Qed.

(** ---- KeyBinder ---- *)
Lemma reinterpret_paging_key_good s k : sgood s -> sgood (fst (reinterpret_paging_key cfg translate s k)).
Proof.
  intros H. unfold reinterpret_paging_key. destruct (k_release k); [exact H|]. cbv zeta.
  match goal with |- sgood (fst (if ?b then _ else _)) => destruct b end; [exact H|].
  match goal with |- sgood (fst (if ?b then _ else _)) => destruct b end; [|exact H].
  destruct (cx_input (st_ctx s)) as [|b0 r0] eqn:Ei; [exact H|].
  match goal with |- sgood (fst (if ?b then _ else _)) => destruct b end; [exact H|].
  cbn [fst]. unfold sgood. cbn [st_ctx on_ctx st_with_ctx]. apply push_input_good, H.
Qed.

Lemma kb_perform_action_good s a : sgood s -> sgood (kb_perform_action cfg translate s a).
Proof.
  intros H. destruct a; cbn [kb_perform_action]; try exact H; apply on_ctx_good; try exact H; intros c Hc; apply set_option_good, Hc.
Qed.

Lemma key_binder_process_good R red s k :
  (forall f, R = Some f -> forall x tk, sgood x -> sgood (fst (f x tk))) ->
  (R = None -> red = true) ->
  sgood s -> sgood (fst (key_binder_process cfg translate R red s k)).
Proof.
  intros HR HN H. unfold key_binder_process.
  destruct (red || match cf_bindings cfg with [] => true | _ => false end) eqn:Er; [exact H|].
  apply orb_false_iff in Er as (Er & _).
  pose proof (reinterpret_paging_key_good s k H) as H1.
  destruct (reinterpret_paging_key cfg translate s k) as [s1 re]. cbn [fst] in H1. destruct re; [exact H1|].
  destruct (find _ (kb_vector cfg k)) as [b|]; [|exact H1].
  destruct (kb_act b) as [keys | o | o | o | sc] eqn:Ea; cbn [fst];
    try (rewrite <- Ea; apply kb_perform_action_good, H1).
  destruct keys as [|tk keys]; [exact H1|]. destruct R as [f|]; cbn [fst].
  - assert (Hf : forall l x, sgood x -> sgood (fold_left (fun y t => fst (f y t)) l x)).
    { induction l as [|t l IHl]; intros x Hx; [exact Hx|]. cbn [fold_left]. apply IHl, (HR f eq_refl), Hx. }
    apply Hf, H1.
  - rewrite (HN eq_refl) in Er. discriminate Er.
Qed.

(** ---- ascii_composer: every step is one of the context operations above ---- *)
Lemma ac_switch_good s m st : sgood s -> sgood (ac_switch cfg translate s m st).
Proof.
  intros H. unfold ac_switch. apply on_ctx_good; [|intros c Hc; apply set_option_good, Hc].
  destruct (is_composing (st_ctx s)); [|exact H].
  assert (H0 : sgood (on_ctx s (fun c => ctx_with_conn c false))) by exact H.
  destruct st.
  - destruct m; exact H0.
  - apply confirm_current_selection_good, H0.
  - apply commit_good. apply on_ctx_good; [exact H0|]. intros c Hc. apply clear_non_confirmed_good, Hc.
  - apply on_ctx_good; [exact H0|]. intros c Hc. apply clear_good, Hc.
  - exact H0.
Qed.
Lemma ac_toggle_with_key_good s code : sgood s -> sgood (ac_toggle_with_key cfg translate s code).
Proof.
  intros H. unfold ac_toggle_with_key. destruct (ac_find (cf_ascii_keys cfg) code); [|exact H].
  unfold ac_with_caps. apply (ac_switch_good s _ _ H).
Qed.
Lemma ac_process_caps_lock_good s k : sgood s -> sgood (fst (ac_process_caps_lock cfg translate s k)).
Proof.
  intros H. unfold ac_process_caps_lock.
  destruct (k_code k =? XK_Caps_Lock)%Z.
  - destruct (negb (k_release k)); [|exact H].
    match goal with |- sgood (fst (if ?b then _ else _)) => destruct b end; [exact H|].
    cbn [fst]. apply ac_switch_good. exact H.
  - destruct (k_caps k); [|exact H].
    match goal with |- sgood (fst (if ?b then _ else _)) => destruct b end; [|exact H]. exact H.
Qed.
Lemma ascii_composer_process_good s k : sgood s -> sgood (fst (ascii_composer_process cfg translate s k)).
Proof.
  intros H. unfold ascii_composer_process.
  destruct ((k_shift k && k_ctrl k) || k_alt k || k_super k); [exact H|].
  assert (H1 : sgood (fst (if ac_style_is_noop (ac_caps_style cfg) then (s, PNoop) else ac_process_caps_lock cfg translate s k))).
  { destruct (ac_style_is_noop (ac_caps_style cfg)); [exact H | apply ac_process_caps_lock_good, H]. }
  destruct (if ac_style_is_noop (ac_caps_style cfg) then (s, PNoop) else ac_process_caps_lock cfg translate s k) as [s1 r].
  cbn [fst] in H1. destruct (negb (presult_is_noop r)); [exact H1|].
  destruct (k_code k =? XK_Eisu_toggle)%Z.
  { destruct (negb (k_release k)); [|exact H1]. cbn [fst]. apply ac_toggle_with_key_good. exact H1. }
  cbv zeta.
  match goal with |- sgood (fst (if ?b then _ else _)) => destruct b end.
  - destruct (k_release k).
    + destruct (ac_shift (st_ac s1) || ac_ctrl (st_ac s1)); [|exact H1]. cbn [fst]. unfold ac_unpress.
      match goal with |- sgood (st_with_ac (if ?b then _ else _) _) => destruct b end;
        [apply (ac_toggle_with_key_good s1 _ H1) | exact H1].
    + destruct (negb (ac_shift (st_ac s1) || ac_ctrl (st_ac s1))); exact H1.
  - assert (H2 : sgood (ac_unpress s1)) by exact H1.
    match goal with |- sgood (fst (if ?b then _ else _)) => destruct b end; [exact H2|].
    destruct (get_option (st_ctx (ac_unpress s1)) opt_ascii_mode); [|exact H2].
    destruct (negb (is_composing (st_ctx (ac_unpress s1)))); [exact H2|].
    match goal with |- sgood (fst (if ?b then _ else _)) => destruct b end; [|exact H2].
    cbn [fst]. apply on_ctx_good; [exact H2|]. intros c Hc. apply push_input_good, Hc.
Qed.

Lemma process_key_gen_good kb s k :
  (forall x, sgood x -> sgood (fst (kb x k))) -> sgood s -> sgood (fst (process_key_gen cfg translate kb s k)).
Proof.
  intros Hkb H. unfold process_key_gen.
  assert (H1 : sgood (fst (run_processors (processors cfg translate kb) s k))).
  { apply run_processors_good; [|exact H]. intros p Hp s0 H0. unfold processors in Hp. apply in_map_iff in Hp as (i & <- & Hi).
    destruct i; cbn [proc_of];
      [apply speller_process_good | exfalso; exact (Hnp Hi) | apply selector_process_good
       | apply navigator_process_good | apply editor_process_good | apply Hkb | apply ascii_composer_process_good]; exact H0. }
  destruct (run_processors (processors cfg translate kb) s k) as [s1 ret]. cbn [fst] in H1.
  pose proof (shape_process_good (on_ctx s1 (fun c => ctx_with_hist c (hist_push_key (cx_hist c) k))) k H1) as Hs.
  destruct ret; cbn [fst]; try exact H1; cbv zeta;
    destruct (shape_process (on_ctx s1 (fun c => ctx_with_hist c (hist_push_key (cx_hist c) k))) k) as [sx rx];
    destruct rx; exact Hs.
Qed.

Lemma process_key_n_good fuel : forall red s k,
  (red = true \/ fuel <> 0) -> sgood s -> sgood (fst (process_key_n cfg translate fuel red s k)).
Proof.
  induction fuel as [|f IH]; intros red s k Hg H; cbn [process_key_n]; apply process_key_gen_good; try exact H; intros x Hx;
    apply key_binder_process_good; try exact Hx.
  - intros f0 X; discriminate X.
  - intros _. destruct Hg as [X | X]; [exact X | congruence].
  - intros f0 X. injection X as <-. intros y tk Hy. apply IH; [|exact Hy]. left. exact Hkg.
  - intros X; discriminate X.
Qed.

Lemma process_key_good s k : sgood s -> sgood (fst (process_key cfg translate s k)).
Proof. intros H. unfold process_key. apply process_key_n_good; [|exact H]. right. discriminate. Qed.

(** ---- the API layer ---- *)
Lemma on_current_page_good s i verb :
  (forall s n, sgood s -> sgood (fst (verb s n))) -> sgood s -> sgood (fst (on_current_page cfg s i verb)).
Proof.
  intros Hv H. unfold on_current_page. destruct (negb (has_menu (st_ctx s))); [exact H|].
  destruct (size_of_int (cf_page_size cfg) <=? i)%N; [exact H|].
  destruct (sg_segs (cx_comp (st_ctx s))); [exact H | apply Hv, H].
Qed.

Lemma do_highlight_good s i : sgood s -> sgood (fst (do_highlight cfg translate s i)).
Proof.
  intros H. unfold do_highlight. pose proof (highlight_good (st_ctx s) i H) as H1.
  destruct (highlight cfg translate (st_ctx s) i). exact H1.
Qed.

Lemma change_page_good s b : sgood s -> sgood (fst (change_page cfg translate s b)).
Proof.
  intros (H & F). unfold change_page. destruct (negb (has_menu (st_ctx s))); [split; assumption|].
  destruct (sg_segs (cx_comp (st_ctx s))) as [|g r] eqn:E; [split; assumption|].
  apply do_highlight_good. destruct (back_of_fit _ g r F E) as (Hg & Hc).
  assert (Hsi : seg_inv cfg MPf (seg_with_tags g (tag_insert TPaging (s_tags g)))) by (wf seg_inv_tags; wf back_inv).
  split.
  - apply (set_back_cinv _ g r _ H E Hsi); reflexivity.
  - cbn [st_ctx st_with_ctx]. apply (fit_set_back _ g r _ F E); [apply sfit_tags_insert; [discriminate | exact Hg] | exact Hc].
Qed.

Lemma exec_good s o : sgood s -> sgood (fst (exec cfg translate s o)).
Proof.
  intros H. destruct o; cbn [exec].
  - pose proof (process_key_good s (mkKey code mask) H) as H1. destruct (process_key cfg translate s _). exact H1.
  - apply set_input_good, H.
  - apply set_caret_pos_good, H.
  - pose proof (select_good s i H) as H1. destruct (select cfg translate s i). exact H1.
  - pose proof (on_current_page_good s i (select cfg translate) (fun s n Hs => select_good s n Hs) H) as H1.
    destruct (on_current_page cfg s i _). exact H1.
  - pose proof (do_highlight_good s i H) as H1. destruct (do_highlight cfg translate s i). exact H1.
  - pose proof (on_current_page_good s i (do_highlight cfg translate) (fun s n Hs => do_highlight_good s n Hs) H) as H1.
    destruct (on_current_page cfg s i _). exact H1.
  - pose proof (delete_candidate_good s i H) as H1. destruct (delete_candidate cfg s i). exact H1.
  - pose proof (on_current_page_good s i (delete_candidate cfg) (fun s n Hs => delete_candidate_good s n Hs) H) as H1.
    destruct (on_current_page cfg s i _). exact H1.
  - pose proof (change_page_good s backward H) as H1. destruct (change_page cfg translate s backward). exact H1.
  - apply commit_good, H.
  - apply clear_good, H.
  - destruct (st_commit s); exact H.
  - exact H.
  - exact H.
  - exact H.
  - exact H.
  - apply set_option_good, H.
  - exact H.
Qed.

Lemma init_good : sgood (init_state cfg).
Proof.
  split; [wf init_inv|]. split; [reflexivity|]. split; [constructor|]. split; [exact I | reflexivity].
Qed.

Lemma step_good s o :
  sgood s -> sgood (fst (step cfg translate s o)) /\ exists r v, snd (step cfg translate s o) = Obs r v.
Proof.
  intros H. unfold step. assert (He : cx_err (st_ctx s) = None) by apply H. rewrite He.
  pose proof (exec_good s o H) as H1. destruct (exec cfg translate s o) as [s1 r]. cbn [fst] in H1.
  pose proof (view_no_err s1 H1) as Hv. destruct (view_of cfg s1) as [v ve]. cbn [snd] in Hv. subst ve.
  assert (He1 : cx_err (st_ctx s1) = None) by apply H1. rewrite He1. cbn [fst snd]. split; [exact H1 | eauto].
Qed.

Lemma run_from_total ops : forall s, sgood s ->
  Forall (fun ob => exists r v, ob = Obs r v) (snd (run_from cfg translate s ops)).
Proof.
  induction ops as [|o r IH]; intros s H; [constructor|]. cbn [run_from].
  destruct (step_good s o H) as (Hi & Hob). destruct (step cfg translate s o) as [s1 ob]. cbn [fst snd] in *.
  specialize (IH s1 Hi). destruct (run_from cfg translate s1 r) as [s2 obs]. cbn [snd] in *. constructor; assumption.
Qed.

Theorem total_gen ops : Forall (fun ob => exists r v, ob = Obs r v) (snd (run cfg translate ops)).
Proof. apply run_from_total, init_good. Qed.

End Full.

(** ---- the theorem ---- *)
(** candidates lie inside the segment they were made for and cover at least one byte of it *)
Definition cands_fit (translate : bytes -> seginfo -> list cand) : Prop :=
  forall i s c, In c (translate i s) -> si_start s < c_end c /\ c_end c <= si_start s + length i.

Definition is_obs (o : obs) : bool := match o with ObsCrash _ => false | Obs _ _ => true end.

(** the chains this theorem covers (every configuration of the model before the punctuator
    was added is of this form): segmentors [abc_segmentor, fallback_segmentor], any order of
    speller / selector / navigator / editor, and the source fact about CommitHistory::Push *)
Definition plain_chain (cfg : config) : Prop :=
  cf_hist_guard cfg = true /\ cf_kb_guard cfg = true /\ cf_segmentors cfg = [SgAbc; SgFallback] /\
  ~ In PPunctuator (cf_processors cfg).

Theorem core_total (cfg : config) (translate : bytes -> seginfo -> list cand) :
  (1 <= cf_page_size cfg)%Z ->
  (forall i s, (Z.of_nat (length (translate i s)) + cf_page_size cfg < 2147483648)%Z) ->
  cf_del_checked cfg = true ->
  plain_chain cfg ->
  cands_fit translate ->
  forall ops, forallb is_obs (snd (run cfg translate ops)) = true.
Proof.
  intros Hps Hlen Hdel (Hhg & Hkg & Hseg & Hnp) Hfit ops. apply forallb_forall. intros o Ho.
  pose proof (total_gen cfg translate Hps Hlen Hdel Hhg Hkg Hseg Hnp Hfit ops) as H. rewrite Forall_forall in H.
  destruct (H o Ho) as (r & v & ->). reflexivity.
Qed.
